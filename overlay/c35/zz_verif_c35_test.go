package main

// C35 - session tokens cannot be forged, outlive expiry, or survive logout.
//
// This file is compiled INTO /repo/tools/httpserver (package main) by `go test -overlay`; nothing is written to
// the repository. It drives the real SessionStore (real system DB in a temp directory, standalone mode, no Redis)
// with a rapid state machine and compares every ValidateToken / Refresh outcome with a session model that is
// written from the property statement, not from auth.go.
//
// Model of one issued session: the two token strings, who it was issued to, under which signing secret, the
// window in which its true expiry instant lies, and two flags (revoked, rotated away by a successful refresh).
//   ValidateToken(tok) must succeed iff tok is byte-identical to the access token of a session that was issued
//   under the secret in force now, is not revoked, not rotated away, and not expired.
//   Refresh(rt) must fail when rt is not the live refresh token of a session (unknown, rotated away, revoked,
//   refresh-expired). When it succeeds, the returned access token must validate at once and the old refresh
//   token must stop working.
//
// Time: auth.go reads time.Now() itself and has no clock hook. Clock positions are therefore produced at issue
// time: a session that was issued `e` ago under a configured TTL is indistinguishable (apart from the unused
// IssuedAt field) from one issued now with ttl = TTL-e and refresh ttl = 7d-e, so the machine sets the store's
// ttl/refreshTTL fields to those values around the real CreateSession/CreateToken call (the same field
// currentTokenFacade() rewrites when the configuration changes) and restores the configured TTL afterwards.
// Every call is bracketed with timestamps; assertions are made only when a token is definitely live or
// definitely expired.

import (
	"context"
	"crypto/hmac"
	"crypto/sha256"
	"encoding/base64"
	"encoding/json"
	"fmt"
	"os"
	"runtime"
	"sort"
	"strings"
	"testing"
	"time"

	"pgregory.net/rapid"
)

const (
	c35SlugRevoked = "revoked-token-still-validates"
	c35SlugRefresh = "refresh-returns-expired-access-token"
	c35SlugSecret  = "old-secret-token-still-validates"

	c35Rule = "the history contains a RevokeToken or a successful Refresh that is followed by a later ValidateToken of the affected access token or a Refresh with the affected refresh token"
)

func c35Rec() *vstatRec {
	return vstatFor("C35").Meta("exploration", c35Rule,
		"clock positions are simulated at issue time (ttl = configured TTL - elapsed, refresh ttl = 7d - elapsed) because auth.go reads time.Now() directly; IssuedAt is therefore always 'now', a field no decision depends on",
		"tokens that carry a correct HMAC under the CURRENT secret but were never issued by the store are not generated, except expired ones (forging them needs the secret)",
		"using an access token as a refresh token, and a refresh token as a bearer token, are outside the property statement and are not generated",
		"one process, standalone system DB on a real temp directory, sequential calls",
		"the statement says 'accepts only if'; the converse (a live, unrevoked, current-secret token is accepted) is asserted as well, as the design asks, and failures name the direction")
}

// ---------------------------------------------------------------------------------------------- model

type c35Session struct {
	id      int
	kind    string // "session" (CreateSession), "token" (CreateToken), "refreshed" (returned by Refresh)
	pos     string
	access  string
	refresh string
	user    string
	role    string
	secret  int       // index of the signing secret in force when it was issued
	expLo   time.Time // the access token's true expiry instant lies in [expLo, expHi]
	expHi   time.Time
	rexpLo  time.Time // same for the refresh token
	rexpHi  time.Time
	revoked bool
	rotated bool
	// classification by clock position (not by the clock), used only to decide what to generate
	accessLive  bool
	refreshLive bool
}

type c35Machine struct {
	ctx     context.Context
	rec     *vstatRec
	store   *SessionStore
	dir     string
	cfgTTL  time.Duration
	secrets []string
	cur     int
	sess    []*c35Session
	trace   []string
	labels  map[string]bool
	used    bool // non-trivial rule satisfied
}

var (
	c35Users = []string{"root", "alice", "bob"}
	c35Roles = []string{"admin", "user", "guest"}
)

type c35Pos struct {
	name        string
	accessLive  bool
	refreshLive bool
	elapsed     func(ttl time.Duration) time.Duration
}

var c35Positions = []c35Pos{
	{"just-issued", true, true, func(ttl time.Duration) time.Duration { return 0 }},
	{"late-live", true, true, func(ttl time.Duration) time.Duration { return ttl - 10*time.Minute }},
	{"expiring-now", false, true, func(ttl time.Duration) time.Duration { return ttl - time.Millisecond }}, // DESIGN: TTL of 1 ms, expired at issue
	{"just-expired", false, true, func(ttl time.Duration) time.Duration { return ttl + time.Second }},
	{"expired-5m", false, true, func(ttl time.Duration) time.Duration { return ttl + 5*time.Minute }},
	{"expired-6d", false, true, func(ttl time.Duration) time.Duration { return 6 * 24 * time.Hour }},
	{"refresh-expired", false, false, func(ttl time.Duration) time.Duration { return defaultRefreshTTL + time.Hour }},
}

// c35Now is the wall clock without the monotonic reading, i.e. what auth.go compares (time.Now().UTC()).
func c35Now() time.Time { return time.Now().Round(0) }

func (m *c35Machine) lab(l string) { m.labels[l] = true }

func (m *c35Machine) op(format string, a ...any) {
	m.trace = append(m.trace, fmt.Sprintf(format, a...))
}

func (m *c35Machine) describe(s *c35Session) string {
	return fmt.Sprintf("session#%d{kind=%s pos=%s user=%s role=%s secret=%d(current=%d) revoked=%v rotated=%v}",
		s.id, s.kind, s.pos, s.user, s.role, s.secret, m.cur, s.revoked, s.rotated)
}

// detail logs the parts of a failure that differ from run to run (token bytes, timestamps, error texts with
// paths). rapid requires the failure message itself to be a function of the drawn values, or it cannot shrink.
func (m *c35Machine) detail(rt *rapid.T, s *c35Session, format string, a ...any) {
	if s != nil {
		rt.Logf("C35 detail: session#%d access=%q refresh=%q access expiry in [%s, %s] now=%s", s.id, s.access, s.refresh,
			s.expLo.UTC().Format(time.RFC3339Nano), s.expHi.UTC().Format(time.RFC3339Nano), c35Now().UTC().Format(time.RFC3339Nano))
	}
	rt.Logf("C35 detail: "+format, a...)
}

func (m *c35Machine) history() string { return strings.Join(m.trace, " ; ") }

// isIssued reports whether tok is byte-identical to any token string the store handed out in this case.
func (m *c35Machine) isIssued(tok string) bool {
	for _, s := range m.sess {
		if tok == s.access || (s.refresh != "" && tok == s.refresh) {
			return true
		}
	}
	return false
}

func c35Setup(rt *rapid.T) *c35Machine {
	dir, err := os.MkdirTemp("", "c35-")
	if err != nil {
		rt.Fatalf("HARNESS-ERROR cannot create temp dir: %v", err)
	}
	m := &c35Machine{ctx: context.Background(), rec: c35Rec(), dir: dir, labels: map[string]bool{}}
	m.cfgTTL = rapid.SampledFrom([]time.Duration{30 * time.Minute, time.Hour}).Draw(rt, "configuredTTL")
	m.secrets = []string{"c35-secret-zero", "c35-secret-one", "c35-secret-two"}
	m.cur = 0
	config = Config{
		SystemDB:      &DatabaseConfig{Name: SystemDBName, Path: dir, Mode: "standalone"},
		SessionSecret: m.secrets[0],
	}
	m.store = NewSessionStore(m.cfgTTL)
	m.op("ttl=%s", m.cfgTTL)
	return m
}

func (m *c35Machine) close() { _ = os.RemoveAll(m.dir) }

// ---------------------------------------------------------------------------------------------- actions

func (m *c35Machine) issue(rt *rapid.T, withRefresh bool) {
	pos := rapid.SampledFrom(c35Positions).Draw(rt, "clockPosition")
	user := rapid.SampledFrom(c35Users).Draw(rt, "user")
	role := rapid.SampledFrom(c35Roles).Draw(rt, "role")
	e := pos.elapsed(m.cfgTTL)
	ttl, rttl := m.cfgTTL-e, defaultRefreshTTL-e
	m.store.ttl, m.store.refreshTTL = ttl, rttl
	t0 := c35Now()
	var access, refresh string
	var err error
	if withRefresh {
		access, refresh, err = m.store.CreateSession(m.ctx, user, role)
	} else {
		access, err = m.store.CreateToken(m.ctx, user, role)
	}
	t1 := c35Now()
	m.store.ttl, m.store.refreshTTL = m.cfgTTL, defaultRefreshTTL
	if err != nil || access == "" || (withRefresh && refresh == "") {
		rt.Logf("C35 detail: access=%q refresh=%q err=%v", access, refresh, err)
		rt.Fatalf("HARNESS-ERROR issuing a session failed (error=%v)", err != nil)
	}
	if m.isIssued(access) || (withRefresh && m.isIssued(refresh)) {
		rt.Fatalf("HARNESS-ERROR the store issued a token string twice")
	}
	s := &c35Session{id: len(m.sess), kind: "token", pos: pos.name, access: access, refresh: refresh, user: user, role: role,
		secret: m.cur, expLo: t0.Add(ttl), expHi: t1.Add(ttl), accessLive: pos.accessLive, refreshLive: withRefresh && pos.refreshLive}
	if withRefresh {
		s.kind = "session"
		s.rexpLo, s.rexpHi = t0.Add(rttl), t1.Add(rttl)
	}
	if !pos.accessLive {
		// "expiring-now" has a millisecond left when the call returns: let it pass, so that every later step sees
		// an expired token and the case does not depend on how fast the next call starts (at most 1 ms of spinning).
		for deadline := t1.Add(2 * time.Second); !c35Now().After(s.expHi); {
			if c35Now().After(deadline) {
				rt.Fatalf("HARNESS-ERROR the clock does not advance past the expiry of a token issued as expired")
			}
			runtime.Gosched()
		}
	}
	m.sess = append(m.sess, s)
	m.op("issue#%d(%s,%s,%s,%s)", s.id, s.kind, pos.name, user, role)
	m.lab("issued/" + pos.name)
	m.rec.Label("ops/issue")
}

// The choice of what to generate must not depend on the clock, or a failing case could not be replayed and
// shrunk: sessions are therefore classified by the clock position they were issued at (accessLive: the access
// token has at least ten minutes left; refreshLive: the refresh token has at least a day left). The oracle, in
// contrast, uses the bracketed timestamps of each call.

// knownValidateClass names the listed known finding whose class ValidateToken(s.access) falls into ("" when
// none). Classes of LISTED findings are removed from the generator by construction and counted; while a finding
// is not listed its class stays in and a failure is a VIOLATION.
func (m *c35Machine) knownValidateClass(s *c35Session) string {
	dead := s.revoked || s.rotated
	switch {
	case dead && s.secret == m.cur && s.accessLive && verifKnown("C35", c35SlugRevoked):
		return c35SlugRevoked // revoked / rotated away, but the signature alone still checks out
	case !dead && s.secret != m.cur && s.accessLive && verifKnown("C35", c35SlugSecret):
		return c35SlugSecret // live session signed under a previous secret
	}
	return ""
}

// knownRefreshClass: a refresh, with a live refresh token, of a session whose access token has expired.
func (m *c35Machine) knownRefreshClass(s *c35Session) string {
	dead := s.revoked || s.rotated
	if !dead && s.refreshLive && !s.accessLive && verifKnown("C35", c35SlugRefresh) {
		return c35SlugRefresh
	}
	return ""
}

// pick draws a session among those for which excluded() is "". prefer biases the draw towards a class that
// matters for the property ("dead": revoked or rotated away, "fresh": neither and with a live access token,
// "any"); the bias is itself a drawn value.
func (m *c35Machine) pick(rt *rapid.T, withRefreshOnly bool, excluded func(*c35Session) string, prefer ...string) *c35Session {
	var cand []*c35Session
	removed := map[string]bool{}
	for _, s := range m.sess {
		if withRefreshOnly && s.refresh == "" {
			continue
		}
		if excluded != nil {
			if slug := excluded(s); slug != "" {
				removed[slug] = true
				continue
			}
		}
		cand = append(cand, s)
	}
	for _, slug := range []string{c35SlugRevoked, c35SlugRefresh, c35SlugSecret} {
		if removed[slug] {
			m.rec.Exclude(slug)
		}
	}
	if len(cand) == 0 {
		rt.Skip("no eligible session")
	}
	if len(prefer) > 0 {
		want := rapid.SampledFrom(prefer).Draw(rt, "prefer")
		var sub []*c35Session
		for _, s := range cand {
			dead := s.revoked || s.rotated
			if (want == "dead" && dead) || (want == "fresh" && !dead && s.accessLive) {
				sub = append(sub, s)
			}
		}
		if len(sub) > 0 {
			cand = sub
		}
	}
	return cand[rapid.IntRange(0, len(cand)-1).Draw(rt, "session")]
}

func (m *c35Machine) validate(rt *rapid.T) {
	s := m.pick(rt, false, m.knownValidateClass, "any", "dead", "dead", "fresh")
	dead := s.revoked || s.rotated
	m.op("validate#%d", s.id)
	m.rec.Label("ops/validate")
	tv0 := c35Now()
	u, err := m.store.ValidateToken(m.ctx, s.access)
	tv1 := c35Now()

	var reasons []string
	if s.secret != m.cur {
		reasons = append(reasons, "issued under a previous secret")
		m.lab("validate/old-secret")
	}
	if s.revoked {
		reasons = append(reasons, "revoked")
		m.lab("validate/after-revoke")
	}
	if s.rotated {
		reasons = append(reasons, "rotated away by refresh")
		m.lab("validate/after-rotate")
	}
	if tv0.After(s.expHi) {
		reasons = append(reasons, "expired")
		m.lab("validate/expired")
	}
	if dead {
		m.used = true
		if s.secret == m.cur && !tv0.After(s.expHi) {
			m.lab("validate/dead-but-signature-valid")
		}
	}
	// Safety net for the classes of listed findings: the generator removes them by clock position; should the
	// clock nevertheless put a call inside one (an "expired" token not yet past its expiry), nothing is asserted.
	if !tv0.After(s.expHi) && !s.accessLive {
		if (dead && s.secret == m.cur && verifKnown("C35", c35SlugRevoked)) || (!dead && s.secret != m.cur && verifKnown("C35", c35SlugSecret)) {
			m.rec.Exclude("timing-window")
			return
		}
	}
	switch {
	case len(reasons) > 0:
		if err == nil {
			m.detail(rt, s, "ValidateToken returned %+v, nil", u)
			rt.Fatalf("C35 violated (accepted, must reject): ValidateToken accepted the access token of %s although it is %s; returned user=%+v\nhistory: %s",
				m.describe(s), strings.Join(reasons, " and "), u, m.history())
		}
		m.lab("validate/rejected-ok")
	case tv1.Unix() < s.expLo.Unix():
		if err != nil {
			m.detail(rt, s, "ValidateToken error: %v", err)
			rt.Fatalf("C35 (converse direction: rejected, should accept): ValidateToken rejected the live, unrevoked, current-secret access token of %s\nhistory: %s",
				m.describe(s), m.history())
		}
		if u == nil || u.Username != s.user || u.Role != s.role {
			rt.Fatalf("C35 violated: ValidateToken returned identity %+v for the token issued to %s/%s (%s)\nhistory: %s", u, s.user, s.role, m.describe(s), m.history())
		}
		m.lab("validate/accepted-ok")
	default:
		m.lab("validate/uncertain-expiry-window")
		m.rec.Label("uncertain-at/" + s.pos)
		m.rec.Label("ops/validate-uncertain")
	}
}

func c35Sign(secret []byte, header, payload string) string {
	mac := hmac.New(sha256.New, secret)
	mac.Write([]byte(header + "." + payload))
	return header + "." + payload + "." + base64.RawURLEncoding.EncodeToString(mac.Sum(nil))
}

func c35B64(s string) string { return base64.RawURLEncoding.EncodeToString([]byte(s)) }

func c35Claims(sub, role string, iat, exp int64, jti string) string {
	b, _ := json.Marshal(map[string]any{"sub": sub, "role": role, "iat": iat, "exp": exp, "jti": jti})
	return c35B64(string(b))
}

const c35Alphabet = "ABCDEFGHIJKLMNOPQRSTUVWXYZabcdefghijklmnopqrstuvwxyz0123456789-_.=+/ "

var c35MutationKinds = []string{"flip", "swap-payload", "tamper-payload", "resign-other-secret", "truncate", "drop-signature",
	"alg-none", "append", "prefix", "expired-signed-with-current-secret", "garbage"}

// mutant builds a token string that the store never issued. ok=false when the draw cannot be realised.
func (m *c35Machine) mutant(rt *rapid.T, kind string) (tok, desc string) {
	s := m.pick(rt, false, nil)
	base := s.access
	parts := strings.Split(base, ".")
	if len(parts) != 3 {
		rt.Fatalf("HARNESS-ERROR issued access token does not have three parts")
	}
	h, p, sig := parts[0], parts[1], parts[2]
	var claims map[string]any
	if raw, err := base64.RawURLEncoding.DecodeString(p); err == nil {
		_ = json.Unmarshal(raw, &claims)
	}
	if claims == nil {
		rt.Fatalf("HARNESS-ERROR cannot decode the payload of an issued token")
	}
	switch kind {
	case "flip":
		i := rapid.IntRange(0, len(base)-1).Draw(rt, "position")
		c := c35Alphabet[rapid.IntRange(0, len(c35Alphabet)-1).Draw(rt, "char")]
		if c == base[i] {
			c = c35Alphabet[(strings.IndexByte(c35Alphabet, c)+1)%len(c35Alphabet)]
		}
		part := "header"
		if i > len(h) {
			part = "payload"
		}
		if i > len(h)+1+len(p) {
			part = "signature"
		}
		return base[:i] + string(c) + base[i+1:], fmt.Sprintf("flip(#%d,%s)", s.id, part)
	case "swap-payload":
		o := m.pick(rt, false, nil)
		op := strings.Split(o.access, ".")
		which := rapid.SampledFrom([]string{"payload", "signature", "header+payload"}).Draw(rt, "swap")
		switch which {
		case "payload":
			return h + "." + op[1] + "." + sig, fmt.Sprintf("swap-payload(#%d<-#%d)", s.id, o.id)
		case "signature":
			return h + "." + p + "." + op[2], fmt.Sprintf("swap-signature(#%d<-#%d)", s.id, o.id)
		default:
			return op[0] + "." + op[1] + "." + sig, fmt.Sprintf("swap-signed-part(#%d<-#%d)", s.id, o.id)
		}
	case "tamper-payload":
		what := m.tamper(rt, claims)
		b, _ := json.Marshal(claims)
		return h + "." + c35B64(string(b)) + "." + sig, fmt.Sprintf("tamper-payload(#%d,%s,keep-signature)", s.id, what)
	case "resign-other-secret":
		what := "same-claims"
		if rapid.Bool().Draw(rt, "tamperToo") {
			what = m.tamper(rt, claims)
		}
		b, _ := json.Marshal(claims)
		np := p
		if what != "same-claims" {
			np = c35B64(string(b))
		}
		others := []string{"attacker-secret", "sop-session-default-secret", "", m.secrets[m.cur] + "x", strings.ToUpper(m.secrets[m.cur])}
		for i, sec := range m.secrets {
			if i != m.cur {
				others = append(others, sec)
			}
		}
		k := rapid.IntRange(0, len(others)-1).Draw(rt, "otherSecret")
		return c35Sign([]byte(others[k]), h, np), fmt.Sprintf("resign(#%d,%s,secret%d)", s.id, what, k)
	case "truncate":
		n := rapid.IntRange(0, len(base)-1).Draw(rt, "length")
		return base[:n], fmt.Sprintf("truncate(#%d,%s)", s.id, c35Where(n, len(h), len(p)))
	case "drop-signature":
		v := rapid.SampledFrom([]string{h + "." + p + ".", h + "." + p, p + "." + sig, h + ".." + sig, "." + p + "." + sig}).Draw(rt, "shape")
		return v, fmt.Sprintf("drop-part(#%d,dots=%d,len=%d)", s.id, strings.Count(v, "."), len(v))
	case "alg-none":
		hdr := rapid.SampledFrom([]string{`{"alg":"none","typ":"JWT"}`, `{"alg":"None","typ":"JWT"}`, `{"alg":"NONE"}`, `{"typ":"JWT"}`, `{}`}).Draw(rt, "header")
		if rapid.Bool().Draw(rt, "tamperToo") {
			m.tamper(rt, claims)
			b, _ := json.Marshal(claims)
			p = c35B64(string(b))
		}
		sg := rapid.SampledFrom([]string{"", sig, c35B64(""), "none"}).Draw(rt, "signature")
		return c35B64(hdr) + "." + p + "." + sg, fmt.Sprintf("alg-none(#%d,%s,sig=%d)", s.id, hdr, len(sg))
	case "append":
		suf := rapid.SampledFrom([]string{"=", "==", "A", ".", " ", "\n", "\x00", ".x", "%3D"}).Draw(rt, "suffix")
		return base + suf, fmt.Sprintf("append(#%d,%q)", s.id, suf)
	case "prefix":
		pre := rapid.SampledFrom([]string{" ", "Bearer ", "\t", "."}).Draw(rt, "prefix")
		return pre + base, fmt.Sprintf("prefix(#%d,%q)", s.id, pre)
	case "expired-signed-with-current-secret":
		// a correctly signed token whose exp lies in the past (boundary: exp == now is expired: "now >= exp")
		back := rapid.SampledFrom([]time.Duration{0, time.Second, time.Minute, time.Hour, 8 * 24 * time.Hour}).Draw(rt, "expiredFor")
		exp := c35Now().Add(-back).Unix()
		jti := fmt.Sprintf("%048x", rapid.Uint64().Draw(rt, "jti"))
		np := c35Claims(s.user, s.role, exp-int64(m.cfgTTL/time.Second), exp, jti)
		return c35Sign([]byte(m.secrets[m.cur]), h, np), fmt.Sprintf("expired-minted(%s,%s,expired-for=%s)", s.user, s.role, back)
	default: // garbage
		v := rapid.SampledFrom([]string{"", ".", "..", "a.b.c", "...", "null", fmt.Sprintf("%048x", 0), strings.ToUpper(base), h, p, sig,
			h + "." + p + "." + strings.Repeat("A", len(sig))}).Draw(rt, "garbage")
		return v, fmt.Sprintf("garbage(#%d,len=%d,dots=%d)", s.id, len(v), strings.Count(v, "."))
	}
}

func c35Where(n, lh, lp int) string {
	switch {
	case n <= lh:
		return "in-header"
	case n <= lh+1+lp:
		return "in-payload"
	default:
		return "in-signature"
	}
}

func (m *c35Machine) tamper(rt *rapid.T, claims map[string]any) string {
	what := rapid.SampledFrom([]string{"role=admin", "sub=root", "exp+24h", "new-jti", "sub=other"}).Draw(rt, "claim")
	switch what {
	case "role=admin":
		if claims["role"] == "admin" {
			claims["role"] = "Admin"
		} else {
			claims["role"] = "admin"
		}
	case "sub=root":
		if claims["sub"] == "root" {
			claims["sub"] = "Root"
		} else {
			claims["sub"] = "root"
		}
	case "exp+24h":
		claims["exp"] = c35Now().Add(24 * time.Hour).Unix()
	case "new-jti":
		claims["jti"] = fmt.Sprintf("%048x", rapid.Uint64().Draw(rt, "jti"))
	default:
		claims["sub"] = fmt.Sprint(claims["sub"]) + "x"
	}
	return what
}

func (m *c35Machine) validateMutant(rt *rapid.T) {
	kind := rapid.SampledFrom(c35MutationKinds).Draw(rt, "mutation")
	tok, desc := m.mutant(rt, kind)
	if m.isIssued(tok) {
		rt.Skip("mutation reproduced an issued token")
	}
	m.op("forge:%s", desc)
	m.lab("forge/" + kind)
	m.rec.Label("ops/forge/" + kind)
	u, err := m.store.ValidateToken(m.ctx, tok)
	if err == nil {
		m.detail(rt, nil, "forged token %q", tok)
		rt.Fatalf("C35 violated (forgery accepted): ValidateToken accepted a string the store never issued (%s); returned user=%+v\nhistory: %s",
			desc, u, m.history())
	}
}

func (m *c35Machine) refresh(rt *rapid.T) {
	s := m.pick(rt, true, m.knownRefreshClass, "any", "dead", "fresh", "fresh")
	dead := s.revoked || s.rotated
	m.op("refresh#%d", s.id)
	m.rec.Label("ops/refresh")
	t0 := c35Now()
	at, nrt, err := m.store.Refresh(m.ctx, s.refresh)
	t1 := c35Now()

	var reasons []string
	if s.revoked {
		reasons = append(reasons, "revoked")
		m.lab("refresh/after-revoke")
	}
	if s.rotated {
		reasons = append(reasons, "already rotated away by an earlier refresh")
		m.lab("refresh/reuse-of-old-refresh-token")
	}
	if t0.After(s.rexpHi) {
		reasons = append(reasons, "refresh-expired")
		m.lab("refresh/refresh-expired")
	}
	if dead {
		m.used = true
	}
	if len(reasons) > 0 {
		if err == nil {
			rt.Fatalf("C35 violated: Refresh succeeded with the refresh token of %s although it is %s\nhistory: %s",
				m.describe(s), strings.Join(reasons, " and "), m.history())
		}
		m.lab("refresh/rejected-ok")
		return
	}
	if err != nil {
		// The statement only speaks about successful refreshes; a refused one is recorded, not judged.
		m.lab("refresh/valid-token-refused")
		m.rec.Label("ops/refresh-valid-token-refused")
		m.op("refused")
		return
	}
	if at == "" || nrt == "" {
		rt.Fatalf("C35 violated: Refresh reported success but returned an empty token (access empty=%v refresh empty=%v)\nhistory: %s", at == "", nrt == "", m.history())
	}
	if m.isIssued(at) || m.isIssued(nrt) {
		rt.Fatalf("C35 violated: a successful Refresh handed out a token string that was issued before (old refresh token cannot stop working): access reused=%v refresh reused=%v\nhistory: %s",
			m.isIssued(at), m.isIssued(nrt), m.history())
	}
	oldAccessExpired := t0.After(s.expHi)
	if oldAccessExpired {
		m.lab("refresh/ok-after-access-expiry")
	} else {
		m.lab("refresh/ok-while-access-live")
	}
	n := &c35Session{id: len(m.sess), kind: "refreshed", pos: "refresh-of-" + s.pos, access: at, refresh: nrt, user: s.user, role: s.role, secret: m.cur,
		accessLive: true, refreshLive: true} // "valid when issued"; a refresh that returns a dead token fails the case below
	// the statement does not say which lifetime the new tokens get; the window covers "inherit" and "fresh TTL"
	n.expLo, n.expHi = c35MinT(s.expLo, t0.Add(m.cfgTTL)), c35MaxT(s.expHi, t1.Add(m.cfgTTL))
	n.rexpLo, n.rexpHi = c35MinT(s.rexpLo, t0.Add(defaultRefreshTTL)), c35MaxT(s.rexpHi, t1.Add(defaultRefreshTTL))
	s.rotated = true
	m.sess = append(m.sess, n)
	m.op("ok->#%d", n.id)

	// "returns an access token that is valid when issued"
	u, verr := m.store.ValidateToken(m.ctx, at)
	if verr != nil {
		m.detail(rt, s, "new access token %q rejected with: %v", at, verr)
		rt.Fatalf("C35 violated (refresh result not valid when issued): Refresh of %s succeeded under a configured TTL of %s, but ValidateToken rejects the returned access token immediately (old access token expired before the refresh: %v)\nhistory: %s",
			m.describe(s), m.cfgTTL, oldAccessExpired, m.history())
	}
	if u == nil || u.Username != s.user || u.Role != s.role {
		rt.Fatalf("C35 violated: the refreshed token carries identity %+v, the session belongs to %s/%s\nhistory: %s", u, s.user, s.role, m.history())
	}
	// "and the old refresh token stops working"
	if a2, r2, err2 := m.store.Refresh(m.ctx, s.refresh); err2 == nil {
		m.detail(rt, s, "second Refresh with the old refresh token returned access=%q refresh=%q", a2, r2)
		rt.Fatalf("C35 violated: the old refresh token of %s still works right after a successful refresh\nhistory: %s",
			m.describe(s), m.history())
	}
}

func c35MinT(a, b time.Time) time.Time {
	if a.Before(b) {
		return a
	}
	return b
}

func c35MaxT(a, b time.Time) time.Time {
	if a.After(b) {
		return a
	}
	return b
}

// refreshBad calls Refresh with a string that is no refresh token the store issued.
func (m *c35Machine) refreshBad(rt *rapid.T) {
	s := m.pick(rt, true, nil)
	r := s.refresh
	kind := rapid.SampledFrom([]string{"flip", "truncate", "append", "upper", "empty", "unknown-hex"}).Draw(rt, "badRefresh")
	var tok string
	switch kind {
	case "flip":
		i := rapid.IntRange(0, len(r)-1).Draw(rt, "position")
		c := "0123456789abcdef"[rapid.IntRange(0, 15).Draw(rt, "char")]
		if c == r[i] {
			c = "123456789abcdef0"[strings.IndexByte("0123456789abcdef", c)]
		}
		tok = r[:i] + string(c) + r[i+1:]
	case "truncate":
		tok = r[:rapid.IntRange(1, len(r)-1).Draw(rt, "length")]
	case "append":
		tok = r + rapid.SampledFrom([]string{"0", " ", "=", "\x00"}).Draw(rt, "suffix")
	case "upper":
		tok = strings.ToUpper(r)
	case "empty":
		tok = ""
	default:
		tok = fmt.Sprintf("%048x", rapid.Uint64().Draw(rt, "hex"))
	}
	if m.isIssued(tok) {
		rt.Skip("mutation reproduced an issued token")
	}
	m.op("refresh-bad(#%d,%s)", s.id, kind)
	m.lab("refresh/forged-" + kind)
	m.rec.Label("ops/refresh-forged")
	if at, nrt, err := m.store.Refresh(m.ctx, tok); err == nil {
		m.detail(rt, s, "Refresh(%q) returned access=%q refresh=%q", tok, at, nrt)
		rt.Fatalf("C35 violated: Refresh succeeded with a string that is not a refresh token the store issued (%s of the refresh token of session#%d)\nhistory: %s",
			kind, s.id, m.history())
	}
}

func (m *c35Machine) revoke(rt *rapid.T) {
	s := m.pick(rt, false, nil, "any", "fresh")
	by := "access"
	tok := s.access
	if s.refresh != "" && rapid.Bool().Draw(rt, "byRefreshToken") {
		by, tok = "refresh", s.refresh
	}
	m.op("revoke#%d(%s)", s.id, by)
	m.rec.Label("ops/revoke")
	m.lab("revoke/by-" + by)
	m.store.RevokeToken(m.ctx, tok)
	if !s.rotated {
		s.revoked = true
	}
}

// revokeBad revokes a string that is not an issued token; nothing may change.
func (m *c35Machine) revokeBad(rt *rapid.T) {
	tok, desc := m.mutant(rt, rapid.SampledFrom([]string{"flip", "truncate", "append", "garbage"}).Draw(rt, "mutation"))
	if m.isIssued(tok) {
		rt.Skip("mutation reproduced an issued token")
	}
	m.op("revoke-bad:%s", desc)
	m.lab("revoke/forged-token")
	m.rec.Label("ops/revoke-forged")
	m.store.RevokeToken(m.ctx, tok)
}

func (m *c35Machine) rotateSecret(rt *rapid.T) {
	if len(m.sess) == 0 {
		rt.Skip("nothing issued yet")
	}
	k := rapid.IntRange(0, len(m.secrets)-1).Draw(rt, "secret")
	if k == m.cur {
		rt.Skip("same secret")
	}
	m.cur = k
	config.SessionSecret = m.secrets[k]
	m.op("secret=%d", k)
	m.lab("secret-rotated")
	m.rec.Label("ops/rotate-secret")
}

// ---------------------------------------------------------------------------------------------- the property

func TestC35_SessionModel(t *testing.T) {
	t.Setenv("SOP_SESSION_SECRET", "")
	oldConfig, oldFacade := config, tokenFacade
	defer func() { config, tokenFacade = oldConfig, oldFacade }()
	rec := c35Rec()
	if verifKnown("C35", c35SlugRevoked) || verifKnown("C35", c35SlugRefresh) || verifKnown("C35", c35SlugSecret) {
		rec.SetExtra("known_classes_excluded_by_construction", true)
	}
	rapid.Check(t, func(rt *rapid.T) {
		m := c35Setup(rt)
		defer m.close()
		issueS := func(rt *rapid.T) { m.issue(rt, true) }
		issueT := func(rt *rapid.T) { m.issue(rt, false) }
		// rapid draws the action uniformly from the sorted keys; repeated keys are weights. The shrinker lowers
		// the drawn index, so the cheap, state-free actions sort first.
		rt.Repeat(map[string]func(*rapid.T){
			"a1-validate":      m.validate,
			"a2-validate":      m.validate,
			"a3-validate":      m.validate,
			"a4-validate":      m.validate,
			"b1-forge":         m.validateMutant,
			"b2-forge":         m.validateMutant,
			"c1-refreshBad":    m.refreshBad,
			"c2-revokeBad":     m.revokeBad,
			"d1-revoke":        m.revoke,
			"d2-revoke":        m.revoke,
			"e1-refresh":       m.refresh,
			"e2-refresh":       m.refresh,
			"e3-refresh":       m.refresh,
			"f1-rotateSecret":  m.rotateSecret,
			"g1-createToken":   issueT,
			"g2-createSession": issueS,
		})
		labels := make([]string, 0, len(m.labels))
		for l := range m.labels {
			labels = append(labels, l)
		}
		sort.Strings(labels)
		canon := m.history()
		rec.Case(canon, m.used, labels...)
		if m.used {
			rec.Sample("history-with-use-of-revoked-or-rotated-token", canon)
		} else {
			rec.Sample("history-without", canon)
		}
	})
}

// TestC35_EverySingleCharacterEdit is the complete enumeration of one mutation family on two live tokens:
// every position replaced by three other characters, every proper prefix, and every single-character deletion.
func TestC35_EverySingleCharacterEdit(t *testing.T) {
	t.Setenv("SOP_SESSION_SECRET", "")
	oldConfig, oldFacade := config, tokenFacade
	defer func() { config, tokenFacade = oldConfig, oldFacade }()
	dir, err := os.MkdirTemp("", "c35e-")
	if err != nil {
		t.Fatalf("HARNESS-ERROR cannot create temp dir: %v", err)
	}
	defer os.RemoveAll(dir)
	config = Config{SystemDB: &DatabaseConfig{Name: SystemDBName, Path: dir, Mode: "standalone"}, SessionSecret: "c35-enum-secret"}
	ctx := context.Background()
	store := NewSessionStore(30 * time.Minute)
	a1, _, err := store.CreateSession(ctx, "alice", "user")
	if err != nil {
		t.Fatalf("HARNESS-ERROR CreateSession: %v", err)
	}
	a2, err := store.CreateToken(ctx, "root", "admin")
	if err != nil {
		t.Fatalf("HARNESS-ERROR CreateToken: %v", err)
	}
	rec := c35Rec()
	var n int64
	try := func(orig, tok, what string) {
		if tok == a1 || tok == a2 {
			return
		}
		n++
		if u, err := store.ValidateToken(ctx, tok); err == nil {
			t.Fatalf("C35 violated (forgery accepted): %s of an issued token validates: %q (original %q) -> %+v", what, tok, orig, u)
		}
	}
	for _, tok := range []string{a1, a2} {
		for i := 0; i < len(tok); i++ {
			c := tok[i]
			for _, r := range []byte{c35Alphabet[(strings.IndexByte(c35Alphabet, c)+1)%len(c35Alphabet)], '.', c ^ 0x20} {
				if r != c {
					try(tok, tok[:i]+string(r)+tok[i+1:], fmt.Sprintf("replacing byte %d", i))
				}
			}
			try(tok, tok[:i], fmt.Sprintf("the %d-byte prefix", i))
			try(tok, tok[:i]+tok[i+1:], fmt.Sprintf("deleting byte %d", i))
		}
	}
	for _, tok := range []string{a1, a2} {
		if _, err := store.ValidateToken(ctx, tok); err != nil {
			t.Fatalf("C35 (converse direction): the unmodified live token is rejected: %v", err)
		}
	}
	rec.LabelN("enumerated/single-character-edits-rejected", n)
}

// ---------------------------------------------------------------------------------------------- known findings
//
// Plain reproductions. Each is skipped until the main session lists its slug in /verif/known_findings.json;
// listed, it prints the KNOWN-FINDING line while the defect reproduces and passes silently once it is gone.

func c35Isolated(t *testing.T, secret string) context.Context {
	t.Helper()
	t.Setenv("SOP_SESSION_SECRET", "")
	oldConfig, oldFacade := config, tokenFacade
	dir, err := os.MkdirTemp("", "c35k-")
	if err != nil {
		t.Fatalf("HARNESS-ERROR cannot create temp dir: %v", err)
	}
	t.Cleanup(func() {
		config, tokenFacade = oldConfig, oldFacade
		_ = os.RemoveAll(dir)
	})
	config = Config{SystemDB: &DatabaseConfig{Name: SystemDBName, Path: dir, Mode: "standalone"}, SessionSecret: secret}
	return context.Background()
}

func TestC35_Known_RevokedTokenStillValidates(t *testing.T) {
	if !verifKnown("C35", c35SlugRevoked) {
		t.Skip("not listed in known_findings.json")
	}
	ctx := c35Isolated(t, "c35-known-secret")
	store := NewSessionStore(30 * time.Minute)
	var got []string
	// logout
	a, _, err := store.CreateSession(ctx, "alice", "user")
	if err != nil {
		t.Fatalf("HARNESS-ERROR CreateSession: %v", err)
	}
	store.RevokeToken(ctx, a)
	if _, err := store.ValidateToken(ctx, a); err == nil {
		got = append(got, "after RevokeToken")
	}
	// rotation
	b, r, err := store.CreateSession(ctx, "bob", "user")
	if err != nil {
		t.Fatalf("HARNESS-ERROR CreateSession: %v", err)
	}
	if _, _, err := store.Refresh(ctx, r); err != nil {
		t.Fatalf("HARNESS-ERROR Refresh of a fresh session: %v", err)
	}
	if _, err := store.ValidateToken(ctx, b); err == nil {
		got = append(got, "after being rotated away by Refresh")
	}
	if len(got) > 0 {
		c35Rec().KnownFinding(fmt.Sprintf("slug=%s ValidateToken still accepts an unexpired access token %s (signature fast path returns before the session store is consulted)",
			c35SlugRevoked, strings.Join(got, " and ")))
	}
}

func TestC35_Known_RefreshReturnsExpiredAccessToken(t *testing.T) {
	if !verifKnown("C35", c35SlugRefresh) {
		t.Skip("not listed in known_findings.json")
	}
	ctx := c35Isolated(t, "c35-known-secret")
	store := NewSessionStore(time.Millisecond) // the access token is expired by the time anything else runs
	_, r, err := store.CreateSession(ctx, "alice", "user")
	if err != nil {
		t.Fatalf("HARNESS-ERROR CreateSession: %v", err)
	}
	time.Sleep(5 * time.Millisecond)
	store.ttl = 30 * time.Minute // configured TTL at refresh time (what currentTokenFacade does on a config change)
	a2, _, err := store.Refresh(ctx, r)
	if err != nil {
		return // refresh refused: the statement only covers successful refreshes
	}
	if _, err := store.ValidateToken(ctx, a2); err != nil {
		c35Rec().KnownFinding(fmt.Sprintf("slug=%s a Refresh done after the access token expired succeeds but returns an access token that is already invalid (%v): the new token is signed with the old record's ExpiresAt",
			c35SlugRefresh, err))
	}
}

func TestC35_Known_OldSecretTokenStillValidates(t *testing.T) {
	if !verifKnown("C35", c35SlugSecret) {
		t.Skip("not listed in known_findings.json")
	}
	ctx := c35Isolated(t, "c35-secret-before")
	store := NewSessionStore(30 * time.Minute)
	a, _, err := store.CreateSession(ctx, "alice", "user")
	if err != nil {
		t.Fatalf("HARNESS-ERROR CreateSession: %v", err)
	}
	config.SessionSecret = "c35-secret-after"
	if _, err := store.ValidateToken(ctx, a); err == nil {
		c35Rec().KnownFinding(fmt.Sprintf("slug=%s after the signing secret changed, ValidateToken still accepts a token signed with the previous secret (store fallback looks the string up without checking its signature)",
			c35SlugSecret))
	}
}
