// Copy of /verif/harness/stats/known.go for the overlay build (see zz_verif_stats_test.go).
package main

import (
	"encoding/json"
	"os"
	"sync"
)

// vstatFinding is one entry of /verif/known_findings.json.
type vstatFinding struct {
	Property string `json:"property"`
	Slug     string `json:"slug"`
	What     string `json:"what"`
	Commit   string `json:"commit,omitempty"`
}

type vstatKnownFile struct {
	Known []vstatFinding `json:"known"`
	Fixed []vstatFinding `json:"fixed"`
}

var (
	vstatKnownOnce sync.Once
	vstatKnownData vstatKnownFile
)

func vstatLoadKnown() {
	vstatKnownOnce.Do(func() {
		p := os.Getenv("VERIF_KNOWN")
		if p == "" {
			p = "/verif/known_findings.json"
		}
		b, err := os.ReadFile(p)
		if err != nil {
			return
		}
		_ = json.Unmarshal(b, &vstatKnownData)
	})
}

// Known reports whether (property, slug) is listed as a known (recorded, unrepaired) finding.
// The file is only ever read, never written, at run time.
func verifKnown(property, slug string) bool {
	vstatLoadKnown()
	for _, f := range vstatKnownData.Known {
		if f.Property == property && f.Slug == slug {
			return true
		}
	}
	return false
}

// KnownWhat returns the description of a listed finding.
func verifKnownWhat(property, slug string) string {
	vstatLoadKnown()
	for _, f := range vstatKnownData.Known {
		if f.Property == property && f.Slug == slug {
			return f.What
		}
	}
	return ""
}
