package main

import (
	"os"
	"testing"
)

// TestMain flushes the verification statistics after the run. tools/httpserver defines no TestMain of its
// own (checked when this overlay was written); if it ever gains one, the overlay build fails with a duplicate
// definition and the driver reports "inconclusive", never a violation.
func TestMain(m *testing.M) {
	code := m.Run()
	vstatFlush()
	os.Exit(code)
}
