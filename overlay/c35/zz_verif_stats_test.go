// Copy of /verif/harness/stats/stats.go for the overlay build of tools/httpserver (package main lives in
// another module and cannot import verif/harness/stats). Identifiers carry a vstat prefix; the JSON written by
// vstatFlush is the same format the driver merges.
//
// Original doc: records what a check actually generated: evaluations, distinct
// non-trivial cases (by hash of a canonical rendering), a label histogram and a few
// written-out samples. The driver (/verif/check) merges the per-process files into
// /verif/evidence/<id>.json.
package main

import (
	"encoding/binary"
	"encoding/json"
	"fmt"
	"hash/fnv"
	"os"
	"sort"
	"sync"
)

// vstatRec is the recorder of one property inside one process.
type vstatRec struct {
	mu          sync.Mutex
	Property    string
	Level       string
	Rule        string
	Assumptions []string
	Evaluations int64
	Discarded   int64
	Excluded    map[string]int64 // cases removed by construction because of a listed known finding
	Labels      map[string]int64
	hashes      map[uint64]struct{}
	Samples     []any
	sampleSeen  map[string]bool
	Exhaustive  bool
	Extra       map[string]any
	Known       []string // KNOWN-FINDING lines emitted by this process
}

var (
	vstatRegMu sync.Mutex
	vstatReg   = map[string]*vstatRec{}
)

// For returns the recorder of property id, creating it on first use.
func vstatFor(id string) *vstatRec {
	vstatRegMu.Lock()
	defer vstatRegMu.Unlock()
	if r, ok := vstatReg[id]; ok {
		return r
	}
	r := &vstatRec{Property: id, Level: "exploration", Labels: map[string]int64{}, hashes: map[uint64]struct{}{},
		sampleSeen: map[string]bool{}, Excluded: map[string]int64{}, Extra: map[string]any{}}
	vstatReg[id] = r
	return r
}

// Meta sets level, rule text and assumptions (idempotent).
func (r *vstatRec) Meta(level, rule string, assumptions ...string) *vstatRec {
	r.mu.Lock()
	defer r.mu.Unlock()
	r.Level = level
	if rule != "" {
		if r.Rule == "" {
			r.Rule = rule
		} else if !vstatContains(r.Rule, rule) {
			r.Rule += " || " + rule
		}
	}
	for _, a := range assumptions {
		dup := false
		for _, b := range r.Assumptions {
			if a == b {
				dup = true
			}
		}
		if !dup {
			r.Assumptions = append(r.Assumptions, a)
		}
	}
	return r
}

func vstatContains(s, sub string) bool {
	return len(sub) <= len(s) && (func() bool {
		for i := 0; i+len(sub) <= len(s); i++ {
			if s[i:i+len(sub)] == sub {
				return true
			}
		}
		return false
	})()
}

func vstatHash64(s string) uint64 {
	h := fnv.New64a()
	h.Write([]byte(s))
	return h.Sum64()
}

// Case records one evaluated case. canon is a canonical rendering used for
// distinctness; nontrivial is the property's stated rule; labels classify it.
func (r *vstatRec) Case(canon string, nontrivial bool, labels ...string) {
	r.mu.Lock()
	defer r.mu.Unlock()
	r.Evaluations++
	if nontrivial {
		r.hashes[vstatHash64(canon)] = struct{}{}
		r.Labels["nontrivial"]++
	}
	for _, l := range labels {
		r.Labels[l]++
	}
}

// Label bumps a class counter without counting a case.
func (r *vstatRec) Label(l string) { r.LabelN(l, 1) }

// LabelN adds n to a class counter.
func (r *vstatRec) LabelN(l string, n int64) {
	r.mu.Lock()
	defer r.mu.Unlock()
	r.Labels[l] += n
}

// Discard counts a generated case that was not evaluated (budget, invalid).
func (r *vstatRec) Discard() {
	r.mu.Lock()
	defer r.mu.Unlock()
	r.Discarded++
}

// Exclude counts a case (or a choice) removed by construction for a known finding.
func (r *vstatRec) Exclude(what string) {
	r.mu.Lock()
	defer r.mu.Unlock()
	r.Excluded[what]++
}

// Sample keeps up to 2 samples per class and 10 overall.
func (r *vstatRec) Sample(class string, v any) {
	r.mu.Lock()
	defer r.mu.Unlock()
	n := 0
	for k := range r.sampleSeen {
		if len(k) > len(class) && k[:len(class)+1] == class+"#" {
			n++
		}
	}
	if n >= 2 || len(r.Samples) >= 10 {
		return
	}
	r.sampleSeen[fmt.Sprintf("%s#%d", class, n)] = true
	r.Samples = append(r.Samples, map[string]any{"class": class, "case": v})
}

// SetExtra stores an additional coverage key.
func (r *vstatRec) SetExtra(k string, v any) {
	r.mu.Lock()
	defer r.mu.Unlock()
	r.Extra[k] = v
}

// SetExhaustive marks that a finite space was enumerated completely.
func (r *vstatRec) SetExhaustive() {
	r.mu.Lock()
	defer r.mu.Unlock()
	r.Exhaustive = true
}

// KnownFinding prints the KNOWN-FINDING line for a listed finding that still reproduces.
func (r *vstatRec) KnownFinding(what string) {
	r.mu.Lock()
	defer r.mu.Unlock()
	line := fmt.Sprintf("KNOWN-FINDING: property=%s %s", r.Property, what)
	for _, k := range r.Known {
		if k == line {
			return
		}
	}
	r.Known = append(r.Known, line)
	fmt.Println(line)
}

type vstatOut struct {
	Property    string           `json:"property"`
	Level       string           `json:"level"`
	Rule        string           `json:"rule"`
	Assumptions []string         `json:"assumptions"`
	Evaluations int64            `json:"evaluations"`
	Discarded   int64            `json:"discarded"`
	Excluded    map[string]int64 `json:"excluded"`
	Labels      map[string]int64 `json:"labels"`
	Distinct    int              `json:"distinct_nontrivial"`
	HashFile    string           `json:"hash_file"`
	Samples     []any            `json:"samples"`
	Exhaustive  bool             `json:"exhaustive"`
	Extra       map[string]any   `json:"extra"`
	Known       []string         `json:"known"`
}

// Flush writes every recorder to $VERIF_STATS.<property>.json (+ .hashes).
func vstatFlush() {
	base := os.Getenv("VERIF_STATS")
	if base == "" {
		return
	}
	vstatRegMu.Lock()
	defer vstatRegMu.Unlock()
	for id, r := range vstatReg {
		r.mu.Lock()
		hs := make([]uint64, 0, len(r.hashes))
		for h := range r.hashes {
			hs = append(hs, h)
		}
		sort.Slice(hs, func(i, j int) bool { return hs[i] < hs[j] })
		buf := make([]byte, 8*len(hs))
		for i, h := range hs {
			binary.LittleEndian.PutUint64(buf[8*i:], h)
		}
		hf := fmt.Sprintf("%s.%s.hashes", base, id)
		_ = os.WriteFile(hf, buf, 0o644)
		o := vstatOut{Property: id, Level: r.Level, Rule: r.Rule, Assumptions: r.Assumptions, Evaluations: r.Evaluations,
			Discarded: r.Discarded, Excluded: r.Excluded, Labels: r.Labels, Distinct: len(hs), HashFile: hf,
			Samples: r.Samples, Exhaustive: r.Exhaustive, Extra: r.Extra, Known: r.Known}
		b, err := json.MarshalIndent(o, "", " ")
		if err != nil {
			// a sample that cannot be marshalled must not lose the counts
			o.Samples = []any{fmt.Sprintf("%v", r.Samples)}
			b, _ = json.MarshalIndent(o, "", " ")
		}
		_ = os.WriteFile(fmt.Sprintf("%s.%s.json", base, id), b, 0o644)
		r.mu.Unlock()
	}
}

// Tier returns "quick" or "thorough".
func vstatTier() string {
	if os.Getenv("VERIF_TIER") == "thorough" {
		return "thorough"
	}
	return "quick"
}

// Pick returns q in the quick tier and th in the thorough tier.
func vstatPick[T any](q, th T) T {
	if vstatTier() == "thorough" {
		return th
	}
	return q
}
