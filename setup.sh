#!/bin/sh
# Offline setup: warms the Go build cache by compiling every harness package against /repo's current tree.
set -e
cd "$(dirname "$0")/harness"
export GOFLAGS=-mod=mod GOPROXY=off GOSUMDB=off GOTOOLCHAIN=local GOWORK=off
mkdir -p ../.build
for p in $(go1.26.8 list ./... 2>/dev/null); do
  d=${p#verif/harness}
  d=${d#/}
  [ -z "$d" ] && continue
  ls "$d"/*_test.go >/dev/null 2>&1 || continue
  go1.26.8 test -c -tags verif -vet=off -o ../.build/setup.test "./$d" || exit 1
  rm -f ../.build/setup.test
done
echo setup ok
