package lifecycle

import (
	"fmt"
	"sort"
	"testing"

	"github.com/sharedcode/sop"

	"verif/harness/stats"
	"verif/harness/txh"
)

func knownEnv(t *testing.T) *txh.Env {
	e, err := setupLc(lcCase{Mode: sop.ForReading, HashMod: 3, UUIDSeed: 14, Pre: []preStore{{Opts: txh.StoreOpts{Name: "st0", Slot: 4, Unique: true}, Seeds: []int{1, 2, 3}}}})
	if err != nil {
		t.Fatalf("%v", err)
	}
	return e
}

func listStores(t *testing.T, e *txh.Env) []string {
	r, err := e.NewTxn(txh.TxnOptions{Mode: sop.ForReading})
	if err != nil {
		t.Fatalf("HARNESS-ERROR NewTxn: %v", err)
	}
	if err := r.Tx.Begin(txh.Ctx); err != nil {
		t.Fatalf("fresh reader Begin: %v", err)
	}
	defer r.Tx.Commit(txh.Ctx)
	got, err := r.Tx.GetStores(txh.Ctx)
	if err != nil {
		t.Fatalf("GetStores: %v", err)
	}
	sort.Strings(got)
	return got
}

// TestC14_Known_ReadonlyTransactionCreatesStore: Begin(ForReading | NoCheck), NewBtree("nw0") of a
// name that does not exist, Commit. The read-only transaction has added a store to the catalog.
func TestC14_Known_ReadonlyTransactionCreatesStore(t *testing.T) {
	if !stats.Known("C14", slugCreate) {
		t.Skip("not listed")
	}
	for _, mode := range []sop.TransactionMode{sop.ForReading, sop.NoCheck} {
		e := knownEnv(t)
		tx, err := e.NewTxn(txh.TxnOptions{Mode: mode})
		if err != nil {
			t.Fatalf("HARNESS-ERROR NewTxn: %v", err)
		}
		if err := tx.Tx.Begin(txh.Ctx); err != nil {
			t.Fatalf("Begin: %v", err)
		}
		_, nerr := txh.NewBtree[int, string](tx, newStoreOpts("nw0"))
		cerr := tx.Tx.Commit(txh.Ctx)
		got := listStores(t, e)
		e.Cleanup()
		if fmt.Sprint(got) != "[st0]" {
			stats.For("C14").KnownFinding(fmt.Sprintf("%s: NewBtree(nw0) in a %s transaction returned %v, Commit returned %v, store list is now %v (was [st0])",
				slugCreate, modeName(mode), nerr, cerr, got))
		}
	}
}

// TestC14_Known_FindInDescendingOrderAfterEnd: the B-tree wrapper does not override
// FindInDescendingOrder, so it succeeds on a handle whose transaction is over.
func TestC14_Known_FindInDescendingOrderAfterEnd(t *testing.T) {
	if !stats.Known("C14", slugFDO) {
		t.Skip("not listed")
	}
	e := knownEnv(t)
	defer e.Cleanup()
	tx, err := e.NewTxn(txh.TxnOptions{Mode: sop.ForReading})
	if err != nil {
		t.Fatalf("HARNESS-ERROR NewTxn: %v", err)
	}
	if err := tx.Tx.Begin(txh.Ctx); err != nil {
		t.Fatalf("Begin: %v", err)
	}
	b, err := txh.OpenBtree[int, string](tx, "st0")
	if err != nil {
		t.Fatalf("OpenBtree: %v", err)
	}
	if err := tx.Tx.Commit(txh.Ctx); err != nil {
		t.Fatalf("Commit: %v", err)
	}
	ok, ferr := b.FindInDescendingOrder(txh.Ctx, 2)
	fok, _ := b.Find(txh.Ctx, 2, false)
	if ok && ferr == nil && !fok {
		stats.For("C14").KnownFinding(slugFDO + ": after Commit, FindInDescendingOrder(2) on the old handle returned true,nil while Find(2) is refused")
	}
}

// TestC14_Known_RollbackKeepsCreatedStore: ForWriting: NewBtree(nw0) creates a store, an Upsert on an
// actively persisted store follows (its pre-commit log state replaces the createStore state), Rollback.
// NewBtree's doc comment says the store will not be created if the transaction rolls back; it stays.
func TestC14_Known_RollbackKeepsCreatedStore(t *testing.T) {
	if !(stats.Known("C14", slugKeep) || stats.Known("C12", slugKeep)) {
		t.Skip("not listed")
	}
	e, err := setupLc(lcCase{Mode: sop.ForWriting, HashMod: 1, UUIDSeed: 0, Pre: []preStore{{Opts: txh.StoreOpts{Name: "st0", Slot: 2, Unique: true, Placement: 3}, Seeds: []int{0}}}})
	if err != nil {
		t.Fatalf("%v", err)
	}
	defer e.Cleanup()
	tx, err := e.NewTxn(txh.TxnOptions{Mode: sop.ForWriting})
	if err != nil {
		t.Fatalf("HARNESS-ERROR NewTxn: %v", err)
	}
	if err := tx.Tx.Begin(txh.Ctx); err != nil {
		t.Fatalf("Begin: %v", err)
	}
	b, err := txh.OpenBtree[int, string](tx, "st0")
	if err != nil {
		t.Fatalf("OpenBtree: %v", err)
	}
	if _, err := txh.NewBtree[int, string](tx, newStoreOpts("nw0")); err != nil {
		t.Fatalf("NewBtree: %v", err)
	}
	if ok, err := b.Upsert(txh.Ctx, 1, "w1|"); !ok || err != nil {
		t.Fatalf("Upsert: %v %v", ok, err)
	}
	rerr := tx.Tx.Rollback(txh.Ctx)
	if got := listStores(t, e); fmt.Sprint(got) != "[st0]" {
		stats.For("C14").KnownFinding(fmt.Sprintf("%s: Begin, OpenBtree(st0 actively persisted), NewBtree(nw0), st0.Upsert, Rollback=%v: store list is %v (was [st0])", slugKeep, rerr, got))
	}
}

// TestC14_Known_RemoveTracksSuccessor: slot length 2, keys 0 1 2 5 committed; one transaction adds 11
// (it becomes the successor of 5, which sits in an inner node) and removes 5. Commit returns nil and
// neither change is stored.
func TestC14_Known_RemoveTracksSuccessor(t *testing.T) {
	if !(stats.Known("C14", slugSucc) || stats.Known("C19", slugSucc) || stats.Known("C17", slugSucc)) {
		t.Skip("not listed")
	}
	pre := preStore{Opts: txh.StoreOpts{Name: "st0", Slot: 2, Unique: true}, Seeds: []int{0, 1, 2, 5}}
	e, err := setupLc(lcCase{Mode: sop.ForWriting, HashMod: 1, UUIDSeed: 0, Pre: []preStore{pre}})
	if err != nil {
		t.Fatalf("%v", err)
	}
	defer e.Cleanup()
	tx, err := e.NewTxn(txh.TxnOptions{Mode: sop.ForWriting})
	if err != nil {
		t.Fatalf("HARNESS-ERROR NewTxn: %v", err)
	}
	if err := tx.Tx.Begin(txh.Ctx); err != nil {
		t.Fatalf("Begin: %v", err)
	}
	b, err := txh.OpenBtree[int, string](tx, "st0")
	if err != nil {
		t.Fatalf("OpenBtree: %v", err)
	}
	if ok, err := b.Add(txh.Ctx, 11, "w1|"); !ok || err != nil {
		t.Fatalf("Add: %v %v", ok, err)
	}
	if ok, err := b.Remove(txh.Ctx, 5); !ok || err != nil {
		t.Fatalf("Remove: %v %v", ok, err)
	}
	if err := tx.Tx.Commit(txh.Ctx); err != nil {
		t.Fatalf("Commit: %v", err)
	}
	d, err := e.Dump([]txh.StoreOpts{pre.Opts}, sop.ForReading)
	if err != nil {
		t.Fatalf("dump: %v", err)
	}
	if got := txh.Canon(d[0].Items); got != "0=seed0|;1=seed1|;2=seed2|;11=w1|;" {
		stats.For("C14").KnownFinding(fmt.Sprintf("%s: Add(11), Remove(5), Commit=nil on {0 1 2 5} slot 2: a fresh reader sees {%s}", slugSucc, got))
	}
}
