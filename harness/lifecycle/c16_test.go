package lifecycle

import (
	"context"
	"fmt"
	"os"
	"strconv"
	"strings"
	"testing"
	"time"

	"github.com/sharedcode/sop"

	"verif/harness/stats"
	"verif/harness/txh"
)

// C16 - "External two-phase participants follow SOP's commit outcome".
//
// sop.SinglePhaseTransaction (transaction.go) drives SOP's own two-phase transaction plus 0-3 attached
// participants. The participants are scripted (each script says which of Begin / Phase1Commit /
// Phase2Commit / Rollback returns an error), SOP's own phases are made to fail through fault plans on
// its real backend calls (txh decorators), and the user's reaction to a failed Begin is Rollback.
// Every call and its result is recorded in one log; the oracle reads the property statement off it:
//   (1) a participant's Phase2Commit is called only after SOP's Phase1Commit, every participant's
//       Phase1Commit and SOP's Phase2Commit were called and returned nil;
//   (2) if a Begin, a Phase1Commit or SOP's Phase2Commit failed: no participant's Phase2Commit runs,
//       a fresh reader sees the pre-state, and every participant whose Begin was called is asked to
//       roll back at least once.
// The space is enumerated completely.

type logged struct {
	Who    string // "sop", "p0", "p1", "p2"
	Method string // Begin Phase1Commit Phase2Commit Rollback
	Failed bool
}

func (l logged) String() string {
	r := "ok"
	if l.Failed {
		r = "ERR"
	}
	return l.Who + "." + l.Method + "=" + r
}

type callLog struct {
	calls []logged
	// inSopRollback is true while SOP's own Rollback (called by the fan-out) is running.
	inSopRollback bool
}

func (c *callLog) add(who, method string, err error) {
	c.calls = append(c.calls, logged{who, method, err != nil})
}

func (c *callLog) String() string {
	s := make([]string, len(c.calls))
	for i, l := range c.calls {
		s[i] = l.String()
	}
	return strings.Join(s, " ")
}

var errScripted = fmt.Errorf("scripted participant failure")

// participant is a scripted sop.TwoPhaseCommitTransaction.
type participant struct {
	name  string
	fail  map[string]bool
	log   *callLog
	begun bool
}

func (p *participant) do(method string) error {
	var err error
	if p.fail[method] {
		err = errScripted
	}
	p.log.add(p.name, method, err)
	return err
}
func (p *participant) Begin(ctx context.Context) error        { p.begun = true; return p.do("Begin") }
func (p *participant) Phase1Commit(ctx context.Context) error { return p.do("Phase1Commit") }
func (p *participant) Phase2Commit(ctx context.Context) error { return p.do("Phase2Commit") }
func (p *participant) Rollback(ctx context.Context, err error) error {
	p.begun = false
	return p.do("Rollback")
}
func (p *participant) HasBegun() bool                                  { return p.begun }
func (p *participant) GetMode() sop.TransactionMode                    { return sop.ForWriting }
func (p *participant) GetStores(ctx context.Context) ([]string, error) { return nil, nil }
func (p *participant) Close() error                                    { return nil }
func (p *participant) GetID() sop.UUID                                 { return sop.NilUUID }
func (p *participant) CommitMaxDuration() time.Duration                { return time.Minute }
func (p *participant) OnCommit(func(ctx context.Context) error)        {}

// sopLogged passes every call to SOP's real two-phase transaction and records the four
// protocol calls with their results.
type sopLogged struct {
	in  sop.TwoPhaseCommitTransaction
	log *callLog
}

func (s *sopLogged) Begin(ctx context.Context) error {
	err := s.in.Begin(ctx)
	s.log.add("sop", "Begin", err)
	return err
}
func (s *sopLogged) Phase1Commit(ctx context.Context) error {
	err := s.in.Phase1Commit(ctx)
	s.log.add("sop", "Phase1Commit", err)
	return err
}
func (s *sopLogged) Phase2Commit(ctx context.Context) error {
	err := s.in.Phase2Commit(ctx)
	s.log.add("sop", "Phase2Commit", err)
	return err
}
func (s *sopLogged) Rollback(ctx context.Context, cause error) error {
	s.log.inSopRollback = true
	err := s.in.Rollback(ctx, cause)
	s.log.inSopRollback = false
	s.log.add("sop", "Rollback", err)
	return err
}
func (s *sopLogged) HasBegun() bool                                  { return s.in.HasBegun() }
func (s *sopLogged) GetMode() sop.TransactionMode                    { return s.in.GetMode() }
func (s *sopLogged) GetStores(ctx context.Context) ([]string, error) { return s.in.GetStores(ctx) }
func (s *sopLogged) Close() error                                    { return s.in.Close() }
func (s *sopLogged) GetID() sop.UUID                                 { return s.in.GetID() }
func (s *sopLogged) CommitMaxDuration() time.Duration                { return s.in.CommitMaxDuration() }
func (s *sopLogged) OnCommit(cb func(ctx context.Context) error)     { s.in.OnCommit(cb) }

// the enumerated dimensions
var partScripts = [][]string{
	{}, {"Begin"}, {"Phase1Commit"}, {"Phase2Commit"}, {"Rollback"}, {"Begin", "Rollback"}, {"Phase1Commit", "Rollback"},
}

type sopPlan struct {
	Name string
	// Primary names the backend call of SOP's commit that fails: "" | p1Lock | p1Registry | p2Flip.
	Primary string
	// RollbackFault: the first registry / store-repository / blob-removal call of SOP's rollback work fails
	// (inside SOP's own Rollback, or inside the rollback SOP runs after its failed phase).
	RollbackFault bool
}

var sopPlans = []sopPlan{
	{"none", "", false},
	{"p1FirstLock", "p1Lock", false},
	{"p1RegistryWrite", "p1Registry", false},
	{"p2RegistryFlip", "p2Flip", false},
	{"rollbackFault", "", true},
	{"p1RegistryWrite+rollbackFault", "p1Registry", true},
	{"p2RegistryFlip+rollbackFault", "p2Flip", true},
}

var c16Programs = [][]string{
	{"add 100", "update 2", "remove 4"},
	{"update 3"},
}

type c16Case struct {
	Scripts []int // one per participant
	Plan    int
	Prog    int
}

func (c c16Case) render() string {
	s := make([]string, len(c.Scripts))
	for i, x := range c.Scripts {
		s[i] = "p" + strconv.Itoa(i) + ":fails[" + strings.Join(partScripts[x], ",") + "]"
	}
	return fmt.Sprintf("participants{%s} sop:%s prog:%v", strings.Join(s, " "), sopPlans[c.Plan].Name, c16Programs[c.Prog])
}

func enumerateC16() []c16Case {
	var out []c16Case
	var rec func(prefix []int, n int)
	rec = func(prefix []int, n int) {
		if len(prefix) == n {
			for pl := range sopPlans {
				for pr := range c16Programs {
					out = append(out, c16Case{Scripts: append([]int(nil), prefix...), Plan: pl, Prog: pr})
				}
			}
			return
		}
		for s := range partScripts {
			rec(append(prefix, s), n)
		}
	}
	for n := 0; n <= 3; n++ {
		rec(nil, n)
	}
	return out
}

var c16Pre = preStore{Opts: txh.StoreOpts{Name: "st0", Slot: 4, Unique: true}, Seeds: []int{0, 1, 2, 3, 4, 5}}

type c16Result struct {
	log       *callLog
	beginErr  error
	commitErr error
	primary   bool // the primary fault fired
	rbFired   bool // the rollback fault fired
	dumpWhy   string
	dumpErr   error
	opProblem string
	committed bool
}

// runC16 executes one case and returns what was observed.
func runC16(c c16Case) (res c16Result, harnessErr error) {
	e, err := setupLc(lcCase{Mode: sop.ForWriting, HashMod: 3, UUIDSeed: 16, Pre: []preStore{c16Pre}})
	if err != nil {
		return res, err
	}
	defer e.Cleanup()
	pre := &txh.Model{Unique: true}
	for _, k := range c16Pre.Seeds {
		pre.Add(k, seedValue(k))
	}
	tx, err := e.NewTxn(txh.TxnOptions{Mode: sop.ForWriting})
	if err != nil {
		return res, fmt.Errorf("HARNESS-ERROR NewTxn: %w", err)
	}
	tx.Record = false
	defer tx.Tx.Close()
	lg := &callLog{}
	res.log = lg
	// The user-facing transaction: sop.NewTransaction over SOP's real two-phase transaction (seen through
	// the recording pass-through), participants attached with AddPhasedTransaction.
	user, err := sop.NewTransaction(sop.ForWriting, &sopLogged{in: tx.Two, log: lg})
	if err != nil {
		return res, fmt.Errorf("HARNESS-ERROR NewTransaction: %w", err)
	}
	for i, s := range c.Scripts {
		p := &participant{name: "p" + strconv.Itoa(i), fail: map[string]bool{}, log: lg}
		for _, f := range partScripts[s] {
			p.fail[f] = true
		}
		user.AddPhasedTransaction(p)
	}
	plan := sopPlans[c.Plan]
	// installed only around Commit / the user's Rollback, so that Begin and the write program run undisturbed
	hook := txh.Hook(func(s txh.Site) txh.Action {
		if s.After {
			return txh.Action{}
		}
		if !res.primary {
			hit := false
			switch plan.Primary {
			case "p1Lock":
				hit = s.Comp == "L2" && s.Method == "Lock"
			case "p1Registry":
				hit = s.Comp == "Registry" && s.Method == "UpdateNoLocks"
			case "p2Flip":
				hit = s.Comp == "Registry" && s.Method == "UpdateNoLocksFlip"
			}
			if hit {
				res.primary = true
				return txh.Action{Err: txh.ErrInjected}
			}
		}
		if plan.RollbackFault && !res.rbFired && (lg.inSopRollback || res.primary) {
			if (s.Comp == "Registry" && s.Method == "UpdateNoLocks") || (s.Comp == "StoreRepository" && s.Method == "Update") ||
				(s.Comp == "BlobStore" && s.Method == "Remove") {
				res.rbFired = true
				return txh.Action{Err: txh.ErrInjected}
			}
		}
		return txh.Action{}
	})
	defer tx.SetHook(nil)

	if res.beginErr = user.Begin(txh.Ctx); res.beginErr != nil {
		// the user's reaction to a failed Begin
		tx.SetHook(hook)
		user.Rollback(txh.Ctx)
	} else {
		b, err := txh.OpenBtree[int, string](tx, "st0")
		if err != nil {
			return res, fmt.Errorf("HARNESS-ERROR OpenBtree: %w", err)
		}
		for _, op := range c16Programs[c.Prog] {
			var kind string
			var k int
			fmt.Sscanf(op, "%s %d", &kind, &k)
			var ok bool
			switch kind {
			case "add":
				ok, err = b.Add(txh.Ctx, k, "new|")
			case "update":
				ok, err = b.Update(txh.Ctx, k, "upd|")
			case "remove":
				ok, err = b.Remove(txh.Ctx, k)
			}
			if !ok || err != nil {
				res.opProblem = fmt.Sprintf("%s returned %v %v", op, ok, err)
				return res, nil
			}
		}
		tx.SetHook(hook)
		res.commitErr = user.Commit(txh.Ctx)
		res.committed = res.commitErr == nil
	}
	tx.SetHook(nil)
	d, err := e.Dump([]txh.StoreOpts{c16Pre.Opts}, sop.ForReading)
	res.dumpErr = err
	if err == nil {
		res.dumpWhy = txh.CheckDump(d, []txh.StoreOpts{c16Pre.Opts}, []*txh.Model{pre})
	}
	return res, nil
}

// judgeC16 applies the two rules to the call log; returns "" when they hold.
func judgeC16(c c16Case, r c16Result) string {
	calls := r.log.calls
	n := len(c.Scripts)
	okBefore := func(i int, who, method string) bool {
		for _, l := range calls[:i] {
			if l.Who == who && l.Method == method && !l.Failed {
				return true
			}
		}
		return false
	}
	failure := ""
	for i, l := range calls {
		if l.Failed && (l.Method == "Begin" || l.Method == "Phase1Commit" || (l.Who == "sop" && l.Method == "Phase2Commit")) && failure == "" {
			failure = l.String()
		}
		if l.Who != "sop" && l.Method == "Phase2Commit" {
			if failure != "" {
				return fmt.Sprintf("%s.Phase2Commit was called although %s", l.Who, failure)
			}
			if !okBefore(i, "sop", "Phase1Commit") {
				return fmt.Sprintf("%s.Phase2Commit was called before SOP's Phase1Commit had returned nil", l.Who)
			}
			for j := 0; j < n; j++ {
				if !okBefore(i, "p"+strconv.Itoa(j), "Phase1Commit") {
					return fmt.Sprintf("%s.Phase2Commit was called before p%d.Phase1Commit had returned nil", l.Who, j)
				}
			}
			if !okBefore(i, "sop", "Phase2Commit") {
				return fmt.Sprintf("%s.Phase2Commit was called before SOP's Phase2Commit had returned nil", l.Who)
			}
		}
	}
	if failure == "" {
		return ""
	}
	// something failed before the second phases
	for j := 0; j < n; j++ {
		who := "p" + strconv.Itoa(j)
		begun, rolled := false, false
		for _, l := range calls {
			if l.Who == who && l.Method == "Begin" {
				begun = true
			}
			if l.Who == who && l.Method == "Rollback" {
				rolled = true
			}
		}
		if begun && !rolled {
			return fmt.Sprintf("%s, but %s (whose Begin was called) was never asked to roll back", failure, who)
		}
	}
	if !r.rbFired {
		if r.dumpErr != nil {
			return fmt.Sprintf("%s, and afterwards a fresh reader fails: %v", failure, r.dumpErr)
		}
		if r.dumpWhy != "" {
			return fmt.Sprintf("%s, but SOP's changes were not rolled back: %s", failure, r.dumpWhy)
		}
	}
	return ""
}

func shardOf() (int, int) {
	n, _ := strconv.Atoi(os.Getenv("VERIF_SHARDS"))
	i, _ := strconv.Atoi(os.Getenv("VERIF_SHARD"))
	if n <= 0 {
		return 0, 1
	}
	return i, n
}

// TestC16_Enumeration walks the whole space (sharded by case index).
func TestC16_Enumeration(t *testing.T) {
	rec := stats.For("C16").Meta("fault_enumeration",
		fmt.Sprintf("complete enumeration: 0-3 scripted participants x %d scripts each (fails: none | Begin | Phase1Commit | Phase2Commit | Rollback | Begin+Rollback | Phase1Commit+Rollback) x %d SOP fault plans (none, first lock of phase 1, first registry write of phase 1, the phase-2 registry flip, first registry/store-repository/blob-removal call of SOP's rollback work, and the two combinations) x %d write programs on a pre-seeded store; user reaction to a failed Begin = Rollback; oracle from the recorded call log (ordering of second phases; rollback fan-out; fresh-reader dump equals the pre-state unless the rollback fault itself fired); non-trivial = an injected failure actually occurred (a scripted call returned its error or a fault plan fired); distinct by rendered case",
			len(partScripts), len(sopPlans), len(c16Programs)),
		"standalone mode: in-memory L2 cache, one process, one goroutine",
		"injected backend faults are 'the call failed and had no effect' (returned before the real call)")
	cases := enumerateC16()
	si, sn := shardOf()
	done := 0
	for idx, c := range cases {
		if idx%sn != si {
			continue
		}
		r, herr := runC16(c)
		if herr != nil {
			t.Fatalf("%v (case %s)", herr, c.render())
		}
		if r.opProblem != "" {
			t.Fatalf("HARNESS-ERROR write program did not apply: %s (case %s)", r.opProblem, c.render())
		}
		if why := judgeC16(c, r); why != "" {
			t.Fatalf("%s\ncase %d: %s\ncall log: %s\nBegin=%v Commit=%v primaryFaultFired=%v rollbackFaultFired=%v",
				why, idx, c.render(), r.log, r.beginErr, r.commitErr, r.primary, r.rbFired)
		}
		occurred := r.primary || r.rbFired
		labels := []string{fmt.Sprintf("participants:%d", len(c.Scripts)), "sop:" + sopPlans[c.Plan].Name}
		firstFail := ""
		for _, l := range r.log.calls {
			if l.Failed {
				occurred = true
				labels = append(labels, "failed:"+l.Who[:1]+"."+l.Method)
				if firstFail == "" {
					firstFail = l.Method
				}
			}
			if l.Who != "sop" && l.Method == "Phase2Commit" {
				labels = append(labels, "participantPhase2Ran")
			}
		}
		labels = dedupe(labels)
		if r.committed {
			labels = append(labels, "commit:nil")
		} else if r.beginErr != nil {
			labels = append(labels, "beginFailed->userRollback")
		} else {
			labels = append(labels, "commit:error")
		}
		if r.primary {
			labels = append(labels, "primaryFaultFired")
		}
		if r.rbFired {
			labels = append(labels, "rollbackFaultFired(dump not compared)")
		}
		canon := c.render()
		if r.beginErr != nil && !r.rbFired {
			// the fault plan and the write program never came into play: count such cases once
			canon = strings.SplitN(canon, " sop:", 2)[0] + " (Begin failed)"
		}
		rec.Case(canon, occurred, labels...)
		if occurred && len(c.Scripts) >= 2 && (idx/7)%5 == 0 {
			rec.Sample(fmt.Sprintf("%d participants, first failure %s, sop plan %s", len(c.Scripts), firstFail, sopPlans[c.Plan].Name), c.render()+" => "+r.log.String())
		}
		done++
	}
	rec.SetExtra("cases_total", len(cases))
	rec.SetExhaustive()
	t.Logf("evaluated %d of %d cases (shard %d/%d)", done, len(cases), si, sn)
}

func dedupe(in []string) []string {
	seen := map[string]bool{}
	var out []string
	for _, s := range in {
		if !seen[s] {
			seen[s] = true
			out = append(out, s)
		}
	}
	return out
}
