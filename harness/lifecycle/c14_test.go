package lifecycle

import (
	"fmt"
	"sort"
	"strings"
	"testing"

	"github.com/sharedcode/sop"
	"pgregory.net/rapid"

	"verif/harness/stats"
	"verif/harness/txh"
)

// C14 - "Transaction modes and lifecycle are enforced".
//
// One sop.Transaction (ForWriting / ForReading / NoCheck) and its GetPhasedTransaction() are driven
// through a random sequence of lifecycle calls, store creation/opening and B-tree calls on handles
// obtained earlier (also after the transaction ended). A small lifecycle model says which of the
// four sentences of the property applies to each call; after the sequence a fresh reader's view of
// the store list and of every store must equal the model.
//
// Grounding of the expectations (nothing else is asserted):
//   * btree/withtransaction.go type comment: "A transaction must have begun before any operation",
//     "Write operations require a writer-mode transaction; otherwise the tx is rolled back".
//   * common/managebtree.go: OpenBtree/NewBtree "Requires an active transaction"; NewBtree "The
//     creation of the store is fully transactional; if the transaction rolls back, the store will
//     not be created."
//   * transaction.go: NoCheck "disallows any changes", ForReading "disallows modifications".
//   * common/twophasecommittransaction.go Rollback: "transaction is already committed, cannot rollback".
//   * btreeWithTransaction.GetCurrentKey: "returns zero value if no transaction".
// A call that "must not succeed" may return false or an error (the docs do not say which).

const (
	slugCreate = "readonly-transaction-creates-store"
	slugFDO    = "find-in-descending-order-ignores-lifecycle"
	// slugKeep: a ForWriting transaction creates a store, then writes to an actively persisted store
	// (the pre-commit log state hides the createStore state) and is rolled back: the created store
	// stays. It contradicts NewBtree's doc comment; it is C12's subject as much as C14's, so a listing
	// under either property is honoured.
	slugKeep = "rollback-keeps-created-store-after-actively-persisted-write"
	// slugSucc: Btree.RemoveCurrentItem on an item of an inner node hands the item's successor (taken
	// from the leaf) to the item tracker instead of the removed item. When the successor was added in
	// the same transaction the tracker ends up empty and Commit returns nil without persisting anything.
	// A C19/C17 matter that the final dump of this check also sees; a listing under any of them is honoured.
	slugSucc = "remove-from-inner-node-tracks-successor"
)

type lcState int

const (
	stNew lcState = iota
	stBegun
	stPhase1
	stDone
)

func (s lcState) String() string { return [...]string{"new", "begun", "phase1", "done"}[s] }

type lcHandle struct {
	name string
	b    txh.Store
}

type preStore struct {
	Opts  txh.StoreOpts
	Seeds []int
}

type lcCase struct {
	Mode     sop.TransactionMode
	HashMod  int
	UUIDSeed uint64
	Pre      []preStore
}

func modeName(m sop.TransactionMode) string {
	return map[sop.TransactionMode]string{sop.ForWriting: "ForWriting", sop.ForReading: "ForReading", sop.NoCheck: "NoCheck"}[m]
}

func (c lcCase) render() string {
	s := fmt.Sprintf("%s mod=%d seed=%x", modeName(c.Mode), c.HashMod, c.UUIDSeed)
	for _, p := range c.Pre {
		s += fmt.Sprintf(" {%s slot=%d %s seeds=%v}", p.Opts.Name, p.Opts.Slot, txh.PlacementNames[p.Opts.Placement], p.Seeds)
	}
	return s
}

func genLcCase(t *rapid.T) lcCase {
	c := lcCase{}
	c.Mode = rapid.SampledFrom([]sop.TransactionMode{sop.ForWriting, sop.ForWriting, sop.ForReading, sop.NoCheck}).Draw(t, "mode")
	c.HashMod = rapid.SampledFrom([]int{1, 3, 16}).Draw(t, "hashMod")
	c.UUIDSeed = rapid.Uint64().Draw(t, "uuidSeed")
	n := rapid.IntRange(1, 2).Draw(t, "nPre")
	for i := 0; i < n; i++ {
		p := preStore{Opts: txh.StoreOpts{Name: fmt.Sprintf("st%d", i), Unique: true}}
		p.Opts.Slot = rapid.SampledFrom([]int{2, 4, 4, 8}).Draw(t, "slot")
		p.Opts.Placement = rapid.SampledFrom([]int{0, 0, 1, 3}).Draw(t, "placement")
		p.Seeds = rapid.SliceOfNDistinct(rapid.IntRange(0, keyDomain-1), 0, 9, rapid.ID[int]).Draw(t, "seeds")
		sort.Ints(p.Seeds)
		c.Pre = append(c.Pre, p)
	}
	return c
}

const keyDomain = 12

// newNames are the names NewBtree may create; "missing" is only ever opened.
var newNames = []string{"nw0", "nw1"}

func newStoreOpts(name string) txh.StoreOpts {
	return txh.StoreOpts{Name: name, Slot: 4, Unique: true}
}

type machine struct {
	c   lcCase
	e   *txh.Env
	tx  *txh.Txn
	rec *stats.Rec

	st        lcState
	committed bool // meaningful in stDone: Commit / Phase2Commit returned nil

	// what a fresh reader must see
	models map[string]*txh.Model
	opts   map[string]txh.StoreOpts
	// the transaction's own view
	work    map[string]*txh.Model
	created map[string]bool

	handles []*lcHandle
	// unspec: a ForWriting transaction was driven through phase 1 twice or written to after phase 1;
	// no sentence of the property says what is stored then, so contents are not compared.
	unspec bool

	log       []string
	labels    map[string]bool
	misuse    bool
	nTag      int
	knownNew  bool
	knownFDO  bool
	knownKeep bool
	knownSucc bool
	mutated   map[string]bool // stores this transaction has successfully written to
	fatalf    func(format string, args ...any)
	unexpErrs []string
}

func (m *machine) active() bool   { return m.st == stBegun || m.st == stPhase1 }
func (m *machine) writer() bool   { return m.c.Mode == sop.ForWriting }
func (m *machine) label(l string) { m.labels[l] = true }
func (m *machine) note(format string, args ...any) {
	m.log = append(m.log, fmt.Sprintf(format, args...))
}
func (m *machine) fail(format string, args ...any) {
	m.fatalf("%s\ncase: %s\ncalls so far:\n  %s", fmt.Sprintf(format, args...), m.c.render(), strings.Join(m.log, "\n  "))
}

func errStr(err error) string {
	if err == nil {
		return "nil"
	}
	return "err"
}

func setupLc(c lcCase) (*txh.Env, error) {
	e, err := txh.NewEnv(c.HashMod)
	if err != nil {
		return nil, err
	}
	txh.SeedUUIDs(c.UUIDSeed)
	so := make([]txh.StoreOpts, len(c.Pre))
	for i, p := range c.Pre {
		so[i] = p.Opts
	}
	if err := e.Setup(so); err != nil {
		e.Cleanup()
		return nil, fmt.Errorf("HARNESS-ERROR setup: %w", err)
	}
	t, err := e.NewTxn(txh.TxnOptions{Mode: sop.ForWriting})
	if err != nil {
		e.Cleanup()
		return nil, fmt.Errorf("HARNESS-ERROR seed NewTxn: %w", err)
	}
	t.Record = false
	if err := t.Tx.Begin(txh.Ctx); err != nil {
		e.Cleanup()
		return nil, fmt.Errorf("HARNESS-ERROR seed Begin: %w", err)
	}
	for _, p := range c.Pre {
		b, err := txh.OpenBtree[int, string](t, p.Opts.Name)
		if err != nil {
			e.Cleanup()
			return nil, fmt.Errorf("HARNESS-ERROR seed open: %w", err)
		}
		for _, k := range p.Seeds {
			if ok, err := b.Add(txh.Ctx, k, seedValue(k)); !ok || err != nil {
				e.Cleanup()
				return nil, fmt.Errorf("HARNESS-ERROR seed add: %v %v", ok, err)
			}
		}
	}
	if err := t.Tx.Commit(txh.Ctx); err != nil {
		e.Cleanup()
		return nil, fmt.Errorf("HARNESS-ERROR seed commit: %w", err)
	}
	return e, nil
}

func seedValue(k int) string { return fmt.Sprintf("seed%d|", k) }

func newMachine(c lcCase, rec *stats.Rec, fatalf func(string, ...any)) *machine {
	m := &machine{c: c, rec: rec, fatalf: fatalf, labels: map[string]bool{},
		models: map[string]*txh.Model{}, opts: map[string]txh.StoreOpts{}, work: map[string]*txh.Model{}, created: map[string]bool{}}
	m.knownNew = stats.Known("C14", slugCreate)
	m.knownFDO = stats.Known("C14", slugFDO)
	m.knownKeep = stats.Known("C14", slugKeep) || stats.Known("C12", slugKeep)
	m.knownSucc = stats.Known("C14", slugSucc) || stats.Known("C19", slugSucc) || stats.Known("C17", slugSucc)
	m.mutated = map[string]bool{}
	e, err := setupLc(c)
	if err != nil {
		fatalf("%v", err)
	}
	m.e = e
	for _, p := range c.Pre {
		mod := &txh.Model{Unique: true}
		for _, k := range p.Seeds {
			mod.Add(k, seedValue(k))
		}
		m.models[p.Opts.Name] = mod
		m.work[p.Opts.Name] = mod.Clone()
		m.opts[p.Opts.Name] = p.Opts
	}
	tx, err := e.NewTxn(txh.TxnOptions{Mode: c.Mode})
	if err != nil {
		e.Cleanup()
		fatalf("HARNESS-ERROR NewTxn: %v", err)
	}
	tx.Record = false
	m.tx = tx
	return m
}

// settle brings the model's state in line with HasBegun() after a call: a call that failed while
// the transaction was active may have rolled it back (documented for the B-tree wrapper and for
// NewBtree/OpenBtree). A finished transaction that reports HasBegun()==true was started again.
func (m *machine) settle(what string) {
	hb := m.tx.Tx.HasBegun()
	switch {
	case m.active() && !hb:
		m.st, m.committed = stDone, false
		m.abortWork()
		m.label("endedByFailedCall")
		m.note("  -> transaction ended by %s", what)
	case m.st == stDone && hb:
		m.fail("%s on a finished transaction made HasBegun() true again: a finished transaction was started again", what)
	case m.st == stNew && hb:
		m.st = stBegun
	}
}

func (m *machine) abortWork() {
	for n := range m.created {
		delete(m.work, n)
	}
	m.created = map[string]bool{}
}

// commitWork: Commit / Phase2Commit returned nil.
func (m *machine) commitWork() {
	m.st, m.committed = stDone, true
	if !m.writer() {
		// "Read-only and no-check transactions can never change any stored data": the model stays.
		return
	}
	for n, w := range m.work {
		m.models[n] = w.Clone()
		if m.created[n] {
			m.opts[n] = newStoreOpts(n)
		}
	}
}

// ---- lifecycle calls ---------------------------------------------------------------------------

func (m *machine) lifecycle(t *rapid.T) {
	var choices []string
	switch m.st {
	case stNew:
		choices = []string{"Begin", "Begin", "Begin", "Begin", "Begin", "Begin", "Commit", "Rollback", "Phase1Commit", "Phase2Commit", "Close", "GetStores"}
	case stBegun:
		choices = []string{"Commit", "Commit", "Commit", "Rollback", "Rollback", "Phase1Commit", "Phase1Commit", "Phase2Commit", "Begin", "Close", "GetStores", "PhasedRollback"}
	case stPhase1:
		choices = []string{"Phase2Commit", "Phase2Commit", "Phase2Commit", "Commit", "Rollback", "Rollback", "Phase1Commit", "Begin", "Close", "GetStores", "PhasedRollback"}
	default:
		choices = []string{"Begin", "Commit", "Rollback", "Rollback", "Phase1Commit", "Phase2Commit", "Close", "GetStores", "PhasedRollback"}
	}
	m.doLifecycle(rapid.SampledFrom(choices).Draw(t, "call"))
}

func (m *machine) doLifecycle(call string) {
	tx := m.tx.Tx
	p := tx.GetPhasedTransaction()
	before := m.st
	switch call {
	case "Begin":
		err := tx.Begin(txh.Ctx)
		m.note("Begin [%s] -> %s", before, errStr(err))
		switch before {
		case stNew:
			hb := tx.HasBegun()
			if (err == nil) != hb {
				m.fail("Begin returned %v but HasBegun() is %v", err, hb)
			}
			if err == nil {
				m.st = stBegun
			}
		case stBegun, stPhase1:
			m.misuse = true
			m.label("beginWhileActive")
			m.settle("Begin")
		case stDone:
			m.misuse = true
			m.label("beginAfterEnd")
			if err == nil {
				m.fail("Begin on a finished transaction returned nil: a finished transaction was started again")
			}
			m.settle("Begin")
		}
	case "Commit":
		err := tx.Commit(txh.Ctx)
		m.note("Commit [%s] -> %s", before, errStr(err))
		switch before {
		case stNew:
			m.misuse = true
			m.label("commitBeforeBegin")
			m.settle("Commit")
		case stBegun, stPhase1:
			if before == stPhase1 {
				m.misuse = true
				m.label("commitAfterPhase1")
				if m.writer() {
					m.unspec = true // Commit runs phase 1 again
				}
			}
			if err == nil {
				m.commitWork()
				m.label("committed")
			} else {
				m.label("commitFailed")
			}
			m.settle("Commit")
			if m.active() {
				// transaction.go: "on error, Rollback is invoked"; nothing says the transaction must be
				// over, the model simply keeps following HasBegun().
				m.label("activeAfterFailedCommit")
			}
		case stDone:
			m.misuse = true
			m.label("commitAfterEnd")
			m.settle("Commit")
		}
	case "Rollback", "PhasedRollback":
		var err error
		if call == "Rollback" {
			err = tx.Rollback(txh.Ctx)
		} else {
			err = p.Rollback(txh.Ctx, nil)
		}
		m.note("%s [%s committed=%v] -> %s", call, before, m.committed, errStr(err))
		switch before {
		case stNew:
			m.misuse = true
			m.label("rollbackBeforeBegin")
			m.settle(call)
		case stBegun, stPhase1:
			if before == stPhase1 {
				m.label("rollbackAfterPhase1")
			}
			m.settle(call)
			if m.active() {
				m.label("activeAfterRollback")
			} else {
				m.label("rolledBack")
			}
		case stDone:
			m.misuse = true
			if m.committed {
				m.label("rollbackAfterCommit")
				if err == nil {
					m.fail("%s returned nil after the transaction was committed (Commit/Phase2Commit returned nil): a committed transaction was rolled back", call)
				}
			} else {
				m.label("rollbackAfterAbort")
			}
			m.settle(call)
		}
	case "Phase1Commit":
		err := p.Phase1Commit(txh.Ctx)
		m.note("Phase1Commit [%s] -> %s", before, errStr(err))
		switch before {
		case stNew:
			m.misuse = true
			m.label("phase1BeforeBegin")
			m.settle("Phase1Commit")
		case stBegun:
			if err == nil {
				m.st = stPhase1
				m.label("phase1Done")
			}
			m.settle("Phase1Commit")
		case stPhase1:
			m.misuse = true
			m.label("phase1Twice")
			if m.writer() {
				m.unspec = true
			}
			m.settle("Phase1Commit")
		case stDone:
			m.misuse = true
			m.label("phase1AfterEnd")
			m.settle("Phase1Commit")
		}
	case "Phase2Commit":
		err := p.Phase2Commit(txh.Ctx)
		m.note("Phase2Commit [%s] -> %s", before, errStr(err))
		switch before {
		case stNew:
			m.misuse = true
			m.label("phase2BeforeBegin")
			m.settle("Phase2Commit")
		case stBegun:
			m.misuse = true
			m.label("phase2WithoutPhase1")
			if err == nil {
				// it claims the commit is complete: hold it to that
				m.commitWork()
			}
			m.settle("Phase2Commit")
		case stPhase1:
			if err == nil {
				m.commitWork()
				m.label("committedByPhases")
			}
			m.settle("Phase2Commit")
		case stDone:
			m.misuse = true
			m.label("phase2AfterEnd")
			m.settle("Phase2Commit")
		}
	case "Close":
		err := tx.Close()
		m.note("Close [%s] -> %s", before, errStr(err))
		if m.active() {
			m.label("closeWhileActive")
		}
		m.settle("Close")
	case "GetStores":
		_, err := tx.GetStores(txh.Ctx)
		m.note("GetStores [%s] -> %s", before, errStr(err))
		m.settle("GetStores")
	}
}

// ---- NewBtree / OpenBtree ----------------------------------------------------------------------

func (m *machine) open(t *rapid.T) {
	kinds := []string{"open", "open", "open", "open", "newExisting", "newExisting", "newExisting", "newName", "newName", "newName", "openMissing", "newIncompatible"}
	kind := rapid.SampledFrom(kinds).Draw(t, "openKind")
	var name string
	switch kind {
	case "open", "newExisting", "newIncompatible":
		name = m.c.Pre[rapid.IntRange(0, len(m.c.Pre)-1).Draw(t, "pre")].Opts.Name
	case "newName":
		name = rapid.SampledFrom(newNames).Draw(t, "newName")
		if !m.writer() && m.knownNew {
			m.rec.Exclude("NewBtree(not yet existing name) in a ForReading/NoCheck transaction (known finding " + slugCreate + ")")
			t.Skip("known finding class")
		}
	case "openMissing":
		name = "missing"
	}
	m.doOpen(kind, name)
}

func (m *machine) doOpen(kind, name string) {
	before := m.st
	wasActive := m.active()
	var b txh.Store
	var err error
	switch kind {
	case "open", "openMissing":
		b, err = txh.OpenBtree[int, string](m.tx, name)
	case "newExisting":
		b, err = txh.NewBtree[int, string](m.tx, m.opts[name])
	case "newIncompatible":
		o := m.opts[name]
		o.Slot += 2
		b, err = txh.NewBtree[int, string](m.tx, o)
	case "newName":
		b, err = txh.NewBtree[int, string](m.tx, newStoreOpts(name))
	}
	m.note("%s(%s) [%s] -> %s", kind, name, before, errStr(err))
	if !wasActive {
		m.misuse = true
		m.label("openWhileNotActive")
		if err == nil {
			m.fail("%s(%s) succeeded although the transaction is %s (NewBtree/OpenBtree: \"Requires an active transaction\")", kind, name, before)
		}
		m.settle(kind)
		return
	}
	if err == nil && b != nil {
		if _, ok := m.work[name]; !ok {
			// a store that did not exist was created inside this transaction
			m.work[name] = &txh.Model{Unique: true}
			m.created[name] = true
			if m.writer() {
				m.label("storeCreatedByWriter")
				if before == stPhase1 {
					m.unspec = true
					m.misuse = true
					m.label("storeCreatedAfterPhase1")
				}
			} else {
				m.misuse = true
				m.label("storeCreatedByReader")
			}
		}
		m.handles = append(m.handles, &lcHandle{name: name, b: b})
		m.label("handleObtained")
	}
	m.settle(kind)
}

// ---- B-tree calls ------------------------------------------------------------------------------

var mutatorKinds = []string{"Add", "AddIfNotExist", "Upsert", "Update", "UpdateKey", "Remove",
	"UpdateCurrentValue", "UpdateCurrentKey", "UpdateCurrentItem", "RemoveCurrentItem"}
var readerKinds = []string{"Find", "FindFirst", "FindWithID", "FindInDescendingOrder", "GetCurrentKey", "GetCurrentValue",
	"GetCurrentValueNoLock", "GetCurrentItem", "GetCurrentItemNoLock", "RLockCurrentItem", "First", "Last", "Next", "Previous",
	"IsUnique", "Count", "GetStoreInfo"}

func isMutator(kind string) bool {
	for _, k := range mutatorKinds {
		if k == kind {
			return true
		}
	}
	return false
}

func (m *machine) storeOp(t *rapid.T) {
	if len(m.handles) == 0 {
		t.Skip("no handle yet")
	}
	h := m.handles[rapid.IntRange(0, len(m.handles)-1).Draw(t, "handle")]
	var kind string
	// a write attempt ends an active non-writing transaction (documented), so it is drawn less often there
	mutateOdds := 2
	if m.active() && !m.writer() {
		mutateOdds = 6
	}
	if rapid.IntRange(1, mutateOdds).Draw(t, "mutate") == 1 {
		kind = rapid.SampledFrom(mutatorKinds).Draw(t, "mutator")
	} else {
		kind = rapid.SampledFrom(readerKinds).Draw(t, "reader")
	}
	k := rapid.IntRange(0, keyDomain-1).Draw(t, "key")
	if m.knownKeep && m.writer() && m.st == stBegun && isMutator(kind) && len(m.created) > 0 && m.opts[h.name].Placement >= 3 {
		m.rec.Exclude("write to an actively persisted store after NewBtree created a store in the same ForWriting transaction (known finding " + slugKeep + ")")
		t.Skip("known finding class")
	}
	if m.knownSucc && m.writer() && m.st == stBegun && (kind == "Remove" || kind == "RemoveCurrentItem") && m.mutated[h.name] {
		m.rec.Exclude("removal after another write to the same store in one ForWriting transaction (known finding " + slugSucc + ")")
		t.Skip("known finding class")
	}
	m.doStoreOp(h, kind, k)
}

// attempt is the outcome of one B-tree call in a form the lifecycle rules can judge.
type attempt struct {
	what      string
	ok        bool
	hasOK     bool // the method reports a bool
	err       error
	judgeable bool // the method can report failure at all
}

func (a attempt) succeeded() bool { return a.judgeable && a.err == nil && (!a.hasOK || a.ok) }

func boolRes(what string, ok bool, err error) attempt {
	return attempt{what: what, ok: ok, hasOK: true, err: err, judgeable: true}
}
func errRes(what string, err error) attempt { return attempt{what: what, err: err, judgeable: true} }

// callMutator performs exactly the named mutator.
func callMutator(b txh.Store, kind string, k int, v string) attempt {
	switch kind {
	case "Add":
		ok, err := b.Add(txh.Ctx, k, v)
		return boolRes(kind, ok, err)
	case "AddIfNotExist":
		ok, err := b.AddIfNotExist(txh.Ctx, k, v)
		return boolRes(kind, ok, err)
	case "Upsert":
		ok, err := b.Upsert(txh.Ctx, k, v)
		return boolRes(kind, ok, err)
	case "Update":
		ok, err := b.Update(txh.Ctx, k, v)
		return boolRes(kind, ok, err)
	case "UpdateKey":
		ok, err := b.UpdateKey(txh.Ctx, k)
		return boolRes(kind, ok, err)
	case "Remove":
		ok, err := b.Remove(txh.Ctx, k)
		return boolRes(kind, ok, err)
	case "UpdateCurrentValue":
		ok, err := b.UpdateCurrentValue(txh.Ctx, v)
		return boolRes(kind, ok, err)
	case "UpdateCurrentKey":
		ok, err := b.UpdateCurrentKey(txh.Ctx, k)
		return boolRes(kind, ok, err)
	case "UpdateCurrentItem":
		ok, err := b.UpdateCurrentItem(txh.Ctx, k, v)
		return boolRes(kind, ok, err)
	case "RemoveCurrentItem":
		ok, err := b.RemoveCurrentItem(txh.Ctx)
		return boolRes(kind, ok, err)
	}
	panic("HARNESS-ERROR unknown mutator " + kind)
}

func needsCursor(kind string) bool {
	switch kind {
	case "UpdateCurrentValue", "UpdateCurrentKey", "UpdateCurrentItem", "RemoveCurrentItem",
		"GetCurrentKey", "GetCurrentValue", "GetCurrentValueNoLock", "GetCurrentItem", "GetCurrentItemNoLock", "RLockCurrentItem", "FindWithID":
		return true
	}
	return false
}

func (m *machine) doStoreOp(h *lcHandle, kind string, k int) {
	m.nTag++
	v := fmt.Sprintf("w%d|", m.nTag)
	before := m.st
	mut := isMutator(kind)
	switch {
	case !m.active():
		m.misuse = true
		m.label("storeCallAfterEnd")
		m.deadCall(h, kind, k, v)
	case mut && !m.writer():
		m.misuse = true
		m.label("writeInNonWritingMode")
		m.refusedWrite(h, kind, k, v)
	case mut && before == stPhase1:
		// ForWriting, after Phase1Commit: the call is inside Begin..end, so it may succeed; what is
		// stored afterwards is not specified by any sentence of the property.
		m.misuse = true
		m.unspec = true
		m.label("writeAfterPhase1")
		if needsCursor(kind) {
			if ok, err := h.b.Find(txh.Ctx, k, false); !ok || err != nil {
				m.note("%s.Find(%d) [%s] -> %v %s", h.name, k, before, ok, errStr(err))
				m.settle("Find")
				return
			}
		}
		a := callMutator(h.b, kind, k, v)
		m.note("%s.%s(%d) [%s] -> %v %s", h.name, kind, k, before, a.ok, errStr(a.err))
		m.settle(kind)
	case mut:
		m.liveWrite(h, kind, k, v)
	default:
		if before == stPhase1 {
			m.label("readAfterPhase1")
		}
		m.liveRead(h, kind, k)
	}
}

// deadCall: the transaction has not begun or is over; the call must not succeed.
func (m *machine) deadCall(h *lcHandle, kind string, k int, v string) {
	b := h.b
	var as []attempt
	if isMutator(kind) {
		as = append(as, callMutator(b, kind, k, v))
	} else {
		switch kind {
		case "Find", "FindFirst":
			ok, err := b.Find(txh.Ctx, k, kind == "FindFirst")
			as = append(as, boolRes(kind, ok, err))
		case "FindWithID":
			ok, err := b.FindWithID(txh.Ctx, k, sop.NewUUID())
			as = append(as, boolRes(kind, ok, err))
		case "FindInDescendingOrder":
			ok, err := b.FindInDescendingOrder(txh.Ctx, k)
			a := boolRes(kind, ok, err)
			if a.succeeded() && m.knownFDO {
				m.rec.Exclude("FindInDescendingOrder succeeded on a finished transaction (known finding " + slugFDO + ")")
				a.judgeable = false
			}
			as = append(as, a)
		case "GetCurrentKey":
			it := b.GetCurrentKey()
			if !it.ID.IsNil() {
				m.fail("%s.GetCurrentKey() on a %s transaction returned item id %v (documented: zero value if no transaction)", h.name, m.st, it.ID)
			}
			as = append(as, attempt{what: kind})
		case "GetCurrentValue":
			_, err := b.GetCurrentValue(txh.Ctx)
			as = append(as, errRes(kind, err))
		case "GetCurrentValueNoLock":
			_, err := b.GetCurrentValueNoLock(txh.Ctx)
			as = append(as, errRes(kind, err))
		case "GetCurrentItem":
			_, err := b.GetCurrentItem(txh.Ctx)
			as = append(as, errRes(kind, err))
		case "GetCurrentItemNoLock":
			_, err := b.GetCurrentItemNoLock(txh.Ctx)
			as = append(as, errRes(kind, err))
		case "RLockCurrentItem":
			as = append(as, errRes(kind, b.RLockCurrentItem(txh.Ctx)))
		case "First":
			ok, err := b.First(txh.Ctx)
			as = append(as, boolRes(kind, ok, err))
		case "Last":
			ok, err := b.Last(txh.Ctx)
			as = append(as, boolRes(kind, ok, err))
		case "Next":
			ok, err := b.Next(txh.Ctx)
			as = append(as, boolRes(kind, ok, err))
		case "Previous":
			ok, err := b.Previous(txh.Ctx)
			as = append(as, boolRes(kind, ok, err))
		case "IsUnique":
			b.IsUnique()
			as = append(as, attempt{what: kind})
		case "Count":
			b.Count()
			as = append(as, attempt{what: kind})
		case "GetStoreInfo":
			b.GetStoreInfo()
			as = append(as, attempt{what: kind})
		}
	}
	for _, a := range as {
		m.note("%s.%s(%d) [%s] -> %v %s", h.name, a.what, k, m.st, a.ok, errStr(a.err))
		if a.succeeded() {
			m.fail("%s.%s succeeded although the transaction is %s: store operations succeed only between Begin and the end of the transaction", h.name, a.what, m.st)
		}
	}
	m.settle(kind)
}

// refusedWrite: an active ForReading / NoCheck transaction; the mutator must not succeed. Cursor
// mutators are preceded by a Find (a read, allowed) so that a current item exists.
func (m *machine) refusedWrite(h *lcHandle, kind string, k int, v string) {
	if needsCursor(kind) {
		ok, err := h.b.Find(txh.Ctx, k, false)
		m.note("%s.Find(%d) [%s] -> %v %s", h.name, k, m.st, ok, errStr(err))
		m.settle("Find")
		if !m.active() || !ok {
			return
		}
	}
	a := callMutator(h.b, kind, k, v)
	m.note("%s.%s(%d) [%s %s] -> %v %s", h.name, kind, k, m.st, modeName(m.c.Mode), a.ok, errStr(a.err))
	if a.succeeded() {
		m.fail("%s.%s succeeded in a %s transaction: read-only and no-check transactions can never change stored data", h.name, kind, modeName(m.c.Mode))
	}
	m.settle(kind)
}

func (m *machine) opErr(h *lcHandle, what string, err error) {
	// an error from a call that the lifecycle allows: not a C14 matter (the wrapper rolls back); recorded.
	m.label("unexpectedErrorFromAllowedCall")
	m.unexpErrs = append(m.unexpErrs, fmt.Sprintf("%s.%s: %v", h.name, what, err))
	m.note("%s.%s -> error %v", h.name, what, err)
	m.settle(what)
}

// liveWrite: ForWriting, begun, phase 1 not yet run. Results of the keyed calls are compared with the
// model (unique stores: fully determined); cursor calls follow the observed result.
func (m *machine) liveWrite(h *lcHandle, kind string, k int, v string) {
	mod := m.work[h.name]
	b := h.b
	has := mod.Has(k)
	m.label("liveWrite")
	cmp := func(got, want bool) {
		if !m.unspec && got != want {
			m.fail("%s.%s(%d) returned %v, the model of this transaction says %v", h.name, kind, k, got, want)
		}
	}
	if needsCursor(kind) {
		ok, err := b.Find(txh.Ctx, k, false)
		if err != nil {
			m.opErr(h, "Find", err)
			return
		}
		cmp(ok, has)
		if !ok {
			m.note("%s.Find(%d)+%s [%s] -> not found", h.name, k, kind, m.st)
			return
		}
	}
	a := callMutator(b, kind, k, v)
	m.note("%s.%s(%d,%s) [%s] -> %v %s", h.name, kind, k, v, m.st, a.ok, errStr(a.err))
	if a.err != nil {
		m.opErr(h, kind, a.err)
		return
	}
	if a.ok {
		m.mutated[h.name] = true
	}
	switch kind {
	case "Add", "AddIfNotExist":
		cmp(a.ok, !has)
		if a.ok {
			mod.Add(k, v)
		}
	case "Upsert":
		cmp(a.ok, true)
		if a.ok && !mod.SetUnique(k, v) {
			mod.Add(k, v)
		}
	case "Update":
		cmp(a.ok, has)
		if a.ok {
			mod.SetUnique(k, v)
		}
	case "UpdateKey":
		cmp(a.ok, has)
	case "Remove":
		cmp(a.ok, has)
		if a.ok {
			mod.RemoveUnique(k)
		}
	case "UpdateCurrentValue", "UpdateCurrentItem":
		if a.ok {
			mod.SetUnique(k, v)
		}
	case "UpdateCurrentKey":
		// same key: nothing to change
	case "RemoveCurrentItem":
		if a.ok {
			mod.RemoveUnique(k)
		}
	}
	m.settle(kind)
}

// liveRead: an active transaction of any mode; reads see the transaction's own view.
func (m *machine) liveRead(h *lcHandle, kind string, k int) {
	mod := m.work[h.name]
	b := h.b
	has := mod.Has(k)
	m.label("liveRead")
	bad := func(format string, args ...any) {
		if !m.unspec {
			m.fail("%s.%s(%d) [%s]: %s", h.name, kind, k, m.st, fmt.Sprintf(format, args...))
		}
	}
	if needsCursor(kind) {
		ok, err := b.Find(txh.Ctx, k, false)
		if err != nil {
			m.opErr(h, "Find", err)
			return
		}
		if ok != has {
			bad("Find returned %v, model says %v", ok, has)
		}
		if !ok {
			m.note("%s.Find(%d)+%s [%s] -> not found", h.name, k, kind, m.st)
			return
		}
	}
	want := ""
	if vs := mod.Values(k); len(vs) > 0 {
		want = vs[0]
	}
	var err error
	switch kind {
	case "Find", "FindFirst":
		var ok bool
		if ok, err = b.Find(txh.Ctx, k, kind == "FindFirst"); err == nil && ok != has {
			bad("returned %v, model says %v", ok, has)
		}
	case "FindInDescendingOrder":
		var ok bool
		if ok, err = b.FindInDescendingOrder(txh.Ctx, k); err == nil && ok != has {
			bad("returned %v, model says %v", ok, has)
		}
	case "FindWithID":
		_, err = b.FindWithID(txh.Ctx, k, b.GetCurrentKey().ID)
	case "GetCurrentKey":
		if got := b.GetCurrentKey().Key; got != k {
			bad("cursor is on key %d", got)
		}
	case "GetCurrentValue":
		var got string
		if got, err = b.GetCurrentValue(txh.Ctx); err == nil && got != want {
			bad("value %q, model says %q", got, want)
		}
	case "GetCurrentValueNoLock":
		// the NoLock getters do not fetch a value kept outside the node (they return the zero value
		// then): what they return is not a lifecycle matter, only that they are allowed to run
		_, err = b.GetCurrentValueNoLock(txh.Ctx)
	case "GetCurrentItem":
		it, e := b.GetCurrentItem(txh.Ctx)
		if err = e; err == nil && (it.Key != k || it.Value == nil || *it.Value != want) {
			bad("item key %d value %v, model says %q", it.Key, it.Value, want)
		}
	case "GetCurrentItemNoLock":
		_, err = b.GetCurrentItemNoLock(txh.Ctx)
	case "RLockCurrentItem":
		err = b.RLockCurrentItem(txh.Ctx)
	case "First", "Last", "Next", "Previous":
		err = m.walk(h, kind, bad)
	case "IsUnique":
		if !b.IsUnique() {
			bad("IsUnique() is false for a unique store")
		}
	case "Count":
		if c := b.Count(); c != int64(len(mod.Items)) {
			bad("Count() is %d, model has %d items", c, len(mod.Items))
		}
	case "GetStoreInfo":
		if n := b.GetStoreInfo().Name; n != h.name {
			bad("GetStoreInfo().Name is %q", n)
		}
	}
	if err != nil {
		m.opErr(h, kind, err)
		return
	}
	m.note("%s.%s(%d) [%s] ok", h.name, kind, k, m.st)
	m.settle(kind)
}

func (m *machine) walk(h *lcHandle, kind string, bad func(string, ...any)) error {
	mod := m.work[h.name]
	b := h.b
	n := len(mod.Items)
	var ok bool
	var err error
	wantOK, wantKey := n > 0, 0
	switch kind {
	case "First", "Next":
		ok, err = b.First(txh.Ctx)
		if n > 0 {
			wantKey = mod.Items[0].K
		}
	default:
		ok, err = b.Last(txh.Ctx)
		if n > 0 {
			wantKey = mod.Items[n-1].K
		}
	}
	if err != nil {
		return err
	}
	if ok != wantOK || (ok && b.GetCurrentKey().Key != wantKey) {
		bad("First/Last returned %v on key %d, model says %v key %d", ok, b.GetCurrentKey().Key, wantOK, wantKey)
	}
	if !ok || kind == "First" || kind == "Last" {
		return nil
	}
	wantOK = n > 1
	if kind == "Next" {
		ok, err = b.Next(txh.Ctx)
		if n > 1 {
			wantKey = mod.Items[1].K
		}
	} else {
		ok, err = b.Previous(txh.Ctx)
		if n > 1 {
			wantKey = mod.Items[n-2].K
		}
	}
	if err != nil {
		return err
	}
	if ok != wantOK || (ok && b.GetCurrentKey().Key != wantKey) {
		bad("%s returned %v on key %d, model says %v key %d", kind, ok, b.GetCurrentKey().Key, wantOK, wantKey)
	}
	return nil
}

// ---- end of sequence ---------------------------------------------------------------------------

// finish ends a still active transaction (Rollback) and compares a fresh reader's view with the model.
func (m *machine) finish() {
	if m.active() {
		err := m.tx.Tx.Rollback(txh.Ctx)
		m.note("(end) Rollback [%s] -> %s", m.st, errStr(err))
		m.label("leftActive")
		m.settle("Rollback")
		if m.active() {
			// cannot be ended: the dump below still judges what is stored
			m.label("stillActiveAtEnd")
		}
	}
	m.tx.Tx.Close()

	// store list
	r, err := m.e.NewTxn(txh.TxnOptions{Mode: sop.ForReading})
	if err != nil {
		m.fail("HARNESS-ERROR NewTxn: %v", err)
	}
	r.Record = false
	if err := r.Tx.Begin(txh.Ctx); err != nil {
		m.fail("fresh reader Begin: %v", err)
	}
	got, err := r.Tx.GetStores(txh.Ctx)
	if err != nil {
		m.fail("fresh reader GetStores: %v", err)
	}
	r.Tx.Commit(txh.Ctx)
	sort.Strings(got)
	var want []string
	for n := range m.models {
		want = append(want, n)
	}
	sort.Strings(want)
	if m.unspec {
		// names this transaction created are tolerated either way
		strip := func(in []string) (out []string) {
			for _, n := range in {
				if n != newNames[0] && n != newNames[1] {
					out = append(out, n)
				}
			}
			return
		}
		got, want = strip(got), strip(want)
	}
	if fmt.Sprint(got) != fmt.Sprint(want) {
		why := "the store list changed"
		if !m.writer() {
			why = "a " + modeName(m.c.Mode) + " transaction changed the store list"
		}
		m.fail("%s: a fresh reader's GetStores() is %v, the model says %v", why, got, want)
	}
	if m.unspec {
		m.label("contentsUnspecified")
		return
	}
	so := make([]txh.StoreOpts, 0, len(want))
	mods := make([]*txh.Model, 0, len(want))
	for _, n := range want {
		so = append(so, m.opts[n])
		mods = append(mods, m.models[n])
	}
	d, err := m.e.Dump(so, sop.ForReading)
	if err != nil {
		m.fail("fresh reader failed: %v", err)
	}
	if why := txh.CheckDump(d, so, mods); why != "" {
		if !m.writer() {
			why = "a " + modeName(m.c.Mode) + " transaction changed stored data: " + why
		}
		m.fail("after the sequence: %s", why)
	}
}

func (m *machine) cleanup() {
	if m.tx != nil {
		m.tx.Tx.Close()
	}
	if m.e != nil {
		m.e.Cleanup()
	}
}

func (m *machine) labelList() []string {
	ls := []string{"mode:" + modeName(m.c.Mode)}
	end := m.st.String()
	if m.st == stDone {
		if m.committed {
			end = "committed"
		} else {
			end = "aborted"
		}
	}
	ls = append(ls, "end:"+end)
	for l := range m.labels {
		ls = append(ls, l)
	}
	sort.Strings(ls)
	return ls
}

// TestC14_Lifecycle is the rapid state machine.
func TestC14_Lifecycle(t *testing.T) {
	rec := stats.For("C14").Meta("exploration",
		"rapid state machine over one transaction (ForWriting x2, ForReading, NoCheck) on 1-2 pre-seeded unique stores (slot 2/4/8, value in node / separate / actively persisted): calls Begin, Commit, Rollback, GetPhasedTransaction().{Phase1Commit, Phase2Commit, Rollback}, Close, GetStores, OpenBtree(existing|missing), NewBtree(existing|incompatible|new name) and all 27 BtreeInterface methods on handles obtained earlier, in every lifecycle state incl. after the end; oracle: lifecycle model {new, begun, phase1, done(committed|aborted)} for each call + fresh-reader store list and dump of every store against the model; non-trivial = the sequence contains an out-of-order or repeated lifecycle call, a store call outside Begin..end, or a write attempt in a non-writing mode; distinct by mode, stores and call log",
		"standalone mode: in-memory L2 cache, one process, one goroutine",
		"contents after a ForWriting transaction ran phase 1 twice or was written to after Phase1Commit are not compared (no sentence of the property covers them)")
	rapid.Check(t, func(rt *rapid.T) {
		c := genLcCase(rt)
		m := newMachine(c, rec, rt.Fatalf)
		defer m.cleanup()
		rt.Repeat(map[string]func(*rapid.T){
			"lifecycle": m.lifecycle,
			"open1":     m.open,
			"open2":     m.open,
			"op1":       m.storeOp,
			"op2":       m.storeOp,
			"op3":       m.storeOp,
			"op4":       m.storeOp,
			"op5":       m.storeOp,
			"": func(t *rapid.T) {
				if hb := m.tx.Tx.HasBegun(); hb != m.active() {
					m.fail("HasBegun() is %v in model state %s", hb, m.st)
				}
			},
		})
		m.finish()
		canon := c.render() + " :: " + strings.Join(m.log, "; ")
		rec.Case(canon, m.misuse, m.labelList()...)
		switch {
		case m.labels["commitFailed"]:
			rec.Sample("commitFailed", canon)
		case m.labels["unexpectedErrorFromAllowedCall"]:
			rec.Sample("unexpectedError", canon+" :: "+strings.Join(m.unexpErrs, "; "))
		case m.misuse && !m.writer():
			rec.Sample("nonWritingSequence", canon)
		case m.misuse:
			rec.Sample("writingSequence", canon)
		}
	})
}
