package privacy

import (
	"os"
	"testing"

	"verif/harness/stats"
)

func TestMain(m *testing.M) {
	code := m.Run()
	stats.Flush()
	os.Exit(code)
}
