package privacy

import (
	"encoding/json"
	"fmt"
	"io/fs"
	"path/filepath"
	"reflect"
	"strings"
	"time"

	"github.com/sharedcode/sop"
	"github.com/sharedcode/sop/btree"
	"github.com/sharedcode/sop/cache"
	"pgregory.net/rapid"

	"verif/harness/stats"
	"verif/harness/txh"
)

// The four read calls of btree.BtreeInterface that return a value or an item.
const (
	apiValue = iota
	apiValueNoLock
	apiItem
	apiItemNoLock
)

var apiNames = []string{"GetCurrentValue", "GetCurrentValueNoLock", "GetCurrentItem", "GetCurrentItemNoLock"}

func isItemAPI(a int) bool { return a == apiItem || a == apiItemNoLock }

// Which oracle a test arms.
type mode int

const (
	modeLater      mode = iota // a later transaction B reads after A mutated and did not write
	modeSame                   // A reads again after mutating
	modeOtherWrite             // A mutates k, writes a DIFFERENT key, commits; B reads k
)

// Slugs of the two defect classes (see c38_test.go).
const (
	slugClone = "shallow-node-clone-shares-values"
	slugLive  = "read-hands-out-live-value-storage"
)

const exclClone = "in-place mutation of a value that arrived inside its node (shared with the L1 MRU clone)"
const exclLive = "in-place mutation that reaches storage the read handed out (transaction-local node slot)"

type step struct {
	Key, API, Mut, P int
	Walk             bool
	Reread           bool
	RereadAPI        int
	Renav            int // 0 same cursor position, 1 Find the key again, 2 move to another key and come back
}

type update[TV any] struct {
	Key int
	Val TV
}

type spec[TV any] struct {
	Kind       string
	HashMod    int
	Seed       uint64
	Store      txh.StoreOpts
	CacheCfg   int
	Init       []TV
	W2         []update[TV]
	WarmRead   bool
	CacheState int // 0 as the writers left it, 1 L2 cleared (L1 MRU only), 2 node entries dropped from L1+L2, 3 dropped + re-read + L1-only eviction (L1 miss, L2 hit)
	AWrite     bool
	Steps      []step
	End        string // rollback | commit | none | otherWrite
	Other      string // update | add | remove
	OtherKey   int
	OtherVal   TV
	BWrite     bool
	BWalk      bool
	BAPIs      []int
	Disk       bool
}

func js(v any) string {
	b, err := json.Marshal(v)
	if err != nil {
		return fmt.Sprintf("<%v>", err)
	}
	return string(b)
}

func (s spec[TV]) render() string {
	var b strings.Builder
	fmt.Fprintf(&b, "kind=%s mod=%d seed=%x slot=%d place=%s cache=%d init=%s w2=%s warmRead=%v cacheState=%d aWrite=%v",
		s.Kind, s.HashMod, s.Seed, s.Store.Slot, txh.PlacementNames[s.Store.Placement], s.CacheCfg, js(s.Init), js(s.W2), s.WarmRead, s.CacheState, s.AWrite)
	for _, st := range s.Steps {
		fmt.Fprintf(&b, " [k%d walk=%v %s mut=%d p=%d", st.Key, st.Walk, apiNames[st.API], st.Mut, st.P)
		if st.Reread {
			fmt.Fprintf(&b, " reread=%s renav=%d", apiNames[st.RereadAPI], st.Renav)
		}
		b.WriteString("]")
	}
	fmt.Fprintf(&b, " end=%s", s.End)
	if s.End == "otherWrite" {
		fmt.Fprintf(&b, "(%s k%d %s)", s.Other, s.OtherKey, js(s.OtherVal))
	}
	fmt.Fprintf(&b, " bWrite=%v bWalk=%v bAPIs=%v disk=%v", s.BWrite, s.BWalk, s.BAPIs, s.Disk)
	return b.String()
}

var cacheCfgNames = []string{"default", "duration0NoTTL", "5minTTL"}

func genSpec[TV any](t *rapid.T, k kind[TV], m mode) spec[TV] {
	s := spec[TV]{Kind: k.name}
	s.HashMod = rapid.SampledFrom([]int{1, 2, 3, 5, 16}).Draw(t, "hashMod")
	s.Seed = rapid.Uint64().Draw(t, "uuidSeed")
	s.Store = txh.StoreOpts{Name: "priv", Unique: true}
	s.Store.Slot = rapid.SampledFrom([]int{2, 2, 4, 4, 8, 16}).Draw(t, "slot")
	// placements 3/4 (actively persisted) are the ones where a value can reach the reader outside
	// its node, i.e. where the search continues behind the shallow-clone class: drawn more often.
	s.Store.Placement = rapid.SampledFrom([]int{0, 1, 2, 3, 4, 0, 3, 4, 4}).Draw(t, "placement")
	s.CacheCfg = rapid.IntRange(0, 2).Draw(t, "cachecfg")
	switch s.CacheCfg {
	case 1:
		s.Store.Cache = sop.NewStoreCacheConfig(0, false)
	case 2:
		s.Store.Cache = sop.NewStoreCacheConfig(5*time.Minute, true)
	}
	n := rapid.IntRange(1, 9).Draw(t, "nKeys")
	for i := 0; i < n; i++ {
		s.Init = append(s.Init, k.gen(t, fmt.Sprintf("v%d", i)))
	}
	switch rapid.IntRange(0, 3).Draw(t, "w2") {
	case 0:
	case 1: // a second writer updates every key
		for i := 0; i < n; i++ {
			s.W2 = append(s.W2, update[TV]{Key: i, Val: k.gen(t, fmt.Sprintf("uv%d", i))})
		}
	default: // ... or some keys, possibly repeatedly
		nu := rapid.IntRange(1, n).Draw(t, "nUpd")
		for i := 0; i < nu; i++ {
			s.W2 = append(s.W2, update[TV]{Key: rapid.IntRange(0, n-1).Draw(t, fmt.Sprintf("uk%d", i)), Val: k.gen(t, fmt.Sprintf("uv%d", i))})
		}
	}
	s.WarmRead = rapid.Bool().Draw(t, "warmRead")
	s.CacheState = rapid.SampledFrom([]int{0, 0, 1, 2, 3, 3}).Draw(t, "cacheState")
	s.AWrite = m == modeOtherWrite || rapid.Bool().Draw(t, "aWrite")
	ns := rapid.IntRange(1, 4).Draw(t, "nSteps")
	for i := 0; i < ns; i++ {
		st := step{}
		st.Key = rapid.IntRange(0, n-1).Draw(t, fmt.Sprintf("s%d.key", i))
		st.Walk = rapid.IntRange(0, 3).Draw(t, fmt.Sprintf("s%d.walk", i)) == 0
		st.API = rapid.SampledFrom([]int{apiValue, apiValue, apiItem, apiItem, apiValueNoLock, apiItemNoLock}).Draw(t, fmt.Sprintf("s%d.api", i))
		nm := len(k.muts)
		if isItemAPI(st.API) {
			nm++ // the extra "itemCopyFieldsOnly" control
		}
		st.Mut = rapid.IntRange(0, nm-1).Draw(t, fmt.Sprintf("s%d.mut", i))
		st.P = rapid.IntRange(0, 50).Draw(t, fmt.Sprintf("s%d.p", i))
		st.Reread = m == modeSame || rapid.IntRange(0, 3).Draw(t, fmt.Sprintf("s%d.reread", i)) == 0
		if st.Reread {
			st.RereadAPI = rapid.IntRange(0, 3).Draw(t, fmt.Sprintf("s%d.rapi", i))
			st.Renav = rapid.IntRange(0, 2).Draw(t, fmt.Sprintf("s%d.renav", i))
		}
		s.Steps = append(s.Steps, st)
	}
	switch m {
	case modeOtherWrite:
		s.End = "otherWrite"
		used := map[int]bool{}
		for _, st := range s.Steps {
			used[st.Key] = true
		}
		var free []int
		for i := 0; i < n; i++ {
			if !used[i] {
				free = append(free, i)
			}
		}
		s.Other = "add"
		if len(free) > 0 {
			s.Other = rapid.SampledFrom([]string{"update", "update", "add", "remove"}).Draw(t, "otherOp")
		}
		if s.Other == "add" {
			s.OtherKey = n + rapid.IntRange(0, 3).Draw(t, "otherNewKey")
		} else {
			s.OtherKey = rapid.SampledFrom(free).Draw(t, "otherKey")
		}
		s.OtherVal = k.gen(t, "otherVal")
	default:
		s.End = rapid.SampledFrom([]string{"rollback", "commit", "none"}).Draw(t, "end")
	}
	s.BWrite = rapid.Bool().Draw(t, "bWrite")
	s.BWalk = rapid.Bool().Draw(t, "bWalk")
	for i := 0; i < n+4; i++ {
		s.BAPIs = append(s.BAPIs, rapid.SampledFrom([]int{apiValue, apiValue, apiItem, apiValueNoLock, apiItemNoLock}).Draw(t, fmt.Sprintf("bapi%d", i)))
	}
	s.Disk = rapid.IntRange(0, 3).Draw(t, "disk") == 0
	return s
}

type tree[TV any] = btree.BtreeInterface[int, TV]

// got is what one read call returned.
type got[TV any] struct {
	val      TV
	ptr      *TV // item reads: the Value pointer handed out
	key      int
	hasKey   bool
	fetched  bool // the call fetched the value on its own (blob or L2 value entry), i.e. it did not arrive inside the node
	blobRead bool
	unloaded bool // a NoLock call on a value that is stored outside the node and not loaded yet
}

func read[TV any](tx *txh.Txn, b tree[TV], api int) (got[TV], error) {
	var g got[TV]
	n0 := len(tx.Trace)
	var err error
	switch api {
	case apiValue:
		g.val, err = b.GetCurrentValue(txh.Ctx)
	case apiValueNoLock:
		g.val, err = b.GetCurrentValueNoLock(txh.Ctx)
	case apiItem, apiItemNoLock:
		var it btree.Item[int, TV]
		if api == apiItem {
			it, err = b.GetCurrentItem(txh.Ctx)
		} else {
			it, err = b.GetCurrentItemNoLock(txh.Ctx)
		}
		if err == nil {
			if it.Value == nil {
				g.unloaded = true
			} else {
				g.ptr = it.Value
				g.val = *it.Value
				g.key, g.hasKey = it.Key, true
			}
		}
	}
	for _, s := range tx.Trace[n0:] {
		if s.Comp == "BlobStore" && s.Method == "GetOne" {
			g.fetched, g.blobRead = true, true
		}
		if s.Comp == "L2" && (s.Method == "GetStruct" || s.Method == "GetStructEx") {
			g.fetched = true
		}
	}
	return g, err
}

func goTo[TV any](b tree[TV], key int, walk bool) error {
	if !walk {
		ok, err := b.Find(txh.Ctx, key, false)
		if err != nil {
			return err
		}
		if !ok {
			return fmt.Errorf("Find(%d)=false for a committed key", key)
		}
		return nil
	}
	ok, err := b.First(txh.Ctx)
	for ; ok && err == nil; ok, err = b.Next(txh.Ctx) {
		if b.GetCurrentKey().Key == key {
			return nil
		}
	}
	if err != nil {
		return err
	}
	return fmt.Errorf("walk did not reach committed key %d", key)
}

func beginTxn(e *txh.Env, write bool) (*txh.Txn, error) {
	m := sop.ForReading
	if write {
		m = sop.ForWriting
	}
	tx, err := e.NewTxn(txh.TxnOptions{Mode: m})
	if err != nil {
		return nil, fmt.Errorf("HARNESS-ERROR NewTxn: %w", err)
	}
	if err := tx.Tx.Begin(txh.Ctx); err != nil {
		return nil, fmt.Errorf("Begin: %w", err)
	}
	return tx, nil
}

func blobReads(tx *txh.Txn) int {
	n := 0
	for _, s := range tx.Trace {
		if s.Comp == "BlobStore" && s.Method == "GetOne" {
			n++
		}
	}
	return n
}

// dropNodeCaches removes every node of the database from the L1 MRU and the L2 cache through the
// exported cache API (ids = names of the blob files), leaving L2 value entries alone.
func dropNodeCaches(e *txh.Env) {
	var ids []sop.UUID
	filepath.WalkDir(e.Dir, func(p string, d fs.DirEntry, err error) error {
		if err == nil && !d.IsDir() {
			if id, perr := sop.ParseUUID(filepath.Base(p)); perr == nil {
				ids = append(ids, id)
			}
		}
		return nil
	})
	cache.GetGlobalL1Cache(e.L2).DeleteNodes(txh.Ctx, ids)
}

type gates struct{ clone, live bool }

func currentGates() gates {
	return gates{clone: stats.Known("C38", slugClone), live: stats.Known("C38", slugLive)}
}

type outcome struct {
	violation string // empty = property held on this case
	nontriv   bool
	labels    []string
	excluded  map[string]int
	persisted bool
	harness   string // infrastructure / precondition failure (not a C38 verdict)
}

// runSpec executes one case. It never calls t.Fatalf itself so that plain (non-rapid) regression
// tests can use it too.
func runSpec[TV any](k kind[TV], s spec[TV], m mode, g gates) (out outcome) {
	out.excluded = map[string]int{}
	lab := map[string]bool{}
	defer func() {
		for l := range lab {
			out.labels = append(out.labels, l)
		}
	}()
	lab["kind:"+k.name] = true
	lab["placement:"+txh.PlacementNames[s.Store.Placement]] = true
	lab["cachecfg:"+cacheCfgNames[s.CacheCfg]] = true
	lab[fmt.Sprintf("cacheState:%d", s.CacheState)] = true
	lab["end:"+s.End] = true

	e, err := txh.NewEnv(s.HashMod)
	if err != nil {
		out.harness = err.Error()
		return
	}
	defer e.Cleanup()
	txh.SeedUUIDs(s.Seed)
	defer txh.ResetUUIDs()

	// model: the private copies; SOP only ever gets further clones.
	model := map[int]TV{}

	// ---- W1: create + add everything, commit.
	w, err := beginTxn(e, true)
	if err != nil {
		out.harness = err.Error()
		return
	}
	b, err := txh.NewBtree[int, TV](w, s.Store)
	if err != nil {
		out.harness = "NewBtree: " + err.Error()
		return
	}
	for i, v := range s.Init {
		model[i] = k.clone(v)
		if ok, err := b.Add(txh.Ctx, i, k.clone(v)); err != nil || !ok {
			out.harness = fmt.Sprintf("Add(%d)=%v,%v", i, ok, err)
			return
		}
	}
	if err := w.Tx.Commit(txh.Ctx); err != nil {
		out.harness = "W1 commit: " + err.Error()
		return
	}
	// ---- W2: update some, commit.
	if len(s.W2) > 0 {
		lab["hasW2"] = true
		w, err := beginTxn(e, true)
		if err != nil {
			out.harness = err.Error()
			return
		}
		b, err := txh.OpenBtree[int, TV](w, s.Store.Name)
		if err != nil {
			out.harness = "OpenBtree: " + err.Error()
			return
		}
		for _, u := range s.W2 {
			if ok, err := b.Update(txh.Ctx, u.Key, k.clone(u.Val)); err != nil || !ok {
				out.harness = fmt.Sprintf("Update(%d)=%v,%v", u.Key, ok, err)
				return
			}
			model[u.Key] = k.clone(u.Val)
		}
		if err := w.Tx.Commit(txh.Ctx); err != nil {
			out.harness = "W2 commit: " + err.Error()
			return
		}
	}
	nKeys := len(s.Init)

	check := func(who string, tx *txh.Txn, b tree[TV], key, api int) string {
		gt, err := read(tx, b, api)
		if err != nil {
			return fmt.Sprintf("%s: %s on key %d: %v", who, apiNames[api], key, err)
		}
		want := model[key]
		if !isItemAPI(api) && api == apiValueNoLock && s.Store.Placement != 0 && !reflect.DeepEqual(gt.val, want) {
			var zero TV
			if reflect.DeepEqual(gt.val, zero) {
				gt.unloaded = true
			}
		}
		if gt.unloaded {
			if s.Store.Placement == 0 || (api != apiValueNoLock && api != apiItemNoLock) {
				return fmt.Sprintf("%s: %s on key %d returned no value", who, apiNames[api], key)
			}
			// NoLock reads do not load a value stored outside the node; observe through the loading call.
			lab["nolockUnloaded"] = true
			if gt, err = read(tx, b, apiValue); err != nil {
				return fmt.Sprintf("%s: GetCurrentValue on key %d: %v", who, key, err)
			}
		}
		if gt.hasKey && gt.key != key {
			return fmt.Sprintf("%s: %s on key %d returned item key %d", who, apiNames[api], key, gt.key)
		}
		if !reflect.DeepEqual(gt.val, want) {
			return fmt.Sprintf("%s: %s on key %d returned %s, committed value is %s", who, apiNames[api], key, js(gt.val), js(want))
		}
		return ""
	}

	readAll := func(who string, write, walk bool, apis []int) (string, *txh.Txn) {
		tx, err := beginTxn(e, write)
		if err != nil {
			return "HARNESS " + err.Error(), nil
		}
		defer tx.Tx.Rollback(txh.Ctx)
		b, err := txh.OpenBtree[int, TV](tx, s.Store.Name)
		if err != nil {
			return "HARNESS OpenBtree: " + err.Error(), tx
		}
		var keys []int
		for i := 0; i < nKeys+4; i++ {
			if _, ok := model[i]; ok {
				keys = append(keys, i)
			}
		}
		if walk {
			ok, err := b.First(txh.Ctx)
			i := 0
			for ; ok && err == nil; ok, err = b.Next(txh.Ctx) {
				kk := b.GetCurrentKey().Key
				if i >= len(keys) || keys[i] != kk {
					return fmt.Sprintf("%s: walk position %d has key %d, committed keys are %v", who, i, kk, keys), tx
				}
				if why := check(who, tx, b, kk, apis[kk%len(apis)]); why != "" {
					return why, tx
				}
				i++
			}
			if err != nil {
				return fmt.Sprintf("%s: walk: %v", who, err), tx
			}
			if i != len(keys) {
				return fmt.Sprintf("%s: walk saw %d items, committed keys are %v", who, i, keys), tx
			}
			return "", tx
		}
		for _, kk := range keys {
			if err := goTo(b, kk, false); err != nil {
				return fmt.Sprintf("%s: %v", who, err), tx
			}
			if why := check(who, tx, b, kk, apis[kk%len(apis)]); why != "" {
				return why, tx
			}
		}
		return "", tx
	}

	// ---- optional reader that warms the caches through the read path. It mutates nothing, so a
	// mismatch here is not C38's subject: reported as a harness precondition failure.
	if s.WarmRead {
		lab["warmRead"] = true
		if why, _ := readAll("warm reader", false, true, []int{apiValue}); why != "" {
			out.harness = "precondition (no mutation happened yet): " + why
			return
		}
	}
	switch s.CacheState {
	case 1:
		e.L2.Clear(txh.Ctx)
	case 2:
		dropNodeCaches(e)
	case 3:
		// the node caches are lost (restart of the cache service / expiry), a reader loads the nodes from the blob
		// store again (L2 then holds current copies), the process L1 cache evicts them: A takes an L1 miss + L2 hit
		dropNodeCaches(e)
		if why, _ := readAll("reader after the cache loss", false, true, []int{apiValue}); why != "" {
			out.harness = "precondition (no mutation happened yet): " + why
			return
		}
		e.EvictL1Only()
	}

	// ---- A: read, mutate in place, maybe read again.
	a, err := beginTxn(e, s.AWrite)
	if err != nil {
		out.harness = err.Error()
		return
	}
	aEnded := false
	defer func() {
		if !aEnded {
			a.Tx.Rollback(txh.Ctx)
		}
	}()
	ab, err := txh.OpenBtree[int, TV](a, s.Store.Name)
	if err != nil {
		out.harness = "OpenBtree(A): " + err.Error()
		return
	}
	fetchedInA := map[int]bool{}
	reached := 0
	for si, st := range s.Steps {
		if err := goTo(ab, st.Key, st.Walk); err != nil {
			out.harness = fmt.Sprintf("A step %d: %v", si, err)
			return
		}
		gt, err := read(a, ab, st.API)
		if err != nil {
			out.harness = fmt.Sprintf("A step %d %s: %v", si, apiNames[st.API], err)
			return
		}
		if gt.fetched {
			fetchedInA[st.Key] = true
			lab["A:valueFetchedSeparately"] = true
		} else if !fetchedInA[st.Key] && !gt.unloaded {
			lab["A:valueArrivedInNode"] = true
		}
		if gt.unloaded {
			lab["A:nolockUnloaded"] = true
		} else {
			itemAPI := isItemAPI(st.API)
			copyOnly := itemAPI && st.Mut == len(k.muts)
			reaches := itemAPI && !copyOnly
			name := "itemCopyFieldsOnly"
			if !copyOnly {
				name = k.muts[st.Mut].name
				reaches = reaches || k.muts[st.Mut].reaches
			}
			skip := false
			if reaches {
				switch {
				case m == modeLater && g.clone && !fetchedInA[st.Key]:
					skip = true
					out.excluded[exclClone]++
				case m != modeLater && g.live:
					skip = true
					out.excluded[exclLive]++
				}
			}
			if !skip {
				applied := false
				switch {
				case copyOnly:
					// change only the caller's own Item struct (a copy): never visible to anyone.
					applied = true
				case itemAPI:
					applied = k.muts[st.Mut].apply(gt.ptr, st.P)
				default:
					v := gt.val
					applied = k.muts[st.Mut].apply(&v, st.P)
				}
				if applied {
					lab["mut:"+k.name+"/"+name] = true
					if itemAPI {
						lab["mutVia:itemPointer"] = true
					} else {
						lab["mutVia:value"] = true
					}
					if reaches {
						reached++
						if fetchedInA[st.Key] {
							lab["reachingMutation:onSeparatelyFetchedValue"] = true
						} else {
							lab["reachingMutation:onValueFromNode"] = true
						}
					} else {
						lab["copyOnlyMutation"] = true
					}
				}
			}
		}
		if st.Reread {
			switch st.Renav {
			case 1:
				if err := goTo(ab, st.Key, false); err != nil {
					out.harness = fmt.Sprintf("A step %d renav: %v", si, err)
					return
				}
			case 2:
				other := (st.Key + 1) % nKeys
				if err := goTo(ab, other, false); err == nil {
					err = goTo(ab, st.Key, false)
				}
				if err != nil {
					out.harness = fmt.Sprintf("A step %d renav: %v", si, err)
					return
				}
			}
			if m == modeSame {
				if why := check(fmt.Sprintf("A re-read (step %d, after %s + mutation)", si, apiNames[st.API]), a, ab, st.Key, st.RereadAPI); why != "" {
					out.violation = why
					return
				}
			} else if _, err := read(a, ab, st.RereadAPI); err != nil {
				out.harness = fmt.Sprintf("A step %d re-read: %v", si, err)
				return
			}
		}
	}
	if reached > 0 {
		lab["hasReachingMutation"] = true
	}
	if m == modeSame {
		a.Tx.Rollback(txh.Ctx)
		aEnded = true
		out.nontriv = reached > 0
		return
	}

	// ---- end of A.
	switch s.End {
	case "rollback":
		if err := a.Tx.Rollback(txh.Ctx); err != nil {
			out.harness = "A rollback: " + err.Error()
			return
		}
		aEnded = true
	case "commit":
		aEnded = true
		if err := a.Tx.Commit(txh.Ctx); err != nil {
			out.harness = "A commit (nothing written): " + err.Error()
			return
		}
	case "otherWrite":
		var ok bool
		var err error
		switch s.Other {
		case "update":
			ok, err = ab.Update(txh.Ctx, s.OtherKey, k.clone(s.OtherVal))
		case "add":
			ok, err = ab.Add(txh.Ctx, s.OtherKey, k.clone(s.OtherVal))
		case "remove":
			ok, err = ab.Remove(txh.Ctx, s.OtherKey)
		}
		if err != nil || !ok {
			out.harness = fmt.Sprintf("A %s(%d)=%v,%v", s.Other, s.OtherKey, ok, err)
			return
		}
		aEnded = true
		if err := a.Tx.Commit(txh.Ctx); err != nil {
			out.harness = "A commit: " + err.Error()
			return
		}
		if s.Other == "remove" {
			delete(model, s.OtherKey)
		} else {
			model[s.OtherKey] = k.clone(s.OtherVal)
		}
		lab["otherWrite:"+s.Other] = true
	case "none":
	}

	// ---- B: a later transaction of the same process.
	why, btx := readAll("later transaction B (after A "+s.End+")", s.BWrite, s.BWalk, s.BAPIs)
	if strings.HasPrefix(why, "HARNESS ") {
		out.harness = why
		return
	}
	if why != "" {
		// classify: is the mutation only in the caches, or did it reach the disk?
		dropNodeCaches(e)
		e.L2.Clear(txh.Ctx)
		if why2, _ := readAll("reader after dropping all caches", false, true, []int{apiValue}); why2 != "" && !strings.HasPrefix(why2, "HARNESS ") {
			why += " | PERSISTED: " + why2
			out.persisted = true
		} else {
			why += " | caches only: a reader after dropping the L1/L2 caches sees the committed value"
		}
		out.violation = why
		return
	}
	fromCache := btx != nil && blobReads(btx) == 0
	if fromCache {
		lab["B:servedFromCache"] = true
	} else {
		lab["B:readBlobStore"] = true
	}
	out.nontriv = fromCache && reached > 0

	// ---- disk control: drop every cache layer, read again.
	if s.Disk {
		lab["diskControl"] = true
		dropNodeCaches(e)
		e.L2.Clear(txh.Ctx)
		why, _ := readAll("reader after dropping all caches (after A "+s.End+")", false, true, []int{apiValue})
		if strings.HasPrefix(why, "HARNESS ") {
			out.harness = why
			return
		}
		if why != "" {
			out.violation = why
			return
		}
	}
	return
}

// checkOne is the rapid property body for one kind.
func checkOne[TV any](t *rapid.T, rec *stats.Rec, k kind[TV], m mode) {
	s := genSpec(t, k, m)
	out := runSpec(k, s, m, currentGates())
	for what, n := range out.excluded {
		for i := 0; i < n; i++ {
			rec.Exclude(what)
		}
	}
	if out.harness != "" {
		if strings.Contains(out.harness, "HARNESS-ERROR") {
			t.Fatalf("%s\n%s", out.harness, s.render())
		}
		// A failure of the set-up or of a step that is not the property's subject (a commit that
		// fails, a committed key that is not found before anything was mutated ...): not a C38
		// verdict (inconclusive), but never silently dropped.
		t.Fatalf("HARNESS-ERROR precondition outside C38 (set-up/program step failed): %s\n%s", out.harness, s.render())
	}
	if out.violation != "" {
		t.Fatalf("in-place mutation of a read result changed a later read: %s\n%s", out.violation, s.render())
	}
	rec.Case(s.render(), out.nontriv, out.labels...)
	if out.nontriv {
		rec.Sample(k.name, s.render())
	}
}

// checkAnyKind draws the kind and dispatches to the generic instantiation.
func checkAnyKind(t *rapid.T, rec *stats.Rec, m mode) {
	switch rapid.SampledFrom([]string{"bytes", "map", "ints", "ptrStruct", "structWithSlice", "string"}).Draw(t, "kind") {
	case "bytes":
		checkOne(t, rec, kindBytes(), m)
	case "map":
		checkOne(t, rec, kindMap(), m)
	case "ints":
		checkOne(t, rec, kindInts(), m)
	case "ptrStruct":
		checkOne(t, rec, kindPtr(), m)
	case "structWithSlice":
		checkOne(t, rec, kindStruct(), m)
	case "string":
		checkOne(t, rec, kindString(), m)
	}
}
