package privacy

import (
	"fmt"
	"sort"

	"pgregory.net/rapid"
)

// A kind is one instantiation TV of the generic B-tree's value type together with a generator of
// JSON-stable values (a value equals its own JSON round trip, so the committed value is the same
// object graph whichever layer - blob, L2 JSON bytes, L1 node object - serves it), a hand-written
// deep copy (the model's private copy, independent of SOP), and the in-place mutations the type
// allows.
type kind[TV any] struct {
	name  string
	gen   func(t *rapid.T, label string) TV
	clone func(TV) TV
	muts  []mutation[TV]
}

// mutation changes, in place, what the caller got back from a read. v points at the caller's
// variable (value reads) or is the Item.Value pointer the caller got (item reads). reaches says
// whether the mutation writes through a reference held inside TV (true) or only changes the
// caller's own copy of TV (false; a control when applied to a value read; through an item's Value
// pointer every mutation writes to storage the caller did not allocate). apply returns false when
// it was a no-op (value too small after earlier mutations ...).
type mutation[TV any] struct {
	name    string
	reaches bool
	apply   func(v *TV, p int) bool
}

// PS is the pointed-to struct of the *struct kind.
type PS struct {
	N    int            `json:"n"`
	Tags []string       `json:"tags"`
	M    map[string]int `json:"m"`
}

// SS is the struct-with-slice-field kind.
type SS struct {
	Name string `json:"name"`
	Data []int  `json:"data"`
}

func abs(p int) int {
	if p < 0 {
		return -p
	}
	return p
}

// ---- []byte ------------------------------------------------------------------------------

func kindBytes() kind[[]byte] {
	return kind[[]byte]{
		name: "bytes",
		gen: func(t *rapid.T, l string) []byte {
			return rapid.SliceOfN(rapid.Byte(), 1, 24).Draw(t, l)
		},
		clone: func(v []byte) []byte { return append([]byte(nil), v...) },
		muts: []mutation[[]byte]{
			{"elemWrite", true, func(v *[]byte, p int) bool {
				if len(*v) == 0 {
					return false
				}
				(*v)[abs(p)%len(*v)] ^= 0x5a
				return true
			}},
			{"appendWithinCapFromShorter", true, func(v *[]byte, p int) bool {
				if len(*v) == 0 {
					return false
				}
				s := (*v)[:len(*v)-1]
				*v = append(s, (*v)[len(*v)-1]^0xff) // stays inside the capacity: overwrites the last element
				return true
			}},
			{"copyOver", true, func(v *[]byte, p int) bool {
				if len(*v) == 0 {
					return false
				}
				for i := range *v {
					(*v)[i] = ^(*v)[i]
				}
				return true
			}},
			{"appendTail", false, func(v *[]byte, p int) bool { *v = append(*v, byte(p)); return true }},
			{"reassign", false, func(v *[]byte, p int) bool { *v = []byte{byte(p), 0xAB, 0xCD}; return true }},
		},
	}
}

// ---- []int -------------------------------------------------------------------------------

func kindInts() kind[[]int] {
	return kind[[]int]{
		name: "ints",
		gen: func(t *rapid.T, l string) []int {
			return rapid.SliceOfN(rapid.IntRange(-1000, 1000), 1, 10).Draw(t, l)
		},
		clone: func(v []int) []int { return append([]int(nil), v...) },
		muts: []mutation[[]int]{
			{"elemWrite", true, func(v *[]int, p int) bool {
				if len(*v) == 0 {
					return false
				}
				(*v)[abs(p)%len(*v)] += 100000
				return true
			}},
			{"appendFromZero", true, func(v *[]int, p int) bool {
				if len(*v) == 0 {
					return false
				}
				s := (*v)[:0]
				*v = append(s, 777777+p) // inside the capacity: overwrites element 0
				return true
			}},
			{"negateAllInPlace", true, func(v *[]int, p int) bool {
				if len(*v) == 0 {
					return false
				}
				for i := range *v {
					(*v)[i] = -(*v)[i] - 1
				}
				return true
			}},
			{"resliceShorter", false, func(v *[]int, p int) bool { *v = (*v)[:0]; return true }},
			{"reassign", false, func(v *[]int, p int) bool { *v = []int{p, 424242}; return true }},
		},
	}
}

// ---- map[string]any ----------------------------------------------------------------------

var mapKeys = []string{"a", "b", "c", "d", "e", "f"}

func genScalar(t *rapid.T, l string) any {
	switch rapid.IntRange(0, 2).Draw(t, l+".t") {
	case 0:
		return rapid.StringMatching(`[a-z]{0,6}`).Draw(t, l+".s")
	case 1:
		return float64(rapid.IntRange(-5000, 5000).Draw(t, l+".f"))
	}
	return rapid.Bool().Draw(t, l+".b")
}

func genMap(t *rapid.T, l string) map[string]any {
	m := map[string]any{}
	n := rapid.IntRange(1, 4).Draw(t, l+".n")
	for i := 0; i < n; i++ {
		k := rapid.SampledFrom(mapKeys).Draw(t, fmt.Sprintf("%s.k%d", l, i))
		li := fmt.Sprintf("%s.v%d", l, i)
		switch rapid.IntRange(0, 4).Draw(t, li+".shape") {
		case 0:
			ne := rapid.IntRange(1, 3).Draw(t, li+".len")
			s := make([]any, ne)
			for j := range s {
				s[j] = genScalar(t, fmt.Sprintf("%s.e%d", li, j))
			}
			m[k] = s
		case 1:
			m[k] = map[string]any{"x": genScalar(t, li+".x"), "y": genScalar(t, li+".y")}
		default:
			m[k] = genScalar(t, li)
		}
	}
	return m
}

func cloneAny(v any) any {
	switch x := v.(type) {
	case []any:
		c := make([]any, len(x))
		for i := range x {
			c[i] = cloneAny(x[i])
		}
		return c
	case map[string]any:
		return cloneMap(x)
	}
	return v
}

func cloneMap(m map[string]any) map[string]any {
	c := make(map[string]any, len(m))
	for k, v := range m {
		c[k] = cloneAny(v)
	}
	return c
}

func sortedKeys(m map[string]any) []string {
	ks := make([]string, 0, len(m))
	for k := range m {
		ks = append(ks, k)
	}
	sort.Strings(ks)
	return ks
}

func kindMap() kind[map[string]any] {
	return kind[map[string]any]{
		name:  "map",
		gen:   genMap,
		clone: cloneMap,
		muts: []mutation[map[string]any]{
			{"insert", true, func(v *map[string]any, p int) bool {
				if *v == nil {
					return false
				}
				(*v)[fmt.Sprintf("new%d", p)] = "inserted"
				return true
			}},
			{"delete", true, func(v *map[string]any, p int) bool {
				ks := sortedKeys(*v)
				if len(ks) == 0 {
					return false
				}
				delete(*v, ks[abs(p)%len(ks)])
				return true
			}},
			{"overwrite", true, func(v *map[string]any, p int) bool {
				ks := sortedKeys(*v)
				if len(ks) == 0 {
					return false
				}
				(*v)[ks[abs(p)%len(ks)]] = fmt.Sprintf("overwritten%d", p)
				return true
			}},
			{"nestedWrite", true, func(v *map[string]any, p int) bool {
				for _, k := range sortedKeys(*v) {
					switch x := (*v)[k].(type) {
					case []any:
						if len(x) > 0 {
							x[abs(p)%len(x)] = "nested-elem"
							return true
						}
					case map[string]any:
						x["x"] = "nested-field"
						return true
					}
				}
				return false
			}},
			{"reassign", false, func(v *map[string]any, p int) bool {
				*v = map[string]any{"replaced": float64(p)}
				return true
			}},
		},
	}
}

// ---- *PS ---------------------------------------------------------------------------------

func genPS(t *rapid.T, l string) *PS {
	p := &PS{N: rapid.IntRange(-99, 99).Draw(t, l+".n"), M: map[string]int{}}
	p.Tags = rapid.SliceOfN(rapid.StringMatching(`[a-z]{1,4}`), 1, 3).Draw(t, l+".tags")
	n := rapid.IntRange(1, 3).Draw(t, l+".mn")
	for i := 0; i < n; i++ {
		p.M[rapid.SampledFrom(mapKeys).Draw(t, fmt.Sprintf("%s.mk%d", l, i))] = rapid.IntRange(0, 99).Draw(t, fmt.Sprintf("%s.mv%d", l, i))
	}
	return p
}

func clonePS(p *PS) *PS {
	if p == nil {
		return nil
	}
	c := &PS{N: p.N, Tags: append([]string(nil), p.Tags...), M: make(map[string]int, len(p.M))}
	for k, v := range p.M {
		c.M[k] = v
	}
	return c
}

func kindPtr() kind[*PS] {
	return kind[*PS]{
		name:  "ptrStruct",
		gen:   genPS,
		clone: clonePS,
		muts: []mutation[*PS]{
			{"fieldWrite", true, func(v **PS, p int) bool {
				if *v == nil {
					return false
				}
				(*v).N += 1000 + abs(p)
				return true
			}},
			{"sliceFieldElemWrite", true, func(v **PS, p int) bool {
				if *v == nil || len((*v).Tags) == 0 {
					return false
				}
				(*v).Tags[abs(p)%len((*v).Tags)] = "MUTATED"
				return true
			}},
			{"mapFieldInsert", true, func(v **PS, p int) bool {
				if *v == nil || (*v).M == nil {
					return false
				}
				(*v).M[fmt.Sprintf("ins%d", p)] = -1
				return true
			}},
			{"overwriteStruct", true, func(v **PS, p int) bool {
				if *v == nil {
					return false
				}
				**v = PS{N: 31337 + p, Tags: []string{"whole"}, M: map[string]int{"w": 1}}
				return true
			}},
			{"reassign", false, func(v **PS, p int) bool {
				*v = &PS{N: 27182 + p, Tags: []string{"re"}, M: map[string]int{"r": 2}}
				return true
			}},
		},
	}
}

// ---- SS ----------------------------------------------------------------------------------

func kindStruct() kind[SS] {
	return kind[SS]{
		name: "structWithSlice",
		gen: func(t *rapid.T, l string) SS {
			return SS{
				Name: rapid.StringMatching(`[a-z]{0,5}`).Draw(t, l+".name"),
				Data: rapid.SliceOfN(rapid.IntRange(-50, 50), 1, 6).Draw(t, l+".data"),
			}
		},
		clone: func(s SS) SS { return SS{Name: s.Name, Data: append([]int(nil), s.Data...)} },
		muts: []mutation[SS]{
			{"sliceFieldElemWrite", true, func(v *SS, p int) bool {
				if len(v.Data) == 0 {
					return false
				}
				v.Data[abs(p)%len(v.Data)] += 5000
				return true
			}},
			{"sliceFieldAppendFromZero", true, func(v *SS, p int) bool {
				if len(v.Data) == 0 {
					return false
				}
				v.Data = append(v.Data[:0], 9000+p)
				return true
			}},
			{"scalarFieldWrite", false, func(v *SS, p int) bool { v.Name = v.Name + "-MUT"; return true }},
			{"reassign", false, func(v *SS, p int) bool { *v = SS{Name: "replaced", Data: []int{p}}; return true }},
		},
	}
}

// ---- string (control: not a reference type; only reachable through Item.Value) -----------

func kindString() kind[string] {
	return kind[string]{
		name: "string",
		gen: func(t *rapid.T, l string) string {
			return rapid.StringMatching(`[a-z]{1,8}`).Draw(t, l)
		},
		clone: func(s string) string { return s },
		muts: []mutation[string]{
			{"reassign", false, func(v *string, p int) bool { *v = fmt.Sprintf("replaced%d", p); return true }},
		},
	}
}
