package privacy

import (
	"fmt"
	"reflect"
	"testing"

	"pgregory.net/rapid"

	"verif/harness/stats"
	"verif/harness/txh"
)

const ruleC38 = "one store of a generic B-tree instantiated with TV in {[]byte, map[string]any, []int, *struct, struct with a slice field, string (control)}, slot 2-16, all 5 value placements, 3 cache configs, 1-9 committed keys, optional second writer that updates, optional warming reader, cache state {as left, L2 cleared, node entries dropped from L1+L2}; transaction A (reader or writer) reads through GetCurrentValue/GetCurrentItem/GetCurrentValueNoLock/GetCurrentItemNoLock, mutates the result in place (element write, append inside capacity, map insert/delete/overwrite, nested write, field write through pointer, whole-struct overwrite, write through Item.Value; copy-only controls), optionally reads again; oracle = reflect.DeepEqual with the model's private deep copy made before anything was handed to SOP; non-trivial = A applied a mutation that reaches handed-out storage AND (later-transaction tests) B's whole read made no BlobStore.GetOne, i.e. was served from the L1/L2 caches; distinct by rendered case"

var assumptionsC38 = []string{
	"standalone mode: in-memory L2 cache, one process, one goroutine",
	"values are JSON fixed points (float64 numbers in map[string]any, non-empty slices and maps) so every cache layer yields a DeepEqual object",
	"a NoLock read that returns the zero value on an out-of-node store is taken as 'value not loaded' and re-observed through GetCurrentValue",
	"values passed INTO Add/Update are private clones never touched again (retention of caller-supplied values is not the property's subject)",
}

// TestC38_LaterTransaction: A reads and mutates in place, then rolls back / commits without having
// written anything / stays open; a later transaction B of the same process must read the committed
// values. When the finding slugClone is listed, exactly the mutations of values that arrived inside
// their node (the storage the L1 MRU clone shares) are left out, everything else keeps running.
func TestC38_LaterTransaction(t *testing.T) {
	rec := stats.For("C38").Meta("exploration", ruleC38, assumptionsC38...)
	rapid.Check(t, func(t *rapid.T) { checkAnyKind(t, rec, modeLater) })
}

// TestC38_SameTransaction: "never changes what THIS ... transaction later reads": A reads, mutates
// in place, reads again (same cursor position, after Find again, after moving away and back).
func TestC38_SameTransaction(t *testing.T) {
	rec := stats.For("C38").Meta("exploration", ruleC38, assumptionsC38...)
	rapid.Check(t, func(t *rapid.T) { checkAnyKind(t, rec, modeSame) })
}

// TestC38_UnrelatedWrite: "unless the modified value is written back and committed": A mutates the
// value read for key k in place, writes a DIFFERENT key and commits; k was not written back, so B
// (and a reader after dropping every cache) must still read k's committed value.
func TestC38_UnrelatedWrite(t *testing.T) {
	rec := stats.For("C38").Meta("exploration", ruleC38, assumptionsC38...)
	rapid.Check(t, func(t *rapid.T) { checkAnyKind(t, rec, modeOtherWrite) })
}

// ---- reproductions of the two defect classes, written straight against the public API ---------

type knownEnv struct {
	e *txh.Env
}

func newKnownEnv(t *testing.T) *knownEnv {
	e, err := txh.NewEnv(3)
	if err != nil {
		t.Fatalf("%v", err)
	}
	txh.SeedUUIDs(38)
	t.Cleanup(func() { txh.ResetUUIDs(); e.Cleanup() })
	return &knownEnv{e: e}
}

func (k *knownEnv) begin(t *testing.T, write bool) *txh.Txn {
	tx, err := beginTxn(k.e, write)
	if err != nil {
		t.Fatalf("HARNESS-ERROR %v", err)
	}
	return tx
}

// seed commits {1:[1 2 3], 2:[4 5 6]} into an in-node store of []int values.
func (k *knownEnv) seed(t *testing.T) {
	w := k.begin(t, true)
	b, err := txh.NewBtree[int, []int](w, txh.StoreOpts{Name: "priv", Slot: 4, Unique: true, Placement: 0})
	if err != nil {
		t.Fatalf("HARNESS-ERROR NewBtree: %v", err)
	}
	b.Add(txh.Ctx, 1, []int{1, 2, 3})
	b.Add(txh.Ctx, 2, []int{4, 5, 6})
	if err := w.Tx.Commit(txh.Ctx); err != nil {
		t.Fatalf("HARNESS-ERROR seed commit: %v", err)
	}
}

func (k *knownEnv) readKey1(t *testing.T) []int {
	r := k.begin(t, false)
	defer r.Tx.Rollback(txh.Ctx)
	b, err := txh.OpenBtree[int, []int](r, "priv")
	if err != nil {
		t.Fatalf("HARNESS-ERROR OpenBtree: %v", err)
	}
	if ok, err := b.Find(txh.Ctx, 1, false); !ok || err != nil {
		t.Fatalf("Find(1)=%v,%v", ok, err)
	}
	v, err := b.GetCurrentValue(txh.Ctx)
	if err != nil {
		t.Fatalf("GetCurrentValue: %v", err)
	}
	return v
}

// TestC38_Known_shallow_node_clone_shares_values: a read-only transaction that only reads and
// rolls back changes what the next transaction of the process reads.
func TestC38_Known_shallow_node_clone_shares_values(t *testing.T) {
	if !stats.Known("C38", slugClone) {
		t.Skip("not listed")
	}
	rec := stats.For("C38")
	k := newKnownEnv(t)
	k.seed(t)
	a := k.begin(t, false)
	b, err := txh.OpenBtree[int, []int](a, "priv")
	if err != nil {
		t.Fatalf("HARNESS-ERROR OpenBtree: %v", err)
	}
	b.Find(txh.Ctx, 1, false)
	v, _ := b.GetCurrentValue(txh.Ctx)
	v[0] = 99 // in place, never written back
	a.Tx.Rollback(txh.Ctx)
	if got := k.readKey1(t); !reflect.DeepEqual(got, []int{1, 2, 3}) {
		rec.KnownFinding(slugClone + ": store of []int values in the node; a reader does Find(1), v:=GetCurrentValue(), v[0]=99, Rollback; the next transaction of the process reads " + fmt.Sprint(got) + " for key 1, committed is [1 2 3] (Node.CopyTo/Clone copy Slots shallowly, so the transaction's node and the L1 MRU entry share every Item.Value)")
	}
}

// TestC38_Known_read_hands_out_live_value_storage: (a) a second read inside the transaction sees
// the mutation; (b) committing a write to ANOTHER key persists the never-written-back mutation.
func TestC38_Known_read_hands_out_live_value_storage(t *testing.T) {
	if !stats.Known("C38", slugLive) {
		t.Skip("not listed")
	}
	rec := stats.For("C38")
	k := newKnownEnv(t)
	k.seed(t)
	a := k.begin(t, true)
	b, err := txh.OpenBtree[int, []int](a, "priv")
	if err != nil {
		t.Fatalf("HARNESS-ERROR OpenBtree: %v", err)
	}
	b.Find(txh.Ctx, 1, false)
	it, _ := b.GetCurrentItem(txh.Ctx)
	if it.Value == nil {
		t.Fatalf("GetCurrentItem returned no value")
	}
	(*it.Value)[0] = 99 // in place, never written back
	again, _ := b.GetCurrentValue(txh.Ctx)
	reread := !reflect.DeepEqual(again, []int{1, 2, 3})
	if ok, err := b.Update(txh.Ctx, 2, []int{7}); !ok || err != nil {
		t.Fatalf("Update(2)=%v,%v", ok, err)
	}
	if err := a.Tx.Commit(txh.Ctx); err != nil {
		t.Fatalf("commit: %v", err)
	}
	dropNodeCaches(k.e)
	k.e.L2.Clear(txh.Ctx)
	got := k.readKey1(t)
	if reread || !reflect.DeepEqual(got, []int{1, 2, 3}) {
		rec.KnownFinding(slugLive + ": store of []int values; a writer does Find(1), it:=GetCurrentItem(), (*it.Value)[0]=99; its own next GetCurrentValue returns " + fmt.Sprint(again) + "; it then Update(2,...) and commits: after dropping every cache key 1 reads " + fmt.Sprint(got) + ", committed is [1 2 3] (GetCurrentValue/GetCurrentItem return the storage of the transaction's node slot; saving the node for another key serialises it)")
	}
}
