package locks

import (
	"fmt"
	"runtime"
	"strings"
	"sync"
	"sync/atomic"
	"testing"
	"time"

	"github.com/sharedcode/sop"
	"github.com/sharedcode/sop/cache"
	"pgregory.net/rapid"

	"verif/harness/stats"
)

// Free-running variant: goroutines ("owners") lock key subsets for one hour, enter a
// critical section that bumps a per-key counter, leave and unlock. No TTL expires, so a
// counter above 1 means two owners held the same key at once. The schedule is whatever the
// Go scheduler produces; the generated part is each worker's program.

type concStep struct {
	keys  []int
	dual  bool
	yield int
}

type concCase struct {
	sub     *subject
	names   []string
	progs   [][]concStep
	reuse   bool // keep one set of LockKey objects per worker across attempts (as Transaction.nodesKeys)
	cap     int
	same    bool
	entered int64
	refused int64
}

func drawPrograms(t *rapid.T, nKeys int) [][]concStep {
	nWorkers := rapid.IntRange(2, 4).Draw(t, "workers")
	progs := make([][]concStep, nWorkers)
	for w := range progs {
		n := rapid.IntRange(10, 40).Draw(t, "steps")
		for i := 0; i < n; i++ {
			progs[w] = append(progs[w], concStep{
				keys:  drawSubset(t, nKeys, 2),
				dual:  rapid.Bool().Draw(t, "dual"),
				yield: rapid.IntRange(0, 2).Draw(t, "yield"),
			})
		}
	}
	return progs
}

func (c *concCase) run() (violation string, herr error) {
	var cs = make([]atomic.Int32, len(c.names))
	var mu sync.Mutex
	var wg sync.WaitGroup
	report := func(s string) {
		mu.Lock()
		if violation == "" {
			violation = s
		}
		mu.Unlock()
	}
	fail := func(e error) {
		mu.Lock()
		if herr == nil {
			herr = e
		}
		mu.Unlock()
	}
	start := make(chan struct{})
	for w, prog := range c.progs {
		wg.Add(1)
		go func(w int, prog []concStep) {
			defer wg.Done()
			l2 := c.sub.caches[w%len(c.sub.caches)]
			own := l2.CreateLockKeys(c.names)
			<-start
			for i, st := range prog {
				objs := own
				if !c.reuse {
					objs = l2.CreateLockKeys(c.names)
				}
				lks := make([]*sop.LockKey, len(st.keys))
				for j, k := range st.keys {
					lks[j] = objs[k]
				}
				var ok bool
				var err error
				if st.dual {
					ok, _, err = l2.DualLock(ctx, time.Hour, lks)
				} else {
					ok, _, err = l2.Lock(ctx, time.Hour, lks)
				}
				if err != nil {
					fail(fmt.Errorf("worker %d step %d Lock: %w", w, i, err))
					return
				}
				if !ok {
					atomic.AddInt64(&c.refused, 1)
					if len(lks) > 1 {
						if err := l2.Unlock(ctx, lks); err != nil {
							fail(fmt.Errorf("worker %d step %d Unlock: %w", w, i, err))
							return
						}
					}
					runtime.Gosched()
					continue
				}
				atomic.AddInt64(&c.entered, 1)
				for _, k := range st.keys {
					if n := cs[k].Add(1); n != 1 {
						report(fmt.Sprintf("worker %d (step %d) entered the critical section of key %d (%s) while %d other owner(s) were inside; every lock has a 1h TTL", w, i, k, c.names[k], n-1))
					}
				}
				for y := 0; y < st.yield; y++ {
					runtime.Gosched()
				}
				for _, k := range st.keys {
					cs[k].Add(-1)
				}
				if err := l2.Unlock(ctx, lks); err != nil {
					fail(fmt.Errorf("worker %d step %d Unlock: %w", w, i, err))
					return
				}
			}
		}(w, prog)
	}
	close(start)
	wg.Wait()
	return
}

func (c *concCase) render() string {
	var sb strings.Builder
	fmt.Fprintf(&sb, "%s|conc|cap=%d|same=%v|reuse=%v|n=%d", c.sub.name, c.cap, c.same, c.reuse, len(c.names))
	for _, p := range c.progs {
		sb.WriteString("|")
		for _, s := range p {
			fmt.Fprintf(&sb, "%v%v%d,", s.keys, s.dual, s.yield)
		}
	}
	return sb.String()
}

func (c *concCase) record(rec *stats.Rec) {
	ls := []string{c.sub.name + ":concurrent-run"}
	if c.refused > 0 {
		ls = append(ls, c.sub.name+":concurrent-run-with-refusals")
	}
	if c.reuse {
		ls = append(ls, c.sub.name+":concurrent-lockkeys-reused")
	}
	rec.LabelN(c.sub.name+":concurrent-critical-sections", c.entered)
	rec.LabelN(c.sub.name+":concurrent-refusals", c.refused)
	// non-trivial: there was contention (a refusal) and more than one critical section
	rec.Case(c.render(), c.refused > 0 && c.entered > 1, ls...)
}

func TestC28_Concurrent_InMem(t *testing.T) {
	rec := newRec()
	listed := stats.Known("C28", slugInmem)
	probe := cache.NewL2InMemoryCache()
	rapid.Check(t, func(t *rapid.T) {
		nKeys := rapid.IntRange(2, 4).Draw(t, "nKeys")
		same := rapid.Bool().Draw(t, "sameShard")
		capacity := rapid.SampledFrom([]int{1, 2, nKeys, 1000}).Draw(t, "capacity")
		if same && capacity < nKeys && listed {
			rec.Exclude(slugInmem + ": concurrent run with capacity below the keys sharing the shard -> exact fit")
			capacity = nKeys
		}
		sub, _ := inmemSubject(capacity)
		c := &concCase{sub: sub, names: keyNames(probe.FormatLockKey, nKeys, same, rapid.IntRange(0, 7).Draw(t, "nameVariant")),
			progs: drawPrograms(t, nKeys), reuse: rapid.Bool().Draw(t, "reuse"), cap: capacity, same: same}
		v, err := c.run()
		if err != nil {
			t.Fatalf("HARNESS-ERROR C28 inmem concurrent: %v", err)
		}
		if v != "" {
			t.Fatalf("C28 inmem concurrent: %s\n  config: keys=%v capacity=%d sameShard=%v reuse=%v", v, c.names, capacity, same, c.reuse)
		}
		c.record(rec)
	})
}

func TestC28_Concurrent_Redis(t *testing.T) {
	rec := newRec()
	listed := stats.Known("C28", slugRedis)
	sub := redisSubject(t)
	rapid.Check(t, func(t *rapid.T) {
		respSrv.Reset()
		nKeys := rapid.IntRange(2, 4).Draw(t, "nKeys")
		names := make([]string, nKeys)
		for i := range names {
			names[i] = fmt.Sprintf("c%d", i)
		}
		reuse := rapid.Bool().Draw(t, "reuse")
		if reuse && listed {
			// reusing LockKey objects across attempts carries stale IsLockOwner flags into Unlock
			rec.Exclude(slugRedis + ": concurrent run reusing LockKey objects across attempts -> fresh objects per attempt")
			reuse = false
		}
		c := &concCase{sub: sub, names: names, progs: drawPrograms(t, nKeys), reuse: reuse, cap: 1 << 30}
		v, err := c.run()
		if err != nil {
			t.Fatalf("HARNESS-ERROR C28 redis concurrent: %v", err)
		}
		if v != "" {
			t.Fatalf("C28 redis concurrent: %s\n  config: keys=%v reuse=%v", v, c.names, c.reuse)
		}
		c.record(rec)
	})
}
