package locks

import (
	"context"
	"fmt"
	"hash/fnv"
	"sort"
	"strings"
	"time"

	"github.com/sharedcode/sop"
	"pgregory.net/rapid"

	"verif/harness/stats"
)

// C28: "At any moment each lock key is held, unexpired, by at most one owner. A release
// request from anyone other than the current holder never frees that holder's lock. This
// holds for the in-memory and Redis lock services, for any interleaving and TTL expiry, and
// for any configured cache capacity."
//
// The oracle is a lock table kept by the harness: key -> (principal = LockID, expiry
// interval). Time is three-valued (DESIGN 3.4): every call is bracketed by two clock
// readings [c0,c1]; an entry whose expiry lies in [lo,hi] is *definitely live* during the
// call when c1 < lo, *definitely expired* when c0 > hi, otherwise uncertain. Assertions
// are made only about definitely-live entries, and the model only ever over-approximates
// uncertainty, never the set of holders (a hold is removed from the model as soon as its
// principal asked for its release), so scheduling delays cannot produce a false alarm.

const (
	slugInmem = "inmem-full-shard-evicts-live-lock"
	slugRedis = "redis-late-unlock-deletes-new-owner"
)

// subject is one lock service together with its time axis.
type subject struct {
	name     string
	caches   []sop.L2Cache // owners are spread over these ("processes")
	now      func() int64  // ns on the subject's axis
	pass     func(d time.Duration)
	shortTTL time.Duration
	longTTL  time.Duration
	passes   []time.Duration // choices for the "let time pass" action
	redis    bool
}

type hold struct {
	id     sop.UUID
	lk     *sop.LockKey // the object the principal acquired with
	who    string       // "o1g0" for messages
	owner  int
	gen    int
	lo, hi int64
}

func (h *hold) live(c1 int64) bool { return c1 < h.lo }
func (h *hold) dead(c0 int64) bool { return c0 > h.hi }

type owner struct {
	idx   int
	gen   int
	cache sop.L2Cache
	keys  []*sop.LockKey // index = key index
	byTid bool
}

func (o *owner) tag() string { return fmt.Sprintf("o%dg%d", o.idx, o.gen) }

type staleRef struct {
	owner, gen int
}

type machine struct {
	sub    *subject
	rec    *stats.Rec
	names  []string // raw key names
	owners []*owner
	intr   *owner
	holds  map[int]*hold
	// in-memory capacity dimension
	capacity  int
	sameShard bool
	present   map[int]bool     // upper bound of keys that may have a physical entry
	lastAcq   map[int]sop.UUID // last successful acquirer per key
	guardCap  bool             // listed finding: never overflow the shard
	guardFlag bool             // listed finding: never Unlock a key with a stale owner flag held by another
	stale     map[int][]staleRef
	touched   []int
	trace     []string
	labels    map[string]bool
	nontriv   bool
}

func (m *machine) label(l string) { m.labels[l] = true }

func (m *machine) logf(f string, a ...any) { m.trace = append(m.trace, fmt.Sprintf(f, a...)) }

func (m *machine) fatalf(t *rapid.T, f string, a ...any) {
	t.Fatalf("C28 %s: %s\n  config: keys=%v capacity=%d sameShard=%v\n  history:\n    %s", m.sub.name,
		fmt.Sprintf(f, a...), m.names, m.capacity, m.sameShard, strings.Join(m.trace, "\n    "))
}

func (m *machine) harnessErr(t *rapid.T, what string, err error) {
	t.Fatalf("HARNESS-ERROR C28 %s: %s: %v", m.sub.name, what, err)
}

var ctx = context.Background()

func newOwner(idx, gen int, c sop.L2Cache, names []string, byTid bool) *owner {
	o := &owner{idx: idx, gen: gen, cache: c, byTid: byTid}
	if byTid {
		tid := sop.NewUUID()
		tu := make([]sop.Tuple[string, sop.UUID], len(names))
		for i, n := range names {
			tu[i] = sop.Tuple[string, sop.UUID]{First: n, Second: tid}
		}
		o.keys = c.CreateLockKeysForIDs(tu)
	} else {
		o.keys = c.CreateLockKeys(names)
	}
	return o
}

func (o *owner) pick(ks []int) []*sop.LockKey {
	r := make([]*sop.LockKey, len(ks))
	for i, k := range ks {
		r[i] = o.keys[k]
	}
	return r
}

func drawSubset(t *rapid.T, n, max int) []int {
	if max > n {
		max = n
	}
	cnt := rapid.IntRange(1, max).Draw(t, "nkeys")
	perm := rapid.Permutation(seq(n)).Draw(t, "keys")
	return perm[:cnt]
}

func seq(n int) []int {
	r := make([]int, n)
	for i := range r {
		r[i] = i
	}
	return r
}

func (m *machine) drawOwner(t *rapid.T) *owner {
	return m.owners[rapid.IntRange(0, len(m.owners)-1).Draw(t, "owner")]
}

func (m *machine) drawTTL(t *rapid.T) time.Duration {
	if rapid.IntRange(0, 2).Draw(t, "ttlKind") == 0 {
		return m.sub.longTTL
	}
	return m.sub.shortTTL
}

func (m *machine) occupancy() int {
	n := 0
	for _, p := range m.present {
		if p {
			n++
		}
	}
	return n
}

// ---- actions

func (m *machine) actLock(t *rapid.T) {
	o := m.drawOwner(t)
	ks := drawSubset(t, len(m.names), 3)
	ttl := m.drawTTL(t)
	dual := rapid.Bool().Draw(t, "dual")
	unlockAfterFail := rapid.Bool().Draw(t, "unlockAfterSingleFail")
	if m.guardCap {
		// listed finding inmem-full-shard-evicts-live-lock: a Lock that would have to insert
		// into a full shard is removed by construction
		for len(ks) > 0 {
			u := m.occupancy()
			for _, k := range ks {
				if !m.present[k] {
					u++
				}
			}
			if u <= m.capacity {
				break
			}
			m.rec.Exclude(slugInmem + ": lock key dropped, shard would overflow")
			ks = ks[:len(ks)-1]
		}
		if len(ks) == 0 {
			t.Skip("capacity guard")
		}
	}
	if m.sameShard && m.occupancy() >= m.capacity {
		m.label("lock-called-with-shard-at-capacity")
		m.nontriv = true
	}
	m.doLock(t, o, ks, ttl, dual, unlockAfterFail)
}

func (m *machine) doLock(t *rapid.T, o *owner, ks []int, ttl time.Duration, dual, unlockAfterFail bool) {
	lks := o.pick(ks)
	name := "Lock"
	c0 := m.sub.now()
	var ok bool
	var err error
	if dual {
		name = "DualLock"
		ok, _, err = o.cache.DualLock(ctx, ttl, lks)
	} else {
		ok, _, err = o.cache.Lock(ctx, ttl, lks)
	}
	c1 := m.sub.now()
	if err != nil {
		m.harnessErr(t, name, err)
	}
	m.logf("%s %s%v ttl=%v -> %v", o.tag(), name, ks, ttl, ok)
	m.touched = ks
	d := ttl.Nanoseconds()
	if ok {
		m.label("lock-ok")
		if len(ks) > 1 {
			m.label("lock-ok-multikey")
		}
		for _, k := range ks {
			mine := o.keys[k].LockID
			h := m.holds[k]
			if h != nil && h.id != mine {
				if h.live(c1) {
					m.fatalf(t, "%s by %s on key %d succeeded while %s's lock on it is definitely live (two holders)", name, o.tag(), k, h.who)
				}
				if h.dead(c0) {
					m.label("reacquired-after-expiry-before-old-owner-unlocked")
					m.nontriv = true
					m.stale[k] = append(m.stale[k], staleRef{h.owner, h.gen})
				} else {
					m.label("reacquired-in-uncertain-window")
				}
				h = nil
			}
			nh := &hold{id: mine, lk: o.keys[k], who: o.tag(), owner: o.idx, gen: o.gen, lo: c0 + d, hi: c1 + d}
			if h != nil { // re-entry by the same principal: the TTL is not refreshed while the old entry lives
				m.label("reentrant-lock")
				switch {
				case h.live(c1):
					nh.lo, nh.hi = h.lo, h.hi
				case h.dead(c0):
				default:
					if h.lo < nh.lo {
						nh.lo = h.lo
					}
					if h.hi > nh.hi {
						nh.hi = h.hi
					}
				}
			}
			m.holds[k] = nh
			m.present[k] = true
			m.lastAcq[k] = mine
		}
		return
	}
	m.label("lock-refused")
	free := true
	for _, k := range ks {
		if h := m.holds[k]; h != nil && h.id != o.keys[k].LockID && !h.dead(c0) {
			free = false
		}
	}
	if free {
		m.label("lock-refused-though-model-free(not asserted)")
	}
	// Documented caller pattern (common/twophasecommittransaction.go phase1Commit,
	// transactionlogger.go acquireLocks): a failed multi-key Lock is followed by Unlock of the
	// same keys "in case there are those that got locked". Single-key callers mostly return.
	if len(ks) > 1 || unlockAfterFail {
		m.label("unlock-after-refused-lock")
		m.doUnlock(t, o, ks)
	}
}

func (m *machine) actUnlock(t *rapid.T) {
	o := m.drawOwner(t)
	ks := drawSubset(t, len(m.names), 3)
	m.doUnlock(t, o, ks)
}

func (m *machine) doUnlock(t *rapid.T, o *owner, ks []int) {
	c0 := m.sub.now()
	if m.guardFlag {
		// listed finding redis-late-unlock-deletes-new-owner: the adapter deletes by key for every
		// LockKey whose local IsLockOwner flag is set. An Unlock that would present such a flag for
		// a key the model attributes to another principal is removed by construction: the owner
		// first re-validates those keys with IsLocked (which makes the adapter recompute the flag
		// from the stored value), as a careful caller would.
		for _, k := range ks {
			h := m.holds[k]
			if o.keys[k].IsLockOwner && h != nil && h.id != o.keys[k].LockID && !h.dead(c0) {
				m.rec.Exclude(slugRedis + ": stale IsLockOwner flag re-validated with IsLocked before Unlock")
				if _, err := o.cache.IsLocked(ctx, []*sop.LockKey{o.keys[k]}); err != nil {
					m.harnessErr(t, "IsLocked (flag re-validation)", err)
				}
				m.logf("%s IsLocked[%d] (re-validates its owner flag)", o.tag(), k)
			}
		}
	}
	for _, k := range ks {
		h := m.holds[k]
		if h != nil && h.id != o.keys[k].LockID && !h.dead(c0) {
			m.label("unlock-by-non-holder-while-held")
			for _, s := range m.stale[k] {
				if s.owner == o.idx && s.gen == o.gen {
					m.label("late-unlock-by-expired-owner-while-new-owner-holds")
				}
			}
			if o.keys[k].IsLockOwner {
				m.label("unlock-by-non-holder-with-owner-flag-set")
			}
		}
	}
	err := o.cache.Unlock(ctx, o.pick(ks))
	if err != nil {
		m.harnessErr(t, "Unlock", err)
	}
	m.logf("%s Unlock%v", o.tag(), ks)
	m.touched = ks
	for _, k := range ks {
		if h := m.holds[k]; h != nil && h.id == o.keys[k].LockID {
			delete(m.holds, k)
			m.label("unlock-by-holder")
		}
		if m.lastAcq[k] == o.keys[k].LockID {
			m.present[k] = false
		}
	}
}

func (m *machine) actIsLocked(t *rapid.T) {
	o := m.drawOwner(t)
	ks := drawSubset(t, len(m.names), 3)
	ttlForm := rapid.Bool().Draw(t, "ttlForm")
	ttl := m.drawTTL(t)
	lks := o.pick(ks)
	c0 := m.sub.now()
	var ok bool
	var err error
	name := "IsLocked"
	if ttlForm {
		name = "IsLockedTTL"
		ok, err = o.cache.IsLockedTTL(ctx, ttl, lks)
	} else {
		ok, err = o.cache.IsLocked(ctx, lks)
	}
	c1 := m.sub.now()
	if err != nil {
		m.harnessErr(t, name, err)
	}
	m.logf("%s %s%v -> %v", o.tag(), name, ks, ok)
	m.touched = ks
	allMineLive := true
	for _, k := range ks {
		h := m.holds[k]
		if h == nil || h.id != o.keys[k].LockID || !h.live(c1) {
			allMineLive = false
		}
		if ok && h != nil && h.id != o.keys[k].LockID && h.live(c1) {
			m.fatalf(t, "%s(%s, key %d) = true while %s's lock on it is definitely live (two holders reported)", name, o.tag(), k, h.who)
		}
	}
	if allMineLive && !ok {
		m.fatalf(t, "%s(%s, keys %v) = false although %s locked them, never released them and they are definitely unexpired", name, o.tag(), ks, o.tag())
	}
	if ok {
		m.label("islocked-true")
	} else {
		m.label("islocked-false")
	}
	if ttlForm {
		d := ttl.Nanoseconds()
		for _, k := range ks {
			h := m.holds[k]
			if h == nil || h.dead(c0) {
				continue
			}
			if ok && h.id == o.keys[k].LockID {
				h.lo, h.hi = c0+d, c1+d
				m.label("ttl-refreshed")
				continue
			}
			// not confirmed: the service may or may not have touched this key's TTL
			// (the Redis adapter runs GETEX on every key it is given); widen.
			if c0+d < h.lo {
				h.lo = c0 + d
			}
			if c1+d > h.hi {
				h.hi = c1 + d
			}
		}
	}
}

func (m *machine) actByOthers(t *rapid.T) {
	o := m.drawOwner(t)
	k := rapid.IntRange(0, len(m.names)-1).Draw(t, "key")
	ttlForm := rapid.IntRange(0, 3).Draw(t, "ttlForm") == 0
	ttl := m.sub.longTTL
	if rapid.Bool().Draw(t, "short") {
		ttl = m.sub.shortTTL
	}
	if ttl < time.Second && m.sub.redis {
		ttl = time.Second
	}
	names := []string{o.keys[k].Key}
	c0 := m.sub.now()
	var ok bool
	var err error
	name := "IsLockedByOthers"
	if ttlForm {
		name = "IsLockedByOthersTTL"
		ok, err = o.cache.IsLockedByOthersTTL(ctx, names, ttl)
	} else {
		ok, err = o.cache.IsLockedByOthers(ctx, names)
	}
	c1 := m.sub.now()
	if err != nil {
		m.harnessErr(t, name, err)
	}
	m.logf("%s %s[%d] -> %v", o.tag(), name, k, ok)
	m.touched = []int{k}
	h := m.holds[k]
	if h != nil && h.live(c1) && h.id != o.keys[k].LockID && !ok {
		m.fatalf(t, "%s(key %d) asked by %s = false while %s's lock on it is definitely live", name, k, o.tag(), h.who)
	}
	if ttlForm && h != nil && !h.dead(c0) {
		m.label("byothers-ttl")
		d := ttl.Nanoseconds()
		if c0+d < h.lo {
			h.lo = c0 + d
		}
		if c1+d > h.hi {
			h.hi = c1 + d
		}
	}
}

func (m *machine) actPass(t *rapid.T) {
	d := rapid.SampledFrom(m.sub.passes).Draw(t, "pass")
	m.sub.pass(d)
	m.logf("time passes %v", d)
	m.touched = nil
	m.label("time-passes")
}

// actRegenerate: an owner drops its LockKey objects and creates new ones (new ids), as callers
// do for every new operation; what the old principal still holds stays locked until it expires.
func (m *machine) actRegenerate(t *rapid.T) {
	o := m.drawOwner(t)
	byTid := rapid.Bool().Draw(t, "byTid")
	n := newOwner(o.idx, o.gen+1, o.cache, m.names, byTid)
	m.owners[o.idx] = n
	m.logf("%s abandons its lock keys -> %s byTid=%v", o.tag(), n.tag(), byTid)
	m.touched = nil
	for _, h := range m.holds {
		if h.owner == o.idx && h.gen == o.gen {
			m.label("owner-abandoned-held-lock")
			break
		}
	}
}

// check runs after every action: every definitely-live hold of the model must still be reported
// held to its holder, must be visible to IsLockedByOthers and must refuse an intruder.
func (m *machine) check(t *rapid.T) {
	ks := make([]int, 0, len(m.holds))
	for k := range m.holds {
		ks = append(ks, k)
	}
	sort.Ints(ks)
	var live []int
	var lks []*sop.LockKey
	c := m.sub.now()
	for _, k := range ks {
		if m.holds[k].live(c) {
			live = append(live, k)
			lks = append(lks, m.holds[k].lk)
		}
	}
	if len(live) == 0 {
		return
	}
	// one batched IsLocked over all live holds; pin down the key on failure
	ok, err := m.owners[0].cache.IsLocked(ctx, lks)
	c1 := m.sub.now()
	if err != nil {
		m.harnessErr(t, "IsLocked (sweep)", err)
	}
	if !ok {
		for i, k := range live {
			h := m.holds[k]
			ok1, err := m.owners[0].cache.IsLocked(ctx, []*sop.LockKey{lks[i]})
			if err != nil {
				m.harnessErr(t, "IsLocked (sweep)", err)
			}
			if !ok1 && h.live(m.sub.now()) {
				m.fatalf(t, "after the last step IsLocked(%s, key %d) = false: %s locked it, never released it and it is definitely unexpired - the holder's lock was freed by someone else", h.who, k, h.who)
			}
		}
		if allLive(m, live, c1) {
			m.fatalf(t, "batched IsLocked over live holds %v = false but every single one is reported held", live)
		}
	}
	probe := live
	if m.sub.redis {
		probe = nil
		for _, k := range live {
			for _, tk := range m.touched {
				if tk == k {
					probe = append(probe, k)
				}
			}
		}
	}
	for _, k := range probe {
		h := m.holds[k]
		got, _, err := m.intr.cache.Lock(ctx, m.sub.longTTL, []*sop.LockKey{m.intr.keys[k]})
		c1 := m.sub.now()
		if err != nil {
			m.harnessErr(t, "Lock (intruder)", err)
		}
		if got && h.live(c1) {
			m.fatalf(t, "after the last step a third party locked key %d although %s holds it, never released it and it is definitely unexpired (two holders)", k, h.who)
		}
		if got { // entry expired in the meantime (uncertain window): give it back
			_ = m.intr.cache.Unlock(ctx, []*sop.LockKey{m.intr.keys[k]})
			continue
		}
		seen, err := m.intr.cache.IsLockedByOthers(ctx, []string{h.lk.Key})
		c1 = m.sub.now()
		if err != nil {
			m.harnessErr(t, "IsLockedByOthers (sweep)", err)
		}
		if !seen && h.live(c1) {
			m.fatalf(t, "after the last step IsLockedByOthers(key %d) = false although %s holds it unexpired", k, h.who)
		}
	}
}

func allLive(m *machine, live []int, c1 int64) bool {
	for _, k := range live {
		if !m.holds[k].live(c1) {
			return false
		}
	}
	return true
}

func (m *machine) actions() map[string]func(*rapid.T) {
	return map[string]func(*rapid.T){
		"":           m.check,
		"Lock1":      m.actLock,
		"Lock2":      m.actLock,
		"Lock3":      m.actLock,
		"Unlock1":    m.actUnlock,
		"Unlock2":    m.actUnlock,
		"IsLocked":   m.actIsLocked,
		"ByOthers":   m.actByOthers,
		"Pass1":      m.actPass,
		"Pass2":      m.actPass,
		"Regenerate": m.actRegenerate,
	}
}

// ---- key names and shards (in-memory capacity dimension)

// shardOf mirrors cache.shardedMap.getShard: FNV-32a of the formatted key modulo 256 shards.
func shardOf(formatted string) uint32 {
	h := fnv.New32a()
	h.Write([]byte(formatted))
	return h.Sum32() % 256
}

// keyNames returns n raw names whose formatted lock keys share one shard (same=true) or lie
// in pairwise different shards (same=false). variant selects different name sets.
func keyNames(format func(string) string, n int, same bool, variant int) []string {
	var out []string
	if same {
		want := uint32(variant % 256)
		for i := 0; len(out) < n; i++ {
			name := fmt.Sprintf("n%d", i)
			if shardOf(format(name)) == want {
				out = append(out, name)
			}
		}
		return out
	}
	used := map[uint32]bool{}
	for i := variant * 1000; len(out) < n; i++ {
		name := fmt.Sprintf("n%d", i)
		s := shardOf(format(name))
		if !used[s] {
			used[s] = true
			out = append(out, name)
		}
	}
	return out
}

func (m *machine) finish(extra ...string) {
	canon := fmt.Sprintf("%s|cap=%d|same=%v|n=%d|%s", m.sub.name, m.capacity, m.sameShard, len(m.names), strings.Join(m.trace, ";"))
	ls := make([]string, 0, len(m.labels)+len(extra))
	for l := range m.labels {
		ls = append(ls, m.sub.name+":"+l)
	}
	sort.Strings(ls)
	ls = append(ls, extra...)
	m.rec.Case(canon, m.nontriv, ls...)
	if m.nontriv {
		m.rec.Sample(m.sub.name+"-machine", map[string]any{"capacity": m.capacity, "sameShard": m.sameShard, "history": m.trace})
	}
}
