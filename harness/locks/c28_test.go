package locks

import (
	"fmt"
	"sync"
	"testing"
	"time"

	"github.com/sharedcode/sop"
	sopredis "github.com/sharedcode/sop/adapters/redis"
	"github.com/sharedcode/sop/cache"
	"pgregory.net/rapid"

	"verif/harness/miniresp"
	"verif/harness/stats"
)

const ruleText = "lock state machine, 2-4 owners with their own LockKey objects over 3-6 keys, Lock/DualLock/IsLocked/IsLockedTTL/IsLockedByOthers(TTL)/Unlock on key subsets, time passing, owners abandoning their keys; non-trivial = a lock expired and was re-acquired by another owner before the old owner called Unlock, or (in-memory) Lock was called with the shard at capacity; distinct by configuration + full action history"

func newRec() *stats.Rec {
	return stats.For("C28").Meta("exploration", ruleText,
		"owners never share a LockID and never reuse the LockID of abandoned LockKey objects",
		"a failed multi-key Lock is followed by Unlock of the same keys, as every caller in /repo/common does",
		"the Redis half runs the unmodified adapter over go-redis v9.8.0 against harness/miniresp (RESP2, virtual clock); its expiry semantics are SET NX EX / GETEX / DEL of stock Redis",
		"in-memory expiry uses the wall clock: assertions only about entries that are definitely live by bracketing timestamps")
}

// ---- subjects

var (
	respOnce sync.Once
	respSrv  *miniresp.Server
	respErr  error
	respCli  []sop.L2Cache
)

func redisSubject(t testing.TB) *subject {
	respOnce.Do(func() {
		respSrv, respErr = miniresp.Start()
		if respErr != nil {
			return
		}
		for i := 0; i < 2; i++ { // two adapter clients = two "processes"
			respCli = append(respCli, sopredis.NewConnectionClient(sopredis.Options{Address: respSrv.Addr(),
				DialTimeout: 30 * time.Second, ReadTimeout: 60 * time.Second, WriteTimeout: 60 * time.Second}))
		}
	})
	if respErr != nil {
		t.Fatalf("HARNESS-ERROR miniresp: %v", respErr)
	}
	s := respSrv
	return &subject{
		name:     "redis",
		caches:   respCli,
		redis:    true,
		now:      func() int64 { return s.Now().Nanoseconds() },
		pass:     func(d time.Duration) { s.Advance(d) },
		shortTTL: 10 * time.Second,
		longTTL:  time.Hour,
		passes:   []time.Duration{time.Second, 4 * time.Second, 5 * time.Second, 11 * time.Second, 11 * time.Second, time.Hour + time.Second},
	}
}

var clockBase = time.Now()

func inmemSubject(capacity int) (*subject, func()) {
	old := cache.DefaultInMemoryCacheShardCapacity
	cache.DefaultInMemoryCacheShardCapacity = capacity
	c := cache.NewL2InMemoryCache()
	cache.DefaultInMemoryCacheShardCapacity = old
	return &subject{
		name:     "inmem",
		caches:   []sop.L2Cache{c},
		now:      func() int64 { return time.Since(clockBase).Nanoseconds() },
		pass:     func(d time.Duration) { time.Sleep(d) },
		shortTTL: 2 * time.Millisecond,
		longTTL:  time.Hour,
		passes:   []time.Duration{500 * time.Microsecond, 2500 * time.Microsecond, 2500 * time.Microsecond},
	}, func() {}
}

func newMachine(t *rapid.T, sub *subject, rec *stats.Rec, names []string) *machine {
	m := &machine{sub: sub, rec: rec, names: names, holds: map[int]*hold{}, present: map[int]bool{},
		lastAcq: map[int]sop.UUID{}, stale: map[int][]staleRef{}, labels: map[string]bool{}}
	nOwners := rapid.IntRange(2, 4).Draw(t, "owners")
	for i := 0; i < nOwners; i++ {
		byTid := rapid.Bool().Draw(t, "byTid")
		m.owners = append(m.owners, newOwner(i, 0, sub.caches[i%len(sub.caches)], names, byTid))
	}
	m.intr = newOwner(99, 0, sub.caches[len(sub.caches)-1], names, false)
	return m
}

// TestC28_InMem_Machine: the in-memory L2 cache, including the capacity dimension
// (shard capacity 1, 2, exact fit, default; key names sharing one shard or spread).
func TestC28_InMem_Machine(t *testing.T) {
	rec := newRec()
	listed := stats.Known("C28", slugInmem)
	probe := cache.NewL2InMemoryCache()
	rapid.Check(t, func(t *rapid.T) {
		nKeys := rapid.IntRange(3, 6).Draw(t, "nKeys")
		same := rapid.Bool().Draw(t, "sameShard")
		capacity := rapid.SampledFrom([]int{1, 2, nKeys, 1000}).Draw(t, "capacity")
		variant := rapid.IntRange(0, 7).Draw(t, "nameVariant")
		names := keyNames(probe.FormatLockKey, nKeys, same, variant)
		sub, done := inmemSubject(capacity)
		defer done()
		m := newMachine(t, sub, rec, names)
		m.capacity, m.sameShard = capacity, same
		if same && capacity < nKeys {
			m.label(fmt.Sprintf("capacity-%d-below-keys-in-shard", capacity))
			m.guardCap = listed
		}
		t.Repeat(m.actions())
		m.finish(fmt.Sprintf("inmem:cap=%d", capacity), fmt.Sprintf("inmem:sameShard=%v", same))
	})
}

// TestC28_Redis_Machine: the Redis adapter on miniresp; expiry is an explicit clock advance.
func TestC28_Redis_Machine(t *testing.T) {
	rec := newRec()
	listed := stats.Known("C28", slugRedis)
	sub := redisSubject(t)
	rapid.Check(t, func(t *rapid.T) {
		respSrv.Reset()
		nKeys := rapid.IntRange(3, 6).Draw(t, "nKeys")
		names := make([]string, nKeys)
		for i := range names {
			names[i] = fmt.Sprintf("k%d", i)
		}
		m := newMachine(t, sub, rec, names)
		m.capacity = 1 << 30
		m.guardFlag = listed
		t.Repeat(m.actions())
		m.finish()
	})
}
