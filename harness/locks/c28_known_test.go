package locks

import (
	"fmt"
	"testing"
	"time"

	"github.com/sharedcode/sop"
	"github.com/sharedcode/sop/cache"

	"verif/harness/stats"
)

// Plain (non-rapid) reproductions of the two C28 findings. Each is skipped until the main
// session lists its slug in /verif/known_findings.json; once listed it prints the
// KNOWN-FINDING line while the defect still reproduces and passes silently when it no
// longer does.

// reproInmemEviction: shard capacity 1, two key names in one shard.
// It returns a description of what failed, or "" when the defect did not show.
func reproInmemEviction() (string, error) {
	old := cache.DefaultInMemoryCacheShardCapacity
	cache.DefaultInMemoryCacheShardCapacity = 1
	c := cache.NewL2InMemoryCache()
	cache.DefaultInMemoryCacheShardCapacity = old
	names := keyNames(c.FormatLockKey, 2, true, 0)

	a := c.CreateLockKeys(names[:1])
	b := c.CreateLockKeys(names[1:2])
	x := c.CreateLockKeys(names[:1])
	if ok, _, err := c.Lock(ctx, time.Hour, a); !ok || err != nil {
		return "", fmt.Errorf("A.Lock(k1) = %v, %v", ok, err)
	}
	if ok, _, err := c.Lock(ctx, time.Hour, b); !ok || err != nil {
		return "", fmt.Errorf("B.Lock(k2) = %v, %v", ok, err)
	}
	stillA, err := c.IsLocked(ctx, a)
	if err != nil {
		return "", err
	}
	okX, _, err := c.Lock(ctx, time.Hour, x)
	if err != nil {
		return "", err
	}
	if !stillA || okX {
		return fmt.Sprintf("in-memory L2 cache, shard capacity 1, keys %q and %q in one shard: A locks %q for 1h, B locks %q -> A's live lock is evicted (IsLocked(A)=%v) and a third owner's Lock(%q) returns %v", names[0], names[1], names[0], names[1], stillA, names[0], okX), nil
	}
	return "", nil
}

func TestC28_Known_InmemFullShardEvictsLiveLock(t *testing.T) {
	if !stats.Known("C28", slugInmem) {
		t.Skip("not listed")
	}
	rec := newRec()
	what, err := reproInmemEviction()
	if err != nil {
		t.Fatalf("HARNESS-ERROR C28 known-finding reproduction could not run: %v", err)
	}
	if what != "" {
		rec.KnownFinding(slugInmem + ": " + what)
	}
	// the same defect inside a single call: Lock of two keys sharing a capacity-1 shard
	// reports success although the first key's entry was evicted by the second.
	old := cache.DefaultInMemoryCacheShardCapacity
	cache.DefaultInMemoryCacheShardCapacity = 1
	c := cache.NewL2InMemoryCache()
	cache.DefaultInMemoryCacheShardCapacity = old
	names := keyNames(c.FormatLockKey, 2, true, 1)
	a := c.CreateLockKeys(names)
	ok, _, _ := c.Lock(ctx, time.Hour, a)
	held, _ := c.IsLocked(ctx, a)
	if ok && !held {
		rec.KnownFinding(slugInmem + ": one Lock call on two keys of a capacity-1 shard returns true but IsLocked on the same keys is false (the call evicted its own first lock)")
	}
}

// reproRedisLateUnlock runs both triggers of the delete-by-key Unlock against miniresp.
func reproRedisLateUnlock(t *testing.T) []string {
	sub := redisSubject(t)
	var out []string
	c1, c2 := sub.caches[0], sub.caches[1]

	// trigger 1: TTL expiry, re-acquisition by B, late Unlock by A
	respSrv.Reset()
	a := c1.CreateLockKeys([]string{"k1"})
	b := c2.CreateLockKeys([]string{"k1"})
	must := func(ok bool, err error, what string) {
		if err != nil || !ok {
			t.Fatalf("HARNESS-ERROR C28 known-finding reproduction: %s = %v, %v", what, ok, err)
		}
	}
	ok, _, err := c1.Lock(ctx, 10*time.Second, a)
	must(ok, err, "A.Lock(k1,10s)")
	respSrv.Advance(11 * time.Second)
	ok, _, err = c2.Lock(ctx, time.Hour, b)
	must(ok, err, "B.Lock(k1,1h) after A's TTL")
	if err := c1.Unlock(ctx, a); err != nil {
		t.Fatalf("HARNESS-ERROR C28: A.Unlock: %v", err)
	}
	held, err := c2.IsLocked(ctx, b)
	if err != nil {
		t.Fatalf("HARNESS-ERROR C28: B.IsLocked: %v", err)
	}
	if !held {
		out = append(out, "Redis adapter: A locks k1 for 10s, server clock +11s, B locks k1 for 1h, A calls Unlock -> B's live lock is deleted (IsLocked(B)=false)")
	}

	// trigger 2: no expiry at all. The commit loop of common/twophasecommittransaction.go
	// (Lock(nodesKeys) -> on failure Unlock(nodesKeys) -> retry with the same LockKey objects):
	// the IsLockOwner flag set by the first, partly successful Lock survives the Unlock.
	respSrv.Reset()
	a2 := c1.CreateLockKeys([]string{"k1", "k2"})
	b2 := c2.CreateLockKeys([]string{"k2"})
	b1 := c2.CreateLockKeys([]string{"k1"})
	ok, _, err = c2.Lock(ctx, time.Hour, b2)
	must(ok, err, "B.Lock(k2)")
	ok, _, err = c1.Lock(ctx, time.Hour, []*sop.LockKey{a2[0], a2[1]}) // gets k1, refused on k2
	if ok || err != nil {
		t.Fatalf("HARNESS-ERROR C28: A.Lock(k1,k2) expected refusal, got %v, %v", ok, err)
	}
	_ = c1.Unlock(ctx, []*sop.LockKey{a2[0], a2[1]}) // releases k1, as callers do
	ok, _, err = c2.Lock(ctx, time.Hour, b1)
	must(ok, err, "B.Lock(k1) after A released it")
	ok, _, err = c1.Lock(ctx, time.Hour, []*sop.LockKey{a2[0], a2[1]}) // retry: refused on both
	if ok || err != nil {
		t.Fatalf("HARNESS-ERROR C28: A.Lock(k1,k2) retry expected refusal, got %v, %v", ok, err)
	}
	_ = c1.Unlock(ctx, []*sop.LockKey{a2[0], a2[1]})
	held, err = c2.IsLocked(ctx, b1)
	if err != nil {
		t.Fatalf("HARNESS-ERROR C28: B.IsLocked: %v", err)
	}
	if !held {
		out = append(out, "Redis adapter, no expiry involved: A's Lock(k1,k2) is refused (B holds k2) and A unlocks; B locks k1; A retries Lock(k1,k2) with the same LockKey objects, is refused, unlocks again -> B's live lock on k1 is deleted")
	}
	return out
}

func TestC28_Known_RedisLateUnlockDeletesNewOwner(t *testing.T) {
	if !stats.Known("C28", slugRedis) {
		t.Skip("not listed")
	}
	rec := newRec()
	for _, w := range reproRedisLateUnlock(t) {
		rec.KnownFinding(slugRedis + ": " + w)
	}
}
