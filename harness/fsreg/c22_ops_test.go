package fsreg

import (
	"bytes"
	"fmt"
	"testing"

	"github.com/sharedcode/sop"
	"github.com/sharedcode/sop/fs"
	"pgregory.net/rapid"

	"verif/harness/stats"
)

// Torn block writes for every registry operation that writes a block (Add, Update, UpdateNoLocks,
// Remove), including the first-ever write into a block that was never written (all zeroes).

const (
	wopAdd = iota
	wopUpdate
	wopUpdateNoLocks
	wopRemove
)

var wopNames = []string{"Add", "Update", "UpdateNoLocks", "Remove"}

// emptyBlock is buildBlock for a population of 0: the segment file exists (allocated by an earlier
// add elsewhere in the table's life) and its block has never been written.
func emptyBlock(t fataler) *c23setup {
	e := newEnv(t, 1)
	reg, _ := e.open(t)
	tmp := sop.Handle{LogicalID: mkID(1, 0, 5, 99), PhysicalIDA: mkID(1, 0, 6, 98), Version: 1}
	if err := reg.Add(ctx, payloadH(tmp)); err != nil {
		t.Fatalf("HARNESS-ERROR Add: %v", err)
	}
	reg.Close()
	sz := len(readSeg(t, e, 1))
	s := &c23setup{e: e, hs: map[sop.UUID]sop.Handle{}, olderHs: map[sop.UUID]sop.Handle{}}
	s.good = make([]byte, sz)
	s.older = s.good
	return s
}

func applyOp(reg fs.Registry, op int, h sop.Handle) error {
	switch op {
	case wopAdd:
		return reg.Add(ctx, payloadH(h))
	case wopUpdate:
		return reg.Update(ctx, payloadH(h))
	case wopUpdateNoLocks:
		return reg.UpdateNoLocks(ctx, true, payloadH(h))
	}
	return reg.Remove(ctx, payloadID(h.LogicalID))
}

// c22caseOp: like c22case for any operation. ids = every id a reader asks for (old ids plus an added one).
func c22caseOp(t fataler, s *c23setup, dio *tornIO, op int, h sop.Handle, tornLen int, reader int) (string, bool) {
	// the image and the map a complete operation produces, by letting the real code do it
	s.install(t, s.good, bkNone)
	r, _ := s.e.open(t)
	if err := applyOp(r, op, h); err != nil {
		t.Fatalf("HARNESS-ERROR clean %s: %v", wopNames[op], err)
	}
	r.Close()
	newImage := readSeg(t, s.e, 1)
	oldMap := s.hs
	newMap := map[sop.UUID]sop.Handle{}
	for k, v := range oldMap {
		newMap[k] = v
	}
	ids := append([]sop.UUID{}, s.ids...)
	switch op {
	case wopAdd:
		newMap[h.LogicalID] = h
		ids = append(ids, h.LogicalID)
	case wopRemove:
		delete(newMap, h.LogicalID)
	default:
		newMap[h.LogicalID] = h
	}
	s.install(t, s.good, bkNone)
	var mid *c22obs
	dio.mu.Lock()
	dio.armed = true
	dio.tornLen = tornLen
	dio.crashed = false
	dio.before = nil
	if reader == rdBetweenBackupAndWrite {
		dio.before = func() {
			o := observe(t, s.e, ids, "between backup and block write")
			mid = &o
		}
	}
	dio.mu.Unlock()
	w, _ := s.e.open(t)
	done := make(chan struct{})
	finished := false
	go func() {
		defer close(done)
		applyOp(w, op, h)
		finished = true
	}()
	<-done
	w.Close()
	if finished || !dio.crashed {
		dio.mu.Lock()
		dio.armed = false
		dio.mu.Unlock()
		return "HARNESS-ERROR writer did not reach the block write", false
	}
	hadCow := fileExists(s.e.cowPath(1, 0))
	obs := []c22obs{}
	if mid != nil {
		obs = append(obs, *mid)
	}
	obs = append(obs, observe(t, s.e, ids, "after crash (1st reader)"))
	obs = append(obs, observe(t, s.e, ids, "after crash (2nd reader)"))
	for _, o := range obs {
		if o.err != nil {
			continue // an error is not a mixture; C23 covers what must be an error
		}
		if !sameMap(o.handles, oldMap) && !sameMap(o.handles, newMap) {
			return fmt.Sprintf("%s of %v: reader %q saw neither the old nor the new block: it read %+v for the id (old %+v, new %+v), %d handles in all (old %d, new %d); torn length %d, backup present after crash: %v",
				wopNames[op], h.LogicalID, o.when, o.handles[h.LogicalID], oldMap[h.LogicalID], newMap[h.LogicalID], len(o.handles), len(oldMap), len(newMap), tornLen, hadCow), hadCow
		}
		if !bytes.Equal(o.raw, s.good) && !bytes.Equal(o.raw, newImage) {
			return fmt.Sprintf("%s: after reader %q the raw block is neither the old nor the new image (torn length %d, backup present after crash: %v)", wopNames[op], o.when, tornLen, hadCow), hadCow
		}
	}
	return "", hadCow
}

// opTarget picks the handle the operation is applied with and the slot its record lives in (new image for Add).
func opTarget(t fataler, s *c23setup, op int, pick int, salt uint32) (sop.Handle, bool) {
	if op == wopAdd {
		if len(s.ids) >= slotsInBlock {
			return sop.Handle{}, false
		}
		id := mkID(1, 0, pick%slotsInBlock, 5000+salt)
		return sop.Handle{LogicalID: id, PhysicalIDA: mkID(1, 0, 9, 6000+salt), Version: 7, WorkInProgressTimestamp: 1234567890123, PhysicalIDB: mkID(1, 0, 10, 7000+salt)}, true
	}
	if len(s.ids) == 0 {
		return sop.Handle{}, false
	}
	h := s.hs[s.ids[pick%len(s.ids)]]
	if op != wopRemove {
		h.PhysicalIDB = mkID(1, 0, 3, 424242)
		h.IsActiveIDB = !h.IsActiveIDB
		h.Version++
		h.WorkInProgressTimestamp = 1234567890123
	}
	return h, true
}

// TestC22_TornOps: every operation kind, populations 0 (never-written block), 1 and 65, every torn
// length class (each length inside the written record, every 8th/64th elsewhere), both reader positions.
func TestC22_TornOps(t *testing.T) {
	rec := stats.For("C22")
	dio := &tornIO{real: fs.NewDirectIO()}
	fs.DirectIOSim = dio
	defer func() { fs.DirectIOSim = nil }()
	knownReader := stats.Known("C22", "reader-deletes-live-backup")
	shard, shards := shardOf()
	stride := 64
	if stats.Tier() == "thorough" {
		stride = 8
	}
	case_ := 0
	for _, n := range []int{0, 1, 65} {
		var s *c23setup
		if n == 0 {
			s = emptyBlock(t)
		} else {
			s = buildBlock(t, n, func(i int, id sop.UUID) sop.Handle {
				return sop.Handle{LogicalID: id, PhysicalIDA: mkID(1, 0, i%66, uint32(700+i)), Version: int32(i + 1)}
			})
		}
		for op := wopAdd; op <= wopRemove; op++ {
			h, ok := opTarget(t, s, op, 11, uint32(n))
			if !ok {
				continue
			}
			// where the record lives: compare the old and a clean new image
			s.install(t, s.good, bkNone)
			r, _ := s.e.open(t)
			if err := applyOp(r, op, h); err != nil {
				t.Fatalf("HARNESS-ERROR clean %s: %v", wopNames[op], err)
			}
			r.Close()
			diff := changed(s.good, readSeg(t, s.e, 1))
			lo, hi := 0, 0
			if len(diff) > 0 {
				lo = diff[0]
				for _, d := range diff {
					if d < blockSize-4 {
						hi = d
					}
				}
			}
			for _, reader := range []int{rdNone, rdBetweenBackupAndWrite} {
				for L := 0; L <= blockSize; L++ {
					near := (L >= lo-2 && L <= hi+3) || L >= blockSize-6 || L < 3
					if !near && L%stride != 0 {
						continue
					}
					case_++
					if case_%shards != shard {
						continue
					}
					if knownReader && reader == rdBetweenBackupAndWrite && L > lo && L < blockSize {
						rec.Exclude("reader between backup and block write with a torn prefix reaching the record (known finding)")
						continue
					}
					msg, _ := c22caseOp(t, s, dio, op, h, L, reader)
					if msg != "" {
						t.Fatalf("population %d: %s", n, msg)
					}
					lab := []string{"op" + wopNames[op]}
					if n == 0 {
						lab = append(lab, "firstWriteOfBlock")
					}
					if L > lo && L <= hi {
						lab = append(lab, "tornInsideRecord")
					}
					rec.Case(fmt.Sprintf("op%d n%d L%d r%d", op, n, L, reader), (L > 0 && L < blockSize) || reader != rdNone, lab...)
				}
			}
		}
		s.e.cleanup()
	}
	rec.Sample("tornOps", "Add/Update/UpdateNoLocks/Remove on blocks of 0 (never written), 1 and 65 handles; torn lengths: all inside the changed record +-2, block ends, every 64th (quick) / 8th (thorough) elsewhere; reader none/between")
}

// TestC22_RandomOps: rapid-drawn population (0..66), operation kind, target, torn length, reader position.
func TestC22_RandomOps(t *testing.T) {
	rec := stats.For("C22")
	dio := &tornIO{real: fs.NewDirectIO()}
	fs.DirectIOSim = dio
	defer func() { fs.DirectIOSim = nil }()
	knownReader := stats.Known("C22", "reader-deletes-live-backup")
	rapid.Check(t, func(t *rapid.T) {
		n := rapid.OneOf(rapid.Just(0), rapid.IntRange(0, 66), rapid.IntRange(60, 66)).Draw(t, "n")
		var s *c23setup
		if n == 0 {
			s = emptyBlock(t)
		} else {
			s = buildBlock(t, n, func(i int, id sop.UUID) sop.Handle { return genHandleFor(t, id, fmt.Sprintf("h%d", i)) })
		}
		defer s.e.cleanup()
		op := rapid.IntRange(wopAdd, wopRemove).Draw(t, "op")
		h, ok := opTarget(t, s, op, rapid.IntRange(0, 65).Draw(t, "pick"), rapid.Uint32Range(0, 1000).Draw(t, "salt"))
		if !ok {
			op = wopAdd
			if n >= slotsInBlock {
				op = wopRemove
			}
			h, _ = opTarget(t, s, op, rapid.IntRange(0, 65).Draw(t, "pick2"), 1)
		}
		if op == wopAdd || op == wopUpdate || op == wopUpdateNoLocks {
			g := genHandleFor(t, h.LogicalID, "new")
			if g != s.hs[h.LogicalID] {
				h = g
			}
		}
		L := rapid.OneOf(rapid.IntRange(0, blockSize), rapid.IntRange(blockSize-5, blockSize), rapid.IntRange(0, 70)).Draw(t, "L")
		// bias half of the cases into the record being written
		if rapid.Bool().Draw(t, "intoRecord") {
			s.install(t, s.good, bkNone)
			r, _ := s.e.open(t)
			if err := applyOp(r, op, h); err != nil {
				t.Fatalf("HARNESS-ERROR clean %s: %v", wopNames[op], err)
			}
			r.Close()
			if diff := changed(s.good, readSeg(t, s.e, 1)); len(diff) > 0 {
				L = diff[0] + rapid.IntRange(0, slotSize).Draw(t, "off")
				if L > blockSize {
					L = blockSize
				}
			}
		}
		reader := rapid.IntRange(0, 1).Draw(t, "reader")
		if knownReader && reader == rdBetweenBackupAndWrite && L > 0 && L < blockSize {
			rec.Exclude("reader between backup and block write with a torn prefix (known finding)")
			reader = rdNone
		}
		msg, _ := c22caseOp(t, s, dio, op, h, L, reader)
		if msg != "" {
			t.Fatalf("population %d: %s", n, msg)
		}
		lab := []string{"op" + wopNames[op]}
		if n == 0 {
			lab = append(lab, "firstWriteOfBlock")
		}
		rec.Case(fmt.Sprintf("rndop n%d op%d L%d r%d %+v", n, op, L, reader, h), (L > 0 && L < blockSize) || reader != rdNone, lab...)
	})
}
