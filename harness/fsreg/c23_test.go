package fsreg

import (
	"bytes"
	"encoding/binary"
	"fmt"
	"hash/crc32"
	"os"
	"testing"

	"github.com/sharedcode/sop"
	"pgregory.net/rapid"

	"verif/harness/stats"
)

func crcOK(blk []byte) bool {
	if allZero(blk) {
		return true
	}
	return crc32.ChecksumIEEE(blk[:blockSize-4]) == binary.LittleEndian.Uint32(blk[blockSize-4:])
}

func sealBlock(blk []byte) {
	binary.LittleEndian.PutUint32(blk[blockSize-4:], crc32.ChecksumIEEE(blk[:blockSize-4]))
}

type c23setup struct {
	e       *env
	ids     []sop.UUID
	hs      map[sop.UUID]sop.Handle
	good    []byte // valid image of block 0
	older   []byte // an earlier valid image of block 0 (for a stale-but-valid backup)
	olderHs map[sop.UUID]sop.Handle
}

// buildBlock populates block 0 (modulus 1) with n handles; `older` is the image before the
// last handle was updated.
func buildBlock(t fataler, n int, mk func(i int, id sop.UUID) sop.Handle) *c23setup {
	e := newEnv(t, 1)
	reg, _ := e.open(t)
	s := &c23setup{e: e, hs: map[sop.UUID]sop.Handle{}, olderHs: map[sop.UUID]sop.Handle{}}
	var hs []sop.Handle
	for i := 0; i < n; i++ {
		id := mkID(1, 0, (i*7)%slotsInBlock, uint32(i+1))
		h := mk(i, id)
		s.ids = append(s.ids, id)
		hs = append(hs, h)
		s.hs[id] = h
		s.olderHs[id] = h
	}
	if err := reg.Add(ctx, payloadH(hs...)); err != nil {
		t.Fatalf("HARNESS-ERROR Add: %v", err)
	}
	s.older = readSeg(t, e, 1)
	last := hs[n-1]
	last.Version += 100
	last.IsActiveIDB = !last.IsActiveIDB
	if err := reg.UpdateNoLocks(ctx, true, payloadH(last)); err != nil {
		t.Fatalf("HARNESS-ERROR Update: %v", err)
	}
	s.hs[last.LogicalID] = last
	s.good = readSeg(t, e, 1)
	reg.Close()
	if !crcOK(s.good) || !crcOK(s.older) || bytes.Equal(s.good, s.older) {
		t.Fatalf("HARNESS-ERROR block images not as expected")
	}
	return s
}

const (
	bkNone = iota
	bkValidStale
	bkBadCRC
	bkEmpty
	bkWrongSize
)

var bkNames = []string{"noBackup", "validStaleBackup", "badCrcBackup", "emptyBackup", "wrongSizeBackup"}

func (s *c23setup) install(t fataler, corrupt []byte, bk int) {
	if err := os.WriteFile(s.e.segPath(1), corrupt, 0o644); err != nil {
		t.Fatalf("HARNESS-ERROR write: %v", err)
	}
	cow := s.e.cowPath(1, 0)
	os.Remove(cow)
	var data []byte
	switch bk {
	case bkNone:
		return
	case bkValidStale:
		data = s.older
	case bkBadCRC:
		data = append([]byte{}, s.older...)
		data[100] ^= 0x10
	case bkEmpty:
		data = []byte{}
	case bkWrongSize:
		data = s.older[:blockSize-1]
	}
	if err := os.WriteFile(cow, data, 0o644); err != nil {
		t.Fatalf("HARNESS-ERROR write cow: %v", err)
	}
}

// probe runs one registry operation against the (corrupted) block through a fresh registry
// with an empty L2 cache. It returns the error and, for Get, the handles.
func (s *c23setup) probe(t fataler, op int, victim sop.UUID) (error, []sop.Handle) {
	reg, _ := s.e.open(t)
	if op == 5 {
		reg.Close()
		reg, _ = s.e.openRO(t)
	}
	defer reg.Close()
	switch op {
	case 0, 5:
		got, err := reg.Get(ctx, payloadID(victim))
		var hs []sop.Handle
		for _, p := range got {
			hs = append(hs, p.IDs...)
		}
		return err, hs
	case 1:
		h := s.hs[victim]
		h.Version++
		return reg.UpdateNoLocks(ctx, true, payloadH(h)), nil
	case 2:
		h := s.hs[victim]
		h.Version++
		return reg.Update(ctx, payloadH(h)), nil
	case 3:
		id := mkID(1, 0, 5, 99999)
		return reg.Add(ctx, payloadH(sop.Handle{LogicalID: id, PhysicalIDA: id})), nil
	default:
		return reg.Remove(ctx, payloadID(victim)), nil
	}
}

var opNames = []string{"Get", "UpdateNoLocks", "Update", "Add", "Remove", "Get(read-only registry)"}

// oracle for one (corruption, backup, op) case.
func (s *c23setup) judge(t fataler, what string, corrupt []byte, bk, op int, victim sop.UUID) (excluded bool) {
	s.install(t, corrupt, bk)
	err, got := s.probe(t, op, victim)
	after := readSeg(t, s.e, 1)
	if bk == bkValidStale {
		// restored to the backup's image; the operation then acts on that image
		if err != nil {
			t.Fatalf("%s / %s / %s: valid backup present but the operation failed: %v", what, bkNames[bk], opNames[op], err)
		}
		if op == 0 {
			want := s.olderHs[victim]
			if len(got) != 1 || got[0] != want {
				t.Fatalf("%s / %s / Get: got %+v, want the backup image's handle %+v", what, bkNames[bk], got, want)
			}
			if !bytes.Equal(after, s.older) {
				t.Fatalf("%s / %s / Get: block not restored to the backup image", what, bkNames[bk])
			}
		} else if op == 5 {
			// a read-only registry serves the backup's content and leaves the files alone
			want := s.olderHs[victim]
			if len(got) != 1 || got[0] != want {
				t.Fatalf("%s / %s / Get through a read-only registry: got %+v, want the backup image's handle %+v", what, bkNames[bk], got, want)
			}
		} else if !crcOK(after) {
			t.Fatalf("%s / %s / %s: block left with a bad checksum", what, bkNames[bk], opNames[op])
		}
		return false
	}
	if err == nil && stats.Known("C23", "corrupt-block-without-backup-is-served") {
		// listed finding: exactly this signature (no error for a corrupt block that has no valid
		// backup) is counted, not re-reported; every other failure below still fails the check.
		stats.For("C23").Exclude("no error for corrupt block without valid backup (known finding) / " + opNames[op])
		return true
	}
	if err == nil {
		t.Fatalf("%s / %s / %s on a block with a bad checksum returned no error (got %+v); the corrupt bytes were %s", what, bkNames[bk], opNames[op], got,
			map[bool]string{true: "left in place", false: "rewritten with a fresh checksum"}[bytes.Equal(after, corrupt)])
	}
	if !bytes.Equal(after, corrupt) {
		t.Fatalf("%s / %s / %s returned an error (%v) but changed the corrupt block", what, bkNames[bk], opNames[op], err)
	}
	return false
}

// TestC23_SingleBitFlips: every bit of one written block, each with a backup state and
// operation chosen round-robin (quick) - thorough runs every (bit, backup, op) triple of the
// stride set.
func TestC23_SingleBitFlips(t *testing.T) {
	rec := stats.For("C23").Meta("exploration",
		"every single-bit flip of a written 4096-byte block (slot area and CRC), bursts of 2-512 bytes and zeroed tails from rapid; x backup state {none, valid stale, bad CRC, empty, wrong size} x operation {Get, UpdateNoLocks, Update, Add, Remove} through a fresh registry with an empty L2 cache; non-trivial = corruption leaves the block non-zero with a failing CRC; distinct by (corruption, backup, op)",
		"CRC32 collisions are checked for and skipped (none can occur for single-bit flips)")
	s := buildBlock(t, 40, func(i int, id sop.UUID) sop.Handle {
		return sop.Handle{LogicalID: id, PhysicalIDA: mkID(1, 0, i%66, uint32(5000+i)), Version: int32(i + 1)}
	})
	defer s.e.cleanup()
	shard, shards := shardOf()
	k := 0
	for bit := 0; bit < blockSize*8; bit++ {
		if bit%shards != shard {
			k++
			continue
		}
		corrupt := append([]byte{}, s.good...)
		corrupt[bit/8] ^= 1 << (bit % 8)
		if crcOK(corrupt) {
			continue
		}
		// with the finding listed the no-valid-backup states are counted as excluded, so the
		// valid-backup state gets every other bit
		combos := [][2]int{{k % 5, (k / 5) % 6}}
		if k%2 == 1 {
			combos = [][2]int{{bkValidStale, (k / 2) % 6}}
		}
		if stats.Tier() == "thorough" && bit%16 == 0 {
			combos = nil
			for b := 0; b < 5; b++ {
				for o := 0; o < 6; o++ {
					combos = append(combos, [2]int{b, o})
				}
			}
		}
		for _, c := range combos {
			victim := s.ids[(bit/8/slotSize*11+k)%len(s.ids)]
			excl := s.judge(t, fmt.Sprintf("bit flip at byte %d bit %d", bit/8, bit%8), corrupt, c[0], c[1], victim)
			lab := "flipInSlots"
			if bit/8 >= blockSize-4 {
				lab = "flipInCRC"
			} else if bit/8 >= slotsInBlock*slotSize {
				lab = "flipInPadding"
			}
			if excl {
				rec.Case(fmt.Sprintf("flip %d %s %s", bit, bkNames[c[0]], opNames[c[1]]), false, "excludedKnownFinding")
				continue
			}
			rec.Case(fmt.Sprintf("flip %d %s %s", bit, bkNames[c[0]], opNames[c[1]]), true, lab, bkNames[c[0]], opNames[c[1]])
		}
		k++
	}
	rec.Sample("bitflip", "block of 40 handles; flip bit b of the 32768; backup state and operation cycle through 5x5")
}

// TestC23_Bursts: rapid-generated multi-byte corruption.
func TestC23_Bursts(t *testing.T) {
	rec := stats.For("C23")
	rapid.Check(t, func(t *rapid.T) {
		n := rapid.IntRange(1, 66).Draw(t, "handles")
		s := buildBlock(t, n, func(i int, id sop.UUID) sop.Handle { return genHandleFor(t, id, fmt.Sprintf("h%d", i)) })
		defer s.e.cleanup()
		corrupt := append([]byte{}, s.good...)
		kind := rapid.SampledFrom([]string{"burstRandom", "burstZero", "zeroTail", "swapSlots", "truncCRC"}).Draw(t, "kind")
		switch kind {
		case "burstRandom":
			off := rapid.IntRange(0, blockSize-2).Draw(t, "off")
			l := rapid.IntRange(2, min(512, blockSize-off)).Draw(t, "len")
			copy(corrupt[off:off+l], rapid.SliceOfN(rapid.Byte(), l, l).Draw(t, "bytes"))
		case "burstZero":
			off := rapid.IntRange(0, blockSize-2).Draw(t, "off")
			l := rapid.IntRange(2, min(512, blockSize-off)).Draw(t, "len")
			for i := off; i < off+l; i++ {
				corrupt[i] = 0
			}
		case "zeroTail":
			off := rapid.IntRange(1, blockSize-1).Draw(t, "off")
			for i := off; i < blockSize; i++ {
				corrupt[i] = 0
			}
		case "swapSlots":
			a, b := rapid.IntRange(0, 65).Draw(t, "a"), rapid.IntRange(0, 65).Draw(t, "b")
			tmp := append([]byte{}, corrupt[a*slotSize:(a+1)*slotSize]...)
			copy(corrupt[a*slotSize:], corrupt[b*slotSize:(b+1)*slotSize])
			copy(corrupt[b*slotSize:], tmp)
		case "truncCRC":
			copy(corrupt[blockSize-4:], rapid.SliceOfN(rapid.Byte(), 4, 4).Draw(t, "crc"))
		}
		if crcOK(corrupt) || bytes.Equal(corrupt, s.good) {
			stats.For("C23").Discard()
			return // still valid (e.g. swapped identical/empty slots, all-zero): not a corruption
		}
		bk := rapid.IntRange(0, 4).Draw(t, "backup")
		op := rapid.IntRange(0, 5).Draw(t, "op")
		victim := s.ids[rapid.IntRange(0, n-1).Draw(t, "victim")]
		if s.judge(t, kind, corrupt, bk, op, victim) {
			rec.Case(fmt.Sprintf("%s n=%d %x %d %d", kind, n, crc32.ChecksumIEEE(corrupt), bk, op), false, "excludedKnownFinding")
			return
		}
		rec.Case(fmt.Sprintf("%s n=%d %x %d %d", kind, n, crc32.ChecksumIEEE(corrupt), bk, op), true, kind, bkNames[bk], opNames[op])
		rec.Sample(kind, fmt.Sprintf("%d handles, %s, %s, %s", n, kind, bkNames[bk], opNames[op]))
	})
}

// TestC23_Known_ServedCorruptBlock is the minimal reproduction of the recorded finding: one
// flipped bit in a written block, no backup file, cold lookup.
func TestC23_Known_ServedCorruptBlock(t *testing.T) {
	s := buildBlock(t, 3, func(i int, id sop.UUID) sop.Handle {
		return sop.Handle{LogicalID: id, PhysicalIDA: id, Version: int32(i + 1)}
	})
	defer s.e.cleanup()
	corrupt := append([]byte{}, s.good...)
	corrupt[3] ^= 0x04 // inside the first record's logical id
	s.install(t, corrupt, bkNone)
	err, got := s.probe(t, 0, s.ids[1])
	if err != nil {
		return // repaired: lookups on a corrupt block fail
	}
	what := fmt.Sprintf("registry Get on a block whose CRC does not match and that has no .cow backup returns no error (returned %d handle(s)); fs.readAndRestoreBlock ends with return nil", len(got))
	if stats.Known("C23", "corrupt-block-without-backup-is-served") {
		stats.For("C23").KnownFinding(what)
		return
	}
	t.Fatalf("%s", what)
}
