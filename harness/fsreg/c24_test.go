package fsreg

import (
	"bytes"
	"fmt"
	"os"
	"testing"

	"github.com/sharedcode/sop"
	"github.com/sharedcode/sop/encoding"
	"pgregory.net/rapid"

	"verif/harness/stats"
)

func readSeg(t fataler, e *env, seg int) []byte {
	b, err := os.ReadFile(e.segPath(seg))
	if err != nil {
		t.Fatalf("HARNESS-ERROR read segment: %v", err)
	}
	return b
}

// changedRanges returns the byte offsets that differ.
func changed(a, b []byte) []int {
	var d []int
	for i := range a {
		if a[i] != b[i] {
			d = append(d, i)
		}
	}
	return d
}

// TestC24_SlotLayoutExhaustive enumerates all 66 slot indexes: a record written through the
// real registry into an empty block occupies exactly [62i, 62i+62), inside [0,4092), and the
// only other bytes that change are the checksum's [4092,4096).
func TestC24_SlotLayoutExhaustive(t *testing.T) {
	rec := stats.For("C24").Meta("exploration",
		"layout: every slot index 0..65 written through the real registry into an empty and into a full block, raw block bytes diffed (exhaustive over slot indexes); rapid: random populations, one update, changed bytes must lie in that record's 62-byte range or its block's CRC")
	m := encoding.NewHandleMarshaler()
	if slotsInBlock*slotSize > blockSize-4 {
		t.Fatalf("66 slots of 62 bytes do not fit before the checksum")
	}
	for i := 0; i < slotsInBlock; i++ {
		e := newEnv(t, 1)
		reg, _ := e.open(t)
		id := mkID(1, 0, i, 7)
		h := sop.Handle{LogicalID: id, PhysicalIDA: id, PhysicalIDB: mkID(1, 0, i, 9), IsActiveIDB: true, Version: -5, WorkInProgressTimestamp: -7, IsDeleted: true}
		if err := reg.Add(ctx, payloadH(h)); err != nil {
			t.Fatalf("Add slot %d: %v", i, err)
		}
		b := readSeg(t, e, 1)
		if len(b) != blockSize {
			t.Fatalf("segment size %d with modulus 1, want one block", len(b))
		}
		want, _ := m.Marshal(h, nil)
		if !bytes.Equal(b[i*slotSize:(i+1)*slotSize], want) {
			t.Fatalf("slot %d: record not at [%d,%d)", i, i*slotSize, (i+1)*slotSize)
		}
		for _, off := range changed(make([]byte, blockSize), b) {
			inSlot := off >= i*slotSize && off < (i+1)*slotSize
			inCRC := off >= blockSize-4
			if !inSlot && !inCRC {
				t.Fatalf("slot %d: byte %d changed, outside the slot and the checksum", i, off)
			}
		}
		if (i+1)*slotSize > blockSize-4 {
			t.Fatalf("slot %d overlaps the checksum area", i)
		}
		// fill the block (all 66 ideal slots), then rewrite slot i and diff
		var hs []sop.Handle
		for s := 0; s < slotsInBlock; s++ {
			if s == i {
				continue
			}
			hs = append(hs, sop.Handle{LogicalID: mkID(1, 0, s, 3), PhysicalIDA: mkID(1, 0, s, 4), Version: int32(s)})
		}
		if err := reg.Add(ctx, payloadH(hs...)); err != nil {
			t.Fatalf("fill: %v", err)
		}
		before := readSeg(t, e, 1)
		h.Version = 77
		h.IsDeleted = false
		if err := reg.UpdateNoLocks(ctx, true, payloadH(h)); err != nil {
			t.Fatalf("update slot %d in full block: %v", i, err)
		}
		after := readSeg(t, e, 1)
		for _, off := range changed(before, after) {
			inSlot := off >= i*slotSize && off < (i+1)*slotSize
			if !inSlot && off < blockSize-4 {
				t.Fatalf("full block, rewrite of slot %d changed byte %d of slot %d", i, off, off/slotSize)
			}
		}
		slots, bad := e.readRaw(t)
		if len(slots) != slotsInBlock || len(bad) != 0 {
			t.Fatalf("full block holds %d records (bad crc %v), want 66", len(slots), bad)
		}
		// remove the record of slot i from the full block: only its 62 bytes (zeroed) and the checksum change
		if err := reg.Remove(ctx, payloadID(h.LogicalID)); err != nil {
			t.Fatalf("remove slot %d in full block: %v", i, err)
		}
		removed := readSeg(t, e, 1)
		for _, off := range changed(after, removed) {
			inSlot := off >= i*slotSize && off < (i+1)*slotSize
			if !inSlot && off < blockSize-4 {
				t.Fatalf("full block, removal of the record in slot %d changed byte %d of slot %d", i, off, off/slotSize)
			}
		}
		if !allZero(removed[i*slotSize : (i+1)*slotSize]) {
			t.Fatalf("removed record of slot %d is not zeroed", i)
		}
		if err := reg.Add(ctx, payloadH(h)); err != nil {
			t.Fatalf("re-add slot %d: %v", i, err)
		}
		if !bytes.Equal(readSeg(t, e, 1), after) {
			t.Fatalf("remove + re-add of the record in slot %d does not give the same block back", i)
		}
		// the 67th id of this block must go to a second segment, not overwrite anything
		extra := sop.Handle{LogicalID: mkID(1, 0, i, 1000), PhysicalIDA: mkID(1, 0, i, 1001)}
		if err := reg.Add(ctx, payloadH(extra)); err != nil {
			t.Fatalf("67th add: %v", err)
		}
		if !bytes.Equal(readSeg(t, e, 1), after) {
			t.Fatalf("adding a 67th id changed the full block of segment 1")
		}
		got, err := reg.Get(ctx, payloadID(extra.LogicalID))
		if err != nil || len(got) != 1 || len(got[0].IDs) != 1 || got[0].IDs[0] != extra {
			t.Fatalf("67th id not readable: %v %v", got, err)
		}
		reg.Close()
		e.cleanup()
		rec.Case(fmt.Sprintf("layout slot %d", i), true, "layoutSlot")
	}
	rec.Sample("layout", "slot i in 0..65: Add into empty block, diff; fill block; rewrite slot i, diff; add 67th id")
}

// TestC24_SlotWriteLocality: random populations over several blocks/moduli; one update; the
// changed bytes are confined to that record's slot and its block's checksum.
func TestC24_SlotWriteLocality(t *testing.T) {
	rec := stats.For("C24")
	rapid.Check(t, func(t *rapid.T) {
		mod := rapid.SampledFrom([]int{1, 2, 3, 5, 8}).Draw(t, "mod")
		e := newEnv(t, mod)
		defer e.cleanup()
		reg, _ := e.open(t)
		defer reg.Close()
		n := rapid.IntRange(1, 90).Draw(t, "n")
		ids := make([]sop.UUID, n)
		hs := make([]sop.Handle, n)
		for i := range ids {
			ids[i] = mkID(mod, rapid.IntRange(0, mod-1).Draw(t, "blk"), rapid.IntRange(0, 65).Draw(t, "slot"), uint32(i+1))
			hs[i] = genHandleFor(t, ids[i], fmt.Sprintf("h%d", i))
		}
		if err := reg.Add(ctx, payloadH(hs...)); err != nil {
			t.Fatalf("Add: %v", err)
		}
		k := rapid.IntRange(0, n-1).Draw(t, "victim")
		slots, _ := e.readRaw(t)
		var at *rawSlot
		for i := range slots {
			if slots[i].handle.LogicalID == ids[k] {
				at = &slots[i]
			}
		}
		if at == nil {
			t.Fatalf("added id %v not on disk", ids[k])
		}
		nseg := 0
		for ; ; nseg++ {
			if _, err := os.Stat(e.segPath(nseg + 1)); err != nil {
				break
			}
		}
		before := make([][]byte, nseg)
		for s := range before {
			before[s] = readSeg(t, e, s+1)
		}
		nh := genHandleFor(t, ids[k], "new")
		if err := reg.UpdateNoLocks(ctx, true, payloadH(nh)); err != nil {
			t.Fatalf("UpdateNoLocks: %v", err)
		}
		for s := range before {
			after := readSeg(t, e, s+1)
			for _, off := range changed(before[s], after) {
				blk, in := off/blockSize, off%blockSize
				ok := s+1 == at.seg && blk == at.block && (in >= blockSize-4 || (in >= at.slot*slotSize && in < (at.slot+1)*slotSize))
				if !ok {
					t.Fatalf("update of id in seg%d block%d slot%d changed byte %d of seg%d (block %d, slot %d)", at.seg, at.block, at.slot, off, s+1, blk, in/slotSize)
				}
			}
		}
		for s := range before {
			before[s] = readSeg(t, e, s+1)
		}
		if err := reg.Remove(ctx, payloadID(ids[k])); err != nil {
			t.Fatalf("Remove: %v", err)
		}
		for s := range before {
			after := readSeg(t, e, s+1)
			for _, off := range changed(before[s], after) {
				blk, in := off/blockSize, off%blockSize
				ok := s+1 == at.seg && blk == at.block && (in >= blockSize-4 || (in >= at.slot*slotSize && in < (at.slot+1)*slotSize))
				if !ok {
					t.Fatalf("removal of id in seg%d block%d slot%d changed byte %d of seg%d (block %d, slot %d)", at.seg, at.block, at.slot, off, s+1, blk, in/slotSize)
				}
			}
		}
		rec.Case(fmt.Sprintf("loc mod=%d n=%d k=%d %+v", mod, n, k, nh), n > 1, fmt.Sprintf("segs%d", nseg))
		rec.Sample("locality", fmt.Sprintf("mod=%d population=%d update record at seg%d/block%d/slot%d", mod, n, at.seg, at.block, at.slot))
	})
}
