package fsreg

import (
	"bytes"
	"context"
	"fmt"
	"os"
	"runtime"
	"sync"
	"testing"

	"github.com/sharedcode/sop"
	"github.com/sharedcode/sop/fs"
	"pgregory.net/rapid"

	"verif/harness/stats"
)

// tornIO is a fs.DirectIO that performs real I/O but can, on the next block write, run a hook,
// write only the first L bytes and then stop the calling goroutine for good (in-process "crash":
// nothing of the writer runs again except deferred in-memory unlocks).
type tornIO struct {
	real fs.DirectIO
	mu   sync.Mutex
	// armed: crash on the next WriteAt
	armed     bool
	tornLen   int // bytes of the block that reach the file (0..4096); 4096 = full write, crash after it
	before    func()
	crashed   bool
	writeSeen int
}

func (d *tornIO) Open(ctx context.Context, filename string, flag int, perm os.FileMode) (*os.File, error) {
	return d.real.Open(ctx, filename, flag, perm)
}
func (d *tornIO) ReadAt(ctx context.Context, f *os.File, b []byte, off int64) (int, error) {
	return d.real.ReadAt(ctx, f, b, off)
}
func (d *tornIO) Close(f *os.File) error { return d.real.Close(f) }
func (d *tornIO) WriteAt(ctx context.Context, f *os.File, b []byte, off int64) (int, error) {
	d.mu.Lock()
	armed := d.armed
	d.armed = false
	d.writeSeen++
	d.mu.Unlock()
	if !armed {
		return d.real.WriteAt(ctx, f, b, off)
	}
	if d.before != nil {
		d.before()
	}
	if d.tornLen > 0 {
		// a partial block cannot go through the O_DIRECT descriptor; use a plain one
		pf, err := os.OpenFile(f.Name(), os.O_WRONLY, 0)
		if err == nil {
			pf.WriteAt(b[:d.tornLen], off)
			pf.Close()
		}
	}
	d.crashed = true
	runtime.Goexit()
	return 0, nil
}

// runCrashingUpdate runs reg.UpdateNoLocks(h) in its own goroutine and lets it die at the block write.
func runCrashingUpdate(reg fs.Registry, h sop.Handle) (finished bool, err error) {
	done := make(chan struct{})
	go func() {
		defer close(done)
		err = reg.UpdateNoLocks(ctx, true, payloadH(h))
		finished = true
	}()
	<-done
	return
}

type c22obs struct {
	when    string
	handles map[sop.UUID]sop.Handle
	err     error
	raw     []byte
}

func observe(t fataler, e *env, ids []sop.UUID, when string) c22obs {
	r, _ := e.open(t)
	defer r.Close()
	got, err := r.Get(ctx, payloadID(ids...))
	o := c22obs{when: when, err: err, handles: map[sop.UUID]sop.Handle{}}
	for _, p := range got {
		for _, h := range p.IDs {
			o.handles[h.LogicalID] = h
		}
	}
	o.raw = readSeg(t, e, 1)
	return o
}

func sameMap(a, b map[sop.UUID]sop.Handle) bool {
	if len(a) != len(b) {
		return false
	}
	for k, v := range a {
		if b[k] != v {
			return false
		}
	}
	return true
}

const (
	rdNone = iota
	rdBetweenBackupAndWrite
)

// c22case runs one (population image, victim, new handle, torn length, reader position) case
// and returns a description of a violation, or "".
func c22case(t fataler, s *c23setup, dio *tornIO, victim sop.UUID, nh sop.Handle, tornLen int, reader int, newImage []byte) (string, bool) {
	s.install(t, s.good, bkNone)
	oldMap := s.hs
	newMap := map[sop.UUID]sop.Handle{}
	for k, v := range oldMap {
		newMap[k] = v
	}
	newMap[victim] = nh
	var mid *c22obs
	dio.mu.Lock()
	dio.armed = true
	dio.tornLen = tornLen
	dio.crashed = false
	dio.before = nil
	if reader == rdBetweenBackupAndWrite {
		dio.before = func() {
			o := observe(t, s.e, s.ids, "between backup and block write")
			mid = &o
		}
	}
	dio.mu.Unlock()
	w, _ := s.e.open(t)
	finished, _ := runCrashingUpdate(w, nh)
	w.Close()
	if finished || !dio.crashed {
		return "HARNESS-ERROR writer did not reach the block write", false
	}
	hadCow := fileExists(s.e.cowPath(1, 0))
	obs := []c22obs{}
	if mid != nil {
		obs = append(obs, *mid)
	}
	obs = append(obs, observe(t, s.e, s.ids, "after crash (1st reader)"))
	obs = append(obs, observe(t, s.e, s.ids, "after crash (2nd reader)"))
	for _, o := range obs {
		if o.err != nil {
			continue // an error is not a mixture; C23 covers what must be an error
		}
		if !sameMap(o.handles, oldMap) && !sameMap(o.handles, newMap) {
			return fmt.Sprintf("reader %q saw neither the old nor the new block: victim %v read as %+v (old %+v, new %+v); torn length %d, backup present after crash: %v",
				o.when, victim, o.handles[victim], oldMap[victim], nh, tornLen, hadCow), hadCow
		}
		if !bytes.Equal(o.raw, s.good) && !bytes.Equal(o.raw, newImage) {
			return fmt.Sprintf("after reader %q the raw block is neither the old nor the new image (torn length %d, backup present after crash: %v)", o.when, tornLen, hadCow), hadCow
		}
	}
	return "", hadCow
}

func fileExists(p string) bool { _, err := os.Stat(p); return err == nil }

// newImageOf computes the image a complete write produces, by letting the real code do it.
func newImageOf(t fataler, s *c23setup, nh sop.Handle) []byte {
	s.install(t, s.good, bkNone)
	r, _ := s.e.open(t)
	if err := r.UpdateNoLocks(ctx, true, payloadH(nh)); err != nil {
		t.Fatalf("HARNESS-ERROR clean update: %v", err)
	}
	r.Close()
	return readSeg(t, s.e, 1)
}

func slotOf(img []byte, id sop.UUID) int {
	for s := 0; s < slotsInBlock; s++ {
		if bytes.Equal(img[s*slotSize:s*slotSize+16], id[:]) {
			return s
		}
	}
	return -1
}

// TestC22_TornWrites enumerates every torn-prefix length 0..4096 for a few populations and both
// reader positions (level: fault_enumeration).
func TestC22_TornWrites(t *testing.T) {
	rec := stats.For("C22").Meta("fault_enumeration",
		"one update of one slot of a block holding 1-66 handles; the writer dies at the block write after L bytes reached the file, every L in 0..4096 (exhaustive per population); a second registry object (own descriptor, empty cache) reads all ids of the block between the writer's backup and its block write and/or after the crash, twice; oracle: every error-free read is exactly the old or the new handle set and the raw block equals the old or new image; non-trivial = 0 < L < 4096 or a reader ran between backup and block write; distinct by (population, victim slot, L, reader position)",
		"in-process crash: the writer goroutine is stopped with runtime.Goexit inside DirectIO.WriteAt, only its deferred in-memory unlock runs; torn write = prefix of the new block over the old one (no reordering inside a 4 KiB block)",
		"crash points inside the backup write are derived states (prefix of the .cow file), see TestC22_BackupCrashStates")
	dio := &tornIO{real: fs.NewDirectIO()}
	fs.DirectIOSim = dio
	defer func() { fs.DirectIOSim = nil }()
	knownReader := stats.Known("C22", "reader-deletes-live-backup")
	shard, shards := shardOf()
	pops := stats.Pick([]int{1, 66}, []int{1, 2, 7, 33, 65, 66})
	case_ := 0
	for _, n := range pops {
		s := buildBlock(t, n, func(i int, id sop.UUID) sop.Handle {
			return sop.Handle{LogicalID: id, PhysicalIDA: mkID(1, 0, i%66, uint32(700+i)), Version: int32(i + 1)}
		})
		victim := s.ids[n/2]
		nh := s.hs[victim]
		nh.PhysicalIDB = mkID(1, 0, 3, 424242)
		nh.IsActiveIDB = true
		nh.Version += 1
		nh.WorkInProgressTimestamp = 1234567890123
		newImage := newImageOf(t, s, nh)
		vslot := slotOf(s.good, victim)
		for _, reader := range []int{rdNone, rdBetweenBackupAndWrite} {
			for L := 0; L <= blockSize; L++ {
				if stats.Tier() != "thorough" {
					// quick: every length inside and around the record and the checksum, every 8th elsewhere
					near := (L >= vslot*slotSize-2 && L <= (vslot+1)*slotSize+2) || L >= blockSize-70 || L < 4
					if !near && L%8 != 0 {
						continue
					}
				}
				case_++
				if case_%shards != shard {
					continue
				}
				inSlot := L > vslot*slotSize && L < (vslot+1)*slotSize
				if knownReader && reader == rdBetweenBackupAndWrite && L > vslot*slotSize && L < blockSize {
					// the listed finding needs exactly: reader between backup and block write, and a torn
					// prefix that reaches into the victim's record without completing the block
					rec.Exclude("reader between backup and block write with a torn prefix reaching the record (known finding)")
					continue
				}
				msg, _ := c22case(t, s, dio, victim, nh, L, reader, newImage)
				if msg != "" {
					t.Fatalf("population %d, victim slot %d: %s", n, vslot, msg)
				}
				lab := []string{fmt.Sprintf("reader%d", reader)}
				if inSlot {
					lab = append(lab, "tornInsideRecord")
				}
				if L >= blockSize-4 && L < blockSize {
					lab = append(lab, "tornInsideCRC")
				}
				rec.Case(fmt.Sprintf("n%d v%d L%d r%d", n, vslot, L, reader), (L > 0 && L < blockSize) || reader != rdNone, lab...)
			}
		}
		s.e.cleanup()
		rec.Sample("torn", fmt.Sprintf("block of %d handles, update record in slot %d, L=0..4096, reader positions none/between", n, vslot))
	}
}

// TestC22_BackupCrashStates: crash while the backup file is being written (empty, every
// prefix length class, complete) - the block itself is still the old image; and crash after the
// full block write but before the backup removal.
func TestC22_BackupCrashStates(t *testing.T) {
	rec := stats.For("C22")
	for _, n := range []int{1, 20, 66} {
		s := buildBlock(t, n, func(i int, id sop.UUID) sop.Handle {
			return sop.Handle{LogicalID: id, PhysicalIDA: mkID(1, 0, i%66, uint32(900+i)), Version: int32(i + 1)}
		})
		shard, shards := shardOf()
		for L := 0; L <= blockSize; L += 1 {
			if L%shards != shard || (stats.Tier() != "thorough" && L%16 != 0 && L > 64 && L < blockSize-64) {
				continue
			}
			// state: old block, .cow holds the first L bytes of the old block
			s.install(t, s.good, bkNone)
			if err := os.WriteFile(s.e.cowPath(1, 0), s.good[:L], 0o644); err != nil {
				t.Fatalf("HARNESS-ERROR %v", err)
			}
			for k := 0; k < 2; k++ {
				o := observe(t, s.e, s.ids, "after crash in backup write")
				if o.err == nil && !sameMap(o.handles, s.hs) {
					t.Fatalf("population %d: backup file of %d bytes next to an intact block: reader saw %v", n, L, o.handles)
				}
				if o.err == nil && !bytes.Equal(o.raw, s.good) {
					t.Fatalf("population %d: backup file of %d bytes next to an intact block: block bytes changed", n, L)
				}
			}
			rec.Case(fmt.Sprintf("cowprefix n%d L%d", n, L), L > 0 && L < blockSize, "crashInBackupWrite")
		}
		s.e.cleanup()
	}
	rec.Sample("backupCrash", "old block + .cow containing the first L bytes of it, L=0..4096; two cold readers")
}

// TestC22_Random: rapid-drawn populations, victims, new handles, torn lengths biased to the
// record and CRC boundaries, reader position.
func TestC22_Random(t *testing.T) {
	rec := stats.For("C22")
	dio := &tornIO{real: fs.NewDirectIO()}
	fs.DirectIOSim = dio
	defer func() { fs.DirectIOSim = nil }()
	knownReader := stats.Known("C22", "reader-deletes-live-backup")
	rapid.Check(t, func(t *rapid.T) {
		n := rapid.IntRange(1, 66).Draw(t, "n")
		s := buildBlock(t, n, func(i int, id sop.UUID) sop.Handle { return genHandleFor(t, id, fmt.Sprintf("h%d", i)) })
		defer s.e.cleanup()
		victim := s.ids[rapid.IntRange(0, n-1).Draw(t, "victim")]
		nh := genHandleFor(t, victim, "new")
		if nh == s.hs[victim] {
			nh.Version++
		}
		vslot := slotOf(s.good, victim)
		L := rapid.OneOf(
			rapid.IntRange(0, blockSize),
			rapid.IntRange(vslot*slotSize, (vslot+1)*slotSize),
			rapid.IntRange(blockSize-5, blockSize),
		).Draw(t, "L")
		reader := rapid.IntRange(0, 1).Draw(t, "reader")
		if knownReader && reader == rdBetweenBackupAndWrite && L > vslot*slotSize && L < blockSize {
			rec.Exclude("reader between backup and block write with a torn prefix reaching the record (known finding)")
			reader = rdNone
		}
		newImage := newImageOf(t, s, nh)
		msg, _ := c22case(t, s, dio, victim, nh, L, reader, newImage)
		if msg != "" {
			t.Fatalf("population %d, victim slot %d: %s", n, vslot, msg)
		}
		rec.Case(fmt.Sprintf("rnd n%d v%d L%d r%d %+v", n, vslot, L, reader, nh), (L > 0 && L < blockSize) || reader != rdNone, fmt.Sprintf("reader%d", reader))
	})
}

// TestC22_Regress_ReaderDeletesBackup is the shrunk schedule found on the pinned tree (fixed in
// /repo, see known_findings.json): writer backs up the block; a reader looks the block up; the
// writer dies after 38 bytes of its block write; the next reader must get the old block back.
func TestC22_Regress_ReaderDeletesBackup(t *testing.T) {
	dio := &tornIO{real: fs.NewDirectIO()}
	fs.DirectIOSim = dio
	defer func() { fs.DirectIOSim = nil }()
	s := buildBlock(t, 1, func(i int, id sop.UUID) sop.Handle {
		return sop.Handle{LogicalID: id, PhysicalIDA: mkID(1, 0, 0, 700), Version: 1}
	})
	defer s.e.cleanup()
	victim := s.ids[0]
	nh := s.hs[victim]
	nh.PhysicalIDB = mkID(1, 0, 3, 424242)
	nh.Version++
	nh.WorkInProgressTimestamp = 1234567890123
	newImage := newImageOf(t, s, nh)
	if msg, _ := c22case(t, s, dio, victim, nh, 38, rdBetweenBackupAndWrite, newImage); msg != "" {
		t.Fatalf("%s", msg)
	}
}
