package fsreg

import (
	"testing"

	"github.com/sharedcode/sop"
)

// TestC21_Regress_DisplacedEntry is the shrunk history found by TestC21_RegistryIsMap on the
// pinned tree (fixed in /repo by a "fix:" commit, see known_findings.json): two ids share block
// and ideal slot; the first is removed, which frees the ideal slot *before* the second id's
// record in probe order; updating and removing the second id must act on its record, not on
// the free slot.
func TestC21_Regress_DisplacedEntry(t *testing.T) {
	for _, withLocks := range []bool{false, true} {
		e := newEnv(t, 1)
		reg, _ := e.open(t)
		a, b := mkID(1, 0, 1, 1), mkID(1, 0, 1, 2)
		ha := sop.Handle{LogicalID: a, PhysicalIDA: a, Version: 1}
		hb := sop.Handle{LogicalID: b, PhysicalIDA: b, Version: 1}
		must := func(err error, what string) {
			if err != nil {
				t.Fatalf("%s: %v", what, err)
			}
		}
		must(reg.Add(ctx, payloadH(ha)), "Add a")
		must(reg.Add(ctx, payloadH(hb)), "Add b")
		must(reg.Remove(ctx, payloadID(a)), "Remove a")
		hb.Version = 2
		if withLocks {
			must(reg.Update(ctx, payloadH(hb)), "Update b")
		} else {
			must(reg.UpdateNoLocks(ctx, false, payloadH(hb)), "UpdateNoLocks b")
		}
		slots, _ := e.readRaw(t)
		if len(slots) != 1 {
			t.Fatalf("after add a, add b, remove a, update b: %d records on disk, want 1: %+v", len(slots), slots)
		}
		must(reg.Remove(ctx, payloadID(b)), "Remove b")
		cold, _ := e.open(t)
		got, err := cold.Get(ctx, payloadID(b))
		must(err, "cold Get")
		if len(got) > 0 && len(got[0].IDs) > 0 {
			t.Fatalf("removed id reappeared: %+v", got[0].IDs)
		}
		cold.Close()
		reg.Close()
		e.cleanup()
	}
}
