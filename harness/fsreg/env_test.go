package fsreg

import (
	"strconv"
	"context"
	"encoding/binary"
	"fmt"
	"hash/crc32"
	"os"
	"path/filepath"
	"sort"
	"testing"

	"github.com/sharedcode/sop"
	"github.com/sharedcode/sop/cache"
	"github.com/sharedcode/sop/encoding"
	"github.com/sharedcode/sop/fs"
)

const (
	table        = "regtbl"
	blockSize    = 4096
	slotSize     = 62 // sop.HandleSizeInBytes, asserted in C24
	slotsInBlock = 66
)

var ctx = context.Background()

type fataler interface {
	Fatalf(format string, args ...any)
	Helper()
}

// env is one registry directory with a hash modulus.
type env struct {
	dir string
	mod int
}

func newEnv(t fataler, mod int) *env {
	d, err := os.MkdirTemp("", "fsreg")
	if err != nil {
		t.Fatalf("HARNESS-ERROR mkdtemp: %v", err)
	}
	// the store repository creates the registry table's folder when a store is added
	if err := os.MkdirAll(filepath.Join(d, table), 0o755); err != nil {
		t.Fatalf("HARNESS-ERROR mkdir: %v", err)
	}
	return &env{dir: d, mod: mod}
}

func (e *env) cleanup() { os.RemoveAll(e.dir) }

// open returns a registry object on the directory with a brand-new L2 cache
// (so its Get goes to disk on first touch).
func (e *env) open(t fataler) (fs.Registry, sop.L2Cache) {
	l2 := cache.NewL2InMemoryCache()
	rt, err := fs.NewReplicationTracker(ctx, []string{e.dir}, false, l2)
	if err != nil {
		t.Fatalf("HARNESS-ERROR NewReplicationTracker: %v", err)
	}
	return fs.NewRegistry(true, e.mod, rt, l2), l2
}

// openRO: a registry object opened read-only (what a ForReading transaction uses), brand-new L2 cache.
func (e *env) openRO(t fataler) (fs.Registry, sop.L2Cache) {
	l2 := cache.NewL2InMemoryCache()
	rt, err := fs.NewReplicationTracker(ctx, []string{e.dir}, false, l2)
	if err != nil {
		t.Fatalf("HARNESS-ERROR NewReplicationTracker: %v", err)
	}
	return fs.NewRegistry(false, e.mod, rt, l2), l2
}

func (e *env) segPath(i int) string {
	return filepath.Join(e.dir, table, fmt.Sprintf("%s-%d.reg", table, i))
}

func (e *env) cowPath(seg int, blockOffset int64) string {
	return filepath.Join(e.dir, table, fmt.Sprintf("%s-%d_%d.cow", table, seg, blockOffset))
}

// mkID builds an id that hashes to block `block` (0 <= block < mod) and ideal slot
// `slot`, with `salt` making it unique. high % mod == block, low % 66 == slot.
func mkID(mod, block, slot int, salt uint32) sop.UUID {
	var u sop.UUID
	high := uint64(salt)*uint64(mod)*1 + uint64(block) // (salt*mod + block) % mod == block
	// no zero byte runs at the start of the id: a neighbour's write spilling over the first bytes of a record must
	// change it (all-zero leading bytes would hide that). The added term is a multiple of mod.
	high += (uint64(0xA5C3)<<48 | uint64(0x5A)<<40) / uint64(mod) * uint64(mod)
	low := uint64(salt)*slotsInBlock + uint64(slot)    // % 66 == slot
	binary.BigEndian.PutUint64(u[0:8], high)
	binary.BigEndian.PutUint64(u[8:16], low)
	return u
}

type rawSlot struct {
	seg    int
	block  int
	slot   int
	handle sop.Handle
}

// readRaw decodes every non-zero slot of every segment file, independently of fs.
// It also reports blocks whose CRC does not match.
func (e *env) readRaw(t fataler) (slots []rawSlot, badBlocks []string) {
	m := encoding.NewHandleMarshaler()
	for seg := 1; ; seg++ {
		b, err := os.ReadFile(e.segPath(seg))
		if err != nil {
			break
		}
		for blk := 0; (blk+1)*blockSize <= len(b); blk++ {
			blkb := b[blk*blockSize : (blk+1)*blockSize]
			if allZero(blkb) {
				continue
			}
			if crc32.ChecksumIEEE(blkb[:blockSize-4]) != binary.LittleEndian.Uint32(blkb[blockSize-4:]) {
				badBlocks = append(badBlocks, fmt.Sprintf("seg%d/block%d", seg, blk))
			}
			for s := 0; s < slotsInBlock; s++ {
				sb := blkb[s*slotSize : (s+1)*slotSize]
				if allZero(sb) {
					continue
				}
				var h sop.Handle
				if err := m.Unmarshal(sb, &h); err != nil {
					t.Fatalf("raw slot seg%d block%d slot%d does not decode: %v", seg, blk, s, err)
				}
				slots = append(slots, rawSlot{seg, blk, s, h})
			}
		}
	}
	return
}

func allZero(b []byte) bool {
	for _, x := range b {
		if x != 0 {
			return false
		}
	}
	return true
}

func payloadH(hs ...sop.Handle) []sop.RegistryPayload[sop.Handle] {
	return []sop.RegistryPayload[sop.Handle]{{RegistryTable: table, IDs: hs}}
}

func payloadID(ids ...sop.UUID) []sop.RegistryPayload[sop.UUID] {
	return []sop.RegistryPayload[sop.UUID]{{RegistryTable: table, IDs: ids}}
}

func sortedIDs(m map[sop.UUID]sop.Handle) []sop.UUID {
	ids := make([]sop.UUID, 0, len(m))
	for id := range m {
		ids = append(ids, id)
	}
	sort.Slice(ids, func(i, j int) bool { return ids[i].String() < ids[j].String() })
	return ids
}

var _ = testing.Short

func osStat(p string) (os.FileInfo, error) { return os.Stat(p) }

// shardOf returns this process's shard index and the shard count (VERIF_SHARD / VERIF_SHARDS).
func shardOf() (int, int) {
	n, _ := strconv.Atoi(os.Getenv("VERIF_SHARDS"))
	i, _ := strconv.Atoi(os.Getenv("VERIF_SHARD"))
	if n <= 0 {
		return 0, 1
	}
	return i % n, n
}
