package fsreg

import (
	"fmt"
	"sync"
	"testing"

	"github.com/sharedcode/sop"
	"github.com/sharedcode/sop/cache"
	"github.com/sharedcode/sop/fs"
	"pgregory.net/rapid"

	"verif/harness/stats"
)

// TestC21_ConcurrentWriters: several registry users (own registry object and transaction id, shared L2 cache for
// the block locks - like the transactions of one process or of a cluster) add, update and remove DISJOINT ids that
// live in the same blocks, at the same time (real goroutines). Afterwards a cold reader must see exactly the union.
func TestC21_ConcurrentWriters(t *testing.T) {
	rec := stats.For("C21")
	rapid.Check(t, func(t *rapid.T) {
		mod := rapid.SampledFrom([]int{1, 2, 4}).Draw(t, "mod")
		nw := rapid.IntRange(2, 6).Draw(t, "writers")
		per := rapid.IntRange(2, 10).Draw(t, "perWriter")
		sameSlots := rapid.Bool().Draw(t, "collidingSlots")
		e := newEnv(t, mod)
		defer e.cleanup()
		l2 := cache.NewL2InMemoryCache()
		newReg := func(l2c sop.L2Cache) fs.Registry {
			rt, err := fs.NewReplicationTracker(ctx, []string{e.dir}, false, l2c)
			if err != nil {
				t.Fatalf("HARNESS-ERROR NewReplicationTracker: %v", err)
			}
			rt.SetTransactionID(sop.NewUUID())
			return fs.NewRegistry(true, mod, rt, l2c)
		}
		// the segment file exists and every writer owns some pre-added ids (to update / remove)
		want := map[sop.UUID]sop.Handle{}
		type plan struct {
			adds, updates []sop.Handle
			removes       []sop.UUID
		}
		plans := make([]plan, nw)
		var pre []sop.Handle
		salt := uint32(1)
		for w := 0; w < nw; w++ {
			for k := 0; k < per; k++ {
				slot := (w*per + k) % slotsInBlock
				if sameSlots {
					slot = k % 3
				}
				blk := rapid.IntRange(0, mod-1).Draw(t, fmt.Sprintf("blk%d.%d", w, k))
				salt++
				h := sop.Handle{LogicalID: mkID(mod, blk, slot, salt), PhysicalIDA: mkID(mod, blk, slot, salt+5000), Version: int32(w*100 + k)}
				switch rapid.IntRange(0, 3).Draw(t, fmt.Sprintf("kind%d.%d", w, k)) {
				case 0, 1:
					plans[w].adds = append(plans[w].adds, h)
					want[h.LogicalID] = h
				case 2:
					pre = append(pre, h)
					u := h
					u.Version += 1000
					u.IsActiveIDB = true
					u.PhysicalIDB = mkID(mod, blk, slot, salt+9000)
					plans[w].updates = append(plans[w].updates, u)
					want[h.LogicalID] = u
				default:
					pre = append(pre, h)
					plans[w].removes = append(plans[w].removes, h.LogicalID)
				}
			}
		}
		pre = append(pre, sop.Handle{LogicalID: mkID(mod, 0, 65, 99999), PhysicalIDA: mkID(mod, 0, 65, 99998)})
		want[pre[len(pre)-1].LogicalID] = pre[len(pre)-1]
		r0 := newReg(l2)
		if err := r0.Add(ctx, payloadH(pre...)); err != nil {
			t.Fatalf("HARNESS-ERROR seed add: %v", err)
		}
		r0.Close()
		var wg sync.WaitGroup
		errs := make([]error, nw)
		start := make(chan struct{})
		for w := 0; w < nw; w++ {
			wg.Add(1)
			go func(w int) {
				defer wg.Done()
				reg := newReg(l2)
				defer reg.Close()
				<-start
				p := plans[w]
				for i := 0; i < len(p.adds) || i < len(p.updates) || i < len(p.removes); i++ {
					if i < len(p.adds) {
						if err := reg.Add(ctx, payloadH(p.adds[i])); err != nil {
							errs[w] = fmt.Errorf("Add: %w", err)
							return
						}
					}
					if i < len(p.updates) {
						if err := reg.UpdateNoLocks(ctx, false, payloadH(p.updates[i])); err != nil {
							errs[w] = fmt.Errorf("UpdateNoLocks: %w", err)
							return
						}
					}
					if i < len(p.removes) {
						if err := reg.Remove(ctx, payloadID(p.removes[i])); err != nil {
							errs[w] = fmt.Errorf("Remove: %w", err)
							return
						}
					}
				}
			}(w)
		}
		close(start)
		wg.Wait()
		for w, err := range errs {
			if err != nil {
				t.Fatalf("writer %d (ids disjoint from every other writer's): %v", w, err)
			}
		}
		// cold reader
		cold := newReg(cache.NewL2InMemoryCache())
		defer cold.Close()
		var ids []sop.UUID
		for _, h := range pre {
			ids = append(ids, h.LogicalID)
		}
		for _, p := range plans {
			for _, h := range p.adds {
				ids = append(ids, h.LogicalID)
			}
		}
		got, err := cold.Get(ctx, payloadID(ids...))
		if err != nil {
			t.Fatalf("cold Get: %v", err)
		}
		found := map[sop.UUID]sop.Handle{}
		for _, p := range got {
			for _, h := range p.IDs {
				found[h.LogicalID] = h
			}
		}
		for id, h := range want {
			g, ok := found[id]
			if !ok {
				t.Fatalf("%d concurrent writers on disjoint ids (mod %d): id %v was written (the call returned nil) but a cold lookup finds nothing", nw, mod, id)
			}
			if g != h {
				t.Fatalf("%d concurrent writers on disjoint ids (mod %d): id %v reads %+v, want %+v", nw, mod, id, g, h)
			}
		}
		if len(found) != len(want) {
			t.Fatalf("%d concurrent writers on disjoint ids: a cold lookup returns %d handles, want %d (a removed id came back?)", nw, len(found), len(want))
		}
		rec.Case(fmt.Sprintf("conc mod=%d w=%d per=%d same=%v %d", mod, nw, per, sameSlots, salt), true, "concurrentWriters", fmt.Sprintf("writers%d", nw))
	})
}

// TestC21_Regress_ConcurrentAddsIntoOneProbeSequence: six registry users add ids whose ideal slots are 0, 1 and 2 of
// one block, so every add probes into the same run of slots. On the pinned tree an add picked its free slot before
// it held the slot's lock and did not look again: two adds wrote the same slot and one handle was lost although
// both calls returned nil (fixed in /repo, see known_findings.json).
func TestC21_Regress_ConcurrentAddsIntoOneProbeSequence(t *testing.T) {
	for round := 0; round < 6; round++ {
		e := newEnv(t, 1)
		l2 := cache.NewL2InMemoryCache()
		newReg := func(l2c sop.L2Cache) fs.Registry {
			rt, err := fs.NewReplicationTracker(ctx, []string{e.dir}, false, l2c)
			if err != nil {
				t.Fatalf("HARNESS-ERROR %v", err)
			}
			rt.SetTransactionID(sop.NewUUID())
			return fs.NewRegistry(true, 1, rt, l2c)
		}
		first := sop.Handle{LogicalID: mkID(1, 0, 65, 99999), PhysicalIDA: mkID(1, 0, 65, 99998)}
		r0 := newReg(l2)
		if err := r0.Add(ctx, payloadH(first)); err != nil {
			t.Fatalf("HARNESS-ERROR %v", err)
		}
		r0.Close()
		const writers, per = 6, 8
		all := []sop.Handle{first}
		plans := make([][]sop.Handle, writers)
		for w := 0; w < writers; w++ {
			for k := 0; k < per; k++ {
				salt := uint32(w*per + k + 1)
				h := sop.Handle{LogicalID: mkID(1, 0, k%3, salt), PhysicalIDA: mkID(1, 0, k%3, salt+5000), Version: int32(salt)}
				plans[w] = append(plans[w], h)
				all = append(all, h)
			}
		}
		var wg sync.WaitGroup
		errs := make([]error, writers)
		start := make(chan struct{})
		for w := 0; w < writers; w++ {
			wg.Add(1)
			go func(w int) {
				defer wg.Done()
				reg := newReg(l2)
				defer reg.Close()
				<-start
				for _, h := range plans[w] {
					if err := reg.Add(ctx, payloadH(h)); err != nil {
						errs[w] = err
						return
					}
				}
			}(w)
		}
		close(start)
		wg.Wait()
		for w, err := range errs {
			if err != nil {
				t.Fatalf("writer %d: Add: %v", w, err)
			}
		}
		cold := newReg(cache.NewL2InMemoryCache())
		var ids []sop.UUID
		for _, h := range all {
			ids = append(ids, h.LogicalID)
		}
		got, err := cold.Get(ctx, payloadID(ids...))
		cold.Close()
		if err != nil {
			t.Fatalf("cold Get: %v", err)
		}
		n := 0
		for _, p := range got {
			n += len(p.IDs)
		}
		e.cleanup()
		if n != len(all) {
			t.Fatalf("round %d: %d handles were added by %d concurrent registry users (every Add returned nil), a cold lookup finds %d", round, len(all), writers, n)
		}
	}
}
