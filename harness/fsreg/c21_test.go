package fsreg

import (
	"fmt"
	"sort"
	"strings"
	"testing"

	"github.com/sharedcode/sop"
	"github.com/sharedcode/sop/fs"
	"pgregory.net/rapid"

	"verif/harness/stats"
)

// findOrder returns the positions in the order the registry probes them inside one
// block: ideal slot first, then 0..65 skipping the ideal slot.
func findOrder(ideal int) []int {
	o := []int{ideal}
	for s := 0; s < slotsInBlock; s++ {
		if s != ideal {
			o = append(o, s)
		}
	}
	return o
}

// displaced reports whether id's record is preceded, in probe order, by a free slot
// (same block of an earlier segment, or an earlier-probed slot of its own block).
func displaced(slots []rawSlot, nseg int, mod int, id sop.UUID) bool {
	high, low := id.Split()
	blk := int(high % uint64(mod))
	ideal := int(low % slotsInBlock)
	occ := map[[3]int]sop.UUID{}
	var at *[3]int
	for _, s := range slots {
		occ[[3]int{s.seg, s.block, s.slot}] = s.handle.LogicalID
		if s.handle.LogicalID == id {
			p := [3]int{s.seg, s.block, s.slot}
			at = &p
		}
	}
	if at == nil {
		return false
	}
	for seg := 1; seg <= nseg; seg++ {
		for _, s := range findOrder(ideal) {
			p := [3]int{seg, blk, s}
			if p == *at {
				return false
			}
			if _, used := occ[p]; !used {
				return true
			}
		}
	}
	return false
}

func genHandleFor(t *rapid.T, id sop.UUID, label string) sop.Handle {
	h := sop.Handle{LogicalID: id}
	h.PhysicalIDA = drawUUID(t, label+".a")
	if rapid.Bool().Draw(t, label+".hasB") {
		h.PhysicalIDB = drawUUID(t, label+".b")
	}
	h.IsActiveIDB = rapid.Bool().Draw(t, label+".activeB")
	h.Version = rapid.Int32Range(0, 1000).Draw(t, label+".ver")
	h.IsDeleted = rapid.IntRange(0, 9).Draw(t, label+".del") == 0
	if rapid.Bool().Draw(t, label+".wip") {
		h.WorkInProgressTimestamp = rapid.Int64Range(1, 1<<40).Draw(t, label+".wipts")
	}
	return h
}

type c21case struct {
	mod   int
	pool  []sop.UUID
	trace []string
}

// TestC21_RegistryIsMap: model-based state machine over the real on-disk registry.
func TestC21_RegistryIsMap(t *testing.T) {
	rec := stats.For("C21").Meta("exploration",
		"state machine Add/Update/UpdateNoLocks/Remove/Get(warm)/Get(cold, new registry + empty L2) over ids constructed to share block and ideal slot, hash modulus 1-4, bulk adds > 66 per block (overflow segments); oracle map[id]handle + raw slot census; non-trivial = an Update/Remove/Get touched a displaced entry (a free slot precedes the record in probe order); distinct by action trace",
		"in-memory L2 cache stands in for Redis", "one registry user at a time (no concurrent writers in this property)")
	knownDisplaced := stats.Known("C21", "displaced-entry-update-remove")
	rapid.Check(t, func(t *rapid.T) {
		mod := rapid.SampledFrom([]int{1, 1, 2, 3, 4}).Draw(t, "mod")
		e := newEnv(t, mod)
		defer e.cleanup()
		// id pool: few blocks, few ideal slots, many salts => collisions everywhere
		nblocks := rapid.IntRange(1, mod).Draw(t, "nblocks")
		slotChoices := rapid.SliceOfNDistinct(rapid.SampledFrom([]int{0, 1, 2, 33, 64, 65}), 1, 3, rapid.ID[int]).Draw(t, "slots")
		poolN := rapid.IntRange(3, 160).Draw(t, "poolN")
		pool := make([]sop.UUID, poolN)
		for i := range pool {
			pool[i] = mkID(mod, i%nblocks, slotChoices[(i/nblocks)%len(slotChoices)], uint32(i+1))
		}
		reg, _ := e.open(t)
		defer func() { reg.Close() }()
		model := map[sop.UUID]sop.Handle{}
		var trace []string
		sawDisplaced := false
		labels := map[string]bool{}

		absent := func() []sop.UUID {
			var a []sop.UUID
			for _, id := range pool {
				if _, ok := model[id]; !ok {
					a = append(a, id)
				}
			}
			return a
		}
		present := func() []sop.UUID {
			var a []sop.UUID
			for _, id := range pool {
				if _, ok := model[id]; ok {
					a = append(a, id)
				}
			}
			return a
		}
		nsegs := func() int {
			n := 0
			for {
				if _, err := osStat(e.segPath(n + 1)); err != nil {
					return n
				}
				n++
			}
		}
		isDisplaced := func(id sop.UUID) bool {
			slots, _ := e.readRaw(t)
			return displaced(slots, nsegs(), mod, id)
		}
		pickSome := func(t *rapid.T, from []sop.UUID, max int, label string) []sop.UUID {
			n := rapid.IntRange(1, min(max, len(from))).Draw(t, label+".n")
			idx := rapid.SliceOfNDistinct(rapid.IntRange(0, len(from)-1), n, n, rapid.ID[int]).Draw(t, label+".idx")
			out := make([]sop.UUID, n)
			for i, j := range idx {
				out[i] = from[j]
			}
			return out
		}
		checkGet := func(t *rapid.T, r fs.Registry, ids []sop.UUID, how string) {
			got, err := r.Get(ctx, payloadID(ids...))
			if err != nil {
				t.Fatalf("%s Get(%v) error: %v\ntrace:\n%s", how, ids, err, strings.Join(trace, "\n"))
			}
			gm := map[sop.UUID]sop.Handle{}
			for _, p := range got {
				for _, h := range p.IDs {
					if _, dup := gm[h.LogicalID]; dup {
						t.Fatalf("%s Get returned id %v twice\ntrace:\n%s", how, h.LogicalID, strings.Join(trace, "\n"))
					}
					gm[h.LogicalID] = h
				}
			}
			for _, id := range ids {
				want, ok := model[id]
				g, gok := gm[id]
				if ok != gok {
					t.Fatalf("%s Get(%v): present in model=%v, returned=%v (returned %+v)\ntrace:\n%s", how, id, ok, gok, g, strings.Join(trace, "\n"))
				}
				if ok && g != want {
					t.Fatalf("%s Get(%v):\n got  %+v\n want %+v\ntrace:\n%s", how, id, g, want, strings.Join(trace, "\n"))
				}
			}
			if len(gm) > len(ids) {
				t.Fatalf("%s Get returned ids not asked for", how)
			}
		}
		fullCheck := func(t *rapid.T) {
			cold, _ := e.open(t)
			defer cold.Close()
			checkGet(t, cold, pool, "cold")
			slots, bad := e.readRaw(t)
			if len(bad) > 0 {
				t.Fatalf("blocks with a bad checksum on disk: %v\ntrace:\n%s", bad, strings.Join(trace, "\n"))
			}
			seen := map[sop.UUID]int{}
			for _, s := range slots {
				seen[s.handle.LogicalID]++
			}
			for id, n := range seen {
				if n > 1 {
					t.Fatalf("id %v has %d records on disk (a stale copy can reappear)\ntrace:\n%s", id, n, strings.Join(trace, "\n"))
				}
				if _, ok := model[id]; !ok {
					t.Fatalf("id %v is on disk but was removed / never added\ntrace:\n%s", id, strings.Join(trace, "\n"))
				}
			}
			if len(slots) != len(model) {
				t.Fatalf("%d non-zero slots on disk, model has %d ids\ntrace:\n%s", len(slots), len(model), strings.Join(trace, "\n"))
			}
		}

		t.Repeat(map[string]func(*rapid.T){
			"addBulk": func(t *rapid.T) {
				a := absent()
				if len(a) == 0 {
					t.Skip("pool exhausted")
				}
				big := rapid.IntRange(0, 3).Draw(t, "big") == 0
				max := 3
				if big {
					max = 80
				}
				ids := pickSome(t, a, max, "add")
				hs := make([]sop.Handle, len(ids))
				for i, id := range ids {
					hs[i] = genHandleFor(t, id, fmt.Sprintf("add%d", i))
				}
				trace = append(trace, fmt.Sprintf("Add %d ids %v", len(ids), short(ids)))
				if err := reg.Add(ctx, payloadH(hs...)); err != nil {
					t.Fatalf("Add(%v) error: %v\ntrace:\n%s", ids, err, strings.Join(trace, "\n"))
				}
				for _, h := range hs {
					model[h.LogicalID] = h
				}
				if nsegs() > 1 {
					labels["overflowSegment"] = true
				}
			},
			"update": func(t *rapid.T) {
				p := present()
				if len(p) == 0 {
					t.Skip("empty")
				}
				ids := pickSome(t, p, 3, "upd")
				if knownDisplaced {
					for _, id := range ids {
						if isDisplaced(id) {
							rec.Exclude("update of a displaced entry (known finding)")
							t.Skip("known finding class")
						}
					}
				}
				hs := make([]sop.Handle, len(ids))
				for i, id := range ids {
					hs[i] = genHandleFor(t, id, fmt.Sprintf("upd%d", i))
					if isDisplaced(id) {
						sawDisplaced = true
						labels["updateDisplaced"] = true
					}
				}
				locks := rapid.Bool().Draw(t, "withLocks")
				trace = append(trace, fmt.Sprintf("Update(locks=%v) %v", locks, short(ids)))
				var err error
				if locks {
					err = reg.Update(ctx, payloadH(hs...))
				} else {
					err = reg.UpdateNoLocks(ctx, rapid.Bool().Draw(t, "allOrNothing"), payloadH(hs...))
				}
				if err != nil {
					t.Fatalf("Update(%v) error: %v\ntrace:\n%s", ids, err, strings.Join(trace, "\n"))
				}
				for _, h := range hs {
					model[h.LogicalID] = h
				}
			},
			"remove": func(t *rapid.T) {
				p := present()
				if len(p) == 0 {
					t.Skip("empty")
				}
				ids := pickSome(t, p, 3, "rm")
				for _, id := range ids {
					if isDisplaced(id) {
						if knownDisplaced {
							rec.Exclude("remove of a displaced entry (known finding)")
							t.Skip("known finding class")
						}
						sawDisplaced = true
						labels["removeDisplaced"] = true
					}
				}
				trace = append(trace, fmt.Sprintf("Remove %v", short(ids)))
				if err := reg.Remove(ctx, payloadID(ids...)); err != nil {
					t.Fatalf("Remove of present ids %v failed: %v\ntrace:\n%s", ids, err, strings.Join(trace, "\n"))
				}
				for _, id := range ids {
					delete(model, id)
				}
			},
			"getWarm": func(t *rapid.T) {
				ids := pickSome(t, pool, 5, "get")
				for _, id := range ids {
					if isDisplaced(id) {
						sawDisplaced = true
						labels["getDisplaced"] = true
					}
				}
				trace = append(trace, fmt.Sprintf("Get(warm) %v", short(ids)))
				checkGet(t, reg, ids, "warm")
			},
			"getCold": func(t *rapid.T) {
				ids := pickSome(t, pool, 5, "getc")
				for _, id := range ids {
					if isDisplaced(id) {
						sawDisplaced = true
						labels["getDisplaced"] = true
					}
				}
				trace = append(trace, fmt.Sprintf("Get(cold) %v", short(ids)))
				cold, _ := e.open(t)
				checkGet(t, cold, ids, "cold")
				cold.Close()
			},
			"reopen": func(t *rapid.T) {
				trace = append(trace, "reopen")
				reg.Close()
				reg, _ = e.open(t)
			},
			"": func(t *rapid.T) { fullCheck(t) },
		})
		ls := make([]string, 0, len(labels))
		for l := range labels {
			ls = append(ls, l)
		}
		sort.Strings(ls)
		ls = append(ls, fmt.Sprintf("mod%d", mod))
		rec.Case(fmt.Sprintf("mod=%d pool=%d %s", mod, poolN, strings.Join(trace, ";")), sawDisplaced, ls...)
		if sawDisplaced {
			rec.Sample("displaced", c21sample(mod, poolN, trace))
		} else {
			rec.Sample("plain", c21sample(mod, poolN, trace))
		}
	})
}

func c21sample(mod, pool int, trace []string) map[string]any {
	tr := trace
	if len(tr) > 12 {
		tr = append(append([]string{}, tr[:12]...), fmt.Sprintf("... %d more", len(trace)-12))
	}
	return map[string]any{"mod": mod, "pool": pool, "trace": tr}
}

func short(ids []sop.UUID) string {
	var sb strings.Builder
	for i, id := range ids {
		if i > 0 {
			sb.WriteByte(',')
		}
		if i >= 6 {
			fmt.Fprintf(&sb, "+%d", len(ids)-i)
			break
		}
		high, low := id.Split()
		fmt.Fprintf(&sb, "%x:%x", high, low)
	}
	return sb.String()
}

func drawUUID(t *rapid.T, label string) sop.UUID {
	var u sop.UUID
	copy(u[:], rapid.SliceOfN(rapid.Byte(), 16, 16).Draw(t, label))
	return u
}
