package lib

// C29 - built-in key comparison is a total order consistent with natural order.
//
// Subject: btree.Compare and btree.CoerceComparer (/repo/btree/comparer.go). The set of types
// is exactly the one comparer.go type-switches on (= btree.IsPrimitive plus []any):
//   int int8 int16 int32 int64 uint uint8 uint16 uint32 uint64 uintptr float32 float64 string
//   uuid.UUID sop.UUID time.Time []any []byte []string []int []float64 []float32
// Nothing is asserted about other types (they fall through to fmt.Sprintf), about nil, or about
// two values of different dynamic type.
//
// Oracle, over a generated triple of one type:
//   reflexive      sign(Compare(x,x)) == 0
//   antisymmetric  sign(Compare(x,y)) == -sign(Compare(y,x))
//   transitive     x<=y && y<=z => x<=z, strict when one premise is strict (all 27 index triples)
//   natural order  sign(Compare(x,y)) == independently written order, whenever that order is
//                  defined. It is NOT defined when a NaN takes part in the deciding position:
//                  for NaN only the three axioms above are asserted (a consistent placement).
//   coercion       sign(CoerceComparer(w)(x,y)) == sign(Compare(x,y)) for every w of the triple

import (
	"fmt"
	"math"
	"strings"
	"testing"
	"time"
	"unicode/utf8"

	"github.com/google/uuid"
	"github.com/sharedcode/sop"
	"github.com/sharedcode/sop/btree"
	"pgregory.net/rapid"

	"verif/harness/stats"
)

// c29Dom is one key type: generator, near-equal mutation, independent natural order.
type c29Dom struct {
	name string
	gen  func(t *rapid.T) any
	near func(t *rapid.T, v any) any
	// ref is the natural order written without btree/cmp; ok=false when undefined (NaN involved).
	ref    func(a, b any) (sign int, ok bool)
	edge   func(v any) bool
	hasNaN func(v any) bool
	render func(v any) string
	// key turns the generated (possibly wrapped) value into what SOP receives; nil = identity.
	key func(v any) any
}

func c29Sign(i int) int {
	switch {
	case i < 0:
		return -1
	case i > 0:
		return 1
	}
	return 0
}

// ---------------------------------------------------------------- integers

type c29Integer interface {
	~int | ~int8 | ~int16 | ~int32 | ~int64 | ~uint | ~uint8 | ~uint16 | ~uint32 | ~uint64 | ~uintptr
}

func c29IntDom[T c29Integer](name string, lo, hi T) *c29Dom {
	minusOne := T(0)
	minusOne-- // -1 for signed, max for unsigned
	edges := []T{lo, lo + 1, lo + 2, 0, 1, 2, minusOne, hi - 1, hi, hi / 2, hi/2 + 1, lo / 2}
	isEdge := func(v T) bool {
		for _, e := range edges {
			if v == e {
				return true
			}
		}
		return false
	}
	return &c29Dom{
		name: name,
		gen: func(t *rapid.T) any {
			if rapid.IntRange(0, 9).Draw(t, "intKind") < 4 {
				return rapid.SampledFrom(edges).Draw(t, "edge")
			}
			return T(rapid.Uint64().Draw(t, "bits")) // truncating conversion: every bit pattern of T
		},
		near: func(t *rapid.T, v any) any {
			x := v.(T)
			switch rapid.IntRange(0, 3).Draw(t, "intNear") {
			case 0:
				return x + 1 // wraps at the top: max+1 = min is a useful far pair
			case 1:
				return x - 1
			case 2:
				return x ^ (T(1) << uint(rapid.IntRange(0, 7).Draw(t, "bit")))
			}
			return x
		},
		ref: func(a, b any) (int, bool) {
			x, y := a.(T), b.(T)
			if x < y {
				return -1, true
			}
			if x > y {
				return 1, true
			}
			return 0, true
		},
		edge:   func(v any) bool { return isEdge(v.(T)) },
		hasNaN: func(any) bool { return false },
		render: func(v any) string { return fmt.Sprintf("%d", v.(T)) },
	}
}

func c29IntDoms() []*c29Dom {
	return []*c29Dom{
		c29IntDom[int]("int", math.MinInt, math.MaxInt),
		c29IntDom[int8]("int8", math.MinInt8, math.MaxInt8),
		c29IntDom[int16]("int16", math.MinInt16, math.MaxInt16),
		c29IntDom[int32]("int32", math.MinInt32, math.MaxInt32),
		c29IntDom[int64]("int64", math.MinInt64, math.MaxInt64),
		c29IntDom[uint]("uint", 0, math.MaxUint),
		c29IntDom[uint8]("uint8", 0, math.MaxUint8),
		c29IntDom[uint16]("uint16", 0, math.MaxUint16),
		c29IntDom[uint32]("uint32", 0, math.MaxUint32),
		c29IntDom[uint64]("uint64", 0, math.MaxUint64),
		c29IntDom[uintptr]("uintptr", 0, ^uintptr(0)),
	}
}

// ---------------------------------------------------------------- floats

func c29Float64Dom() *c29Dom {
	bits := []uint64{
		0x7ff8000000000001, 0x7ff8000000000000, 0xfff8000000000001, 0x7ff0000000000001, // NaNs: quiet, default, negative, signalling
		0x0000000000000000, 0x8000000000000000, // +0 -0
		0x7ff0000000000000, 0xfff0000000000000, // +Inf -Inf
		0x0000000000000001, 0x8000000000000001, // smallest subnormals
		0x000fffffffffffff, 0x0010000000000000, // largest subnormal, smallest normal
		0x7fefffffffffffff, 0xffefffffffffffff, // +-MaxFloat64
	}
	edges := make([]float64, 0, len(bits)+10)
	for _, b := range bits {
		edges = append(edges, math.Float64frombits(b))
	}
	// values an integer truncation would confuse, and the 2^53 neighbourhood
	edges = append(edges, 1, -1, 0.5, 0.25, -0.5, -0.25, 1.5, 9007199254740992, 9007199254740993, 1e300)
	isEdge := func(f float64) bool {
		return f != f || f == 0 || math.IsInf(f, 0) || math.Abs(f) < 0x1p-1022 || math.Abs(f) == math.MaxFloat64 ||
			(math.Abs(f) < 2 && f != math.Trunc(f))
	}
	return &c29Dom{
		name: "float64",
		gen: func(t *rapid.T) any {
			switch k := rapid.IntRange(0, 9).Draw(t, "f64Kind"); {
			case k < 4:
				return rapid.SampledFrom(edges).Draw(t, "edge")
			case k < 7:
				return math.Float64frombits(rapid.Uint64().Draw(t, "bits"))
			}
			return rapid.Float64().Draw(t, "f")
		},
		near: func(t *rapid.T, v any) any {
			x := v.(float64)
			switch rapid.IntRange(0, 4).Draw(t, "f64Near") {
			case 0:
				return math.Nextafter(x, math.Inf(1))
			case 1:
				return math.Nextafter(x, math.Inf(-1))
			case 2:
				return math.Float64frombits(math.Float64bits(x) ^ (1 << 63)) // flip the sign bit (+0/-0, +NaN/-NaN)
			case 3:
				return math.Float64frombits(math.Float64bits(x) ^ 1)
			}
			return x
		},
		ref: func(a, b any) (int, bool) {
			x, y := a.(float64), b.(float64)
			if x != x || y != y {
				return 0, false
			}
			if x < y {
				return -1, true
			}
			if x > y {
				return 1, true
			}
			return 0, true // includes -0 == +0
		},
		edge:   func(v any) bool { return isEdge(v.(float64)) },
		hasNaN: func(v any) bool { f := v.(float64); return f != f },
		render: func(v any) string { return fmt.Sprintf("%016x", math.Float64bits(v.(float64))) },
	}
}

func c29Float32Dom() *c29Dom {
	bits := []uint32{
		0x7fc00001, 0x7fc00000, 0xffc00001, 0x7f800001,
		0x00000000, 0x80000000,
		0x7f800000, 0xff800000,
		0x00000001, 0x80000001,
		0x007fffff, 0x00800000,
		0x7f7fffff, 0xff7fffff,
	}
	edges := make([]float32, 0, len(bits)+10)
	for _, b := range bits {
		edges = append(edges, math.Float32frombits(b))
	}
	edges = append(edges, 1, -1, 0.5, 0.25, -0.5, -0.25, 1.5, 16777216, 16777218, 1e30)
	isEdge := func(f float32) bool {
		a := float32(math.Abs(float64(f)))
		return f != f || f == 0 || math.IsInf(float64(f), 0) || a < 0x1p-126 || a == math.MaxFloat32 ||
			(a < 2 && float64(f) != math.Trunc(float64(f)))
	}
	return &c29Dom{
		name: "float32",
		gen: func(t *rapid.T) any {
			switch k := rapid.IntRange(0, 9).Draw(t, "f32Kind"); {
			case k < 4:
				return rapid.SampledFrom(edges).Draw(t, "edge")
			case k < 7:
				return math.Float32frombits(rapid.Uint32().Draw(t, "bits"))
			}
			return rapid.Float32().Draw(t, "f")
		},
		near: func(t *rapid.T, v any) any {
			x := v.(float32)
			switch rapid.IntRange(0, 4).Draw(t, "f32Near") {
			case 0:
				return math.Nextafter32(x, float32(math.Inf(1)))
			case 1:
				return math.Nextafter32(x, float32(math.Inf(-1)))
			case 2:
				return math.Float32frombits(math.Float32bits(x) ^ (1 << 31))
			case 3:
				return math.Float32frombits(math.Float32bits(x) ^ 1)
			}
			return x
		},
		ref: func(a, b any) (int, bool) {
			x, y := a.(float32), b.(float32)
			if x != x || y != y {
				return 0, false
			}
			if x < y {
				return -1, true
			}
			if x > y {
				return 1, true
			}
			return 0, true
		},
		edge:   func(v any) bool { return isEdge(v.(float32)) },
		hasNaN: func(v any) bool { f := v.(float32); return f != f },
		render: func(v any) string { return fmt.Sprintf("%08x", math.Float32bits(v.(float32))) },
	}
}

// ---------------------------------------------------------------- strings, ids, times

// c29BytesOrder is byte-wise lexicographic order, shorter-is-smaller on a common prefix.
func c29BytesOrder(x, y []byte) int {
	for i := 0; i < len(x) && i < len(y); i++ {
		if x[i] < y[i] {
			return -1
		}
		if x[i] > y[i] {
			return 1
		}
	}
	if len(x) < len(y) {
		return -1
	}
	if len(x) > len(y) {
		return 1
	}
	return 0
}

func c29StringDom() *c29Dom {
	edges := []string{"", "\x00", "\x00\x00", "\xff", "\xff\xff", "a", "a\x00", "A", "b", "\xc3\x28", "\xc3\xa9", "e\xcc\x81",
		"\xed\xa0\x80", "\xf4\x90\x80\x80", "10", "9", "abc", "abd", "ab", strings.Repeat("x", 40), strings.Repeat("x", 40) + "y"}
	isEdge := func(s string) bool {
		return s == "" || strings.IndexByte(s, 0) >= 0 || strings.IndexByte(s, 0xff) >= 0 || !utf8.ValidString(s)
	}
	return &c29Dom{
		name: "string",
		gen: func(t *rapid.T) any {
			switch k := rapid.IntRange(0, 9).Draw(t, "strKind"); {
			case k < 3:
				return rapid.SampledFrom(edges).Draw(t, "edge")
			case k < 7:
				return string(rapid.SliceOfN(rapid.Byte(), 0, 6).Draw(t, "bytes")) // arbitrary bytes, mostly invalid UTF-8
			}
			return rapid.String().Draw(t, "s")
		},
		near: func(t *rapid.T, v any) any {
			s := v.(string)
			b := []byte(s)
			switch rapid.IntRange(0, 4).Draw(t, "strNear") {
			case 0:
				return string(append(b, rapid.Byte().Draw(t, "app")))
			case 1:
				if len(b) > 0 {
					return string(b[:len(b)-1])
				}
			case 2:
				if len(b) > 0 {
					i := rapid.IntRange(0, len(b)-1).Draw(t, "pos")
					b[i] ^= 1 << uint(rapid.IntRange(0, 7).Draw(t, "bit"))
					return string(b)
				}
			case 3:
				return s + "\x00"
			}
			return string(b)
		},
		ref:    func(a, b any) (int, bool) { return c29BytesOrder([]byte(a.(string)), []byte(b.(string))), true },
		edge:   func(v any) bool { return isEdge(v.(string)) },
		hasNaN: func(any) bool { return false },
		render: func(v any) string { return fmt.Sprintf("%q", v.(string)) },
	}
}

func c29Draw16(t *rapid.T) [16]byte {
	var u [16]byte
	switch rapid.IntRange(0, 6).Draw(t, "idKind") {
	case 0: // nil id
	case 1:
		for i := range u {
			u[i] = 0xff
		}
	case 2:
		u[rapid.IntRange(0, 15).Draw(t, "byte")] = 1 << uint(rapid.IntRange(0, 7).Draw(t, "bit"))
	case 3: // differs from nil only in the last byte / first byte (word boundary 7|8 as well)
		u[rapid.SampledFrom([]int{0, 7, 8, 15}).Draw(t, "pos")] = rapid.Byte().Draw(t, "val")
	default:
		copy(u[:], rapid.SliceOfN(rapid.Byte(), 16, 16).Draw(t, "id"))
	}
	return u
}

func c29Near16(t *rapid.T, u [16]byte) [16]byte {
	switch rapid.IntRange(0, 2).Draw(t, "idNear") {
	case 0:
		u[rapid.IntRange(0, 15).Draw(t, "byte")] ^= 1 << uint(rapid.IntRange(0, 7).Draw(t, "bit"))
	case 1: // swap two bytes: same multiset of bytes, different order
		i, j := rapid.IntRange(0, 15).Draw(t, "i"), rapid.IntRange(0, 15).Draw(t, "j")
		u[i], u[j] = u[j], u[i]
	}
	return u
}

func c29Edge16(u [16]byte) bool {
	zeros, ones := 0, 0
	for _, b := range u {
		if b == 0 {
			zeros++
		}
		if b == 0xff {
			ones++
		}
	}
	return zeros >= 15 || ones == 16
}

func c29GoogleUUIDDom() *c29Dom {
	return &c29Dom{
		name: "uuid.UUID",
		gen:  func(t *rapid.T) any { return uuid.UUID(c29Draw16(t)) },
		near: func(t *rapid.T, v any) any { return uuid.UUID(c29Near16(t, [16]byte(v.(uuid.UUID)))) },
		ref: func(a, b any) (int, bool) {
			x, y := [16]byte(a.(uuid.UUID)), [16]byte(b.(uuid.UUID))
			return c29BytesOrder(x[:], y[:]), true
		},
		edge:   func(v any) bool { return c29Edge16([16]byte(v.(uuid.UUID))) },
		hasNaN: func(any) bool { return false },
		render: func(v any) string { u := v.(uuid.UUID); return fmt.Sprintf("%x", u[:]) },
	}
}

func c29SopUUIDDom() *c29Dom {
	return &c29Dom{
		name: "sop.UUID",
		gen:  func(t *rapid.T) any { return sop.UUID(c29Draw16(t)) },
		near: func(t *rapid.T, v any) any { return sop.UUID(c29Near16(t, [16]byte(v.(sop.UUID)))) },
		ref: func(a, b any) (int, bool) {
			x, y := [16]byte(a.(sop.UUID)), [16]byte(b.(sop.UUID))
			return c29BytesOrder(x[:], y[:]), true
		},
		edge:   func(v any) bool { return c29Edge16([16]byte(v.(sop.UUID))) },
		hasNaN: func(any) bool { return false },
		render: func(v any) string { u := v.(sop.UUID); return fmt.Sprintf("%x", u[:]) },
	}
}

// c29Base carries a monotonic clock reading. It is read once per process and is never part of
// an oracle: relative times are base.Add(d) and the reference order compares (sec, nsec) of the
// instant, which for two values derived from the same base is decided by d alone.
var c29Base = time.Now()

func c29Zones() []*time.Location {
	return []*time.Location{time.UTC, time.FixedZone("p14", 14*3600), time.FixedZone("m12", -12*3600),
		time.FixedZone("odd", 5*3600+45*60+7), time.FixedZone("", 0)}
}

// c29Time is a generated time with a replayable rendering (the monotonic base is not rendered).
type c29Time struct {
	tm   time.Time
	desc string
	edge bool
}

func c29TimeDom() *c29Dom {
	zones := c29Zones()
	secEdges := []int64{0, -1, 1, -62135596800, -62135596801, 253402300799, 253402300800, 1 << 31, 1<<31 - 1, -(1 << 31), 1 << 33, -1 << 40, 1 << 50, -(1 << 50)}
	nsecEdges := []int64{0, 1, 999999999, 500000000}
	mk := func(t *rapid.T) c29Time {
		zi := rapid.IntRange(0, len(zones)-1).Draw(t, "zone")
		switch k := rapid.IntRange(0, 9).Draw(t, "timeKind"); {
		case k == 0:
			return c29Time{time.Time{}, "zero", true}
		case k < 4: // absolute, edge seconds
			s := rapid.SampledFrom(secEdges).Draw(t, "sec")
			n := rapid.SampledFrom(nsecEdges).Draw(t, "nsec")
			return c29Time{time.Unix(s, n).In(zones[zi]), fmt.Sprintf("unix(%d,%d)@z%d", s, n, zi), true}
		case k < 7: // absolute, anywhere within +-2^50 s (no overflow of time's internal seconds)
			s := rapid.Int64Range(-(1 << 50), 1<<50).Draw(t, "sec")
			n := rapid.Int64Range(0, 999999999).Draw(t, "nsec")
			return c29Time{time.Unix(s, n).In(zones[zi]), fmt.Sprintf("unix(%d,%d)@z%d", s, n, zi), false}
		default: // relative to the process base: carries a monotonic reading unless stripped
			d := rapid.Int64Range(-3, 3).Draw(t, "dSmall")
			if rapid.Bool().Draw(t, "dLarge") {
				d = rapid.Int64Range(-1e12, 1e12).Draw(t, "d")
			}
			tm := c29Base.Add(time.Duration(d))
			strip := rapid.Bool().Draw(t, "strip")
			if strip {
				tm = tm.Round(0) // drops the monotonic reading
			}
			return c29Time{tm.In(zones[zi]), fmt.Sprintf("base+%d,strip=%v@z%d", d, strip, zi), true}
		}
	}
	return &c29Dom{
		name: "time.Time",
		gen:  func(t *rapid.T) any { return mk(t) },
		near: func(t *rapid.T, v any) any {
			x := v.(c29Time)
			switch rapid.IntRange(0, 3).Draw(t, "timeNear") {
			case 0:
				zi := rapid.IntRange(0, len(zones)-1).Draw(t, "zone") // same instant, other zone
				return c29Time{x.tm.In(zones[zi]), x.desc + fmt.Sprintf("->z%d", zi), true}
			case 1:
				d := rapid.SampledFrom([]int64{-1, 1, -1e9, 1e9}).Draw(t, "shift")
				return c29Time{x.tm.Add(time.Duration(d)), x.desc + fmt.Sprintf("%+d", d), x.edge}
			case 2:
				return c29Time{x.tm.Round(0), x.desc + ".round0", true} // same instant without monotonic reading
			}
			return x
		},
		ref: func(a, b any) (int, bool) {
			x, y := a.(c29Time).tm, b.(c29Time).tm
			xs, ys := x.Unix(), y.Unix()
			if xs != ys {
				if xs < ys {
					return -1, true
				}
				return 1, true
			}
			xn, yn := x.Nanosecond(), y.Nanosecond()
			if xn < yn {
				return -1, true
			}
			if xn > yn {
				return 1, true
			}
			return 0, true
		},
		edge:   func(v any) bool { return v.(c29Time).edge },
		hasNaN: func(any) bool { return false },
		render: func(v any) string { return v.(c29Time).desc },
		key:    func(v any) any { return v.(c29Time).tm },
	}
}

// ---------------------------------------------------------------- sequences

// c29SeqDom builds a slice type whose position i holds a value of shape[i]. The reference order
// is element-wise by the element type's reference, then shorter-is-smaller; it is undefined as
// soon as the deciding element comparison is undefined.
func c29SeqDom(name string, shape []*c29Dom, build func(elems []any, isNil bool) any) *c29Dom {
	type seq struct {
		elems []any
		isNil bool
	}
	return &c29Dom{
		name: name,
		gen: func(t *rapid.T) any {
			n := rapid.IntRange(0, len(shape)).Draw(t, "len")
			s := seq{}
			for i := 0; i < n; i++ {
				s.elems = append(s.elems, shape[i].gen(t))
			}
			if n == 0 {
				s.isNil = rapid.Bool().Draw(t, "nilSlice")
			}
			return s
		},
		near: func(t *rapid.T, v any) any {
			old := v.(seq)
			s := seq{elems: append([]any{}, old.elems...)}
			switch rapid.IntRange(0, 4).Draw(t, "seqNear") {
			case 0: // longer by one: the old value is a proper prefix
				if len(s.elems) < len(shape) {
					s.elems = append(s.elems, shape[len(s.elems)].gen(t))
				}
			case 1: // proper prefix of the old value
				if len(s.elems) > 0 {
					s.elems = s.elems[:len(s.elems)-1]
				}
			case 2: // one element nudged
				if len(s.elems) > 0 {
					i := rapid.IntRange(0, len(s.elems)-1).Draw(t, "pos")
					s.elems[i] = shape[i].near(t, s.elems[i])
				}
			case 3: // longer AND smaller in an earlier element / shorter and larger: length must not win
				if len(s.elems) > 0 {
					i := rapid.IntRange(0, len(s.elems)-1).Draw(t, "pos")
					s.elems[i] = shape[i].near(t, s.elems[i])
					if len(s.elems) < len(shape) && rapid.Bool().Draw(t, "grow") {
						s.elems = append(s.elems, shape[len(s.elems)].gen(t))
					} else {
						s.elems = s.elems[:len(s.elems)-1]
					}
				}
			}
			if len(s.elems) == 0 {
				s.isNil = rapid.Bool().Draw(t, "nilSlice")
			}
			return s
		},
		ref: func(a, b any) (int, bool) {
			x, y := a.(seq).elems, b.(seq).elems
			for i := 0; i < len(x) && i < len(y); i++ {
				r, ok := shape[i].ref(x[i], y[i])
				if !ok {
					return 0, false
				}
				if r != 0 {
					return r, true
				}
			}
			if len(x) < len(y) {
				return -1, true
			}
			if len(x) > len(y) {
				return 1, true
			}
			return 0, true
		},
		edge: func(v any) bool {
			s := v.(seq)
			if len(s.elems) == 0 || len(s.elems) == len(shape) {
				return true
			}
			for i, e := range s.elems {
				if shape[i].edge(e) {
					return true
				}
			}
			return false
		},
		hasNaN: func(v any) bool {
			for i, e := range v.(seq).elems {
				if shape[i].hasNaN(e) {
					return true
				}
			}
			return false
		},
		render: func(v any) string {
			s := v.(seq)
			if s.isNil {
				return name + "(nil)"
			}
			parts := make([]string, len(s.elems))
			for i, e := range s.elems {
				parts[i] = shape[i].render(e)
			}
			return name + "[" + strings.Join(parts, ",") + "]"
		},
		key: func(v any) any { s := v.(seq); return build(s.elems, s.isNil) },
	}
}

func c29Key(d *c29Dom, v any) any {
	if d.key != nil {
		return d.key(v)
	}
	return v
}

func c29Repeat(d *c29Dom, n int) []*c29Dom {
	out := make([]*c29Dom, n)
	for i := range out {
		out[i] = d
	}
	return out
}

const c29MaxLen = 4

func c29TypedSliceDoms() []*c29Dom {
	u8 := c29IntDom[uint8]("uint8", 0, math.MaxUint8)
	in := c29IntDom[int]("int", math.MinInt, math.MaxInt)
	return []*c29Dom{
		c29SeqDom("[]byte", c29Repeat(u8, c29MaxLen), func(e []any, isNil bool) any {
			if isNil {
				return []byte(nil)
			}
			out := make([]byte, len(e))
			for i := range e {
				out[i] = e[i].(uint8)
			}
			return out
		}),
		c29SeqDom("[]string", c29Repeat(c29StringDom(), c29MaxLen), func(e []any, isNil bool) any {
			if isNil {
				return []string(nil)
			}
			out := make([]string, len(e))
			for i := range e {
				out[i] = e[i].(string)
			}
			return out
		}),
		c29SeqDom("[]int", c29Repeat(in, c29MaxLen), func(e []any, isNil bool) any {
			if isNil {
				return []int(nil)
			}
			out := make([]int, len(e))
			for i := range e {
				out[i] = e[i].(int)
			}
			return out
		}),
		c29SeqDom("[]float64", c29Repeat(c29Float64Dom(), c29MaxLen), func(e []any, isNil bool) any {
			if isNil {
				return []float64(nil)
			}
			out := make([]float64, len(e))
			for i := range e {
				out[i] = e[i].(float64)
			}
			return out
		}),
		c29SeqDom("[]float32", c29Repeat(c29Float32Dom(), c29MaxLen), func(e []any, isNil bool) any {
			if isNil {
				return []float32(nil)
			}
			out := make([]float32, len(e))
			for i := range e {
				out[i] = e[i].(float32)
			}
			return out
		}),
	}
}

// c29AnySliceDom draws a shape (one supported type per position; nested one level) and returns
// the []any domain over that shape.
func c29AnySliceDom(t *rapid.T, scalars, typedSlices []*c29Dom, nested bool) *c29Dom {
	n := rapid.IntRange(1, c29MaxLen).Draw(t, "shapeLen")
	shape := make([]*c29Dom, n)
	for i := range shape {
		k := rapid.IntRange(0, 9).Draw(t, "elemKind")
		switch {
		case nested && k == 0:
			shape[i] = c29AnySliceDom(t, scalars, typedSlices, false)
		case nested && k <= 2:
			shape[i] = rapid.SampledFrom(typedSlices).Draw(t, "elemSlice")
		default:
			shape[i] = rapid.SampledFrom(scalars).Draw(t, "elemScalar")
		}
	}
	names := make([]string, n)
	for i, s := range shape {
		names[i] = s.name
	}
	inner := shape
	return c29SeqDom("[]any<"+strings.Join(names, ";")+">", shape, func(e []any, isNil bool) any {
		if isNil {
			return []any(nil)
		}
		out := make([]any, len(e))
		for i := range e {
			out[i] = c29Key(inner[i], e[i])
		}
		return out
	})
}

// ---------------------------------------------------------------- the oracle

func c29CheckTriple(t *rapid.T, rec *stats.Rec, d *c29Dom, family string) {
	var v [3]any
	v[0] = d.gen(t)
	switch rapid.IntRange(0, 3).Draw(t, "bFrom") {
	case 0:
		v[1] = d.gen(t)
	case 1:
		v[1] = v[0]
	default:
		v[1] = d.near(t, v[0])
	}
	switch rapid.IntRange(0, 4).Draw(t, "cFrom") {
	case 0:
		v[2] = d.gen(t)
	case 1:
		v[2] = v[rapid.IntRange(0, 1).Draw(t, "copyOf")]
	case 2:
		v[2] = d.near(t, v[0])
	default:
		v[2] = d.near(t, v[1])
	}
	var k [3]any
	var r [3]string
	for i := range v {
		k[i] = c29Key(d, v[i])
		r[i] = d.render(v[i])
	}
	show := func(i int) string {
		if strings.HasPrefix(r[i], d.name) { // sequence renderings already carry the type
			return fmt.Sprintf("%s (%#v)", r[i], k[i])
		}
		return fmt.Sprintf("%s %s (%#v)", d.name, r[i], k[i])
	}

	var s [3][3]int
	for i := 0; i < 3; i++ {
		for j := 0; j < 3; j++ {
			s[i][j] = c29Sign(btree.Compare(k[i], k[j]))
		}
	}
	for i := 0; i < 3; i++ {
		if s[i][i] != 0 {
			t.Fatalf("not reflexive: Compare(x,x)=%d for x=%s", s[i][i], show(i))
		}
		// a second, separately built copy of the same value
		if c := c29Sign(btree.Compare(k[i], c29Key(d, v[i]))); c != 0 {
			t.Fatalf("not reflexive on an equal copy: %d for x=%s", c, show(i))
		}
	}
	for i := 0; i < 3; i++ {
		for j := 0; j < 3; j++ {
			if s[i][j] != -s[j][i] {
				t.Fatalf("not antisymmetric: Compare(x,y)=%d Compare(y,x)=%d\n x=%s\n y=%s", s[i][j], s[j][i], show(i), show(j))
			}
			if want, ok := d.ref(v[i], v[j]); ok && want != s[i][j] {
				t.Fatalf("disagrees with natural order: Compare(x,y)=%d, natural order says %d\n x=%s\n y=%s", s[i][j], want, show(i), show(j))
			}
		}
	}
	for i := 0; i < 3; i++ {
		for j := 0; j < 3; j++ {
			for l := 0; l < 3; l++ {
				if s[i][j] <= 0 && s[j][l] <= 0 {
					strict := s[i][j] < 0 || s[j][l] < 0
					if s[i][l] > 0 || (strict && s[i][l] == 0) {
						t.Fatalf("not transitive: Compare(x,y)=%d Compare(y,z)=%d but Compare(x,z)=%d\n x=%s\n y=%s\n z=%s",
							s[i][j], s[j][l], s[i][l], show(i), show(j), show(l))
					}
				}
			}
		}
	}
	for w := 0; w < 3; w++ {
		f := btree.CoerceComparer(k[w])
		for i := 0; i < 3; i++ {
			for j := 0; j < 3; j++ {
				if c := c29Sign(f(k[i], k[j])); c != s[i][j] {
					t.Fatalf("CoerceComparer(w)(x,y)=%d but Compare(x,y)=%d\n w=%s\n x=%s\n y=%s", c, s[i][j], show(w), show(i), show(j))
				}
			}
		}
	}

	// ---- what was generated
	edge := d.edge(v[0]) || d.edge(v[1]) || d.edge(v[2])
	equalPair := s[0][1] == 0 || s[0][2] == 0 || s[1][2] == 0
	nan := d.hasNaN(v[0]) || d.hasNaN(v[1]) || d.hasNaN(v[2])
	labels := []string{"family:" + family, "type:" + strings.SplitN(d.name, "<", 2)[0]}
	if edge {
		labels = append(labels, "hasEdge")
	}
	if equalPair {
		labels = append(labels, "hasEqualPair")
		if r[0] != r[1] && s[0][1] == 0 || r[0] != r[2] && s[0][2] == 0 || r[1] != r[2] && s[1][2] == 0 {
			labels = append(labels, "equalButDifferentRepresentation") // -0/+0, NaN payloads, nil/empty slice, zones
		}
	}
	if s[0][1] != 0 && s[0][2] != 0 && s[1][2] != 0 {
		labels = append(labels, "allDistinct")
	}
	if nan {
		labels = append(labels, "hasNaN")
		// where the implementation places NaN relative to comparable values (evidence only)
		for i := 0; i < 3; i++ {
			for j := 0; j < 3; j++ {
				if d.hasNaN(v[i]) && !d.hasNaN(v[j]) && strings.HasPrefix(d.name, "float") {
					labels = append(labels, fmt.Sprintf("NaN-vs-number:%d", s[i][j]))
				}
			}
		}
	}
	rec.Case(d.name+"|"+r[0]+"|"+r[1]+"|"+r[2], edge || equalPair, labels...)
	if nan {
		rec.Sample("nan:"+family, fmt.Sprintf("%s: %s %s %s -> signs %v", d.name, r[0], r[1], r[2], s))
	} else {
		rec.Sample(family, fmt.Sprintf("%s: %s %s %s -> signs %v", d.name, r[0], r[1], r[2], s))
	}
}

const c29Rule = "triple of one supported key type (b and c are copies / near-equal mutations / fresh draws); " +
	"non-trivial = the triple contains an edge value or two elements that compare equal; distinct by rendered triple"

func c29Meta() *stats.Rec {
	return stats.For("C29").Meta("exploration", c29Rule,
		"types = exactly those comparer.go switches on; nil, mixed dynamic types, Comparer implementations and the fmt.Sprintf fallback are not asserted",
		"natural order is asserted only where it is defined: when a NaN takes part in the deciding position only reflexivity, antisymmetry and transitivity are asserted",
		"time.Time values with a monotonic reading are derived from one time.Now() per process; the oracle compares (Unix seconds, nanosecond) of the instants",
		"times are kept within +-2^50 s of the epoch so that package time itself does not overflow")
}

func TestC29_Integers(t *testing.T) {
	rec := c29Meta()
	doms := c29IntDoms()
	rapid.Check(t, func(t *rapid.T) {
		d := doms[rapid.IntRange(0, len(doms)-1).Draw(t, "type")]
		c29CheckTriple(t, rec, d, "integer")
	})
}

func TestC29_Floats(t *testing.T) {
	rec := c29Meta()
	doms := []*c29Dom{c29Float64Dom(), c29Float32Dom()}
	rapid.Check(t, func(t *rapid.T) {
		d := doms[rapid.IntRange(0, len(doms)-1).Draw(t, "type")]
		c29CheckTriple(t, rec, d, "float")
	})
}

func TestC29_StringsIDsTimes(t *testing.T) {
	rec := c29Meta()
	doms := []*c29Dom{c29StringDom(), c29GoogleUUIDDom(), c29SopUUIDDom(), c29TimeDom()}
	rapid.Check(t, func(t *rapid.T) {
		d := doms[rapid.IntRange(0, len(doms)-1).Draw(t, "type")]
		c29CheckTriple(t, rec, d, "string-id-time")
	})
}

func TestC29_TypedSlices(t *testing.T) {
	rec := c29Meta()
	doms := c29TypedSliceDoms()
	rapid.Check(t, func(t *rapid.T) {
		d := doms[rapid.IntRange(0, len(doms)-1).Draw(t, "type")]
		c29CheckTriple(t, rec, d, "typed-slice")
	})
}

func TestC29_AnySlices(t *testing.T) {
	rec := c29Meta()
	scalars := append(c29IntDoms(), c29Float64Dom(), c29Float32Dom(), c29StringDom(), c29GoogleUUIDDom(), c29SopUUIDDom(), c29TimeDom())
	typed := c29TypedSliceDoms()
	rapid.Check(t, func(t *rapid.T) {
		d := c29AnySliceDom(t, scalars, typed, true)
		c29CheckTriple(t, rec, d, "any-slice")
	})
}
