package lib

import (
	"bytes"
	"fmt"
	"testing"

	"github.com/sharedcode/sop"
	"github.com/sharedcode/sop/encoding"
	"pgregory.net/rapid"

	"verif/harness/stats"
)

// genUUID draws ids over the whole 16-byte range with the edge ids (nil, all-ones,
// single-bit) well represented.
func genUUID() *rapid.Generator[sop.UUID] {
	return rapid.Custom(func(t *rapid.T) sop.UUID {
		var u sop.UUID
		switch rapid.IntRange(0, 5).Draw(t, "uuidKind") {
		case 0:
			return sop.NilUUID
		case 1:
			for i := range u {
				u[i] = 0xff
			}
		case 2:
			u[rapid.IntRange(0, 15).Draw(t, "byte")] = 1 << rapid.IntRange(0, 7).Draw(t, "bit")
		default:
			b := rapid.SliceOfN(rapid.Byte(), 16, 16).Draw(t, "uuid")
			copy(u[:], b)
		}
		return u
	})
}

func genHandle() *rapid.Generator[sop.Handle] {
	return rapid.Custom(func(t *rapid.T) sop.Handle {
		return sop.Handle{
			LogicalID:               genUUID().Draw(t, "lid"),
			PhysicalIDA:             genUUID().Draw(t, "a"),
			PhysicalIDB:             genUUID().Draw(t, "b"),
			IsActiveIDB:             rapid.Bool().Draw(t, "activeB"),
			Version:                 rapid.Int32().Draw(t, "version"),
			WorkInProgressTimestamp: rapid.Int64().Draw(t, "wip"),
			IsDeleted:               rapid.Bool().Draw(t, "deleted"),
		}
	})
}

// TestC24_Codec: Unmarshal(Marshal(h)) == h, the record is exactly
// sop.HandleSizeInBytes long, two different handles never share an encoding, and the
// encoder appends to (never overwrites) a caller buffer.
func TestC24_Codec(t *testing.T) {
	rec := stats.For("C24").Meta("exploration",
		"codec: handles drawn over full field ranges (rapid Int32/Int64 incl. min/max, ids incl. nil/all-ones/single-bit); non-trivial = a flag is set or a number is negative; distinct by rendered handle")
	m := encoding.NewHandleMarshaler()
	rapid.Check(t, func(t *rapid.T) {
		h := genHandle().Draw(t, "h")
		g := genHandle().Draw(t, "g")
		prefixLen := rapid.IntRange(0, 3).Draw(t, "prefixLen")
		prefix := bytes.Repeat([]byte{0xAB}, prefixLen)

		buf := make([]byte, 0, sop.HandleSizeInBytes)
		enc, err := m.Marshal(h, buf)
		if err != nil {
			t.Fatalf("Marshal(%+v): %v", h, err)
		}
		if len(enc) != sop.HandleSizeInBytes || sop.HandleSizeInBytes != 62 {
			t.Fatalf("encoded length %d, HandleSizeInBytes %d, want 62", len(enc), sop.HandleSizeInBytes)
		}
		var back sop.Handle
		if err := m.Unmarshal(enc, &back); err != nil {
			t.Fatalf("Unmarshal: %v", err)
		}
		if back != h {
			t.Fatalf("round trip changed the handle:\n wrote %+v\n read  %+v", h, back)
		}
		lid, err := m.UnmarshalLogicalID(enc)
		if err != nil || lid != h.LogicalID {
			t.Fatalf("UnmarshalLogicalID = %v,%v want %v", lid, err, h.LogicalID)
		}
		// injectivity: different handles, different records
		enc2, _ := m.Marshal(g, make([]byte, 0, sop.HandleSizeInBytes))
		if (g == h) != bytes.Equal(enc, enc2) {
			t.Fatalf("handles equal=%v but encodings equal=%v\n h=%+v\n g=%+v", g == h, bytes.Equal(enc, enc2), h, g)
		}
		// appending form keeps the caller's prefix
		enc3, _ := m.Marshal(h, append([]byte{}, prefix...))
		if !bytes.HasPrefix(enc3, prefix) || !bytes.Equal(enc3[prefixLen:], enc) {
			t.Fatalf("Marshal into a %d-byte prefixed buffer gave %x", prefixLen, enc3)
		}
		nontrivial := h.IsActiveIDB || h.IsDeleted || h.Version < 0 || h.WorkInProgressTimestamp < 0
		labels := []string{}
		if h.IsActiveIDB {
			labels = append(labels, "activeB")
		}
		if h.IsDeleted {
			labels = append(labels, "deleted")
		}
		if h.Version < 0 {
			labels = append(labels, "negVersion")
		}
		if h.WorkInProgressTimestamp < 0 {
			labels = append(labels, "negWip")
		}
		if h.LogicalID.IsNil() {
			labels = append(labels, "nilLid")
		}
		rec.Case(fmt.Sprintf("%+v", h), nontrivial, labels...)
		rec.Sample("codec", fmt.Sprintf("%+v -> %x", h, enc))
	})
}
