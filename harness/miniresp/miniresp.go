// Package miniresp is a small in-process RESP2 server that stands in for Redis in
// checks of github.com/sharedcode/sop/adapters/redis (miniredis / redis-server are not
// available in the sandbox). It implements exactly the commands the adapter issues plus
// the go-redis v9 handshake:
//
//	PING ECHO QUIT HELLO(error reply -> client stays on RESP2) CLIENT(OK) AUTH SELECT
//	SET key val [EX s|PX ms|KEEPTTL] [NX|XX]   SETNX   GET   GETEX [EX s|PX ms|PERSIST]
//	GETDEL  MGET  DEL  UNLINK  EXISTS  EXPIRE  PEXPIRE  PERSIST  TTL  PTTL
//	FLUSHDB FLUSHALL DBSIZE INFO
//
// over a mutex-protected map. Pipelining works (replies are flushed when the input
// buffer is drained). Time is a virtual clock owned by the test: keys expire only when
// the test calls Advance; nothing sleeps. Semantics are the documented core of Redis:
// every command is atomic, SET NX stores only when the key is absent, DEL is
// unconditional, a key whose expiry time has passed (now > when, as in Redis'
// keyIsExpired) is absent for every command.
//
// It is part of the trusted base of the checks that use it; miniresp_test.go compares it
// with an independent model through a real go-redis client.
package miniresp

import (
	"bufio"
	"errors"
	"fmt"
	"io"
	"net"
	"sort"
	"strconv"
	"strings"
	"sync"
	"time"
)

type entry struct {
	val      string
	expireAt int64 // virtual ms; 0 = no expiry
}

// Server is one listening instance.
type Server struct {
	mu       sync.Mutex
	ln       net.Listener
	nowMs    int64 // virtual clock, milliseconds since start
	dbs      map[int]map[string]*entry
	conns    map[net.Conn]struct{}
	counts   map[string]int64
	runID    int64
	closed   bool
	hook     func(cmd string, args []string) string
	wg       sync.WaitGroup
	trace    []string
	traceMax int
}

// Start listens on a free loopback port.
func Start() (*Server, error) {
	ln, err := net.Listen("tcp", "127.0.0.1:0")
	if err != nil {
		return nil, err
	}
	s := &Server{ln: ln, dbs: map[int]map[string]*entry{}, conns: map[net.Conn]struct{}{},
		counts: map[string]int64{}, runID: 1, nowMs: 1_000_000}
	s.wg.Add(1)
	go s.accept()
	return s, nil
}

// Addr is the host:port to hand to the client.
func (s *Server) Addr() string { return s.ln.Addr().String() }

// Close stops the listener and drops every connection.
func (s *Server) Close() {
	s.mu.Lock()
	if s.closed {
		s.mu.Unlock()
		return
	}
	s.closed = true
	for c := range s.conns {
		c.Close()
	}
	s.mu.Unlock()
	s.ln.Close()
	s.wg.Wait()
}

// Advance moves the virtual clock forward; keys whose expiry lies strictly before the new
// time are gone for every later command. This is the only way time passes.
func (s *Server) Advance(d time.Duration) {
	if d < 0 {
		panic("miniresp: negative Advance")
	}
	s.mu.Lock()
	s.nowMs += d.Milliseconds()
	s.mu.Unlock()
}

// Now is the virtual time since an arbitrary origin.
func (s *Server) Now() time.Duration {
	s.mu.Lock()
	defer s.mu.Unlock()
	return time.Duration(s.nowMs) * time.Millisecond
}

// Reset drops all data of all databases and changes the run id (a "server restart" that
// keeps the listener and the clock). Connections stay open.
func (s *Server) Reset() {
	s.mu.Lock()
	s.dbs = map[int]map[string]*entry{}
	s.runID++
	s.mu.Unlock()
}

// DropConnections closes every client connection (the client library reconnects).
func (s *Server) DropConnections() {
	s.mu.Lock()
	for c := range s.conns {
		c.Close()
	}
	s.mu.Unlock()
}

// SetHook installs a fault hook: it is called (under the server lock) before each data
// command with the upper-cased command name and its arguments; a non-empty return value is
// sent as an error reply ("-<value>") and the command has no effect. nil removes it.
func (s *Server) SetHook(h func(cmd string, args []string) string) {
	s.mu.Lock()
	s.hook = h
	s.mu.Unlock()
}

// Peek returns value and absolute virtual expiry (0 = none) of a live key in db 0.
func (s *Server) Peek(key string) (val string, expireAt time.Duration, ok bool) {
	s.mu.Lock()
	defer s.mu.Unlock()
	e := s.get(0, key)
	if e == nil {
		return "", 0, false
	}
	return e.val, time.Duration(e.expireAt) * time.Millisecond, true
}

// Keys lists the live keys of db 0, sorted.
func (s *Server) Keys() []string {
	s.mu.Lock()
	defer s.mu.Unlock()
	var ks []string
	for k := range s.dbs[0] {
		if s.get(0, k) != nil {
			ks = append(ks, k)
		}
	}
	sort.Strings(ks)
	return ks
}

// Counts returns how many times each command was executed since Start.
func (s *Server) Counts() map[string]int64 {
	s.mu.Lock()
	defer s.mu.Unlock()
	m := make(map[string]int64, len(s.counts))
	for k, v := range s.counts {
		m[k] = v
	}
	return m
}

// Trace keeps the last n commands (for failure reports); n = 0 disables.
func (s *Server) Trace(n int) {
	s.mu.Lock()
	s.traceMax = n
	s.trace = nil
	s.mu.Unlock()
}

// TraceLines returns the recorded commands.
func (s *Server) TraceLines() []string {
	s.mu.Lock()
	defer s.mu.Unlock()
	return append([]string(nil), s.trace...)
}

func (s *Server) accept() {
	defer s.wg.Done()
	for {
		c, err := s.ln.Accept()
		if err != nil {
			return
		}
		s.mu.Lock()
		if s.closed {
			s.mu.Unlock()
			c.Close()
			return
		}
		s.conns[c] = struct{}{}
		s.mu.Unlock()
		s.wg.Add(1)
		go s.serve(c)
	}
}

var errProto = errors.New("protocol error")

func readCommand(r *bufio.Reader) ([]string, error) {
	line, err := r.ReadString('\n')
	if err != nil {
		return nil, err
	}
	line = strings.TrimRight(line, "\r\n")
	if line == "" {
		return []string{}, nil
	}
	if line[0] != '*' {
		// inline command
		return strings.Fields(line), nil
	}
	n, err := strconv.Atoi(line[1:])
	if err != nil || n < 0 || n > 1<<20 {
		return nil, errProto
	}
	args := make([]string, 0, n)
	for i := 0; i < n; i++ {
		h, err := r.ReadString('\n')
		if err != nil {
			return nil, err
		}
		h = strings.TrimRight(h, "\r\n")
		if len(h) < 2 || h[0] != '$' {
			return nil, errProto
		}
		l, err := strconv.Atoi(h[1:])
		if err != nil || l < 0 || l > 512<<20 {
			return nil, errProto
		}
		buf := make([]byte, l+2)
		if _, err := io.ReadFull(r, buf); err != nil {
			return nil, err
		}
		args = append(args, string(buf[:l]))
	}
	return args, nil
}

type conn struct {
	db int
	w  *bufio.Writer
}

func (c *conn) status(s string)   { c.w.WriteString("+" + s + "\r\n") }
func (c *conn) errorf(s string)   { c.w.WriteString("-" + s + "\r\n") }
func (c *conn) integer(n int64)   { c.w.WriteString(":" + strconv.FormatInt(n, 10) + "\r\n") }
func (c *conn) null()             { c.w.WriteString("$-1\r\n") }
func (c *conn) bulk(s string)     { c.w.WriteString("$" + strconv.Itoa(len(s)) + "\r\n" + s + "\r\n") }
func (c *conn) arrayHeader(n int) { c.w.WriteString("*" + strconv.Itoa(n) + "\r\n") }

func (s *Server) serve(nc net.Conn) {
	defer s.wg.Done()
	defer func() {
		nc.Close()
		s.mu.Lock()
		delete(s.conns, nc)
		s.mu.Unlock()
	}()
	r := bufio.NewReaderSize(nc, 64<<10)
	c := &conn{w: bufio.NewWriterSize(nc, 64<<10)}
	for {
		args, err := readCommand(r)
		if err != nil {
			return
		}
		if len(args) == 0 {
			continue
		}
		quit := s.dispatch(c, args)
		if r.Buffered() == 0 || quit {
			if err := c.w.Flush(); err != nil {
				return
			}
		}
		if quit {
			return
		}
	}
}

// get returns the live entry (expired entries are removed lazily). Caller holds s.mu.
func (s *Server) get(db int, key string) *entry {
	m := s.dbs[db]
	if m == nil {
		return nil
	}
	e := m[key]
	if e == nil {
		return nil
	}
	if e.expireAt != 0 && s.nowMs > e.expireAt {
		delete(m, key)
		return nil
	}
	return e
}

func (s *Server) put(db int, key string, e *entry) {
	m := s.dbs[db]
	if m == nil {
		m = map[string]*entry{}
		s.dbs[db] = m
	}
	m[key] = e
}

func (s *Server) del(db int, key string) bool {
	if s.get(db, key) == nil {
		return false
	}
	delete(s.dbs[db], key)
	return true
}

const (
	errSyntax   = "ERR syntax error"
	errNotInt   = "ERR value is not an integer or out of range"
	errBadTTL   = "ERR invalid expire time in '%s' command"
	errWrongArg = "ERR wrong number of arguments for '%s' command"
)

// parseTTL reads "<unit> <n>" where unit is EX or PX; returns ms.
func parseTTL(unit, n string) (int64, string) {
	v, err := strconv.ParseInt(n, 10, 64)
	if err != nil {
		return 0, errNotInt
	}
	if v <= 0 {
		return 0, "badttl"
	}
	if strings.EqualFold(unit, "EX") {
		if v > (1<<62)/1000 {
			return 0, "badttl"
		}
		return v * 1000, ""
	}
	return v, ""
}

func (s *Server) dispatch(c *conn, args []string) (quit bool) {
	cmd := strings.ToUpper(args[0])
	a := args[1:]
	lower := strings.ToLower(args[0])
	wrong := func() { c.errorf(fmt.Sprintf(errWrongArg, lower)) }

	s.mu.Lock()
	defer s.mu.Unlock()
	s.counts[cmd]++
	if s.traceMax > 0 {
		if len(s.trace) >= s.traceMax {
			s.trace = s.trace[1:]
		}
		s.trace = append(s.trace, fmt.Sprintf("t=%dms %s", s.nowMs, strings.Join(args, " ")))
	}

	switch cmd {
	case "HELLO":
		// Old servers answer exactly like this; go-redis then stays on RESP2.
		c.errorf("ERR unknown command 'HELLO'")
		return
	case "CLIENT", "AUTH", "READONLY":
		c.status("OK")
		return
	case "SELECT":
		if len(a) != 1 {
			wrong()
			return
		}
		n, err := strconv.Atoi(a[0])
		if err != nil || n < 0 || n > 15 {
			c.errorf("ERR DB index is out of range")
			return
		}
		c.db = n
		c.status("OK")
		return
	case "PING":
		if len(a) == 0 {
			c.status("PONG")
		} else {
			c.bulk(a[0])
		}
		return
	case "ECHO":
		if len(a) != 1 {
			wrong()
			return
		}
		c.bulk(a[0])
		return
	case "QUIT":
		c.status("OK")
		return true
	}

	if s.hook != nil {
		if e := s.hook(cmd, a); e != "" {
			c.errorf(e)
			return
		}
	}

	switch cmd {
	case "SET":
		if len(a) < 2 {
			wrong()
			return
		}
		var ttl int64
		var nx, xx, keep bool
		for i := 2; i < len(a); i++ {
			switch strings.ToUpper(a[i]) {
			case "NX":
				nx = true
			case "XX":
				xx = true
			case "KEEPTTL":
				keep = true
			case "EX", "PX":
				if i+1 >= len(a) || ttl != 0 {
					c.errorf(errSyntax)
					return
				}
				v, e := parseTTL(a[i], a[i+1])
				if e == "badttl" {
					c.errorf(fmt.Sprintf(errBadTTL, "set"))
					return
				} else if e != "" {
					c.errorf(e)
					return
				}
				ttl = v
				i++
			default:
				c.errorf(errSyntax)
				return
			}
		}
		if (nx && xx) || (keep && ttl != 0) {
			c.errorf(errSyntax)
			return
		}
		old := s.get(c.db, a[0])
		if (nx && old != nil) || (xx && old == nil) {
			c.null()
			return
		}
		e := &entry{val: a[1]}
		if ttl != 0 {
			e.expireAt = s.nowMs + ttl
		} else if keep && old != nil {
			e.expireAt = old.expireAt
		}
		s.put(c.db, a[0], e)
		c.status("OK")
	case "SETNX":
		if len(a) != 2 {
			wrong()
			return
		}
		if s.get(c.db, a[0]) != nil {
			c.integer(0)
			return
		}
		s.put(c.db, a[0], &entry{val: a[1]})
		c.integer(1)
	case "GET":
		if len(a) != 1 {
			wrong()
			return
		}
		if e := s.get(c.db, a[0]); e != nil {
			c.bulk(e.val)
		} else {
			c.null()
		}
	case "GETDEL":
		if len(a) != 1 {
			wrong()
			return
		}
		if e := s.get(c.db, a[0]); e != nil {
			c.bulk(e.val)
			s.del(c.db, a[0])
		} else {
			c.null()
		}
	case "GETEX":
		if len(a) < 1 {
			wrong()
			return
		}
		var ttl int64
		persist := false
		switch {
		case len(a) == 1:
		case len(a) == 2 && strings.EqualFold(a[1], "PERSIST"):
			persist = true
		case len(a) == 3 && (strings.EqualFold(a[1], "EX") || strings.EqualFold(a[1], "PX")):
			v, e := parseTTL(a[1], a[2])
			if e == "badttl" {
				c.errorf(fmt.Sprintf(errBadTTL, "getex"))
				return
			} else if e != "" {
				c.errorf(e)
				return
			}
			ttl = v
		default:
			c.errorf(errSyntax)
			return
		}
		e := s.get(c.db, a[0])
		if e == nil {
			c.null()
			return
		}
		if persist {
			e.expireAt = 0
		} else if ttl != 0 {
			e.expireAt = s.nowMs + ttl
		}
		c.bulk(e.val)
	case "MGET":
		if len(a) < 1 {
			wrong()
			return
		}
		c.arrayHeader(len(a))
		for _, k := range a {
			if e := s.get(c.db, k); e != nil {
				c.bulk(e.val)
			} else {
				c.null()
			}
		}
	case "DEL", "UNLINK":
		if len(a) < 1 {
			wrong()
			return
		}
		var n int64
		for _, k := range a {
			if s.del(c.db, k) {
				n++
			}
		}
		c.integer(n)
	case "EXISTS":
		if len(a) < 1 {
			wrong()
			return
		}
		var n int64
		for _, k := range a {
			if s.get(c.db, k) != nil {
				n++
			}
		}
		c.integer(n)
	case "EXPIRE", "PEXPIRE":
		if len(a) != 2 {
			if len(a) < 2 {
				wrong()
			} else {
				c.errorf("ERR Unsupported option " + a[2])
			}
			return
		}
		v, err := strconv.ParseInt(a[1], 10, 64)
		if err != nil {
			c.errorf(errNotInt)
			return
		}
		if cmd == "EXPIRE" {
			v *= 1000
		}
		e := s.get(c.db, a[0])
		if e == nil {
			c.integer(0)
			return
		}
		if v <= 0 {
			// a non-positive timeout deletes the key
			s.del(c.db, a[0])
		} else {
			e.expireAt = s.nowMs + v
		}
		c.integer(1)
	case "PERSIST":
		if len(a) != 1 {
			wrong()
			return
		}
		e := s.get(c.db, a[0])
		if e == nil || e.expireAt == 0 {
			c.integer(0)
			return
		}
		e.expireAt = 0
		c.integer(1)
	case "TTL", "PTTL":
		if len(a) != 1 {
			wrong()
			return
		}
		e := s.get(c.db, a[0])
		switch {
		case e == nil:
			c.integer(-2)
		case e.expireAt == 0:
			c.integer(-1)
		default:
			rem := e.expireAt - s.nowMs
			if rem < 0 {
				rem = 0
			}
			if cmd == "TTL" {
				rem = (rem + 500) / 1000
			}
			c.integer(rem)
		}
	case "FLUSHDB":
		delete(s.dbs, c.db)
		c.status("OK")
	case "FLUSHALL":
		s.dbs = map[int]map[string]*entry{}
		c.status("OK")
	case "DBSIZE":
		var n int64
		for k := range s.dbs[c.db] {
			if s.get(c.db, k) != nil {
				n++
			}
		}
		c.integer(n)
	case "INFO":
		c.bulk(fmt.Sprintf("# Server\r\nredis_version:6.2.0\r\nredis_mode:standalone\r\nrun_id:%040d\r\n", s.runID))
	default:
		c.errorf(fmt.Sprintf("ERR unknown command '%s'", args[0]))
	}
	return
}
