package miniresp

import (
	"context"
	"fmt"
	"sort"
	"testing"
	"time"

	"github.com/redis/go-redis/v9"
	"pgregory.net/rapid"
)

// Model-based self-test of the trusted base: a real go-redis v9 client (the library the
// SOP adapter uses) drives random single and pipelined commands; every reply is compared
// with an independent map-with-expiry model. A failure here is a harness problem, never a
// finding about SOP, hence the HARNESS-ERROR prefix (the driver reports "inconclusive").

type ment struct {
	val string
	exp int64 // ms, 0 none
}

type mmodel struct {
	now int64
	m   map[string]ment
}

func (m *mmodel) get(k string) (ment, bool) {
	e, ok := m.m[k]
	if !ok {
		return ment{}, false
	}
	if e.exp != 0 && m.now > e.exp {
		delete(m.m, k)
		return ment{}, false
	}
	return e, true
}

func newTestClient(t testing.TB, s *Server) *redis.Client {
	c := redis.NewClient(&redis.Options{Addr: s.Addr(), ReadTimeout: 30 * time.Second, WriteTimeout: 30 * time.Second,
		DialTimeout: 30 * time.Second, MaxRetries: -1})
	return c
}

func TestMiniresp_Model(t *testing.T) {
	s, err := Start()
	if err != nil {
		t.Fatalf("HARNESS-ERROR miniresp: listen: %v", err)
	}
	defer s.Close()
	cl := newTestClient(t, s)
	defer cl.Close()
	ctx := context.Background()
	if err := cl.Ping(ctx).Err(); err != nil {
		t.Fatalf("HARNESS-ERROR miniresp: ping: %v", err)
	}
	keys := []string{"a", "b", "c", "d"}
	ttls := []time.Duration{0, 1500 * time.Millisecond, 2 * time.Second, 10 * time.Second, time.Hour}
	fail := func(rt *rapid.T, f string, a ...any) {
		rt.Fatalf("HARNESS-ERROR miniresp self-test: "+f, a...)
	}
	rapid.Check(t, func(rt *rapid.T) {
		s.Reset()
		base := s.Now().Milliseconds()
		mo := &mmodel{now: base, m: map[string]ment{}}
		key := func(l string) string { return rapid.SampledFrom(keys).Draw(rt, l) }
		ttl := func() time.Duration { return rapid.SampledFrom(ttls).Draw(rt, "ttl") }
		setExp := func(d time.Duration) int64 {
			if d == 0 {
				return 0
			}
			return mo.now + d.Milliseconds()
		}
		// one logical command applied to a cmdable (client or pipeline); returns a checker run after exec
		type checker func()
		issue := func(c redis.Cmdable) checker {
			switch rapid.IntRange(0, 10).Draw(rt, "op") {
			case 0:
				k, v, d := key("k"), rapid.StringMatching(`[a-z]{0,4}`).Draw(rt, "v"), ttl()
				cmd := c.Set(ctx, k, v, d)
				mo.m[k] = ment{v, setExp(d)}
				return func() {
					if cmd.Err() != nil || cmd.Val() != "OK" {
						fail(rt, "SET %s: %v %q", k, cmd.Err(), cmd.Val())
					}
				}
			case 1:
				k, v, d := key("k"), rapid.StringMatching(`[a-z]{0,4}`).Draw(rt, "v"), ttl()
				cmd := c.SetNX(ctx, k, v, d)
				_, had := mo.get(k)
				if !had {
					mo.m[k] = ment{v, setExp(d)}
				}
				return func() {
					if cmd.Err() != nil || cmd.Val() != !had {
						fail(rt, "SETNX %s: got %v,%v want %v", k, cmd.Val(), cmd.Err(), !had)
					}
				}
			case 2:
				k := key("k")
				cmd := c.Get(ctx, k)
				e, had := mo.get(k)
				return func() {
					if had && (cmd.Err() != nil || cmd.Val() != e.val) {
						fail(rt, "GET %s: got %q,%v want %q", k, cmd.Val(), cmd.Err(), e.val)
					}
					if !had && cmd.Err() != redis.Nil {
						fail(rt, "GET %s: got %q,%v want nil", k, cmd.Val(), cmd.Err())
					}
				}
			case 3:
				k, d := key("k"), ttl()
				cmd := c.GetEx(ctx, k, d) // d == 0 -> PERSIST
				e, had := mo.get(k)
				if had {
					e.exp = setExp(d)
					mo.m[k] = e
				}
				return func() {
					if had && (cmd.Err() != nil || cmd.Val() != e.val) {
						fail(rt, "GETEX %s: got %q,%v want %q", k, cmd.Val(), cmd.Err(), e.val)
					}
					if !had && cmd.Err() != redis.Nil {
						fail(rt, "GETEX %s: got %q,%v want nil", k, cmd.Val(), cmd.Err())
					}
				}
			case 4:
				ks := rapid.SliceOfN(rapid.SampledFrom(keys), 1, 4).Draw(rt, "ks")
				cmd := c.MGet(ctx, ks...)
				want := make([]any, len(ks))
				for i, k := range ks {
					if e, ok := mo.get(k); ok {
						want[i] = e.val
					}
				}
				return func() {
					if cmd.Err() != nil || fmt.Sprint(cmd.Val()) != fmt.Sprint(want) {
						fail(rt, "MGET %v: got %v,%v want %v", ks, cmd.Val(), cmd.Err(), want)
					}
				}
			case 5:
				ks := rapid.SliceOfN(rapid.SampledFrom(keys), 1, 4).Draw(rt, "ks")
				cmd := c.Del(ctx, ks...)
				var n int64
				for _, k := range ks {
					if _, ok := mo.get(k); ok {
						n++
						delete(mo.m, k)
					}
				}
				return func() {
					if cmd.Err() != nil || cmd.Val() != n {
						fail(rt, "DEL %v: got %v,%v want %d", ks, cmd.Val(), cmd.Err(), n)
					}
				}
			case 6:
				ks := rapid.SliceOfN(rapid.SampledFrom(keys), 1, 4).Draw(rt, "ks")
				cmd := c.Exists(ctx, ks...)
				var n int64
				for _, k := range ks {
					if _, ok := mo.get(k); ok {
						n++
					}
				}
				return func() {
					if cmd.Err() != nil || cmd.Val() != n {
						fail(rt, "EXISTS %v: got %v,%v want %d", ks, cmd.Val(), cmd.Err(), n)
					}
				}
			case 7:
				k := key("k")
				d := rapid.SampledFrom([]time.Duration{time.Second, 3 * time.Second, time.Hour}).Draw(rt, "d")
				cmd := c.Expire(ctx, k, d)
				e, had := mo.get(k)
				if had {
					e.exp = setExp(d)
					mo.m[k] = e
				}
				return func() {
					if cmd.Err() != nil || cmd.Val() != had {
						fail(rt, "EXPIRE %s: got %v,%v want %v", k, cmd.Val(), cmd.Err(), had)
					}
				}
			case 8:
				k := key("k")
				cmd := c.PTTL(ctx, k)
				e, had := mo.get(k)
				now := mo.now
				return func() {
					var want time.Duration
					switch {
					case !had:
						want = -2
					case e.exp == 0:
						want = -1
					default:
						want = time.Duration(e.exp-now) * time.Millisecond
					}
					if cmd.Err() != nil || cmd.Val() != want {
						fail(rt, "PTTL %s: got %v,%v want %v", k, cmd.Val(), cmd.Err(), want)
					}
				}
			case 9:
				k := key("k")
				cmd := c.TTL(ctx, k)
				e, had := mo.get(k)
				now := mo.now
				return func() {
					var want time.Duration
					switch {
					case !had:
						want = -2
					case e.exp == 0:
						want = -1
					default:
						want = time.Duration((e.exp-now+500)/1000) * time.Second
					}
					if cmd.Err() != nil || cmd.Val() != want {
						fail(rt, "TTL %s: got %v,%v want %v", k, cmd.Val(), cmd.Err(), want)
					}
				}
			default:
				cmd := c.DBSize(ctx)
				var n int64
				for k := range mo.m {
					if _, ok := mo.get(k); ok {
						n++
					}
				}
				return func() {
					if cmd.Err() != nil || cmd.Val() != n {
						fail(rt, "DBSIZE: got %v,%v want %d", cmd.Val(), cmd.Err(), n)
					}
				}
			}
		}
		steps := rapid.IntRange(1, 30).Draw(rt, "steps")
		for i := 0; i < steps; i++ {
			switch rapid.IntRange(0, 9).Draw(rt, "kind") {
			case 0, 1:
				d := rapid.SampledFrom([]time.Duration{time.Millisecond, 500 * time.Millisecond, 1500 * time.Millisecond,
					2 * time.Second, 10 * time.Second, time.Hour + time.Second}).Draw(rt, "adv")
				s.Advance(d)
				mo.now += d.Milliseconds()
			case 2:
				if rapid.IntRange(0, 3).Draw(rt, "flush") == 0 {
					if err := cl.FlushDB(ctx).Err(); err != nil {
						fail(rt, "FLUSHDB: %v", err)
					}
					mo.m = map[string]ment{}
				}
			case 3, 4:
				n := rapid.IntRange(1, 5).Draw(rt, "pipeN")
				p := cl.Pipeline()
				var cs []checker
				for j := 0; j < n; j++ {
					cs = append(cs, issue(p))
				}
				if _, err := p.Exec(ctx); err != nil && err != redis.Nil {
					fail(rt, "pipeline exec: %v", err)
				}
				for _, c := range cs {
					c()
				}
			default:
				issue(cl)()
			}
		}
		// final state comparison through the inspection API
		var want []string
		for k := range mo.m {
			if _, ok := mo.get(k); ok {
				want = append(want, k)
			}
		}
		sort.Strings(want)
		if got := s.Keys(); fmt.Sprint(got) != fmt.Sprint(want) {
			fail(rt, "final keys %v want %v", got, want)
		}
		for _, k := range want {
			v, exp, ok := s.Peek(k)
			e := mo.m[k]
			if !ok || v != e.val || exp.Milliseconds() != e.exp {
				fail(rt, "Peek(%s) = %q,%v,%v want %q,%dms", k, v, exp, ok, e.val, e.exp)
			}
		}
	})
	if c := s.Counts(); c["HELLO"] == 0 || c["SET"] == 0 || c["GETEX"] == 0 {
		t.Fatalf("HARNESS-ERROR miniresp self-test: expected HELLO/SET/GETEX traffic, got %v", c)
	}
}

// TestMiniresp_Protocol pins the documented edge semantics the checks rely on.
func TestMiniresp_Protocol(t *testing.T) {
	s, err := Start()
	if err != nil {
		t.Fatalf("HARNESS-ERROR miniresp: listen: %v", err)
	}
	defer s.Close()
	cl := newTestClient(t, s)
	defer cl.Close()
	ctx := context.Background()
	must := func(ok bool, f string, a ...any) {
		t.Helper()
		if !ok {
			t.Fatalf("HARNESS-ERROR miniresp protocol: "+f, a...)
		}
	}
	ok, err := cl.SetNX(ctx, "k", "A", 10*time.Second).Result()
	must(ok && err == nil, "first SET NX EX: %v %v", ok, err)
	ok, err = cl.SetNX(ctx, "k", "B", time.Hour).Result()
	must(!ok && err == nil, "second SET NX must not store: %v %v", ok, err)
	s.Advance(10 * time.Second) // exactly at the expiry instant: still there (now > when is false)
	v, err := cl.Get(ctx, "k").Result()
	must(v == "A" && err == nil, "at expiry instant: %q %v", v, err)
	s.Advance(time.Millisecond)
	_, err = cl.Get(ctx, "k").Result()
	must(err == redis.Nil, "after expiry: %v", err)
	ok, err = cl.SetNX(ctx, "k", "B", time.Hour).Result()
	must(ok && err == nil, "SET NX after expiry: %v %v", ok, err)
	n, err := cl.Del(ctx, "k", "zz").Result()
	must(n == 1 && err == nil, "DEL is unconditional: %d %v", n, err)
	err = cl.Do(ctx, "SET", "k", "v", "EX", "0").Err()
	must(err != nil && err != redis.Nil, "SET EX 0 must be an error, got %v", err)
	err = cl.Do(ctx, "NOSUCH").Err()
	must(err != nil, "unknown command must be an error")
	s.SetHook(func(cmd string, a []string) string {
		if cmd == "GET" {
			return "ERR injected"
		}
		return ""
	})
	err = cl.Get(ctx, "k").Err()
	must(err != nil && err.Error() == "ERR injected", "hook: %v", err)
	s.SetHook(nil)
	must(cl.Set(ctx, "x", "1", 0).Err() == nil, "set")
	s.Reset()
	must(cl.Exists(ctx, "x").Val() == 0, "Reset drops data")
	s.DropConnections()
	must(cl.Set(ctx, "x", "1", 0).Err() == nil || cl.Set(ctx, "x", "1", 0).Err() == nil, "client reconnects after DropConnections")
}
