package timing

import (
	"context"
	"io"
	"log/slog"
	"os"
	"sync/atomic"
	"testing"
	"time"

	"github.com/sharedcode/sop/fs"

	"verif/harness/stats"
)

func TestMain(m *testing.M) {
	code := m.Run()
	stats.Flush()
	os.Exit(code)
}

func init() {
	// SOP logs every refused lock as a warning; the checks do not read them.
	slog.SetDefault(slog.New(slog.NewTextHandler(io.Discard, &slog.HandlerOptions{Level: slog.LevelError + 4})))
	// NOTE: the retry jitter and sop.RetryStartDuration are NOT pinned here: C15's subject is the
	// production timing (sop.RandomSleep 20-80 ms, sop.Retry Fibonacci from 1 s).
	fs.DirectIOSim = stallDIO{fs.NewDirectIO()}
}

// stallKey marks the commit context of the one participant whose registry block write is to be
// stalled. The context travels unchanged from Commit(ctx) down to DirectIO.WriteAt(ctx, ...), so no
// other transaction is affected: everything else passes straight through to SOP's real direct I/O.
type stallKey struct{}

type stallCtl struct {
	fired   atomic.Bool
	stalled chan struct{} // closed when the write is reached (the block's sector lock is held by then)
	release chan struct{} // closed by the coordinator
	at      atomic.Int64  // UnixNano of the stall
}

type stallDIO struct{ fs.DirectIO }

func (d stallDIO) WriteAt(ctx context.Context, f *os.File, block []byte, off int64) (int, error) {
	if c, ok := ctx.Value(stallKey{}).(*stallCtl); ok && c != nil && c.fired.CompareAndSwap(false, true) {
		c.at.Store(time.Now().UnixNano())
		close(c.stalled)
		<-c.release
	}
	return d.DirectIO.WriteAt(ctx, f, block, off)
}
