package timing

import (
	"context"
	"crypto/sha1"
	"encoding/json"
	"fmt"
	"os"
	"os/exec"
	"path/filepath"
	"regexp"
	"runtime/debug"
	"sort"
	"strings"
	"sync"
	"sync/atomic"
	"testing"
	"time"

	"github.com/sharedcode/sop"
	"github.com/sharedcode/sop/cache"
	"github.com/sharedcode/sop/infs"
	"pgregory.net/rapid"

	"verif/harness/stats"
	"verif/harness/txh"
)

// ---- workload description (the replay unit: it is handed to a child process as JSON) ----------

type wlTxn struct {
	Mode sop.TransactionMode `json:"mode"`
	Ops  []txh.Op            `json:"ops"`
	End  string              `json:"end"`
	// Create: the transaction first creates a store of its own (unique name, nobody else uses it) and adds
	// NewKeys to it: concurrent store creation through the shared store repository.
	Create  string `json:"create,omitempty"`
	NewKeys []int  `json:"new_keys,omitempty"`
}

type workload struct {
	Flavor   string          `json:"flavor"` // txh: harness-composed transaction (decorators, no hooks) | infs: public API | infsRepl: public API, 2 folders + erasure coding
	HashMod  int             `json:"hash_mod"`
	Stores   []txh.StoreOpts `json:"stores"`
	Seed     [][]int         `json:"seed"`
	G        [][]wlTxn       `json:"g"` // per goroutine: its transactions, run one after the other
	UUIDSeed uint64          `json:"uuid_seed"`
	MaxTime  time.Duration   `json:"max_time"`
	// SmallCaches: the exported capacity knobs are turned down before the first transaction of the (fresh) child
	// process, so that L1 MRU eviction and L2 shard eviction happen under concurrency.
	SmallCaches bool `json:"small_caches,omitempty"`
	// Phase: "seed" (create and fill the stores, one goroutine) or "run" (the concurrent part). They run in two
	// different child processes, so that the concurrent part starts with a fresh process: its very first Begin
	// calls (the maintenance entry, once-per-process start-up work, global cache creation) are concurrent too.
	Phase string `json:"phase,omitempty"`
	Dir   string `json:"dir"`
	Out   string `json:"out"`
}

func (w workload) render() string {
	var sb strings.Builder
	fmt.Fprintf(&sb, "%s mod=%d uuid=%x", w.Flavor, w.HashMod, w.UUIDSeed)
	if w.SmallCaches {
		sb.WriteString(" smallCaches")
	}
	for i, s := range w.Stores {
		cc := "defaultCache"
		if s.Cache != nil {
			cc = fmt.Sprintf("cache(ttl=%v)", s.Cache.IsNodeCacheTTL)
		}
		fmt.Fprintf(&sb, " {%s slot=%d %s %s seed=%v}", s.Name, s.Slot, txh.PlacementNames[s.Placement], cc, w.Seed[i])
	}
	for g, txns := range w.G {
		fmt.Fprintf(&sb, " g%d:", g)
		for _, x := range txns {
			if x.Create != "" {
				fmt.Fprintf(&sb, "create(%s,%v)+", x.Create, x.NewKeys)
			}
			sb.WriteString(txh.TxnProg{Mode: x.Mode, Ops: x.Ops, End: x.End}.String() + ";")
		}
	}
	return sb.String()
}

type wlResult struct {
	MaxInside   int      `json:"max_inside"` // most goroutines seen inside an SOP call on a shared store at one instant
	Commits     int      `json:"commits"`
	CommitErrs  int      `json:"commit_errs"`
	OpErrs      int      `json:"op_errs"`
	Panics      []string `json:"panics,omitempty"`
	HarnessErr  string   `json:"harness_err,omitempty"`
	ReaderTxns  int      `json:"reader_txns"`
	SharedStore bool     `json:"shared_store"`
}

// ---- generator -----------------------------------------------------------------------------

func genWorkload(t *rapid.T) workload {
	w := workload{MaxTime: 3 * time.Second}
	w.Flavor = rapid.SampledFrom([]string{"txh", "infs", "infs", "infsRepl"}).Draw(t, "flavor")
	w.HashMod = rapid.SampledFrom([]int{1, 3, 16}).Draw(t, "hashMod")
	w.UUIDSeed = rapid.Uint64().Draw(t, "uuidSeed")
	w.SmallCaches = rapid.IntRange(0, 2).Draw(t, "smallCaches") == 0
	ng := rapid.IntRange(2, 8).Draw(t, "goroutines")
	sharing := rapid.SampledFrom([]string{"shared", "shared", "mixed", "private"}).Draw(t, "sharing")
	ns := 1
	switch sharing {
	case "shared":
		ns = rapid.IntRange(1, 2).Draw(t, "nStores")
	case "mixed":
		ns = 1 + (ng+1)/2
	case "private":
		ns = ng
	}
	domain := rapid.IntRange(6, 14).Draw(t, "domain")
	for i := 0; i < ns; i++ {
		o := txh.StoreOpts{Name: fmt.Sprintf("st%d", i), Unique: true}
		o.Slot = rapid.SampledFrom([]int{2, 4, 4, 8}).Draw(t, fmt.Sprintf("slot%d", i))
		o.Placement = rapid.SampledFrom([]int{0, 0, 1, 2, 3, 4}).Draw(t, fmt.Sprintf("placement%d", i))
		switch rapid.IntRange(0, 3).Draw(t, fmt.Sprintf("cachecfg%d", i)) {
		case 1:
			o.Cache = sop.NewStoreCacheConfig(0, false)
		case 2:
			o.Cache = sop.NewStoreCacheConfig(5*time.Minute, true)
		}
		w.Stores = append(w.Stores, o)
		var seed []int
		for k := 0; k < domain; k++ {
			if rapid.IntRange(0, 3).Draw(t, fmt.Sprintf("seed%d.%d", i, k)) > 0 {
				seed = append(seed, k)
			}
		}
		if len(seed) == 0 {
			seed = []int{0} // README: no concurrent first commits into an empty store
		}
		w.Seed = append(w.Seed, seed)
	}
	tag := 0
	for g := 0; g < ng; g++ {
		// which stores this goroutine may touch
		var mine []int
		switch sharing {
		case "shared":
			for i := 0; i < ns; i++ {
				mine = append(mine, i)
			}
		case "mixed":
			mine = []int{0, 1 + g/2}
		case "private":
			mine = []int{g}
		}
		nt := rapid.IntRange(1, 3).Draw(t, fmt.Sprintf("nTxns%d", g))
		var txns []wlTxn
		for j := 0; j < nt; j++ {
			x := wlTxn{Mode: sop.ForWriting, End: "commit"}
			switch rapid.IntRange(0, 7).Draw(t, "mode") {
			case 0, 1:
				x.Mode = sop.ForReading
			case 2:
				x.Mode = sop.NoCheck
			}
			if rapid.IntRange(0, 6).Draw(t, "rollback") == 0 {
				x.End = "rollback"
			}
			if x.Mode == sop.ForWriting && rapid.IntRange(0, 5).Draw(t, "create") == 0 {
				x.Create = fmt.Sprintf("new_g%d_%d", g, j)
				x.NewKeys = rapid.SliceOfNDistinct(rapid.IntRange(0, 9), 1, 4, rapid.ID[int]).Draw(t, "newKeys")
			}
			no := rapid.IntRange(1, 5).Draw(t, "nOps")
			kinds := []string{"get", "get", "scan", "count"}
			if x.Mode == sop.ForWriting {
				kinds = []string{"get", "rmw", "rmw", "update", "add", "add", "upsert", "upsert", "remove", "scan", "count"}
			}
			for k := 0; k < no; k++ {
				tag++
				op := txh.Op{S: mine[rapid.IntRange(0, len(mine)-1).Draw(t, "store")], Kind: rapid.SampledFrom(kinds).Draw(t, "kind"),
					K: rapid.IntRange(0, domain-1).Draw(t, "key")}
				switch op.Kind {
				case "rmw", "update", "add", "upsert":
					op.Tag = fmt.Sprintf("g%d.%d", g, tag)
					op.Size = rapid.SampledFrom([]int{0, 10, 300}).Draw(t, "size")
				}
				x.Ops = append(x.Ops, op)
			}
			txns = append(txns, x)
		}
		w.G = append(w.G, txns)
	}
	return w
}

// ---- child process: run one workload free-running ---------------------------------------------

// TestWorker is the entry point of child processes; a no-op otherwise.
func TestWorker(t *testing.T) {
	job := os.Getenv("VERIF_JOB")
	if job == "" {
		return
	}
	b, err := os.ReadFile(job)
	if err != nil {
		t.Fatalf("HARNESS-ERROR %v", err)
	}
	var w workload
	if err := json.Unmarshal(b, &w); err != nil {
		t.Fatalf("HARNESS-ERROR %v", err)
	}
	var res wlResult
	if w.Flavor == "selftest" {
		res = seededRace()
	} else {
		res = runWorkload(w)
	}
	out, _ := json.Marshal(res)
	if err := os.WriteFile(w.Out, out, 0o644); err != nil {
		t.Fatalf("HARNESS-ERROR %v", err)
	}
}

// sopBackend abstracts how a transaction and its stores are obtained (harness-composed or public API).
type sopBackend struct {
	// newTxn returns the transaction, its store opener and its store creator
	newTxn func(mode sop.TransactionMode) (sop.Transaction, func(name string) (txh.Store, error), func(o txh.StoreOpts) (txh.Store, error), error)
}

func storeOptions(o txh.StoreOpts) sop.StoreOptions {
	so := sop.StoreOptions{Name: o.Name, SlotLength: o.Slot, IsUnique: o.Unique, LeafLoadBalancing: o.Balancing}
	switch o.Placement {
	case 0:
		so.IsValueDataInNodeSegment = true
	case 2:
		so.IsValueDataGloballyCached = true
	case 3:
		so.IsValueDataActivelyPersisted = true
	case 4:
		so.IsValueDataActivelyPersisted = true
		so.IsValueDataGloballyCached = true
	}
	if o.Cache != nil {
		c := *o.Cache
		so.CacheConfig = &c
	}
	return so
}

func makeBackend(w workload) (*sopBackend, error) {
	ctx := context.Background()
	switch w.Flavor {
	case "txh":
		e := txh.OpenEnv(w.Dir, w.HashMod)
		if err := os.MkdirAll(w.Dir, 0o755); err != nil {
			return nil, err
		}
		return &sopBackend{
			newTxn: func(mode sop.TransactionMode) (sop.Transaction, func(string) (txh.Store, error), func(txh.StoreOpts) (txh.Store, error), error) {
				t, err := e.NewTxn(txh.TxnOptions{Mode: mode, MaxTime: w.MaxTime})
				if err != nil {
					return nil, nil, nil, err
				}
				t.Record = false
				t.PassThroughPLogRemove.Store(true)
				return t.Tx, func(name string) (txh.Store, error) { return txh.OpenBtree[int, string](t, name) },
					func(o txh.StoreOpts) (txh.Store, error) { return txh.NewBtree[int, string](t, o) }, nil
			},
		}, nil
	case "infs":
		if err := os.MkdirAll(w.Dir, 0o755); err != nil {
			return nil, err
		}
		opts := func(mode sop.TransactionMode) sop.TransactionOptions {
			return sop.TransactionOptions{Mode: mode, MaxTime: w.MaxTime, StoresFolders: []string{w.Dir}, CacheType: sop.InMemory, RegistryHashModValue: w.HashMod}
		}
		return &sopBackend{
			newTxn: func(mode sop.TransactionMode) (sop.Transaction, func(string) (txh.Store, error), func(txh.StoreOpts) (txh.Store, error), error) {
				tx, err := infs.NewTransaction(ctx, opts(mode))
				if err != nil {
					return nil, nil, nil, err
				}
				return tx, func(name string) (txh.Store, error) { return infs.OpenBtree[int, string](ctx, name, tx, nil) },
					func(o txh.StoreOpts) (txh.Store, error) {
						return infs.NewBtree[int, string](ctx, storeOptions(o), tx, nil)
					}, nil
			},
		}, nil
	case "infsRepl":
		folders := []string{filepath.Join(w.Dir, "a"), filepath.Join(w.Dir, "p")}
		drives := []string{filepath.Join(w.Dir, "d0"), filepath.Join(w.Dir, "d1"), filepath.Join(w.Dir, "d2")}
		for _, d := range append(append([]string{}, folders...), drives...) {
			if err := os.MkdirAll(d, 0o755); err != nil {
				return nil, err
			}
		}
		ec := map[string]sop.ErasureCodingConfig{"": {DataShardsCount: 2, ParityShardsCount: 1, BaseFolderPathsAcrossDrives: drives, RepairCorruptedShards: true}}
		opts := func(mode sop.TransactionMode) sop.TransactionOptions {
			return sop.TransactionOptions{Mode: mode, MaxTime: w.MaxTime, StoresFolders: folders, ErasureConfig: ec, CacheType: sop.InMemory, RegistryHashModValue: w.HashMod}
		}
		return &sopBackend{
			newTxn: func(mode sop.TransactionMode) (sop.Transaction, func(string) (txh.Store, error), func(txh.StoreOpts) (txh.Store, error), error) {
				tx, err := infs.NewTransactionWithReplication(ctx, opts(mode))
				if err != nil {
					return nil, nil, nil, err
				}
				return tx, func(name string) (txh.Store, error) {
						return infs.OpenBtreeWithReplication[int, string](ctx, name, tx, nil)
					},
					func(o txh.StoreOpts) (txh.Store, error) {
						return infs.NewBtreeWithReplication[int, string](ctx, storeOptions(o), tx, nil)
					}, nil
			},
		}, nil
	}
	return nil, fmt.Errorf("unknown flavor %q", w.Flavor)
}

func doRaceOp(b txh.Store, op txh.Op) error {
	switch op.Kind {
	case "scan":
		_, err := txh.Scan(b)
		return err
	case "count":
		_ = b.Count()
		return nil
	}
	return doOp(b, op)
}

func runWorkload(w workload) (res wlResult) {
	ctx := context.Background()
	if w.SmallCaches {
		cache.DefaultMinCapacity, cache.DefaultMaxCapacity = 2, 4
		cache.DefaultStandaloneMinCapacity, cache.DefaultStandaloneMaxCapacity = 2, 4
		cache.DefaultInMemoryCacheShardCapacity = 1
	}
	if w.Phase == "seed" {
		txh.SeedUUIDs(w.UUIDSeed)
	} else {
		txh.SeedUUIDs(w.UUIDSeed ^ 0x5bd1e9955bd1e995) // another stream: the seeding process used the first one
	}
	be, err := makeBackend(w)
	if err != nil {
		res.HarnessErr = "HARNESS-ERROR " + err.Error()
		return
	}
	// seed: every store created and filled in one separate transaction (in a process of its own)
	if w.Phase == "seed" {
		tx, _, create, err := be.newTxn(sop.ForWriting)
		if err == nil {
			err = tx.Begin(ctx)
		}
		if err != nil {
			res.HarnessErr = "HARNESS-ERROR seed begin: " + err.Error()
			return
		}
		for i, so := range w.Stores {
			b, err := create(so)
			if err != nil {
				res.HarnessErr = "HARNESS-ERROR seed create: " + err.Error()
				return
			}
			for _, k := range w.Seed[i] {
				if _, err := b.Add(ctx, k, fmt.Sprintf("seed%d", k)); err != nil {
					res.HarnessErr = "HARNESS-ERROR seed add: " + err.Error()
					return
				}
			}
		}
		if err := tx.Commit(ctx); err != nil {
			res.HarnessErr = "HARNESS-ERROR seed commit: " + err.Error()
			return
		}
		return
	}
	// which stores are shared by at least two goroutines
	users := map[int]map[int]bool{}
	for g, txns := range w.G {
		for _, x := range txns {
			for _, op := range x.Ops {
				if users[op.S] == nil {
					users[op.S] = map[int]bool{}
				}
				users[op.S][g] = true
			}
		}
	}
	shared := map[int]bool{}
	for s, u := range users {
		if len(u) >= 2 {
			shared[s] = true
			res.SharedStore = true
		}
	}
	var inside, maxInside atomic.Int32
	enter := func(sh bool) func() {
		if !sh {
			return func() {}
		}
		n := inside.Add(1)
		for {
			m := maxInside.Load()
			if n <= m || maxInside.CompareAndSwap(m, n) {
				break
			}
		}
		return func() { inside.Add(-1) }
	}
	var mu sync.Mutex // protects res counters (harness state; never held across an SOP call)
	start := make(chan struct{})
	var wg sync.WaitGroup
	for g := range w.G {
		wg.Add(1)
		go func(g int) {
			defer wg.Done()
			<-start
			for _, x := range w.G[g] {
				func() {
					txShared := false
					for _, op := range x.Ops {
						if shared[op.S] {
							txShared = true
						}
					}
					defer func() {
						if p := recover(); p != nil {
							mu.Lock()
							res.Panics = append(res.Panics, fmt.Sprintf("%v\n%s", p, sopFrames(debug.Stack())))
							mu.Unlock()
						}
					}()
					tx, open, create, err := be.newTxn(x.Mode)
					if err != nil {
						mu.Lock()
						res.OpErrs++
						mu.Unlock()
						return
					}
					leave := enter(txShared)
					err = tx.Begin(ctx)
					leave()
					if err != nil {
						return
					}
					handles := map[int]txh.Store{}
					failed := false
					if x.Create != "" {
						leave := enter(res.SharedStore) // the store repository is shared by everybody
						nb, err := create(txh.StoreOpts{Name: x.Create, Slot: 4, Unique: true})
						for _, k := range x.NewKeys {
							if err == nil {
								_, err = nb.Add(ctx, k, fmt.Sprintf("new%d", k))
							}
						}
						leave()
						if err != nil {
							failed = true
						}
					}
					for _, op := range x.Ops {
						if failed {
							break
						}
						leave := enter(shared[op.S])
						b, ok := handles[op.S]
						if !ok {
							if b, err = open(w.Stores[op.S].Name); err == nil {
								handles[op.S] = b
							}
						}
						if err == nil {
							err = doRaceOp(b, op)
						}
						leave()
						if err != nil {
							failed = true
							break
						}
					}
					leave = enter(txShared)
					defer leave()
					if failed {
						mu.Lock()
						res.OpErrs++
						mu.Unlock()
						if tx.HasBegun() {
							tx.Rollback(ctx)
						}
						return
					}
					if x.End == "rollback" {
						tx.Rollback(ctx)
						return
					}
					err = tx.Commit(ctx)
					mu.Lock()
					if err != nil {
						res.CommitErrs++
					} else {
						res.Commits++
					}
					if x.Mode != sop.ForWriting {
						res.ReaderTxns++
					}
					mu.Unlock()
				}()
			}
		}(g)
	}
	close(start)
	wg.Wait()
	res.MaxInside = int(maxInside.Load())
	return
}

// ---- race log ------------------------------------------------------------------------------

type raceReport struct {
	Text   string
	Stacks [2][]string // function names, innermost first
	Access [2]string   // "Write at ... by goroutine N"
	Owner  [2]string   // first frame of the stack that belongs to SOP or to the harness
}

var raceAccessRE = regexp.MustCompile(`^(Previous )?(atomic )?(read|write|Read|Write) at 0x[0-9a-f]+ by (main )?goroutine`)

func parseRaceLog(text string) []raceReport {
	var out []raceReport
	for _, chunk := range strings.Split(text, "==================") {
		if !strings.Contains(chunk, "WARNING: DATA RACE") {
			continue
		}
		r := raceReport{Text: strings.TrimSpace(chunk)}
		idx := -1
		in := false
		for _, line := range strings.Split(chunk, "\n") {
			if raceAccessRE.MatchString(line) {
				idx++
				in = idx < 2
				if in {
					r.Access[idx] = strings.TrimSpace(line)
				}
				continue
			}
			if strings.TrimSpace(line) == "" {
				in = false
				continue
			}
			if in && strings.HasPrefix(line, "  ") && !strings.HasPrefix(line, "   ") {
				fn := strings.TrimSpace(line)
				if i := strings.LastIndex(fn, "("); i > 0 && strings.HasSuffix(fn, ")") {
					fn = fn[:i] // drop the argument list "()"
				}
				r.Stacks[idx] = append(r.Stacks[idx], fn)
			}
		}
		for i := 0; i < 2; i++ {
			for _, fn := range r.Stacks[i] {
				if strings.HasPrefix(fn, "github.com/sharedcode/sop") || strings.HasPrefix(fn, "verif/harness") {
					r.Owner[i] = fn
					break
				}
			}
		}
		out = append(out, r)
	}
	return out
}

func isSop(fn string) bool { return strings.HasPrefix(fn, "github.com/sharedcode/sop") }

// signature: the two access sites (function names, closures folded), order-independent.
func (r raceReport) signature() string {
	a := []string{strings.TrimPrefix(r.Owner[0], "github.com/sharedcode/sop/"), strings.TrimPrefix(r.Owner[1], "github.com/sharedcode/sop/")}
	sort.Strings(a)
	return a[0] + " | " + a[1]
}

// knownRaces maps signatures of listed findings to their slug (filled when a race is recorded as a known finding).
var knownRaces = map[string]string{}

// runChild executes the workload in a fresh process of this (race-instrumented) test binary and returns
// its result and the race reports written by the race detector.
func runChild(w workload) (wlResult, []raceReport, string, error) {
	var res wlResult
	dir, err := os.MkdirTemp("", "c36")
	if err != nil {
		return res, nil, "", fmt.Errorf("HARNESS-ERROR mkdtemp: %w", err)
	}
	defer os.RemoveAll(dir)
	w.Dir = filepath.Join(dir, "db")
	w.Out = filepath.Join(dir, "out.json")
	logBase := filepath.Join(dir, "race")
	var out []byte
	var runErr error
	for _, phase := range []string{"seed", "run"} {
		if w.Flavor == "selftest" && phase == "seed" {
			continue
		}
		w.Phase = phase
		os.Remove(w.Out)
		jb, _ := json.Marshal(w)
		jf := filepath.Join(dir, "job.json")
		if err := os.WriteFile(jf, jb, 0o644); err != nil {
			return res, nil, "", fmt.Errorf("HARNESS-ERROR %w", err)
		}
		cmd := exec.Command(os.Args[0], "-test.run=^TestWorker$", "-test.timeout=150s")
		cmd.Env = append(os.Environ(), "VERIF_JOB="+jf, "VERIF_STATS=", "GORACE=halt_on_error=0 log_path="+logBase+" history_size=3")
		out, runErr = cmd.CombinedOutput()
		if phase == "seed" {
			rb, rerr := os.ReadFile(w.Out)
			var sr wlResult
			if rerr != nil || json.Unmarshal(rb, &sr) != nil {
				return res, nil, "", fmt.Errorf("HARNESS-ERROR seeding worker wrote no result (exit: %v): %s", runErr, tailStr(string(out), 1500))
			}
			if sr.HarnessErr != "" {
				return sr, nil, "", nil
			}
		}
	}
	var logText strings.Builder
	files, _ := filepath.Glob(logBase + ".*")
	sort.Strings(files)
	for _, f := range files {
		b, _ := os.ReadFile(f)
		logText.Write(b)
		logText.WriteString("\n")
	}
	rb, rerr := os.ReadFile(w.Out)
	if rerr != nil {
		return res, nil, logText.String(), fmt.Errorf("HARNESS-ERROR worker wrote no result (exit: %v): %s", runErr, tailStr(string(out), 1500))
	}
	if err := json.Unmarshal(rb, &res); err != nil {
		return res, nil, logText.String(), fmt.Errorf("HARNESS-ERROR worker result: %w", err)
	}
	return res, parseRaceLog(logText.String()), logText.String(), nil
}

func tailStr(s string, n int) string {
	if len(s) > n {
		return s[len(s)-n:]
	}
	return s
}

func raceBuild() bool {
	bi, ok := debug.ReadBuildInfo()
	if !ok {
		return false
	}
	for _, s := range bi.Settings {
		if s.Key == "-race" && s.Value == "true" {
			return true
		}
	}
	return false
}

// ---- the check -----------------------------------------------------------------------------

func TestC36_ConcurrentUseIsRaceFree(t *testing.T) {
	if !raceBuild() {
		t.Fatalf("HARNESS-ERROR this check needs a test binary built with -race (checks.d run entry \"race\": true)")
	}
	rec := stats.For("C36").Meta("exploration",
		"rapid-generated free-running workloads run in a child process of the -race test binary: 2-8 goroutines, each 1-3 transactions (ForWriting / ForReading / NoCheck, commit or rollback) of 1-5 operations (get, read-modify-write, update, add, upsert, remove, scan, count) on overlapping keys of pre-seeded stores that are shared by all, partly shared or private; slot 2-8, all five value placements (in node, separate, globally cached in L2, actively persisted), store cache configs (default / no cache / TTL); three compositions: harness-composed transaction (txh decorators), public infs API, public infs API with replication (2 folders) and erasure-coded blobs; every transaction calls Begin (the maintenance entry). Monitor: the Go race detector (GORACE halt_on_error=0 log_path): a report whose two access sites both belong to github.com/sharedcode/sop is a violation; a report whose access site is harness code is a harness error. non-trivial = the sampled counter saw >= 2 goroutines inside SOP calls on a shared store at one instant; distinct by workload rendering",
		"README: concurrent first commits into an empty store are unsupported; every store is created and seeded by a separate transaction first",
		"one goroutine per transaction, B-tree handles never shared between goroutines; in-memory L2 cache (standalone mode), one process",
		"the race detector only sees the interleavings that happened; functional outcomes (commit errors, C02's known panics) are counted, not judged")
	rapid.Check(t, func(t *rapid.T) {
		w := genWorkload(t)
		desc := w.render()
		res, reports, logText, err := runChild(w)
		if err != nil {
			t.Fatalf("%v\n%s", err, desc)
		}
		if res.HarnessErr != "" {
			t.Fatalf("%s\n%s", res.HarnessErr, desc)
		}
		var bad []raceReport
		for _, r := range reports {
			switch {
			case isSop(r.Owner[0]) && isSop(r.Owner[1]):
				if slug, ok := knownRaces[r.signature()]; ok && stats.Known("C36", slug) {
					rec.Exclude("race report with the signature of known finding C36/" + slug)
					continue
				}
				bad = append(bad, r)
			default:
				t.Fatalf("HARNESS-ERROR data race with an access site outside SOP (harness bug?):\n%s\nworkload: %s", r.Text, desc)
			}
		}
		if len(bad) > 0 {
			sigs := map[string]bool{}
			var sb strings.Builder
			for _, r := range bad {
				if sigs[r.signature()] {
					continue
				}
				sigs[r.signature()] = true
				fmt.Fprintf(&sb, "--- race between SOP access sites [%s]\n%s\n", r.signature(), r.Text)
			}
			h := sha1.Sum([]byte(desc))
			_ = os.WriteFile(fmt.Sprintf("replay-%x.json", h[:6]), mustJSON(map[string]any{"workload": w, "rendering": desc, "reports": sb.String()}), 0o644)
			t.Fatalf("C36 violated: the race detector reported %d data race(s) inside SOP (%d distinct):\n%s\nworkload: %s", len(bad), len(sigs), tailStr(sb.String(), 12000), desc)
		}
		if strings.Contains(logText, "WARNING: DATA RACE") && len(reports) == 0 {
			t.Fatalf("HARNESS-ERROR race log could not be parsed:\n%s", tailStr(logText, 3000))
		}
		readers, writers := 0, 0
		for _, txns := range w.G {
			for _, x := range txns {
				if x.Mode == sop.ForWriting {
					writers++
				} else {
					readers++
				}
			}
		}
		labels := []string{"flavor:" + w.Flavor, fmt.Sprintf("goroutines%d", len(w.G)), fmt.Sprintf("maxInside%d", min(res.MaxInside, 8))}
		if w.SmallCaches {
			labels = append(labels, "smallCaches(eviction)")
		}
		if res.SharedStore {
			labels = append(labels, "sharedStore")
		} else {
			labels = append(labels, "privateStoresOnly")
		}
		if readers > 0 && writers > 0 {
			labels = append(labels, "readersAndWriters")
		}
		if res.CommitErrs > 0 {
			labels = append(labels, "someCommitFailed")
		}
		if len(res.Panics) > 0 {
			labels = append(labels, "panicInWorkload(functional, see C02)")
		}
		for _, s := range w.Stores {
			labels = append(labels, "placement:"+txh.PlacementNames[s.Placement])
		}
		rec.Case(desc, res.MaxInside >= 2 && res.SharedStore, dedup(labels)...)
		rec.Sample(w.Flavor, map[string]any{"workload": desc, "result": res})
	})
}

func mustJSON(v any) []byte {
	b, err := json.MarshalIndent(v, "", " ")
	if err != nil {
		return []byte(fmt.Sprintf("%v", v))
	}
	return b
}

// ---- monitor self-test ---------------------------------------------------------------------

var seededRaceCounter int

// seededRace is a deliberate data race inside the harness (child process only).
func seededRace() wlResult {
	var wg sync.WaitGroup
	for g := 0; g < 2; g++ {
		wg.Add(1)
		go func() {
			defer wg.Done()
			for i := 0; i < 1000; i++ {
				seededRaceCounter++
			}
		}()
	}
	wg.Wait()
	return wlResult{MaxInside: seededRaceCounter % 2}
}

// TestC36_Monitor_SeesASeededRace: the whole pipeline (child process, GORACE log, parser, ownership rule) must
// report a race planted in harness code, and attribute it to the harness - otherwise the main test is blind.
func TestC36_Monitor_SeesASeededRace(t *testing.T) {
	if !raceBuild() {
		t.Fatalf("HARNESS-ERROR this check needs a test binary built with -race")
	}
	_, reports, logText, err := runChild(workload{Flavor: "selftest"})
	if err != nil {
		t.Fatalf("%v", err)
	}
	for _, r := range reports {
		if strings.HasPrefix(r.Owner[0], "verif/harness/timing.seededRace") && strings.HasPrefix(r.Owner[1], "verif/harness/timing.seededRace") {
			return
		}
	}
	t.Fatalf("HARNESS-ERROR the planted race was not reported/parsed (%d reports):\n%s", len(reports), tailStr(logText, 2000))
}
