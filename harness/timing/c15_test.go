package timing

import (
	"context"
	"errors"
	"fmt"
	"os"
	"runtime/debug"
	"sort"
	"strings"
	"sync"
	"sync/atomic"
	"testing"
	"time"

	"github.com/sharedcode/sop"
	"pgregory.net/rapid"

	"verif/harness/stats"
	"verif/harness/txh"
)

// allowance is the A of the property's oracle: one retry iteration, rollback I/O, machine load.
const allowance = 5 * time.Second

// slugWaits is the (candidate) finding "the lock waits below the transaction manager (registry sector lock: 3 minutes,
// store-info lock: sop.Retry, 12 s) look at the caller's context only, a commit's maxTime does not bound them".
const slugWaits = "lock-waits-below-transaction-manager-ignore-maxtime"

var (
	knownWaits    = stats.Known("C15", slugWaits)
	knownSnapshot = stats.Known("C02", "inconsistent-snapshot-while-others-commit")
)

// ---- case description ----------------------------------------------------------------------

type partSpec struct {
	Prog    txh.TxnProg
	MaxTime time.Duration
	CtxMode string        // none | shorter | longer
	Ctx     time.Duration // 0 = no caller deadline
	Order   string
}

func (p partSpec) budget() time.Duration {
	if p.Ctx > 0 && p.Ctx < p.MaxTime {
		return p.Ctx
	}
	return p.MaxTime
}

type caseSpec struct {
	HashMod  int
	Stores   []txh.StoreOpts
	Seed     [][]int
	Parts    []partSpec
	Scenario string // plain | stalled | dead | sector | storeLock ; in stalled/dead/sector participant 0 is the lock holder
	Site     int    // stalled/dead: where inside phase 1 the holder stops (1..4)
	// Poll (dead holder): while the holder's lock TTL runs, other writers keep retrying the same keys every ~150 ms
	// (each attempt inspects the dead holder's item locks); the TTL must still end.
	Poll bool
	Stall    time.Duration
	UUIDSeed uint64
	Barrier  bool
}

var siteNames = []string{"", "afterNodeLock", "afterRegistryReservation", "beforeStoreInfoUpdate", "afterStoreInfoUpdate"}

// holderIsP0: participant 0 is the lock holder stopped by the harness (its own Commit time is not judged).
func (c caseSpec) holderIsP0() bool {
	return c.Scenario == "stalled" || c.Scenario == "dead" || c.Scenario == "sector"
}

func (c caseSpec) render() string {
	var sb strings.Builder
	fmt.Fprintf(&sb, "mod=%d uuid=%x %s", c.HashMod, c.UUIDSeed, c.Scenario)
	if c.Scenario == "stalled" || c.Scenario == "dead" {
		fmt.Fprintf(&sb, "@%s", siteNames[c.Site])
	}
	if c.Poll {
		sb.WriteString(" polled")
	}
	if c.Scenario != "plain" {
		fmt.Fprintf(&sb, " stall=%v", c.Stall)
	}
	if !c.Barrier {
		sb.WriteString(" nobarrier")
	}
	for i, s := range c.Stores {
		fmt.Fprintf(&sb, " {%s slot=%d %s seed=%v}", s.Name, s.Slot, txh.PlacementNames[s.Placement], c.Seed[i])
	}
	for i, p := range c.Parts {
		fmt.Fprintf(&sb, " p%d(max=%v ctx=%s:%v %s):%s", i, p.MaxTime, p.CtxMode, p.Ctx, p.Order, p.Prog)
	}
	return sb.String()
}

// ---- generator -----------------------------------------------------------------------------

func genCase(t *rapid.T) caseSpec {
	c := caseSpec{}
	c.HashMod = rapid.SampledFrom([]int{1, 1, 3, 16}).Draw(t, "hashMod")
	c.UUIDSeed = rapid.Uint64().Draw(t, "uuidSeed")
	ns := rapid.IntRange(1, 2).Draw(t, "nStores")
	domain := rapid.IntRange(6, 12).Draw(t, "domain")
	for i := 0; i < ns; i++ {
		c.Stores = append(c.Stores, txh.StoreOpts{
			Name: fmt.Sprintf("st%d", i), Unique: true,
			Slot:      rapid.SampledFrom([]int{2, 4, 4, 8}).Draw(t, fmt.Sprintf("slot%d", i)),
			Placement: rapid.SampledFrom([]int{0, 0, 1, 3}).Draw(t, fmt.Sprintf("placement%d", i)),
		})
		var seed []int
		for k := 0; k < domain; k++ {
			if rapid.IntRange(0, 3).Draw(t, fmt.Sprintf("seed%d.%d", i, k)) > 0 {
				seed = append(seed, k)
			}
		}
		for k := 0; len(seed) < 3; k++ { // README: never race on an empty store; and a few nodes are wanted
			if !containsInt(seed, k) {
				seed = append(seed, k)
			}
		}
		sort.Ints(seed)
		c.Seed = append(c.Seed, seed)
	}
	c.Scenario = rapid.SampledFrom([]string{"plain", "plain", "plain", "stalled", "stalled", "dead", "sector", "storeLock"}).Draw(t, "scenario")
	if s := os.Getenv("C15_SCENARIO"); s != "" { // development aid: look at one scenario only
		c.Scenario = s
	}
	if c.Scenario == "stalled" || c.Scenario == "dead" {
		c.Site = rapid.SampledFrom([]int{1, 2, 3, 4, 1, 2}).Draw(t, "site")
	}
	if c.Scenario == "dead" {
		c.Poll = rapid.Bool().Draw(t, "poll")
	}
	n := rapid.IntRange(2, 4).Draw(t, "writers")
	nHot := rapid.IntRange(1, 3).Draw(t, "nHot")
	hot := make([]int, nHot)
	for i := range hot {
		hot[i] = rapid.IntRange(0, domain-1).Draw(t, "hot")
	}
	tag := 0
	for w := 0; w < n; w++ {
		p := partSpec{Prog: txh.TxnProg{Mode: sop.ForWriting, End: "commit"}}
		p.MaxTime = rapid.SampledFrom([]time.Duration{300 * time.Millisecond, time.Second, 2 * time.Second}).Draw(t, fmt.Sprintf("maxTime%d", w))
		p.CtxMode = rapid.SampledFrom([]string{"none", "none", "shorter", "longer"}).Draw(t, fmt.Sprintf("ctx%d", w))
		holder := w == 0 && c.holderIsP0()
		if holder {
			p.CtxMode = "none" // the stalled participant is stopped by the harness, its own deadline is not the subject
		}
		switch p.CtxMode {
		case "shorter":
			p.Ctx = p.MaxTime / time.Duration(rapid.SampledFrom([]int{2, 4}).Draw(t, "ctxDiv"))
		case "longer":
			p.Ctx = 2 * p.MaxTime
		}
		nops := rapid.IntRange(1, 4).Draw(t, fmt.Sprintf("nops%d", w))
		kinds := []string{"upsert", "upsert", "update", "update", "rmw", "rmw", "add", "remove", "get"}
		for j := 0; j < nops; j++ {
			tag++
			op := txh.Op{S: rapid.IntRange(0, ns-1).Draw(t, "store"), Kind: rapid.SampledFrom(kinds).Draw(t, "kind")}
			if holder && j == 0 {
				op.Kind = "upsert" // the holder must have something to lock
			}
			if holder && j == 0 && c.Site >= 3 {
				// the store-info update only happens when the item count changes: add a key nobody seeded
				op.Kind, op.K = "add", domain
			} else if !holder && c.holderIsP0() && j == 0 && rapid.Bool().Draw(t, "nextToHolder") {
				// another item of (most likely) the node the holder locks: a node lock conflict, not an item conflict
				op.S = c.Parts[0].Prog.Ops[0].S
				op.K = c.Parts[0].Prog.Ops[0].K + rapid.SampledFrom([]int{-1, 1}).Draw(t, "side")
				if op.K < 0 {
					op.K = 1
				}
			} else if rapid.Bool().Draw(t, "useHot") {
				op.K = hot[rapid.IntRange(0, nHot-1).Draw(t, "hotIdx")]
			} else {
				op.K = rapid.IntRange(0, domain-1).Draw(t, "key")
			}
			if op.Kind != "remove" && op.Kind != "get" {
				op.Tag = fmt.Sprintf("w%d.%d", w, tag)
				op.Size = rapid.SampledFrom([]int{0, 10, 200}).Draw(t, "size")
			}
			p.Prog.Ops = append(p.Prog.Ops, op)
		}
		// opposite key order: the same key sets walked upwards by one writer and downwards by another
		p.Order = rapid.SampledFrom([]string{"asc", "desc", "asis"}).Draw(t, fmt.Sprintf("order%d", w))
		switch p.Order {
		case "asc":
			sort.SliceStable(p.Prog.Ops, func(a, b int) bool { return lessOp(p.Prog.Ops[a], p.Prog.Ops[b]) })
		case "desc":
			sort.SliceStable(p.Prog.Ops, func(a, b int) bool { return lessOp(p.Prog.Ops[b], p.Prog.Ops[a]) })
		}
		c.Parts = append(c.Parts, p)
	}
	if c.Scenario == "sector" {
		// The holder and the others must meet at a registry SECTOR lock, not at a node or item lock: one registry
		// block for the whole store (hash modulus 1), two items per node, and everybody's first operation on a
		// seeded key of store 0 at least two positions away from everybody else's (hence on another node).
		c.HashMod = 1
		c.Stores[0].Slot = 2
		for k := 0; len(c.Seed[0]) < 2*n+2; k++ {
			if !containsInt(c.Seed[0], k) {
				c.Seed[0] = append(c.Seed[0], k)
			}
		}
		sort.Ints(c.Seed[0])
		for w := range c.Parts {
			op := &c.Parts[w].Prog.Ops[0]
			op.S, op.K = 0, c.Seed[0][2*w]
			if op.Kind != "update" && op.Kind != "rmw" {
				op.Kind = "upsert"
			}
			if op.Tag == "" {
				op.Tag = fmt.Sprintf("w%d.s", w)
			}
		}
	}
	if c.Scenario == "storeLock" {
		// Somebody (modelled by the harness taking the lock the way StoreRepository.Update does) is stalled inside the
		// store-info update of store 0; every participant changes that store's item count, so its commit needs that lock.
		for w := range c.Parts {
			op := &c.Parts[w].Prog.Ops[0]
			op.S, op.K, op.Kind = 0, domain+w, "add"
			if op.Tag == "" {
				op.Tag = fmt.Sprintf("w%d.s", w)
			}
		}
	}
	c.Barrier = rapid.IntRange(0, 3).Draw(t, "barrier") > 0 || c.Scenario != "plain"
	maxBudget := time.Duration(0)
	for i, p := range c.Parts {
		if i == 0 && c.holderIsP0() {
			continue
		}
		if b := p.budget(); b > maxBudget {
			maxBudget = b
		}
	}
	switch c.Scenario {
	case "stalled":
		// The holder's locks live long (the documented TTLs are minutes; 20 s here) and it is stopped for longer than
		// every other budget PLUS the allowance: a writer that waits for the holder instead of giving up shows as an overrun.
		c.Parts[0].MaxTime = 20 * time.Second
		c.Stall = maxBudget + allowance + 1500*time.Millisecond
	case "dead":
		// never released while anybody is judged; its lock TTL (= its maxTime) outlives every other budget,
		// the follow-up writer waits for it
		c.Parts[0].MaxTime = maxBudget + time.Second
		c.Stall = 0
	case "sector", "storeLock":
		// long enough that waiting for the holder shows as an overrun of budget + allowance
		c.Stall = maxBudget + allowance + 2*time.Second
	}
	return c
}

func lessOp(a, b txh.Op) bool {
	if a.S != b.S {
		return a.S < b.S
	}
	return a.K < b.K
}

func containsInt(s []int, k int) bool {
	for _, x := range s {
		if x == k {
			return true
		}
	}
	return false
}

// ---- runner --------------------------------------------------------------------------------

type partResult struct {
	OpErr      error
	Panic      string
	CommitErr  error
	Committed  bool
	Began      bool // Commit was called
	Returned   bool // Commit returned
	CommitWall time.Duration
}

type caseResult struct {
	Parts         []partResult
	HolderStalled bool
	Follow        partResult
	FollowRan     bool
	Polls         int
	MaxLag        time.Duration // worst oversleep of a 5 ms heartbeat: how starved the process was
	HarnessErr    error
}

func seedStore(e *txh.Env, stores []txh.StoreOpts, seedKeys [][]int) error {
	if err := e.Setup(stores); err != nil {
		return err
	}
	models := make([]*txh.Model, len(stores))
	var ops []txh.Op
	for i, s := range stores {
		models[i] = &txh.Model{Unique: s.Unique}
		for _, k := range seedKeys[i] {
			ops = append(ops, txh.Op{S: i, Kind: "add", K: k, Tag: fmt.Sprintf("seed%d", k)})
		}
	}
	_, res := e.RunTxn(txh.TxnProg{Mode: sop.ForWriting, End: "commit", Ops: ops}, stores, models, txh.RunOpts{})
	if res.OpErr != nil || res.Mismatch != "" || res.CommitErr != nil {
		return fmt.Errorf("seed transaction: %v %s %v", res.OpErr, res.Mismatch, res.CommitErr)
	}
	return nil
}

func doOp(b txh.Store, op txh.Op) error {
	val := txh.MakeValue(op.Tag, op.Size)
	var err error
	switch op.Kind {
	case "get", "rmw":
		var ok bool
		if ok, err = b.Find(txh.Ctx, op.K, false); err != nil || !ok {
			return err
		}
		if _, err = b.GetCurrentValue(txh.Ctx); err != nil {
			return err
		}
		if op.Kind == "rmw" {
			_, err = b.UpdateCurrentValue(txh.Ctx, val)
		}
	case "update":
		_, err = b.Update(txh.Ctx, op.K, val)
	case "add":
		_, err = b.Add(txh.Ctx, op.K, val)
	case "upsert":
		_, err = b.Upsert(txh.Ctx, op.K, val)
	case "remove":
		_, err = b.Remove(txh.Ctx, op.K)
	default:
		err = fmt.Errorf("HARNESS-ERROR unknown op %q", op.Kind)
	}
	return err
}

// holderHook stops the holder once, at the chosen place inside its phase 1, after its node locks were granted.
type holderHook struct {
	site    int
	dead    bool
	lockOK  atomic.Bool
	armed   atomic.Bool
	fired   atomic.Bool
	stalled chan struct{}
	release chan struct{}
	at      atomic.Int64
}

func (h *holderHook) hook(s txh.Site) txh.Action {
	if !h.armed.Load() || !h.lockOK.Load() || h.fired.Load() {
		return txh.Action{}
	}
	m := false
	switch h.site {
	case 1: // nothing written yet, only the node (and item) locks are held
		m = !s.After && s.Comp == "L2" && s.Method == "IsLocked"
	case 2: // the updated nodes' inactive IDs are reserved in the registry
		m = s.After && s.Comp == "Registry" && s.Method == "UpdateNoLocks"
	case 3:
		m = !s.After && s.Comp == "StoreRepository" && s.Method == "Update"
	case 4:
		m = s.After && s.Comp == "StoreRepository" && s.Method == "Update"
	}
	if !m || !h.fired.CompareAndSwap(false, true) {
		return txh.Action{}
	}
	h.at.Store(time.Now().UnixNano())
	close(h.stalled)
	<-h.release
	if h.dead && !s.After {
		// the case is over: the "dead" participant's goroutine must end before the directory goes away
		return txh.Action{Err: txh.ErrInjected}
	}
	return txh.Action{}
}

func runCase(c caseSpec) (cr caseResult) {
	n := len(c.Parts)
	cr.Parts = make([]partResult, n)
	e, err := txh.NewEnv(c.HashMod)
	if err != nil {
		cr.HarnessErr = err
		return
	}
	defer e.Cleanup()
	txh.SeedUUIDs(c.UUIDSeed)
	defer txh.ResetUUIDs()
	if err := seedStore(e, c.Stores, c.Seed); err != nil {
		cr.HarnessErr = fmt.Errorf("HARNESS-ERROR %w", err)
		return
	}

	// heartbeat: how late does a 5 ms sleep wake up (process starvation under machine load)
	hbStop := make(chan struct{})
	var hbWG sync.WaitGroup
	var maxLag atomic.Int64
	hbWG.Add(1)
	go func() {
		defer hbWG.Done()
		for {
			select {
			case <-hbStop:
				return
			default:
			}
			t0 := time.Now()
			time.Sleep(5 * time.Millisecond)
			if lag := int64(time.Since(t0) - 5*time.Millisecond); lag > maxLag.Load() {
				maxLag.Store(lag)
			}
		}
	}()
	defer func() { close(hbStop); hbWG.Wait(); cr.MaxLag = time.Duration(maxLag.Load()) }()

	holderScenario := c.holderIsP0()
	var hh *holderHook
	var sc *stallCtl
	stalled := make(chan struct{})
	release := make(chan struct{})
	var releaseOnce sync.Once
	doRelease := func() { releaseOnce.Do(func() { close(release) }) }
	switch c.Scenario {
	case "stalled", "dead":
		hh = &holderHook{site: c.Site, dead: c.Scenario == "dead", stalled: stalled, release: release}
	case "sector":
		sc = &stallCtl{stalled: stalled, release: release}
	}
	defer doRelease()

	var opsDone sync.WaitGroup
	gates := make([]chan struct{}, n)
	done := make([]chan struct{}, n)
	for i := range gates {
		gates[i] = make(chan struct{})
		done[i] = make(chan struct{})
	}
	opsDone.Add(n)
	for i := 0; i < n; i++ {
		go func(i int) {
			r := &cr.Parts[i]
			defer close(done[i])
			var t *txh.Txn
			signalled := false
			defer func() {
				if p := recover(); p != nil {
					r.Panic = fmt.Sprintf("%v\n%s", p, sopFrames(debug.Stack()))
					if t != nil && t.Tx.HasBegun() && !r.Began {
						t.Tx.Rollback(txh.Ctx)
					}
				}
				if !signalled {
					opsDone.Done()
				}
			}()
			var err error
			t, err = e.NewTxn(txh.TxnOptions{Mode: sop.ForWriting, MaxTime: c.Parts[i].MaxTime})
			if err != nil {
				r.OpErr = fmt.Errorf("HARNESS-ERROR NewTxn: %w", err)
				return
			}
			t.Record = false
			t.PassThroughPLogRemove.Store(true)
			if i == 0 && hh != nil {
				t.LockResult = func(ok bool) { hh.lockOK.Store(ok) }
				t.SetHook(hh.hook)
			}
			if err := t.Tx.Begin(txh.Ctx); err != nil {
				r.OpErr = fmt.Errorf("Begin: %w", err)
				return
			}
			handles := map[int]txh.Store{}
			for _, op := range c.Parts[i].Prog.Ops {
				b, ok := handles[op.S]
				if !ok {
					if b, err = txh.OpenBtree[int, string](t, c.Stores[op.S].Name); err != nil {
						r.OpErr = fmt.Errorf("open: %w", err)
						break
					}
					handles[op.S] = b
				}
				if err := doOp(b, op); err != nil {
					r.OpErr = fmt.Errorf("%s: %w", op, err)
					break
				}
			}
			if r.OpErr != nil {
				if t.Tx.HasBegun() {
					t.Tx.Rollback(txh.Ctx)
				}
				return
			}
			signalled = true
			opsDone.Done()
			<-gates[i]
			ctx := txh.Ctx
			if i == 0 && sc != nil {
				ctx = context.WithValue(ctx, stallKey{}, sc)
			}
			if d := c.Parts[i].Ctx; d > 0 {
				var cancel context.CancelFunc
				ctx, cancel = context.WithTimeout(ctx, d)
				defer cancel()
			}
			if i == 0 && hh != nil {
				hh.armed.Store(true)
			}
			r.Began = true
			t0 := time.Now()
			err = t.Tx.Commit(ctx)
			r.CommitWall = time.Since(t0)
			r.Returned = true
			r.CommitErr = err
			r.Committed = err == nil
		}(i)
	}

	// coordinator
	storeUnlock := func() {}
	if c.Barrier {
		opsDone.Wait()
	}
	if holderScenario {
		close(gates[0])
		select {
		case <-stalled:
			cr.HolderStalled = true
		case <-done[0]:
		case <-time.After(5 * time.Second):
		}
		for i := 1; i < n; i++ {
			close(gates[i])
		}
		if c.Scenario != "dead" && cr.HolderStalled {
			tm := time.AfterFunc(c.Stall, doRelease)
			defer tm.Stop()
		}
	} else {
		if c.Scenario == "storeLock" {
			// what StoreRepository.Update does first: DualLock of "<base folder>:<store name>" (TTL 15 minutes)
			lk := e.L2.CreateLockKeys([]string{e.Dir + ":" + c.Stores[0].Name})
			if ok, _, err := e.L2.DualLock(txh.Ctx, 15*time.Minute, lk); ok && err == nil {
				cr.HolderStalled = true
				var once sync.Once
				unlock := func() { once.Do(func() { e.L2.Unlock(txh.Ctx, lk) }) }
				tm := time.AfterFunc(c.Stall, unlock)
				defer tm.Stop()
				defer unlock()
				storeUnlock = unlock
			}
		}
		for i := 0; i < n; i++ {
			close(gates[i])
		}
	}
	// everybody (except a dead holder) has to come back; a participant that is still inside Commit long after
	// budget + allowance is recorded as such and the case goes on so that its goroutine can be collected
	deadline := time.Now().Add(c.Stall + 2*time.Second + 2*allowance + 10*time.Second)
	for i := 0; i < n; i++ {
		if i == 0 && c.Scenario == "dead" && cr.HolderStalled {
			continue
		}
		select {
		case <-done[i]:
		case <-time.After(time.Until(deadline)):
			// release whatever we hold back and wait for real: a hang here ends in the test timeout (inconclusive)
			doRelease()
			<-done[i]
		}
	}

	storeUnlock()
	// follow-up writer on the same keys, once the holder's lock TTL (its maxTime) has passed
	// (a stalled holder has returned by now and has to have released its locks itself)
	if c.Scenario == "dead" && cr.HolderStalled {
		stallAt := hh.at.Load()
		end := time.Unix(0, stallAt).Add(c.Parts[0].MaxTime + 150*time.Millisecond)
		for c.Poll && time.Until(end) > 200*time.Millisecond {
			runFollowUp(e, c) // a retrying writer: refused (or timed out) while the dead holder's locks live
			cr.Polls++
			time.Sleep(150 * time.Millisecond)
		}
		if wait := time.Until(end); wait > 0 {
			time.Sleep(wait)
		}
	}
	cr.Follow = runFollowUp(e, c)
	cr.FollowRan = true
	if c.Scenario == "dead" {
		doRelease()
		<-done[0]
	}
	return
}

const followMaxTime = 500 * time.Millisecond

// runFollowUp: one writer alone, blind upserts of every key the participants touched.
func runFollowUp(e *txh.Env, c caseSpec) (r partResult) {
	defer func() {
		if p := recover(); p != nil {
			r.Panic = fmt.Sprintf("%v\n%s", p, sopFrames(debug.Stack()))
		}
	}()
	t, err := e.NewTxn(txh.TxnOptions{Mode: sop.ForWriting, MaxTime: followMaxTime})
	if err != nil {
		r.OpErr = fmt.Errorf("HARNESS-ERROR NewTxn: %w", err)
		return
	}
	t.Record = false
	t.PassThroughPLogRemove.Store(true)
	if err := t.Tx.Begin(txh.Ctx); err != nil {
		r.OpErr = fmt.Errorf("Begin: %w", err)
		return
	}
	type sk struct{ s, k int }
	seen := map[sk]bool{}
	var keys []sk
	for _, p := range c.Parts {
		for _, op := range p.Prog.Ops {
			if x := (sk{op.S, op.K}); !seen[x] {
				seen[x] = true
				keys = append(keys, x)
			}
		}
	}
	sort.Slice(keys, func(a, b int) bool {
		if keys[a].s != keys[b].s {
			return keys[a].s < keys[b].s
		}
		return keys[a].k < keys[b].k
	})
	handles := map[int]txh.Store{}
	for _, x := range keys {
		b, ok := handles[x.s]
		if !ok {
			if b, err = txh.OpenBtree[int, string](t, c.Stores[x.s].Name); err != nil {
				r.OpErr = fmt.Errorf("follow-up open: %w", err)
				return
			}
			handles[x.s] = b
		}
		if _, err := b.Upsert(txh.Ctx, x.k, fmt.Sprintf("follow.%d", x.k)); err != nil {
			r.OpErr = fmt.Errorf("follow-up upsert(%d): %w", x.k, err)
			t.Tx.Rollback(txh.Ctx)
			return
		}
	}
	r.Began = true
	t0 := time.Now()
	err = t.Tx.Commit(txh.Ctx)
	r.CommitWall = time.Since(t0)
	r.Returned = true
	r.CommitErr = err
	r.Committed = err == nil
	return
}

func sopFrames(b []byte) string {
	var keep []string
	for _, l := range strings.Split(string(b), "\n") {
		if strings.Contains(l, "sharedcode/sop") && len(keep) < 14 {
			keep = append(keep, strings.TrimSpace(l))
		}
	}
	return strings.Join(keep, "\n")
}

// ---- oracle --------------------------------------------------------------------------------

type verdict struct {
	overruns []string // timing: believed only when they reproduce on an unstarved re-run
	hard     []string // not timing: a lock left behind, a panic
	class    []string
	gaveUp   int
}

func isGiveUp(err error) bool {
	if err == nil {
		return false
	}
	var te sop.ErrTimeout
	if errors.As(err, &te) {
		return true
	}
	s := err.Error()
	return strings.Contains(s, "conflict") || strings.Contains(s, "timed out") || strings.Contains(s, "exceeded retry limit") ||
		strings.Contains(s, "deadline exceeded") || strings.Contains(s, "lock")
}

func judge(c caseSpec, cr caseResult) verdict {
	var v verdict
	holderScenario := c.holderIsP0()
	for i, p := range cr.Parts {
		who := fmt.Sprintf("p%d", i)
		if p.Panic != "" {
			v.hard = append(v.hard, fmt.Sprintf("%s panicked (Commit neither succeeded nor returned an error): %s", who, p.Panic))
			continue
		}
		if !p.Began {
			continue
		}
		if i == 0 && holderScenario && cr.HolderStalled {
			continue // stopped by the harness: its own Commit time says nothing
		}
		limit := c.Parts[i].budget() + allowance
		if p.CommitWall > limit {
			v.overruns = append(v.overruns, fmt.Sprintf("%s: Commit took %v, budget min(ctx %v, maxTime %v) + %v = %v (result: %v)",
				who, p.CommitWall.Round(time.Millisecond), c.Parts[i].Ctx, c.Parts[i].MaxTime, allowance, limit, p.CommitErr))
		}
		if isGiveUp(p.CommitErr) {
			v.gaveUp++
		}
	}
	if cr.FollowRan {
		f := cr.Follow
		switch {
		case f.Panic != "":
			v.hard = append(v.hard, "follow-up writer panicked: "+f.Panic)
		case f.OpErr != nil:
			v.hard = append(v.hard, fmt.Sprintf("follow-up writer could not run its upserts: %v", f.OpErr))
		default:
			if f.CommitWall > followMaxTime+allowance {
				v.overruns = append(v.overruns, fmt.Sprintf("follow-up: Commit took %v, budget %v + %v", f.CommitWall.Round(time.Millisecond), followMaxTime, allowance))
			}
			// Everybody who gave up has returned; the holder's locks have expired (stalled: it even finished). Only
			// a dead holder that stopped after it had reserved node IDs / published its count leaves more than
			// TTL-bounded locks behind - that is crash recovery (C08/C09), not this property.
			mustSucceed := !(c.Scenario == "dead" && cr.HolderStalled && c.Site != 1)
			if !f.Committed {
				if mustSucceed {
					v.hard = append(v.hard, fmt.Sprintf("follow-up writer (alone, after everyone returned and the holder's TTL passed) failed: %v", f.CommitErr))
				} else {
					v.class = append(v.class, "followUpFailedAfterDeadHolderWithReservations")
				}
			} else {
				v.class = append(v.class, "followUpCommitted")
				if cr.Polls > 0 {
					v.class = append(v.class, "deadHolderPolledWhileItsLocksRanOut")
				}
			}
		}
	}
	return v
}

// ---- the check -----------------------------------------------------------------------------

func TestC15_CommitsEndWithinBudget(t *testing.T) {
	rec := stats.For("C15").Meta("exploration",
		"2-4 free-running writer goroutines (real time, SOP's production retry jitter and sop.RetryStartDuration) over overlapping keys/nodes of 1-2 pre-seeded stores (slot 2-8, hash modulus 1-16), key sets walked in ascending/descending/given order, per-writer maxTime in {300 ms, 1 s, 2 s}, caller deadline none / maxTime/2 / 2*maxTime; scenarios: plain race, a STALLED lock holder (participant 0 stopped inside its phase 1 after its node locks were granted - at 4 places - for longer than every other budget, then released), a DEAD one (stopped until the case is over), a holder stalled inside a registry block write (sector lock held) and one stalled inside the store-info update (store lock held, taken by the harness the way StoreRepository.Update takes it). Oracle: every Commit returns within min(caller deadline, maxTime) + 5 s; afterwards a writer with maxTime 500 ms, alone, upserting every touched key commits (for the dead holder: after its maxTime = lock TTL, and only when it had nothing but locks). A single overrun is re-run and believed only if it reproduces while a 5 ms heartbeat never woke up more than 1 s late. non-trivial = some Commit returned a timeout/conflict error; distinct by full case rendering",
		"README: concurrent first commits into an empty store are unsupported; every store is pre-seeded in a separate transaction",
		"in-process transactions sharing the in-memory L2 cache; a stalled/dead lock holder is a goroutine blocked inside a backend call (slow disk / hung NFS), its locks live in the shared cache exactly like a remote process's would in Redis",
		"the stalled holder's own Commit duration is not judged")
	rapid.Check(t, func(t *rapid.T) {
		c := genCase(t)
		if knownSnapshot && !c.Barrier {
			// C02/inconsistent-snapshot-while-others-commit: operations racing with other commits may panic or miss keys
			rec.Exclude("operations of one writer overlapping another writer's commit (known finding C02/inconsistent-snapshot-while-others-commit): all operations finish before the first Commit starts")
			c.Barrier = true
		}
		if (c.Scenario == "sector" || c.Scenario == "storeLock") && knownWaits {
			rec.Exclude("a lock holder stalled inside a registry block write (sector lock) or inside the store-info update (store lock) while others commit (known finding C15/" + slugWaits + ")")
			c.Scenario, c.Stall = "plain", 0
		}
		desc := c.render()
		cr := runCase(c)
		if cr.HarnessErr != nil {
			t.Fatalf("%v\n%s", cr.HarnessErr, desc)
		}
		v := judge(c, cr)
		if len(v.hard) > 0 || len(v.overruns) > 0 {
			// timing-sensitive: run the very same case once more before believing anything
			cr2 := runCase(c)
			if cr2.HarnessErr != nil {
				t.Fatalf("%v\n%s", cr2.HarnessErr, desc)
			}
			v2 := judge(c, cr2)
			switch {
			case len(v.hard) > 0 && len(v2.hard) > 0:
				t.Fatalf("C15 violated (both runs of the case):\n  %s\nsecond run:\n  %s\ncase: %s\nresults: %s",
					strings.Join(v.hard, "\n  "), strings.Join(v2.hard, "\n  "), desc, renderResults(c, cr2))
			case len(v.overruns) > 0 && len(v2.overruns) > 0 && cr2.MaxLag < time.Second:
				t.Fatalf("C15 violated: Commit exceeded its time budget in both runs of the case (heartbeat lag %v / %v):\n  %s\nsecond run:\n  %s\ncase: %s\nresults: %s",
					cr.MaxLag, cr2.MaxLag, strings.Join(v.overruns, "\n  "), strings.Join(v2.overruns, "\n  "), desc, renderResults(c, cr2))
			}
			rec.Discard()
			if len(v.overruns) > 0 {
				rec.Label("discarded:overrunNotReproducedOrStarved")
			} else {
				rec.Label("discarded:failureNotReproduced")
			}
			rec.Sample("discarded", map[string]any{"case": desc, "first": append(v.hard, v.overruns...), "second": append(v2.hard, v2.overruns...),
				"lag": []string{cr.MaxLag.String(), cr2.MaxLag.String()}})
			return
		}
		labels := append([]string{"scenario:" + c.Scenario, fmt.Sprintf("writers%d", len(c.Parts))}, v.class...)
		if (c.Scenario == "sector" || c.Scenario == "storeLock") && !cr.HolderStalled {
			labels = append(labels, "holderNeverReachedStallPoint")
		}
		if c.Scenario == "stalled" || c.Scenario == "dead" {
			if cr.HolderStalled {
				labels = append(labels, c.Scenario+"@"+siteNames[c.Site])
			} else {
				labels = append(labels, "holderNeverReachedStallPoint")
			}
		}
		committed := 0
		opposite := map[string]bool{}
		for i, p := range cr.Parts {
			if p.Committed {
				committed++
			}
			if p.Began {
				labels = append(labels, "ctx:"+c.Parts[i].CtxMode, "maxTime:"+c.Parts[i].MaxTime.String())
				opposite[c.Parts[i].Order] = true
			}
			if p.CommitErr != nil {
				labels = append(labels, "err:"+errClass(p.CommitErr))
			}
			if p.OpErr != nil {
				labels = append(labels, "opError")
			}
		}
		if opposite["asc"] && opposite["desc"] {
			labels = append(labels, "oppositeKeyOrder")
		}
		labels = append(labels, fmt.Sprintf("committed%d", committed))
		if cr.MaxLag > 200*time.Millisecond {
			labels = append(labels, "heartbeatLag>200ms")
		}
		rec.Case(desc, v.gaveUp > 0, dedup(labels)...)
		rec.Sample(c.Scenario, map[string]any{"case": desc, "results": renderResults(c, cr)})
	})
}

func errClass(err error) string {
	s := err.Error()
	var te sop.ErrTimeout
	switch {
	case errors.As(err, &te) && te.Cause != nil:
		return "callerDeadline"
	case errors.As(err, &te):
		return "maxTimeTimeout"
	case strings.Contains(s, "deadline exceeded"):
		return "callerDeadline(raw)"
	case strings.Contains(s, "conflict"):
		return "conflict"
	case strings.Contains(s, "retry limit"):
		return "retryLimit"
	case strings.Contains(s, "refetchAndMerge"):
		return "refetchAndMerge"
	case strings.Contains(s, "injected"):
		return "injected"
	}
	return "other"
}

func dedup(in []string) []string {
	seen := map[string]bool{}
	var out []string
	for _, s := range in {
		if !seen[s] {
			seen[s] = true
			out = append(out, s)
		}
	}
	return out
}

func renderResults(c caseSpec, cr caseResult) string {
	var sb strings.Builder
	for i, p := range cr.Parts {
		fmt.Fprintf(&sb, "p%d{began=%v returned=%v wall=%v err=%v opErr=%v} ", i, p.Began, p.Returned, p.CommitWall.Round(time.Millisecond), short(p.CommitErr), short(p.OpErr))
	}
	fmt.Fprintf(&sb, "holderStalled=%v follow{wall=%v err=%v} lag=%v", cr.HolderStalled, cr.Follow.CommitWall.Round(time.Millisecond), short(cr.Follow.CommitErr), cr.MaxLag)
	return sb.String()
}

func short(err error) string {
	if err == nil {
		return "nil"
	}
	s := err.Error()
	if len(s) > 220 {
		s = s[:220] + "..."
	}
	return s
}
