package timing

import (
	"fmt"
	"strings"
	"testing"
	"time"

	"github.com/sharedcode/sop"

	"verif/harness/stats"
	"verif/harness/txh"
)

// sectorRepro is the first minimal form of C15/lock-waits-below-transaction-manager-ignore-maxtime, no rapid involved:
// one store (slot length 2, registry hash modulus 1 => one registry block), keys 0..7 seeded.
//
//	H: Upsert(0), Commit - stalls inside its first registry block write (the block's sector lock, TTL
//	   fs.LockFileRegionDuration = 5 min, is held) for `stall`, then goes on.
//	W: maxTime 1 s, NO caller deadline: Update(4) (another node, another item), Commit.
//
// W's commitUpdatedNodes calls registry.UpdateNoLocks -> hashmap.set -> updateFileBlockRegion ->
// lockFileBlockRegionWithRetry, which retries for lockSectorRetryTimeoutDuration = 3 MINUTES and looks at
// nothing but the context: W comes back only when H is released.
func sectorRepro(stall time.Duration) (caseSpec, caseResult) {
	w := func(k int, max time.Duration) partSpec {
		kind := "update"
		if k == 0 {
			kind = "upsert"
		}
		return partSpec{MaxTime: max, CtxMode: "none", Order: "asis",
			Prog: txh.TxnProg{Mode: sop.ForWriting, End: "commit", Ops: []txh.Op{{S: 0, Kind: kind, K: k, Tag: fmt.Sprintf("k%d", k), Size: 10}}}}
	}
	c := caseSpec{HashMod: 1, UUIDSeed: 15, Scenario: "sector", Stall: stall, Barrier: true,
		Stores: []txh.StoreOpts{{Name: "st0", Slot: 2, Unique: true, Placement: 0}},
		Seed:   [][]int{{0, 1, 2, 3, 4, 5, 6, 7}},
		Parts:  []partSpec{w(0, 2*time.Second), w(4, time.Second)},
	}
	return c, runCase(c)
}

func TestC15_Regress_RegistrySectorLockWaitIgnoresMaxTime(t *testing.T) {
	rec := stats.For("C15")
	stall := time.Second + allowance + 3*time.Second
	c, cr := sectorRepro(stall)
	if cr.HarnessErr != nil {
		t.Fatalf("%v", cr.HarnessErr)
	}
	if !cr.HolderStalled {
		t.Logf("the holder never reached a registry block write: %s", renderResults(c, cr))
		return
	}
	w := cr.Parts[1]
	t.Logf("holder stalled %v inside its registry block write; writer (maxTime 1s, no caller deadline): Commit took %v, err=%v", stall, w.CommitWall.Round(time.Millisecond), w.CommitErr)
	if w.CommitWall > time.Second+allowance {
		report(t, rec, fmt.Sprintf("%s: a writer with maxTime 1s and no caller deadline whose registry write needs the sector (block) lock of a stalled writer stayed in Commit for %v = as long as the holder was stalled (fs hashmap lockFileBlockRegionWithRetry / findAndAdd retry for lockSectorRetryTimeoutDuration = 3 min and only look at the context deadline; the sector lock TTL is 5 min)",
			slugWaits, w.CommitWall.Round(100*time.Millisecond)))
	}
}

// storeLockRepro, second form: somebody is stalled inside StoreRepository.Update of store st0 (the harness holds
// "<base folder>:st0" the way Update does, TTL 15 min). W (maxTime 300 ms, no caller deadline) adds one key: its
// commitStores -> StoreRepository.Update -> sop.Retry(Fibonacci from sop.RetryStartDuration = 1 s, 5 retries) waits
// 1+1+2+3+5 = 12 s whatever maxTime says.
func storeLockRepro(stall time.Duration) (caseSpec, caseResult) {
	w := func(k int, max time.Duration) partSpec {
		return partSpec{MaxTime: max, CtxMode: "none", Order: "asis",
			Prog: txh.TxnProg{Mode: sop.ForWriting, End: "commit", Ops: []txh.Op{{S: 0, Kind: "add", K: k, Tag: fmt.Sprintf("k%d", k), Size: 10}}}}
	}
	c := caseSpec{HashMod: 3, UUIDSeed: 16, Scenario: "storeLock", Stall: stall, Barrier: true,
		Stores: []txh.StoreOpts{{Name: "st0", Slot: 4, Unique: true, Placement: 0}},
		Seed:   [][]int{{0, 1, 2, 3}},
		Parts:  []partSpec{w(10, 300*time.Millisecond)},
	}
	return c, runCase(c)
}

func TestC15_Regress_StoreLockWaitIgnoresMaxTime(t *testing.T) {
	rec := stats.For("C15")
	c, cr := storeLockRepro(300*time.Millisecond + allowance + 2*time.Second)
	if cr.HarnessErr != nil {
		t.Fatalf("%v", cr.HarnessErr)
	}
	t.Logf("%s", renderResults(c, cr))
	w := cr.Parts[0]
	if cr.HolderStalled && w.CommitWall > 300*time.Millisecond+allowance {
		report(t, rec, fmt.Sprintf("%s: a writer with maxTime 300ms and no caller deadline whose commit has to update the item count of a store whose store-info lock is held by a stalled writer stayed in Commit for %v (StoreRepository.Update retries the lock through sop.Retry, Fibonacci from sop.RetryStartDuration = 1 s, 5 retries = 12 s, and only looks at the context deadline; result: %v)",
			slugWaits, w.CommitWall.Round(100*time.Millisecond), w.CommitErr))
	}
}

// report: the finding is fixed in /repo (see known_findings.json "fixed"); were it listed again it is reported as
// known, otherwise its return is a violation.
func report(t *testing.T, rec *stats.Rec, what string) {
	if stats.Known("C15", slugWaits) {
		rec.KnownFinding(what)
		return
	}
	t.Fatalf("%s", what)
}

// TestC15_DeadHolderPolled (always on): a writer dies right after its locks were granted (maxTime = lock TTL 1 s);
// another writer keeps retrying the same item every ~150 ms while that TTL runs; once it has passed, a writer
// must get through. A lock check that refreshes the lock it inspects would keep the dead holder's lock alive.
func TestC15_DeadHolderPolled(t *testing.T) {
	rec := stats.For("C15")
	for _, max := range []time.Duration{time.Second, 2 * time.Second} {
		w := func(k int, m time.Duration) partSpec {
			return partSpec{MaxTime: m, CtxMode: "none", Order: "asis",
				Prog: txh.TxnProg{Mode: sop.ForWriting, End: "commit", Ops: []txh.Op{{S: 0, Kind: "update", K: k, Tag: fmt.Sprintf("k%d", k), Size: 10}}}}
		}
		c := caseSpec{HashMod: 1, UUIDSeed: 77, Scenario: "dead", Site: 1, Poll: true, Stall: max + 3*time.Second, Barrier: true,
			Stores: []txh.StoreOpts{{Name: "st0", Slot: 4, Unique: true, Placement: 0}},
			Seed:   [][]int{{0, 1, 2, 3, 4, 5}},
			Parts:  []partSpec{w(2, max), w(2, 300*time.Millisecond)},
		}
		var v verdict
		var cr caseResult
		for attempt := 0; attempt < 2; attempt++ {
			cr = runCase(c)
			if cr.HarnessErr != nil {
				t.Fatalf("%v", cr.HarnessErr)
			}
			if !cr.HolderStalled {
				t.Fatalf("HARNESS-ERROR the holder never reached its stall point: %s", renderResults(c, cr))
			}
			v = judge(c, cr)
			if len(v.hard) == 0 {
				break
			}
		}
		if len(v.hard) > 0 {
			t.Fatalf("C15 violated (twice): a dead lock holder (maxTime %v) polled %d times by a retrying writer still blocks writers after its lock TTL: %s\n%s", max, cr.Polls, strings.Join(v.hard, "; "), renderResults(c, cr))
		}
		rec.Case(c.render(), true, "deadHolderPolledWhileItsLocksRanOut", "scenario:dead")
	}
}
