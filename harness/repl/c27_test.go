package repl

import (
	"context"
	"encoding/json"
	"fmt"
	"os"
	"path/filepath"
	"sort"
	"strings"
	"testing"

	"github.com/sharedcode/sop"
	"github.com/sharedcode/sop/btree"
	"github.com/sharedcode/sop/fs"
	"github.com/sharedcode/sop/infs"
	"pgregory.net/rapid"

	"verif/harness/stats"
)

const c27Rule = "histories of create store / committed add-update-upsert-remove transactions / drop store (infs.RemoveBtree with both folders) on a replicated environment (2 store folders + EC drives, in-memory L2, registry hash modulus 2-5), with soft restarts (the cached replication status is forgotten and re-read from replstat.txt), optionally one or two passive-side failures (segment path a directory, storeinfo.txt a directory, store folder a regular file, passive base folder a regular file, k-th direct-I/O block write below the passive folder fails) each first hit by a commit, optionally a reinstate attempt while still broken (must leave things consistent; commits made after it are replayed by the later reinstate), then repair + infs.ReinstateFailedDrives + more steps; oracle: a copy of the environment is read by two fresh child processes, one reads the active side, one fails over (fs.TriggerFailover, former active folder renamed away) and walks every store of GetStores; passive view == active view == reference model (names, items, Count); at a failure: the commit returns nil, a fresh child reading the active side == model (else a control run without the failure decides the blame), replstat.txt says FailedToReplicate; non-trivial = two commits touching one store, or a sabotage, or a store drop; distinct by rendered history"

// ---------------------------------------------------------------------------------------
// model
// ---------------------------------------------------------------------------------------

type mstore struct {
	opts  storeOpt
	items map[int]string
	// commits that touched this store since it was (re)created
	commits int
}

func (s *mstore) keys() []int {
	var ks []int
	for k := range s.items {
		ks = append(ks, k)
	}
	sort.Ints(ks)
	return ks
}

type storeOpt struct {
	Slot      int  `json:"slot"`
	InNode    bool `json:"in_node"`
	Balancing bool `json:"lb,omitempty"`
}

type model map[string]*mstore

func (m model) names() []string {
	n := make([]string, 0, len(m))
	for k := range m {
		n = append(n, k)
	}
	sort.Strings(n)
	return n
}

func (m model) view() []StoreDump {
	var out []StoreDump
	for _, n := range m.names() {
		s := m[n]
		d := StoreDump{Name: n, Count: int64(len(s.items))}
		for k := range s.items {
			d.Keys = append(d.Keys, k)
		}
		sort.Ints(d.Keys)
		for _, k := range d.Keys {
			d.Vals = append(d.Vals, s.items[k])
		}
		out = append(out, d)
	}
	return out
}

// diffView returns "" when the reader `got` (called gn) saw exactly `want` (called wn).
func diffView(want []StoreDump, got View, wname, gname string) string {
	if got.Err != "" {
		return gname + ": reader failed: " + got.Err
	}
	var wn, gn []string
	for _, s := range want {
		wn = append(wn, s.Name)
	}
	for _, s := range got.Stores {
		gn = append(gn, s.Name)
	}
	if strings.Join(wn, ",") != strings.Join(gn, ",") {
		return fmt.Sprintf("stores differ: %s [%s], %s [%s]", wname, strings.Join(wn, ","), gname, strings.Join(gn, ","))
	}
	for i, w := range want {
		g := got.Stores[i]
		if g.Err != "" {
			return fmt.Sprintf("store %s: %s: reader failed: %s", w.Name, gname, g.Err)
		}
		if len(w.Keys) != len(g.Keys) {
			return fmt.Sprintf("store %s: %s has %d items %v, %s has %d items %v", w.Name, wname, len(w.Keys), w.Keys, gname, len(g.Keys), g.Keys)
		}
		for j := range w.Keys {
			if w.Keys[j] != g.Keys[j] {
				return fmt.Sprintf("store %s: keys differ: %s %v, %s %v", w.Name, wname, w.Keys, gname, g.Keys)
			}
			if w.Vals[j] != g.Vals[j] {
				return fmt.Sprintf("store %s key %d: %s value %q, %s value %q", w.Name, w.Keys[j], wname, short(w.Vals[j]), gname, short(g.Vals[j]))
			}
		}
		if w.Count != g.Count {
			return fmt.Sprintf("store %s: same %d items, but Count() is %d on the %s and %d on the %s", w.Name, len(w.Keys), w.Count, wname, g.Count, gname)
		}
	}
	return ""
}

func short(s string) string {
	if len(s) > 40 {
		return fmt.Sprintf("%s...(%d bytes)", s[:40], len(s))
	}
	return s
}

// ---------------------------------------------------------------------------------------
// history
// ---------------------------------------------------------------------------------------

type op struct {
	K   string `json:"k"` // add upd ups rem
	Key int    `json:"key"`
	Pad int    `json:"pad,omitempty"`
}

type storeOps struct {
	Store string `json:"store"`
	Ops   []op   `json:"ops"`
}

type step struct {
	Kind    string     `json:"kind"`
	Store   string     `json:"store,omitempty"`
	Opt     *storeOpt  `json:"opt,omitempty"`
	Txn     []storeOps `json:"txn,omitempty"`
	Sab     string     `json:"sab,omitempty"`
	After   int        `json:"after,omitempty"`
	Keep    bool       `json:"keep,omitempty"`
	KeepOld bool       `json:"keep_old,omitempty"`
	Note    string     `json:"note,omitempty"`
}

var storeNames = []string{"s0", "s1", "s2"}

const (
	phNormal   = iota // replication on
	phBroken          // a passive path is unusable and a commit has hit it
	phRepaired        // path usable again, replication still marked failed
)

type fataler interface {
	Fatalf(format string, args ...any)
}

type runner struct {
	t        fataler
	rt       *rapid.T // generator only
	ctx      context.Context
	l        Layout
	m        model
	steps    []step
	labels   map[string]bool
	seq      int
	dropped  map[string]bool
	chk      int
	phase    int
	ps       *pathSabotage
	dio      *failingDIO
	sabKind  string
	sabStore string
	pending  bool // a sabotage is in place and no commit has run since
	control  bool // control run in a child: apply the operations, judge nothing
	noExcl   bool // regression replay of a listed finding: do not end the case at its class
	sabCount int
	maxKey   int
	logged   int // commits made after a failed reinstate attempt, before the reinstate
	// replayWindow: a reinstate attempt has failed and switched commit logging on; every commit until the successful
	// reinstate is replayed by its fast-forward
	replayWindow bool
	excluded     int
}

func (r *runner) label(s string) { r.labels[s] = true }

func (r *runner) fatalf(format string, a ...any) {
	hist, _ := json.Marshal(script{r.l.At(""), r.steps})
	r.t.Fatalf("%s\nscript: %s", fmt.Sprintf(format, a...), hist)
}

func (r *runner) harness(err error) {
	if err != nil {
		msg := err.Error()
		if !strings.Contains(msg, "HARNESS-ERROR") {
			msg = "HARNESS-ERROR: " + msg
		}
		r.t.Fatalf("%s", msg)
	}
}

func (r *runner) genOps(name string, mustAddNew bool) storeOps {
	s := r.m[name]
	so := storeOps{Store: name}
	n := rapid.IntRange(1, 7).Draw(r.rt, "nops")
	pads := []int{0, 0, 0, 40, 700, 6000}
	for i := 0; i < n; i++ {
		o := op{Key: rapid.IntRange(0, r.maxKey).Draw(r.rt, "key")}
		o.K = rapid.SampledFrom([]string{"add", "add", "ups", "upd", "rem", "rem"}).Draw(r.rt, "op")
		if r.updOnly() {
			// listed finding (fast-forward is not idempotent): between a failed reinstate attempt and the reinstate,
			// no commit creates or removes a node; value updates of existing items only
			if o.K != "upd" {
				r.excluded++
			}
			o.K = "upd"
			if keys := s.keys(); len(keys) > 0 {
				o.Key = keys[o.Key%len(keys)]
			}
		}
		if o.K != "rem" {
			o.Pad = rapid.SampledFrom(pads).Draw(r.rt, "pad")
		}
		so.Ops = append(so.Ops, o)
	}
	if mustAddNew && !r.updOnly() {
		// keys this store does not have and this transaction does not touch, so the commit
		// certainly writes a node handle and a registry block; and the net item count must
		// change, because a store's info is only rewritten (and replicated) when it does
		used := map[int]bool{}
		sim := map[int]bool{}
		for k := range s.items {
			sim[k] = true
		}
		for _, o := range so.Ops {
			used[o.Key] = true
			switch o.K {
			case "add", "ups":
				sim[o.Key] = true
			case "rem":
				delete(sim, o.Key)
			}
		}
		added := 0
		for k := 0; added == 0 || len(sim) == len(s.items); k++ {
			if _, has := s.items[k]; !has && !used[k] {
				so.Ops = append(so.Ops, op{K: "add", Key: k})
				sim[k] = true
				added++
			}
		}
	}
	return so
}

// updOnly: see genOps.
func (r *runner) updOnly() bool {
	return r.replayWindow && !r.noExcl && stats.Known("C27", slugFastForward)
}

// failing reports whether a passive-side failure is (or may still be) in effect.
func (r *runner) failing() bool { return r.phase != phNormal || r.pending }

// blame is called when the transaction API misbehaves (error, wrong result). While a
// passive-side failure is in effect that contradicts "without affecting the active side or the
// commit"; otherwise it is outside C27's statement (a defect of the commit path itself).
func (r *runner) blame(format string, a ...any) {
	if r.failing() {
		r.fatalf("while only the passive side is failing (sabotage %s on %s): %s", r.sabKind, r.sabStore, fmt.Sprintf(format, a...))
	}
	r.diverged(format, a...)
}

// applyTxn runs one committed transaction over existing stores (and optionally creates
// store `create` first, inside the same transaction).
func (r *runner) applyTxn(create string, copt *storeOpt, txn []storeOps) {
	ctx := r.ctx
	tx, err := infs.NewTransactionWithReplication(ctx, r.l.Options(sop.ForWriting))
	if err != nil {
		r.blame("NewTransactionWithReplication failed: %v", err)
	}
	if err := tx.Begin(ctx); err != nil {
		r.blame("Begin failed: %v", err)
	}
	trees := map[string]btree.BtreeInterface[int, string]{}
	if create != "" {
		b, err := infs.NewBtreeWithReplication[int, string](ctx, sop.StoreOptions{
			Name: create, SlotLength: copt.Slot, IsUnique: true,
			IsValueDataInNodeSegment: copt.InNode, LeafLoadBalancing: copt.Balancing,
		}, tx, nil)
		if err != nil {
			r.blame("NewBtreeWithReplication(%s) failed: %v", create, err)
		}
		trees[create] = b
		r.m[create] = &mstore{opts: *copt, items: map[int]string{}}
	}
	next := map[string]map[int]string{}
	for _, so := range txn {
		b := trees[so.Store]
		if b == nil {
			if b, err = infs.OpenBtreeWithReplication[int, string](ctx, so.Store, tx, nil); err != nil {
				r.blame("OpenBtreeWithReplication(%s) failed: %v", so.Store, err)
			}
			trees[so.Store] = b
		}
		items := next[so.Store]
		if items == nil {
			items = map[int]string{}
			for k, v := range r.m[so.Store].items {
				items[k] = v
			}
			next[so.Store] = items
		}
		for i, o := range so.Ops {
			r.seq++
			val := fmt.Sprintf("v%d.%d", r.seq, i)
			if o.Pad > 0 {
				val += strings.Repeat("x", o.Pad)
			}
			_, has := items[o.Key]
			var ok, want bool
			switch o.K {
			case "add":
				ok, err = b.Add(ctx, o.Key, val)
				want = !has
				if want {
					items[o.Key] = val
				}
			case "upd":
				ok, err = b.Update(ctx, o.Key, val)
				want = has
				if want {
					items[o.Key] = val
				}
			case "ups":
				ok, err = b.Upsert(ctx, o.Key, val)
				want = true
				items[o.Key] = val
			case "rem":
				ok, err = b.Remove(ctx, o.Key)
				want = has
				delete(items, o.Key)
			}
			if r.control {
				if err != nil {
					r.fatalf("control: %s(%s,%d) returned error %v", o.K, so.Store, o.Key, err)
				}
				continue
			}
			if err != nil {
				r.blame("%s(%s,%d) returned error %v", o.K, so.Store, o.Key, err)
			}
			if ok != want {
				// the view inside the transaction is not what was committed before
				_ = tx.Rollback(ctx)
				if r.failing() {
					// is the committed state on the active side still right? (decides the blame)
					r.activeAfterHit(fmt.Sprintf("%s(%s,%d) returned %v, the committed history says %v", o.K, so.Store, o.Key, ok, want), true)
				}
				r.diverged("%s(%s,%d) returned %v, the committed history says %v", o.K, so.Store, o.Key, ok, want)
			}
		}
	}
	if err := tx.Commit(ctx); err != nil {
		r.blame("Commit returned %v", err)
	}
	for n, items := range next {
		r.m[n].items = items
		r.m[n].commits++
		if r.m[n].commits >= 2 {
			r.label("nt:two-commits-one-store")
		}
	}
	if len(txn) > 1 {
		r.label("txn:multi-store")
	}
}

// viewJob runs one child job; a worker that died is a property failure (a panic inside SOP),
// anything marked HARNESS-ERROR is not.
func (r *runner) viewJob(why, mode string, l Layout) JobResult {
	res, err := runJob(mode, l)
	if err != nil {
		if strings.Contains(err.Error(), "HARNESS-ERROR") {
			r.harness(err)
		}
		r.fatalf("[%s] %v", why, err)
	}
	return res
}

// coreDivergence aborts a case whose ACTIVE side, with no failure injected (or exactly as in
// a control run without the failure), does not hold what the committed operations say. That
// is a defect of the commit path (other properties), not of replication: the statement
// compares the passive copy with the active side. The case is counted and written out, not failed.
type coreDivergence struct{ msg string }

// knownClass ends a case that has entered the class of a LISTED known finding.
type knownClass struct{ slug string }

func (r *runner) diverged(format string, a ...any) {
	panic(coreDivergence{fmt.Sprintf(format, a...)})
}

func viewBroken(v View) string {
	if v.Err != "" {
		return v.Err
	}
	for _, s := range v.Stores {
		if s.Err != "" {
			return "store " + s.Name + ": " + s.Err
		}
	}
	return ""
}

// checkpoint copies the environment and lets two fresh processes read the copy: one reads
// the active side as it is, the other fails over (fs.TriggerFailover, former active folder
// renamed away) and reads the passive copy. The statement's claim is passive == active; the
// model is compared afterwards, and only to notice that the case left C27's subject.
func (r *runner) checkpoint(why string) {
	r.chk++
	dst := fmt.Sprintf("%s.chk%d", r.l.Root, r.chk)
	defer os.RemoveAll(dst)
	r.harness(copyTree(r.l.Root, dst))
	cl := r.l.At(dst)
	act := r.viewJob(why, "view", cl)
	if e := viewBroken(act.View); e != "" {
		r.diverged("[%s] the active side cannot be read by a fresh process although nothing failed: %s", why, e)
	}
	if act.View.ActiveFolder != cl.Active() {
		r.fatalf("[%s] a fresh process reads from %s before any failover, expected %s", why, act.View.ActiveFolder, cl.Active())
	}
	res := r.viewJob(why, "failover", cl)
	if res.FailoverErr != "" {
		r.fatalf("[%s] fs.TriggerFailover failed: %s", why, res.FailoverErr)
	}
	if !res.Flipped || res.View.ActiveFolder != cl.Passive() {
		r.fatalf("[%s] fs.TriggerFailover did not switch to the passive folder (flipped=%v, reading from %q, status toggler=%v failed=%v)",
			why, res.Flipped, res.View.ActiveFolder, res.View.Toggler, res.View.Failed)
	}
	if d := diffView(act.View.Stores, res.View, "active side", "passive copy"); d != "" {
		r.fatalf("[%s] after failover the PASSIVE copy differs from the ACTIVE side (both read by fresh processes): %s", why, d)
	}
	if d := diffView(r.m.view(), act.View, "model", "active side"); d != "" {
		r.diverged("[%s] active and passive agree, but differ from the model: %s", why, d)
	}
	r.label("checkpoint:" + why)
}

// activeAfterHit: "without affecting the active side". The active side of a copy, read by a
// fresh process, must hold what the committed operations say. When it does not, a control
// run of the same history without the sabotage decides whether the passive failure is to blame.
func (r *runner) activeAfterHit(why string, dropLast bool) {
	r.chk++
	dst := fmt.Sprintf("%s.chk%d", r.l.Root, r.chk)
	defer os.RemoveAll(dst)
	r.harness(copyTree(r.l.Root, dst))
	cl := r.l.At(dst)
	res := r.viewJob(why, "view", cl)
	if res.View.ActiveFolder != cl.Active() {
		r.fatalf("[%s] a fresh process reads from %s, expected the active folder %s", why, res.View.ActiveFolder, cl.Active())
	}
	d := diffView(r.m.view(), res.View, "model", "active side")
	if d == "" {
		return
	}
	// control: same steps, no sabotage, fresh environment, run by a child process
	ctl := r.l.At(dst + ".ctl")
	defer os.RemoveAll(ctl.Root)
	var steps []step
	all := r.steps
	if dropLast {
		all = all[:len(all)-1]
	}
	for _, st := range all {
		switch st.Kind {
		case "create", "txn", "drop", "restart":
			steps = append(steps, st)
		}
	}
	if jr, err := runJobScript("control", ctl, steps); err != nil {
		r.harness(fmt.Errorf("HARNESS-ERROR: control run: %v", err))
	} else if jr.ControlErr != "" {
		r.diverged("[%s] the active side differs from the model (%s); the control run without the passive failure did not complete either: %s", why, d, jr.ControlErr)
	}
	cres := r.viewJob(why+" (control)", "view", ctl)
	if d2 := diffView(cres.View.Stores, res.View, "control run without the failure", "active side"); d2 != "" || viewBroken(cres.View) != "" {
		r.fatalf("[%s] the ACTIVE side, read by a fresh process, differs from the model AND from a control run of the same history without the passive failure: %s | vs control: %s %s", why, d, d2, viewBroken(cres.View))
	}
	r.diverged("[%s] the active side differs from the model, but exactly as in a control run without the passive failure: %s", why, d)
}

// ---------------------------------------------------------------------------------------
// executing one step (used by the generator and by the replay of a written-out history)
// ---------------------------------------------------------------------------------------

func (r *runner) exec(st step) {
	r.steps = append(r.steps, st)
	switch st.Kind {
	case "create":
		if r.dropped[st.Store] {
			r.label("create:same-name-after-drop")
		}
		if r.phase == phRepaired {
			r.label("create:while-marked-failed")
		}
		if !st.Opt.InNode {
			r.label("store:values-out-of-node")
		}
		r.applyTxn(st.Store, st.Opt, st.Txn)
	case "txn":
		switch r.phase {
		case phBroken:
			r.label("txn:while-broken")
		case phRepaired:
			r.label("txn:while-marked-failed")
		}
		r.applyTxn("", nil, st.Txn)
		if r.labels["reinstate:attempt-while-broken-failed"] && r.phase != phNormal {
			r.logged++
		}
		if r.pending && !r.control {
			r.afterHit()
		}
	case "drop":
		if err := infs.RemoveBtree(r.ctx, st.Store, r.l.Folders(), r.l.EC(), sop.InMemory); err != nil {
			r.blame("RemoveBtree(%s) failed: %v", st.Store, err)
		}
		delete(r.m, st.Store)
		r.dropped[st.Store] = true
		r.label("nt:drop")
		switch r.phase {
		case phBroken:
			r.label("drop:while-broken")
		case phRepaired:
			r.label("drop:while-marked-failed")
		}
	case "restart":
		forgetReplicationStatus(r.l)
		r.label("restart")
		if r.phase != phNormal {
			r.label("restart:while-failed")
		}
	case "check":
		r.checkpoint(st.Note)
	case "sabotage":
		var err error
		p := r.l.Passive()
		switch st.Sab {
		case "segdir":
			r.ps, err = sabotagePath(filepath.Join(p, st.Store, st.Store+"-1.reg"), true)
		case "infodir":
			r.ps, err = sabotagePath(filepath.Join(p, st.Store, "storeinfo.txt"), true)
		case "storefile":
			r.ps, err = sabotagePath(filepath.Join(p, st.Store), false)
		case "basefile":
			r.ps, err = sabotagePath(p, false)
		case "dio":
			r.dio = &failingDIO{base: fs.NewDirectIO(), prefix: p + string(os.PathSeparator), after: st.After, keep: st.Keep, armed: true}
			fs.DirectIOSim = r.dio
		default:
			err = fmt.Errorf("unknown sabotage %q", st.Sab)
		}
		r.harness(err)
		r.sabKind, r.sabStore = st.Sab, st.Store
		r.sabCount++
		r.pending = true
	case "repair":
		if r.ps != nil {
			r.harness(r.ps.repair(st.KeepOld))
			r.ps = nil
			if st.KeepOld {
				r.label("repair:old-content-back")
			} else {
				r.label("repair:empty-replacement")
			}
		}
		if r.dio != nil {
			r.dio.disarm()
			r.dio = nil
			fs.DirectIOSim = nil
			r.label("repair:io-works-again")
		}
		r.phase = phRepaired
	case "reinstate-early":
		// ReinstateFailedDrives while the passive path is still unusable: it has to fail (its copy step cannot write
		// there) and leaves commit logging switched on; commits made from then on are replayed ("fast-forward") by
		// the reinstate that follows the repair
		err := infs.ReinstateFailedDrives(r.ctx, r.l.Folders(), sop.InMemory)
		if err == nil {
			if d, found, e2 := readReplStat(r.l.Active()); e2 == nil && found && !d.FailedToReplicate {
				// it did not touch the unusable path and says all is well: not a history this check can judge
				panic(coreDivergence{"ReinstateFailedDrives returned nil while the passive path was still unusable"})
			}
		}
		r.label("reinstate:attempt-while-broken")
		if err != nil {
			r.label("reinstate:attempt-while-broken-failed")
			r.replayWindow = true
		}
	case "reinstate":
		if r.labels["reinstate:attempt-while-broken-failed"] && r.logged >= 2 {
			r.label("reinstate:fast-forwards-two-or-more-commits")
		}
		if !r.noExcl && !r.control && stats.Known("C27", slugReinstateStoreInfo) && r.inKnownReinstateClass() {
			// listed finding: the case ends here, by construction, before the reinstate
			panic(knownClass{slugReinstateStoreInfo})
		}
		if os.Getenv("VERIF_DEBUG") != "" {
			b, _ := json.Marshal(script{r.l.At(""), r.steps})
			fmt.Fprintf(os.Stderr, "DEBUG before reinstate: %s\n", b)
		}
		if err := infs.ReinstateFailedDrives(r.ctx, r.l.Folders(), sop.InMemory); err != nil {
			r.fatalf("ReinstateFailedDrives failed after the passive path was repaired: %v", err)
		}
		d, found, err := readReplStat(r.l.Active())
		if err != nil || !found || d.FailedToReplicate {
			r.fatalf("after ReinstateFailedDrives returned nil replstat.txt says found=%v %+v err=%v", found, d, err)
		}
		r.phase = phNormal
		r.sabKind = ""
		r.logged = 0
		r.replayWindow = false
		delete(r.labels, "reinstate:attempt-while-broken-failed")
		r.label("reinstate")
	default:
		r.harness(fmt.Errorf("unknown step kind %q", st.Kind))
	}
}

// afterHit runs right after the first commit that follows a sabotage and checks the three
// claims of the statement's second sentence (the commit itself was checked by applyTxn).
func (r *runner) afterHit() {
	r.pending = false
	kind := r.sabKind
	if kind == "dio" && r.dio.hits() == 0 {
		// the drawn write index lies beyond what this commit wrote below the passive folder
		r.dio.disarm()
		r.dio = nil
		fs.DirectIOSim = nil
		r.sabKind = ""
		r.label("sabotage:dio-missed")
		return
	}
	r.phase = phBroken
	r.label("nt:sabotage")
	r.label("sabotage:" + kind)

	// replication status says failed
	d, found, err := readReplStat(r.l.Active())
	if err != nil {
		r.fatalf("after a failed passive write (%s) %s/replstat.txt is unreadable: %v", kind, r.l.Active(), err)
	}
	if !found || !d.FailedToReplicate {
		r.fatalf("after a failed passive write (%s on %s) the replication status does not say failed: replstat.txt found=%v %+v", kind, r.sabStore, found, d)
	}
	if g := fs.GlobalReplicationDetails; g == nil || !g.FailedToReplicate || !g.ActiveFolderToggler {
		r.fatalf("after a failed passive write (%s) the in-process replication status is %+v, expected FailedToReplicate with the first folder still active", kind, g)
	}
	// the active side is unaffected
	r.activeAfterHit("active side right after the commit that hit sabotage "+kind, false)
}

// ---------------------------------------------------------------------------------------
// generator
// ---------------------------------------------------------------------------------------

func (r *runner) genCreate() step {
	var free []string
	for _, n := range storeNames {
		if r.m[n] == nil {
			free = append(free, n)
		}
	}
	name := rapid.SampledFrom(free).Draw(r.rt, "createName")
	opt := &storeOpt{
		Slot:      rapid.SampledFrom([]int{2, 4, 4, 8, 16}).Draw(r.rt, "slot"),
		InNode:    rapid.Bool().Draw(r.rt, "inNode"),
		Balancing: rapid.IntRange(0, 4).Draw(r.rt, "lb") == 0,
	}
	st := step{Kind: "create", Store: name, Opt: opt}
	if rapid.Bool().Draw(r.rt, "createWithItems") {
		r.m[name] = &mstore{opts: *opt, items: map[int]string{}} // for genOps
		st.Txn = []storeOps{r.genOps(name, false)}
		delete(r.m, name)
	}
	return st
}

func (r *runner) genTxn(must string, note string) step {
	names := r.m.names()
	var txn []storeOps
	if must != "" {
		txn = append(txn, r.genOps(must, true))
	}
	for _, n := range names {
		if n == must {
			continue
		}
		if (len(txn) == 0 && n == names[len(names)-1]) || rapid.IntRange(0, 1).Draw(r.rt, "touch") == 0 {
			txn = append(txn, r.genOps(n, false))
		}
	}
	return step{Kind: "txn", Txn: txn, Note: note}
}

func (r *runner) genDrop() step {
	return step{Kind: "drop", Store: rapid.SampledFrom(r.m.names()).Draw(r.rt, "dropName")}
}

var sabKinds = []string{"segdir", "infodir", "storefile", "basefile", "dio"}

func (r *runner) genSabotage() step {
	st := step{Kind: "sabotage",
		Store: rapid.SampledFrom(r.m.names()).Draw(r.rt, "sabStore"),
		Sab:   rapid.SampledFrom(sabKinds).Draw(r.rt, "sabKind")}
	if st.Sab == "dio" {
		st.After = rapid.IntRange(0, 3).Draw(r.rt, "dioAfter")
		st.Keep = rapid.Bool().Draw(r.rt, "dioKeep")
	}
	return st
}

func newRunner(t fataler, rt *rapid.T, root string, l Layout, maxKey int) *runner {
	return &runner{t: t, rt: rt, ctx: context.Background(), m: model{}, labels: map[string]bool{}, dropped: map[string]bool{}, l: l, maxKey: maxKey}
}

// script is a written-out case: what the replay test reads.
type script struct {
	Layout Layout `json:"layout"`
	Steps  []step `json:"steps"`
}

func TestC27_ReplicaFaithfulAndReinstated(t *testing.T) {
	rec := stats.For("C27").Meta("exploration", c27Rule,
		"store creation and the first hit of a passive failure by a store drop/creation are outside the statement (it speaks of commits): no store is created while a passive path is unusable, and the first operation after a sabotage is a commit touching the sabotaged store",
		"commits do not overlap a RUNNING ReinstateFailedDrives (single-threaded history); its fast-forward of logged commits is reached through a reinstate attempt that fails while the passive path is still unusable (commit logging stays on), commits made after it, then repair and a second reinstate",
		"the soft restart forgets only the cached replication status (fs.GlobalReplicationDetails and its L2 entry); every comparison is made by a real fresh process")
	maxSteps := stats.Pick(9, 14)
	rapid.Check(t, func(t *rapid.T) {
		root, err := os.MkdirTemp("", "c27-")
		if err != nil {
			t.Fatalf("HARNESS-ERROR: %v", err)
		}
		defer func() {
			os.RemoveAll(root)
			resetGlobals()
		}()
		resetGlobals()
		parity := rapid.IntRange(1, 2).Draw(t, "parity")
		l := Layout{Root: filepath.Join(root, "env"), Data: 2, Parity: parity, HashMod: rapid.IntRange(2, 5).Draw(t, "hashMod")}
		r := newRunner(t, t, root, l, rapid.SampledFrom([]int{7, 15, 40}).Draw(t, "maxKey"))
		if err := r.l.mkdirs(); err != nil {
			t.Fatalf("HARNESS-ERROR: %v", err)
		}
		maxSab := rapid.IntRange(0, 2).Draw(t, "maxSabotages")
		n := rapid.IntRange(3, maxSteps).Draw(t, "steps")
		record := func(extra ...string) {
			canon, _ := json.Marshal(script{r.l.At(""), r.steps})
			nontrivial := r.labels["nt:two-commits-one-store"] || r.labels["nt:sabotage"] || r.labels["nt:drop"]
			var labels []string
			for l := range r.labels {
				labels = append(labels, l)
			}
			sort.Strings(labels)
			if r.labels["nt:sabotage"] {
				labels = append(labels, "class:with-sabotage")
			} else {
				labels = append(labels, "class:no-sabotage")
			}
			for i := 0; i < r.excluded; i++ {
				rec.Exclude("operation turned into a value update: between a failed reinstate attempt and the reinstate no commit creates or removes a node (listed finding " + slugFastForward + ")")
			}
			rec.Case(string(canon), nontrivial, append(labels, extra...)...)
			switch {
			case r.labels["nt:sabotage"]:
				rec.Sample("sabotage", json.RawMessage(canon))
			case r.labels["nt:drop"]:
				rec.Sample("drop", json.RawMessage(canon))
			default:
				rec.Sample("plain", json.RawMessage(canon))
			}
		}
		defer func() {
			if p := recover(); p != nil {
				if kc, ok := p.(knownClass); ok {
					// everything up to the reinstate was checked; the rest is the listed class
					rec.Exclude(kc.slug)
					record("ended-before-reinstate:listed-finding")
					return
				}
				cd, ok := p.(coreDivergence)
				if !ok {
					panic(p)
				}
				// not C27's subject: counted, written out, not failed
				rec.Discard()
				rec.Label("discarded:active-side-or-api-wrong-without-any-failure")
				rec.Sample("core-divergence", map[string]any{"what": cd.msg, "script": script{r.l.At(""), r.steps}})
			}
		}()

		r.exec(r.genCreate())
		for i := 1; i < n; i++ {
			switch r.phase {
			case phNormal:
				var acts []string
				if len(r.m) > 0 {
					acts = append(acts, "txn", "txn", "txn", "drop", "check", "restart")
					if r.sabCount < maxSab {
						acts = append(acts, "sabotage", "sabotage")
					}
				}
				if len(r.m) < len(storeNames) {
					acts = append(acts, "create")
					if len(r.m) < 2 {
						acts = append(acts, "create")
					}
				}
				switch rapid.SampledFrom(acts).Draw(t, "act") {
				case "txn":
					r.exec(r.genTxn("", ""))
				case "drop":
					r.exec(r.genDrop())
				case "check":
					r.exec(step{Kind: "check", Note: "mid-history"})
				case "restart":
					r.exec(step{Kind: "restart"})
				case "create":
					r.exec(r.genCreate())
				case "sabotage":
					sab := r.genSabotage()
					r.exec(sab)
					if rapid.IntRange(0, 3).Draw(t, "restartBeforeHit") == 0 {
						r.exec(step{Kind: "restart"})
					}
					// the commit that hits it (exec checks the second sentence right after it)
					r.exec(r.genTxn(sab.Store, "first commit after the sabotage"))
				}
			case phBroken:
				acts := []string{"repair", "repair", "restart"}
				if len(r.m) > 0 {
					acts = append(acts, "txn", "txn")
					if !r.updOnly() {
						acts = append(acts, "drop")
					}
				}
				if r.ps != nil && len(r.m) > 0 {
					acts = append(acts, "reinstate-early", "reinstate-early")
				}
				switch rapid.SampledFrom(acts).Draw(t, "actBroken") {
				case "reinstate-early":
					// a failed attempt, the process restarts (commit logging is read from replstat.txt), then
					// usually several commits on one store, which the later reinstate has to replay in order
					r.exec(step{Kind: "reinstate-early"})
					if rapid.IntRange(0, 3).Draw(t, "restartAfterAttempt") > 0 {
						r.exec(step{Kind: "restart"})
					}
					names := r.m.names()
					if len(names) > 0 {
						st := rapid.SampledFrom(names).Draw(t, "loggedStore")
						for k, n := 0, rapid.IntRange(0, 3).Draw(t, "loggedCommits"); k < n; k++ {
							r.exec(r.genTxn(st, "logged for the fast-forward"))
						}
					}
				case "txn":
					r.exec(r.genTxn("", ""))
				case "drop":
					r.exec(r.genDrop())
				case "restart":
					r.exec(step{Kind: "restart"})
				case "repair":
					r.exec(step{Kind: "repair", KeepOld: rapid.Bool().Draw(t, "keepOld")})
				}
			case phRepaired:
				acts := []string{"reinstate", "reinstate", "restart"}
				if len(r.m) > 0 {
					acts = append(acts, "txn", "txn")
					if !r.updOnly() {
						// (listed finding: the replay of a logged commit fails when its store was dropped meanwhile)
						acts = append(acts, "drop")
					}
				}
				if len(r.m) < len(storeNames) && !r.updOnly() {
					acts = append(acts, "create")
				}
				switch rapid.SampledFrom(acts).Draw(t, "actRepaired") {
				case "txn":
					r.exec(r.genTxn("", ""))
				case "drop":
					r.exec(r.genDrop())
				case "create":
					r.exec(r.genCreate())
				case "restart":
					r.exec(step{Kind: "restart"})
				case "reinstate":
					r.exec(step{Kind: "reinstate"})
					if rapid.Bool().Draw(t, "checkRightAfterReinstate") {
						r.exec(step{Kind: "check", Note: "right-after-reinstate"})
					}
				}
			}
		}
		// wind down: the statement's last sentence needs the reinstate
		if r.phase == phBroken {
			r.exec(step{Kind: "repair", KeepOld: rapid.Bool().Draw(t, "keepOld")})
		}
		if r.phase == phRepaired {
			r.exec(step{Kind: "reinstate"})
			if len(r.m) > 0 && rapid.Bool().Draw(t, "commitAfterReinstate") {
				r.exec(r.genTxn("", "after reinstate"))
			}
		}
		r.exec(step{Kind: "check", Note: "final"})

		record()
	})
}

// runScript executes a written-out history (no rapid): regression inputs and hand-minimised
// reproductions. It returns the failure message, "" when every check in it held.
func runScript(t *testing.T, sc script, noExcl bool) (failure string) {
	root, err := os.MkdirTemp("", "c27s-")
	if err != nil {
		t.Fatalf("HARNESS-ERROR: %v", err)
	}
	defer func() {
		os.RemoveAll(root)
		resetGlobals()
	}()
	resetGlobals()
	c := &catcher{}
	l := sc.Layout.At(filepath.Join(root, "env"))
	r := newRunner(c, nil, root, l, 0)
	r.noExcl = noExcl
	if err := l.mkdirs(); err != nil {
		t.Fatalf("HARNESS-ERROR: %v", err)
	}
	func() {
		defer func() {
			if p := recover(); p != nil {
				switch v := p.(type) {
				case caught:
				case coreDivergence:
					t.Logf("core divergence (outside C27): %s", v.msg)
				case knownClass:
					t.Logf("history enters the class of listed finding %s", v.slug)
				default:
					panic(p)
				}
			}
		}()
		for _, st := range sc.Steps {
			r.exec(st)
		}
	}()
	if strings.Contains(c.msg, "HARNESS-ERROR") {
		t.Fatalf("%s", c.msg)
	}
	return c.msg
}

type caught struct{}
type catcher struct{ msg string }

func (c *catcher) Fatalf(format string, args ...any) {
	c.msg = fmt.Sprintf(format, args...)
	panic(caught{})
}

// TestC27_Replay runs the history in the file named by C27_SCRIPT (development aid and the
// way a reported history is re-run by hand).
func TestC27_Replay(t *testing.T) {
	f := os.Getenv("C27_SCRIPT")
	if f == "" {
		t.Skip("set C27_SCRIPT=<file with {layout,steps}>")
	}
	b, err := os.ReadFile(f)
	if err != nil {
		t.Fatalf("HARNESS-ERROR: %v", err)
	}
	var sc script
	if err := json.Unmarshal(b, &sc); err != nil {
		t.Fatalf("HARNESS-ERROR: %v", err)
	}
	if msg := runScript(t, sc, os.Getenv("C27_NOEXCL") != ""); msg != "" {
		t.Fatalf("%s", msg)
	}
}
