package repl

import (
	"encoding/json"
	"os"
	"path/filepath"
	"regexp"
	"strings"
	"testing"

	"verif/harness/stats"
)

// Finding: ReinstateFailedDrives -> StoreRepository.CopyToPassiveFolders flips the
// replication tracker's ActiveFolderToggler BEFORE it calls sr.Get(storeName) for each store,
// so the store info it "copies" is read from the passive folder being rebuilt (cache key and
// file both resolve against the flipped tracker). A stale passive storeinfo.txt is written
// back onto itself; when the passive file is absent (replaced drive, store created while
// replication was off) the store is skipped altogether: no storeinfo.txt and no registry
// segment files are copied, although the store list names it.
const slugReinstateStoreInfo = "reinstate-copies-store-info-from-passive"

// the two hand-minimised histories
const knownStale = `{"layout":{"root":"","data":2,"parity":1,"hashmod":2},"steps":[
 {"kind":"create","store":"s0","opt":{"slot":4,"in_node":true},"txn":[{"store":"s0","ops":[{"k":"add","key":0}]}]},
 {"kind":"sabotage","store":"s0","sab":"infodir"},
 {"kind":"txn","txn":[{"store":"s0","ops":[{"k":"add","key":1},{"k":"add","key":2}]}],"note":"first commit after the sabotage"},
 {"kind":"repair","keep_old":true},
 {"kind":"reinstate"},
 {"kind":"check","note":"final"}]}`

const knownMissing = `{"layout":{"root":"","data":2,"parity":1,"hashmod":2},"steps":[
 {"kind":"create","store":"s0","opt":{"slot":4,"in_node":true},"txn":[{"store":"s0","ops":[{"k":"add","key":0}]}]},
 {"kind":"sabotage","store":"s0","sab":"storefile"},
 {"kind":"txn","txn":[{"store":"s0","ops":[{"k":"add","key":1}]}],"note":"first commit after the sabotage"},
 {"kind":"repair","keep_old":false},
 {"kind":"reinstate"},
 {"kind":"check","note":"final"}]}`

// Finding: ReinstateFailedDrives switches commit logging on, copies the stores to the passive folders and then replays
// ("fast-forwards") the logged commits onto the copy. The replay is not idempotent: a logged commit whose registry
// changes the copy already contains (it was committed before the files were copied - after an earlier reinstate attempt
// that failed and left logging on, or while the copy was running) makes registryMap.remove fail with "can't delete a
// missing item", or registryMap.add spin for its 3 minute lock window and fail: the reinstate returns an error, and
// again on every further attempt (the log files stay).
const slugFastForward = "fast-forward-replays-changes-the-copy-already-has"

const knownFastForward = `{"layout":{"root":"","data":2,"parity":1,"hashmod":2},"steps":[
 {"kind":"create","store":"s0","opt":{"slot":2,"in_node":true},"txn":[{"store":"s0","ops":[{"k":"add","key":0},{"k":"add","key":1},{"k":"add","key":2},{"k":"add","key":3},{"k":"add","key":4},{"k":"add","key":5},{"k":"add","key":6},{"k":"add","key":7}]}]},
 {"kind":"sabotage","store":"s0","sab":"infodir"},
 {"kind":"txn","txn":[{"store":"s0","ops":[{"k":"add","key":9}]}],"note":"first commit after the sabotage"},
 {"kind":"reinstate-early"},
 {"kind":"restart"},
 {"kind":"txn","txn":[{"store":"s0","ops":[{"k":"rem","key":2},{"k":"rem","key":3},{"k":"rem","key":4},{"k":"rem","key":5},{"k":"rem","key":6},{"k":"rem","key":7}]}],"note":"logged"},
 {"kind":"repair","keep_old":true},
 {"kind":"reinstate"},
 {"kind":"check","note":"final"}]}`

// TestC27_Known_FastForwardNotIdempotent replays the history without rapid (the variant whose logged commit ADDS nodes
// fails the same way after spinning for 3 minutes; it is not replayed here).
func TestC27_Known_FastForwardNotIdempotent(t *testing.T) {
	if !stats.Known("C27", slugFastForward) {
		t.Skip("not listed")
	}
	var sc script
	if err := json.Unmarshal([]byte(knownFastForward), &sc); err != nil {
		t.Fatalf("HARNESS-ERROR: %v", err)
	}
	msg := runScript(t, sc, true)
	if msg == "" {
		return // repaired
	}
	if !strings.Contains(msg, "can't delete a missing item") {
		t.Fatalf("the known history fails differently than recorded: %s", msg)
	}
	if i := strings.Index(msg, "\nscript:"); i > 0 {
		msg = msg[:i]
	}
	msg = regexp.MustCompile(`offset=\d+`).ReplaceAllString(msg, "offset=N")
	stats.For("C27").KnownFinding("a commit logged after a failed reinstate attempt removes nodes; the reinstate after the repair: " + msg)
}

// TestC27_Known_ReinstateStoreInfoFromPassive replays both histories without rapid. Listed:
// prints KNOWN-FINDING while they still fail and passes silently once they do not.
func TestC27_Known_ReinstateStoreInfoFromPassive(t *testing.T) {
	if !stats.Known("C27", slugReinstateStoreInfo) {
		t.Skip("not listed")
	}
	for _, c := range []struct{ name, js, expect string }{
		{"stale passive storeinfo.txt is kept", knownStale, "Count()"},
		{"absent passive storeinfo.txt: store not copied at all", knownMissing, "passive copy"},
	} {
		var sc script
		if err := json.Unmarshal([]byte(c.js), &sc); err != nil {
			t.Fatalf("HARNESS-ERROR: %v", err)
		}
		msg := runScript(t, sc, true)
		if msg == "" {
			continue // repaired
		}
		if !strings.Contains(msg, c.expect) {
			t.Fatalf("the known history fails differently than recorded (%s): %s", c.name, msg)
		}
		if i := strings.Index(msg, "\nscript:"); i > 0 {
			msg = msg[:i]
		}
		stats.For("C27").KnownFinding(c.name + ": " + msg)
	}
}

// inKnownReinstateClass is the signature of the finding, evaluated on disk right before a
// reinstate: some live store's passive storeinfo.txt is absent or differs from the active one.
func (r *runner) inKnownReinstateClass() bool {
	for _, n := range r.m.names() {
		a, errA := os.ReadFile(filepath.Join(r.l.Active(), n, "storeinfo.txt"))
		p, errP := os.ReadFile(filepath.Join(r.l.Passive(), n, "storeinfo.txt"))
		if errA != nil || errP != nil || string(a) != string(p) {
			return true
		}
	}
	return false
}
