package repl

import (
	"context"
	"encoding/json"
	"fmt"
	"io"
	"log/slog"
	"os"
	"os/exec"
	"path/filepath"
	"sort"
	"strings"
	"sync"
	"syscall"
	"testing"

	"github.com/sharedcode/sop"
	_ "github.com/sharedcode/sop/cache"
	"github.com/sharedcode/sop/fs"
	"github.com/sharedcode/sop/infs"
)

func init() {
	// SOP logs every best-effort replication failure as a warning; the check does not read them.
	slog.SetDefault(slog.New(slog.NewTextHandler(io.Discard, &slog.HandlerOptions{Level: slog.LevelError + 4})))
}

// Layout is the on-disk layout of one replicated environment. Everything is below Root, so a
// recursive copy of Root under another name is an equivalent environment (SOP stores no
// absolute path in its files; the folders come from the transaction options).
type Layout struct {
	Root    string `json:"root"`
	Data    int    `json:"data"`
	Parity  int    `json:"parity"`
	HashMod int    `json:"hashmod"`
}

func (l Layout) Active() string  { return filepath.Join(l.Root, "a") }
func (l Layout) Passive() string { return filepath.Join(l.Root, "p") }
func (l Layout) Folders() []string {
	return []string{l.Active(), l.Passive()}
}
func (l Layout) Drives() []string {
	d := make([]string, l.Data+l.Parity)
	for i := range d {
		d[i] = filepath.Join(l.Root, fmt.Sprintf("d%d", i))
	}
	return d
}
func (l Layout) EC() map[string]sop.ErasureCodingConfig {
	return map[string]sop.ErasureCodingConfig{"": {
		DataShardsCount:             l.Data,
		ParityShardsCount:           l.Parity,
		BaseFolderPathsAcrossDrives: l.Drives(),
		RepairCorruptedShards:       true,
	}}
}
func (l Layout) Options(mode sop.TransactionMode) sop.TransactionOptions {
	return sop.TransactionOptions{
		Mode:                 mode,
		MaxTime:              -1,
		StoresFolders:        l.Folders(),
		ErasureConfig:        l.EC(),
		CacheType:            sop.InMemory,
		RegistryHashModValue: l.HashMod,
	}
}
func (l Layout) At(root string) Layout { l.Root = root; return l }

// mkdirs creates the folders of a fresh environment.
func (l Layout) mkdirs() error {
	for _, d := range append(l.Folders(), l.Drives()...) {
		if err := os.MkdirAll(d, 0o755); err != nil {
			return err
		}
	}
	return nil
}

// resetGlobals (between cases): forget SOP's process-wide replication state and empty the
// in-memory L2 cache. Directories and ids are unique per case, so nothing else can leak.
func resetGlobals() {
	fs.GlobalReplicationDetails = nil
	fs.DirectIOSim = nil
	if c := sop.GetL2Cache(sop.TransactionOptions{CacheType: sop.InMemory}); c != nil {
		_ = c.Clear(context.Background())
	}
}

// forgetReplicationStatus (inside a case, the "soft restart"): the next transaction has to
// find out the replication status the way a new process does, from the replstat.txt files.
// Only the status is forgotten - the exported variable and its L2 entry ("Rreplstat:<folder 0>",
// replicationTracker.getReplicationStatusCacheKey) - not the node/handle/store-info caches:
// emptying the whole L2 cache under a live L1 cache is a different subject.
func forgetReplicationStatus(l Layout) {
	fs.GlobalReplicationDetails = nil
	if c := sop.GetL2Cache(sop.TransactionOptions{CacheType: sop.InMemory}); c != nil {
		_, _ = c.Delete(context.Background(), []string{"Rreplstat:" + l.Active()})
	}
}

// ---------------------------------------------------------------------------------------
// observation: dump of every store through the public API
// ---------------------------------------------------------------------------------------

// StoreDump is what a reader sees of one store.
type StoreDump struct {
	Name  string   `json:"name"`
	Keys  []int    `json:"keys"`
	Vals  []string `json:"vals"`
	Count int64    `json:"count"`
	Err   string   `json:"err,omitempty"`
}

// View is what a fresh reader sees of the whole database.
type View struct {
	Stores       []StoreDump `json:"stores"`
	Err          string      `json:"err,omitempty"`
	ActiveFolder string      `json:"active_folder"` // base folder the store repository reads from
	Toggler      bool        `json:"toggler"`
	Failed       bool        `json:"failed"`
}

// dumpAll opens a fresh read transaction and walks every store of GetStores.
func dumpAll(ctx context.Context, l Layout) (v View) {
	t, err := infs.NewTransactionWithReplication(ctx, l.Options(sop.ForReading))
	if err != nil {
		v.Err = "NewTransactionWithReplication: " + err.Error()
		return
	}
	if err := t.Begin(ctx); err != nil {
		v.Err = "Begin: " + err.Error()
		return
	}
	defer t.Rollback(ctx)
	if ct, ok := t.GetPhasedTransaction().(interface{ GetStoreRepository() sop.StoreRepository }); ok {
		if f, ok := ct.GetStoreRepository().(interface{ GetStoresBaseFolder() string }); ok {
			v.ActiveFolder = f.GetStoresBaseFolder()
		}
	}
	if g := fs.GlobalReplicationDetails; g != nil {
		v.Toggler, v.Failed = g.ActiveFolderToggler, g.FailedToReplicate
	}
	names, err := t.GetStores(ctx)
	if err != nil {
		v.Err = "GetStores: " + err.Error()
		return
	}
	sort.Strings(names)
	for _, n := range names {
		d := StoreDump{Name: n}
		b, err := infs.OpenBtreeWithReplication[int, string](ctx, n, t, nil)
		if err != nil {
			d.Err = "Open: " + err.Error()
			v.Stores = append(v.Stores, d)
			// an Open error rolls the transaction back; nothing more can be read through it
			v.Err = "store " + n + ": " + d.Err
			return
		}
		d.Count = b.Count()
		ok, err := b.First(ctx)
		for ok && err == nil {
			k := b.GetCurrentKey().Key
			var val string
			val, err = b.GetCurrentValue(ctx)
			if err != nil {
				break
			}
			d.Keys = append(d.Keys, k)
			d.Vals = append(d.Vals, val)
			ok, err = b.Next(ctx)
		}
		if err != nil {
			d.Err = "walk: " + err.Error()
		}
		v.Stores = append(v.Stores, d)
	}
	return
}

// ---------------------------------------------------------------------------------------
// worker: a fresh OS process (no cached replication status, empty L1/L2 caches)
// ---------------------------------------------------------------------------------------

// Job is one request to a child process.
//
//	mode "view":     dump every store (whatever folder the persisted status says is active)
//	mode "failover": fs.TriggerFailover, then make the former active folder unusable (it is
//	                 the drive that "died"), then dump every store in the same process
type Job struct {
	Mode   string `json:"mode"`
	Layout Layout `json:"layout"`
	Out    string `json:"out"`
	Steps  []step `json:"steps,omitempty"` // mode "control": run these steps, judge nothing
}

type JobResult struct {
	View        View   `json:"view"`
	FailoverErr string `json:"failover_err,omitempty"`
	Flipped     bool   `json:"flipped"`
	ControlErr  string `json:"control_err,omitempty"`
}

func TestWorker(t *testing.T) {
	jf := os.Getenv("VERIF_REPL_JOB")
	if jf == "" {
		t.Skip("worker entry point (child process only)")
	}
	b, err := os.ReadFile(jf)
	if err != nil {
		t.Fatalf("HARNESS-ERROR: job file: %v", err)
	}
	var j Job
	if err := json.Unmarshal(b, &j); err != nil {
		t.Fatalf("HARNESS-ERROR: job file: %v", err)
	}
	ctx := context.Background()
	var r JobResult
	switch j.Mode {
	case "view":
		r.View = dumpAll(ctx, j.Layout)
	case "failover":
		l2 := sop.GetL2Cache(sop.TransactionOptions{CacheType: sop.InMemory})
		if err := fs.TriggerFailover(ctx, j.Layout.Folders(), true, l2); err != nil {
			r.FailoverErr = err.Error()
		}
		if g := fs.GlobalReplicationDetails; g != nil && !g.ActiveFolderToggler {
			r.Flipped = true
			// the drive we failed away from is gone: whatever is read now comes from the passive copy
			if err := os.Rename(j.Layout.Active(), j.Layout.Active()+".dead"); err != nil {
				t.Fatalf("HARNESS-ERROR: %v", err)
			}
		}
		r.View = dumpAll(ctx, j.Layout)
	case "control":
		if err := j.Layout.mkdirs(); err != nil {
			t.Fatalf("HARNESS-ERROR: %v", err)
		}
		c := &catcher{}
		rr := newRunner(c, nil, j.Layout.Root, j.Layout, 0)
		rr.control = true
		func() {
			defer func() {
				if p := recover(); p != nil {
					switch v := p.(type) {
					case caught:
					case coreDivergence:
						c.msg = v.msg
					default:
						panic(p)
					}
				}
			}()
			for _, st := range j.Steps {
				rr.exec(st)
			}
		}()
		r.ControlErr = c.msg
	default:
		t.Fatalf("HARNESS-ERROR: unknown job mode %q", j.Mode)
	}
	out, _ := json.Marshal(r)
	if err := os.WriteFile(j.Out, out, 0o644); err != nil {
		t.Fatalf("HARNESS-ERROR: %v", err)
	}
}

// runJob runs one job in a child process and returns its result.
func runJob(mode string, l Layout) (JobResult, error) { return runJobScript(mode, l, nil) }

func runJobScript(mode string, l Layout, steps []step) (JobResult, error) {
	var r JobResult
	dir, err := os.MkdirTemp("", "repl-job-")
	if err != nil {
		return r, fmt.Errorf("HARNESS-ERROR: %v", err)
	}
	defer os.RemoveAll(dir)
	j := Job{Mode: mode, Layout: l, Out: filepath.Join(dir, "out.json"), Steps: steps}
	jb, _ := json.Marshal(j)
	jf := filepath.Join(dir, "job.json")
	if err := os.WriteFile(jf, jb, 0o644); err != nil {
		return r, fmt.Errorf("HARNESS-ERROR: %v", err)
	}
	cmd := exec.Command(os.Args[0], "-test.run=^TestWorker$", "-test.timeout=120s")
	for _, kv := range os.Environ() {
		if strings.HasPrefix(kv, "VERIF_STATS=") || strings.HasPrefix(kv, "VERIF_REPL_JOB=") || strings.HasPrefix(kv, "VERIF_REPLAY=") {
			continue
		}
		cmd.Env = append(cmd.Env, kv)
	}
	cmd.Env = append(cmd.Env, "VERIF_REPL_JOB="+jf)
	outb, err := cmd.CombinedOutput()
	ob, rerr := os.ReadFile(j.Out)
	if rerr != nil {
		// the child died (a panic inside SOP kills the process) or could not run
		tail := string(outb)
		if len(tail) > 3000 {
			tail = tail[:3000]
		}
		if strings.Contains(tail, "HARNESS-ERROR") || (err != nil && !isExitError(err)) {
			return r, fmt.Errorf("HARNESS-ERROR: worker (%s): %v\n%s", mode, err, tail)
		}
		return r, fmt.Errorf("worker process (%s) died without a result: %v\n%s", mode, err, tail)
	}
	if err := json.Unmarshal(ob, &r); err != nil {
		return r, fmt.Errorf("HARNESS-ERROR: worker result: %v", err)
	}
	return r, nil
}

func isExitError(err error) bool {
	_, ok := err.(*exec.ExitError)
	return ok
}

// copyTree copies the environment (sparse-unaware, the files are small).
func copyTree(src, dst string) error {
	return filepath.Walk(src, func(p string, fi os.FileInfo, err error) error {
		if err != nil {
			return err
		}
		rel, _ := filepath.Rel(src, p)
		q := filepath.Join(dst, rel)
		switch {
		case fi.IsDir():
			return os.MkdirAll(q, 0o755)
		case fi.Mode().IsRegular():
			b, err := os.ReadFile(p)
			if err != nil {
				return err
			}
			if err := os.WriteFile(q, b, 0o644); err != nil {
				return err
			}
			// replstat.txt files are compared by modification time when both folders have one
			return os.Chtimes(q, fi.ModTime(), fi.ModTime())
		}
		return nil
	})
}

// ---------------------------------------------------------------------------------------
// passive-side failures
// ---------------------------------------------------------------------------------------

// pathSabotage makes a path of the passive side unusable even for root: a directory is
// replaced by a regular file (ENOTDIR for everything below it), a file by a directory
// (EISDIR on open for writing). The original is kept aside for "the drive came back".
type pathSabotage struct {
	path     string
	aside    string
	hadOrig  bool
	wasDir   bool
	restored bool
}

func sabotagePath(path string, makeDir bool) (*pathSabotage, error) {
	s := &pathSabotage{path: path, aside: path + ".aside"}
	if fi, err := os.Lstat(path); err == nil {
		s.hadOrig, s.wasDir = true, fi.IsDir()
		if err := os.Rename(path, s.aside); err != nil {
			return nil, err
		}
	}
	if makeDir {
		// a non-empty directory where a file is expected
		if err := os.MkdirAll(filepath.Join(path, "x"), 0o755); err != nil {
			return nil, err
		}
	} else {
		if err := os.WriteFile(path, []byte("not a directory"), 0o644); err != nil {
			return nil, err
		}
	}
	return s, nil
}

// repair removes the obstacle. keepOld: the old content comes back (drive reattached with
// its stale data); otherwise the path is empty (drive replaced) - a lost directory is
// re-created empty, a lost file stays absent.
func (s *pathSabotage) repair(keepOld bool) error {
	if s.restored {
		return nil
	}
	s.restored = true
	if err := os.RemoveAll(s.path); err != nil {
		return err
	}
	if _, err := os.Lstat(filepath.Dir(s.path)); os.IsNotExist(err) {
		// the whole parent was removed meanwhile (store dropped): nothing to bring back
		return nil
	}
	if _, err := os.Lstat(s.aside); os.IsNotExist(err) {
		s.hadOrig = false
	}
	if s.hadOrig && keepOld {
		return os.Rename(s.aside, s.path)
	}
	if s.hadOrig {
		if err := os.RemoveAll(s.aside); err != nil {
			return err
		}
		if s.wasDir {
			return os.MkdirAll(s.path, 0o755)
		}
	}
	return nil
}

// failingDIO is a fs.DirectIO that performs real I/O but fails the k-th (and optionally all
// later) block writes to files below prefix, before doing anything ("the call failed and had
// no effect").
type failingDIO struct {
	base   fs.DirectIO
	mu     sync.Mutex
	prefix string
	after  int // number of matching writes let through first
	keep   bool
	seen   int
	fired  int
	armed  bool
}

func (d *failingDIO) Open(ctx context.Context, filename string, flag int, perm os.FileMode) (*os.File, error) {
	return d.base.Open(ctx, filename, flag, perm)
}
func (d *failingDIO) WriteAt(ctx context.Context, f *os.File, block []byte, offset int64) (int, error) {
	d.mu.Lock()
	if d.armed && strings.HasPrefix(f.Name(), d.prefix) {
		d.seen++
		if d.seen > d.after && (d.keep || d.fired == 0) {
			d.fired++
			d.mu.Unlock()
			return 0, &os.PathError{Op: "write", Path: f.Name(), Err: syscall.EIO}
		}
	}
	d.mu.Unlock()
	return d.base.WriteAt(ctx, f, block, offset)
}
func (d *failingDIO) ReadAt(ctx context.Context, f *os.File, block []byte, offset int64) (int, error) {
	return d.base.ReadAt(ctx, f, block, offset)
}
func (d *failingDIO) Close(f *os.File) error { return d.base.Close(f) }
func (d *failingDIO) hits() int {
	d.mu.Lock()
	defer d.mu.Unlock()
	return d.fired
}
func (d *failingDIO) disarm() {
	d.mu.Lock()
	d.armed = false
	d.mu.Unlock()
}

// readReplStat reads a replstat.txt file.
func readReplStat(folder string) (fs.ReplicationTrackedDetails, bool, error) {
	var d fs.ReplicationTrackedDetails
	b, err := os.ReadFile(filepath.Join(folder, "replstat.txt"))
	if os.IsNotExist(err) {
		return d, false, nil
	}
	if err != nil {
		return d, false, err
	}
	return d, true, json.Unmarshal(b, &d)
}
