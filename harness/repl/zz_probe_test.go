package repl

import (
	"context"
	"fmt"
	"os"
	"path/filepath"
	"testing"

	"github.com/sharedcode/sop"
	"github.com/sharedcode/sop/infs"
)

func TestProbeLost(t *testing.T) {
	if os.Getenv("C27_PROBE") == "" {
		t.Skip()
	}
	ctx := context.Background()
	root, _ := os.MkdirTemp("", "c27p-")
	defer os.RemoveAll(root)
	resetGlobals()
	l := Layout{Root: filepath.Join(root, "env"), Data: 2, Parity: 1, HashMod: 2}
	l.mkdirs()
	repl := os.Getenv("C27_PROBE") == "repl"
	newTx := func(mode sop.TransactionMode) sop.Transaction {
		var tx sop.Transaction
		var err error
		if repl {
			tx, err = infs.NewTransactionWithReplication(ctx, l.Options(mode))
		} else {
			tx, err = infs.NewTransaction(ctx, sop.TransactionOptions{Mode: mode, MaxTime: -1, StoresFolders: []string{l.Active()}, CacheType: sop.InMemory, RegistryHashModValue: 2})
		}
		if err != nil {
			t.Fatal(err)
		}
		if err := tx.Begin(ctx); err != nil {
			t.Fatal(err)
		}
		return tx
	}
	tx := newTx(sop.ForWriting)
	so := sop.StoreOptions{Name: "s0", SlotLength: 2, IsUnique: true, IsValueDataInNodeSegment: true}
	if repl {
		b, err := infs.NewBtreeWithReplication[int, string](ctx, so, tx, nil)
		fmt.Println(err)
		b.Add(ctx, 1, "a")
	} else {
		b, err := infs.NewBtree[int, string](ctx, so, tx, nil)
		fmt.Println(err)
		b.Add(ctx, 1, "a")
	}
	fmt.Println("commit1", tx.Commit(ctx))
	open := func(tx sop.Transaction) interface {
		Add(context.Context, int, string) (bool, error)
		Remove(context.Context, int) (bool, error)
		First(context.Context) (bool, error)
		Next(context.Context) (bool, error)
		Count() int64
	} {
		if repl {
			b, err := infs.OpenBtreeWithReplication[int, string](ctx, "s0", tx, nil)
			if err != nil {
				t.Fatal(err)
			}
			return b
		}
		b, err := infs.OpenBtree[int, string](ctx, "s0", tx, nil)
		if err != nil {
			t.Fatal(err)
		}
		return b
	}
	tx = newTx(sop.ForWriting)
	b := open(tx)
	fmt.Println(b.Add(ctx, 7, "b"))
	fmt.Println("commit2", tx.Commit(ctx))
	tx = newTx(sop.ForWriting)
	b = open(tx)
	fmt.Println(b.Add(ctx, 11, "c"))
	fmt.Println(b.Remove(ctx, 7))
	fmt.Println("commit3", tx.Commit(ctx))
	tx = newTx(sop.ForReading)
	if repl {
		bb, _ := infs.OpenBtreeWithReplication[int, string](ctx, "s0", tx, nil)
		for ok, _ := bb.First(ctx); ok; ok, _ = bb.Next(ctx) {
			fmt.Print(bb.GetCurrentKey().Key, " ")
		}
	} else {
		bb, _ := infs.OpenBtree[int, string](ctx, "s0", tx, nil)
		for ok, _ := bb.First(ctx); ok; ok, _ = bb.Next(ctx) {
			fmt.Print(bb.GetCurrentKey().Key, " ")
		}
	}
	fmt.Println()
}
