package repl

import (
	"context"
	"fmt"
	"os"
	"path/filepath"
	"testing"

	"github.com/sharedcode/sop"
	"github.com/sharedcode/sop/btree"
	"github.com/sharedcode/sop/infs"
	"pgregory.net/rapid"

	"verif/harness/stats"
)

// TestC12_RemoveRecreateAcrossLayouts: C12's create / RemoveBtree / re-create cycle through the public infs API in
// the layouts the single-folder part of the check does not reach: replicated store folders with erasure-coded blobs
// on separate drives, and replicated store folders that are themselves the erasure-coding drives.
func TestC12_RemoveRecreateAcrossLayouts(t *testing.T) {
	rec := stats.For("C12")
	ctx := context.Background()
	rapid.Check(t, func(t *rapid.T) {
		resetGlobals()
		root, err := os.MkdirTemp("", "c12lay")
		if err != nil {
			t.Fatalf("HARNESS-ERROR %v", err)
		}
		defer os.RemoveAll(root)
		layout := rapid.SampledFrom([]string{"replicated+ecSeparateDrives", "replicated+ecOnStoreFolders", "singleFolder"}).Draw(t, "layout")
		folders := []string{filepath.Join(root, "a"), filepath.Join(root, "p")}
		var ec map[string]sop.ErasureCodingConfig
		switch layout {
		case "replicated+ecSeparateDrives":
			drives := []string{filepath.Join(root, "d0"), filepath.Join(root, "d1"), filepath.Join(root, "d2")}
			for _, d := range drives {
				os.MkdirAll(d, 0o755)
			}
			ec = map[string]sop.ErasureCodingConfig{"": {DataShardsCount: 2, ParityShardsCount: 1, BaseFolderPathsAcrossDrives: drives, RepairCorruptedShards: true}}
		case "replicated+ecOnStoreFolders":
			ec = map[string]sop.ErasureCodingConfig{"": {DataShardsCount: 1, ParityShardsCount: 1, BaseFolderPathsAcrossDrives: folders, RepairCorruptedShards: true}}
		default:
			folders = folders[:1]
		}
		for _, d := range folders {
			os.MkdirAll(d, 0o755)
		}
		opts := func(mode sop.TransactionMode) sop.TransactionOptions {
			return sop.TransactionOptions{Mode: mode, MaxTime: -1, StoresFolders: folders, ErasureConfig: ec, CacheType: sop.InMemory,
				RegistryHashModValue: rapid.SampledFrom([]int{1, 3}).Draw(t, "hashMod")}
		}
		begin := func(mode sop.TransactionMode) sop.Transaction {
			var tx sop.Transaction
			var err error
			if len(folders) > 1 {
				tx, err = infs.NewTransactionWithReplication(ctx, opts(mode))
			} else {
				tx, err = infs.NewTransaction(ctx, opts(mode))
			}
			if err != nil {
				t.Fatalf("%s: new transaction: %v", layout, err)
			}
			if err := tx.Begin(ctx); err != nil {
				t.Fatalf("%s: Begin: %v", layout, err)
			}
			return tx
		}
		newB := func(so sop.StoreOptions, tx sop.Transaction) (btree.BtreeInterface[int, string], error) {
			if len(folders) > 1 {
				return infs.NewBtreeWithReplication[int, string](ctx, so, tx, nil)
			}
			return infs.NewBtree[int, string](ctx, so, tx, nil)
		}
		openB := func(nm string, tx sop.Transaction) (btree.BtreeInterface[int, string], error) {
			if len(folders) > 1 {
				return infs.OpenBtreeWithReplication[int, string](ctx, nm, tx, nil)
			}
			return infs.OpenBtree[int, string](ctx, nm, tx, nil)
		}
		name := "cycle"
		other := "bystander"
		genOpts := func(label string) sop.StoreOptions {
			return sop.StoreOptions{Name: name, SlotLength: rapid.SampledFrom([]int{2, 4, 8, 16}).Draw(t, label+".slot"), IsUnique: rapid.Bool().Draw(t, label+".unique"),
				IsValueDataInNodeSegment: rapid.Bool().Draw(t, label+".inNode"), Description: label}
		}
		// a bystander store that must survive everything
		tx := begin(sop.ForWriting)
		if b, err := newB(sop.StoreOptions{Name: other, SlotLength: 4, IsUnique: true, IsValueDataInNodeSegment: true}, tx); err != nil {
			t.Fatalf("%s: create bystander: %v", layout, err)
		} else {
			b.Add(ctx, 1, "keep")
		}
		if err := tx.Commit(ctx); err != nil {
			t.Fatalf("%s: commit bystander: %v", layout, err)
		}
		cycles := rapid.IntRange(1, 3).Draw(t, "cycles")
		for c := 0; c < cycles; c++ {
			so := genOpts(fmt.Sprintf("gen%d", c))
			n := rapid.IntRange(0, 6).Draw(t, fmt.Sprintf("items%d", c))
			tx := begin(sop.ForWriting)
			b, err := newB(so, tx)
			if err != nil {
				t.Fatalf("%s, cycle %d: creating store %q (%+v) after its predecessor was removed: %v", layout, c, name, so, err)
			}
			if got := b.Count(); got != 0 {
				t.Fatalf("%s, cycle %d: a freshly created store reports %d items", layout, c, got)
			}
			for k := 0; k < n; k++ {
				if ok, err := b.Add(ctx, 100*c+k, fmt.Sprintf("g%d.%d", c, k)); err != nil || !ok {
					t.Fatalf("%s, cycle %d: Add: %v %v", layout, c, ok, err)
				}
			}
			if err := tx.Commit(ctx); err != nil {
				t.Fatalf("%s, cycle %d: commit: %v", layout, c, err)
			}
			// reopen: options of THIS creation, exactly its items
			tx = begin(sop.ForReading)
			b, err = openB(name, tx)
			if err != nil {
				t.Fatalf("%s, cycle %d: open after create: %v", layout, c, err)
			}
			si := b.GetStoreInfo()
			if si.SlotLength != so.SlotLength || si.IsUnique != so.IsUnique || si.IsValueDataInNodeSegment != so.IsValueDataInNodeSegment || si.Description != so.Description || b.Count() != int64(n) {
				t.Fatalf("%s, cycle %d: store reports slot=%d unique=%v inNode=%v desc=%q count=%d, created with %+v and %d items", layout, c, si.SlotLength, si.IsUnique, si.IsValueDataInNodeSegment, si.Description, b.Count(), so, n)
			}
			tx.Commit(ctx)
			if err := infs.RemoveBtree(ctx, name, folders, ec, sop.InMemory); err != nil {
				t.Fatalf("%s, cycle %d: RemoveBtree: %v", layout, c, err)
			}
			tx = begin(sop.ForReading)
			names, err := tx.GetStores(ctx)
			if err != nil {
				t.Fatalf("%s, cycle %d: GetStores: %v", layout, c, err)
			}
			for _, nm := range names {
				if nm == name {
					t.Fatalf("%s, cycle %d: RemoveBtree(%q) returned nil but GetStores still lists it (%v)", layout, c, name, names)
				}
			}
			foundOther := false
			for _, nm := range names {
				if nm == other {
					foundOther = true
				}
			}
			if !foundOther {
				t.Fatalf("%s, cycle %d: removing %q also removed %q from the store list (%v)", layout, c, name, other, names)
			}
			if _, err := openB(name, tx); err == nil {
				t.Fatalf("%s, cycle %d: the removed store can still be opened", layout, c)
			}
			tx.Rollback(ctx)
			for _, f := range folders {
				if _, err := os.Stat(filepath.Join(f, name)); err == nil {
					t.Fatalf("%s, cycle %d: folder %s of the removed store is still there", layout, c, filepath.Join(f, name))
				}
			}
		}
		// the bystander is intact
		tx = begin(sop.ForReading)
		b, err := openB(other, tx)
		if err != nil {
			t.Fatalf("%s: bystander: %v", layout, err)
		}
		if ok, _ := b.Find(ctx, 1, false); !ok || b.Count() != 1 {
			t.Fatalf("%s: bystander store lost its item", layout)
		}
		tx.Commit(ctx)
		rec.Case(fmt.Sprintf("layout %s cycles=%d %d", layout, cycles, rapid.Uint32().Draw(t, "salt")), true, "layout:"+layout)
	})
}
