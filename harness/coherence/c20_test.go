package coherence

import (
	"encoding/json"
	"fmt"
	"os"
	"strings"
	"testing"

	"pgregory.net/rapid"

	"verif/harness/stats"
)

const c20Rule = "a read-all by a process that had earlier read or written a node which another process (standalone: a later transaction) has since replaced"

func rec() *stats.Rec {
	return stats.For("C20").Meta("exploration", c20Rule,
		"histories are sequential: one transaction in flight at a time, so every read must equal the model's latest committed state",
		"clustered histories use 2-3 OS processes (re-executed test binary, public infs API) sharing one directory and one harness/miniresp server; standalone histories use one process with the in-memory L2",
		"Redis time, FLUSHDB and restart are actions on harness/miniresp (trusted base: SET/GET/GETEX/MGET/DEL/EXPIRE with stock semantics, virtual clock)",
		"the committed state on disk is re-read after every commit by an independent reader (txh.ReadDisk) and must equal the model, so a read mismatch is about caches, not about a lost commit",
		"a worker that dies outside SOP code or does not answer is reported as HARNESS-ERROR (inconclusive)")
}

// ---- generator ----------------------------------------------------------------------------

func genAction(t *rapid.T, c *Case, label string, pNone int) string {
	if rapid.IntRange(0, 99).Draw(t, label+"?") < pNone {
		return ""
	}
	if !c.Clustered {
		if label != "intxn" && rapid.IntRange(0, 3).Draw(t, label+"kind") == 0 {
			return "restart:0"
		}
		return "l2clear"
	}
	switch rapid.IntRange(0, 11).Draw(t, label+"kind") {
	case 0, 1:
		return fmt.Sprintf("flush:%d", rapid.IntRange(0, c.NProc-1).Draw(t, label+"p"))
	case 2, 3:
		return "reset"
	case 4:
		if label == "intxn" {
			return "reset" // the writer must survive its own transaction
		}
		return fmt.Sprintf("restart:%d", rapid.IntRange(0, c.NProc-1).Draw(t, label+"p"))
	case 5, 6:
		return fmt.Sprintf("evict:%d", rapid.IntRange(0, 999).Draw(t, label+"n"))
	case 7:
		return fmt.Sprintf("l1evict:%d", rapid.IntRange(0, c.NProc-1).Draw(t, label+"p"))
	default:
		// around the 5 min (node, store info, value) and 10 min (registry) minimum durations, and past 1 h
		return fmt.Sprintf("adv:%d", rapid.SampledFrom([]int{1, 240, 330, 660, 960, 3700, 90000}).Draw(t, label+"sec"))
	}
}

func genCase(t *rapid.T, clustered bool) Case {
	c := Case{Clustered: clustered, NProc: 1}
	if clustered {
		c.NProc = rapid.SampledFrom([]int{2, 2, 3}).Draw(t, "nproc")
	}
	c.HashMod = rapid.SampledFrom([]int{1, 2, 5, 16}).Draw(t, "hashmod")
	if rapid.IntRange(0, 4).Draw(t, "l1default") != 0 {
		c.L1Min = rapid.SampledFrom([]int{1, 1, 2, 3, 6}).Draw(t, "l1min")
		c.L1Max = c.L1Min + rapid.SampledFrom([]int{1, 2, 4}).Draw(t, "l1extra")
	}
	c.Keys = rapid.IntRange(6, 20).Draw(t, "keys")
	c.UUIDSeed = rapid.Uint64().Draw(t, "uuidseed")
	ns := rapid.SampledFrom([]int{1, 1, 2}).Draw(t, "nstores")
	for i := 0; i < ns; i++ {
		c.Stores = append(c.Stores, StoreSpec{
			Name:      fmt.Sprintf("st%d", i),
			Slot:      rapid.SampledFrom([]int{2, 2, 4, 4, 6, 8}).Draw(t, "slot"),
			Placement: rapid.SampledFrom([]int{0, 0, 1, 2, 3, 4}).Draw(t, "placement"),
			Balancing: rapid.IntRange(0, 3).Draw(t, "balancing") == 0,
			CacheKind: rapid.SampledFrom([]string{"default", "none", "5m", "5mTTL", "1h", "1hTTL", "mixed"}).Draw(t, "cache"),
		})
	}
	sizes := []int{0, 0, 8, 200, 2000}
	for s := range c.Stores {
		fill := rapid.IntRange(0, 100).Draw(t, "seedfill")
		for k := 0; k < c.Keys; k++ {
			if rapid.IntRange(0, 99).Draw(t, "seedkey") < fill {
				c.SeedOps = append(c.SeedOps, Op{S: s, Kind: "add", K: k, Tag: fmt.Sprintf("seed.%d.%d", s, k), Size: rapid.SampledFrom(sizes).Draw(t, "size")})
			}
		}
	}
	nsteps := rapid.IntRange(2, stats.Pick(7, 12)).Draw(t, "nsteps")
	procs := make([]int, c.NProc)
	for i := range procs {
		procs[i] = i
	}
	for si := 0; si < nsteps; si++ {
		st := Step{Writer: rapid.IntRange(0, c.NProc-1).Draw(t, "writer"), End: "commit"}
		st.Pre = genAction(t, &c, "pre", 65)
		tag := 0
		next := func() string { tag++; return fmt.Sprintf("t%d.%d", si, tag) }
		s := rapid.IntRange(0, len(c.Stores)-1).Draw(t, "store")
		switch rapid.IntRange(0, 5).Draw(t, "shape") {
		case 0: // a run of removals: nodes empty, merge, disappear
			from, run := rapid.IntRange(0, c.Keys-1).Draw(t, "from"), rapid.IntRange(2, 8).Draw(t, "run")
			for k := from; k < c.Keys && k < from+run; k++ {
				st.Ops = append(st.Ops, Op{S: s, Kind: "remove", K: k})
			}
		case 1: // a run of additions: nodes split
			from, run := rapid.IntRange(0, c.Keys-1).Draw(t, "from"), rapid.IntRange(2, 8).Draw(t, "run")
			for k := from; k < c.Keys && k < from+run; k++ {
				st.Ops = append(st.Ops, Op{S: s, Kind: "upsert", K: k, Tag: next(), Size: rapid.SampledFrom(sizes).Draw(t, "size")})
			}
		default:
			nops := rapid.IntRange(1, 5).Draw(t, "nops")
			for i := 0; i < nops; i++ {
				op := Op{S: s, K: rapid.IntRange(0, c.Keys-1).Draw(t, "key")}
				if len(c.Stores) > 1 && rapid.IntRange(0, 3).Draw(t, "otherstore") == 0 {
					op.S = rapid.IntRange(0, len(c.Stores)-1).Draw(t, "store")
				}
				op.Kind = rapid.SampledFrom([]string{"add", "add", "addIfNotExist", "upsert", "upsert", "update", "update", "update", "remove", "remove", "find"}).Draw(t, "kind")
				if op.Kind != "remove" && op.Kind != "find" {
					op.Tag, op.Size = next(), rapid.SampledFrom(sizes).Draw(t, "size")
				}
				st.Ops = append(st.Ops, op)
			}
		}
		st.InTxn = genAction(t, &c, "intxn", 70)
		if rapid.IntRange(0, 9).Draw(t, "rollback") == 0 {
			st.End = "rollback"
		}
		st.Mid = genAction(t, &c, "mid", 75)
		// Reads go through the registry and so repopulate the L2 cache; a quarter of the inner steps
		// have none, so that a partly populated L2 cache survives into the next transaction.
		order := rapid.Permutation(procs).Draw(t, "order")
		if si < nsteps-1 && rapid.IntRange(0, 3).Draw(t, "noreads") == 0 {
			order = nil
		}
		for _, p := range order {
			st.Reads = append(st.Reads, ReadStep{
				Pre:       genAction(t, &c, "rpre", 90),
				P:         p,
				Mode:      rapid.SampledFrom([]string{"R", "R", "N"}).Draw(t, "rmode"),
				ScanFirst: rapid.Bool().Draw(t, "scanfirst"),
			})
		}
		c.Steps = append(c.Steps, st)
	}
	return c
}

// ---- the property ---------------------------------------------------------------------------

func judge(t interface {
	Fatalf(string, ...any)
	Logf(string, ...any)
}, c Case, listed bool) *outcome {
	out := runCase(c, listed)
	if out.harnessErr != "" {
		t.Fatalf("%s\n--- history ---\n%s", out.harnessErr, strings.Join(out.trace, "\n"))
	}
	if out.violation != "" {
		t.Fatalf("%s", report(c, out))
	}
	return out
}

func record(c Case, out *outcome) {
	r := rec()
	labels := []string{}
	mode := "mode:standalone"
	if c.Clustered {
		mode = fmt.Sprintf("mode:clustered-%dproc", c.NProc)
	}
	labels = append(labels, mode)
	if c.L1Max == 0 {
		labels = append(labels, "l1:default-capacity")
	} else {
		labels = append(labels, fmt.Sprintf("l1:min%d", c.L1Min))
	}
	for _, s := range c.Stores {
		labels = append(labels, fmt.Sprintf("slot:%d", s.Slot), "placement:"+placementNames[s.Placement], "cache:"+s.CacheKind)
	}
	if out.nontrivial {
		labels = append(labels, "case:nontrivial")
	}
	r.Case(c.canon(), out.nontrivial, labels...)
	for l, n := range out.labels {
		r.LabelN(l, int64(n))
	}
	for i := 0; i < out.excluded; i++ {
		r.Exclude(knownSlug + ": a process about to use a node it wrote earlier and that another process replaced since was restarted, or had its L1 nodes evicted, first")
	}
	for _, e := range out.commitErrs {
		r.Sample("commit-failed", e)
	}
	if out.nontrivial {
		r.Sample(mode, map[string]any{"case": c, "history": out.trace})
	}
}

func TestC20_Clustered(t *testing.T) {
	rec()
	listed := stats.Known("C20", knownSlug)
	rapid.Check(t, func(t *rapid.T) {
		c := genCase(t, true)
		record(c, judge(t, c, listed))
	})
}

func TestC20_Standalone(t *testing.T) {
	rec()
	rapid.Check(t, func(t *rapid.T) {
		c := genCase(t, false)
		record(c, judge(t, c, false)) // one process: the listed class (another process replaced ...) cannot occur
	})
}

// ---- the minimal reproduction of the expected finding -----------------------------------------

// knownCase: P0 creates the store and adds 1,2 (one node, written by P0); P1 adds 3 (the node
// is replaced by P1); P0 then reads everything in a new NoCheck transaction.
func knownCase(mode string) Case {
	return Case{Clustered: true, NProc: 2, HashMod: 1, Keys: 4, UUIDSeed: 20,
		Stores:  []StoreSpec{{Name: "st0", Slot: 4, CacheKind: "default"}},
		SeedOps: []Op{{Kind: "add", K: 1, Tag: "a"}, {Kind: "add", K: 2, Tag: "b"}},
		Steps: []Step{{Writer: 1, End: "commit", Ops: []Op{{Kind: "add", K: 3, Tag: "c"}},
			Reads: []ReadStep{{P: 1, Mode: mode}, {P: 0, Mode: mode}}}},
	}
}

// TestC20_Known_l1_handle_cache_serves_replaced_node replays the minimal history without rapid.
// Listed: prints KNOWN-FINDING while it reproduces, passes silently once it no longer does.
func TestC20_Known_l1_handle_cache_serves_replaced_node(t *testing.T) {
	if !stats.Known("C20", knownSlug) && os.Getenv("VERIF_C20_FORCE_KNOWN") == "" {
		t.Skip("not listed")
	}
	for _, mode := range []string{"N", "R"} {
		out := runCase(knownCase(mode), false)
		if out.harnessErr != "" {
			t.Fatalf("%s", out.harnessErr)
		}
		if out.violation == "" {
			t.Logf("mode %s: no longer reproduces", mode)
			continue
		}
		if out.class != knownSlug {
			t.Fatalf("the minimal history fails with another signature (class=%s): %s", out.class, out.violation)
		}
		t.Logf("reproduced: %s\n%s", out.violation, strings.Join(out.trace, "\n"))
		rec().KnownFinding(fmt.Sprintf("%s: %s", knownSlug, out.violation))
	}
}

// reorderCase: P0 seeds 12 keys into a slot-2 store (several nodes); P1 - which never wrote, so
// every node it reads comes through the registry and its handle is put into Redis - updates
// one key in each of the six leaves; Redis then drops about half of its keys; P1 commits.
func reorderCase(n int) Case {
	c := Case{Clustered: true, NProc: 2, HashMod: 1, Keys: 12, UUIDSeed: uint64(100 + n),
		Stores: []StoreSpec{{Name: "st0", Slot: 2, CacheKind: "default"}}}
	st := Step{Writer: 1, End: "commit", InTxn: fmt.Sprintf("evict:%d", n), Reads: []ReadStep{{P: 0, Mode: "N"}, {P: 1, Mode: "R"}}}
	for k := 0; k < 12; k++ {
		c.SeedOps = append(c.SeedOps, Op{Kind: "add", K: k, Tag: fmt.Sprintf("a%d", k)})
		if k%2 == 0 { // the even keys sit in the six leaves, which all carry the same version
			st.Ops = append(st.Ops, Op{Kind: "update", K: k, Tag: fmt.Sprintf("b%d", k)})
		}
	}
	c.Steps = []Step{st}
	return c
}

// leadCase is the single-process form of the same defect (reported by another check): T1 Add(7)
// Upsert(0) Upsert(2); L2 Clear; T2 Remove(2) Add(9); T3 Add(4) Add(1), with no reads in between (a
// read would go through the registry and repopulate the L2 cache); then a read-all, and another
// one by a fresh process.
func leadCase() Case {
	return Case{Clustered: false, NProc: 1, HashMod: 1, Keys: 10, UUIDSeed: 5,
		Stores: []StoreSpec{{Name: "st0", Slot: 2, Placement: 1, Balancing: true, CacheKind: "default"}},
		Steps: []Step{
			{End: "commit", Ops: []Op{{Kind: "add", K: 7, Tag: "a7"}, {Kind: "upsert", K: 0, Tag: "a0"}, {Kind: "upsert", K: 2, Tag: "a2"}}},
			{Pre: "l2clear", End: "commit", Ops: []Op{{Kind: "remove", K: 2}, {Kind: "add", K: 9, Tag: "b9"}}},
			{End: "commit", Ops: []Op{{Kind: "add", K: 4, Tag: "c4"}, {Kind: "add", K: 1, Tag: "c1"}},
				Reads: []ReadStep{{P: 0, Mode: "R"}, {Pre: "restart:0", P: 0, Mode: "N"}}},
		}}
}

// TestC20_Known_partial_l2_hit_reorders_handles_in_commit is the regression test of the second
// finding, repaired in /repo (f6562708, listed under "fixed"): always on, fails if it comes back.
// The order in which SOP asks for handles depends on Go map iteration, so a few variants run.
func TestC20_Known_partial_l2_hit_reorders_handles_in_commit(t *testing.T) {
	cases := []Case{leadCase(), leadCase()}
	for n := 1; n <= 4; n++ {
		cases = append(cases, reorderCase(n))
	}
	for i, c := range cases {
		// the class of the other (listed) finding is kept out of these histories
		out := runCase(c, true)
		if out.harnessErr != "" {
			t.Fatalf("%s", out.harnessErr)
		}
		if out.violation != "" {
			t.Fatalf("regression history %d: %s", i, report(c, out))
		}
	}
}

// TestReplay runs a JSON case (replays/C20/replay-c20-*.json) without rapid.
func TestReplay(t *testing.T) {
	p := os.Getenv("VERIF_REPLAY")
	if p == "" {
		t.Skip("no VERIF_REPLAY")
	}
	b, err := os.ReadFile(p)
	if err != nil {
		t.Fatalf("HARNESS-ERROR: %v", err)
	}
	var c Case
	if err := json.Unmarshal(b, &c); err != nil {
		t.Fatalf("HARNESS-ERROR: %s is not a C20 case: %v", p, err)
	}
	out := judge(t, c, os.Getenv("VERIF_C20_NOEXCLUDE") == "" && stats.Known("C20", knownSlug))
	t.Logf("held; history:\n%s", strings.Join(out.trace, "\n"))
}
