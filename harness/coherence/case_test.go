package coherence

import (
	"bufio"
	"crypto/sha1"
	"encoding/hex"
	"encoding/json"
	"fmt"
	"net"
	"os"
	"path/filepath"
	"regexp"
	"sort"
	"strconv"
	"strings"
	"time"

	"verif/harness/miniresp"
	"verif/harness/txh"
)

// knownSlug is the signature of the finding DESIGN.md expected for C20.
const knownSlug = "l1-handle-cache-serves-replaced-node"

// reorderSlug is the signature of the second finding (found by this check, repaired in /repo by
// f6562708): Registry.Get returned handles in another order than asked when only some of them were
// in the L2 cache, and the commit pairs handles with nodes by position, so two nodes' blobs were
// written under each other's ids. The signature is still recognised so that a regression is named.
const reorderSlug = "partial-l2-hit-reorders-handles-in-commit"

// ReadStep is one read-all by one process.
type ReadStep struct {
	Pre       string `json:"pre,omitempty"` // cache action before this read
	P         int    `json:"p"`
	Mode      string `json:"mode"` // R = ForReading, N = NoCheck
	ScanFirst bool   `json:"scan_first,omitempty"`
}

// Step is: cache action, one transaction by one process, cache action, then every process reads everything.
type Step struct {
	Pre    string     `json:"pre,omitempty"`
	Writer int        `json:"writer"`
	Ops    []Op       `json:"ops"`
	InTxn  string     `json:"in_txn,omitempty"` // cache action between the last operation and Commit/Rollback
	End    string     `json:"end"`
	Mid    string     `json:"mid,omitempty"`
	Reads  []ReadStep `json:"reads"`
}

// Case is one sequential history (one transaction in flight at a time).
// Cache actions: "" | flush:<p> (FLUSHDB through process p's adapter) | reset (Redis restart) |
// adv:<seconds> (Redis clock) | evict:<n> (Redis drops a pseudo-random half of its keys, as under
// memory pressure) | restart:<p> (process p is replaced by a fresh process) |
// l2clear (standalone: Clear of the in-memory L2).
type Case struct {
	Clustered bool        `json:"clustered"`
	NProc     int         `json:"nproc"`
	HashMod   int         `json:"hashmod"`
	L1Min     int         `json:"l1min"`
	L1Max     int         `json:"l1max"`
	Keys      int         `json:"keys"`
	UUIDSeed  uint64      `json:"uuid_seed"`
	Stores    []StoreSpec `json:"stores"`
	SeedOps   []Op        `json:"seed_ops"`
	Steps     []Step      `json:"steps"`
}

func (c Case) canon() string {
	b, _ := json.Marshal(c)
	return string(b)
}

// outcome of one executed case.
type outcome struct {
	violation  string // "" = every read agreed with the model
	class      string // signature of the violation
	harnessErr string
	nontrivial bool
	labels     map[string]int
	excluded   int
	commitErrs []string
	trace      []string
}

type runner struct {
	c      Case
	listed bool // the known finding is listed: its class is excluded by construction
	dir    string
	srv    *miniresp.Server
	procs  []*proc
	gens   []int
	names  []string
	model  []map[int]string
	// disk truth after the last commit: per store, logical node id -> "version/active physical id"
	cur        []map[string]string
	lastWriter map[string]int // logical id -> process that wrote its current version
	nodes      []int
	// per process: logical id -> signature it last wrote / last saw in a read-all
	wrote    []map[string]string
	readSeen []map[string]string
	out      *outcome
}

func (r *runner) tracef(f string, a ...any) { r.out.trace = append(r.out.trace, fmt.Sprintf(f, a...)) }
func (r *runner) label(l string)            { r.out.labels[l]++ }

var infraPat = regexp.MustCompile(`i/o timeout|connection refused|connection reset|broken pipe|too many open files|no space left|cannot allocate memory|context deadline exceeded|use of closed network connection`)

func (r *runner) harness(f string, a ...any) bool {
	m := fmt.Sprintf(f, a...)
	if !strings.Contains(m, "HARNESS-ERROR") {
		m = "HARNESS-ERROR: " + m
	}
	r.out.harnessErr = m
	return false
}

func (r *runner) violate(class, f string, a ...any) bool {
	r.out.class = class
	r.out.violation = fmt.Sprintf(f, a...)
	return false
}

func (r *runner) initCmd(p int) InitCmd {
	ic := InitCmd{Dir: r.dir, HashMod: r.c.HashMod, L1Min: r.c.L1Min, L1Max: r.c.L1Max,
		UUIDSeed: r.c.UUIDSeed ^ (uint64(p+1) * 0x9e3779b97f4a7c15) ^ (uint64(r.gens[p]+1) * 0xc2b2ae3d27d4eb4f)}
	if r.c.Clustered {
		ic.Redis = r.srv.Addr()
	}
	return ic
}

func (r *runner) start(p int) bool {
	pr, pf := startProc(p, r.gens[p], r.initCmd(p))
	if pf != nil {
		return r.harness("%s", pf.msg)
	}
	r.procs[p] = pr
	r.wrote[p] = map[string]string{}
	r.readSeen[p] = map[string]string{}
	return true
}

func (r *runner) restart(p int) bool {
	r.procs[p].stop()
	r.gens[p]++
	return r.start(p)
}

// call runs one command in process p; a worker that does not answer is inconclusive unless it
// died in SOP code.
func (r *runner) call(p int, c Cmd) (Resp, bool) {
	resp, pf := r.procs[p].call(c)
	if pf != nil {
		if pf.sopPanic {
			return resp, r.violate("sop-panic", "%s", pf.msg)
		}
		return resp, r.harness("%s", pf.msg)
	}
	if resp.HarnessErr != "" {
		return resp, r.harness("P%d %s: %s", p, c.Kind, resp.HarnessErr)
	}
	if resp.Panic != "" {
		return resp, r.violate("sop-panic", "P%d %s: SOP panicked: %s", p, c.Kind, resp.Panic)
	}
	return resp, true
}

func (r *runner) action(a string) bool {
	if a == "" {
		return true
	}
	r.tracef("  action %s", a)
	kind, arg, _ := strings.Cut(a, ":")
	n, _ := strconv.Atoi(arg)
	r.label("action:" + kind)
	switch kind {
	case "flush":
		if resp, ok := r.call(n, Cmd{Kind: "l2clear"}); !ok {
			return false
		} else if resp.Err != "" {
			return r.sopError(n, "FLUSHDB through the adapter", resp)
		}
	case "l2clear":
		if resp, ok := r.call(0, Cmd{Kind: "l2clear"}); !ok {
			return false
		} else if resp.Err != "" {
			return r.sopError(0, "L2 Clear", resp)
		}
	case "reset":
		r.srv.Reset()
	case "evict":
		// Redis may drop any key at any time (maxmemory policies); lock keys are spared: dropping
		// a lock is about mutual exclusion (C28), not about cached data
		var victims []string
		for i, k := range r.srv.Keys() {
			if !strings.HasPrefix(k, "L") && mix(uint64(n)*1000003+uint64(i))&1 == 0 {
				victims = append(victims, k)
			}
		}
		if err := respDel(r.srv.Addr(), victims); err != nil {
			return r.harness("evict: %v", err)
		}
		dropped, kept := 0, 0
		gone := map[string]bool{}
		for _, k := range victims {
			gone[k] = true
		}
		have := map[string]bool{}
		for _, k := range r.srv.Keys() {
			have[k] = true
		}
		for s := range r.cur {
			for lid := range r.cur[s] {
				if gone[lid] {
					dropped++
				} else if have[lid] {
					kept++
				}
			}
		}
		r.tracef("    (dropped %d keys; of the current trees' handles %d dropped, %d still cached)", len(victims), dropped, kept)
	case "l1evict":
		// process n loses the nodes of its process-local MRU (capacity pressure), not its handle cache: the listed
		// finding needs both (outdated handle -> outdated node still in the MRU), so the process counts as clean again for the nodes that are outdated at that moment
		resp, ok := r.call(n, Cmd{Kind: "l1evict"})
		if !ok {
			return false
		} else if resp.Err != "" {
			return r.sopError(n, "L1 eviction", resp)
		}
		// only for the nodes that are outdated NOW: their old copies are gone for good (nothing loads a replaced blob
		// again); a node that is still current may be cached again and be replaced later
		for lid, w := range r.wrote[n] {
			for s := range r.cur {
				if sig, ok := r.cur[s][lid]; ok && sig != w {
					delete(r.wrote[n], lid)
					r.label("l1-nodes-evicted:outdated-node-dropped")
				}
			}
		}
		r.label("l1-nodes-evicted")
	case "adv":
		r.srv.Advance(time.Duration(n) * time.Second)
	case "restart":
		return r.restart(n)
	default:
		return r.harness("unknown action %q", a)
	}
	return true
}

func (r *runner) sopError(p int, what string, resp Resp) bool {
	if infraPat.MatchString(resp.Err) {
		return r.harness("P%d %s: infrastructure error at %s: %s", p, what, resp.Stage, resp.Err)
	}
	return r.violate(r.classFor(p, "read-error"), "P%d %s: SOP returned an error at %s in a quiescent database: %s", p, what, resp.Stage, resp.Err)
}

// tainted: process p once wrote a node of a current tree and another process has replaced it
// since. That is exactly when p's process-local handle cache can hold an outdated handle.
func (r *runner) tainted(p int) (bool, string) {
	for s := range r.cur {
		for lid, sig := range r.cur[s] {
			if w, ok := r.wrote[p][lid]; ok && w != sig {
				return true, fmt.Sprintf("store %s node %s: P%d wrote %s, P%d replaced it with %s", r.names[s], lid, p, w, r.lastWriter[lid], sig)
			}
		}
	}
	return false, ""
}

// classFor names the signature of a failure observed in process p.
func (r *runner) classFor(p int, other string) string {
	if t, _ := r.tainted(p); t {
		return knownSlug
	}
	return other
}

// beforeTxn applies the exclusion of the listed finding: a process that would read a node it
// wrote earlier and that another process replaced since is replaced by a fresh process.
func (r *runner) beforeTxn(p int) bool {
	if !r.listed {
		return true
	}
	if t, why := r.tainted(p); t {
		r.out.excluded++
		if r.c.Clustered && r.out.excluded%2 == 1 {
			// the class needs the outdated handle AND the outdated node in the process's caches: dropping the nodes (what
			// capacity pressure does) takes the process out of the class and keeps its outdated handles in play
			r.tracef("  excluded (%s): P%d loses the nodes of its L1 MRU instead (%s)", knownSlug, p, why)
			return r.action(fmt.Sprintf("l1evict:%d", p))
		}
		r.tracef("  excluded (%s): P%d restarted instead (%s)", knownSlug, p, why)
		return r.restart(p)
	}
	return true
}

// refreshDisk re-reads the committed state from the files (independent reader: no SOP cache,
// registry or B-tree code) after a commit by writer, and updates the node bookkeeping.
func (r *runner) refreshDisk(writer int, what string) bool {
	reach := txh.ReadDisk(r.dir)
	for s, name := range r.names {
		sr := reach.Stores[name]
		if sr == nil {
			return r.violate("disk", "after %s: store %s is not in storelist.txt", what, name)
		}
		// signature of the reorder finding: a handle whose active blob holds another node
		for _, rs := range sr.RegSlots {
			act := rs.H.GetActiveID().String()
			b, err := os.ReadFile(filepath.Join(r.dir, sr.Info.BlobTable, act[0:1], act[1:2], act[2:3], act[3:4], act))
			var n struct{ ID string }
			if err == nil && json.Unmarshal(b, &n) == nil && n.ID != "" && n.ID != rs.H.LogicalID.String() {
				return r.violate(reorderSlug, "after %s: the registry of store %s maps node %s (version %d) to blob %s, which holds node %s: the commit wrote nodes under each other's ids; every later reader gets a wrong tree",
					what, name, rs.H.LogicalID, rs.H.Version, act, n.ID)
			}
		}
		if len(sr.Problems) > 0 {
			return r.violate("disk", "after %s: the files of store %s are inconsistent: %v", what, name, sr.Problems)
		}
		// the committed state itself must be what the model says, else later mismatches are not about caches
		want := r.modelItems(s)
		got := make([]KV, len(sr.Items))
		for i, it := range sr.Items {
			got[i] = KV{it.K, it.V}
		}
		if d := diffItems(got, want); d != "" {
			return r.violate("disk", "after %s: the files of store %s do not hold the committed state: %s", what, name, d)
		}
		now := map[string]string{}
		for _, rs := range sr.RegSlots {
			if sr.LogicalIDs[rs.H.LogicalID] {
				now[rs.H.LogicalID.String()] = fmt.Sprintf("v%d/%s", rs.H.Version, rs.H.GetActiveID().String()[:8])
			}
		}
		changed := 0
		for lid, sig := range now {
			if r.cur[s][lid] != sig {
				changed++
				r.wrote[writer][lid] = sig
				r.lastWriter[lid] = writer
			}
		}
		if r.cur[s] != nil && what != "seed" {
			switch {
			case len(now) > len(r.cur[s]):
				r.label("commit:node-count-grew")
			case len(now) < len(r.cur[s]):
				r.label("commit:node-count-shrank")
			case changed > 0:
				r.label("commit:nodes-replaced-in-place")
			}
		}
		r.cur[s] = now
		r.nodes[s] = len(now)
	}
	return true
}

func (r *runner) modelItems(s int) []KV {
	ks := make([]int, 0, len(r.model[s]))
	for k := range r.model[s] {
		ks = append(ks, k)
	}
	sort.Ints(ks)
	out := make([]KV, len(ks))
	for i, k := range ks {
		out[i] = KV{k, r.model[s][k]}
	}
	return out
}

func short(v string) string {
	if i := strings.IndexByte(v, '|'); i >= 0 && len(v) > i+9 {
		return fmt.Sprintf("%s|+%dB", v[:i], len(v)-i-1)
	}
	return v
}

func render(items []KV) string {
	var sb strings.Builder
	for _, kv := range items {
		fmt.Fprintf(&sb, "%d=%s ", kv.K, short(kv.V))
	}
	return "{" + strings.TrimSpace(sb.String()) + "}"
}

// diffItems compares an ordered scan of a unique store with the model's items.
func diffItems(got, want []KV) string {
	if len(got) == len(want) {
		same := true
		for i := range got {
			if got[i] != want[i] {
				same = false
				break
			}
		}
		if same {
			return ""
		}
	}
	return fmt.Sprintf("read %s, latest committed state is %s", render(got), render(want))
}

// mix is splitmix64's finalizer (victim selection of evict actions).
func mix(z uint64) uint64 {
	z += 0x9e3779b97f4a7c15
	z = (z ^ (z >> 30)) * 0xbf58476d1ce4e5b9
	z = (z ^ (z >> 27)) * 0x94d049bb133111eb
	return z ^ (z >> 31)
}

// respDel sends one DEL to the RESP server.
func respDel(addr string, keys []string) error {
	if len(keys) == 0 {
		return nil
	}
	c, err := net.DialTimeout("tcp", addr, 10*time.Second)
	if err != nil {
		return err
	}
	defer c.Close()
	_ = c.SetDeadline(time.Now().Add(30 * time.Second))
	var sb strings.Builder
	fmt.Fprintf(&sb, "*%d\r\n$3\r\nDEL\r\n", len(keys)+1)
	for _, k := range keys {
		fmt.Fprintf(&sb, "$%d\r\n%s\r\n", len(k), k)
	}
	if _, err := c.Write([]byte(sb.String())); err != nil {
		return err
	}
	line, err := bufio.NewReader(c).ReadString('\n')
	if err != nil {
		return err
	}
	if !strings.HasPrefix(line, ":") {
		return fmt.Errorf("DEL answered %q", line)
	}
	return nil
}

// txn runs one writing transaction and judges every operation's result against the model.
func (r *runner) txn(p int, ops []Op, inTxn, end, what string) bool {
	// (the listed finding also reaches writers: operations of a writer in such a process navigate a mixture of its own
	// outdated nodes and current ones - observed: index-out-of-range panics, a commit that returns nil and leaves a
	// tree with misplaced/duplicate keys or an item whose value blob is gone - so writers are restarted like readers)
	if !r.beforeTxn(p) {
		return false
	}
	resp, ok := r.call(p, Cmd{Kind: "txn", Mode: "W", Names: r.names, Ops: ops})
	if !ok {
		return false
	}
	work := make([]map[int]string, len(r.model))
	for s := range r.model {
		work[s] = make(map[int]string, len(r.model[s]))
		for k, v := range r.model[s] {
			work[s][k] = v
		}
	}
	for i, o := range resp.Ops {
		op := ops[i]
		m := work[op.S]
		_, has := m[op.K]
		want, wantVal := false, ""
		switch op.Kind {
		case "add", "addIfNotExist":
			want = !has
			if want {
				m[op.K] = op.value()
			}
		case "upsert":
			want = true
			m[op.K] = op.value()
		case "update":
			want = has
			if has {
				m[op.K] = op.value()
			}
		case "remove":
			want = has
			delete(m, op.K)
		case "find":
			want, wantVal = has, m[op.K]
		}
		if o.OK != want || (op.Kind == "find" && o.OK && o.Val != wantVal) {
			return r.violate(r.classFor(p, "stale-result-in-writer"),
				"P%d %s: op %d %s returned %v %s; given the latest committed state %s (plus this transaction's earlier operations) it must return %v %s",
				p, what, i, op, o.OK, short(o.Val), render(r.modelItems(op.S)), want, short(wantVal))
		}
	}
	if resp.Err != "" {
		return r.sopError(p, what, resp)
	}
	if !resp.Done {
		return r.harness("P%d %s: worker reported neither an error nor completion", p, what)
	}
	if inTxn != "" {
		r.label("in-txn-action")
		if !r.action(inTxn) {
			return false
		}
	}
	resp, ok = r.call(p, Cmd{Kind: "end", End: end})
	if !ok {
		return false
	}
	if resp.Err != "" {
		return r.sopError(p, what+" "+end, resp)
	}
	if resp.CommitErr != "" {
		if infraPat.MatchString(resp.CommitErr) {
			return r.harness("P%d %s: infrastructure error in Commit: %s", p, what, resp.CommitErr)
		}
		// A failed commit is not a stale read: the property says nothing about it. The committed
		// state must then be the old one, which refreshDisk and the following reads check.
		r.label("txn:commit-failed")
		r.out.commitErrs = append(r.out.commitErrs, fmt.Sprintf("P%d %s (%s): %s", p, what, r.classFor(p, "untainted"), resp.CommitErr))
		r.tracef("  Commit failed: %s", resp.CommitErr)
		return r.refreshDisk(p, what+" (failed commit)")
	}
	if end == "commit" {
		r.model = work
		return r.refreshDisk(p, what)
	}
	return true
}

// readAll makes process p read every key and scan every store in a new transaction and
// compares with the latest committed state.
func (r *runner) readAll(p int, rs ReadStep, what string) bool {
	if !r.beforeTxn(p) {
		return false
	}
	// classify the read before it happens
	hadRead, hadWritten, cold := false, false, len(r.readSeen[p]) == 0 && len(r.wrote[p]) == 0
	for s := range r.cur {
		for lid, sig := range r.cur[s] {
			foreign := r.lastWriter[lid] != p || !r.c.Clustered
			if v, ok := r.readSeen[p][lid]; ok && v != sig && foreign {
				hadRead = true
			}
			if v, ok := r.wrote[p][lid]; ok && v != sig && foreign {
				hadWritten = true
			}
		}
	}
	switch {
	case hadWritten:
		r.label("read:node-replaced-since-reader-wrote-it")
	case hadRead:
		r.label("read:node-replaced-since-reader-read-it")
	case cold:
		r.label("read:cold-process")
	default:
		r.label("read:nothing-replaced-since")
	}
	if hadRead || hadWritten {
		r.out.nontrivial = true
	}
	resp, ok := r.call(p, Cmd{Kind: "readall", Mode: rs.Mode, Names: r.names, Keys: r.c.Keys, ScanFirst: rs.ScanFirst})
	if !ok {
		return false
	}
	if resp.Err != "" {
		return r.sopError(p, what, resp)
	}
	modeName := map[string]string{"R": "ForReading", "N": "NoCheck"}[rs.Mode]
	ending := "its Commit returned nil"
	if resp.CommitErr != "" {
		ending = "its Commit then failed: " + resp.CommitErr
	}
	for s, sr := range resp.Reads {
		want := r.modelItems(s)
		stale := func(f string, a ...any) bool {
			return r.violate(r.classFor(p, "stale-read"), "P%d %s (%s, %s): store %s: %s", p, what, modeName, ending, r.names[s], fmt.Sprintf(f, a...))
		}
		if d := diffItems(sr.Scan, want); d != "" {
			return stale("scan %s", d)
		}
		for k := 0; k < r.c.Keys; k++ {
			v, has := r.model[s][k]
			if sr.Found[k] != has {
				return stale("Find(%d) returned %v, latest committed state is %s", k, sr.Found[k], render(want))
			}
			if has && sr.Vals[k] != v {
				return stale("Find(%d)+GetCurrentValue returned %s, the latest committed value is %s", k, short(sr.Vals[k]), short(v))
			}
		}
		if sr.Count != int64(len(want)) {
			return stale("Count() = %d, the latest committed state has %d items", sr.Count, len(want))
		}
	}
	if resp.CommitErr != "" {
		if infraPat.MatchString(resp.CommitErr) {
			return r.harness("P%d %s: infrastructure error in Commit: %s", p, what, resp.CommitErr)
		}
		// every read matched; a reader's failed Commit is not a stale read
		r.label("read:commit-failed")
		r.out.commitErrs = append(r.out.commitErrs, fmt.Sprintf("P%d %s (%s, %s): %s", p, what, modeName, r.classFor(p, "untainted"), resp.CommitErr))
		r.tracef("  reader Commit failed: %s", resp.CommitErr)
	}
	for s := range r.cur {
		for lid, sig := range r.cur[s] {
			r.readSeen[p][lid] = sig
		}
	}
	return true
}

// runCase executes one history. listed: exclude the class of the listed known finding.
func runCase(c Case, listed bool) (out *outcome) {
	out = &outcome{labels: map[string]int{}}
	r := &runner{c: c, listed: listed, out: out, lastWriter: map[string]int{}}
	dir, err := os.MkdirTemp("", "c20-")
	if err != nil {
		r.harness("mkdtemp: %v", err)
		return
	}
	r.dir = dir
	defer func() {
		if keep := os.Getenv("VERIF_C20_KEEPDIR"); keep != "" && (out.violation != "" || os.Getenv("VERIF_C20_KEEPALL") != "") {
			os.Rename(dir, keep) // development aid: inspect the files of a failing case
		}
		os.RemoveAll(dir)
	}()
	if c.Clustered {
		if r.srv, err = miniresp.Start(); err != nil {
			r.harness("miniresp: %v", err)
			return
		}
		defer r.srv.Close()
	}
	n := c.NProc
	r.procs, r.gens = make([]*proc, n), make([]int, n)
	r.wrote, r.readSeen = make([]map[string]string, n), make([]map[string]string, n)
	defer func() {
		for _, p := range r.procs {
			p.stop()
		}
	}()
	for p := 0; p < n; p++ {
		if !r.start(p) {
			return
		}
	}
	for _, s := range c.Stores {
		r.names = append(r.names, s.Name)
		r.model = append(r.model, map[int]string{})
	}
	r.cur, r.nodes = make([]map[string]string, len(c.Stores)), make([]int, len(c.Stores))

	r.tracef("P0 creates %d store(s)", len(c.Stores))
	resp, ok := r.call(0, Cmd{Kind: "create", Stores: c.Stores})
	if !ok {
		return
	}
	if resp.Err != "" || resp.CommitErr != "" {
		if infraPat.MatchString(resp.Err + resp.CommitErr) {
			r.harness("creating the stores: %s %s", resp.Err, resp.CommitErr)
		} else {
			r.violate("setup", "creating the stores failed at %s: %s %s", resp.Stage, resp.Err, resp.CommitErr)
		}
		return
	}
	if len(c.SeedOps) > 0 {
		r.tracef("P0 seeds: %v -> commit", c.SeedOps)
		if !r.txn(0, c.SeedOps, "", "commit", "seed") {
			return
		}
	} else if !r.refreshDisk(0, "seed") {
		return
	}
	for si, st := range c.Steps {
		if !r.action(st.Pre) {
			return
		}
		what := fmt.Sprintf("step %d txn", si)
		r.tracef("step %d: P%d %v -> [%s] %s", si, st.Writer, st.Ops, st.InTxn, st.End)
		if !r.txn(st.Writer, st.Ops, st.InTxn, st.End, what) {
			return
		}
		if !r.action(st.Mid) {
			return
		}
		for _, rs := range st.Reads {
			if !r.action(rs.Pre) {
				return
			}
			r.tracef("  P%d reads all (%s)", rs.P, rs.Mode)
			if !r.readAll(rs.P, rs, fmt.Sprintf("read-all after step %d", si)) {
				return
			}
		}
		multi := false
		for s := range r.nodes {
			if r.nodes[s] > 1 {
				multi = true
			}
		}
		if multi {
			r.label("step:some-tree-has-several-nodes")
		} else {
			r.label("step:single-node-trees")
		}
	}
	return
}

var lastReplay string

// report renders a failing case for the log and writes the JSON replay unit into the cwd (only
// the latest failing case is kept: while rapid shrinks, that is the smallest one so far).
func report(c Case, out *outcome) string {
	b, _ := json.MarshalIndent(c, "", " ")
	h := sha1.Sum(b)
	name := "replay-c20-" + hex.EncodeToString(h[:6]) + ".json"
	if lastReplay != "" && lastReplay != name {
		os.Remove(lastReplay)
	}
	lastReplay = name
	_ = os.WriteFile(name, b, 0o644)
	return fmt.Sprintf("C20 violated (class=%s): %s\n--- history ---\n%s\n--- case (%s) ---\n%s",
		out.class, out.violation, strings.Join(out.trace, "\n"), name, string(b))
}
