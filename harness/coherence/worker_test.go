package coherence

import (
	"bufio"
	"context"
	"encoding/binary"
	"encoding/json"
	"fmt"
	"io"
	"log/slog"
	"os"
	"runtime/debug"
	"strings"
	"sync"
	"testing"
	"time"

	"github.com/google/uuid"
	"github.com/sharedcode/sop"
	_ "github.com/sharedcode/sop/adapters/redis" // registers the sop.Redis L2 cache factory (init)
	"github.com/sharedcode/sop/btree"
	"github.com/sharedcode/sop/cache" // registers the sop.InMemory L2 cache factory (init)
	"github.com/sharedcode/sop/infs"
)

// ---------------------------------------------------------------------------------------
// protocol between the parent (generator + oracle) and the worker processes (SOP, public API)
// ---------------------------------------------------------------------------------------

// StoreSpec are the options of one store of a case.
type StoreSpec struct {
	Name      string `json:"name"`
	Slot      int    `json:"slot"`
	Placement int    `json:"placement"` // 0 in node, 1 separate, 2 separate+globally cached, 3 actively persisted, 4 actively persisted+globally cached
	Balancing bool   `json:"balancing,omitempty"`
	// CacheKind: default | none | 5m | 5mTTL | 1h | 1hTTL | mixed
	CacheKind string `json:"cache"`
}

var placementNames = []string{"inNode", "separate", "separateCached", "active", "activeCached"}

func (s StoreSpec) cacheConfig() *sop.StoreCacheConfig {
	switch s.CacheKind {
	case "none":
		return sop.NewStoreCacheConfig(0, false)
	case "5m":
		return sop.NewStoreCacheConfig(5*time.Minute, false)
	case "5mTTL":
		return sop.NewStoreCacheConfig(5*time.Minute, true)
	case "1h":
		return sop.NewStoreCacheConfig(time.Hour, false)
	case "1hTTL":
		return sop.NewStoreCacheConfig(time.Hour, true)
	case "mixed":
		// nodes not cached in L2 at all, handles sliding, store info short, values long
		return &sop.StoreCacheConfig{
			NodeCacheDuration:      -1,
			RegistryCacheDuration:  10 * time.Minute,
			IsRegistryCacheTTL:     true,
			StoreInfoCacheDuration: 5 * time.Minute,
			ValueDataCacheDuration: time.Hour,
			IsValueDataCacheTTL:    true,
		}
	}
	return nil // SOP's default
}

func (s StoreSpec) options() sop.StoreOptions {
	so := sop.StoreOptions{
		Name:              s.Name,
		SlotLength:        s.Slot,
		IsUnique:          true,
		LeafLoadBalancing: s.Balancing,
		CacheConfig:       s.cacheConfig(),
	}
	switch s.Placement {
	case 0:
		so.IsValueDataInNodeSegment = true
	case 2:
		so.IsValueDataGloballyCached = true
	case 3:
		so.IsValueDataActivelyPersisted = true
	case 4:
		so.IsValueDataActivelyPersisted = true
		so.IsValueDataGloballyCached = true
	}
	return so
}

// InitCmd configures a worker process before its first SOP call.
type InitCmd struct {
	Dir      string `json:"dir"`
	Redis    string `json:"redis,omitempty"` // host:port of miniresp; empty = standalone (in-memory L2)
	HashMod  int    `json:"hashmod"`
	L1Min    int    `json:"l1min"` // 0 = SOP's defaults
	L1Max    int    `json:"l1max"`
	UUIDSeed uint64 `json:"uuid_seed"`
}

// Op is one B-tree call of a transaction program.
type Op struct {
	S    int    `json:"s"`
	Kind string `json:"kind"` // add addIfNotExist upsert update remove find
	K    int    `json:"k"`
	Tag  string `json:"tag,omitempty"`
	Size int    `json:"size,omitempty"`
}

func (o Op) value() string { return o.Tag + "|" + strings.Repeat("v", o.Size) }

func (o Op) String() string {
	switch o.Kind {
	case "remove", "find":
		return fmt.Sprintf("s%d.%s(%d)", o.S, o.Kind, o.K)
	}
	return fmt.Sprintf("s%d.%s(%d,%s+%dB)", o.S, o.Kind, o.K, o.Tag, o.Size)
}

// Cmd is one request to a worker.
type Cmd struct {
	Kind      string      `json:"kind"` // init | create | txn (begin + operations, stays open) | end (commit / rollback) | readall | l2clear
	Init      *InitCmd    `json:"init,omitempty"`
	Stores    []StoreSpec `json:"stores,omitempty"` // create
	Names     []string    `json:"names,omitempty"`  // txn, readall: store names, index = Op.S
	Mode      string      `json:"mode,omitempty"`   // W | R | N
	Ops       []Op        `json:"ops,omitempty"`
	End       string      `json:"end,omitempty"` // commit | rollback
	Keys      int         `json:"keys,omitempty"`
	ScanFirst bool        `json:"scan_first,omitempty"`
}

// KV is one item as read.
type KV struct {
	K int    `json:"k"`
	V string `json:"v"`
}

// OpObs is what one operation returned.
type OpObs struct {
	OK  bool   `json:"ok"`
	Val string `json:"val,omitempty"` // find: the value read
}

// StoreRead is what a read-all saw of one store.
type StoreRead struct {
	Count int64    `json:"count"`
	Found []bool   `json:"found"`
	Vals  []string `json:"vals"`
	Scan  []KV     `json:"scan"`
}

// Resp is what the worker observed; it contains no judgement.
type Resp struct {
	HarnessErr string      `json:"harness_err,omitempty"`
	Panic      string      `json:"panic,omitempty"`
	PanicSOP   bool        `json:"panic_sop,omitempty"`
	Stage      string      `json:"stage,omitempty"` // where Err happened: new begin open op read
	Err        string      `json:"err,omitempty"`   // an SOP call other than Commit returned an error
	Ops        []OpObs     `json:"ops,omitempty"`
	Reads      []StoreRead `json:"reads,omitempty"`
	CommitErr  string      `json:"commit_err,omitempty"`
	Done       bool        `json:"done,omitempty"` // the transaction reached its end call and that returned nil
}

// ---------------------------------------------------------------------------------------
// worker side
// ---------------------------------------------------------------------------------------

type lockedRand struct {
	mu    sync.Mutex
	state uint64
}

func (u *lockedRand) Read(p []byte) (int, error) {
	u.mu.Lock()
	defer u.mu.Unlock()
	for i := 0; i < len(p); i += 8 {
		u.state += 0x9e3779b97f4a7c15 // splitmix64
		z := u.state
		z = (z ^ (z >> 30)) * 0xbf58476d1ce4e5b9
		z = (z ^ (z >> 27)) * 0x94d049bb133111eb
		z ^= z >> 31
		var b [8]byte
		binary.BigEndian.PutUint64(b[:], z)
		copy(p[i:], b[:])
	}
	return len(p), nil
}

type store = btree.BtreeInterface[int, string]

type workerState struct {
	init    InitCmd
	ctx     context.Context
	pending sop.Transaction // the transaction opened by "txn", finished by "end"
}

func (w *workerState) options(mode string) sop.TransactionOptions {
	o := sop.TransactionOptions{
		StoresFolders:        []string{w.init.Dir},
		RegistryHashModValue: w.init.HashMod,
		MaxTime:              time.Minute,
	}
	switch mode {
	case "W":
		o.Mode = sop.ForWriting
	case "R":
		o.Mode = sop.ForReading
	default:
		o.Mode = sop.NoCheck
	}
	if w.init.Redis != "" {
		o.CacheType = sop.Redis
		o.RedisConfig = &sop.RedisCacheConfig{Address: w.init.Redis, DialTimeout: 20 * time.Second,
			ReadTimeout: 60 * time.Second, WriteTimeout: 60 * time.Second}
	} else {
		o.CacheType = sop.InMemory
	}
	return o
}

func (w *workerState) handle(c Cmd) (r Resp) {
	stage := "setup"
	defer func() {
		if p := recover(); p != nil {
			st := string(debug.Stack())
			r.Panic = fmt.Sprintf("stage=%s: %v\n%s", stage, p, st)
			// frames below "panic(" are the panicking call chain, innermost first: a panic raised in an
			// SOP frame is SOP's; anything else is the harness
			if k := strings.Index(st, "\npanic("); k >= 0 {
				st = st[k:]
			}
			i := strings.Index(st, "github.com/sharedcode/sop")
			j := strings.Index(st, "verif/harness/coherence")
			r.PanicSOP = i >= 0 && (j < 0 || i < j)
			if !r.PanicSOP {
				r.HarnessErr = "HARNESS-ERROR: panic in worker harness code: " + r.Panic
			}
		}
	}()
	ctx := w.ctx
	fail := func(st string, err error) Resp {
		r.Stage, r.Err = st, err.Error()
		return r
	}
	switch c.Kind {
	case "init":
		if c.Init == nil {
			r.HarnessErr = "HARNESS-ERROR: init without parameters"
			return
		}
		w.init = *c.Init
		if w.init.L1Max > 0 {
			// exported knobs, read when the process-global L1 cache is first created
			cache.DefaultMinCapacity, cache.DefaultMaxCapacity = w.init.L1Min, w.init.L1Max
			cache.DefaultStandaloneMinCapacity, cache.DefaultStandaloneMaxCapacity = w.init.L1Min, w.init.L1Max
		}
		uuid.SetRand(&lockedRand{state: w.init.UUIDSeed})
		return
	case "l2clear":
		stage = "l2clear"
		l2 := sop.GetL2Cache(w.options("R"))
		if l2 == nil {
			r.HarnessErr = "HARNESS-ERROR: no L2 cache factory registered"
			return
		}
		if err := l2.Clear(ctx); err != nil {
			return fail("l2clear", err)
		}
		r.Done = true
		return
	case "l1evict":
		stage = "l1evict"
		l2 := sop.GetL2Cache(w.options("R"))
		if l2 == nil {
			r.HarnessErr = "HARNESS-ERROR: no L2 cache factory registered"
			return
		}
		l1 := cache.GetGlobalL1Cache(l2)
		var ids []sop.UUID
		for i := 0; i < 4*cache.DefaultMaxCapacity+8; i++ {
			id := sop.NewUUID()
			ids = append(ids, id)
			l1.SetNodeToMRU(ctx, id, &btree.Node[int, string]{ID: id}, time.Minute)
		}
		l1.DeleteNodes(ctx, ids)
		r.Done = true
		return
	case "create":
		stage = "create"
		tx, err := infs.NewTransaction(ctx, w.options("W"))
		if err != nil {
			return fail("new", err)
		}
		if err := tx.Begin(ctx); err != nil {
			return fail("begin", err)
		}
		for _, s := range c.Stores {
			if _, err := infs.NewBtree[int, string](ctx, s.options(), tx, nil); err != nil {
				if tx.HasBegun() {
					tx.Rollback(ctx)
				}
				return fail("open", err)
			}
		}
		if err := tx.Commit(ctx); err != nil {
			r.CommitErr = err.Error()
			return
		}
		r.Done = true
		return
	case "txn":
		stage = "txn"
		tx, err := infs.NewTransaction(ctx, w.options(c.Mode))
		if err != nil {
			return fail("new", err)
		}
		if err := tx.Begin(ctx); err != nil {
			return fail("begin", err)
		}
		open := map[int]store{}
		for i, op := range c.Ops {
			stage = fmt.Sprintf("txn op %d %s", i, op)
			b, ok := open[op.S]
			if !ok {
				if b, err = infs.OpenBtree[int, string](ctx, c.Names[op.S], tx, nil); err != nil {
					if tx.HasBegun() {
						tx.Rollback(ctx)
					}
					return fail("open", err)
				}
				open[op.S] = b
			}
			var o OpObs
			switch op.Kind {
			case "add":
				o.OK, err = b.Add(ctx, op.K, op.value())
			case "addIfNotExist":
				o.OK, err = b.AddIfNotExist(ctx, op.K, op.value())
			case "upsert":
				o.OK, err = b.Upsert(ctx, op.K, op.value())
			case "update":
				o.OK, err = b.Update(ctx, op.K, op.value())
			case "remove":
				o.OK, err = b.Remove(ctx, op.K)
			case "find":
				o.OK, err = b.Find(ctx, op.K, false)
				if err == nil && o.OK {
					if k := b.GetCurrentKey().Key; k != op.K {
						err = fmt.Errorf("Find(%d) returned true but the cursor is on key %d", op.K, k)
					} else {
						o.Val, err = b.GetCurrentValue(ctx)
					}
				}
			default:
				r.HarnessErr = "HARNESS-ERROR: unknown op kind " + op.Kind
				tx.Rollback(ctx)
				return
			}
			if err != nil {
				if tx.HasBegun() {
					tx.Rollback(ctx)
				}
				return fail(fmt.Sprintf("op %d %s", i, op), err)
			}
			r.Ops = append(r.Ops, o)
		}
		w.pending = tx
		r.Done = true
		return
	case "end":
		stage = "end " + c.End
		tx := w.pending
		w.pending = nil
		if tx == nil {
			r.HarnessErr = "HARNESS-ERROR: end without an open transaction"
			return
		}
		if c.End == "rollback" {
			if err := tx.Rollback(ctx); err != nil {
				return fail("rollback", err)
			}
			r.Done = true
			return
		}
		if err := tx.Commit(ctx); err != nil {
			r.CommitErr = err.Error()
			return
		}
		r.Done = true
		return
	case "readall":
		stage = "readall"
		tx, err := infs.NewTransaction(ctx, w.options(c.Mode))
		if err != nil {
			return fail("new", err)
		}
		if err := tx.Begin(ctx); err != nil {
			return fail("begin", err)
		}
		bail := func(st string, err error) Resp {
			if tx.HasBegun() {
				tx.Rollback(ctx)
			}
			return fail(st, err)
		}
		for _, name := range c.Names {
			stage = "readall " + name
			b, err := infs.OpenBtree[int, string](ctx, name, tx, nil)
			if err != nil {
				return bail("open", err)
			}
			sr := StoreRead{Count: b.Count(), Found: make([]bool, c.Keys), Vals: make([]string, c.Keys), Scan: []KV{}}
			scan := func() error {
				ok, err := b.First(ctx)
				if err != nil {
					return fmt.Errorf("First: %w", err)
				}
				for ok {
					k := b.GetCurrentKey().Key
					v, err := b.GetCurrentValue(ctx)
					if err != nil {
						return fmt.Errorf("GetCurrentValue(key %d) in scan: %w", k, err)
					}
					sr.Scan = append(sr.Scan, KV{k, v})
					if ok, err = b.Next(ctx); err != nil {
						return fmt.Errorf("Next: %w", err)
					}
				}
				return nil
			}
			finds := func() error {
				for k := 0; k < c.Keys; k++ {
					ok, err := b.Find(ctx, k, false)
					if err != nil {
						return fmt.Errorf("Find(%d): %w", k, err)
					}
					sr.Found[k] = ok
					if ok {
						if ck := b.GetCurrentKey().Key; ck != k {
							return fmt.Errorf("Find(%d) returned true but the cursor is on key %d", k, ck)
						}
						if sr.Vals[k], err = b.GetCurrentValue(ctx); err != nil {
							return fmt.Errorf("GetCurrentValue(key %d): %w", k, err)
						}
					}
				}
				return nil
			}
			steps := []func() error{finds, scan}
			if c.ScanFirst {
				steps = []func() error{scan, finds}
			}
			for _, f := range steps {
				if err := f(); err != nil {
					return bail("read "+name, err)
				}
			}
			r.Reads = append(r.Reads, sr)
		}
		stage = "readall commit"
		if err := tx.Commit(ctx); err != nil {
			r.CommitErr = err.Error()
			return
		}
		r.Done = true
		return
	}
	r.HarnessErr = "HARNESS-ERROR: unknown command " + c.Kind
	return
}

// TestWorker is the child-process entry point: commands arrive as JSON lines on fd 3, answers
// leave as JSON lines on fd 4. The process lives as long as the parent keeps fd 3 open, so its
// process-global SOP state (L1 node cache, L1 handle cache, L2 client) persists across steps.
func TestWorker(t *testing.T) {
	if os.Getenv("VERIF_JOB") != "coherence-worker" {
		t.Skip("worker entry point (child process only)")
	}
	lvl := slog.LevelError
	if os.Getenv("VERIF_C20_LOG") == "debug" {
		lvl = slog.LevelDebug
	}
	slog.SetDefault(slog.New(slog.NewTextHandler(os.Stderr, &slog.HandlerOptions{Level: lvl})))
	in := bufio.NewReaderSize(os.NewFile(3, "req"), 1<<20)
	out := os.NewFile(4, "resp")
	w := &workerState{ctx: context.Background()}
	for {
		line, err := in.ReadBytes('\n')
		if len(line) > 0 {
			var c Cmd
			var r Resp
			if jerr := json.Unmarshal(line, &c); jerr != nil {
				r.HarnessErr = "HARNESS-ERROR: bad command: " + jerr.Error()
			} else {
				r = w.handle(c)
			}
			b, _ := json.Marshal(r)
			if _, werr := out.Write(append(b, '\n')); werr != nil {
				return
			}
		}
		if err != nil {
			if err != io.EOF {
				fmt.Fprintln(os.Stderr, "worker: read:", err)
			}
			return
		}
	}
}
