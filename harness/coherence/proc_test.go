package coherence

import (
	"bufio"
	"bytes"
	"encoding/json"
	"fmt"
	"os"
	"os/exec"
	"strings"
	"time"
)

// proc is one long-lived worker process (parent side).
type proc struct {
	idx, gen int
	cmd      *exec.Cmd
	req      *os.File
	resp     *os.File
	rd       *bufio.Reader
	errPath  string
	dead     bool
}

// procFailure says why a worker did not answer. A death with an SOP panic in its stderr is
// SOP's; everything else is infrastructure (inconclusive).
type procFailure struct {
	sopPanic bool
	msg      string
}

const callTimeout = 150 * time.Second

func startProc(idx, gen int, init InitCmd) (*proc, *procFailure) {
	herr := func(f string, a ...any) (*proc, *procFailure) {
		return nil, &procFailure{msg: "HARNESS-ERROR: " + fmt.Sprintf(f, a...)}
	}
	reqR, reqW, err := os.Pipe()
	if err != nil {
		return herr("pipe: %v", err)
	}
	respR, respW, err := os.Pipe()
	if err != nil {
		return herr("pipe: %v", err)
	}
	ef, err := os.CreateTemp("", "c20-worker-*.log")
	if err != nil {
		return herr("worker log: %v", err)
	}
	cmd := exec.Command(os.Args[0], "-test.run=^TestWorker$", "-test.timeout=0", "-test.v")
	cmd.Stdout, cmd.Stderr = ef, ef
	cmd.ExtraFiles = []*os.File{reqR, respW}
	for _, kv := range os.Environ() {
		if strings.HasPrefix(kv, "VERIF_STATS=") || strings.HasPrefix(kv, "VERIF_JOB=") {
			continue
		}
		cmd.Env = append(cmd.Env, kv)
	}
	cmd.Env = append(cmd.Env, "VERIF_JOB=coherence-worker", "GOTRACEBACK=all", "GOMAXPROCS=2")
	if err := cmd.Start(); err != nil {
		return herr("cannot start worker: %v", err)
	}
	reqR.Close()
	respW.Close()
	ef.Close()
	p := &proc{idx: idx, gen: gen, cmd: cmd, req: reqW, resp: respR, rd: bufio.NewReaderSize(respR, 1<<20), errPath: ef.Name()}
	r, pf := p.call(Cmd{Kind: "init", Init: &init})
	if pf != nil {
		return nil, pf
	}
	if r.HarnessErr != "" {
		p.stop()
		return nil, &procFailure{msg: r.HarnessErr}
	}
	return p, nil
}

// stderrTail returns the informative part of the worker's stderr: from the first panic / fatal
// error through the end of the first goroutine trace.
func (p *proc) stderrTail(n int) (txt string, sopPanic bool) {
	b, _ := os.ReadFile(p.errPath)
	i := bytes.Index(b, []byte("panic:"))
	if j := bytes.Index(b, []byte("fatal error:")); j >= 0 && (i < 0 || j < i) {
		i = j
	}
	if i >= 0 {
		b = b[i:]
		first := b
		if j := bytes.Index(b, []byte("\n\ngoroutine ")); j >= 0 {
			if k := bytes.Index(b[j+2:], []byte("\n\n")); k >= 0 {
				first = b[:j+2+k]
			}
		}
		// the crashing goroutine runs SOP code and no harness frame sits below it
		s := string(first)
		si := strings.Index(s, "github.com/sharedcode/sop")
		hi := strings.Index(s, "verif/harness/coherence")
		sopPanic = si >= 0 && (hi < 0 || si < hi)
		b = first
	} else if len(b) > n {
		b = b[len(b)-n:]
	}
	if len(b) > n {
		b = b[:n]
	}
	return string(b), sopPanic
}

// call sends one command and waits for the answer.
func (p *proc) call(c Cmd) (Resp, *procFailure) {
	if p.dead {
		return Resp{}, &procFailure{msg: "HARNESS-ERROR: worker is gone"}
	}
	line, _ := json.Marshal(c)
	if _, err := p.req.Write(append(line, '\n')); err != nil {
		return Resp{}, p.died(false, "pipe closed before the command was sent: "+err.Error())
	}
	_ = p.resp.SetReadDeadline(time.Now().Add(callTimeout))
	ans, err := p.rd.ReadBytes('\n')
	if err != nil {
		if os.IsTimeout(err) {
			return Resp{}, p.died(true, fmt.Sprintf("no answer to %s within %v (killed)", c.Kind, callTimeout))
		}
		return Resp{}, p.died(false, "worker closed its pipe during "+c.Kind)
	}
	var r Resp
	if err := json.Unmarshal(ans, &r); err != nil {
		return Resp{}, &procFailure{msg: "HARNESS-ERROR: bad answer from worker: " + err.Error()}
	}
	return r, nil
}

func (p *proc) died(timedOut bool, what string) *procFailure {
	if timedOut {
		p.cmd.Process.Kill()
	}
	done := make(chan error, 1)
	go func() { done <- p.cmd.Wait() }()
	var werr error
	select {
	case werr = <-done:
	case <-time.After(10 * time.Second):
		p.cmd.Process.Kill()
		werr = <-done
	}
	txt, sopPanic := p.stderrTail(6000)
	p.release()
	pf := &procFailure{sopPanic: sopPanic && !timedOut}
	if pf.sopPanic {
		pf.msg = fmt.Sprintf("worker P%d died in SOP code (%s; exit: %v):\n%s", p.idx, what, werr, txt)
	} else {
		pf.msg = fmt.Sprintf("HARNESS-ERROR: worker P%d: %s (exit: %v)\n%s", p.idx, what, werr, txt)
	}
	return pf
}

func (p *proc) release() {
	p.dead = true
	p.req.Close()
	p.resp.Close()
	os.Remove(p.errPath)
}

// stop ends the worker (EOF on its command pipe) and reaps it.
func (p *proc) stop() {
	if p == nil || p.dead {
		return
	}
	p.req.Close()
	done := make(chan struct{})
	go func() { p.cmd.Wait(); close(done) }()
	select {
	case <-done:
	case <-time.After(5 * time.Second):
		p.cmd.Process.Kill()
		<-done
	}
	p.dead = true
	p.resp.Close()
	os.Remove(p.errPath)
}
