package stores

import (
	"fmt"
	"os"
	"path/filepath"
	"strings"
	"testing"

	"github.com/sharedcode/sop"
	"pgregory.net/rapid"

	"verif/harness/stats"
	"verif/harness/txh"
)

// C13 - committing changes never alters or corrupts a store's configuration.

const c13Slug = "patch-json-matches-field-name-in-text"

// textInPatchClass: the JSON encoding of the string value v contains the byte sequence "w" (w with
// both double quotes) for a patched field name w. JSON escapes an inner quote as \" - which still
// contains a raw quote byte - so that is the case exactly when v is w or v ends with a double quote
// followed by w (the closing quote of the JSON string supplies the second one).
func textInPatchClass(v string) bool {
	for _, w := range patchedFields {
		if v == w || strings.HasSuffix(v, `"`+w) {
			return true
		}
	}
	return false
}

// inPatchClass is the signature of the C13 finding: a string field that is serialised before the
// "count" / "timestamp" keys of storeinfo.txt (name, description; registry_table and blob_table
// repeat the name in the file-system layout) whose encoding contains "count" / "timestamp", so
// these bytes occur before the real key.
func inPatchClass(o sop.StoreOptions) bool {
	return textInPatchClass(o.Name) || textInPatchClass(o.Description)
}

type c13Case struct {
	HashMod   int
	UUIDSeed  uint64
	Specs     []Spec
	InitItems int // items added inside the creating transaction
	Txns      []txh.TxnProg
	ReopenNew []bool // inside transaction i, also call NewBtree with the creation options
}

func (c c13Case) render() string {
	var sb strings.Builder
	fmt.Fprintf(&sb, "mod=%d seed=%x init=%d", c.HashMod, c.UUIDSeed, c.InitItems)
	for _, s := range c.Specs {
		sb.WriteString(" " + s.render())
	}
	for i, p := range c.Txns {
		fmt.Fprintf(&sb, " %s", p)
		if c.ReopenNew[i] {
			sb.WriteString("+NewBtree")
		}
	}
	return sb.String()
}

func genSpec(t *rapid.T, label string, rec *stats.Rec, known bool, plainName string) Spec {
	var s Spec
	if plainName != "" {
		s.Name, s.NameClass = plainName, "plain"
	} else {
		raw, class := genText(t, label+".name", maxNameBytes)
		if class == "empty" {
			raw, class = genPlain(t, label+".name"), "plain"
		}
		s.Name, s.NameClass = sanitizeName(raw), class
		if class == "long" && rapid.IntRange(0, 3).Draw(t, label+".tooLong") == 0 {
			// a name the OS must reject: more bytes than a directory entry (or its registry file) can hold
			// (231-255 bytes are not generated: the folder can be made but its registry files cannot)
			for len(s.Name) <= 310 {
				s.Name += "xcount"
			}
			s.Name = validUTF8Prefix(s.Name, rapid.IntRange(260, 310).Draw(t, label+".tooLongLen"))
			s.TooLong = len(s.Name) > 255
		} else {
			s.Name = validUTF8Prefix(s.Name, maxNameBytes)
			s.Name = sanitizeName(s.Name)
		}
	}
	desc, dclass := genText(t, label+".desc", 1200)
	s.DescClass = dclass
	o := sop.StoreOptions{Name: s.Name, Description: strings.ToValidUTF8(desc, "?")}
	s.CacheClass = genStructural(t, label, &o)
	if rapid.Bool().Draw(t, label+".hasSpec") {
		o.MapKeyIndexSpecification = fmt.Sprintf(`{"index_fields":[{"field_name":%q,"ascending_sort_order":true}]}`, genWord(t, label+".specw"))
	}
	if rapid.IntRange(0, 3).Draw(t, label+".hasCel") == 0 {
		o.CELexpression = decorate(t, label+".cel", genWord(t, label+".celw")) + " < 0"
	}
	o.IsPrimitiveKey = rapid.Bool().Draw(t, label+".prim")
	if rapid.IntRange(0, 2).Draw(t, label+".hasRel") == 0 {
		o.Relations = genRelations(t, label+".rel")
	}
	if rapid.IntRange(0, 2).Draw(t, label+".hasCustom") > 0 {
		o.CustomData = genCustomMap(t, label+".custom", 1)
	}
	if known && inPatchClass(o) {
		// listed finding: leave exactly that class out, keep searching behind it
		rec.Exclude("name or description is, or ends with a double quote followed by, `count` or `timestamp` (known finding " + c13Slug + ")")
		if textInPatchClass(o.Name) {
			o.Name = validUTF8Prefix(o.Name, maxNameBytes-1) + "_"
			if textInPatchClass(o.Name) { // the cut exposed another match: fall back to a plain name
				o.Name = "excluded_" + fmt.Sprint(len(o.Name))
			}
			s.Name = o.Name
		}
		if textInPatchClass(o.Description) {
			o.Description += "."
		}
	}
	s.Opts = o
	return s
}

func genC13Ops(t *rapid.T, nStores int, unique []bool, tag *int, txn int) []txh.Op {
	n := rapid.IntRange(1, 6).Draw(t, "nOps")
	ops := make([]txh.Op, 0, n)
	for i := 0; i < n; i++ {
		s := rapid.IntRange(0, nStores-1).Draw(t, "store")
		var kinds []string
		if unique[s] {
			kinds = []string{"add", "add", "add", "addIfNotExist", "upsert", "update", "remove", "remove", "curRemove", "count"}
		} else {
			kinds = []string{"add", "add", "add", "curRemove", "curRemove", "curUpdate", "count"}
		}
		op := txh.Op{S: s, Kind: rapid.SampledFrom(kinds).Draw(t, "kind"), K: rapid.IntRange(0, 5).Draw(t, "key")}
		switch op.Kind {
		case "add", "addIfNotExist", "upsert", "update", "curUpdate":
			*tag++
			op.Tag = fmt.Sprintf("t%d.w%d", txn, *tag)
			op.Size = rapid.SampledFrom([]int{0, 1, 30}).Draw(t, "size")
		}
		ops = append(ops, op)
	}
	return ops
}

func genC13Case(t *rapid.T, rec *stats.Rec, known bool) c13Case {
	c := c13Case{}
	c.HashMod = rapid.SampledFrom([]int{1, 2, 5}).Draw(t, "hashMod")
	c.UUIDSeed = rapid.Uint64().Draw(t, "uuidSeed")
	c.Specs = append(c.Specs, genSpec(t, "s0", rec, known, ""))
	if rapid.IntRange(0, 3).Draw(t, "second") == 0 {
		// a second store in the same transactions: StoreRepository.Update handles several stores sorted by name
		var s2 Spec
		if rapid.Bool().Draw(t, "secondPlain") {
			s2 = genSpec(t, "s1", rec, known, "zz_other")
		} else {
			s2 = genSpec(t, "s1", rec, known, "")
		}
		if s2.Name != c.Specs[0].Name && !s2.TooLong && !c.Specs[0].TooLong {
			c.Specs = append(c.Specs, s2)
		}
	}
	c.InitItems = rapid.SampledFrom([]int{0, 0, 1, 3}).Draw(t, "initItems")
	unique := make([]bool, len(c.Specs))
	for i, s := range c.Specs {
		unique[i] = s.Opts.IsUnique
	}
	nt := rapid.IntRange(2, 5).Draw(t, "nTxns")
	tag := 0
	for i := 0; i < nt; i++ {
		p := txh.TxnProg{Mode: sop.ForWriting, End: "commit"}
		if rapid.IntRange(0, 7).Draw(t, "rollback") == 0 {
			p.End = "rollback"
		}
		p.Ops = genC13Ops(t, len(c.Specs), unique, &tag, i+1)
		c.Txns = append(c.Txns, p)
		c.ReopenNew = append(c.ReopenNew, rapid.IntRange(0, 2).Draw(t, "reopenNew") == 0)
	}
	return c
}

// c13Outcome is what running a case produced.
type c13Outcome struct {
	Fail                 string // "" = the property held
	Rejected             bool   // the OS rejected the name; nothing was created
	FastPath             int    // commits that took the in-place patch path (per store, summed)
	FastPathOnNamedField bool
	Labels               []string
}

// runC13 executes the case against the real transaction and checks the oracle after every commit.
func runC13(c c13Case) (out c13Outcome) {
	lab := map[string]bool{}
	defer func() {
		for l := range lab {
			out.Labels = append(out.Labels, l)
		}
	}()
	e, err := txh.NewEnv(c.HashMod)
	if err != nil {
		out.Fail = err.Error()
		return
	}
	defer e.Cleanup()
	txh.SeedUUIDs(c.UUIDSeed)
	defer txh.ResetUUIDs()

	// ---- creation ----
	tx, err := e.NewTxn(txh.TxnOptions{Mode: sop.ForWriting})
	if err != nil {
		out.Fail = "HARNESS-ERROR NewTxn: " + err.Error()
		return
	}
	if err := tx.Tx.Begin(txh.Ctx); err != nil {
		out.Fail = "Begin: " + err.Error()
		return
	}
	created := make([]sop.StoreInfo, len(c.Specs))
	stores := make([]txh.StoreOpts, len(c.Specs))
	models := make([]*txh.Model, len(c.Specs))
	var createErr error
	for i, s := range c.Specs {
		b, err := newStore(tx, s.options(e.Dir))
		if err != nil {
			createErr = fmt.Errorf("NewBtree(%q): %w", s.Name, err)
			break
		}
		created[i] = b.GetStoreInfo()
		stores[i] = txh.StoreOpts{Name: s.Name, Unique: created[i].IsUnique}
		models[i] = &txh.Model{Unique: created[i].IsUnique}
		for k := 0; k < c.InitItems; k++ {
			v := txh.MakeValue(fmt.Sprintf("init.%d", k), 3)
			ok, err := b.Add(txh.Ctx, 100+k, v)
			if err != nil || !ok {
				createErr = fmt.Errorf("Add in the creating transaction of %q: ok=%v err=%v", s.Name, ok, err)
				break
			}
			models[i].Add(100+k, v)
		}
		if createErr != nil {
			break
		}
	}
	if createErr == nil {
		if err := tx.Tx.Commit(txh.Ctx); err != nil {
			createErr = fmt.Errorf("Commit of the creating transaction: %w", err)
		}
	} else if tx.Tx.HasBegun() {
		tx.Tx.Rollback(txh.Ctx)
	}
	if createErr != nil {
		tooLong := false
		for _, s := range c.Specs {
			tooLong = tooLong || s.TooLong
		}
		if !tooLong {
			out.Fail = "creation failed although every name is a valid directory name: " + createErr.Error()
			return
		}
		// clean rejection: nothing of the case's stores is left behind
		names, err := listStores(e)
		if err != nil {
			out.Fail = "after a rejected creation, GetStores failed: " + err.Error()
			return
		}
		if len(names) != 0 {
			out.Fail = fmt.Sprintf("creation was rejected (%v) but GetStores lists %q", createErr, names)
			return
		}
		for _, s := range c.Specs {
			if len(s.Name) <= 255 {
				if _, err := os.Stat(filepath.Join(e.Dir, s.Name)); err == nil {
					out.Fail = fmt.Sprintf("creation was rejected (%v) but the folder of %q is still there", createErr, s.Name)
					return
				}
			}
		}
		out.Rejected = true
		lab["rejectedByOS"] = true
		return
	}
	for _, s := range c.Specs {
		if s.TooLong {
			out.Fail = fmt.Sprintf("HARNESS-ERROR a %d-byte name was accepted by the OS", len(s.Name))
			return
		}
	}

	lastTs := make([]int64, len(c.Specs))
	for i := range created {
		lastTs[i] = created[i].Timestamp
	}
	schemaSeen := make([]string, len(c.Specs))

	checkInfo := func(where string, i int, si sop.StoreInfo) string {
		if d := diffConfig(configJSON(created[i]), configJSON(si)); d != "" {
			return fmt.Sprintf("%s: configuration of store %q changed: %s", where, c.Specs[i].Name, d)
		}
		if si.Count != int64(len(models[i].Items)) {
			return fmt.Sprintf("%s: store %q reports count %d, the model has %d items", where, c.Specs[i].Name, si.Count, len(models[i].Items))
		}
		if si.Timestamp < lastTs[i] {
			return fmt.Sprintf("%s: timestamp of store %q went back from %d to %d", where, c.Specs[i].Name, lastTs[i], si.Timestamp)
		}
		return ""
	}
	observe := func(step string) string {
		// 1. fresh transaction, caches as the commit left them
		d, err := e.Dump(stores, sop.ForReading)
		if err != nil {
			return fmt.Sprintf("%s: fresh reader (warm cache) failed: %v", step, err)
		}
		if why := txh.CheckDump(d, stores, models); why != "" {
			return fmt.Sprintf("%s: fresh reader (warm cache): %s", step, why)
		}
		for i := range stores {
			if why := checkInfo(step+": fresh reader (warm cache)", i, d[i].Info); why != "" {
				return why
			}
		}
		// 2. the file itself
		for i, s := range c.Specs {
			raw, si, err := readInfoFile(e.Dir, s.Name)
			if err != nil {
				return fmt.Sprintf("%s: %s/storeinfo.txt: %v; content: %s", step, s.Name, err, clip(string(raw)))
			}
			if why := checkInfo(step+": storeinfo.txt", i, si); why != "" {
				return why + "; content: " + clip(string(raw))
			}
			// derived fields: once written they stay
			sch := fmt.Sprintf("%v|%v|%v", si.Schema, si.KeyFields, si.ValueFields)
			if len(si.Schema) > 0 {
				if schemaSeen[i] != "" && schemaSeen[i] != sch {
					return fmt.Sprintf("%s: inferred schema of %q changed from %s to %s", step, s.Name, schemaSeen[i], sch)
				}
				schemaSeen[i] = sch
			}
			lastTs[i] = si.Timestamp
		}
		// 3. fresh process: nothing cached
		e.L2.Clear(txh.Ctx)
		d, err = e.Dump(stores, sop.ForReading)
		if err != nil {
			return fmt.Sprintf("%s: fresh reader (cold cache) failed: %v", step, err)
		}
		if why := txh.CheckDump(d, stores, models); why != "" {
			return fmt.Sprintf("%s: fresh reader (cold cache): %s", step, why)
		}
		for i := range stores {
			if why := checkInfo(step+": fresh reader (cold cache)", i, d[i].Info); why != "" {
				return why
			}
		}
		return ""
	}
	if why := observe("after the creating transaction"); why != "" {
		out.Fail = why
		return
	}

	// ---- history ----
	for ti, p := range c.Txns {
		// which stores take the in-place patch path in this commit (model-side inference):
		// count delta != 0 and no successful add while the running count was 0 (btree sets
		// NeedsMetaDataSave when the first item of an empty store is added).
		before := make([]int, len(models))
		for i, m := range models {
			before[i] = len(m.Items)
		}
		ro := txh.RunOpts{}
		if c.ReopenNew[ti] {
			ro.BeforeCommit = func(t *txh.Txn) {
				for _, s := range c.Specs {
					// the creation options again: must be found compatible with what is stored
					if _, err := newStore(t, s.options(e.Dir)); err != nil {
						out.Fail = fmt.Sprintf("txn %d: NewBtree with the creation options on the existing store %q failed: %v", ti+1, s.Name, err)
					}
				}
			}
			lab["reopenedWithNewBtree"] = true
		}
		metaSave := addAtZero(p, models)
		var res txh.TxnResult
		models, res = e.RunTxn(p, stores, models, ro)
		if out.Fail != "" {
			return
		}
		if res.OpErr != nil {
			out.Fail = fmt.Sprintf("txn %d (%s): %v", ti+1, p, res.OpErr)
			return
		}
		if res.Mismatch != "" {
			out.Fail = fmt.Sprintf("txn %d (%s): %s", ti+1, p, res.Mismatch)
			return
		}
		if res.CommitErr != nil {
			out.Fail = fmt.Sprintf("txn %d (%s): %s failed without any fault or contention: %v", ti+1, p, p.End, res.CommitErr)
			return
		}
		if p.End == "commit" {
			for i, m := range models {
				if len(m.Items) != before[i] {
					if metaSave[i] {
						lab["fullSaveCommit"] = true
					} else {
						out.FastPath++
						lab["fastPathCommit"] = true
						o := c.Specs[i].Opts
						if mentionsPatched(o.Name) || mentionsPatched(o.Description) {
							out.FastPathOnNamedField = true
						}
						if len(m.Items) < before[i] {
							lab["fastPathCountDown"] = true
						}
						if len(m.Items) == 0 {
							lab["fastPathToZero"] = true
						}
					}
				}
			}
		} else {
			lab["hasRollback"] = true
		}
		if why := observe(fmt.Sprintf("after txn %d (%s)", ti+1, p)); why != "" {
			out.Fail = why
			return
		}
	}
	return
}

// addAtZero reports per store whether the program adds an item while the store is empty
// (simulated on copies of the models).
func addAtZero(p txh.TxnProg, models []*txh.Model) []bool {
	r := make([]bool, len(models))
	w := make([]*txh.Model, len(models))
	for i, m := range models {
		w[i] = m.Clone()
	}
	for _, op := range p.Ops {
		m := w[op.S]
		switch op.Kind {
		case "add":
			if len(m.Items) == 0 {
				r[op.S] = true
			}
			m.Add(op.K, "x")
		case "addIfNotExist":
			if !m.Has(op.K) {
				if len(m.Items) == 0 {
					r[op.S] = true
				}
				m.Add(op.K, "x")
			}
		case "upsert":
			if !m.Has(op.K) {
				if len(m.Items) == 0 {
					r[op.S] = true
				}
				m.Add(op.K, "x")
			}
		case "remove":
			m.RemoveUnique(op.K)
		case "curRemove":
			if vs := m.Values(op.K); len(vs) > 0 {
				m.RemoveOccurrence(op.K, vs[0])
			}
		}
	}
	return r
}

func c13Labels(c c13Case, o c13Outcome) []string {
	l := append([]string{}, o.Labels...)
	for i, s := range c.Specs {
		p := "name:"
		if i > 0 {
			p = "name2:"
		}
		l = append(l, p+s.NameClass, "desc:"+s.DescClass, s.CacheClass)
		op := s.Opts
		if mentionsVocabulary(op.Name) {
			l = append(l, "nameMentionsField")
		}
		if mentionsPatched(op.Name) {
			l = append(l, "nameMentionsCountOrTimestamp")
		}
		if mentionsPatched(op.Description) {
			l = append(l, "descMentionsCountOrTimestamp")
		}
		if strings.Contains(op.Name, `"count"`) || strings.Contains(op.Name, `"timestamp"`) || strings.Contains(op.Description, `"count"`) || strings.Contains(op.Description, `"timestamp"`) {
			l = append(l, "quotedCountOrTimestampInText")
		}
		if inPatchClass(op) {
			l = append(l, "exactCountOrTimestamp")
		}
		if len(op.Name) > 200 {
			l = append(l, "name>200B")
		}
		if s.TooLong {
			l = append(l, "nameTooLong")
		}
		for _, r := range op.Name {
			if r > 127 {
				l = append(l, "nameNonASCII")
				break
			}
		}
		if strings.ContainsAny(op.Name, `"{}[],:\`) {
			l = append(l, "nameJSONPunct")
		}
		if op.CustomData != nil {
			l = append(l, "customData")
			for k := range op.CustomData {
				if k == "count" || k == "timestamp" {
					l = append(l, "customDataKeyIsCountOrTimestamp")
					break
				}
			}
		}
		if op.Relations != nil {
			l = append(l, "relations")
		}
		if op.MapKeyIndexSpecification != "" {
			l = append(l, "indexSpec")
		}
		if op.CELexpression != "" {
			l = append(l, "cel")
		}
	}
	if len(c.Specs) > 1 {
		l = append(l, "twoStores")
	}
	if c.InitItems > 0 {
		l = append(l, "itemsInCreatingTxn")
	}
	return l
}

// TestC13_ConfigSurvivesCommits is the search.
func TestC13_ConfigSurvivesCommits(t *testing.T) {
	rec := stats.For("C13").Meta("exploration",
		"1-2 stores whose name and description come from a grammar over the JSON field names of StoreInfo (bare, quoted, with colon and number, embedded in JSON punctuation, unicode, up to 230-byte names, occasionally too long for the OS), every option of sop.StoreOptions (slot lengths incl. odd/0/over the maximum, all 8 placement flag combinations, balancing, default/none/uniform/per-field cache config, index spec, CEL text, relations, nested custom data with field names as keys), created through the real transaction, then 2-5 transactions of adds/removes/updates (some rolled back, some re-opening through NewBtree with the creation options); after every transaction: a fresh reader on the warm cache, storeinfo.txt read directly (must be valid JSON and decode), and a fresh reader after the process-wide cache was cleared must all report the creation-time configuration, count == model, timestamp non-decreasing; non-trivial = name or description mentions `count`/`timestamp` and at least one commit took the in-place patch path (count delta != 0, no first item added to an empty store); distinct by rendered case",
		"store names are valid UTF-8 single directory names other than SOP's own storelist.txt / reghashmod.txt / translogs",
		"schema, key_fields, value_fields and is_primitive_key are derived from the Go key/value types (first item, btree.New), not from the options: they are not compared with the creation-time value, only required to stay once written",
		"standalone mode: in-memory L2 cache, one process; 'fresh process' = cache cleared")
	known := stats.Known("C13", c13Slug)
	rapid.Check(t, func(t *rapid.T) {
		c := genC13Case(t, rec, known)
		o := runC13(c)
		if o.Fail != "" {
			t.Fatalf("%s\ncase: %s", o.Fail, c.render())
		}
		rec.Case(c.render(), o.FastPathOnNamedField, c13Labels(c, o)...)
		rec.Sample("case", c.render())
	})
}

// minimalC13 runs the smallest history for a given name/description: create, add one item and
// commit (full save), add another and commit (in-place patch).
func minimalC13(name, desc string) c13Outcome {
	c := c13Case{HashMod: 2, UUIDSeed: 1,
		Specs: []Spec{{Name: name, Opts: sop.StoreOptions{Name: name, Description: desc, SlotLength: 8, IsUnique: true, IsValueDataInNodeSegment: true}}},
		Txns: []txh.TxnProg{
			{Mode: sop.ForWriting, End: "commit", Ops: []txh.Op{{Kind: "add", K: 1, Tag: "a"}}},
			{Mode: sop.ForWriting, End: "commit", Ops: []txh.Op{{Kind: "add", K: 2, Tag: "b"}}},
		},
		ReopenNew: []bool{false, false}}
	return runC13(c)
}

// TestC13_Known_PatchMatchesFieldNameInText is the plain reproduction of the finding.
func TestC13_Known_PatchMatchesFieldNameInText(t *testing.T) {
	if !stats.Known("C13", c13Slug) {
		t.Skip("not listed")
	}
	var still []string
	for _, in := range [][2]string{{"count", ""}, {"timestamp", ""}, {"s1", "count"}, {"s1", "timestamp"}, {"s1", `x"count`}, {`a"timestamp`, ""}, {"s1", `"count`}, {`"timestamp`, ""}} {
		if o := minimalC13(in[0], in[1]); o.Fail != "" {
			still = append(still, fmt.Sprintf("name=%q description=%q: %s", in[0], in[1], o.Fail))
		}
	}
	if len(still) == 0 {
		return // no longer reproduces
	}
	stats.For("C13").KnownFinding("a store whose name or description is `count` / `timestamp` or ends with a double quote followed by one of them: the second commit patches the first byte sequence \"count\"/\"timestamp\" in storeinfo.txt, which is that value, and overwrites the following field (slot_length or registry_table) with the count/timestamp; e.g. " + clip(still[0]))
}

// TestC13_Neighbours: inputs next to the finding's class that must hold on any tree (they also
// pin down the class: only a whole-value match is affected, because JSON escapes inner quotes).
func TestC13_Neighbours(t *testing.T) {
	for _, in := range [][2]string{
		{"s1", ""}, {"count_", ""}, {"_count", ""}, {`"count"`, ""}, {`"count":7`, ""}, {"COUNT", ""}, {"timestamp1", ""},
		{"s1", `"count"`}, {"s1", `"count":7`}, {"s1", "count "}, {"s1", `x"count"`}, {"s1", `xcount`}, {"s1", `"count" `}, {`"timestamp_`, ""}, {"s1", `"timestamp":0,`}, {"slot_length", "is_unique"},
		{"name", "description"}, {"root_node_id", "registry_table"},
	} {
		if o := minimalC13(in[0], in[1]); o.Fail != "" {
			t.Errorf("name=%q description=%q: %s", in[0], in[1], o.Fail)
		}
	}
}
