package stores

import (
	"errors"
	"fmt"
	"os"
	"path/filepath"
	"sort"
	"strings"
	"testing"
	"time"

	"github.com/sharedcode/sop"
	"github.com/sharedcode/sop/infs"
	"pgregory.net/rapid"

	"verif/harness/stats"
	"verif/harness/txh"
)

// C12 - creating and removing stores is transactional and complete (sequential part).
//
// TODO(main session): the "concurrent attempts to create the same store name yield a single store"
// clause needs the schedule-controlled engine (harness/sched) and is NOT covered here; neither is
// the replicated (active/passive + erasure coding) layout.

const c12Slug = "rollback-after-active-add-keeps-created-store"

var c12Names = []string{"alpha", "beta", "gamma"}

// c12Trace (C12_TRACE=1) prints every program and every injected fault to stderr (debugging aid).
var c12Trace = os.Getenv("C12_TRACE") != ""

// c12Use is what one transaction does with one name slot.
type c12Use struct {
	Slot int
	Spec Spec     // options used if the store has to be created (a fresh draw every time: a re-creation differs)
	Ops  []txh.Op // S is ignored; Slot is used
}

type c12Step struct {
	Remove    int // >= 0: infs.RemoveBtree of that slot; -1: a transaction
	Uses      []c12Use
	End       string // commit | rollback
	FaultAt   int    // -1 none; else the FaultAt-th backend call counted from FaultFrom fails once
	FaultFrom string // begin | commit
}

type c12Case struct {
	HashMod  int
	UUIDSeed uint64
	Cold     bool // clear the process-wide cache after every step (a restart between steps)
	Steps    []c12Step
}

func (c c12Case) render() string {
	var sb strings.Builder
	fmt.Fprintf(&sb, "mod=%d seed=%x cold=%v", c.HashMod, c.UUIDSeed, c.Cold)
	for _, s := range c.Steps {
		if s.Remove >= 0 {
			fmt.Fprintf(&sb, " remove(%s)", c12Names[s.Remove])
			continue
		}
		sb.WriteString(" txn[")
		for _, u := range s.Uses {
			o := u.Spec.Opts
			fmt.Fprintf(&sb, "%s{slot=%d uniq=%v inNode=%v active=%v gc=%v bal=%v %s desc=%q}:", c12Names[u.Slot], o.SlotLength, o.IsUnique,
				o.IsValueDataInNodeSegment, o.IsValueDataActivelyPersisted, o.IsValueDataGloballyCached, o.LeafLoadBalancing, u.Spec.CacheClass, o.Description)
			for _, op := range u.Ops {
				fmt.Fprintf(&sb, "%s(%d) ", op.Kind, op.K)
			}
		}
		fmt.Fprintf(&sb, "]->%s", s.End)
		if s.FaultAt >= 0 {
			fmt.Fprintf(&sb, " fault@%s+%d", s.FaultFrom, s.FaultAt)
		}
	}
	return sb.String()
}

func genC12Spec(t *rapid.T, label, name string) Spec {
	o := sop.StoreOptions{Name: name}
	s := Spec{Name: name}
	o.SlotLength = rapid.SampledFrom([]int{2, 4, 4, 6, 8, 16}).Draw(t, label+".slot")
	o.IsUnique = rapid.Bool().Draw(t, label+".unique")
	switch rapid.IntRange(0, 5).Draw(t, label+".placement") {
	case 0, 1:
		o.IsValueDataInNodeSegment = true
	case 2:
	case 3:
		o.IsValueDataGloballyCached = true
	case 4:
		o.IsValueDataActivelyPersisted = true
	case 5:
		o.IsValueDataActivelyPersisted = true
		o.IsValueDataGloballyCached = true
	}
	o.LeafLoadBalancing = rapid.IntRange(0, 3).Draw(t, label+".bal") == 0
	o.CacheConfig, s.CacheClass = genCacheConfig(t, label+".cache")
	o.Description = rapid.SampledFrom([]string{"", "first", "second", "other"}).Draw(t, label+".desc")
	s.Opts = o
	return s
}

func genC12Case(t *rapid.T) c12Case {
	c := c12Case{}
	c.HashMod = rapid.SampledFrom([]int{1, 2, 5}).Draw(t, "hashMod")
	c.UUIDSeed = rapid.Uint64().Draw(t, "uuidSeed")
	c.Cold = rapid.IntRange(0, 2).Draw(t, "cold") == 0
	n := rapid.IntRange(2, 7).Draw(t, "nSteps")
	// likely[i]: the generator's guess that name i exists (exact unless a fault is tolerated or not
	// reached); used only to steer removes towards existing stores and re-creations after removes
	likely := make([]bool, len(c12Names))
	justRemoved := -1
	for i := 0; i < n; i++ {
		st := c12Step{Remove: -1, FaultAt: -1}
		var existing []int
		for sl, ex := range likely {
			if ex {
				existing = append(existing, sl)
			}
		}
		if i > 0 && justRemoved < 0 && rapid.IntRange(0, 2).Draw(t, "isRemove") == 0 {
			if len(existing) > 0 && rapid.IntRange(0, 7).Draw(t, "removeExisting") > 0 {
				st.Remove = rapid.SampledFrom(existing).Draw(t, "removeSlot")
			} else {
				st.Remove = rapid.IntRange(0, len(c12Names)-1).Draw(t, "removeSlot")
			}
			if likely[st.Remove] {
				justRemoved = st.Remove
			}
			likely[st.Remove] = false
			c.Steps = append(c.Steps, st)
			continue
		}
		nu := rapid.SampledFrom([]int{1, 1, 1, 2, 2, 3}).Draw(t, "nUses")
		slots := rapid.Permutation([]int{0, 1, 2}).Draw(t, "slots")[:nu]
		if justRemoved >= 0 && rapid.IntRange(0, 9).Draw(t, "recreate") > 0 {
			// re-create the name that was just removed (fresh options are drawn below)
			has := false
			for _, sl := range slots {
				has = has || sl == justRemoved
			}
			if !has {
				slots[0] = justRemoved
			}
		}
		justRemoved = -1
		for _, sl := range slots {
			u := c12Use{Slot: sl, Spec: genC12Spec(t, fmt.Sprintf("u%d", sl), c12Names[sl])}
			no := rapid.IntRange(0, 5).Draw(t, "nOps")
			for j := 0; j < no; j++ {
				kind := rapid.SampledFrom([]string{"add", "add", "add", "add", "remove", "update"}).Draw(t, "kind")
				u.Ops = append(u.Ops, txh.Op{S: sl, Kind: kind, K: rapid.IntRange(0, 7).Draw(t, "key")})
			}
			st.Uses = append(st.Uses, u)
		}
		switch rapid.IntRange(0, 9).Draw(t, "end") {
		case 0, 1, 2, 3:
			st.End = "commit"
			for _, sl := range slots {
				likely[sl] = true
			}
		case 4, 5, 6:
			st.End = "rollback"
		case 7, 8:
			st.End, st.FaultFrom = "commit", "commit"
			st.FaultAt = rapid.IntRange(0, 55).Draw(t, "faultAt")
		default:
			st.End, st.FaultFrom = "commit", "begin"
			st.FaultAt = rapid.IntRange(0, 30).Draw(t, "faultAt")
		}
		c.Steps = append(c.Steps, st)
	}
	return c
}

// slotState is the model of one name.
type slotState struct {
	Exists      bool
	Created     sop.StoreInfo
	Model       *txh.Model
	Incarnation int
	// ids and blob files of earlier incarnations of this name (must never be seen again)
	OldIDs    map[string]bool
	OldFiles  map[string]bool
	OldConfig string
	// Tainted: a store that exists after a transaction in which an injected fault fired (it
	// existed before a failed transaction, or Commit returned nil in spite of the failure). What a
	// failure may do to the content of a store that legitimately exists is the subject of the
	// failed-commit properties (C07/C16), not of this one: from then on only its presence is
	// checked and it is not used again, until it is removed (which must still delete all of it).
	Tainted bool
}

type c12Outcome struct {
	Fail       string
	Labels     map[string]bool
	Excluded   []string
	NonTrivial bool
	faultFired bool
}

// runC12 executes the program. known: the listed finding's class is avoided by construction.
func runC12(c c12Case, known bool) (out c12Outcome) {
	out.Labels = map[string]bool{}
	lab := out.Labels
	e, err := txh.NewEnv(c.HashMod)
	if err != nil {
		out.Fail = err.Error()
		return
	}
	defer e.Cleanup()
	txh.SeedUUIDs(c.UUIDSeed)
	defer txh.ResetUUIDs()

	st := make([]*slotState, len(c12Names))
	for i := range st {
		st[i] = &slotState{OldIDs: map[string]bool{}, OldFiles: map[string]bool{}}
	}
	valueNo := 0

	observe := func(step string, warm bool) string {
		how := "cold cache"
		if warm {
			how = "warm cache"
		}
		var want []string
		for i, s := range st {
			if s.Exists {
				want = append(want, c12Names[i])
			}
		}
		sort.Strings(want)
		got, err := listStores(e)
		if err != nil {
			return fmt.Sprintf("%s (%s): GetStores failed: %v", step, how, err)
		}
		if strings.Join(got, ",") != strings.Join(want, ",") {
			return fmt.Sprintf("%s (%s): GetStores reports %q, expected %q", step, how, got, want)
		}
		for i, s := range st {
			name := c12Names[i]
			if !s.Exists {
				if failed, msg := openFails(e, name); !failed {
					return fmt.Sprintf("%s (%s): store %q must not exist but OpenBtree succeeded: %s", step, how, name, msg)
				} else if strings.HasPrefix(msg, "HARNESS-ERROR") {
					return msg
				}
				if _, err := os.Stat(filepath.Join(e.Dir, name)); err == nil {
					return fmt.Sprintf("%s: store %q must not exist but its folder is still there with files %v", step, name, clipList(filesUnder(e.Dir, name)))
				} else if !errors.Is(err, os.ErrNotExist) {
					return fmt.Sprintf("HARNESS-ERROR stat: %v", err)
				}
				continue
			}
			if s.Tainted {
				continue
			}
			so := []txh.StoreOpts{{Name: name, Unique: s.Created.IsUnique}}
			d, err := e.Dump(so, sop.ForReading)
			if err != nil {
				return fmt.Sprintf("%s (%s): reading store %q failed: %v", step, how, name, err)
			}
			if why := txh.CheckDump(d, so, []*txh.Model{s.Model}); why != "" {
				return fmt.Sprintf("%s (%s): %s", step, how, why)
			}
			if diff := diffConfig(configJSON(s.Created), configJSON(d[0].Info)); diff != "" {
				return fmt.Sprintf("%s (%s): store %q (incarnation %d) does not report the options it was created with: %s", step, how, name, s.Incarnation, diff)
			}
		}
		// the bytes on disk
		r := txh.ReadDisk(e.Dir)
		if strings.Join(r.Names, ",") != strings.Join(want, ",") {
			return fmt.Sprintf("%s: storelist.txt holds %q, expected %q", step, r.Names, want)
		}
		for i, s := range st {
			name := c12Names[i]
			sr := r.Stores[name]
			if !s.Exists || sr == nil || s.Tainted {
				continue
			}
			if len(sr.Problems) > 0 {
				return fmt.Sprintf("%s: disk walk of %q: %s", step, name, strings.Join(sr.Problems, "; "))
			}
			if ok, why := txh.SameItems(sr.Items, s.Model); !ok {
				return fmt.Sprintf("%s: disk walk of %q: %s", step, name, why)
			}
			for _, h := range sr.RegSlots {
				if s.OldIDs[h.H.LogicalID.String()] {
					return fmt.Sprintf("%s: registry of the re-created store %q holds node %v of its removed predecessor", step, name, h.H.LogicalID)
				}
			}
			for _, f := range sr.BlobFiles {
				if s.OldFiles[f] {
					return fmt.Sprintf("%s: blob file %s of the removed predecessor of %q is present", step, f, name)
				}
			}
		}
		return ""
	}

	for si, step := range c.Steps {
		stepName := fmt.Sprintf("step %d", si+1)
		if step.Remove >= 0 {
			s := st[step.Remove]
			name := c12Names[step.Remove]
			if !s.Exists {
				lab["removeOfMissingStore"] = true
			} else {
				lab["removeExisting"] = true
				// remember everything that belongs to this incarnation
				r := txh.ReadDisk(e.Dir)
				if sr := r.Stores[name]; sr != nil {
					for _, h := range sr.RegSlots {
						s.OldIDs[h.H.LogicalID.String()] = true
					}
					for _, f := range sr.BlobFiles {
						s.OldFiles[f] = true
					}
				}
				s.OldConfig = configJSON(s.Created)
			}
			if err := infs.RemoveBtree(txh.Ctx, name, []string{e.Dir}, nil, sop.InMemory); err != nil {
				out.Fail = fmt.Sprintf("%s: RemoveBtree(%s) failed: %v", stepName, name, err)
				return
			}
			s.Exists, s.Model, s.Tainted = false, nil, false
			stepName += fmt.Sprintf(" remove(%s)", name)
		} else {
			why := runC12Txn(e, c, si, step, st, known, &valueNo, &out)
			if why != "" {
				out.Fail = fmt.Sprintf("%s: %s", stepName, why)
				return
			}
		}
		if why := observe(stepName, true); why != "" {
			out.Fail = why
			return
		}
		if out.faultFired {
			// locks a failed commit may have left in the cache are not this property's subject:
			// continue as after a restart of the process
			e.L2.Clear(txh.Ctx)
			out.faultFired = false
		}
		if c.Cold {
			e.L2.Clear(txh.Ctx)
			if why := observe(stepName, false); why != "" {
				out.Fail = why
				return
			}
		}
	}
	return
}

func clipList(l []string) []string {
	if len(l) > 6 {
		return append(append([]string{}, l[:6]...), fmt.Sprintf("... %d more", len(l)-6))
	}
	return l
}

// runC12Txn runs one transaction step and updates the model according to how it ended.
func runC12Txn(e *txh.Env, c c12Case, si int, step c12Step, st []*slotState, known bool, valueNo *int, out *c12Outcome) string {
	lab := out.Labels
	// a commit that cannot get its locks gives up after 20 s instead of 15 min (and is then reported)
	tx, err := e.NewTxn(txh.TxnOptions{Mode: sop.ForWriting, MaxTime: 20 * time.Second})
	if err != nil {
		return "HARNESS-ERROR NewTxn: " + err.Error()
	}
	tx.PassThroughPLogRemove.Store(true)

	// the hook mirrors the transaction logger's committedState (every log call goes through
	// TLog.Add, Info = "step<N>") and injects the one-shot fault
	creates := 0
	logState := 0
	inCommit := false
	counting := step.FaultFrom == "begin"
	calls := 0
	fired := ""
	deferred := false
	tx.SetHook(func(s txh.Site) txh.Action {
		if s.After {
			return txh.Action{}
		}
		if s.Comp == "TLog" && s.Method == "Add" {
			fmt.Sscanf(s.Info, "step%d", &logState)
		}
		if step.FaultAt < 0 || fired != "" || !counting {
			return txh.Action{}
		}
		if s.Comp == "L2" && s.Method == "Unlock" {
			// not a fault site: an Unlock that "failed and had no effect" leaves the lock in the cache
			// until its TTL by definition of the fault, and every later writer of that node waits for it
			return txh.Action{}
		}
		calls++
		if calls <= step.FaultAt {
			return txh.Action{}
		}
		if known && !inCommit && creates > 0 && logState == 99 {
			// listed finding: a failure here ends the transaction by a rollback whose last logged
			// step is the actively-persisted item; hold the fault back until that is no longer so
			deferred = true
			return txh.Action{}
		}
		fired = s.Name()
		if c12Trace {
			fmt.Fprintln(os.Stderr, "FIRED", s.String(), s.Info, "logState", logState, "inCommit", inCommit)
		}
		return txh.Action{Err: txh.ErrInjected}
	})
	if err := tx.Tx.Begin(txh.Ctx); err != nil {
		return "Begin: " + err.Error()
	}

	type work struct {
		slot    int
		b       Store
		created bool
		info    sop.StoreInfo
		model   *txh.Model
	}
	var ws []*work
	var opErr error
	failedAt := ""
open:
	for _, u := range step.Uses {
		s := st[u.Slot]
		w := &work{slot: u.Slot}
		if s.Tainted {
			lab["skippedTaintedStore"] = true
			ws = append(ws, nil)
			continue
		}
		if s.Exists {
			b, err := txh.OpenBtree[int, string](tx, c12Names[u.Slot])
			if err != nil {
				opErr, failedAt = err, "OpenBtree("+c12Names[u.Slot]+")"
				break open
			}
			w.b, w.model, w.info = b, s.Model.Clone(), s.Created
		} else {
			b, err := newStore(tx, u.Spec.options(e.Dir))
			if err != nil {
				opErr, failedAt = err, "NewBtree("+c12Names[u.Slot]+")"
				break open
			}
			creates++
			w.b, w.created, w.info = b, true, b.GetStoreInfo()
			w.model = &txh.Model{Unique: w.info.IsUnique}
		}
		ws = append(ws, w)
	}
	if opErr == nil {
		n := 0
		for _, w := range ws {
			if w != nil {
				n++
			}
		}
		if n == 0 {
			// every store of this step is tainted: nothing to do (an empty transaction is not a program of this property)
			tx.SetHook(nil)
			tx.Tx.Rollback(txh.Ctx)
			lab["emptyStepSkipped"] = true
			return ""
		}
	}
	if opErr == nil {
	ops:
		for wi, u := range step.Uses {
			w := ws[wi]
			if w == nil {
				continue
			}
			for _, op := range u.Ops {
				*valueNo++
				v := fmt.Sprintf("%s.g%d.v%d|", c12Names[w.slot], st[w.slot].Incarnation+1, *valueNo)
				var ok, want bool
				var err error
				switch op.Kind {
				case "add":
					ok, err = w.b.Add(txh.Ctx, op.K, v)
					if err == nil {
						want = w.model.Add(op.K, v)
					}
				case "update":
					if !w.model.Unique {
						continue
					}
					ok, err = w.b.Update(txh.Ctx, op.K, v)
					if err == nil {
						want = w.model.SetUnique(op.K, v)
					}
				case "remove":
					if w.model.Unique {
						ok, err = w.b.Remove(txh.Ctx, op.K)
						if err == nil {
							want = w.model.RemoveUnique(op.K)
						}
					} else {
						var found bool
						found, err = w.b.Find(txh.Ctx, op.K, false)
						if err == nil && found != w.model.Has(op.K) {
							return fmt.Sprintf("Find(%d) on %s returned %v, model says %v", op.K, c12Names[w.slot], found, !found)
						}
						if err == nil && found {
							var cur string
							cur, err = w.b.GetCurrentValue(txh.Ctx)
							if err == nil {
								ok, err = w.b.RemoveCurrentItem(txh.Ctx)
								if err == nil {
									want = w.model.RemoveOccurrence(op.K, cur)
								}
							}
						}
					}
				}
				if err != nil {
					opErr, failedAt = err, fmt.Sprintf("%s(%d) on %s", op.Kind, op.K, c12Names[w.slot])
					break ops
				}
				if ok != want {
					return fmt.Sprintf("%s(%d) on %s returned %v, model says %v", op.Kind, op.K, c12Names[w.slot], ok, want)
				}
			}
		}
	}
	committed := false
	switch {
	case opErr != nil:
		if fired == "" {
			return fmt.Sprintf("%s failed without any injected fault: %v", failedAt, opErr)
		}
		lab["faultBeforeCommit"] = true
		lab["faultAt:"+stripIndex(fired)] = true
		if tx.Tx.HasBegun() {
			tx.Tx.Rollback(txh.Ctx)
		}
	case step.End == "rollback" && !(known && creates > 0 && logState == 99):
		if err := tx.Tx.Rollback(txh.Ctx); err != nil {
			return "Rollback failed: " + err.Error()
		}
		lab["explicitRollback"] = true
		if creates > 0 {
			lab["rollbackOfCreation"] = true
			if logState == 99 {
				lab["rollbackOfCreationAfterActiveWrite"] = true
			}
		}
	default:
		if step.End == "rollback" {
			out.Excluded = append(out.Excluded, "explicit rollback of a creating transaction whose last logged step is an actively persisted item: committed instead")
		}
		inCommit = true
		counting = step.FaultAt >= 0
		if step.FaultFrom == "commit" {
			calls = 0
		}
		err := tx.Tx.Commit(txh.Ctx)
		if err != nil {
			if fired == "" {
				return fmt.Sprintf("Commit failed without any injected fault: %v", err)
			}
			lab["failedCommit"] = true
			lab["faultAt:"+stripIndex(fired)] = true
			if creates > 0 {
				lab["failedCommitOfCreation"] = true
			}
		} else {
			committed = true
			if fired != "" {
				lab["faultToleratedByCommit"] = true
				lab["tolerated:"+stripIndex(fired)] = true
			} else if step.FaultAt >= 0 {
				lab["faultNotReached"] = true
			}
		}
	}
	if deferred {
		out.Excluded = append(out.Excluded, "fault before Commit in a creating transaction whose last logged step is an actively persisted item: held back until Commit")
	}
	tx.SetHook(nil)
	out.faultFired = fired != ""

	if !committed {
		for _, w := range ws {
			if w != nil && !w.created && fired != "" {
				st[w.slot].Tainted = true
				lab["existingStoreInFailedTxn"] = true
			}
		}
		if creates > 0 {
			out.NonTrivial = true // a rollback / failed commit after StoreRepository.Add
			lab["creationNotCommitted"] = true
		}
		return ""
	}
	for _, w := range ws {
		if w == nil {
			continue
		}
		s := st[w.slot]
		if w.created {
			s.Exists, s.Created, s.Incarnation = true, w.info, s.Incarnation+1
			lab["created"] = true
			lab[placementLabel(w.info)] = true
			if s.Incarnation > 1 {
				lab["recreated"] = true
				if configJSON(w.info) != s.OldConfig {
					lab["recreatedWithDifferentOptions"] = true
					out.NonTrivial = true
				}
				if len(s.OldFiles) > 0 {
					lab["recreatedAfterPopulatedPredecessor"] = true
				}
			}
		}
		s.Model = w.model
		if fired != "" {
			// Commit returned nil although one backend call failed: the store exists, but what a
			// tolerated failure may do to its content belongs to the failed-commit properties
			s.Tainted = true
			lab["storeInTxnWithToleratedFault"] = true
		}
	}
	if len(ws) > 1 {
		lab["multiStoreTxn"] = true
	}
	return ""
}

func stripIndex(site string) string {
	if i := strings.IndexByte(site, '#'); i >= 0 {
		return site[:i]
	}
	return site
}

func c12LabelList(o c12Outcome) []string {
	var l []string
	for k := range o.Labels {
		l = append(l, k)
	}
	sort.Strings(l)
	return l
}

// TestC12_CreateRemoveRecreate is the search.
func TestC12_CreateRemoveRecreate(t *testing.T) {
	rec := stats.For("C12").Meta("fault_enumeration",
		"sequential programs of 2-7 steps over three store names: a transaction that creates missing stores (fresh options every time: slot length, uniqueness, 5 value placements, balancing, cache config, description) and/or opens existing ones, adds/updates/removes items, and ends in Commit, Rollback, Commit with one injected backend failure at a drawn call index counted from Commit, or one injected failure counted from Begin (NewBtree, item writes); or infs.RemoveBtree of a name; after every step, through fresh transactions on the warm cache (and again after clearing the cache, in a third of the cases), by os.Stat and by an independent reader of the bytes on disk: GetStores/storelist.txt equal the model's names, a store whose creating transaction did not commit cannot be opened and has no folder, every existing store reports the options of its latest creation and exactly the model's items (so a re-created store starts empty), and no registry entry or blob file of a removed predecessor is present; non-trivial = a creating transaction that rolled back or failed after StoreRepository.Add, or a re-creation with changed options; distinct by rendered program",
		"injected faults are 'the call failed and had no effect' (returned before the real call), one per transaction",
		"single-folder layout, in-memory L2 cache, one process; concurrent same-name creation and the replicated layout are not part of this check")
	known := stats.Known("C12", c12Slug)
	rapid.Check(t, func(t *rapid.T) {
		c := genC12Case(t)
		if c12Trace {
			fmt.Fprintln(os.Stderr, "START", c.render())
		}
		o := runC12(c, known)
		for _, x := range o.Excluded {
			rec.Exclude(x + " (known finding " + c12Slug + ")")
		}
		if o.Fail != "" {
			t.Fatalf("%s\nprogram: %s", o.Fail, c.render())
		}
		rec.Case(c.render(), o.NonTrivial, c12LabelList(o)...)
		rec.Sample("program", c.render())
	})
}

func activeSpec(name string) Spec {
	return Spec{Name: name, CacheClass: "cache:default", Opts: sop.StoreOptions{Name: name, SlotLength: 4, IsUnique: true, IsValueDataActivelyPersisted: true}}
}

// TestC12_Known_RollbackAfterActiveAddKeepsCreatedStore is the plain reproduction of a defect this
// check found (repaired in /repo by 56e2e3b9, so it runs as a regression test): create an actively
// persisted store, add one item, Rollback: the store was still listed and its folder still there,
// because Transaction.rollback returned early when the last logged step was addActivelyPersistedItem.
func TestC12_Known_RollbackAfterActiveAddKeepsCreatedStore(t *testing.T) {
	c := c12Case{HashMod: 2, UUIDSeed: 1, Steps: []c12Step{
		{Remove: -1, FaultAt: -1, End: "rollback", Uses: []c12Use{{Slot: 0, Spec: activeSpec("alpha"), Ops: []txh.Op{{Kind: "add", K: 1}}}}},
	}}
	o := runC12(c, false)
	if o.Fail == "" {
		return // does not reproduce (repaired in /repo by 56e2e3b9)
	}
	if !stats.Known("C12", c12Slug) {
		t.Fatalf("create an actively persisted store, Add(1), Rollback: %s", o.Fail)
	}
	stats.For("C12").KnownFinding("NewBtree of an actively persisted store, Add(1), Rollback: the store still exists (Transaction.rollback returns early when the last logged step is addActivelyPersistedItem and never reaches the loop that removes created stores): " + clip(o.Fail))
}

// TestC12_Neighbours: the same program on the placements next to the finding's class, and the
// finding's class ended by Commit with a failure, must hold on any tree.
func TestC12_Neighbours(t *testing.T) {
	for pl := 0; pl < 3; pl++ {
		s := activeSpec("alpha")
		s.Opts.IsValueDataActivelyPersisted = false
		s.Opts.IsValueDataInNodeSegment = pl == 0
		s.Opts.IsValueDataGloballyCached = pl == 2
		c := c12Case{HashMod: 2, UUIDSeed: 1, Cold: true, Steps: []c12Step{
			{Remove: -1, FaultAt: -1, End: "rollback", Uses: []c12Use{{Slot: 0, Spec: s, Ops: []txh.Op{{Kind: "add", K: 1}}}}},
			{Remove: -1, FaultAt: -1, End: "commit", Uses: []c12Use{{Slot: 0, Spec: s, Ops: []txh.Op{{Kind: "add", K: 2}}}}},
			{Remove: 0},
			{Remove: -1, FaultAt: -1, End: "commit", Uses: []c12Use{{Slot: 0, Spec: activeSpec("alpha")}}},
		}}
		if o := runC12(c, false); o.Fail != "" {
			t.Errorf("placement %d: %s", pl, o.Fail)
		}
	}
	for k := 0; k < 25; k++ {
		c := c12Case{HashMod: 2, UUIDSeed: 1, Steps: []c12Step{
			{Remove: -1, FaultAt: k, FaultFrom: "commit", End: "commit", Uses: []c12Use{{Slot: 0, Spec: activeSpec("alpha"), Ops: []txh.Op{{Kind: "add", K: 1}}}}},
		}}
		if o := runC12(c, false); o.Fail != "" {
			t.Errorf("active store, commit failing at call %d: %s", k, o.Fail)
		}
	}
}
