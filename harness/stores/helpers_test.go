package stores

import (
	"encoding/json"
	"fmt"
	"os"
	"path/filepath"
	"reflect"
	"sort"
	"strings"
	"time"
	"unicode/utf8"

	"github.com/sharedcode/sop"
	"github.com/sharedcode/sop/btree"
	"github.com/sharedcode/sop/common"
	"pgregory.net/rapid"

	"verif/harness/txh"
)

// ---- metadata vocabulary ------------------------------------------------------------------

// jsonTags lists the JSON field names of a struct type (the metadata vocabulary is read from
// sop.StoreInfo itself, so a field added later joins the grammar without editing the check).
func jsonTags(tp reflect.Type) []string {
	var out []string
	for i := 0; i < tp.NumField(); i++ {
		tag := strings.Split(tp.Field(i).Tag.Get("json"), ",")[0]
		if tag != "" && tag != "-" {
			out = append(out, tag)
		}
	}
	return out
}

// patchedFields are the two fields the commit path patches in place.
var patchedFields = []string{"count", "timestamp"}

var vocabulary = func() []string {
	v := jsonTags(reflect.TypeOf(sop.StoreInfo{}))
	v = append(v, jsonTags(reflect.TypeOf(sop.StoreCacheConfig{}))...)
	v = append(v, jsonTags(reflect.TypeOf(sop.Relation{}))...)
	return v
}()

func mentionsVocabulary(s string) bool {
	for _, w := range vocabulary {
		if strings.Contains(s, w) {
			return true
		}
	}
	return false
}

func mentionsPatched(s string) bool {
	return strings.Contains(s, "count") || strings.Contains(s, "timestamp")
}

// reservedNames are files/folders SOP itself keeps in the stores base folder; a store of that name
// collides with them (outside the generator, see the assumptions in the evidence).
var reservedNames = map[string]bool{"storelist.txt": true, "reghashmod.txt": true, "translogs": true}

// maxNameBytes: a directory entry holds at most 255 bytes, and SOP derives file names from the
// store name: the registry segment <name>-<n>.reg and its copy-on-write backups
// <name>-<n>_<offset>.cow. Names up to 230 bytes leave room for those suffixes; longer ones are
// rejected by the OS at creation (> 255) or at a later commit (231-255, not generated).
const maxNameBytes = 230

var unicodeTokens = []string{"\u00e9", "\u00df", "\u65e5\u672c\u8a9e", "\ud55c", "\U0001F600", "e\u0301", "\u202e", "\u00a0", "\u01c5", "\u0130", "\u2028", "\ufeff", "\u4e2d", "\u03a9"}
var punctTokens = []string{`"`, `:`, `,`, `{`, `}`, `[`, `]`, `\`, `\"`, `":`, `",`, `":"`, ` `, "\t", "\n", `'`, `<`, `>`, `&`, `%s`, `%`, `*`, `?`, `.`, `..`, `-`, `_`, `~`, `$`, `#`, `;`, `|`, `=`, `0`, `7`, `-1`, `1e9`, `null`, `true`}

// genWord draws one metadata word, the two patched ones far more often than the rest.
func genWord(t *rapid.T, label string) string {
	if rapid.IntRange(0, 9).Draw(t, label+".patched") < 7 {
		return rapid.SampledFrom(patchedFields).Draw(t, label+".pw")
	}
	return rapid.SampledFrom(vocabulary).Draw(t, label+".vw")
}

// decorate renders a word the way it can occur in JSON text.
func decorate(t *rapid.T, label, w string) string {
	n := rapid.SampledFrom([]string{"0", "7", "-3", "12345678901234", "1.5", `"x"`, "null", "{}"}).Draw(t, label+".num")
	switch rapid.IntRange(0, 13).Draw(t, label+".deco") {
	case 0:
		return w
	case 1:
		return `"` + w + `"`
	case 2:
		return `"` + w + `":` + n
	case 3:
		return `"` + w + `":`
	case 4:
		return w + `:`
	case 5:
		return `,"` + w + `":` + n + `}`
	case 6:
		return `{"` + w + `":` + n
	case 7:
		return w + `"`
	case 8:
		return `"` + w
	case 9:
		return `\"` + w + `\":` + n
	case 10:
		return strings.ToUpper(w)
	case 11:
		return w + w
	case 12:
		return `"` + w + `" : ` + n
	default:
		return `'` + w + `':` + n
	}
}

func genPlain(t *rapid.T, label string) string {
	return rapid.StringMatching(`[A-Za-z][A-Za-z0-9_]{0,11}`).Draw(t, label+".plain")
}

func genToken(t *rapid.T, label string) string {
	switch rapid.IntRange(0, 9).Draw(t, label+".tok") {
	case 0, 1, 2:
		return decorate(t, label, genWord(t, label))
	case 3, 4:
		return rapid.SampledFrom(punctTokens).Draw(t, label+".punct")
	case 5:
		return rapid.SampledFrom(unicodeTokens).Draw(t, label+".uni")
	case 6:
		return rapid.StringN(1, 6, 24).Draw(t, label+".any")
	default:
		return genPlain(t, label)
	}
}

// genText draws text from the grammar. class is a label for the histogram.
func genText(t *rapid.T, label string, maxBytes int) (s string, class string) {
	switch rapid.IntRange(0, 11).Draw(t, label+".mode") {
	case 0, 1:
		return genWord(t, label), "exactWord"
	case 2, 3:
		return decorate(t, label, genWord(t, label)), "decoratedWord"
	case 4, 5, 6:
		n := rapid.IntRange(2, 5).Draw(t, label+".n")
		for i := 0; i < n; i++ {
			s += genToken(t, fmt.Sprintf("%s.%d", label, i))
		}
		return s, "tokens"
	case 7:
		return genPlain(t, label), "plain"
	case 8:
		return "", "empty"
	case 9:
		// long, with a word somewhere inside
		fill := rapid.SampledFrom([]string{"x", "ab", "é", "日", `"`, "count", `"count":1,`}).Draw(t, label+".fill")
		target := rapid.IntRange(maxBytes/2, maxBytes).Draw(t, label+".len")
		pos := rapid.IntRange(0, 3).Draw(t, label+".pos")
		w := decorate(t, label, genWord(t, label))
		var sb strings.Builder
		if pos == 0 {
			sb.WriteString(w)
		}
		for sb.Len()+len(fill) <= target-len(w) {
			sb.WriteString(fill)
			if pos == 1 && sb.Len() >= target/2 {
				sb.WriteString(w)
				pos = -1
			}
		}
		if pos >= 2 {
			sb.WriteString(w)
		}
		return sb.String(), "long"
	default:
		return rapid.StringN(1, 12, 48).Draw(t, label+".any"), "anyUnicode"
	}
}

// validUTF8Prefix cuts s to at most n bytes on a rune boundary.
func validUTF8Prefix(s string, n int) string {
	if len(s) <= n {
		return s
	}
	for n > 0 && !utf8.RuneStart(s[n]) {
		n--
	}
	return s[:n]
}

// sanitizeName turns grammar text into a valid single directory name: no '/' and no NUL, not
// empty, not "." or "..", not one of SOP's own file names, valid UTF-8. Everything else stays.
func sanitizeName(s string) string {
	s = strings.ToValidUTF8(s, "?")
	s = strings.Map(func(r rune) rune {
		if r == '/' || r == 0 {
			return -1
		}
		return r
	}, s)
	if s == "" || s == "." || s == ".." || reservedNames[s] {
		s = "n" + s
	}
	return s
}

// nameIsUsable is the same predicate for fuzz inputs (which are not rewritten, only filtered).
func nameIsUsable(s string) bool {
	return s != "" && s == sanitizeName(s) && len(s) <= maxNameBytes
}

// ---- store options ------------------------------------------------------------------------

// Spec is one generated store: the options handed to NewBtree, rendered canonically.
type Spec struct {
	Name       string
	NameClass  string
	DescClass  string
	Opts       sop.StoreOptions // CacheConfig is copied on every use (NewStoreInfo mutates it)
	CacheClass string
	TooLong    bool
}

func (s Spec) options(dir string) sop.StoreOptions {
	o := s.Opts
	o.DisableRegistryStoreFormatting = true
	o.DisableBlobStoreFormatting = true
	o.BlobStoreBaseFolderPath = dir
	if s.Opts.CacheConfig != nil {
		c := *s.Opts.CacheConfig
		o.CacheConfig = &c
	}
	return o
}

func (s Spec) render() string {
	o := s.Opts
	cc := "nil"
	if o.CacheConfig != nil {
		cc = fmt.Sprintf("%+v", *o.CacheConfig)
	}
	cd, _ := json.Marshal(o.CustomData)
	rl, _ := json.Marshal(o.Relations)
	return fmt.Sprintf("{name=%q desc=%q slot=%d uniq=%v inNode=%v active=%v gcached=%v bal=%v cache=%s spec=%q cel=%q prim=%v rel=%s custom=%s}",
		o.Name, o.Description, o.SlotLength, o.IsUnique, o.IsValueDataInNodeSegment, o.IsValueDataActivelyPersisted,
		o.IsValueDataGloballyCached, o.LeafLoadBalancing, cc, o.MapKeyIndexSpecification, o.CELexpression, o.IsPrimitiveKey, rl, cd)
}

var durations = []time.Duration{-1, 0, 1, time.Second, 5 * time.Minute, 7 * time.Minute, time.Hour}

func genCacheConfig(t *rapid.T, label string) (*sop.StoreCacheConfig, string) {
	switch rapid.IntRange(0, 5).Draw(t, label+".kind") {
	case 0, 1:
		return nil, "cache:default"
	case 2:
		return sop.NewStoreCacheConfig(0, false), "cache:none"
	case 3:
		d := rapid.SampledFrom(durations[2:]).Draw(t, label+".dur")
		return sop.NewStoreCacheConfig(d, rapid.Bool().Draw(t, label+".ttl")), "cache:uniform"
	default:
		d := func(k string) time.Duration { return rapid.SampledFrom(durations).Draw(t, label+"."+k) }
		b := func(k string) bool { return rapid.Bool().Draw(t, label+"."+k) }
		return &sop.StoreCacheConfig{
			RegistryCacheDuration: d("rd"), IsRegistryCacheTTL: b("rt"),
			NodeCacheDuration: d("nd"), IsNodeCacheTTL: b("nt"),
			ValueDataCacheDuration: d("vd"), IsValueDataCacheTTL: b("vt"),
			StoreInfoCacheDuration: d("sd"), IsStoreInfoCacheTTL: b("st"),
		}, "cache:custom"
	}
}

func genCustomValue(t *rapid.T, label string, depth int) any {
	switch rapid.IntRange(0, 7).Draw(t, label+".vk") {
	case 0:
		s, _ := genText(t, label+".s", 300)
		return strings.ToValidUTF8(s, "?")
	case 1:
		return rapid.IntRange(-1000, 100000).Draw(t, label+".i")
	case 2:
		return float64(rapid.IntRange(-100, 100).Draw(t, label+".f")) + 0.5
	case 3:
		return rapid.Bool().Draw(t, label+".b")
	case 4:
		return nil
	case 5:
		if depth > 0 {
			return genCustomMap(t, label+".m", depth-1)
		}
		return "leaf"
	case 6:
		n := rapid.IntRange(0, 3).Draw(t, label+".an")
		a := make([]any, n)
		for i := range a {
			a[i] = genWord(t, fmt.Sprintf("%s.a%d", label, i))
		}
		return a
	default:
		return genWord(t, label+".w")
	}
}

func genCustomMap(t *rapid.T, label string, depth int) map[string]any {
	n := rapid.IntRange(1, 3).Draw(t, label+".n")
	m := map[string]any{}
	for i := 0; i < n; i++ {
		var k string
		if rapid.Bool().Draw(t, fmt.Sprintf("%s.kw%d", label, i)) {
			k = genWord(t, fmt.Sprintf("%s.k%d", label, i))
		} else {
			k, _ = genText(t, fmt.Sprintf("%s.k%d", label, i), 60)
			k = strings.ToValidUTF8(k, "?")
		}
		m[k] = genCustomValue(t, fmt.Sprintf("%s.v%d", label, i), depth)
	}
	return m
}

func genRelations(t *rapid.T, label string) []sop.Relation {
	n := rapid.IntRange(1, 2).Draw(t, label+".n")
	out := make([]sop.Relation, n)
	for i := range out {
		l := fmt.Sprintf("%s.%d", label, i)
		out[i] = sop.Relation{
			SourceFields: []string{genWord(t, l+".sf")},
			TargetStore:  decorate(t, l+".ts", genWord(t, l+".tsw")),
			TargetFields: []string{genWord(t, l+".tf"), genPlain(t, l+".tf2")},
		}
	}
	return out
}

// genStructural draws slot length, uniqueness, placement flags, balancing and cache config.
func genStructural(t *rapid.T, label string, o *sop.StoreOptions) (cacheClass string) {
	o.SlotLength = rapid.SampledFrom([]int{0, 1, 2, 3, 4, 4, 6, 7, 8, 16, 64, 500, 20001}).Draw(t, label+".slot")
	o.IsUnique = rapid.Bool().Draw(t, label+".unique")
	o.IsValueDataInNodeSegment = rapid.Bool().Draw(t, label+".inNode")
	o.IsValueDataActivelyPersisted = rapid.Bool().Draw(t, label+".active")
	o.IsValueDataGloballyCached = rapid.Bool().Draw(t, label+".gcached")
	o.LeafLoadBalancing = rapid.IntRange(0, 3).Draw(t, label+".bal") == 0
	o.CacheConfig, cacheClass = genCacheConfig(t, label+".cache")
	return
}

func placementLabel(si sop.StoreInfo) string {
	switch {
	case si.IsValueDataInNodeSegment:
		return "placement:inNode"
	case si.IsValueDataActivelyPersisted && si.IsValueDataGloballyCached:
		return "placement:activeCached"
	case si.IsValueDataActivelyPersisted:
		return "placement:active"
	case si.IsValueDataGloballyCached:
		return "placement:separateCached"
	}
	return "placement:separate"
}

// ---- observation --------------------------------------------------------------------------

// Store is the typed handle used by both checks.
type Store = btree.BtreeInterface[int, string]

func newStore(tx *txh.Txn, so sop.StoreOptions) (Store, error) {
	return common.NewBtree[int, string](txh.Ctx, so, tx.Tx, nil)
}

// configJSON renders the configuration part of a StoreInfo: every persisted field except the
// two a commit is allowed to change (count, timestamp) and the fields SOP derives from the Go
// key/value types rather than from the options (schema, key_fields, value_fields on the first
// item; is_primitive_key in btree.New). Maps are rendered with sorted keys by encoding/json, and
// numbers in custom data compare by their JSON text (int 5 at creation, float64 5 when re-read).
func configJSON(si sop.StoreInfo) string {
	si.Count, si.CountDelta, si.Timestamp = 0, 0, 0
	si.Schema, si.KeyFields, si.ValueFields = nil, nil, nil
	si.IsPrimitiveKey = false
	si.NeedsMetaDataSave = false
	b, err := json.Marshal(si)
	if err != nil {
		return "marshal error: " + err.Error()
	}
	return string(b)
}

// diffConfig names the first top-level JSON field in which two configurations differ.
func diffConfig(a, b string) string {
	if a == b {
		return ""
	}
	var ma, mb map[string]json.RawMessage
	if json.Unmarshal([]byte(a), &ma) != nil || json.Unmarshal([]byte(b), &mb) != nil {
		return fmt.Sprintf("%s != %s", a, b)
	}
	keys := map[string]bool{}
	for k := range ma {
		keys[k] = true
	}
	for k := range mb {
		keys[k] = true
	}
	var ks []string
	for k := range keys {
		ks = append(ks, k)
	}
	sort.Strings(ks)
	var out []string
	for _, k := range ks {
		if string(ma[k]) != string(mb[k]) {
			out = append(out, fmt.Sprintf("%s: created %s, now %s", k, clip(string(ma[k])), clip(string(mb[k]))))
		}
	}
	return strings.Join(out, "; ")
}

func clip(s string) string {
	if len(s) > 120 {
		return s[:117] + "..."
	}
	return s
}

// readInfoFile reads <dir>/<name>/storeinfo.txt without any SOP code.
func readInfoFile(dir, name string) (raw []byte, si sop.StoreInfo, err error) {
	raw, err = os.ReadFile(filepath.Join(dir, name, "storeinfo.txt"))
	if err != nil {
		return raw, si, err
	}
	if !json.Valid(raw) {
		return raw, si, fmt.Errorf("storeinfo.txt is not valid JSON")
	}
	if err := json.Unmarshal(raw, &si); err != nil {
		return raw, si, fmt.Errorf("storeinfo.txt does not decode into a StoreInfo: %v", err)
	}
	return raw, si, nil
}

// listStores returns the store names a fresh transaction reports, sorted.
func listStores(e *txh.Env) ([]string, error) {
	tx, err := e.NewTxn(txh.TxnOptions{Mode: sop.ForReading})
	if err != nil {
		return nil, err
	}
	tx.Record = false
	if err := tx.Tx.Begin(txh.Ctx); err != nil {
		return nil, err
	}
	names, err := tx.Tx.GetStores(txh.Ctx)
	tx.Tx.Rollback(txh.Ctx)
	sort.Strings(names)
	return names, err
}

// openFails reports whether OpenBtree of name fails in a fresh reading transaction, and how.
func openFails(e *txh.Env, name string) (bool, string) {
	tx, err := e.NewTxn(txh.TxnOptions{Mode: sop.ForReading})
	if err != nil {
		return false, "HARNESS-ERROR " + err.Error()
	}
	tx.Record = false
	if err := tx.Tx.Begin(txh.Ctx); err != nil {
		return false, "HARNESS-ERROR " + err.Error()
	}
	b, err := txh.OpenBtree[int, string](tx, name)
	if err != nil {
		if tx.Tx.HasBegun() {
			tx.Tx.Rollback(txh.Ctx)
		}
		return true, err.Error()
	}
	msg := fmt.Sprintf("opened, Count()=%d, info=%s", b.Count(), configJSON(b.GetStoreInfo()))
	tx.Tx.Rollback(txh.Ctx)
	return false, msg
}

// filesUnder lists the regular files below dir/name (relative paths), sorted.
func filesUnder(dir, name string) []string {
	var out []string
	root := filepath.Join(dir, name)
	filepath.Walk(root, func(p string, fi os.FileInfo, err error) error {
		if err == nil && !fi.IsDir() {
			out = append(out, strings.TrimPrefix(p, root+"/"))
		}
		return nil
	})
	sort.Strings(out)
	return out
}
