package stores

import (
	"testing"
	"unicode/utf8"

	"verif/harness/stats"
)

// FuzzStoreNames is the native-fuzz companion of TestC13_ConfigSurvivesCommits (thorough tier
// only): (name, description) bytes, mutated from a corpus of the metadata field names in their JSON
// spellings, through the minimal history create / add+commit (full save) / add+commit (in-place
// patch) with the same oracle. Inputs that are not valid single directory names are skipped, as
// is - only while it is listed - the class of the known finding.
func FuzzStoreNames(f *testing.F) {
	for _, w := range vocabulary {
		f.Add(w, "")
		f.Add("s", w)
		f.Add(`"`+w+`"`, `"`+w+`":7`)
		f.Add(`x"`+w, `,"`+w+`":1}`)
	}
	f.Add("plain", "a description")
	f.Add("日本語", "é \"")
	known := stats.Known("C13", c13Slug)
	f.Fuzz(func(t *testing.T, name, desc string) {
		if !nameIsUsable(name) || !utf8.ValidString(desc) || len(desc) > 4000 {
			t.Skip()
		}
		if known && (textInPatchClass(name) || textInPatchClass(desc)) {
			t.Skip()
		}
		if o := minimalC13(name, desc); o.Fail != "" {
			t.Fatalf("name=%q description=%q: %s", name, desc, o.Fail)
		}
	})
}
