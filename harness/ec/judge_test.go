package ec

import (
	"encoding/json"
	"fmt"
	"os"
	"sort"
	"strings"
)

// verdict of the oracle on one observed outcome.
type verdict struct {
	viol       string   // non-empty: the property is violated
	harness    string   // non-empty: infrastructure problem (HARNESS-ERROR)
	discard    string   // non-empty: the case cannot be evaluated for this property (reason)
	labels     []string // classes of the evaluated case
	nontrivial bool
	inC26      bool
}

func kindsOf(c Case) (kinds []string, damagedKinds map[Kind]int) {
	damagedKinds = map[Kind]int{}
	for _, d := range c.Damage {
		if d.Kind != Intact {
			damagedKinds[d.Kind]++
		}
	}
	for k := range damagedKinds {
		kinds = append(kinds, "kind:"+k.String())
	}
	sort.Strings(kinds)
	return
}

func baseLabels(c Case) []string {
	l := []string{fmt.Sprintf("d%dp%d", c.D, c.P)}
	switch {
	case c.Size == 0:
		l = append(l, "size=0")
	case c.Size < c.D:
		l = append(l, "size<d")
	case c.Size%c.D != 0:
		l = append(l, "size%d!=0")
	default:
		l = append(l, "size%d==0")
	}
	if c.Size > 4096 {
		l = append(l, "size>4KiB")
	}
	if c.ExtraCap > 0 {
		l = append(l, "spareCapacity")
	}
	ks, _ := kindsOf(c)
	l = append(l, ks...)
	if c.Twin != nil {
		l = append(l, "kind:twinFlips")
	}
	return l
}

// judge applies the oracle of C25 (modes "write", "read") and C26 (mode "repair").
//
// C25 as stated: Add returns nil iff at most p shard writes failed; with at most p shard
// files missing/truncated/corrupted GetOne returns exactly the stored bytes; with more, an
// error and never different bytes; never a panic / process death.
//
// Two deliberate weakenings (asserting LESS than the statement, never more):
//   - a shard replaced by another blob's shard carries a valid checksum of its own, i.e. it
//     is an undetectable error, not an erasure. Reed-Solomon can only decide e such errors
//     plus s erasures when 2e+s <= p; outside that bound (and above p) the read may also
//     fail or return exactly the other blob, it just must not return anything else.
//   - above p, returning exactly the stored bytes is accepted (it is not "wrong bytes").
func judge(c Case, o Outcome) (v verdict) {
	defer func() {
		// C26 is conditional on a successful read; whatever goes wrong before that point
		// (crash, spurious error, wrong bytes) is C25's finding and not reported twice.
		if c.Mode == "repair" && v.viol != "" && !v.inC26 {
			v.discard = "read part failed (C25): " + v.viol
			v.viol = ""
		}
	}()
	if o.HarnessErr != "" {
		v.harness = o.HarnessErr
		return
	}
	if o.Died {
		v.viol = "the process died (a read/write must never crash the process):\n" + o.Stderr
		return
	}
	if o.Panic != "" {
		v.viol = "panic on the calling goroutine, " + o.Panic
		return
	}
	v.labels = baseLabels(c)
	n, p := c.N(), c.P
	if o.RefAddErr != "" {
		v.viol = fmt.Sprintf("Add of a %d-byte blob with no failing drive returned: %s", c.Size, o.RefAddErr)
		return
	}
	if !o.AddDone {
		v.harness = "HARNESS-ERROR: worker returned before Add"
		return
	}
	nFail := len(c.writeFails())
	switch {
	case nFail == 0:
		v.labels = append(v.labels, "wfail=0")
	case nFail < p:
		v.labels = append(v.labels, "wfail<p")
	case nFail == p:
		v.labels = append(v.labels, "wfail=p")
	case nFail == p+1:
		v.labels = append(v.labels, "wfail=p+1")
	default:
		v.labels = append(v.labels, "wfail>p+1")
	}
	if (o.AddErr == "") != (nFail <= p) {
		v.viol = fmt.Sprintf("Add with %d failing shard writes (p=%d) returned %q", nFail, p, o.AddErr)
		return
	}
	if o.AddErr != "" {
		return
	}
	if len(o.AddState) > 0 {
		v.viol = "after a tolerated Add: " + strings.Join(o.AddState, "; ")
		return
	}
	if !o.GetDone || len(o.Damaged) != n {
		v.harness = "HARNESS-ERROR: worker returned before GetOne"
		return
	}
	dmg, e := 0, 0
	for i, b := range o.Damaged {
		if b {
			dmg++
			if c.Damage[i].Kind == Foreign {
				e++
			}
		}
	}
	if c.Twin != nil {
		if o.TwinCount != dmg {
			v.harness = fmt.Sprintf("HARNESS-ERROR: twin pattern changed %d shards, %d differ", o.TwinCount, dmg)
			return
		}
		v.labels = append(v.labels, fmt.Sprintf("twinFlips=p+%d", dmg-p))
	}
	s := dmg - e
	_, dk := kindsOf(c)
	trunc := dk[TruncLow]+dk[TruncMeta]+dk[TruncHigh] > 0
	if c.Mode != "write" {
		ways := len(dk)
		if dk[Missing] > 0 && dk[WFail] > 0 {
			ways-- // deleted and never written are the same way of being damaged
		}
		v.nontrivial = ways >= 2 || trunc
		if c.Mode == "repair" {
			v.nontrivial = dmg >= 1
		}
	}
	if len(dk) >= 2 {
		v.labels = append(v.labels, "mixedKinds")
	}
	switch {
	case dmg == 0:
		v.labels = append(v.labels, "damaged=0")
	case dmg < p:
		v.labels = append(v.labels, "damaged<p")
	case dmg == p:
		v.labels = append(v.labels, "damaged=p")
	case dmg == p+1:
		v.labels = append(v.labels, "damaged=p+1")
	default:
		v.labels = append(v.labels, "damaged>p+1")
	}
	describe := func() string {
		if o.GetErr != "" {
			return "error " + fmt.Sprintf("%q", o.GetErr)
		}
		if o.GotEqual {
			return "the stored bytes"
		}
		if o.GotOther {
			return "the other blob's bytes"
		}
		return fmt.Sprintf("%d DIFFERENT bytes (sha %s; stored: %d bytes)", o.GotLen, o.GotSha, c.Size)
	}
	if dmg <= p {
		strict := e == 0 || 2*e+s <= p
		if strict {
			if o.GetErr != "" || !o.GotEqual {
				v.viol = fmt.Sprintf("%d of %d shards damaged (p=%d): GetOne returned %s, want the stored bytes", dmg, n, p, describe())
				return
			}
		} else {
			v.labels = append(v.labels, "foreignBeyondRSBound(relaxed)")
			if o.GetErr == "" && !o.GotEqual && !o.GotOther {
				v.viol = fmt.Sprintf("%d of %d shards damaged (p=%d, %d foreign): GetOne returned %s", dmg, n, p, e, describe())
				return
			}
		}
	} else {
		switch {
		case o.GetErr != "":
			v.labels = append(v.labels, "overParity:error")
		case o.GotEqual:
			v.labels = append(v.labels, "overParity:stillCorrect")
		case o.GotOther && e > 0:
			v.labels = append(v.labels, "overParity:foreignBlob(relaxed)")
		default:
			v.viol = fmt.Sprintf("%d of %d shards damaged (p=%d): GetOne returned %s instead of an error", dmg, n, p, describe())
			return
		}
	}
	if o.SecondDone && o.Second != "" && dmg <= p && o.GotEqual {
		v.viol = fmt.Sprintf("%d of %d shards damaged (p=%d): the repairing read returned the stored bytes, but a second read right after it returned %s", dmg, n, p, o.Second)
		return
	}
	if o.SecondDone {
		v.labels = append(v.labels, "secondReadAfterRepair")
	}
	if c.Mode != "repair" {
		return
	}
	// ---- C26
	v.inC26 = true
	if o.GetErr != "" || !o.GotEqual {
		v.discard = "the repairing read did not succeed (C25's business)"
		return
	}
	if dmg > p {
		v.discard = "more than p damaged"
		return
	}
	if len(o.AfterRepair) != n {
		v.harness = "HARNESS-ERROR: no after-repair state"
		return
	}
	var bad []string
	for i, st := range o.AfterRepair {
		if st != "same" {
			bad = append(bad, fmt.Sprintf("shard %d (%s before the read) is %s", i, c.Damage[i].Kind, st))
		}
	}
	if len(bad) > 0 {
		v.viol = "after a successful repairing read not every shard file equals what a fresh Add writes: " + strings.Join(bad, "; ")
		return
	}
	if o.SubsetFailure != "" {
		v.viol = "after repair, " + o.SubsetFailure
		return
	}
	want := 1
	for i := 0; i < p; i++ {
		want = want * (n - i) / (i + 1)
	}
	if o.SubsetsTried != want {
		v.harness = fmt.Sprintf("HARNESS-ERROR: %d subsets tried, want C(%d,%d)=%d", o.SubsetsTried, n, p, want)
		return
	}
	return
}

// replayFile is the JSON rendering of a failing case (replays/Cnn/replay-*.json).
type replayFile struct {
	Property  string  `json:"property"`
	Test      string  `json:"test"`
	Case      Case    `json:"case"`
	Outcome   Outcome `json:"outcome"`
	Violation string  `json:"violation"`
}

var lastReplay = map[string]string{}

// writeReplay keeps one JSON rendering per test in the working directory: the latest failing
// case, which after rapid's shrinking is the minimal one. The driver copies it to replays/.
func writeReplay(prop, test string, c Case, o Outcome, viol string) {
	b, _ := json.MarshalIndent(replayFile{prop, test, c, o, viol}, "", " ")
	name := fmt.Sprintf("replay-%s-%s-%s.json", prop, strings.TrimPrefix(test, "Test"+prop+"_"), sha([]byte(c.String())))
	if old := lastReplay[test]; old != "" && old != name {
		_ = os.Remove(old)
	}
	lastReplay[test] = name
	_ = os.WriteFile(name, b, 0o644)
}
