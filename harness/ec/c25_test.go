package ec

import (
	"encoding/json"
	"os"
	"strings"
	"testing"

	"pgregory.net/rapid"

	"verif/harness/stats"
)

type fataler interface {
	Fatalf(format string, args ...any)
}

const c25Rule = "non-trivial = at least two shards damaged in different ways (deleted and never-written count as one way) or a truncated shard; " +
	"write-failure cases (TestC25_Write*) are labelled wfail* and never counted as non-trivial; distinct by the rendered case (d, p, size, content seed, per-shard damage)"

var c25Assumptions = []string{
	"an injected write failure returns before the real call (no partial file)",
	"damage is applied to the shard files between Add and GetOne, on the local filesystem, by the harness",
	"a shard replaced by another blob's shard is held to 'exact bytes' only inside the Reed-Solomon bound 2*foreign+others <= p; outside it error / the other blob are accepted",
	"above p damaged shards, returning exactly the stored bytes is accepted (it is not wrong bytes)",
	"SOP code runs in a child process; its death is observed by the parent and reported as a violation with the case",
}

// evaluate runs one case in the worker process and applies the oracle.
func evaluate(t fataler, rec *stats.Rec, prop, test string, c Case) verdict {
	o := execCase(c)
	v := judge(c, o)
	if v.harness != "" {
		t.Fatalf("%s\ncase %s", v.harness, c)
	}
	if v.viol != "" {
		writeReplay(prop, test, c, o, v.viol)
		t.Fatalf("case %s\n%s", c, v.viol)
	}
	if v.discard != "" {
		rec.Discard()
		rec.Label("discarded:" + strings.SplitN(v.discard, ":", 2)[0])
		return v
	}
	rec.Case(c.String(), v.nontrivial, v.labels...)
	return v
}

// TestC25_Read: write a blob (possibly with tolerated write failures), damage shard files,
// read it back.
func TestC25_Read(t *testing.T) {
	rec := stats.For("C25").Meta("exploration", c25Rule, c25Assumptions...)
	rapid.Check(t, func(t *rapid.T) {
		c := genCase(t, "read")
		normalise(&c, rec)
		v := evaluate(t, rec, "C25", "TestC25_Read", c)
		if v.nontrivial {
			rec.Sample("read", c.String())
		}
	})
}

// TestC25_Write: Add returns nil iff at most p shard writes fail; a tolerated write reads back.
func TestC25_Write(t *testing.T) {
	rec := stats.For("C25").Meta("exploration", c25Rule, c25Assumptions...)
	rapid.Check(t, func(t *rapid.T) {
		c := genCase(t, "write")
		normalise(&c, rec)
		evaluate(t, rec, "C25", "TestC25_Write", c)
	})
}

// TestC25_WriteSubsets enumerates every subset of failing drives for every (d,p) of the
// domain and a few sizes around the divisibility edge (plain test, no sampling).
func TestC25_WriteSubsets(t *testing.T) {
	rec := stats.For("C25").Meta("exploration", c25Rule, c25Assumptions...)
	total := 0
	for d := 1; d <= 4; d++ {
		for p := 1; p <= 3; p++ {
			n := d + p
			sizes := []int{1, d, d + 1, 3*d + 1, 1000}
			if d > 2 {
				sizes = append(sizes, d-1)
			}
			for _, size := range sizes {
				for mask := 0; mask < 1<<n; mask++ {
					c := Case{Mode: "write", D: d, P: p, Size: size, ContentKind: 2, Seed: uint64(1000*d + 100*p + size), Damage: make([]Dmg, n)}
					for i := 0; i < n; i++ {
						if mask>>i&1 == 1 {
							c.Damage[i] = Dmg{Kind: WFail}
						}
					}
					evaluate(t, rec, "C25", "TestC25_WriteSubsets", c)
					total++
					if size == d+1 {
						// the same subset with the blob in the middle of a batch of three
						c.Companions, c.Before = 2, 1
						evaluate(t, rec, "C25", "TestC25_WriteSubsets", c)
						total++
					}
				}
			}
		}
	}
	rec.SetExtra("write_failure_subsets_enumerated", total)
}

// ---- regression tests of listed findings ----

func knownTest(t *testing.T, prop, slug, signature string, cases ...Case) {
	if !stats.Known(prop, slug) {
		t.Skip("not listed in known_findings.json")
	}
	rec := stats.For(prop)
	reproduced := false
	for _, c := range cases {
		o := execCase(c)
		v := judge(c, o)
		if v.harness != "" {
			t.Fatalf("%s", v.harness)
		}
		if v.viol == "" {
			continue
		}
		if !strings.Contains(v.viol, signature) {
			t.Fatalf("listed finding %s now fails with another signature\ncase %s\n%s", slug, c, v.viol)
		}
		reproduced = true
		t.Logf("still reproduces: %s\n%s", c, v.viol)
	}
	if reproduced {
		what := stats.KnownWhat(prop, slug)
		if what == "" {
			what = slug
		}
		rec.KnownFinding(slug + ": " + what)
	}
}

func dmgList(n int, at map[int]Dmg) []Dmg {
	l := make([]Dmg, n)
	for i, d := range at {
		l[i] = d
	}
	return l
}

func TestC25_Known_EmptyBlob(t *testing.T) {
	knownTest(t, "C25", slugEmpty, "with no failing drive returned",
		Case{Mode: "write", D: 2, P: 1, Size: 0, Damage: dmgList(3, nil)})
}

// TestC25_Known_ShortShardPanic is the regression of the FIXED finding short-shard-panic
// (/repo 6ce493d2): a shard file shorter than the 17-byte metadata used to kill the process
// in GetOne's reader goroutine. Always on; the class is never excluded from the search.
func TestC25_Known_ShortShardPanic(t *testing.T) {
	rec := stats.For("C25")
	for _, c := range []Case{
		{Mode: "read", D: 1, P: 1, Size: 1, Damage: dmgList(2, map[int]Dmg{1: {Kind: TruncLow, T: 16}})},
		{Mode: "read", D: 2, P: 2, Size: 100, ContentKind: 2, Seed: 7, Damage: dmgList(4, map[int]Dmg{0: {Kind: TruncLow, T: 0}})},
		{Mode: "read", D: 1, P: 2, Size: 1, ContentKind: 2, Seed: 270227, ExtraCap: 1, Damage: dmgList(3, map[int]Dmg{2: {Kind: TruncLow, T: 3}})},
		{Mode: "read", Repair: true, D: 3, P: 2, Size: 50, ContentKind: 2, Seed: 9, Damage: dmgList(5, map[int]Dmg{1: {Kind: TruncLow, T: 8}, 4: {Kind: TruncLow, T: 16}})},
	} {
		evaluate(t, rec, "C25", "TestC25_Known_ShortShardPanic", c)
	}
}

func TestC25_Known_UnequalShardLength(t *testing.T) {
	knownTest(t, "C25", slugUnequal, "want the stored bytes",
		Case{Mode: "read", D: 1, P: 1, Size: 2, Damage: dmgList(2, map[int]Dmg{1: {Kind: TruncHigh, T: 18}})},
		Case{Mode: "read", D: 2, P: 2, Size: 100, ContentKind: 2, Seed: 7, Damage: dmgList(4, map[int]Dmg{2: {Kind: TruncHigh, T: 40}})})
}

func TestC25_Known_ForeignShard(t *testing.T) {
	knownTest(t, "C25", slugForeign, "want the stored bytes",
		Case{Mode: "read", D: 1, P: 2, Size: 8, ContentKind: 2, Seed: 1, OtherSize: 8, OtherSeed: 2,
			Damage: dmgList(3, map[int]Dmg{0: {Kind: Foreign}})})
}

func TestC25_Known_ConsistentCorruption(t *testing.T) {
	knownTest(t, "C25", slugTwin, "instead of an error",
		Case{Mode: "read", D: 1, P: 1, Size: 1, Damage: dmgList(2, nil), Twin: &Twin{Pos: 0, Mask: 1}},
		Case{Mode: "read", D: 3, P: 2, Size: 100, ContentKind: 2, Seed: 7, Damage: dmgList(5, nil), Twin: &Twin{Pos: 50, Mask: 0x80}})
}

// p drives gone and one bit rotted on another: the rotten shard's md5 no longer matches, yet
// the read returns (wrong) bytes and no error.
func TestC25_Known_DegradedReadUncheckedSurvivor(t *testing.T) {
	knownTest(t, "C25", slugDegraded, "instead of an error",
		Case{Mode: "read", D: 1, P: 1, Size: 1, Damage: dmgList(2, map[int]Dmg{0: {Kind: Missing}, 1: {Kind: FlipPayload, Off: 0, Mask: 1}})},
		Case{Mode: "read", D: 2, P: 2, Size: 100, ContentKind: 2, Seed: 7,
			Damage: dmgList(4, map[int]Dmg{2: {Kind: Missing}, 3: {Kind: Missing}, 0: {Kind: FlipPayload, Off: 3, Mask: 0x10}})})
}

func TestC25_Known_MissingPlusCorruptPanic(t *testing.T) {
	knownTest(t, "C25", slugNilMeta, "panic on the calling goroutine",
		Case{Mode: "read", D: 1, P: 2, Size: 1, Damage: dmgList(3, map[int]Dmg{0: {Kind: Missing}, 1: {Kind: FlipPayload, Off: 0, Mask: 1}})},
		Case{Mode: "read", D: 2, P: 2, Size: 100, ContentKind: 2, Seed: 7, Damage: dmgList(4, map[int]Dmg{3: {Kind: WFail}, 0: {Kind: TruncMeta}})})
}

func TestC25_Known_PadByteUnprotected(t *testing.T) {
	knownTest(t, "C25", slugPadByte, "",
		Case{Mode: "read", D: 2, P: 1, Size: 4, ContentKind: 4, Damage: dmgList(3, map[int]Dmg{0: {Kind: FlipMeta, Off: 0, Mask: 1}})},
		Case{Mode: "read", D: 1, P: 1, Size: 1, Damage: dmgList(2, map[int]Dmg{0: {Kind: FlipMeta, Off: 0, Mask: 0xff}})})
}

// TestReplay re-runs a JSON replay (replays/Cnn/replay-*.json) through the plain path.
func TestReplay(t *testing.T) {
	p := os.Getenv("VERIF_REPLAY")
	if p == "" || !strings.HasSuffix(p, ".json") {
		t.Skip("no JSON replay given")
	}
	b, err := os.ReadFile(p)
	if err != nil {
		t.Fatalf("HARNESS-ERROR: %v", err)
	}
	var rf replayFile
	if err := json.Unmarshal(b, &rf); err != nil {
		t.Fatalf("HARNESS-ERROR: %v", err)
	}
	if rf.Property != os.Getenv("VERIF_PROP") && os.Getenv("VERIF_PROP") != "" {
		t.Skipf("replay belongs to %s", rf.Property)
	}
	o := execCase(rf.Case)
	v := judge(rf.Case, o)
	if v.harness != "" {
		t.Fatalf("%s", v.harness)
	}
	ob, _ := json.Marshal(o)
	t.Logf("case %s\noutcome %s", rf.Case, ob)
	if v.viol != "" {
		t.Fatalf("case %s\n%s", rf.Case, v.viol)
	}
	if v.discard != "" {
		t.Logf("not evaluable for %s: %s", rf.Property, v.discard)
	}
}
