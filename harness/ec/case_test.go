package ec

import (
	"bytes"
	"encoding/json"
	"fmt"

	"github.com/klauspost/reedsolomon"
	"pgregory.net/rapid"

	"verif/harness/stats"
)

// metaSize is the documented shard-file header: 1 pad-count byte + 16 md5 bytes
// (anchors of C25: erasure.MetaDataSize).
const metaSize = 17

// Kind is what happens to one shard file between the write and the read.
type Kind int

const (
	Intact      Kind = iota
	Missing          // file deleted after a successful write
	WFail            // FileIO.WriteFile failed for this drive during Add (file never existed)
	TruncLow         // truncated to T < 17 bytes
	TruncMeta        // truncated to exactly 17 bytes (metadata only, empty payload)
	TruncHigh        // truncated to 17 < T < full length
	FlipPayload      // one payload byte XOR Mask at payload offset Off
	FlipMeta         // one metadata byte XOR Mask at file offset Off (0 = pad count, 1..16 = md5)
	Foreign          // whole file replaced by shard #i of another blob (same d,p)
)

var kindNames = [...]string{"intact", "missing", "wfail", "truncLow", "truncMeta", "truncHigh", "flipPayload", "flipMeta", "foreign"}

func (k Kind) String() string { return kindNames[k] }

// Dmg is the damage of one shard file.
type Dmg struct {
	Kind Kind `json:"k"`
	T    int  `json:"t,omitempty"`
	Off  int  `json:"off,omitempty"`
	Mask int  `json:"mask,omitempty"`
}

// Twin asks for the adversarial "one payload byte flipped in each of p+1 shards" pattern:
// blob byte Pos is XORed with Mask, the result is encoded, and every shard whose payload
// differs from the original's gets exactly the differing payload byte (metadata untouched).
type Twin struct {
	Pos  int `json:"pos"`
	Mask int `json:"mask"`
}

// Case is one generated case; it is all the worker process needs (contents are expanded
// deterministically from the seeds).
type Case struct {
	Mode        string `json:"mode"` // "write" | "read" | "repair"
	D           int    `json:"d"`
	P           int    `json:"p"`
	Size        int    `json:"size"`
	ContentKind int    `json:"ckind"`
	Seed        uint64 `json:"seed"`
	ExtraCap    int    `json:"xcap,omitempty"` // spare capacity behind the slice handed to Add
	OtherSize   int    `json:"osize,omitempty"`
	OtherSeed   uint64 `json:"oseed,omitempty"`
	Damage      []Dmg  `json:"dmg"`
	Twin        *Twin  `json:"twin,omitempty"`
	Repair      bool   `json:"repair,omitempty"` // RepairCorruptedShards of the reading store
	// Companions: other blobs of the same table written by the same Add call as the blob under test
	// (Before of them in front of it).
	Companions int `json:"companions,omitempty"`
	Before     int `json:"before,omitempty"`
}

func (c Case) N() int { return c.D + c.P }

func (c Case) String() string {
	b, _ := json.Marshal(c)
	return string(b)
}

func shardLen(size, d int) int {
	if size <= 0 {
		return 0
	}
	return (size + d - 1) / d
}

func (c Case) fileLen() int { return metaSize + shardLen(c.Size, c.D) }

func (c Case) count(pred func(Dmg) bool) int {
	n := 0
	for _, d := range c.Damage {
		if pred(d) {
			n++
		}
	}
	return n
}

func (c Case) writeFails() []int {
	var w []int
	for i, d := range c.Damage {
		if d.Kind == WFail {
			w = append(w, i)
		}
	}
	return w
}

func (c Case) foreignSameLen() bool { return shardLen(c.OtherSize, c.D) == shardLen(c.Size, c.D) }

// absent: the reader gets no usable bytes (and so no metadata) for this shard. Since the fix
// 6ce493d2 a file shorter than the 17-byte metadata is treated exactly like an unreadable one.
func absent(d Dmg) bool { return d.Kind == Missing || d.Kind == WFail || d.Kind == TruncLow }

// payloadAltered: the shard is present with 17 metadata bytes, but its payload is not the
// one that was written (so the set no longer verifies).
func (c Case) payloadAltered(d Dmg) bool {
	return d.Kind == TruncMeta || d.Kind == FlipPayload || (d.Kind == Foreign && c.foreignSameLen())
}

// unequalLen: the shard is present with a payload length different from its siblings'.
func (c Case) unequalLen(d Dmg) bool {
	return d.Kind == TruncHigh || (d.Kind == Foreign && !c.foreignSameLen())
}

func (c Case) firstPresent() int {
	for i, d := range c.Damage {
		if !absent(d) {
			return i
		}
	}
	return -1
}

// ---- classes of the expected findings (exact signatures) ----

const (
	slugEmpty     = "empty-blob"
	slugShort     = "short-shard-panic" // fixed in /repo (6ce493d2): never excluded, regression test always on
	slugUnequal   = "unequal-shard-length"
	slugForeign   = "foreign-shard"
	slugTwin      = "consistent-corruption-undetected"
	slugDegraded  = "degraded-read-unchecked-survivor"
	slugNilMeta   = "missing-plus-corrupt-panic"
	slugPadByte   = "pad-byte-unprotected"
	slugMetaNoFix = "metadata-damage-not-repaired" // C26
)

func (c Case) hitsUnequal() bool {
	return c.count(func(d Dmg) bool { return d.Kind == TruncHigh }) > 0
}
func (c Case) hitsForeign() bool {
	return c.count(func(d Dmg) bool { return d.Kind == Foreign }) > 0
}

// anyUnequalLen: some present shard has another payload length (reedsolomon's ErrShardSize
// pre-empts everything else on the read path).
func (c Case) anyUnequalLen() bool { return c.count(c.unequalLen) > 0 }

// hitsNilMeta: an absent shard, and after filling it in the set still does not verify, so
// the checksum pass runs over the absent shard's nil metadata. (Over-approximation: also
// taken when fewer than d non-empty shards remain, where the read fails cleanly.)
func (c Case) hitsNilMeta() bool {
	a := c.count(absent)
	return a >= 1 && c.count(c.payloadAltered) >= 1 && c.N()-a >= c.D && !c.anyUnequalLen() &&
		!c.hitsConsistentWrong()
}

// otherContent is the blob a Foreign shard is taken from (same rule in the worker).
func (c Case) otherContent() []byte {
	seed := c.OtherSeed
	if c.ContentKind == 2 && seed == c.Seed {
		seed++
	}
	return content(2, seed, c.OtherSize)
}

func rsEncode(enc reedsolomon.Encoder, blob []byte) [][]byte {
	sh, err := enc.Split(append([]byte(nil), blob...))
	if err != nil {
		return nil
	}
	if enc.Encode(sh) != nil {
		return nil
	}
	for i := range sh {
		sh[i] = append([]byte(nil), sh[i]...)
	}
	return sh
}

// hitsConsistentWrong is the signature of the findings "parity verifies, checksums are never
// looked at": the payloads of the shards that are present form (alone: slugTwin, or after
// filling in the absent ones: slugDegraded) a valid codeword that is NOT the stored blob's.
// Computed with the reedsolomon library directly (generator-side classification only, never
// the oracle). A shard cut to its metadata keeps the set from verifying, so it is not in
// this class.
func (c Case) hitsConsistentWrong() bool {
	if c.Size == 0 || c.anyUnequalLen() || c.count(func(d Dmg) bool { return d.Kind == TruncMeta }) > 0 {
		return false
	}
	if c.Twin == nil && c.count(func(d Dmg) bool { return d.Kind == FlipPayload || d.Kind == Foreign }) == 0 {
		return false
	}
	enc, err := reedsolomon.New(c.D, c.P)
	if err != nil {
		return false
	}
	blob := content(c.ContentKind, c.Seed, c.Size)
	orig := rsEncode(enc, blob)
	if orig == nil {
		return false
	}
	cur := make([][]byte, len(orig))
	for i := range orig {
		cur[i] = append([]byte(nil), orig[i]...)
	}
	if c.Twin != nil {
		tb := append([]byte(nil), blob...)
		tb[c.Twin.Pos] ^= byte(c.Twin.Mask)
		cur = rsEncode(enc, tb)
	}
	var other [][]byte
	present := 0
	for i, dm := range c.Damage {
		switch dm.Kind {
		case Missing, WFail, TruncLow:
			cur[i] = nil
		case FlipPayload:
			cur[i][dm.Off] ^= byte(dm.Mask)
		case Foreign:
			if other == nil {
				other = rsEncode(enc, c.otherContent())
			}
			cur[i] = other[i]
		}
		if cur[i] != nil {
			present++
		}
	}
	if present < c.D || enc.Reconstruct(cur) != nil {
		return false
	}
	if ok, _ := enc.Verify(cur); !ok {
		return false
	}
	for i := 0; i < c.D; i++ {
		if !bytes.Equal(cur[i], orig[i]) {
			return true
		}
	}
	return false
}

func (c Case) consistentWrongSlug() string {
	if c.count(absent) > 0 {
		return slugDegraded
	}
	return slugTwin
}

// padByteShards: shards whose pad-count byte is flipped and which may be the one the decoder
// takes the pad count from: the first shard with metadata today, the first shard that passes
// its checksum after a fix of the panics - so every lower shard is damaged in some way.
func (c Case) padByteShards() (l []int) {
	for i, d := range c.Damage {
		if d.Kind == FlipMeta && d.Off == 0 {
			l = append(l, i)
		}
		if d.Kind == Intact {
			break
		}
	}
	return
}
func (c Case) hitsPadByte() bool { return len(c.padByteShards()) > 0 }

// hitsMetaOnly: some shard's metadata (checksum bytes) is damaged and no shard has payload damage that makes the
// read verify checksums - the recorded class. With a payload-damaged shard in the same read the checksum scan runs
// and the metadata-damaged shard is rewritten too, so that combination stays in the domain.
func (c Case) hitsMetaOnly() bool {
	return c.count(func(d Dmg) bool { return d.Kind == FlipMeta }) > 0 &&
		c.count(func(d Dmg) bool { return d.Kind == FlipPayload }) == 0
}

// normalise moves a generated case out of every class that is LISTED as a known finding
// (stats.Known), by a deterministic rewrite, and counts the rewrite in the evidence. An
// unlisted class stays in the domain, so an unlisted defect is still reported as a VIOLATION.
func normalise(c *Case, rec *stats.Rec) {
	sl := shardLen(c.Size, c.D)
	if c.Size == 0 && stats.Known("C25", slugEmpty) {
		rec.Exclude(slugEmpty)
		c.Size = 1
		sl = 1
	}
	if c.Size == 0 {
		// nothing can be written, so there is nothing to damage
		for i := range c.Damage {
			c.Damage[i] = Dmg{}
		}
		c.Twin = nil
		return
	}
	if c.hitsUnequal() && stats.Known("C25", slugUnequal) {
		rec.Exclude(slugUnequal)
		for i, d := range c.Damage {
			if d.Kind == TruncHigh {
				c.Damage[i] = Dmg{Kind: TruncMeta}
			}
		}
	}
	if c.hitsForeign() && stats.Known("C25", slugForeign) {
		rec.Exclude(slugForeign)
		for i, d := range c.Damage {
			if d.Kind == Foreign {
				c.Damage[i] = Dmg{Kind: FlipPayload, Off: int(c.OtherSeed % uint64(sl)), Mask: 1 + int(c.OtherSeed>>32%255)}
			}
		}
	}
	if slug := c.consistentWrongSlug(); stats.Known("C25", slug) && c.hitsConsistentWrong() {
		rec.Exclude(slug)
		c.Twin = nil
		for i, d := range c.Damage {
			if d.Kind == FlipPayload || d.Kind == Foreign {
				c.Damage[i] = Dmg{Kind: Missing}
			}
		}
	}
	if c.hitsNilMeta() && stats.Known("C25", slugNilMeta) {
		rec.Exclude(slugNilMeta)
		for i, d := range c.Damage {
			// either the absent shards come back, or the altered ones go away as well
			// (the second keeps the number of damaged shards)
			if c.Seed&1 == 0 && absent(d) {
				c.Damage[i] = Dmg{}
			} else if c.Seed&1 == 1 && c.payloadAltered(d) {
				c.Damage[i] = Dmg{Kind: Missing}
			}
		}
	}
	if c.hitsPadByte() && stats.Known("C25", slugPadByte) {
		rec.Exclude(slugPadByte)
		for _, i := range c.padByteShards() {
			c.Damage[i].Off = 1
		}
	}
	if c.Mode == "repair" && stats.Known("C25", slugPadByte) {
		// the padding-count byte (metadata byte 0) is not covered by the shard's checksum: a flip there is never
		// noticed on any shard, so it is never repaired either (same recorded class)
		for i, d := range c.Damage {
			if d.Kind == FlipMeta && d.Off == 0 {
				rec.Exclude(slugPadByte)
				c.Damage[i].Off = 1
			}
		}
	}
	// last, because the rewrites above can remove the payload damage that made a metadata-damaged shard repairable
	if c.Mode == "repair" && c.hitsMetaOnly() && stats.Known("C26", slugMetaNoFix) {
		rec.Exclude(slugMetaNoFix)
		for i, d := range c.Damage {
			if d.Kind == FlipMeta {
				c.Damage[i] = Dmg{Kind: Missing}
			}
		}
	}
}

// ---- generators ----

func genShape(t *rapid.T) (d, p, size int) {
	d = rapid.IntRange(1, 4).Draw(t, "d")
	p = rapid.IntRange(1, 3).Draw(t, "p")
	switch rapid.SampledFrom([]int{0, 1, 1, 2, 3, 3, 4, 4, 4, 5, 5, 5, 6, 6, 7, 8}).Draw(t, "sizeKind") {
	case 0:
		size = 0
	case 1: // smaller than the number of data shards
		if d > 1 {
			size = rapid.IntRange(1, d-1).Draw(t, "size")
		} else {
			size = 1
		}
	case 2:
		size = d
	case 3: // exact multiple
		size = d * rapid.IntRange(1, 64).Draw(t, "mult")
	case 4: // not divisible
		size = d * rapid.IntRange(1, 64).Draw(t, "mult")
		if d > 1 {
			size += rapid.IntRange(1, d-1).Draw(t, "rem")
		} else {
			size++
		}
	case 5:
		size = rapid.IntRange(1, 64).Draw(t, "size")
	case 6:
		size = rapid.IntRange(65, 4096).Draw(t, "size")
	case 7:
		size = rapid.IntRange(4097, 65536).Draw(t, "size")
	case 8:
		size = 65536 - rapid.IntRange(0, 4).Draw(t, "below64k")
	}
	return
}

func genDmg(t *rapid.T, c *Case, kinds []Kind, i int) Dmg {
	sl := shardLen(c.Size, c.D)
	k := rapid.SampledFrom(kinds).Draw(t, fmt.Sprintf("kind%d", i))
	switch k {
	case TruncLow:
		return Dmg{Kind: k, T: rapid.IntRange(0, metaSize-1).Draw(t, "t")}
	case TruncHigh:
		if sl < 2 {
			return Dmg{Kind: TruncMeta}
		}
		return Dmg{Kind: k, T: rapid.IntRange(metaSize+1, metaSize+sl-1).Draw(t, "t")}
	case FlipPayload:
		return Dmg{Kind: k, Off: rapid.IntRange(0, sl-1).Draw(t, "off"), Mask: rapid.IntRange(1, 255).Draw(t, "mask")}
	case FlipMeta:
		return Dmg{Kind: k, Off: rapid.IntRange(0, metaSize-1).Draw(t, "off"), Mask: rapid.IntRange(1, 255).Draw(t, "mask")}
	}
	return Dmg{Kind: k}
}

var readKinds = []Kind{Missing, Missing, WFail, TruncLow, TruncMeta, TruncHigh, FlipPayload, FlipPayload, FlipMeta, FlipMeta, Foreign}

// genCase draws a case. mode "read": any number of damaged shards (weighted around p and
// p+1); mode "repair": 1..p damaged shards; mode "write": only write failures, any number.
func genCase(t *rapid.T, mode string) Case {
	d, p, size := genShape(t)
	n := d + p
	c := Case{Mode: mode, D: d, P: p, Size: size,
		ContentKind: rapid.SampledFrom([]int{0, 1, 2, 2, 2, 3, 4}).Draw(t, "contentKind"),
		Seed:        rapid.Uint64().Draw(t, "seed"),
		ExtraCap:    rapid.SampledFrom([]int{0, 0, 1, 7, 64, 200000}).Draw(t, "extraCap"),
		Damage:      make([]Dmg, n),
	}
	if mode == "write" || rapid.IntRange(0, 3).Draw(t, "batch") == 0 {
		c.Companions = rapid.SampledFrom([]int{0, 0, 1, 2, 3, 5}).Draw(t, "companions")
		if c.Companions > 0 {
			c.Before = rapid.IntRange(0, c.Companions).Draw(t, "before")
		}
	}
	if size == 0 {
		return c
	}
	var k int
	switch mode {
	case "write":
		switch rapid.SampledFrom([]int{0, 1, 2, 2, 3, 3, 4}).Draw(t, "zone") {
		case 0:
			k = 0
		case 1:
			k = rapid.IntRange(1, p).Draw(t, "k")
		case 2:
			k = p
		case 3:
			k = p + 1
		case 4:
			k = rapid.IntRange(p+1, n).Draw(t, "k")
		}
	case "repair":
		c.Repair = true
		k = rapid.IntRange(1, p).Draw(t, "k")
	default:
		c.Repair = rapid.Bool().Draw(t, "repair")
		switch rapid.SampledFrom([]int{0, 1, 1, 2, 2, 2, 3, 3, 3, 3, 4, 4}).Draw(t, "zone") {
		case 0:
			k = 0
		case 1:
			k = rapid.IntRange(1, p).Draw(t, "k")
		case 2:
			k = p
		case 3:
			k = p + 1
		case 4:
			k = rapid.IntRange(p+1, n).Draw(t, "k")
		}
		if rapid.IntRange(0, 11).Draw(t, "twin") == 0 {
			c.Twin = &Twin{Pos: rapid.IntRange(0, size-1).Draw(t, "twinPos"), Mask: rapid.IntRange(1, 255).Draw(t, "twinMask")}
			return c
		}
	}
	idx := make([]int, n)
	for i := range idx {
		idx[i] = i
	}
	perm := rapid.Permutation(idx).Draw(t, "perm")
	kinds := readKinds
	if mode == "write" {
		kinds = []Kind{WFail}
	}
	wf := 0
	for j := 0; j < k; j++ {
		i := perm[j]
		dm := genDmg(t, &c, kinds, i)
		if dm.Kind == WFail && mode != "write" {
			wf++
			if wf > p { // the write itself has to succeed in read/repair mode
				dm = Dmg{Kind: Missing}
			}
		}
		if dm.Kind == Foreign && c.OtherSize == 0 {
			c.OtherSeed = rapid.Uint64().Draw(t, "otherSeed")
			if rapid.IntRange(0, 3).Draw(t, "otherSameSize") != 0 {
				c.OtherSize = size
			} else {
				c.OtherSize = rapid.IntRange(1, 2*size+8).Draw(t, "otherSize")
			}
		}
		c.Damage[i] = dm
	}
	return c
}

// ---- deterministic expansion of seeds ----

type splitmix uint64

func (s *splitmix) next() uint64 {
	*s += 0x9e3779b97f4a7c15
	z := uint64(*s)
	z = (z ^ (z >> 30)) * 0xbf58476d1ce4e5b9
	z = (z ^ (z >> 27)) * 0x94d049bb133111eb
	return z ^ (z >> 31)
}

func content(kind int, seed uint64, size int) []byte {
	b := make([]byte, size)
	switch kind {
	case 0:
	case 1:
		for i := range b {
			b[i] = 0xff
		}
	case 3:
		for i := range b {
			b[i] = byte(seed)
		}
	case 4:
		for i := range b {
			b[i] = byte(i % 251)
		}
	default:
		s := splitmix(seed)
		for i := 0; i < size; i += 8 {
			v := s.next()
			for j := 0; j < 8 && i+j < size; j++ {
				b[i+j] = byte(v >> (8 * j))
			}
		}
	}
	return b
}

func idFromSeed(seed uint64) (id [16]byte) {
	s := splitmix(seed ^ 0xabcdef)
	a, b := s.next(), s.next()
	for i := 0; i < 8; i++ {
		id[i] = byte(a >> (8 * i))
		id[8+i] = byte(b >> (8 * i))
	}
	// all ids share the 4-level folder prefix 0/0/0/0 so that the folders are created once
	// per worker process (the layout below the drive root is not part of C25/C26)
	id[0], id[1] = 0, 0
	return
}
