package ec

import (
	"bufio"
	"bytes"
	"context"
	"crypto/sha256"
	"encoding/hex"
	"encoding/json"
	"fmt"
	"io"
	"log/slog"
	"os"
	"os/exec"
	"path/filepath"
	"runtime/debug"
	"strings"
	"testing"
	"time"

	"github.com/sharedcode/sop"
	"github.com/sharedcode/sop/fs"
)

// Outcome is what the worker process observed; it contains no judgement.
type Outcome struct {
	HarnessErr string `json:"harness_err,omitempty"`
	// process death (filled by the parent)
	Died   bool   `json:"died,omitempty"`
	Stderr string `json:"stderr,omitempty"`

	RefAddErr string   `json:"ref_add_err,omitempty"` // Add of the same blob with no failing drive
	AddErr    string   `json:"add_err,omitempty"`
	AddDone   bool     `json:"add_done,omitempty"`
	AddState  []string `json:"add_state,omitempty"` // write mode: shard files that are not as expected after Add
	Panic     string   `json:"panic,omitempty"`     // recovered panic on the calling goroutine, with phase
	PanicSOP  bool     `json:"panic_sop,omitempty"`

	Damaged   []bool `json:"damaged,omitempty"`    // file differs from / is missing w.r.t. the fresh image, before the read
	TwinCount int    `json:"twin_count,omitempty"` // shards changed by the twin pattern

	GetDone  bool   `json:"get_done,omitempty"`
	GetErr   string `json:"get_err,omitempty"`
	GotEqual bool   `json:"got_equal,omitempty"`
	GotOther bool   `json:"got_other,omitempty"` // exactly the foreign / twin blob
	GotLen   int    `json:"got_len,omitempty"`
	GotSha   string `json:"got_sha,omitempty"`
	// Second: what a second, later read returned after a successful repairing read ("" = the stored bytes again)
	Second     string `json:"second,omitempty"`
	SecondDone bool   `json:"second_done,omitempty"`

	// repair mode
	AfterRepair   []string `json:"after_repair,omitempty"` // per shard: same | missing | differs(<detail>)
	SubsetsTried  int      `json:"subsets_tried,omitempty"`
	SubsetFailure string   `json:"subset_failure,omitempty"`
}

// ---------------------------------------------------------------------------------------
// worker side (child process): executes SOP code
// ---------------------------------------------------------------------------------------

// faultIO fails WriteFile (before the real call, no effect) for paths under chosen drives.
type faultIO struct {
	fs.FileIO
	failPrefix []string
}

func (f faultIO) WriteFile(ctx context.Context, name string, data []byte, perm os.FileMode) error {
	for _, p := range f.failPrefix {
		if strings.HasPrefix(name, p) {
			return fmt.Errorf("injected write failure on %s", name)
		}
	}
	return f.FileIO.WriteFile(ctx, name, data, perm)
}

const table = "blobs"

func shardPath(drive string, id sop.UUID, i int) string {
	return filepath.Join(fs.DefaultToFilePath(filepath.Join(drive, table), id), fmt.Sprintf("%s_%d", id.String(), i))
}

func newStore(d, p int, drives []string, repair bool, io fs.FileIO) (sop.BlobStore, error) {
	cfg := map[string]sop.ErasureCodingConfig{
		table: {DataShardsCount: d, ParityShardsCount: p, BaseFolderPathsAcrossDrives: drives, RepairCorruptedShards: repair},
	}
	return fs.NewBlobStoreWithEC(nil, io, cfg)
}

func addBlob(ctx context.Context, bs sop.BlobStore, id sop.UUID, data []byte) error {
	return bs.Add(ctx, []sop.BlobsPayload[sop.KeyValuePair[sop.UUID, []byte]]{
		{BlobTable: table, Blobs: []sop.KeyValuePair[sop.UUID, []byte]{{Key: id, Value: data}}},
	})
}

func readImages(drives []string, id sop.UUID) ([][]byte, error) {
	out := make([][]byte, len(drives))
	for i, dr := range drives {
		b, err := os.ReadFile(shardPath(dr, id, i))
		if err != nil {
			return nil, err
		}
		out[i] = b
	}
	return out, nil
}

func sha(b []byte) string {
	h := sha256.Sum256(b)
	return hex.EncodeToString(h[:8])
}

// runCase executes one case against the real blob store on a private temp directory.
func runCase(c Case) (out Outcome) {
	phase := "setup"
	defer func() {
		if r := recover(); r != nil {
			st := string(debug.Stack())
			out.Panic = fmt.Sprintf("phase=%s: %v", phase, r)
			// a panic raised below an SOP frame is SOP's; anything else is the harness
			i := strings.Index(st, "github.com/sharedcode/sop/fs")
			j := strings.Index(st, "ec.runCase(")
			out.PanicSOP = i >= 0 && (j < 0 || i < j)
			if !out.PanicSOP {
				out.HarnessErr = "HARNESS-ERROR: panic in harness code: " + out.Panic + "\n" + st
			}
		}
	}()
	herr := func(f string, a ...any) Outcome {
		out.HarnessErr = "HARNESS-ERROR: " + fmt.Sprintf(f, a...)
		return out
	}
	ctx := context.Background()
	n := c.N()
	if len(c.Damage) != n {
		return herr("damage list has %d entries for %d shards", len(c.Damage), n)
	}
	// The drive roots live as long as the worker process (mkdir is the dominant cost on this
	// filesystem); the case's files are removed when the case ends, and ids are per case.
	root := os.Getenv("VERIF_EC_ROOT")
	if root == "" {
		var err error
		if root, err = os.MkdirTemp("", "ec-case-"); err != nil {
			return herr("mkdtemp: %v", err)
		}
		defer os.RemoveAll(root)
	}
	drives := make([]string, n)
	refDrives := make([]string, n)
	for i := 0; i < n; i++ {
		// the drive roots exist (mounted drives); everything below is created by SOP
		drives[i] = filepath.Join(root, fmt.Sprintf("n%d-w%d", n, i))
		refDrives[i] = filepath.Join(root, fmt.Sprintf("n%d-r%d", n, i))
		if err := os.MkdirAll(drives[i], 0o755); err != nil {
			return herr("mkdir: %v", err)
		}
		if err := os.MkdirAll(refDrives[i], 0o755); err != nil {
			return herr("mkdir: %v", err)
		}
	}
	blob := content(c.ContentKind, c.Seed, c.Size)
	id := sop.UUID(idFromSeed(c.Seed))
	otherID := sop.UUID(idFromSeed(c.Seed ^ 0x5555aaaa5555aaaa))
	defer func() {
		for i := 0; i < n; i++ {
			os.Remove(shardPath(drives[i], id, i))
			os.Remove(shardPath(refDrives[i], id, i))
			os.Remove(shardPath(refDrives[i], otherID, i))
		}
	}()

	// -- reference: what a fresh Add of this blob writes when every drive works
	phase = "ref-add"
	refStore, err := newStore(c.D, c.P, refDrives, false, fs.NewFileIO())
	if err != nil {
		return herr("NewBlobStoreWithEC: %v", err)
	}
	if err := addBlob(ctx, refStore, id, append([]byte(nil), blob...)); err != nil {
		out.RefAddErr = err.Error()
		return out
	}
	ref, err := readImages(refDrives, id)
	if err != nil {
		out.RefAddErr = "Add returned nil but a shard file is unreadable: " + err.Error()
		return out
	}
	var other [][]byte
	var otherBlob []byte
	needOther := c.Twin != nil || c.count(func(d Dmg) bool { return d.Kind == Foreign }) > 0
	if needOther {
		if c.Twin != nil {
			if c.Twin.Pos >= len(blob) || c.Twin.Mask&0xff == 0 {
				return herr("twin out of range")
			}
			otherBlob = append([]byte(nil), blob...)
			otherBlob[c.Twin.Pos] ^= byte(c.Twin.Mask)
		} else {
			if c.OtherSize < 1 {
				return herr("foreign shard without another blob")
			}
			otherBlob = c.otherContent()
		}
		if err := addBlob(ctx, refStore, otherID, append([]byte(nil), otherBlob...)); err != nil {
			return herr("Add of the other blob: %v", err)
		}
		if other, err = readImages(refDrives, otherID); err != nil {
			return herr("other images: %v", err)
		}
	}

	// -- the write under test
	phase = "add"
	var failPrefix []string
	for _, i := range c.writeFails() {
		failPrefix = append(failPrefix, drives[i]+string(os.PathSeparator))
	}
	wStore, err := newStore(c.D, c.P, drives, false, faultIO{FileIO: fs.NewFileIO(), failPrefix: failPrefix})
	if err != nil {
		return herr("NewBlobStoreWithEC: %v", err)
	}
	arg := make([]byte, len(blob), len(blob)+c.ExtraCap)
	copy(arg, blob)
	spare := arg[len(arg):cap(arg)]
	for i := range spare {
		spare[i] = 0xEE // garbage behind the slice: Split may use the spare capacity
	}
	if c.Companions == 0 {
		if err := addBlob(ctx, wStore, id, arg); err != nil {
			out.AddErr = err.Error()
		}
	} else {
		// one Add call with several blobs of the table
		var blobs []sop.KeyValuePair[sop.UUID, []byte]
		for j := 0; j < c.Companions; j++ {
			cid := sop.UUID(idFromSeed(c.Seed ^ (0x9e3779b97f4a7c15 * uint64(j+1))))
			cb := content(2, c.Seed+uint64(j)+1, 1+(c.Size+7*j)%977)
			defer func() {
				for i := 0; i < n; i++ {
					os.Remove(shardPath(drives[i], cid, i))
				}
			}()
			if j == c.Before {
				blobs = append(blobs, sop.KeyValuePair[sop.UUID, []byte]{Key: id, Value: arg})
			}
			blobs = append(blobs, sop.KeyValuePair[sop.UUID, []byte]{Key: cid, Value: cb})
		}
		if c.Before >= c.Companions {
			blobs = append(blobs, sop.KeyValuePair[sop.UUID, []byte]{Key: id, Value: arg})
		}
		if err := wStore.Add(ctx, []sop.BlobsPayload[sop.KeyValuePair[sop.UUID, []byte]]{{BlobTable: table, Blobs: blobs}}); err != nil {
			out.AddErr = err.Error()
		}
	}
	out.AddDone = true
	if out.AddErr != "" {
		return out
	}

	// -- damage
	phase = "damage"
	for i, dm := range c.Damage {
		fn := shardPath(drives[i], id, i)
		switch dm.Kind {
		case Intact, WFail:
		case Missing:
			if err := os.Remove(fn); err != nil {
				return herr("remove: %v", err)
			}
		case TruncLow, TruncHigh, TruncMeta:
			t := dm.T
			if dm.Kind == TruncMeta {
				t = metaSize
			}
			if t < 0 || t >= len(ref[i]) {
				return herr("truncate to %d of %d", t, len(ref[i]))
			}
			if err := os.Truncate(fn, int64(t)); err != nil {
				return herr("truncate: %v", err)
			}
		case FlipPayload, FlipMeta:
			off := dm.Off
			if dm.Kind == FlipPayload {
				off += metaSize
			} else if off >= metaSize {
				return herr("metadata offset %d", off)
			}
			if off >= len(ref[i]) || dm.Mask&0xff == 0 {
				return herr("flip at %d of %d mask %d", off, len(ref[i]), dm.Mask)
			}
			b := append([]byte(nil), ref[i]...)
			b[off] ^= byte(dm.Mask)
			if err := os.WriteFile(fn, b, 0o644); err != nil {
				return herr("write: %v", err)
			}
		case Foreign:
			if err := os.WriteFile(fn, other[i], 0o644); err != nil {
				return herr("write: %v", err)
			}
		}
	}
	if c.Twin != nil {
		for i := range ref {
			if len(other[i]) != len(ref[i]) {
				return herr("twin shard length")
			}
			if bytes.Equal(other[i][metaSize:], ref[i][metaSize:]) {
				continue
			}
			diff := 0
			for j := metaSize; j < len(ref[i]); j++ {
				if other[i][j] != ref[i][j] {
					diff++
				}
			}
			if diff != 1 {
				return herr("twin shard %d differs in %d payload bytes", i, diff)
			}
			b := append(append([]byte(nil), ref[i][:metaSize]...), other[i][metaSize:]...)
			if err := os.WriteFile(shardPath(drives[i], id, i), b, 0o644); err != nil {
				return herr("write: %v", err)
			}
			out.TwinCount++
		}
	}
	out.Damaged = make([]bool, n)
	for i := range ref {
		b, err := os.ReadFile(shardPath(drives[i], id, i))
		out.Damaged[i] = err != nil || !bytes.Equal(b, ref[i])
	}
	if c.Mode == "write" {
		// after a tolerated write the only damage is the shards that were never written
		for i, dm := range c.Damage {
			if out.Damaged[i] != (dm.Kind == WFail) {
				out.AddState = append(out.AddState, fmt.Sprintf("shard %d after Add: damaged=%v", i, out.Damaged[i]))
			}
		}
	}

	// -- the read under test
	phase = "get"
	rStore, err := newStore(c.D, c.P, drives, c.Repair, fs.NewFileIO())
	if err != nil {
		return herr("NewBlobStoreWithEC: %v", err)
	}
	got, err := rStore.GetOne(ctx, table, id)
	out.GetDone = true
	if err != nil {
		out.GetErr = err.Error()
		if got != nil {
			out.GetErr += fmt.Sprintf(" (and %d bytes)", len(got))
		}
	} else {
		out.GotEqual = bytes.Equal(got, blob)
		out.GotOther = otherBlob != nil && bytes.Equal(got, otherBlob)
		out.GotLen = len(got)
		out.GotSha = sha(got)
	}
	if c.Repair && err == nil && out.GotEqual {
		// a later reader (new store object) of the blob the first read may just have repaired
		phase = "get2"
		r2, err := newStore(c.D, c.P, drives, false, fs.NewFileIO())
		if err != nil {
			return herr("NewBlobStoreWithEC: %v", err)
		}
		got2, err2 := r2.GetOne(ctx, table, id)
		out.SecondDone = true
		switch {
		case err2 != nil:
			out.Second = "error " + err2.Error()
		case !bytes.Equal(got2, blob):
			out.Second = fmt.Sprintf("%d different bytes (stored: %d)", len(got2), len(blob))
		}
	}
	if c.Mode != "repair" || err != nil || !out.GotEqual {
		return out
	}

	// -- repair: every shard file as a fresh Add writes it, then any p shards may go
	phase = "after-repair"
	out.AfterRepair = make([]string, n)
	allSame := true
	for i := range ref {
		b, err := os.ReadFile(shardPath(drives[i], id, i))
		switch {
		case err != nil:
			out.AfterRepair[i] = "missing"
			allSame = false
		case bytes.Equal(b, ref[i]):
			out.AfterRepair[i] = "same"
		default:
			k := 0
			for k < len(b) && k < len(ref[i]) && b[k] == ref[i][k] {
				k++
			}
			out.AfterRepair[i] = fmt.Sprintf("differs(len %d want %d, first difference at byte %d)", len(b), len(ref[i]), k)
			allSame = false
		}
	}
	if !allSame {
		return out
	}
	phase = "subsets"
	plain, err := newStore(c.D, c.P, drives, false, fs.NewFileIO())
	if err != nil {
		return herr("NewBlobStoreWithEC: %v", err)
	}
	sub := make([]int, c.P)
	var rec func(start, depth int) bool
	rec = func(start, depth int) bool {
		if depth == c.P {
			for _, i := range sub {
				if err := os.Remove(shardPath(drives[i], id, i)); err != nil {
					out.HarnessErr = "HARNESS-ERROR: remove: " + err.Error()
					return false
				}
			}
			out.SubsetsTried++
			got, err := plain.GetOne(ctx, table, id)
			if err != nil {
				out.SubsetFailure = fmt.Sprintf("after destroying shards %v: error %v", sub, err)
				return false
			}
			if !bytes.Equal(got, blob) {
				out.SubsetFailure = fmt.Sprintf("after destroying shards %v: %d different bytes (sha %s)", sub, len(got), sha(got))
				return false
			}
			for _, i := range sub {
				if err := os.WriteFile(shardPath(drives[i], id, i), ref[i], 0o644); err != nil {
					out.HarnessErr = "HARNESS-ERROR: restore: " + err.Error()
					return false
				}
			}
			return true
		}
		for i := start; i < n; i++ {
			sub[depth] = i
			if !rec(i+1, depth+1) {
				return false
			}
		}
		return true
	}
	rec(0, 0)
	return out
}

// TestWorker is the child-process entry point: cases come in as JSON lines on fd 3,
// outcomes go out as JSON lines on fd 4. SOP spawns goroutines; a panic in one of them kills
// this process, which the parent observes as EOF and reports as a violation.
func TestWorker(t *testing.T) {
	if os.Getenv("VERIF_EC_WORKER") != "1" {
		t.Skip("worker entry point (child process only)")
	}
	slog.SetDefault(slog.New(slog.NewTextHandler(io.Discard, nil)))
	in := bufio.NewReaderSize(os.NewFile(3, "req"), 1<<20)
	outF := os.NewFile(4, "resp")
	for {
		line, err := in.ReadBytes('\n')
		if len(line) > 0 {
			var c Case
			var o Outcome
			if jerr := json.Unmarshal(line, &c); jerr != nil {
				o.HarnessErr = "HARNESS-ERROR: bad job: " + jerr.Error()
			} else {
				o = runCase(c)
			}
			b, _ := json.Marshal(o)
			if _, werr := outF.Write(append(b, '\n')); werr != nil {
				return
			}
		}
		if err != nil {
			return
		}
	}
}

// ---------------------------------------------------------------------------------------
// parent side
// ---------------------------------------------------------------------------------------

type workerProc struct {
	cmd     *exec.Cmd
	req     *os.File
	resp    *os.File
	rd      *bufio.Reader
	errPath string
	root    string
}

var theWorker *workerProc

func startWorker() (*workerProc, error) {
	reqR, reqW, err := os.Pipe()
	if err != nil {
		return nil, err
	}
	respR, respW, err := os.Pipe()
	if err != nil {
		return nil, err
	}
	ef, err := os.CreateTemp("", "ec-worker-*.log")
	if err != nil {
		return nil, err
	}
	cmd := exec.Command(os.Args[0], "-test.run=^TestWorker$", "-test.timeout=0", "-test.v")
	cmd.Stdout, cmd.Stderr = ef, ef
	cmd.ExtraFiles = []*os.File{reqR, respW}
	for _, kv := range os.Environ() {
		if strings.HasPrefix(kv, "VERIF_STATS=") || strings.HasPrefix(kv, "VERIF_EC_WORKER=") || strings.HasPrefix(kv, "VERIF_EC_ROOT=") {
			continue
		}
		cmd.Env = append(cmd.Env, kv)
	}
	root, err := os.MkdirTemp("", "ec-worker-")
	if err != nil {
		return nil, err
	}
	cmd.Env = append(cmd.Env, "VERIF_EC_WORKER=1", "VERIF_EC_ROOT="+root, "GOTRACEBACK=all")
	if err := cmd.Start(); err != nil {
		return nil, err
	}
	reqR.Close()
	respW.Close()
	ef.Close()
	return &workerProc{cmd: cmd, req: reqW, resp: respR, rd: bufio.NewReaderSize(respR, 1<<20), errPath: ef.Name(), root: root}, nil
}

func (w *workerProc) close() {
	w.req.Close()
	done := make(chan struct{})
	go func() { w.cmd.Wait(); close(done) }()
	select {
	case <-done:
	case <-time.After(5 * time.Second):
		w.cmd.Process.Kill()
		<-done
	}
	w.resp.Close()
	os.Remove(w.errPath)
	os.RemoveAll(w.root)
}

func stopWorker() {
	if theWorker != nil {
		theWorker.close()
		theWorker = nil
	}
}

func tailOf(path string, n int) string {
	b, _ := os.ReadFile(path)
	// keep the head of the panic report (message + the panicking goroutine), not all goroutines
	if i := bytes.Index(b, []byte("panic:")); i >= 0 {
		b = b[i:]
		if j := bytes.Index(b, []byte("\n\ngoroutine ")); j >= 0 {
			if k := bytes.Index(b[j+2:], []byte("\n\n")); k >= 0 {
				b = b[:j+2+k]
			}
		}
	}
	if len(b) > n {
		b = b[:n]
	}
	return string(b)
}

// execCase runs c in the worker process. The case is journalled to ./journal.json first, so
// that even a death of this very process leaves the case behind.
func execCase(c Case) Outcome {
	line, _ := json.Marshal(c)
	_ = os.WriteFile("journal.json", line, 0o644)
	if theWorker == nil {
		w, err := startWorker()
		if err != nil {
			return Outcome{HarnessErr: "HARNESS-ERROR: cannot start worker: " + err.Error()}
		}
		theWorker = w
	}
	w := theWorker
	if _, err := w.req.Write(append(line, '\n')); err != nil {
		// the worker died between cases (it never does on its own): restart once
		stopWorker()
		return Outcome{HarnessErr: "HARNESS-ERROR: worker pipe closed before the case was sent: " + err.Error()}
	}
	_ = w.resp.SetReadDeadline(time.Now().Add(180 * time.Second))
	resp, err := w.rd.ReadBytes('\n')
	if err != nil {
		timedOut := os.IsTimeout(err)
		if timedOut {
			w.cmd.Process.Kill()
		}
		werr := w.cmd.Wait()
		o := Outcome{Died: !timedOut, Stderr: fmt.Sprintf("worker exit: %v\n%s", werr, tailOf(w.errPath, 2000))}
		if timedOut {
			o.HarnessErr = "HARNESS-ERROR: worker did not answer within 180 s (killed)\n" + o.Stderr
		}
		w.req.Close()
		w.resp.Close()
		os.Remove(w.errPath)
		os.RemoveAll(w.root)
		theWorker = nil
		return o
	}
	var o Outcome
	if err := json.Unmarshal(resp, &o); err != nil {
		return Outcome{HarnessErr: "HARNESS-ERROR: bad answer from worker: " + err.Error()}
	}
	return o
}
