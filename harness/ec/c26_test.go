package ec

import (
	"testing"

	"pgregory.net/rapid"

	"verif/harness/stats"
)

const c26Rule = "non-trivial = at least one shard file actually damaged before the repairing read (label mixedKinds: at least two kinds); " +
	"a case counts only when the repairing GetOne succeeded; distinct by the rendered case"

var c26Assumptions = []string{
	"RepairCorruptedShards is on for the reading store only; the write uses a store whose FileIO fails WriteFile for the chosen drives",
	"'intact' is decided byte-for-byte against the files a fresh Add of the same blob writes on healthy drives",
	"'tolerates p new failures' is checked by deleting every subset of p shard files in turn (repair off) and reading",
	"cases whose repairing read fails, crashes or returns other bytes are C25 violations and are discarded here (counted)",
}

// TestC26_Repair: 1..p damaged shards, RepairCorruptedShards on; after one successful GetOne
// every shard file must equal the fresh image and every p-subset may be destroyed.
func TestC26_Repair(t *testing.T) {
	rec := stats.For("C26").Meta("exploration", c26Rule, c26Assumptions...)
	rapid.Check(t, func(t *rapid.T) {
		c := genCase(t, "repair")
		normalise(&c, rec)
		v := evaluate(t, rec, "C26", "TestC26_Repair", c)
		if v.discard == "" && v.nontrivial {
			rec.Sample("repair", c.String())
		}
	})
}

func TestC26_Known_MetadataDamageNotRepaired(t *testing.T) {
	knownTest(t, "C26", slugMetaNoFix, "not every shard file equals",
		Case{Mode: "repair", Repair: true, D: 1, P: 1, Size: 1, Damage: dmgList(2, map[int]Dmg{1: {Kind: FlipMeta, Off: 5, Mask: 1}})},
		Case{Mode: "repair", Repair: true, D: 2, P: 2, Size: 100, ContentKind: 2, Seed: 7, Damage: dmgList(4, map[int]Dmg{1: {Kind: FlipMeta, Off: 0, Mask: 1}, 3: {Kind: Missing}})})
}
