package ec

import (
	"os"
	"testing"

	"verif/harness/stats"
)

func TestMain(m *testing.M) {
	code := m.Run()
	stopWorker()
	stats.Flush()
	os.Exit(code)
}
