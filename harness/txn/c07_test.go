package txn

import (
	"fmt"
	"os"
	"strings"
	"testing"

	"github.com/sharedcode/sop"
	"pgregory.net/rapid"

	"verif/harness/stats"
	"verif/harness/txh"
)

var faultGen = txh.GenOpts{KeyDomain: 8, MaxOps: 8, MaxTxns: 4, BigValues: false, Rollbacks: false, Placements: []int{0, 0, 1, 2, 3, 4}, MaxStores: 2}

// genFaultHistory draws a history whose last transaction is a committing writer (the victim).
// genRestructuringHistory: a store with slot length 2 and 6-12 keys; the victim removes a run of adjacent keys
// (leaves get emptied: removed nodes) AND adds a run of new keys next to each other (splits: added nodes), plus
// maybe an update - so that its commit goes through every kind of node step.
func genRestructuringHistory(t *rapid.T) txh.History {
	h := txh.History{HashMod: rapid.SampledFrom([]int{1, 3, 16}).Draw(t, "hashMod"), UUIDSeed: rapid.Uint64().Draw(t, "uuidSeed"),
		Stores: []txh.StoreOpts{{Name: "st0", Slot: rapid.SampledFrom([]int{2, 2, 4}).Draw(t, "slot"), Unique: true, Placement: rapid.SampledFrom([]int{0, 0, 1, 3, 4}).Draw(t, "placement")}}}
	nk := rapid.IntRange(6, 12).Draw(t, "keys")
	var seed []txh.Op
	for k := 0; k < nk; k++ {
		seed = append(seed, txh.Op{Kind: "add", K: 10 * k, Tag: fmt.Sprintf("s%d", k), Size: 1})
	}
	h.Txns = append(h.Txns, txh.TxnProg{Mode: sop.ForWriting, End: "commit", Ops: seed})
	var ops []txh.Op
	from := rapid.IntRange(0, nk-3).Draw(t, "from")
	to := rapid.IntRange(from+1, nk-1).Draw(t, "to")
	for k := from; k <= to; k++ {
		ops = append(ops, txh.Op{Kind: "remove", K: 10 * k})
	}
	base := 10*rapid.IntRange(0, nk-1).Draw(t, "addNear") + 1
	for i, n := 0, rapid.IntRange(2, 6).Draw(t, "adds"); i < n; i++ {
		ops = append(ops, txh.Op{Kind: "add", K: base + i, Tag: fmt.Sprintf("v.add%d", i), Size: 10})
	}
	if to < nk-1 && rapid.Bool().Draw(t, "alsoUpdate") {
		ops = append(ops, txh.Op{Kind: "update", K: 10 * (nk - 1), Tag: "v.upd", Size: 10})
	}
	if rapid.Bool().Draw(t, "addsFirst") {
		for i, j := 0, len(ops)-1; i < j; i, j = i+1, j-1 {
			ops[i], ops[j] = ops[j], ops[i]
		}
	}
	h.Txns = append(h.Txns, txh.TxnProg{Mode: sop.ForWriting, End: "commit", Ops: ops})
	return h
}

// genMultiStoreValuesHistory: 2-3 stores that keep values outside the node (separate segment or actively persisted,
// cached or not); the victim adds and updates items in each of them, so that its commit writes value blobs store by
// store and a failure can fall between two stores.
func genMultiStoreValuesHistory(t *rapid.T) txh.History {
	h := txh.History{HashMod: rapid.SampledFrom([]int{1, 3}).Draw(t, "hashMod"), UUIDSeed: rapid.Uint64().Draw(t, "uuidSeed")}
	ns := rapid.IntRange(2, 3).Draw(t, "stores")
	var seed, ops []txh.Op
	for i := 0; i < ns; i++ {
		h.Stores = append(h.Stores, txh.StoreOpts{Name: fmt.Sprintf("st%d", i), Slot: rapid.SampledFrom([]int{4, 8}).Draw(t, "slot"), Unique: true,
			Placement: rapid.SampledFrom([]int{1, 1, 2, 3, 4}).Draw(t, "placement")})
		seed = append(seed, txh.Op{S: i, Kind: "add", K: 1, Tag: fmt.Sprintf("s%d", i), Size: 1})
		for j, n := 0, rapid.IntRange(1, 2).Draw(t, fmt.Sprintf("adds%d", i)); j < n; j++ {
			ops = append(ops, txh.Op{S: i, Kind: "add", K: 10 + j, Tag: fmt.Sprintf("v%d.%d", i, j), Size: 10})
		}
		if rapid.Bool().Draw(t, fmt.Sprintf("upd%d", i)) {
			ops = append(ops, txh.Op{S: i, Kind: "update", K: 1, Tag: fmt.Sprintf("u%d", i), Size: 10})
		}
	}
	h.Txns = []txh.TxnProg{{Mode: sop.ForWriting, End: "commit", Ops: seed}, {Mode: sop.ForWriting, End: "commit", Ops: ops}}
	return h
}

func genFaultHistory(t *rapid.T, g txh.GenOpts) txh.History {
	switch rapid.IntRange(0, 5).Draw(t, "victimTemplate") {
	case 0:
		return genRestructuringHistory(t)
	case 1:
		return genMultiStoreValuesHistory(t)
	}
	h := txh.GenHistory(t, g)
	last := &h.Txns[len(h.Txns)-1]
	last.Mode = sop.ForWriting
	last.End = "commit"
	return h
}

// TestC07_EverySite: for a generated shape (committed prefix + victim), fail every backend call the
// victim's Commit makes, one at a time (errors; for lock calls also the non-error "false").
func TestC07_EverySite(t *testing.T) { everySite(t, "C07") }

// TestC11_AfterFailedCommits: the same fault enumeration judged for C11: once a failed commit has rolled back, no
// blob, registry entry or log file of it is left behind.
func TestC11_AfterFailedCommits(t *testing.T) { everySite(t, "C11") }

// censusSite: the call the current plan fails (read by the C11 census).
var censusSite string

func everySite(t *testing.T, prop string) {
	if prop == "C11" {
		knownOrphanValues := stats.Known("C11", "out-of-node-value-blobs-leak")
		knownStep := stats.Known("C11", "failed-commit-step-in-progress-not-undone")
		orphanCensus = func(r *txh.Reach, h txh.History, victim int) string {
			if o := r.Orphans(); len(o) > 0 && knownStep && (censusSite == "Registry.Add" || censusSite == "BlobStore.Add") {
				stats.For("C11").Exclude("the commit failed inside commitAddedNodes / commitNewRootNodes, whose partial writes stay (known finding)")
				return ""
			}
			if o := r.Orphans(); len(o) > 0 {
				if len(o) > 5 {
					o = append(o[:5], "...")
				}
				return "these are left behind: " + strings.Join(o, "; ")
			}
			if o := r.OrphanValuesOf(true); len(o) > 0 {
				return "these are left behind: " + strings.Join(o, "; ")
			}
			if o := r.OrphanValuesOf(false); len(o) > 0 {
				// the recorded leak is about COMMITTED updates of separate-segment stores: only when the committed prefix
				// contains such an update is the census of those stores skipped
				if knownOrphanValues && prefixRewritesOutOfNode(h, victim) {
					stats.For("C11").Exclude("unreferenced value blob of a separate-segment store after an earlier committed update (known finding)")
					return ""
				}
				return "these are left behind: " + strings.Join(o, "; ")
			}
			return ""
		}
		defer func() { orphanCensus = nil }()
		stats.For("C11").Meta("exploration",
			"(failed-commit part) the C07 fault enumeration - every backend call of a generated victim's Commit failed in turn - followed by the orphan census of the disk once the commit's own rollback is over: every blob file is referenced, every registry slot reachable, no log file remains; non-trivial = Commit returned an error",
			"a failed call is 'returned an error before doing anything'")
	}
	rec := stats.For(prop)
	if prop == "C07" {
		rec.Meta("fault_enumeration",
			"shape = generated committed prefix (0-3 transactions) + victim writer over 1-2 stores with any value placement; the backend calls made by the victim's Commit (registry, blob store, store repository, transaction log, priority log, L2 cache/locks as seen by the transaction manager) are counted in a fault-free dry run and then EVERY call index is failed in turn (return an error before executing; lock calls also return false), thorough adds a second fault in the ensuing rollback; oracle: Commit nil => fresh-reader dump equals post-state, else equals pre-state for every store; disk walk loads everything reachable; a new transaction making the same changes without faults commits within 6 s (no expiry waited) and the stores then equal the post-state; non-trivial = Commit returned an error; distinct by (history, site index, mode)",
			"a failed call is 'returned an error before doing anything'; calls made on phase 2's side goroutines after the commit point (replication, commit-change log, priority-log removal) are not fault sites")
	}
	pairs := stats.Tier() == "thorough"
	knownLockVerify := stats.Known("C07", "item-lock-verify-failure-leaks-locks")
	rapid.Check(t, func(t *rapid.T) {
		h := genFaultHistory(t, faultGen)
		victim := len(h.Txns) - 1
		// dry run
		e, pre, err := prepare(h, victim)
		if err != nil {
			t.Fatalf("%v\n%s", err, h.Render())
		}
		post, dry, res := runVictim(e, h, victim, pre, nil)
		if msg := judgeFault(e, h, victim, pre, post, dry, res, false); msg != "" || !dry.Committed {
			e.Cleanup()
			t.Fatalf("fault-free run: committed=%v err=%v %s\n%s", dry.Committed, dry.CommitErr, msg, h.Render())
		}
		e.Cleanup()
		n := dry.CommitCall
		shape := shapeOf(dry.Trace)
		// choose the sites: all of them (bounded per case to keep a case under ~10 s in quick)
		max := stats.Pick(60, 400)
		idx := make([]int, 0, n)
		for k := 0; k < n; k++ {
			idx = append(idx, k)
		}
		if n > max {
			start := rapid.IntRange(0, n-max).Draw(t, "siteWindowStart")
			idx = idx[start : start+max]
			rec.Label("siteWindowed")
		}
		for _, k := range idx {
			modes := []bool{false}
			if dry.Trace[k].Comp == "L2" && (dry.Trace[k].Method == "Lock" || dry.Trace[k].Method == "DualLock" || dry.Trace[k].Method == "IsLocked") {
				modes = []bool{false, true}
			}
			if knownLockVerify && dry.Trace[k].Comp == "L2" && (dry.Trace[k].Method == "GetStructs" || dry.Trace[k].Method == "SetStructs") {
				rec.Exclude("fault in the item-lock write/verify calls (known finding)")
				continue
			}
			for _, asFalse := range modes {
				plan := &faultPlan{K: k, False: asFalse, K2: -1}
				if pairs && k%3 == 0 {
					plan.K2 = rapid.IntRange(0, 12).Draw(t, fmt.Sprintf("k2.%d", k))
				}
				e, pre, err := prepare(h, victim)
				if err != nil {
					t.Fatalf("%v\n%s", err, h.Render())
				}
				censusSite = dry.Trace[k].Comp + "." + dry.Trace[k].Method
				post, out, res := runVictim(e, h, victim, pre, plan)
				msg := judgeFault(e, h, victim, pre, post, out, res, true)
				e.Cleanup()
				if msg != "" && knownStalePointer && out.CommitErr != nil && strings.Contains(out.CommitErr.Error(), "refetchAndMergeModifications failed to find item with key") && mixesShiftsAndPointers(h.Txns[victim]) {
					// a refused lock sent the commit through refetch-and-merge, where the recorded C04 finding (stale tracked
					// item pointer after an add/remove shifted the slots; depends on map order) made the merge fail half-way:
					// what the half-done merge had re-tracked is all the rollback knows about
					rec.Exclude("the commit failed inside refetch-and-merge with the signature of the recorded C04 finding (stale tracked item pointer); its leftovers are not judged")
					continue
				}
				if msg != "" && os.Getenv("VERIF_C07_COLLECT") != "" {
					fmt.Printf("COLLECT %s.%s false=%v :: %s @@ %s\n", dry.Trace[k].Comp, dry.Trace[k].Method, asFalse, firstLine(msg), h.Render())
					msg = ""
				}
				if msg != "" {
					t.Fatalf("%s\n  plan: call %d of the commit (%s), asFalse=%v k2=%d\n  %s", msg, k, dry.Trace[k], asFalse, plan.K2, h.Render())
				}
				labels := append([]string{"site:" + dry.Trace[k].Comp + "." + dry.Trace[k].Method}, shape...)
				if out.Committed {
					labels = append(labels, "toleratedFault")
				}
				if out.Site2 != "" {
					labels = append(labels, "secondFaultFired")
				}
				rec.Case(fmt.Sprintf("%s k=%d f=%v k2=%d", h.Render(), k, asFalse, plan.K2), !out.Committed, labels...)
			}
		}
		rec.Sample("shape", map[string]any{"history": h.Render(), "commit_calls": n, "sites": siteNames(dry.Trace)})
	})
}

var knownStalePointer = stats.Known("C04", "tracked-item-pointer-stale-after-slot-shift")

// mixesShiftsAndPointers: the program tracks existing items (reads, updates, cursor operations) and also adds or removes
// items, which shifts the slots those tracked pointers refer to.
func mixesShiftsAndPointers(p txh.TxnProg) bool {
	shifts, pointers := false, false
	for _, o := range p.Ops {
		switch {
		case strings.HasPrefix(o.Kind, "add") || o.Kind == "remove" || o.Kind == "curRemove" || o.Kind == "upsert" || o.Kind == "rmv":
			shifts = true
		}
		switch {
		case o.Kind == "scan" || strings.HasPrefix(o.Kind, "get") || strings.HasPrefix(o.Kind, "find") || strings.HasPrefix(o.Kind, "update") || strings.HasPrefix(o.Kind, "cur") || o.Kind == "rmw" || o.Kind == "upsert" || o.Kind == "rmv":
			pointers = true
		}
	}
	return shifts && pointers
}

func siteNames(tr []txh.Site) []string {
	var out []string
	for _, s := range tr {
		out = append(out, s.Name())
	}
	if len(out) > 80 {
		out = append(out[:80], "...")
	}
	return out
}

func firstLine(s string) string {
	if i := strings.IndexByte(s, '\n'); i >= 0 {
		s = s[:i]
	}
	if len(s) > 900 {
		s = s[:900]
	}
	return s
}

// TestC07_Known_ItemLockVerifyFailure: minimal reproduction of the recorded finding.
func TestC07_Known_ItemLockVerifyFailure(t *testing.T) {
	h := txh.History{HashMod: 5, UUIDSeed: 4, Stores: []txh.StoreOpts{{Name: "st0", Slot: 4, Unique: true, Placement: 0}},
		Txns: []txh.TxnProg{w(txh.Op{Kind: "add", K: 7, Tag: "a"}), w(txh.Op{Kind: "update", K: 7, Tag: "b"})}}
	e, pre, err := prepare(h, 1)
	if err != nil {
		t.Fatalf("%v", err)
	}
	_, dry, _ := runVictim(e, h, 1, pre, nil)
	e.Cleanup()
	k := -1
	n := 0
	for i, s := range dry.Trace {
		if s.Comp == "L2" && s.Method == "GetStructs" {
			n++
			if n == 2 { // the verifying read after the lock records were written
				k = i
			}
		}
	}
	if k < 0 {
		t.Skip("item locking no longer verifies with a second GetStructs")
	}
	e, pre, err = prepare(h, 1)
	if err != nil {
		t.Fatalf("%v", err)
	}
	defer e.Cleanup()
	post, out, res := runVictim(e, h, 1, pre, &faultPlan{K: k, K2: -1})
	msg := judgeFault(e, h, 1, pre, post, out, res, true)
	if msg == "" {
		return
	}
	what := "an L2 cache failure in the read that verifies freshly written item locks (itemActionTracker.lock) fails the commit but leaves the lock records in the cache: a later transaction updating the same item fails with 'lock(item) call detected conflict' until the records expire (commit max time)"
	if stats.Known("C07", "item-lock-verify-failure-leaks-locks") {
		stats.For("C07").KnownFinding(what)
		return
	}
	t.Fatalf("%s: %s", what, msg)
}

// prefixRewritesOutOfNode: some committed transaction before the victim updates (or upserts / cursor-updates) an
// item of a separate-segment store that is not actively persisted.
func prefixRewritesOutOfNode(h txh.History, victim int) bool {
	for i := 0; i < victim; i++ {
		p := h.Txns[i]
		if p.Mode != sop.ForWriting || p.End != "commit" {
			continue
		}
		for _, o := range p.Ops {
			pl := h.Stores[o.S].Placement
			if (pl == 1 || pl == 2) && (o.Kind == "update" || o.Kind == "upsert" || o.Kind == "curUpdate" || o.Kind == "updateKey" || o.Kind == "curUpdateKey") {
				return true
			}
		}
	}
	return false
}
