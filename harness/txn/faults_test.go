package txn

import (
	"fmt"
	"strings"
	"time"

	"github.com/sharedcode/sop"

	"verif/harness/txh"
)

// faultPlan says which backend call of the victim's Commit fails and how.
type faultPlan struct {
	K      int  // index among the calls made from the start of Commit (0-based)
	False  bool // lock calls: return false,nil instead of an error
	K2     int  // >= 0: a second fault K2 calls after the first one (lands in the rollback / retry path)
	Before int  // filled by the runner: calls made before Commit started
}

type faultOutcome struct {
	Site       string // name of the call that failed ("" if the plan never fired)
	Site2      string
	CommitErr  error
	Committed  bool
	CommitCall int // number of backend calls the commit (and its rollback) made
	Trace      []txh.Site
	PreDisk    *txh.Reach // the disk before the victim ran
}

// prepare builds an env and replays the committed prefix h.Txns[:victim] without faults.
func prepare(h txh.History, victim int) (*txh.Env, []*txh.Model, error) {
	e, err := txh.NewEnv(h.HashMod)
	if err != nil {
		return nil, nil, err
	}
	txh.SeedUUIDs(h.UUIDSeed)
	if err := e.Setup(h.Stores); err != nil {
		e.Cleanup()
		return nil, nil, fmt.Errorf("setup: %w", err)
	}
	models := make([]*txh.Model, len(h.Stores))
	for i, s := range h.Stores {
		models[i] = &txh.Model{Unique: s.Unique}
	}
	for i := 0; i < victim; i++ {
		var res txh.TxnResult
		models, res = e.RunTxn(h.Txns[i], h.Stores, models, txh.RunOpts{})
		if res.OpErr != nil || res.Mismatch != "" || res.CommitErr != nil {
			e.Cleanup()
			return nil, nil, fmt.Errorf("prefix txn %d: opErr=%v mismatch=%q commitErr=%v", i+1, res.OpErr, res.Mismatch, res.CommitErr)
		}
	}
	return e, models, nil
}

// runVictim runs h.Txns[victim] with the plan (nil = dry run) and returns the models that are
// committed afterwards plus what happened.
func runVictim(e *txh.Env, h txh.History, victim int, models []*txh.Model, plan *faultPlan) ([]*txh.Model, faultOutcome, txh.TxnResult) {
	var out faultOutcome
	var before int
	var tx *txh.Txn
	if plan != nil {
		out.PreDisk = txh.ReadDisk(e.Dir)
	}
	// a bounded commit time: a transaction blocked by something an earlier failure left behind gives up
	// after 8 s instead of spinning for the 15 minute default
	after, res := e.RunTxn(h.Txns[victim], h.Stores, models, txh.RunOpts{MaxTime: 8 * time.Second, BeforeCommit: func(t *txh.Txn) {
		tx = t
		before = t.Calls()
		if plan == nil {
			return
		}
		fired := -1
		t.SetHook(func(s txh.Site) txh.Action {
			if s.After {
				return txh.Action{}
			}
			rel := s.N - before
			if rel == plan.K && fired < 0 {
				fired = s.N
				out.Site = s.Name()
				if plan.False && s.Comp == "L2" && (s.Method == "Lock" || s.Method == "DualLock" || s.Method == "IsLocked") {
					return txh.Action{False: true}
				}
				return txh.Action{Err: txh.ErrInjected}
			}
			if plan.K2 >= 0 && fired >= 0 && out.Site2 == "" && s.N >= fired+1+plan.K2 {
				// never on a lock release (cache Unlock, or the Delete that removes item lock records): when releasing a lock fails nothing but its expiry can free it, which is
				// not something a rollback can make up for (the second fault moves on to the next call)
				if s.Comp == "L2" && (s.Method == "Unlock" || s.Method == "Delete") {
					return txh.Action{}
				}
				out.Site2 = s.Name()
				return txh.Action{Err: txh.ErrInjected}
			}
			return txh.Action{}
		})
	}})
	if tx != nil {
		tx.SetHook(nil)
		out.CommitCall = tx.Calls() - before
		out.Trace = tx.Trace[before:]
	}
	out.CommitErr = res.CommitErr
	out.Committed = res.Committed
	return after, out, res
}

// PairReaderFails counts double-fault cases after which a fresh reader failed (not asserted, see judgeFault).
var PairReaderFails int

// orphanCensus, when set (C11), is applied to the disk after a failed commit: returns what is left behind.
var orphanCensus func(r *txh.Reach, h txh.History, victim int) string

// judgeFault applies the C01/C06/C07/C10 oracle after a (possibly) failed commit. It returns a
// violation description or "".
func judgeFault(e *txh.Env, h txh.History, victim int, pre, post []*txh.Model, out faultOutcome, res txh.TxnResult, retry bool) string {
	p := h.Txns[victim]
	where := fmt.Sprintf("fault at %s", out.Site)
	if out.Site2 != "" {
		where += " then " + out.Site2
	}
	if res.OpErr != nil {
		return fmt.Sprintf("victim %s: operation failed before commit: %v", p, res.OpErr)
	}
	if res.Mismatch != "" {
		return fmt.Sprintf("victim %s: %s", p, res.Mismatch)
	}
	want := pre
	state := "unchanged (commit returned an error)"
	if out.Committed {
		want = post
		state = "committed (commit returned nil)"
	}
	d, err := e.Dump(h.Stores, sop.ForReading)
	if err != nil && out.Site2 != "" && !out.Committed {
		// pairs: the rollback itself was hit, e.g. the un-apply of the published count failed and the store now claims
		// items its (rolled back) root does not have. Not asserted; counted.
		PairReaderFails++
		return ""
	}
	if err != nil {
		return fmt.Sprintf("%s, commit error %v: a fresh reader fails afterwards: %v", where, out.CommitErr, err)
	}
	if out.Site2 != "" && !out.Committed {
		// pairs: the second fault hit the rollback. What that rollback step was about to undo stays (a published count, a
		// reservation) - asserted is that the ITEMS every store serves are the ones before the transaction
		for i := range h.Stores {
			if !d[i].Exists {
				return fmt.Sprintf("%s, commit error %v: store %s does not exist for a fresh reader", where, out.CommitErr, h.Stores[i].Name)
			}
			if ok, why := txh.SameItems(d[i].Items, want[i]); !ok {
				return fmt.Sprintf("%s, commit error %v: stores should read %s but store %s: %s", where, out.CommitErr, state, h.Stores[i].Name, why)
			}
		}
	} else if why := txh.CheckDump(d, h.Stores, want); why != "" {
		return fmt.Sprintf("%s, commit error %v: stores should read %s but %s", where, out.CommitErr, state, why)
	}
	r := txh.ReadDisk(e.Dir)
	if pr := r.AllProblems(); len(pr) > 0 && (out.Site2 == "" || out.Committed) {
		// (pairs: a rollback step that failed half-way may leave an unreachable entry behind, e.g. the registry entry of
		// a new root whose blob it had already removed; the reader-level comparison above is what is asserted for them)
		return fmt.Sprintf("%s, commit error %v: %s", where, out.CommitErr, strings.Join(pr, "; "))
	}
	if out.PreDisk != nil && !out.Committed && out.Site2 == "" {
		if lost := r.LostSince(out.PreDisk); len(lost) > 0 {
			return fmt.Sprintf("%s, commit error %v: %s", where, out.CommitErr, strings.Join(lost, "; "))
		}
	}
	if orphanCensus != nil && !out.Committed && out.Site2 == "" {
		if msg := orphanCensus(r, h, victim); msg != "" {
			return fmt.Sprintf("%s, commit error %v: after the failed commit and its rollback %s", where, out.CommitErr, msg)
		}
	}
	if !retry || out.Committed || p.End != "commit" || p.Mode != sop.ForWriting {
		return ""
	}
	if out.Site2 != "" {
		// a second fault hit the rollback itself: what it could not undo (reservations, deleted marks) stays until it
		// expires or recovery runs, so "a later transaction commits without waiting" is not asserted for pairs -
		// only that the failed commit is invisible (above)
		return ""
	}
	// the same changes, no faults: must commit without waiting for any expiry
	t0 := time.Now()
	after, res2 := e.RunTxn(p, h.Stores, pre, txh.RunOpts{MaxTime: 6 * time.Second})
	if res2.OpErr != nil || res2.Mismatch != "" {
		return fmt.Sprintf("%s, commit error %v: the retry's operations fail: opErr=%v mismatch=%q", where, out.CommitErr, res2.OpErr, res2.Mismatch)
	}
	if res2.CommitErr != nil {
		return fmt.Sprintf("%s, commit error %v: a later transaction making the same changes with no faults does not commit (after %.1fs): %v", where, out.CommitErr, time.Since(t0).Seconds(), res2.CommitErr)
	}
	d, err = e.Dump(h.Stores, sop.ForReading)
	if err != nil {
		return fmt.Sprintf("%s: after the successful retry a fresh reader fails: %v", where, err)
	}
	if why := txh.CheckDump(d, h.Stores, after); why != "" {
		return fmt.Sprintf("%s: after the successful retry %s", where, why)
	}
	if pr := txh.ReadDisk(e.Dir).AllProblems(); len(pr) > 0 {
		return fmt.Sprintf("%s: after the successful retry: %s", where, strings.Join(pr, "; "))
	}
	return ""
}

// shapeOf classifies the victim for evidence labels.
func shapeOf(trace []txh.Site) []string {
	seen := map[string]bool{}
	for _, s := range trace {
		switch s.Comp + "." + s.Method {
		case "Registry.Add":
			seen["newNodesOrRoot"] = true
		case "Registry.UpdateNoLocks":
			seen["updatedOrRemovedNodes"] = true
		case "Registry.UpdateNoLocksFlip":
			seen["phase2Flip"] = true
		case "Registry.Remove":
			seen["registryRemove"] = true
		case "StoreRepository.Update":
			seen["countChanged"] = true
		case "PLog.Add":
			seen["priorityLog"] = true
		case "BlobStore.Remove":
			seen["blobRemove"] = true
		}
	}
	var out []string
	for k := range seen {
		out = append(out, "shape:"+k)
	}
	return out
}
