package txn

import (
	"strings"
	"testing"

	"pgregory.net/rapid"

	"verif/harness/stats"
	"verif/harness/txh"
)

var seqGen = txh.GenOpts{KeyDomain: 10, MaxOps: 12, MaxTxns: 7, BigValues: false, Rollbacks: true, Placements: []int{0, 1, 1, 2, 3, 3, 4}, MaxStores: 2}

func cleanupHeavy(h txh.History) bool {
	// the history updates/removes a previously committed out-of-node value, or removes enough to unlink nodes
	_, rewrite, _ := historyLabels(h)
	return rewrite
}

// TestC10_ReachableLoads: after every transaction of a crash-free history, an independent walk of
// the bytes on disk loads every node reachable from every root and every out-of-node value, and the
// items found that way equal the model.
func TestC10_ReachableLoads(t *testing.T) {
	rec := stats.For("C10").Meta("exploration",
		"sequential histories (commit / rollback) over all value placements with repeated update, remove and re-add of the same keys; after every transaction an independent reader of the on-disk formats (storeinfo, registry blocks, node and value blobs) walks every store from its root: every registry entry, active node blob and required value blob must load and the items must equal the model; fault and crash variants are run by the C07/C08 checks with the same walker; non-trivial = the history rewrites or removes a previously committed out-of-node value or ends a transaction by rollback; distinct by rendered history",
		"in-process walk after the transaction returned (cold with respect to SOP's caches: it does not use them)")
	rapid.Check(t, func(t *rapid.T) {
		h := txh.GenHistory(t, seqGen)
		var prev *txh.Reach
		e, _ := runSequential(t, h, func(e *txh.Env, i int, models []*txh.Model, res txh.TxnResult) {
			r := txh.ReadDisk(e.Dir)
			if p := r.AllProblems(); len(p) > 0 {
				t.Fatalf("after txn %d (%s): %s\n%s", i+1, h.Txns[i], strings.Join(p, "; "), h.Render())
			}
			if prev != nil && !res.Committed {
				if p := r.LostSince(prev); len(p) > 0 {
					t.Fatalf("after txn %d (%s): %s\n%s", i+1, h.Txns[i], strings.Join(p, "; "), h.Render())
				}
			}
			prev = r
			if why := r.CheckAgainst(h.Stores, models); why != "" {
				t.Fatalf("after txn %d (%s): %s\n%s", i+1, h.Txns[i], why, h.Render())
			}
		})
		e.Cleanup()
		labels, rewrite, _ := historyLabels(h)
		hasRb := false
		for _, p := range h.Txns {
			if p.End == "rollback" {
				hasRb = true
			}
		}
		rec.Case(h.Render(), rewrite || hasRb, labels...)
		rec.Sample("history", h.Render())
	})
}

// TestC11_NoOrphans: after every finished transaction nothing unreferenced is left on disk.
func TestC11_NoOrphans(t *testing.T) {
	rec := stats.For("C11").Meta("exploration",
		"same histories as C10; after every finished (committed or rolled back) transaction: every blob file is the active blob of a reachable node or named by the id of a live item of an out-of-node store, every non-zero registry slot belongs to a reachable node, no translogs/* and no *.cow files remain; failed commits are covered by the C07 check with the same census; non-trivial = the history updates or removes an out-of-node value, or contains a rollback; distinct by rendered history",
		"a handle that keeps the id of its already deleted previous blob is by design and not an orphan")
	knownOrphanValues := stats.Known("C11", "out-of-node-value-blobs-leak")
	rapid.Check(t, func(t *rapid.T) {
		h := txh.GenHistory(t, seqGen)
		e, _ := runSequential(t, h, func(e *txh.Env, i int, models []*txh.Model, res txh.TxnResult) {
			r := txh.ReadDisk(e.Dir)
			if ov := r.OrphanValuesOf(true); len(ov) > 0 {
				t.Fatalf("after txn %d (%s): %s\n%s", i+1, h.Txns[i], strings.Join(ov, "; "), h.Render())
			}
			if ov := r.OrphanValuesOf(false); len(ov) > 0 {
				// the recorded finding: separate-segment stores that are not actively persisted
				if !knownOrphanValues {
					t.Fatalf("after txn %d (%s): %s\n%s", i+1, h.Txns[i], strings.Join(ov, "; "), h.Render())
				}
				rec.Exclude("unreferenced value blob of a separate-segment (not actively persisted) store (known finding)")
			}
			if o := r.Orphans(); len(o) > 0 {
				if len(o) > 6 {
					o = append(o[:6], "...")
				}
				t.Fatalf("after txn %d (%s): %s\n%s", i+1, h.Txns[i], strings.Join(o, "; "), h.Render())
			}
		})
		e.Cleanup()
		labels, rewrite, _ := historyLabels(h)
		hasRb := false
		for _, p := range h.Txns {
			if p.End == "rollback" {
				hasRb = true
			}
		}
		rec.Case(h.Render(), rewrite || hasRb, labels...)
		rec.Sample("history", h.Render())
	})
}

// TestC11_Known_ValueBlobLeak is the minimal reproduction of the recorded finding: a store that keeps
// values outside the node (separate segment); add an item, commit; update it in a second transaction,
// commit: a value blob stays on disk although nothing references it.
func TestC11_Known_ValueBlobLeak(t *testing.T) {
	e, err := txh.NewEnv(2)
	if err != nil {
		t.Fatalf("%v", err)
	}
	defer e.Cleanup()
	stores := []txh.StoreOpts{{Name: "st0", Slot: 4, Unique: true, Placement: 1}}
	if err := e.Setup(stores); err != nil {
		t.Fatalf("HARNESS-ERROR %v", err)
	}
	models := []*txh.Model{{Unique: true}}
	for _, p := range []txh.TxnProg{
		{Mode: 1, End: "commit", Ops: []txh.Op{{Kind: "add", K: 3, Tag: "a"}}},
		{Mode: 1, End: "commit", Ops: []txh.Op{{Kind: "update", K: 3, Tag: "b"}}},
	} {
		var res txh.TxnResult
		models, res = e.RunTxn(p, stores, models, txh.RunOpts{})
		if res.OpErr != nil || res.Mismatch != "" || res.CommitErr != nil {
			t.Fatalf("%v %v %v", res.OpErr, res.Mismatch, res.CommitErr)
		}
	}
	ov := txh.ReadDisk(e.Dir).OrphanValues()
	if len(ov) == 0 {
		return
	}
	what := "store with values in a separate segment: add(k) commit; update(k) commit leaves a value blob on disk that nothing references: the update writes the new value to a blob under a new id, but the committed node keeps the item's value inline under the item's old id (the tracker works on a copy of the item, not on the node's slot), so the new blob is never referenced nor deleted"
	if stats.Known("C11", "out-of-node-value-blobs-leak") {
		stats.For("C11").KnownFinding(what)
		return
	}
	t.Fatalf("%s: %v", what, ov)
}
