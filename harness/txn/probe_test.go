package txn

import (
	"testing"

	"github.com/sharedcode/sop"

	"verif/harness/txh"
)

func TestProbe_ActiveReadThenRewrite(t *testing.T) {
	for _, variant := range []string{"readThenAdd", "addThenUpdateSameTxn"} {
		e, _ := txh.NewEnv(2)
		stores := []txh.StoreOpts{{Name: "st0", Slot: 4, Unique: false, Placement: 3}}
		if err := e.Setup(stores); err != nil {
			t.Fatal(err)
		}
		models := []*txh.Model{{}}
		var progs []txh.TxnProg
		if variant == "readThenAdd" {
			progs = []txh.TxnProg{
				{Mode: sop.ForWriting, End: "commit", Ops: []txh.Op{{Kind: "add", K: 11, Tag: "a"}}},
				{Mode: sop.ForWriting, End: "commit", Ops: []txh.Op{{Kind: "findGet", K: 11}, {Kind: "add", K: 5, Tag: "b"}}},
				{Mode: sop.ForWriting, End: "commit", Ops: []txh.Op{{Kind: "scan"}}},
			}
		} else {
			progs = []txh.TxnProg{
				{Mode: sop.ForWriting, End: "commit", Ops: []txh.Op{{Kind: "add", K: 11, Tag: "a", Size: 1}, {Kind: "curUpdate", K: 11, Tag: "b"}}},
				{Mode: sop.ForWriting, End: "commit", Ops: []txh.Op{{Kind: "findGet", K: 11}, {Kind: "add", K: 5, Tag: "c"}}},
				{Mode: sop.ForWriting, End: "commit", Ops: []txh.Op{{Kind: "scan"}}},
			}
		}
		for i, p := range progs {
			var res txh.TxnResult
			models, res = e.RunTxn(p, stores, models, txh.RunOpts{})
			t.Logf("%s txn %d: mismatch=%q opErr=%v commitErr=%v", variant, i+1, res.Mismatch, res.OpErr, res.CommitErr)
		}
		e.Cleanup()
	}
}
