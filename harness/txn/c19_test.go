package txn

import (
	"fmt"
	"testing"

	"github.com/sharedcode/sop"
	"pgregory.net/rapid"

	"verif/harness/stats"
	"verif/harness/txh"
)

// runSequential executes a history transaction by transaction, checking every operation
// against the model, and after every transaction a fresh-reader dump of every store.
// It returns the final models.
func runSequential(t *rapid.T, h txh.History, after func(e *txh.Env, i int, models []*txh.Model, res txh.TxnResult)) (*txh.Env, []*txh.Model) {
	e, err := txh.NewEnv(h.HashMod)
	if err != nil {
		t.Fatalf("%v", err)
	}
	txh.SeedUUIDs(h.UUIDSeed)
	if err := e.Setup(h.Stores); err != nil {
		e.Cleanup()
		t.Fatalf("setup transaction failed: %v\n%s", err, h.Render())
	}
	models := make([]*txh.Model, len(h.Stores))
	for i, s := range h.Stores {
		models[i] = &txh.Model{Unique: s.Unique}
	}
	for i, p := range h.Txns {
		var res txh.TxnResult
		models, res = e.RunTxn(p, h.Stores, models, txh.RunOpts{})
		if res.OpErr != nil {
			e.Cleanup()
			t.Fatalf("txn %d: %v\n%s", i+1, res.OpErr, h.Render())
		}
		if res.Mismatch != "" {
			e.Cleanup()
			t.Fatalf("txn %d: %s\n%s", i+1, res.Mismatch, h.Render())
		}
		if res.CommitErr != nil {
			e.Cleanup()
			t.Fatalf("txn %d: %s failed without any fault or contention: %v\n%s", i+1, p.End, res.CommitErr, h.Render())
		}
		d, err := e.Dump(h.Stores, sop.ForReading)
		if err != nil {
			e.Cleanup()
			t.Fatalf("after txn %d (%s): fresh reader failed: %v\n%s", i+1, p, err, h.Render())
		}
		if why := txh.CheckDump(d, h.Stores, models); why != "" {
			e.Cleanup()
			t.Fatalf("after txn %d (%s): %s\n%s", i+1, p, why, h.Render())
		}
		if after != nil {
			after(e, i, models, res)
		}
	}
	return e, models
}

func historyLabels(h txh.History) (labels []string, outOfNodeRewrite, big bool) {
	seen := map[string]bool{}
	written := map[[2]int]bool{} // (store,key) written in an earlier transaction
	for ti, p := range h.Txns {
		now := map[[2]int]bool{}
		for _, o := range p.Ops {
			if o.Size >= 65536 {
				big = true
				seen["value>=64KiB"] = true
			}
			pl := h.Stores[o.S].Placement
			switch o.Kind {
			case "update", "upsert", "remove", "curUpdate", "curRemove":
				if pl != 0 && written[[2]int{o.S, o.K}] && p.Mode == sop.ForWriting {
					outOfNodeRewrite = true
					seen["outOfNodeRewriteOfCommitted"] = true
				}
			}
			if (o.Kind == "updateKey" || o.Kind == "curUpdateKey") && pl != 0 && written[[2]int{o.S, o.K}] && p.Mode == sop.ForWriting {
				seen["keyOnlyUpdateOfOutOfNodeItem"] = true
			}
			if p.Mode == sop.ForWriting && p.End == "commit" {
				switch o.Kind {
				case "add", "addIfNotExist", "upsert", "update", "curUpdate":
					now[[2]int{o.S, o.K}] = true
				}
			}
		}
		for k := range now {
			written[k] = true
		}
		if p.End == "rollback" {
			seen["hasRollback"] = true
		}
		if p.Mode != sop.ForWriting {
			seen["hasReadOnlyTxn"] = true
		}
		_ = ti
	}
	for _, s := range h.Stores {
		seen["placement:"+txh.PlacementNames[s.Placement]] = true
		seen[fmt.Sprintf("slot%d", s.Slot)] = true
	}
	if len(h.Stores) > 1 {
		seen["multiStore"] = true
	}
	if len(h.Txns) >= 3 {
		seen["txns>=3"] = true
	}
	for l := range seen {
		labels = append(labels, l)
	}
	return
}

// TestC19_ModelAgreement: sequential histories, no faults, every placement / slot length /
// uniqueness / balancing, values up to > 1 MiB.
func TestC19_ModelAgreement(t *testing.T) {
	rec := stats.For("C19").Meta("exploration",
		"sequential histories of 1-6 transactions over 1-2 stores drawn from {slot 2..500, unique/dup, 5 value placements, balancing, 3 cache configs}, ops {add, addIfNotExist, upsert, update, remove, find+get, update/remove at cursor, scan, count}, values 0 B-256 KiB (rarely 1.1 MiB); each op result vs an ordered-multiset model, fresh-reader dump after every transaction, metamorphic re-batching twin, cold-process dump in TestC19_ColdProcess; non-trivial = out-of-node placement with update/removal of a previously committed item, or a value >= 64 KiB, or >= 3 transactions; distinct by rendered history",
		"standalone mode: in-memory L2 cache, one process")
	g := txh.GenOpts{KeyDomain: 12, MaxOps: 14, MaxTxns: 6, BigValues: true, Rollbacks: true, Placements: []int{0, 0, 1, 2, 3, 4}, MaxStores: 2}
	rapid.Check(t, func(t *rapid.T) {
		h := txh.GenHistory(t, g)
		e, models := runSequential(t, h, nil)
		// cold caches: a brand-new OS process reads every store
		jr, err := txh.RunJob(txh.Job{Kind: "dump", Dir: e.Dir, HashMod: h.HashMod, Stores: h.Stores})
		if err != nil {
			e.Cleanup()
			t.Fatalf("%v", err)
		}
		if jr.Err != "" {
			e.Cleanup()
			t.Fatalf("fresh process cannot read the stores: %s\n%s", jr.Err, h.Render())
		}
		if why := txh.CheckDump(jr.Dumps, h.Stores, models); why != "" {
			e.Cleanup()
			t.Fatalf("fresh process (cold caches): %s\n%s", why, h.Render())
		}
		// metamorphic twin: the committed operations re-batched into one transaction per operation
		if why := twinBatching(h, models); why != "" {
			e.Cleanup()
			t.Fatalf("%s\n%s", why, h.Render())
		}
		e.Cleanup()
		labels, rewrite, big := historyLabels(h)
		rec.Case(h.Render(), rewrite || big || len(h.Txns) >= 3, labels...)
		rec.Sample("history", h.Render())
	})
}

// twinBatching replays the committed writer transactions of h with a different batching (every
// operation in its own transaction) on a fresh database; the result must equal the same model.
func twinBatching(h txh.History, want []*txh.Model) string {
	e, err := txh.NewEnv(h.HashMod)
	if err != nil {
		return err.Error()
	}
	defer e.Cleanup()
	txh.SeedUUIDs(h.UUIDSeed ^ 0x5555)
	if err := e.Setup(h.Stores); err != nil {
		return "twin setup: " + err.Error()
	}
	models := make([]*txh.Model, len(h.Stores))
	for i, s := range h.Stores {
		models[i] = &txh.Model{Unique: s.Unique}
	}
	n := 0
	for _, p := range h.Txns {
		if p.Mode != sop.ForWriting || p.End != "commit" {
			continue
		}
		for _, op := range p.Ops {
			switch op.Kind {
			case "scan", "count", "findGet":
				continue
			}
			if n >= 40 {
				break
			}
			n++
			var res txh.TxnResult
			models, res = e.RunTxn(txh.TxnProg{Mode: sop.ForWriting, End: "commit", Ops: []txh.Op{op}}, h.Stores, models, txh.RunOpts{})
			if res.OpErr != nil || res.Mismatch != "" || res.CommitErr != nil {
				return fmt.Sprintf("twin batching (one op per transaction), op %s: opErr=%v mismatch=%q commitErr=%v", op, res.OpErr, res.Mismatch, res.CommitErr)
			}
		}
	}
	if n >= 40 {
		return "" // bounded; long histories are compared only on the original batching
	}
	d, err := e.Dump(h.Stores, sop.ForReading)
	if err != nil {
		return "twin dump: " + err.Error()
	}
	// for duplicate-key stores the cursor-based ops may pick another duplicate than the first run did;
	// the comparison is only made when every store is unique
	for _, s := range h.Stores {
		if !s.Unique {
			return txh.CheckDump(d, h.Stores, models)
		}
	}
	if why := txh.CheckDump(d, h.Stores, want); why != "" {
		return "twin batching (one op per transaction) disagrees with the original batching: " + why
	}
	return ""
}
