package txn

import (
	"testing"

	"github.com/sharedcode/sop"

	"verif/harness/txh"
)

// Plain regressions (no rapid) for defects these checks found on the pinned tree and that were
// repaired in /repo ("fixed" entries of known_findings.json). Each fails again if the defect returns.

func w(ops ...txh.Op) txh.TxnProg { return txh.TxnProg{Mode: sop.ForWriting, End: "commit", Ops: ops} }

func runPlain(t *testing.T, h txh.History, victim int, plan *faultPlan, retry bool) {
	t.Helper()
	e, pre, err := prepare(h, victim)
	if err != nil {
		t.Fatalf("%v", err)
	}
	defer e.Cleanup()
	post, out, res := runVictim(e, h, victim, pre, plan)
	if msg := judgeFault(e, h, victim, pre, post, out, res, retry); msg != "" {
		t.Fatalf("%s\n%s", msg, h.Render())
	}
}

// C01/C19: Add(11), Remove(7) on a full slot-length-2 root committed nothing (1297f9b6).
func TestC01_Regress_InnerRemoveRegistersSuccessor(t *testing.T) {
	for _, pl := range []int{0, 1, 3} {
		h := txh.History{HashMod: 250, UUIDSeed: 1, Stores: []txh.StoreOpts{{Name: "st0", Slot: 2, Unique: true, Placement: pl}},
			Txns: []txh.TxnProg{w(txh.Op{Kind: "add", K: 1, Tag: "a"}), w(txh.Op{Kind: "add", K: 7, Tag: "b"}),
				w(txh.Op{Kind: "add", K: 11, Tag: "c"}, txh.Op{Kind: "remove", K: 7})}}
		runPlain(t, h, 2, nil, false)
	}
}

// C07: a commit failing at the blob write of commitUpdatedNodes left inactive ids reserved (3a385a33)
// and the retry then lost its add on the second refetch (ac71d355).
func TestC07_Regress_ReservationLeakAndLostAdd(t *testing.T) {
	h := txh.History{HashMod: 16, UUIDSeed: 2, Stores: []txh.StoreOpts{{Name: "st0", Slot: 4, Unique: true, Placement: 0}},
		Txns: []txh.TxnProg{w(txh.Op{Kind: "add", K: 0, Tag: "a"}, txh.Op{Kind: "add", K: 7, Tag: "b"}), w(txh.Op{Kind: "add", K: 3, Tag: "c"})}}
	e, pre, err := prepare(h, 1)
	if err != nil {
		t.Fatalf("%v", err)
	}
	_, dry, _ := runVictim(e, h, 1, pre, nil)
	e.Cleanup()
	fired := 0
	for k, s := range dry.Trace {
		if (s.Comp == "BlobStore" && s.Method == "Add") || (s.Comp == "TLog" && s.Method == "Add") {
			runPlain(t, h, 1, &faultPlan{K: k, K2: -1}, true)
			fired++
		}
	}
	if fired < 3 {
		t.Fatalf("HARNESS-ERROR only %d fault sites exercised", fired)
	}
}

// C04/C07: a writer whose first node-lock attempt is refused refetches and merges; it saw its own item
// locks as a conflict (1482e2fe), lost an update of an item added in the same transaction (bb6c5ddb),
// and did not replay removals on actively persisted stores (42c4eeb5).
func TestC07_Regress_MergePath(t *testing.T) {
	for _, pl := range []int{0, 2, 3, 4} {
		h := txh.History{HashMod: 3, UUIDSeed: 3, Stores: []txh.StoreOpts{{Name: "st0", Slot: 6, Unique: true, Placement: pl}},
			Txns: []txh.TxnProg{
				w(txh.Op{Kind: "add", K: 1, Tag: "a"}, txh.Op{Kind: "add", K: 5, Tag: "b"}),
				w(txh.Op{Kind: "upsert", K: 2, Tag: "c", Size: 10}, txh.Op{Kind: "update", K: 2, Tag: "d", Size: 20}, txh.Op{Kind: "update", K: 1, Tag: "e"}),
			}}
		first := -1
		e, pre, err := prepare(h, 1)
		if err != nil {
			t.Fatalf("%v", err)
		}
		_, dry, _ := runVictim(e, h, 1, pre, nil)
		e.Cleanup()
		for k, s := range dry.Trace {
			if s.Comp == "L2" && s.Method == "Lock" {
				first = k
				break
			}
		}
		if first < 0 {
			t.Fatalf("HARNESS-ERROR no node lock call in the commit")
		}
		runPlain(t, h, 1, &faultPlan{K: first, False: true, K2: -1}, true)
		h2 := h
		h2.Txns = []txh.TxnProg{h.Txns[0], w(txh.Op{Kind: "remove", K: 5})}
		runPlain(t, h2, 1, &faultPlan{K: first, False: true, K2: -1}, true)
	}
}
