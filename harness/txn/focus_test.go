package txn

import (
	"os"
	"strconv"
	"strings"
	"testing"

	"pgregory.net/rapid"

	"verif/harness/txh"
)

// TestFocus is a development aid: VERIF_FOCUS_PLACEMENTS=3,4 restricts placements so rapid can
// shrink failures of one storage option to something readable. Skipped unless the variable is set.
func TestFocus(t *testing.T) {
	ps := os.Getenv("VERIF_FOCUS_PLACEMENTS")
	if ps == "" {
		t.Skip("development aid")
	}
	var placements []int
	for _, p := range strings.Split(ps, ",") {
		n, _ := strconv.Atoi(p)
		placements = append(placements, n)
	}
	g := txh.GenOpts{KeyDomain: 6, MaxOps: 8, MaxTxns: 5, Rollbacks: true, Placements: placements, MaxStores: 1}
	rapid.Check(t, func(t *rapid.T) {
		h := txh.GenHistory(t, g)
		e, _ := runSequential(t, h, nil)
		e.Cleanup()
	})
}
