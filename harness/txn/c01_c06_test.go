package txn

import (
	"fmt"
	"strings"
	"testing"

	"github.com/sharedcode/sop"
	"pgregory.net/rapid"

	"verif/harness/stats"
	"verif/harness/txh"
)

type ending struct {
	Kind  string // commit rollback fault
	K     int
	False bool
}

// runMixedHistory runs a sequential history whose transactions end in commit, rollback or a commit
// with one injected fault, checking after every transaction that every store reads exactly as the
// model says (post-state iff Commit returned nil). It returns labels.
func runMixedHistory(t *rapid.T, h txh.History, ends []ending, knownLockVerify bool, rec *stats.Rec) (labels []string, nontrivial bool) {
	e, err := txh.NewEnv(h.HashMod)
	if err != nil {
		t.Fatalf("%v", err)
	}
	defer e.Cleanup()
	txh.SeedUUIDs(h.UUIDSeed)
	if err := e.Setup(h.Stores); err != nil {
		t.Fatalf("setup: %v\n%s", err, h.Render())
	}
	models := make([]*txh.Model, len(h.Stores))
	for i, s := range h.Stores {
		models[i] = &txh.Model{Unique: s.Unique}
	}
	seen := map[string]bool{}
	for i, p := range h.Txns {
		en := ends[i]
		var plan *faultPlan
		if en.Kind == "fault" && p.End == "commit" && p.Mode == sop.ForWriting {
			plan = &faultPlan{K: en.K, False: en.False, K2: -1}
		}
		pre := models
		post, out, res := runVictim(e, h, i, pre, plan)
		if plan != nil && knownLockVerify && (strings.HasPrefix(out.Site, "L2.GetStructs") || strings.HasPrefix(out.Site, "L2.SetStructs")) && !out.Committed {
			// the listed C07 finding leaves item locks behind: later transactions of this history would
			// fail for that reason alone, so the history ends here (counted)
			rec.Exclude("history cut after a fault in the item-lock write/verify calls (known C07 finding)")
			break
		}
		if out.Site == "" && res.CommitErr != nil && p.End == "commit" {
			// a commit failing with no fault injected into it: blockage left by an earlier failed commit is
			// C07's subject (its retry oracle); here the state must still be all-or-nothing, then the history ends
			if msg := judgeFault(e, h, i, pre, post, out, res, false); msg != "" {
				t.Fatalf("txn %d %s: %s\n%s", i+1, p, msg, h.Render())
			}
			rec.Label("historyCutBySpuriousCommitFailure")
			break
		}
		if msg := judgeFault(e, h, i, pre, post, out, res, false); msg != "" {
			t.Fatalf("txn %d %s (ending %+v): %s\n%s", i+1, p, en, msg, h.Render())
		}
		if out.Site != "" {
			seen["faultFired"] = true
			if !out.Committed {
				seen["commitFailed"] = true
				nontrivial = true
			}
		}
		if p.End == "rollback" {
			seen["rollback"] = true
		}
		stores := map[int]bool{}
		for _, o := range p.Ops {
			switch o.Kind {
			case "add", "addIfNotExist", "upsert", "update", "remove", "curUpdate", "curRemove":
				stores[o.S] = true
			}
		}
		if len(stores) >= 2 && p.Mode == sop.ForWriting {
			seen["multiStoreTxn"] = true
			nontrivial = true
		}
		for _, s := range out.Trace {
			if s.Comp == "Registry" && s.Method == "UpdateNoLocksFlip" && strings.HasSuffix(s.Info, "h") && s.Info != "1h" {
				seen["multiNodeFlip"] = true
				nontrivial = true
			}
		}
		if out.Committed || (res.Committed && p.Mode == sop.ForWriting) {
			models = post
		}
	}
	for k := range seen {
		labels = append(labels, k)
	}
	return
}

func genEndings(t *rapid.T, h *txh.History) []ending {
	ends := make([]ending, len(h.Txns))
	for i := range h.Txns {
		switch rapid.IntRange(0, 5).Draw(t, fmt.Sprintf("end%d", i)) {
		case 0:
			ends[i] = ending{Kind: "rollback"}
			h.Txns[i].End = "rollback"
		case 1, 2:
			ends[i] = ending{Kind: "fault", K: rapid.IntRange(0, 70).Draw(t, fmt.Sprintf("k%d", i)), False: rapid.Bool().Draw(t, fmt.Sprintf("false%d", i))}
			h.Txns[i].End = "commit"
		default:
			ends[i] = ending{Kind: "commit"}
			h.Txns[i].End = "commit"
		}
	}
	return ends
}

// TestC01_AllOrNothing
func TestC01_AllOrNothing(t *testing.T) {
	rec := stats.For("C01").Meta("exploration",
		"sequential histories of 1-6 transactions over 1-3 stores (independent option draws), each ending in Commit, Rollback, or Commit with one injected fault at a drawn backend call of the commit (error, or 'false' for lock calls); after every transaction a fresh-reader dump of EVERY store must equal the post-model iff Commit returned nil and the pre-model otherwise, plus an on-disk walk; non-trivial = a transaction changed >= 2 stores, or flipped >= 2 node handles in phase 2, or its commit failed on the fault; distinct by rendered history + endings",
		"faults are 'call returned an error before executing'; every site of every shape is enumerated by the C07 check, this one samples sites inside longer multi-store histories")
	g := txh.GenOpts{KeyDomain: 9, MaxOps: 10, MaxTxns: 6, Rollbacks: false, Placements: []int{0, 0, 1, 2, 3, 4}, MaxStores: 3}
	known := stats.Known("C07", "item-lock-verify-failure-leaks-locks")
	rapid.Check(t, func(t *rapid.T) {
		h := txh.GenHistory(t, g)
		ends := genEndings(t, &h)
		labels, nt := runMixedHistory(t, h, ends, known, rec)
		hl, _, _ := historyLabels(h)
		rec.Case(h.Render()+fmt.Sprint(ends), nt, append(labels, hl...)...)
		rec.Sample("history", map[string]any{"history": h.Render(), "endings": fmt.Sprint(ends)})
	})
}

// TestC06_CountMatchesScan: add/remove heavy histories with rollbacks and failed commits; the dump
// comparison includes Count() == number of scanned items == model size for every store.
func TestC06_CountMatchesScan(t *testing.T) {
	rec := stats.For("C06").Meta("exploration",
		"sequential histories of adds/removes (small key domain, so removals hit) over 1-2 stores with Commit / Rollback / Commit under one injected fault; after every transaction, in a fresh transaction: Count() == length of the First/Next scan == model size for every store; concurrent committers are covered by the schedule-controlled runs of the C04/C05 checks with the same oracle; non-trivial = the history contains a failed or rolled-back transaction that had changed the count; distinct by rendered history + endings",
		"the count published before the commit point (C03 finding) is not observable here: readers run after the writer returned")
	g := txh.GenOpts{KeyDomain: 6, MaxOps: 10, MaxTxns: 7, Rollbacks: false, Placements: []int{0, 0, 1, 3}, MaxStores: 2}
	known := stats.Known("C07", "item-lock-verify-failure-leaks-locks")
	rapid.Check(t, func(t *rapid.T) {
		h := txh.GenHistory(t, g)
		ends := genEndings(t, &h)
		labels, _ := runMixedHistory(t, h, ends, known, rec)
		nt := false
		for i, p := range h.Txns {
			changes := false
			for _, o := range p.Ops {
				switch o.Kind {
				case "add", "addIfNotExist", "upsert", "remove", "curRemove":
					changes = true
				}
			}
			if changes && (ends[i].Kind == "rollback" || ends[i].Kind == "fault") {
				nt = true
			}
		}
		rec.Case(h.Render()+fmt.Sprint(ends), nt, labels...)
		rec.Sample("history", map[string]any{"history": h.Render(), "endings": fmt.Sprint(ends)})
	})
}
