package txn

import (
	"strings"
	"testing"

	"verif/harness/txh"
)

// TestC10_Regress_RollbackAfterActiveStoreWrite: a transaction that wrote to an actively persisted store (its last
// logged state is then "added an actively persisted item") and also updated items of a store that is NOT actively
// persisted, then rolls back. On the pinned tree the rollback asked every store's tracker for "the values to undo";
// for the second store those were the ids of the COMMITTED value blobs (new ids are only given by the commit), and
// it deleted them: once a node no longer carried the value inline (after a refetch-and-merge commit) readers failed
// with "no such file". Found by the C12 concurrent check (thorough tier); see known_findings.json (fixed).
func TestC10_Regress_RollbackAfterActiveStoreWrite(t *testing.T) {
	for _, other := range []int{1, 2} {
		for _, active := range []int{3, 4} {
			for _, order := range []int{0, 1} {
				e, _ := txh.NewEnv(2)
				stores := []txh.StoreOpts{{Name: "st0", Slot: 4, Unique: true, Placement: other}, {Name: "st1", Slot: 4, Unique: true, Placement: active}}
				e.Setup(stores)
				models := []*txh.Model{{Unique: true}, {Unique: true}}
				models, _ = e.RunTxn(txh.TxnProg{Mode: 1, End: "commit", Ops: []txh.Op{{S: 0, Kind: "add", K: 1, Tag: "s"}, {S: 0, Kind: "add", K: 2, Tag: "s"}, {S: 1, Kind: "add", K: 1, Tag: "s"}}}, stores, models, txh.RunOpts{})
				before := txh.ReadDisk(e.Dir)
				ops := []txh.Op{{S: 1, Kind: "add", K: 5, Tag: "a"}, {S: 0, Kind: "update", K: 1, Tag: "b"}}
				if order == 1 {
					ops[0], ops[1] = ops[1], ops[0]
				}
				_, res := e.RunTxn(txh.TxnProg{Mode: 1, End: "rollback", Ops: ops}, stores, models, txh.RunOpts{})
				after := txh.ReadDisk(e.Dir)
				e.Cleanup()
				if res.OpErr != nil || res.CommitErr != nil {
					t.Fatalf("%v %v", res.OpErr, res.CommitErr)
				}
				if lost := after.LostSince(before); len(lost) > 0 {
					t.Fatalf("%s + %s store, rolled back %v: %s", txh.PlacementNames[other], txh.PlacementNames[active], ops, strings.Join(lost, "; "))
				}
			}
		}
	}
}
