package txn

import (
	"fmt"
	"testing"
	"verif/harness/stats"

	"verif/harness/txh"
)

// TestC11_Regress_AddedThenRemovedOnActiveStore: an item added and removed again in the same transaction of an
// actively persisted store (its value blob is written by Add); rolled back or committed, nothing may stay behind.
// On the pinned tree the blob survived a rollback (Remove forgot the item; and reading the item first turned the
// tracked add into a tracked read). See known_findings.json (fixed).
func TestC11_Regress_AddedThenRemovedOnActiveStore(t *testing.T) {
	for _, pl := range []int{3, 4} {
		for _, ops := range [][]txh.Op{
			{{Kind: "add", K: 3, Tag: "a"}},
			{{Kind: "add", K: 3, Tag: "a"}, {Kind: "curRemove", K: 3}},
			{{Kind: "add", K: 3, Tag: "a"}, {Kind: "remove", K: 3}},
			{{Kind: "add", K: 3, Tag: "a"}, {Kind: "update", K: 3, Tag: "b"}},
			{{Kind: "update", K: 1, Tag: "b"}},
			{{Kind: "remove", K: 1}},
		} {
			for _, end := range []string{"rollback", "commit"} {
				e, _ := txh.NewEnv(2)
				stores := []txh.StoreOpts{{Name: "st0", Slot: 4, Unique: true, Placement: pl}}
				e.Setup(stores)
				models := []*txh.Model{{Unique: true}}
				models, _ = e.RunTxn(txh.TxnProg{Mode: 1, End: "commit", Ops: []txh.Op{{Kind: "add", K: 1, Tag: "s"}}}, stores, models, txh.RunOpts{})
				var res txh.TxnResult
				models, res = e.RunTxn(txh.TxnProg{Mode: 1, End: end, Ops: ops}, stores, models, txh.RunOpts{})
				ov := txh.ReadDisk(e.Dir).OrphanValues()
				e.Cleanup()
				if res.OpErr != nil || res.CommitErr != nil {
					t.Fatalf("%v -> %s: %v %v", ops, end, res.OpErr, res.CommitErr)
				}
				if len(ov) > 0 {
					t.Fatalf("actively persisted store, transaction %v ended by %s: %v", ops, end, ov)
				}
			}
		}
	}
}

// TestC11_Regress_FailedCommitOnActiveStore: an actively persisted store writes an added or updated item's value
// blob at the time of the operation. On the pinned tree a commit that failed before its "commit tracked values"
// step (a refused lock, a failing log write) rolled back without removing those blobs (fixed in /repo).
func TestC11_Regress_FailedCommitOnActiveStore(t *testing.T) {
	for _, pl := range []int{3, 4} {
		h := txh.History{HashMod: 2, UUIDSeed: 9, Stores: []txh.StoreOpts{{Name: "st0", Slot: 4, Unique: true, Placement: pl}},
			Txns: []txh.TxnProg{
				{Mode: 1, End: "commit", Ops: []txh.Op{{Kind: "add", K: 1, Tag: "s"}, {Kind: "add", K: 2, Tag: "s2"}}},
				{Mode: 1, End: "commit", Ops: []txh.Op{{Kind: "add", K: 3, Tag: "a", Size: 10}, {Kind: "update", K: 1, Tag: "b", Size: 10}}},
			}}
		e, pre, err := prepare(h, 1)
		if err != nil {
			t.Fatalf("%v", err)
		}
		_, dry, _ := runVictim(e, h, 1, pre, nil)
		e.Cleanup()
		for k := 0; k < dry.CommitCall; k++ {
			site := dry.Trace[k].Comp + "." + dry.Trace[k].Method
			if site == "Registry.Add" || site == "BlobStore.Add" || dry.Trace[k].Comp == "L2" && (dry.Trace[k].Method == "GetStructs" || dry.Trace[k].Method == "SetStructs") {
				continue // other recorded findings
			}
			e, pre, err := prepare(h, 1)
			if err != nil {
				t.Fatalf("%v", err)
			}
			_, out, _ := runVictim(e, h, 1, pre, &faultPlan{K: k, K2: -1})
			r := txh.ReadDisk(e.Dir)
			ov := r.OrphanValuesOf(true)
			e.Cleanup()
			if !out.Committed && len(ov) > 0 {
				t.Fatalf("%s store, commit failed at call %d (%s): %v", txh.PlacementNames[pl], k, out.Site, ov)
			}
		}
	}
}

// TestC11_Known_FailedStepLeavesItsPartialWrites: minimal reproduction of the recorded finding: a commit that splits
// a leaf fails at the blob write of its added nodes; their registry entries, created one call earlier, stay.
func TestC11_Known_FailedStepLeavesItsPartialWrites(t *testing.T) {
	h := txh.History{HashMod: 1, UUIDSeed: 3, Stores: []txh.StoreOpts{{Name: "st0", Slot: 2, Unique: true, Placement: 0}},
		Txns: []txh.TxnProg{
			{Mode: 1, End: "commit", Ops: []txh.Op{{Kind: "add", K: 10, Tag: "a"}, {Kind: "add", K: 20, Tag: "b"}}},
			{Mode: 1, End: "commit", Ops: []txh.Op{{Kind: "add", K: 11, Tag: "c"}, {Kind: "add", K: 12, Tag: "d"}, {Kind: "add", K: 13, Tag: "e"}}},
		}}
	e, pre, err := prepare(h, 1)
	if err != nil {
		t.Fatalf("%v", err)
	}
	_, dry, _ := runVictim(e, h, 1, pre, nil)
	e.Cleanup()
	k := -1
	for i, s := range dry.Trace {
		if s.Comp == "Registry" && s.Method == "Add" && i+1 < len(dry.Trace) && dry.Trace[i+1].Comp == "BlobStore" && dry.Trace[i+1].Method == "Add" {
			k = i + 1
			break
		}
	}
	if k < 0 {
		t.Skip("the commit adds no node")
	}
	e, pre, err = prepare(h, 1)
	if err != nil {
		t.Fatalf("%v", err)
	}
	defer e.Cleanup()
	_, out, _ := runVictim(e, h, 1, pre, &faultPlan{K: k, K2: -1})
	o := txh.ReadDisk(e.Dir).Orphans()
	if out.Committed || len(o) == 0 {
		return
	}
	what := fmt.Sprintf("a commit that adds nodes fails at %s, right after Registry.Add registered them: the rollback skips the step in progress (committedState > commitAddedNodes is false) and leaves %v", out.Site, o)
	if stats.Known("C11", "failed-commit-step-in-progress-not-undone") {
		stats.For("C11").KnownFinding(what)
		return
	}
	t.Fatalf("%s", what)
}
