package txn

import (
	"testing"

	"verif/harness/txh"
)

// TestC11_Regress_AddedThenRemovedOnActiveStore: an item added and removed again in the same transaction of an
// actively persisted store (its value blob is written by Add); rolled back or committed, nothing may stay behind.
// On the pinned tree the blob survived a rollback (Remove forgot the item; and reading the item first turned the
// tracked add into a tracked read). See known_findings.json (fixed).
func TestC11_Regress_AddedThenRemovedOnActiveStore(t *testing.T) {
	for _, pl := range []int{3, 4} {
		for _, ops := range [][]txh.Op{
			{{Kind: "add", K: 3, Tag: "a"}},
			{{Kind: "add", K: 3, Tag: "a"}, {Kind: "curRemove", K: 3}},
			{{Kind: "add", K: 3, Tag: "a"}, {Kind: "remove", K: 3}},
			{{Kind: "add", K: 3, Tag: "a"}, {Kind: "update", K: 3, Tag: "b"}},
			{{Kind: "update", K: 1, Tag: "b"}},
			{{Kind: "remove", K: 1}},
		} {
			for _, end := range []string{"rollback", "commit"} {
				e, _ := txh.NewEnv(2)
				stores := []txh.StoreOpts{{Name: "st0", Slot: 4, Unique: true, Placement: pl}}
				e.Setup(stores)
				models := []*txh.Model{{Unique: true}}
				models, _ = e.RunTxn(txh.TxnProg{Mode: 1, End: "commit", Ops: []txh.Op{{Kind: "add", K: 1, Tag: "s"}}}, stores, models, txh.RunOpts{})
				var res txh.TxnResult
				models, res = e.RunTxn(txh.TxnProg{Mode: 1, End: end, Ops: ops}, stores, models, txh.RunOpts{})
				ov := txh.ReadDisk(e.Dir).OrphanValues()
				e.Cleanup()
				if res.OpErr != nil || res.CommitErr != nil {
					t.Fatalf("%v -> %s: %v %v", ops, end, res.OpErr, res.CommitErr)
				}
				if len(ov) > 0 {
					t.Fatalf("actively persisted store, transaction %v ended by %s: %v", ops, end, ov)
				}
			}
		}
	}
}
