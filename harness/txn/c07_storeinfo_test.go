package txn

import (
	"fmt"
	"os"
	"path/filepath"
	"testing"
	"time"

	"github.com/sharedcode/sop"
	"pgregory.net/rapid"

	"verif/harness/stats"
	"verif/harness/txh"
)

// TestC07_StoreInfoWriteFails: a fault INSIDE a backend call. The victim changes the item count of two or three
// stores; while it commits, the store-info file of one of them cannot be written (its storeinfo.txt is replaced by
// a directory for the duration of the commit), so StoreRepository.Update fails after it has already updated
// (and must undo) the stores that sort before it. Oracle as for every failed commit: error returned, every store
// reads as before (items and Count(), through the caches as the next transaction sees them), nothing left behind,
// the same changes commit afterwards and the stores then equal the post-state.
func TestC07_StoreInfoWriteFails(t *testing.T) {
	rec := stats.For("C07")
	rapid.Check(t, func(t *rapid.T) {
		ns := rapid.IntRange(2, 3).Draw(t, "stores")
		h := txh.History{HashMod: rapid.SampledFrom([]int{1, 3}).Draw(t, "hashMod"), UUIDSeed: rapid.Uint64().Draw(t, "uuidSeed")}
		for i := 0; i < ns; i++ {
			h.Stores = append(h.Stores, txh.StoreOpts{Name: fmt.Sprintf("st%d", i), Slot: rapid.SampledFrom([]int{2, 4, 8}).Draw(t, "slot"), Unique: true,
				Placement: rapid.SampledFrom([]int{0, 0, 1, 3}).Draw(t, "placement")})
		}
		// a committed prefix gives every store some items (so that count updates take the in-place patch path)
		var seed []txh.Op
		for i := 0; i < ns; i++ {
			for k := 0; k < rapid.IntRange(0, 3).Draw(t, fmt.Sprintf("seed%d", i)); k++ {
				seed = append(seed, txh.Op{S: i, Kind: "add", K: k, Tag: fmt.Sprintf("s%d.%d", i, k), Size: 1})
			}
		}
		if len(seed) > 0 {
			h.Txns = append(h.Txns, txh.TxnProg{Mode: sop.ForWriting, End: "commit", Ops: seed})
		}
		var ops []txh.Op
		for i := 0; i < ns; i++ {
			for j, n := 0, rapid.IntRange(1, 3).Draw(t, fmt.Sprintf("adds%d", i)); j < n; j++ {
				ops = append(ops, txh.Op{S: i, Kind: "add", K: 10 + j, Tag: fmt.Sprintf("v%d.%d", i, j), Size: 10})
			}
		}
		h.Txns = append(h.Txns, txh.TxnProg{Mode: sop.ForWriting, End: "commit", Ops: ops})
		victim := len(h.Txns) - 1
		bad := rapid.IntRange(0, ns-1).Draw(t, "unwritableStore")

		e, pre, err := prepare(h, victim)
		if err != nil {
			t.Fatalf("%v\n%s", err, h.Render())
		}
		defer e.Cleanup()
		file := filepath.Join(e.Dir, h.Stores[bad].Name, "storeinfo.txt")
		saved := file + ".saved"
		post, res := e.RunTxn(h.Txns[victim], h.Stores, pre, txh.RunOpts{MaxTime: 8 * time.Second, BeforeCommit: func(tx *txh.Txn) {
			if err := os.Rename(file, saved); err != nil {
				t.Fatalf("HARNESS-ERROR %v", err)
			}
			if err := os.Mkdir(file, 0o755); err != nil {
				t.Fatalf("HARNESS-ERROR %v", err)
			}
		}})
		os.Remove(file)
		if err := os.Rename(saved, file); err != nil {
			t.Fatalf("HARNESS-ERROR %v", err)
		}
		out := faultOutcome{Site: "write of " + h.Stores[bad].Name + "/storeinfo.txt inside StoreRepository.Update", CommitErr: res.CommitErr, Committed: res.Committed}
		if msg := judgeFault(e, h, victim, pre, post, out, res, true); msg != "" {
			t.Fatalf("%s\n  %s", msg, h.Render())
		}
		rec.Case(fmt.Sprintf("storeinfo %s bad=%d", h.Render(), bad), !res.Committed, "site:storeInfoFileWriteFails", fmt.Sprintf("stores%d", ns))
	})
}
