package txn

import (
	"fmt"
	"os"
	"path/filepath"
	"testing"
	"time"

	"github.com/sharedcode/sop"
	"pgregory.net/rapid"

	"verif/harness/stats"
	"verif/harness/txh"
)

// TestC06_FailedCommitThatAlsoCreatesAStore: the victim reads one existing store, creates a NEW store (and adds to
// it) and changes the item count of another existing store - in a drawn order - and its Commit fails at a drawn
// backend call (every call of the commit in turn). Afterwards: the existing stores read exactly as before, Count()
// included; the new store does not exist; the same transaction without a fault commits and everything then equals
// the post-state.
func TestC06_FailedCommitThatAlsoCreatesAStore(t *testing.T) {
	rec := stats.For("C06")
	knownLockVerify := stats.Known("C07", "item-lock-verify-failure-leaks-locks")
	rapid.Check(t, func(t *rapid.T) {
		placement := func(l string) int { return rapid.SampledFrom([]int{0, 0, 1, 3}).Draw(t, l) }
		stores := []txh.StoreOpts{
			{Name: "ro", Slot: 4, Unique: true, Placement: placement("p0")},
			{Name: "cnt", Slot: rapid.SampledFrom([]int{2, 4, 8}).Draw(t, "slot"), Unique: true, Placement: placement("p1")},
			{Name: "fresh", Slot: 4, Unique: true, Placement: placement("p2")},
		}
		h := txh.History{HashMod: rapid.SampledFrom([]int{1, 3}).Draw(t, "hashMod"), UUIDSeed: rapid.Uint64().Draw(t, "uuidSeed"), Stores: stores}
		e, err := txh.NewEnv(h.HashMod)
		if err != nil {
			t.Fatalf("%v", err)
		}
		defer e.Cleanup()
		txh.SeedUUIDs(h.UUIDSeed)
		if err := e.Setup(stores[:2]); err != nil {
			t.Fatalf("HARNESS-ERROR %v", err)
		}
		models := []*txh.Model{{Unique: true}, {Unique: true}, {Unique: true}}
		seed := txh.TxnProg{Mode: sop.ForWriting, End: "commit", Ops: []txh.Op{{S: 0, Kind: "add", K: 1, Tag: "r1"}, {S: 0, Kind: "add", K: 2, Tag: "r2"},
			{S: 1, Kind: "add", K: 1, Tag: "c1"}, {S: 1, Kind: "add", K: 2, Tag: "c2"}}}
		var res txh.TxnResult
		m2, res := e.RunTxn(seed, stores[:2], models[:2], txh.RunOpts{})
		if res.OpErr != nil || res.CommitErr != nil || res.Mismatch != "" {
			t.Fatalf("HARNESS-ERROR seed: %v %v %s", res.OpErr, res.CommitErr, res.Mismatch)
		}
		pre := []*txh.Model{m2[0], m2[1], {Unique: true}}
		// the victim: blocks of operations per store, in a drawn order
		blocks := [][]txh.Op{
			{{S: 0, Kind: "findGet", K: 1}},
			{{S: 2, Kind: "add", K: 7, Tag: "n7", Size: 10}},
			{},
		}
		for j, n := 0, rapid.IntRange(1, 3).Draw(t, "adds"); j < n; j++ {
			blocks[2] = append(blocks[2], txh.Op{S: 1, Kind: "add", K: 10 + j, Tag: fmt.Sprintf("a%d", j), Size: 10})
		}
		if rapid.Bool().Draw(t, "alsoRemove") {
			blocks[2] = append(blocks[2], txh.Op{S: 1, Kind: "remove", K: 1})
			blocks[2] = append(blocks[2], txh.Op{S: 1, Kind: "remove", K: 2})
		}
		var ops []txh.Op
		for _, b := range rapid.Permutation([]int{0, 1, 2}).Draw(t, "order") {
			ops = append(ops, blocks[b]...)
		}
		victim := txh.TxnProg{Mode: sop.ForWriting, End: "commit", Ops: ops}
		desc := fmt.Sprintf("%s / %s / %s victim %s", txh.PlacementNames[stores[0].Placement], txh.PlacementNames[stores[1].Placement], txh.PlacementNames[stores[2].Placement], victim)
		// dry run on a copy of the directory is not available: count the calls with a first, faultless environment
		sites := dryCommitCalls(t, h, seed, victim)
		var allowed []int
		for i, sn := range sites {
			if knownLockVerify && (sn == "L2.GetStructs" || sn == "L2.SetStructs") {
				continue // recorded C07 finding: a fault in the item-lock write/verify calls leaks the locks
			}
			allowed = append(allowed, i)
		}
		if len(allowed) < len(sites) {
			rec.Exclude("fault in the item-lock write/verify calls (known C07 finding)")
		}
		k := rapid.SampledFrom(allowed).Draw(t, "faultAt")
		var before int
		site := ""
		post, vr := e.RunTxn(victim, stores, pre, txh.RunOpts{Create: true, MaxTime: 8 * time.Second, BeforeCommit: func(tx *txh.Txn) {
			before = tx.Calls()
			tx.SetHook(func(s txh.Site) txh.Action {
				if !s.After && s.N-before == k && site == "" {
					site = s.Name()
					return txh.Action{Err: txh.ErrInjected}
				}
				return txh.Action{}
			})
		}})
		if vr.Txn != nil {
			vr.Txn.SetHook(nil)
		}
		if vr.OpErr != nil || vr.Mismatch != "" {
			t.Fatalf("victim operations: %v %s\n%s", vr.OpErr, vr.Mismatch, desc)
		}
		judge := func(when string, want []*txh.Model, freshExists bool) {
			d, err := e.Dump(stores, sop.ForReading)
			if err != nil {
				t.Fatalf("%s: fresh reader: %v\n%s", when, err, desc)
			}
			for i := 0; i < 2; i++ {
				if why := txh.CheckDump(d[i:i+1], stores[i:i+1], want[i:i+1]); why != "" {
					t.Fatalf("%s: %s\n%s", when, why, desc)
				}
			}
			_, statErr := os.Stat(filepath.Join(e.Dir, "fresh"))
			if freshExists {
				if why := txh.CheckDump(d[2:], stores[2:], want[2:]); why != "" {
					t.Fatalf("%s: %s\n%s", when, why, desc)
				}
			} else if d[2].Exists || statErr == nil {
				t.Fatalf("%s: the store created by the failed transaction is still there (opens: %v, folder: %v)\n%s", when, d[2].Exists, statErr == nil, desc)
			}
		}
		if vr.Committed {
			judge(fmt.Sprintf("fault at %s tolerated, commit returned nil", site), post, true)
			rec.Case("created "+desc+fmt.Sprintf(" k=%d", k), false, "createdStoreAmongOthers", "toleratedFault")
			return
		}
		judge(fmt.Sprintf("commit failed at call %d (%s): %v", k, site, vr.CommitErr), pre, false)
		post2, rr := e.RunTxn(victim, stores, pre, txh.RunOpts{Create: true, MaxTime: 6 * time.Second})
		if rr.OpErr != nil || rr.CommitErr != nil || rr.Mismatch != "" {
			t.Fatalf("after the commit that failed at %s: the same transaction without a fault does not go through: %v %v %s\n%s", site, rr.OpErr, rr.CommitErr, rr.Mismatch, desc)
		}
		judge(fmt.Sprintf("after the retry of the commit that failed at %s", site), post2, true)
		rec.Case("created "+desc+fmt.Sprintf(" k=%d", k), true, "createdStoreAmongOthers", "site:"+site)
	})
}

// dryCommitCalls runs seed + victim without faults in an environment of its own and returns how many backend
// calls the victim's Commit makes.
func dryCommitCalls(t *rapid.T, h txh.History, seed, victim txh.TxnProg) []string {
	e, err := txh.NewEnv(h.HashMod)
	if err != nil {
		t.Fatalf("%v", err)
	}
	defer e.Cleanup()
	txh.SeedUUIDs(h.UUIDSeed)
	if err := e.Setup(h.Stores[:2]); err != nil {
		t.Fatalf("HARNESS-ERROR %v", err)
	}
	models := []*txh.Model{{Unique: true}, {Unique: true}}
	m2, res := e.RunTxn(seed, h.Stores[:2], models, txh.RunOpts{})
	if res.CommitErr != nil {
		t.Fatalf("HARNESS-ERROR %v", res.CommitErr)
	}
	before := 0
	_, vr := e.RunTxn(victim, h.Stores, []*txh.Model{m2[0], m2[1], {Unique: true}}, txh.RunOpts{Create: true, BeforeCommit: func(tx *txh.Txn) { before = tx.Calls() }})
	if vr.CommitErr != nil || vr.OpErr != nil || vr.Txn == nil {
		t.Fatalf("fault-free run of the victim: %v %v", vr.OpErr, vr.CommitErr)
	}
	var names []string
	for _, st := range vr.Txn.Trace[before:] {
		names = append(names, st.Comp+"."+st.Method)
	}
	if len(names) == 0 {
		t.Fatalf("HARNESS-ERROR the victim's commit made no backend call")
	}
	return names
}
