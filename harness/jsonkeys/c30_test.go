package jsonkeys

// C30 - JSON map-key stores order keys consistently, regardless of history.
//
// Subjects (all reached from outside package jsondb):
//   * jsondb.IndexSpecification.Comparer, called directly;
//   * the default field-wise comparer and the index-spec comparer as wired into a store by
//     jsondb.NewJsonBtreeMapKey / OpenJsonBtreeMapKey (a reopened store = a fresh comparer, which
//     is exactly what a second process gets).
//
// Keys are what JSON decodes to: maps whose fields are missing, nil, bool, float64 or string.
//
// Oracles
//   history independence  a brand-new comparer and one that first processed a generated history
//                         of comparisons give the same sign for the same ordered pair;
//   order axioms          on ONE comparer: reflexive, antisymmetric, transitive over a triple;
//   documented direction  for a pair whose deciding fields are number/number, string/string or
//                         absent/absent the sign is the field-wise natural order with the
//                         field's ascending/descending flag (IndexFieldSpecification doc);
//   store                 a store filled through one handle and reopened finds every stored key,
//                         scans the same multiset, and scans in non-decreasing reference order
//                         wherever the reference is defined.
//
// Known finding "first-seen-type-comparer": both comparers pick btree.CoerceComparer(value) per
// field from the first key they ever see (and the default comparer also fixes the field list from
// that key). When - and only when - that finding is listed in known_findings.json the generator
// removes that class by construction (see c30Listed) and counts the removals.

import (
	"context"
	"encoding/json"
	"fmt"
	"os"
	"sort"
	"strings"
	"sync/atomic"
	"testing"

	"github.com/sharedcode/sop"
	_ "github.com/sharedcode/sop/cache" // registers the in-memory L2 cache
	"github.com/sharedcode/sop/database"
	"github.com/sharedcode/sop/jsondb"
	"pgregory.net/rapid"

	"verif/harness/stats"
)

const c30Slug = "first-seen-type-comparer"

func c30Listed() bool { return stats.Known("C30", c30Slug) }

var c30Fields = []string{"a", "b", "c"}

type c30Key = map[string]any

// value kinds
const (
	kMissing = "missing"
	kNil     = "nil"
	kBool    = "bool"
	kNum     = "number"
	kStr     = "string"
)

func c30Kind(k c30Key, f string) string {
	v, ok := k[f]
	if !ok {
		return kMissing
	}
	switch v.(type) {
	case nil:
		return kNil
	case bool:
		return kBool
	case float64:
		return kNum
	case string:
		return kStr
	}
	panic(fmt.Sprintf("HARNESS-ERROR: generator produced a non-JSON value %T", v))
}

// c30Class is the comparer SOP would pick for a value: CoerceComparer has a float64 case, a
// string case, and one default case for everything else a JSON key can hold.
func c30Class(kind string) string {
	switch kind {
	case kNum:
		return "float64"
	case kStr:
		return "string"
	}
	return "default"
}

var c30Nums = []float64{0, 1, -1, 9, 10, 2.5, -10, 100, 1e21, -0.5}
var c30Strs = []string{"", "10", "9", "a", "b", "ab", "true", "false", "<nil>", "0", "1", "-1", "B"}

func c30DrawValue(t *rapid.T, kind string) (any, bool) {
	switch kind {
	case kMissing:
		return nil, false
	case kNil:
		return nil, true
	case kBool:
		return rapid.Bool().Draw(t, "bool"), true
	case kNum:
		if rapid.IntRange(0, 3).Draw(t, "numEdge") > 0 {
			return rapid.SampledFrom(c30Nums).Draw(t, "num"), true
		}
		return float64(rapid.IntRange(-50, 50).Draw(t, "numI")) / 4, true
	default:
		if rapid.IntRange(0, 3).Draw(t, "strEdge") > 0 {
			return rapid.SampledFrom(c30Strs).Draw(t, "str"), true
		}
		return rapid.StringMatching(`[0-9a-b]{0,3}`).Draw(t, "strR"), true
	}
}

var c30Kinds = []string{kMissing, kNil, kBool, kNum, kStr}

// c30DrawKey draws one key; fieldKind[f] != "" pins the kind of field f.
func c30DrawKey(t *rapid.T, fieldKind map[string]string) c30Key {
	k := c30Key{}
	for _, f := range c30Fields {
		kind := fieldKind[f]
		if kind == "" {
			kind = rapid.SampledFrom(c30Kinds).Draw(t, "kind_"+f)
		}
		if v, present := c30DrawValue(t, kind); present {
			k[f] = v
		}
	}
	return k
}

// c30Near returns a copy of k with one field redrawn in the same kind (near-equal keys).
func c30Near(t *rapid.T, k c30Key) c30Key {
	out := c30Key{}
	for f, v := range k {
		out[f] = v
	}
	if rapid.IntRange(0, 2).Draw(t, "nearSame") == 0 {
		return out
	}
	f := rapid.SampledFrom(c30Fields).Draw(t, "nearField")
	if v, present := c30DrawValue(t, c30Kind(k, f)); present {
		out[f] = v
	}
	return out
}

func c30Render(k c30Key) string {
	parts := []string{}
	for _, f := range c30Fields {
		if v, ok := k[f]; ok {
			b, _ := json.Marshal(v)
			parts = append(parts, f+":"+string(b))
		}
	}
	return "{" + strings.Join(parts, ",") + "}"
}

type c30FieldSpec struct {
	name string
	asc  bool
}

func c30DrawSpec(t *rapid.T) []c30FieldSpec {
	perm := rapid.Permutation(c30Fields).Draw(t, "specFields")
	n := rapid.IntRange(1, 3).Draw(t, "specLen")
	out := make([]c30FieldSpec, n)
	for i := range out {
		out[i] = c30FieldSpec{perm[i], rapid.Bool().Draw(t, "asc_"+perm[i])}
	}
	return out
}

func c30RenderSpec(s []c30FieldSpec) string {
	parts := make([]string, len(s))
	for i, f := range s {
		d := "desc"
		if f.asc {
			d = "asc"
		}
		parts[i] = f.name + " " + d
	}
	return "[" + strings.Join(parts, ",") + "]"
}

func c30NewSpec(s []c30FieldSpec) *jsondb.IndexSpecification {
	fs := make([]jsondb.IndexFieldSpecification, len(s))
	for i, f := range s {
		fs[i] = jsondb.IndexFieldSpecification{FieldName: f.name, AscendingSortOrder: f.asc}
	}
	return jsondb.NewIndexSpecification(fs)
}

// c30Ref is the documented order: field by field, numbers by <, strings byte-wise, two absent
// values equal, reversed for a descending field. ok=false as soon as a deciding field pair is
// anything else (mixed kinds, bool): nothing is asserted there.
func c30Ref(s []c30FieldSpec, x, y c30Key) (int, bool) {
	for _, f := range s {
		kx, ky := c30Kind(x, f.name), c30Kind(y, f.name)
		r := 0
		switch {
		case kx == kNum && ky == kNum:
			a, b := x[f.name].(float64), y[f.name].(float64)
			if a < b {
				r = -1
			} else if a > b {
				r = 1
			}
		case kx == kStr && ky == kStr:
			r = strings.Compare(x[f.name].(string), y[f.name].(string))
		case (kx == kNil || kx == kMissing) && (ky == kNil || ky == kMissing):
		default:
			return 0, false
		}
		if r != 0 {
			if !f.asc {
				r = -r
			}
			return r, true
		}
	}
	return 0, true
}

func c30Sign(i int) int {
	if i < 0 {
		return -1
	}
	if i > 0 {
		return 1
	}
	return 0
}

func c30Meta() *stats.Rec {
	return stats.For("C30").Meta("exploration",
		"non-trivial = there is a history and, for some compared field, its first comparison holds a value kind (missing/nil/bool/number/string) that neither key of the probe pair has (store test: the keys handed to the first handle hold two kinds in one compared field, or the case has two or more keys and the reopened handle probes in a different order); distinct by rendered spec+history+probe",
		"keys are flat maps over fields a,b,c with JSON-decoded value types only (float64 finite)",
		"the reference direction is asserted only for number/number, string/string and absent/absent field pairs",
		"a reopened store handle stands for a second process: the comparer state lives in the handle")
}

// TestC30_IndexSpec: the exported comparer, directly.
func TestC30_IndexSpec(t *testing.T) {
	rec := c30Meta()
	listed := c30Listed()
	rapid.Check(t, func(t *rapid.T) {
		spec := c30DrawSpec(t)
		// uniform cases pin one kind per field for every key of the case
		pin := map[string]string{}
		uniform := rapid.IntRange(0, 3).Draw(t, "uniform") == 0
		if uniform {
			for _, f := range c30Fields {
				pin[f] = rapid.SampledFrom(c30Kinds).Draw(t, "pin_"+f)
			}
		}
		var probe [3]c30Key
		probe[0] = c30DrawKey(t, pin)
		for i := 1; i < 3; i++ {
			if rapid.Bool().Draw(t, "probeNear") {
				probe[i] = c30Near(t, probe[rapid.IntRange(0, i-1).Draw(t, "nearOf")])
			} else {
				probe[i] = c30DrawKey(t, pin)
			}
		}
		nh := rapid.IntRange(0, 5).Draw(t, "historyLen")
		hist := make([][2]c30Key, nh)
		for i := range hist {
			hist[i][0] = c30DrawKey(t, pin)
			if rapid.Bool().Draw(t, "histNear") {
				hist[i][1] = c30Near(t, hist[i][0]) // ties on leading fields reach the later fields
			} else {
				hist[i][1] = c30DrawKey(t, pin)
			}
		}

		// The comparer of field f is coerced from the FIRST argument of whichever comparison
		// reaches f first. Known-finding class = that argument's comparer class differs from the
		// class the probe's first key would select. Listed: retype those history arguments.
		firstClass := map[string]string{}
		for _, f := range spec {
			firstClass[f.name] = c30Class(c30Kind(probe[0], f.name))
		}
		if listed {
			changed := false
			for i := range hist {
				for _, f := range spec {
					if c30Class(c30Kind(hist[i][0], f.name)) != firstClass[f.name] {
						changed = true
						if v, present := c30DrawValue(t, c30Kind(probe[0], f.name)); present {
							hist[i][0][f.name] = v
						} else {
							delete(hist[i][0], f.name)
						}
					}
				}
			}
			if changed {
				rec.Exclude("index spec: history first-argument retyped to the comparer class of the probe's first key (" + c30Slug + ")")
			}
		}
		describe := func() string {
			var b strings.Builder
			fmt.Fprintf(&b, "spec %s\n", c30RenderSpec(spec))
			for i, h := range hist {
				fmt.Fprintf(&b, " history[%d] Comparer(%s, %s)\n", i, c30Render(h[0]), c30Render(h[1]))
			}
			fmt.Fprintf(&b, " probe x=%s y=%s z=%s", c30Render(probe[0]), c30Render(probe[1]), c30Render(probe[2]))
			return b.String()
		}

		seasoned := c30NewSpec(spec)
		for _, h := range hist {
			seasoned.Comparer(h[0], h[1])
		}
		// pairs whose first key selects the same comparers as probe[0] (all pairs when unlisted)
		eligible := func(p c30Key) bool {
			if !listed {
				return true
			}
			for _, f := range spec {
				if c30Class(c30Kind(p, f.name)) != firstClass[f.name] {
					return false
				}
			}
			return true
		}
		var s [3][3]int
		nPairs, nRef := 0, 0
		for i := 0; i < 3; i++ {
			for j := 0; j < 3; j++ {
				if !eligible(probe[i]) {
					continue
				}
				fresh := c30Sign(c30NewSpec(spec).Comparer(probe[i], probe[j]))
				got := c30Sign(seasoned.Comparer(probe[i], probe[j]))
				nPairs++
				if fresh != got {
					t.Fatalf("history dependent: a fresh comparer says Comparer(p,q)=%d, the comparer that processed the history says %d\n p=%s q=%s\n%s",
						fresh, got, c30Render(probe[i]), c30Render(probe[j]), describe())
				}
				if want, ok := c30Ref(spec, probe[i], probe[j]); ok {
					nRef++
					if fresh != want {
						t.Fatalf("wrong order: Comparer(p,q)=%d, documented field-wise order says %d\n p=%s q=%s\n%s",
							fresh, want, c30Render(probe[i]), c30Render(probe[j]), describe())
					}
				}
			}
		}
		// order axioms on the one seasoned comparer, every ordered pair
		for i := 0; i < 3; i++ {
			for j := 0; j < 3; j++ {
				s[i][j] = c30Sign(seasoned.Comparer(probe[i], probe[j]))
			}
		}
		for i := 0; i < 3; i++ {
			if s[i][i] != 0 {
				t.Fatalf("not reflexive: Comparer(p,p)=%d p=%s\n%s", s[i][i], c30Render(probe[i]), describe())
			}
			for j := 0; j < 3; j++ {
				if s[i][j] != -s[j][i] {
					t.Fatalf("not antisymmetric on one comparer: (p,q)=%d (q,p)=%d p=%s q=%s\n%s", s[i][j], s[j][i], c30Render(probe[i]), c30Render(probe[j]), describe())
				}
				for l := 0; l < 3; l++ {
					if s[i][j] <= 0 && s[j][l] <= 0 {
						strict := s[i][j] < 0 || s[j][l] < 0
						if s[i][l] > 0 || (strict && s[i][l] == 0) {
							t.Fatalf("not transitive on one comparer: (p,q)=%d (q,r)=%d (p,r)=%d p=%s q=%s r=%s\n%s",
								s[i][j], s[j][l], s[i][l], c30Render(probe[i]), c30Render(probe[j]), c30Render(probe[l]), describe())
						}
					}
				}
			}
		}

		// ---- what was generated
		nontrivial := false
		if nh > 0 {
			for _, f := range spec {
				for _, hk := range hist[0] {
					k := c30Kind(hk, f.name)
					if k != c30Kind(probe[0], f.name) && k != c30Kind(probe[1], f.name) {
						nontrivial = true
					}
				}
			}
		}
		labels := []string{"subject:indexspec", fmt.Sprintf("specLen:%d", len(spec)), fmt.Sprintf("historyLen:%d", nh)}
		if uniform {
			labels = append(labels, "uniformKinds")
		} else {
			labels = append(labels, "mixedKinds")
		}
		mixedProbe := false
		hasDesc := false
		for _, f := range spec {
			if c30Kind(probe[0], f.name) != c30Kind(probe[1], f.name) {
				mixedProbe = true
			}
			if !f.asc {
				hasDesc = true
			}
		}
		if hasDesc {
			labels = append(labels, "hasDescField")
		}
		if mixedProbe {
			labels = append(labels, "probePairMixedKinds")
		}
		if nRef > 0 {
			labels = append(labels, "referenceDefined")
		}
		if s[0][1] == 0 {
			labels = append(labels, "probePairEqual")
		}
		// did the deciding field lie beyond the first one?
		if len(spec) > 1 {
			one := c30Sign(c30NewSpec(spec[:1]).Comparer(probe[0], probe[1]))
			if one == 0 && s[0][1] != 0 {
				labels = append(labels, "decidedByLaterField")
			}
		}
		rec.LabelN("pairsComparedFreshVsSeasoned", int64(nPairs))
		rec.Case("spec|"+describe(), nontrivial, labels...)
		rec.Sample("indexspec", describe())
	})
}

// ---------------------------------------------------------------- store level

var c30StoreSeq atomic.Int64

type c30StoreCase struct {
	spec     []c30FieldSpec // nil = default field-wise comparer
	keys     []c30Key       // in insertion order through the first handle
	probeOrd []int          // order in which the reopened handle looks the keys up
	slotLen  int
}

func (c c30StoreCase) String() string {
	var b strings.Builder
	if c.spec == nil {
		b.WriteString("default comparer")
	} else {
		b.WriteString("spec " + c30RenderSpec(c.spec))
	}
	fmt.Fprintf(&b, " slotLength=%d\n insert:", c.slotLen)
	for _, k := range c.keys {
		b.WriteString(" " + c30Render(k))
	}
	fmt.Fprintf(&b, "\n reopen, Find in order %v", c.probeOrd)
	return b.String()
}

func c30SpecJSON(s []c30FieldSpec) string {
	if s == nil {
		return ""
	}
	b, err := json.Marshal(c30NewSpec(s))
	if err != nil {
		panic("HARNESS-ERROR: cannot marshal index specification: " + err.Error())
	}
	return string(b)
}

// c30ComparedFields: the fields the documented order looks at. Default comparer: the key's
// fields sorted by name, ascending (only defined when all keys have the same field set).
func c30ComparedFields(c c30StoreCase) ([]c30FieldSpec, bool) {
	if c.spec != nil {
		return c.spec, true
	}
	names := func(k c30Key) string {
		n := []string{}
		for f := range k {
			n = append(n, f)
		}
		sort.Strings(n)
		return strings.Join(n, ",")
	}
	if len(c.keys) == 0 {
		return nil, false
	}
	first := names(c.keys[0])
	for _, k := range c.keys[1:] {
		if names(k) != first {
			return nil, false
		}
	}
	out := []c30FieldSpec{}
	if first != "" {
		for _, f := range strings.Split(first, ",") {
			out = append(out, c30FieldSpec{f, true})
		}
	}
	return out, true
}

// c30RunStore executes one store case; fail is called with a message on a violation.
func c30RunStore(c c30StoreCase, fail func(format string, args ...any)) (scan []c30Key) {
	ctx := context.Background()
	dir, err := os.MkdirTemp("", "c30-")
	if err != nil {
		fail("HARNESS-ERROR: temp dir: %v", err)
		return nil
	}
	defer os.RemoveAll(dir)
	name := fmt.Sprintf("c30s%d", c30StoreSeq.Add(1))
	opts := sop.DatabaseOptions{StoresFolders: []string{dir}, CacheType: sop.InMemory, RegistryHashModValue: 4}

	tr, err := database.BeginTransaction(ctx, opts, sop.ForWriting)
	if err != nil {
		fail("HARNESS-ERROR: begin: %v", err)
		return nil
	}
	st, err := jsondb.NewJsonBtreeMapKey(ctx, opts, sop.StoreOptions{Name: name, SlotLength: c.slotLen, IsValueDataInNodeSegment: true}, tr, c30SpecJSON(c.spec))
	if err != nil {
		tr.Rollback(ctx)
		fail("HARNESS-ERROR: NewJsonBtreeMapKey: %v", err)
		return nil
	}
	for i, k := range c.keys {
		cp := c30Key{}
		for f, v := range k {
			cp[f] = v
		}
		ok, err := st.BtreeInterface.Add(ctx, cp, any(fmt.Sprintf("v%d", i)))
		if err != nil || !ok {
			tr.Rollback(ctx)
			fail("Add(%s) into a non-unique store = %v, %v\n%s", c30Render(k), ok, err, c)
			return nil
		}
	}
	// the writing handle itself must find what it just stored
	for _, k := range c.keys {
		ok, err := st.BtreeInterface.Find(ctx, k, false)
		if err != nil || !ok {
			tr.Rollback(ctx)
			fail("the handle that stored %s does not find it (ok=%v err=%v)\n%s", c30Render(k), ok, err, c)
			return nil
		}
	}
	if err := tr.Commit(ctx); err != nil {
		fail("HARNESS-ERROR: commit: %v", err)
		return nil
	}

	tr, err = database.BeginTransaction(ctx, opts, sop.ForReading)
	if err != nil {
		fail("HARNESS-ERROR: begin 2: %v", err)
		return nil
	}
	defer tr.Rollback(ctx)
	st2, err := jsondb.OpenJsonBtreeMapKey(ctx, opts, name, tr)
	if err != nil {
		fail("HARNESS-ERROR: OpenJsonBtreeMapKey: %v", err)
		return nil
	}
	for _, i := range c.probeOrd {
		ok, err := st2.BtreeInterface.Find(ctx, c.keys[i], false)
		if err != nil {
			fail("Find(%s) on the reopened store: %v\n%s", c30Render(c.keys[i]), err, c)
			return nil
		}
		if !ok {
			fail("a committed key is not found by a reopened handle (fresh comparer): Find(%s)=false\n%s", c30Render(c.keys[i]), c)
			return nil
		}
	}
	ok, err := st2.First(ctx)
	for ok && err == nil {
		scan = append(scan, st2.BtreeInterface.GetCurrentKey().Key)
		if len(scan) > len(c.keys)+1 {
			break
		}
		ok, err = st2.Next(ctx)
	}
	if err != nil {
		fail("scan of the reopened store: %v\n%s", err, c)
		return nil
	}
	want, got := []string{}, []string{}
	for _, k := range c.keys {
		want = append(want, c30Render(k))
	}
	for _, k := range scan {
		got = append(got, c30Render(k))
	}
	ws, gs := append([]string{}, want...), append([]string{}, got...)
	sort.Strings(ws)
	sort.Strings(gs)
	if strings.Join(ws, " ") != strings.Join(gs, " ") {
		fail("the reopened store scans a different multiset of keys\n stored %v\n scan   %v\n%s", want, got, c)
		return nil
	}
	if fields, ok := c30ComparedFields(c); ok {
		for i := 0; i+1 < len(scan); i++ {
			if r, ok := c30Ref(fields, scan[i], scan[i+1]); ok && r > 0 {
				fail("scan order contradicts the documented field-wise order: %s before %s\n scan %v\n%s", got[i], got[i+1], got, c)
				return nil
			}
		}
	}
	return scan
}

// TestC30_Store: default comparer and index-spec comparer as wired into a real store.
func TestC30_Store(t *testing.T) {
	rec := c30Meta()
	listed := c30Listed()
	rapid.Check(t, func(t *rapid.T) {
		c := c30StoreCase{slotLen: rapid.SampledFrom([]int{2, 4, 8}).Draw(t, "slotLength")}
		if rapid.Bool().Draw(t, "useSpec") {
			c.spec = c30DrawSpec(t)
		}
		pin := map[string]string{}
		uniform := listed || rapid.IntRange(0, 2).Draw(t, "uniform") == 0
		if uniform {
			for _, f := range c30Fields {
				pin[f] = rapid.SampledFrom(c30Kinds).Draw(t, "pin_"+f)
			}
		}
		n := rapid.IntRange(1, stats.Pick(9, 14)).Draw(t, "nKeys")
		for i := 0; i < n; i++ {
			if i > 0 && rapid.IntRange(0, 2).Draw(t, "keyNear") == 0 {
				c.keys = append(c.keys, c30Near(t, c.keys[rapid.IntRange(0, i-1).Draw(t, "nearOf")]))
			} else {
				c.keys = append(c.keys, c30DrawKey(t, pin))
			}
		}
		if listed {
			// Known-finding class at store level: any two keys whose compared fields select
			// different comparers (or, for the default comparer, different field lists). With one
			// kind per field for the whole case, only nil/bool may still mix - they share the
			// default comparer - so let them.
			rec.Exclude("store: keys restricted to one comparer class per field and one field set (" + c30Slug + ")")
			for _, f := range c30Fields {
				if pin[f] == kNil || pin[f] == kBool {
					for _, k := range c.keys {
						if rapid.Bool().Draw(t, "nilOrBool") {
							k[f] = nil
						} else {
							k[f] = rapid.Bool().Draw(t, "b")
						}
					}
				}
			}
		}
		c.probeOrd = rapid.Permutation(func() []int {
			o := make([]int, n)
			for i := range o {
				o[i] = i
			}
			return o
		}()).Draw(t, "probeOrder")

		scan := c30RunStore(c, func(format string, args ...any) { t.Fatalf(format, args...) })

		fields, refOK := c30ComparedFields(c)
		twoKinds := false
		cmpFields := c30Fields
		if c.spec != nil {
			cmpFields = nil
			for _, f := range c.spec {
				cmpFields = append(cmpFields, f.name)
			}
		}
		for _, f := range cmpFields {
			for _, k := range c.keys[1:] {
				if c30Kind(k, f) != c30Kind(c.keys[0], f) {
					twoKinds = true
				}
			}
		}
		reordered := false
		for i, p := range c.probeOrd {
			if i != p {
				reordered = true
			}
		}
		labels := []string{"subject:store", fmt.Sprintf("slotLength:%d", c.slotLen)}
		if c.spec == nil {
			labels = append(labels, "store:defaultComparer")
		} else {
			labels = append(labels, "store:indexSpec")
		}
		if twoKinds {
			labels = append(labels, "store:twoKindsInOneField")
		}
		if n > c.slotLen {
			labels = append(labels, "store:multiNode")
		}
		if refOK && len(fields) > 0 {
			labels = append(labels, "store:referenceOrderDefined")
		}
		_ = scan
		rec.Case("store|"+c.String(), twoKinds || (n >= 2 && reordered), labels...)
		rec.Sample("store", c.String())
	})
}

// ---------------------------------------------------------------- the recorded finding

// TestC30_Known_first_seen_type_comparer reproduces the finding without rapid. It prints the
// KNOWN-FINDING line while the defect is there and passes silently once it is gone. Skipped
// until the main session lists the finding.
func TestC30_Known_first_seen_type_comparer(t *testing.T) {
	if !c30Listed() {
		t.Skip("not listed")
	}
	rec := c30Meta()
	reproduced := []string{}

	// (1) exported comparer: nil seen first -> numbers are compared as formatted text
	spec := []c30FieldSpec{{"a", true}}
	fresh := c30NewSpec(spec).Comparer(c30Key{"a": 10.0}, c30Key{"a": 9.0})
	seasoned := c30NewSpec(spec)
	seasoned.Comparer(c30Key{"a": nil}, c30Key{"a": nil})
	if got := seasoned.Comparer(c30Key{"a": 10.0}, c30Key{"a": 9.0}); c30Sign(got) != c30Sign(fresh) {
		reproduced = append(reproduced, fmt.Sprintf("IndexSpecification.Comparer({a:10},{a:9}) is %d on a fresh comparer but %d after Comparer({a:null},{a:null})", fresh, got))
	}
	// (2) number seen first -> all strings compare equal
	fresh = c30NewSpec(spec).Comparer(c30Key{"a": "x"}, c30Key{"a": "y"})
	seasoned = c30NewSpec(spec)
	seasoned.Comparer(c30Key{"a": 1.0}, c30Key{"a": 2.0})
	if got := seasoned.Comparer(c30Key{"a": "x"}, c30Key{"a": "y"}); c30Sign(got) != c30Sign(fresh) {
		reproduced = append(reproduced, fmt.Sprintf("Comparer({a:\"x\"},{a:\"y\"}) is %d fresh but %d after a number was seen first", fresh, got))
	}
	// (3) store level, default comparer: a committed key is not found after reopening
	for _, c := range c30KnownStoreCases() {
		msg := ""
		c30RunStore(c, func(format string, args ...any) {
			if msg == "" {
				msg = fmt.Sprintf(format, args...)
			}
		})
		if strings.Contains(msg, "HARNESS-ERROR") {
			t.Fatal(msg)
		}
		if msg != "" {
			keys := []string{}
			for _, k := range c.keys {
				keys = append(keys, c30Render(k))
			}
			how := "default comparer"
			if c.spec != nil {
				how = "index spec " + c30RenderSpec(c.spec)
			}
			reproduced = append(reproduced, fmt.Sprintf("store (%s) filled with %s, committed, reopened: %s", how, strings.Join(keys, " "),
				strings.TrimPrefix(strings.SplitN(msg, "\n", 2)[0], "a committed key is not found by a reopened handle (fresh comparer): ")))
		}
	}
	if len(reproduced) > 0 {
		rec.KnownFinding(fmt.Sprintf("%s: the comparer fixes each field's comparer (and the default comparer its field list) from the first key it sees, so the order depends on history; %d reproductions: %s",
			c30Slug, len(reproduced), strings.Join(reproduced, " | ")))
	}
}

// c30KnownStoreCases are the minimised store-level reproductions (filled from shrunk failures).
func c30KnownStoreCases() []c30StoreCase {
	return []c30StoreCase{
		// type flavour, default comparer: the writer coerces a float64 comparer from {a:-1}
		// (null counts as 0, so the node is [-1, null, 9]); the reader's first comparison has
		// {a:null} on the left, coerces the fmt.Sprintf fallback and searches to the right of it.
		{keys: []c30Key{{"a": -1.0}, {"a": nil}, {"a": 9.0}}, probeOrd: []int{0, 1, 2}, slotLen: 4},
		// same through a stored index specification
		{spec: []c30FieldSpec{{"a", true}}, keys: []c30Key{{"a": -1.0}, {"a": nil}, {"a": 9.0}}, probeOrd: []int{0, 1, 2}, slotLen: 4},
		// field-list flavour, default comparer: the field list is taken from the first left-hand key
		{keys: []c30Key{{"a": 0.0}, {"b": nil}, {"b": false}}, probeOrd: []int{0, 1, 2}, slotLen: 2},
	}
}
