package bt

import (
	"fmt"
	"sort"
	"strings"

	"github.com/sharedcode/sop"
	"pgregory.net/rapid"

	"verif/harness/stats"
)

// mitem is one item of the model: the ordered multiset (map when unique) of what the tree
// must contain. Items are identified by the id SOP gave them (read back after the call);
// values are unique serial numbers, so a value also identifies an item.
type mitem struct{ n, tag, val int }

type curKind int

const (
	curFresh   curKind = iota // brand-new tree, nothing has ever been selected
	curKnown                  // a positioning call returned true; id is the selected item
	curUnknown                // unspecified by the docs (after a mutation, a miss, the end of a scan)
)

// expect describes what one API call (or a run of calls) may change.
type expect struct {
	adds  []mitem        // exactly these new items
	rmIDs []sop.UUID     // exactly these items disappear
	rmByN map[int]int    // plus this many items per key, which of the equal keys is unspecified
	chg   *changeExpect // at most one item changes
}

type changeExpect struct {
	id      sop.UUID // the item, or zero: "some item with key n"
	n       int
	val     *int // new value (nil: unchanged)
	tag     *int // new tag (nil: unchanged)
	tagFree bool // tag may stay or become *tag (Update: interface doc says value only, implementation also stores the key)
}

type caseStats struct {
	splits, repairs, rotations, nodeRemovals, nilCreated int
	innerSwapRm, innerNilRm, depthShrinks                int
	emptied                                              int
	regrew                                               bool
	maxDepth, maxItems, maxDup, maxNil                   int
	rejected, keyChanged                                 int
	ops, mutOps, navOps, scans                           int
	sawSplitSure, drainedBig                             bool // inference for trees without node access
}

type machine struct {
	c     cfg
	tr    *tree
	model map[sop.UUID]mitem
	cntN  map[int]int
	seq   []obs
	idx   map[sop.UUID]int
	sh    shape
	cur   curKind
	curID sop.UUID
	next  int
	log   strings.Builder
	st    caseStats

	nilBefore, itemsBefore int
	lastDrain              int
	emptyProbes            int
	bulk                   bool // the call under verification was a run of calls: per-item structure labels are skipped

	rec  *stats.Rec
	prop string
	// staleRisk: an add succeeded since the cursor was last positioned, so the cursor may
	// still refer to a slot that the add vacated (see known finding staleCursorSlug).
	staleRisk bool
}

// staleCursorSlug names the finding "Find(k,false) trusts a cursor that a later Add left on a
// vacated slot": the vacated slot holds the zero key, so a lookup of the zero key reports
// "found" without searching (Update/UpdateKey/Remove of an existing zero key then return false).
const staleCursorSlug = "stale-cursor-zero-key-lookup"

// staleCursorListed: the defect sits in Find(k,false), which both C17 and C18 drive through the
// same action sequences, so a listing under C17 also applies to the trees C18 builds.
func staleCursorListed(prop string) bool {
	return stats.Known(prop, staleCursorSlug) || stats.Known("C17", staleCursorSlug)
}

func listed(prop, slug string) bool {
	return stats.Known(prop, slug) || stats.Known("C17", slug)
}

// skipHazardousAdd reports whether an add of key n must be left out because it belongs to the
// listed findings balanceNilChildSlug / balanceSplitCountSlug (and counts the exclusion). Nothing is left out when the
// finding is not listed.
func (m *machine) skipHazardousAdd(n int, refuseDup bool) bool {
	if !m.c.balance || m.tr.repo == nil {
		return false
	}
	if !listed(m.prop, balanceNilChildSlug) && !listed(m.prop, balanceSplitCountSlug) {
		return false
	}
	hz := m.tr.balanceHazard(n, refuseDup)
	if hz == "" || !listed(m.prop, hz) {
		return false
	}
	m.rec.Exclude(hz + ": add left out")
	m.logf("(skip%d)", n)
	return true
}

// guardZeroLookup is called before every call that goes through Find(key,false). When the
// finding is listed, the one class it covers (zero key looked up while the cursor may be on a
// vacated slot) is avoided by construction: the harness positions the cursor with First()
// first, and counts the exclusion. When it is not listed nothing is avoided.
func (m *machine) guardZeroLookup(t *rapid.T, n int) {
	if !m.staleRisk || n != 0 {
		return
	}
	if !staleCursorListed(m.prop) {
		return
	}
	m.rec.Exclude("zero-key lookup while the cursor may sit on a slot vacated by an add: First() called before it")
	if _, err := m.tr.b.First(ctx); err != nil {
		t.Fatalf("First: %v", err)
	}
	m.logf("(first)")
	m.staleRisk = false
}

func genCfg(t *rapid.T, inmem bool) cfg {
	c := cfg{inmem: inmem}
	c.unique = rapid.Bool().Draw(t, "unique")
	c.dom = rapid.SampledFrom([]int{8, 8, 16, 64, 1000, 10000}).Draw(t, "dom")
	if inmem {
		c.slot = 8
		return c
	}
	c.slot = rapid.SampledFrom([]int{2, 2, 3, 4, 4, 5, 6, 7, 8, 9, 10, 16, 32}).Draw(t, "slot")
	c.balance = rapid.Bool().Draw(t, "balance")
	c.useFunc = rapid.Bool().Draw(t, "cmpFunc")
	return c
}

func newMachine(t *rapid.T, c cfg, rec *stats.Rec, prop string) *machine {
	tr, err := newTree(c)
	if err != nil {
		t.Fatalf("HARNESS-ERROR cannot build the tree: %v", err)
	}
	m := &machine{c: c, tr: tr, model: map[sop.UUID]mitem{}, cntN: map[int]int{}, idx: map[sop.UUID]int{}, next: 1, rec: rec, prop: prop}
	return m
}

func (m *machine) logf(f string, a ...any) {
	if m.log.Len() < 1<<16 {
		fmt.Fprintf(&m.log, f, a...)
		m.log.WriteByte(' ')
	}
}

func (m *machine) newVal() int { v := m.next; m.next++; return v }

func (m *machine) has(n int) bool { return m.cntN[n] > 0 }

// ---- generators ------------------------------------------------------------------------

func (m *machine) genN(t *rapid.T) int {
	n := 0
	switch rapid.IntRange(0, 9).Draw(t, "keyKind") {
	case 0, 1, 2:
		if len(m.seq) > 0 {
			n = m.seq[rapid.IntRange(0, len(m.seq)-1).Draw(t, "at")].N
		} else {
			n = rapid.IntRange(0, m.c.dom-1).Draw(t, "n")
		}
	case 3:
		if len(m.seq) > 0 {
			n = m.seq[rapid.IntRange(0, len(m.seq)-1).Draw(t, "at")].N + rapid.SampledFrom([]int{-1, 1}).Draw(t, "d")
		} else {
			n = rapid.IntRange(0, m.c.dom-1).Draw(t, "n")
		}
	case 4:
		n = rapid.SampledFrom([]int{-1, 0, 0, m.c.dom - 1, m.c.dom}).Draw(t, "edge")
	default:
		n = rapid.IntRange(0, m.c.dom-1).Draw(t, "n")
	}
	if n < -1 {
		n = -1
	}
	if n > m.c.dom {
		n = m.c.dom
	}
	return n
}

func (m *machine) genKey(t *rapid.T) K {
	return K{N: m.genN(t), Tag: rapid.IntRange(0, 2).Draw(t, "tag")}
}

// ---- observation -----------------------------------------------------------------------

// snapshot returns the tree's items in key order without trusting the call under test:
// by walking the node map (no cursor involved) or, when there is no node access, by a
// forward scan (which moves the cursor).
func (m *machine) snapshot(t *rapid.T, why string) ([]obs, shape) {
	if m.tr.repo != nil {
		seq, sh, err := m.tr.walk()
		if err != nil {
			fw, ferr := m.tr.scanForward()
			t.Fatalf("after %s: tree structure is broken: %v\n forward scan through the API: %s err=%v\n model has %d items", why, err, renderSeq(fw, 80), ferr, len(m.model))
		}
		return seq, sh
	}
	seq, err := m.tr.scanForward()
	if err != nil {
		t.Fatalf("after %s: forward scan failed: %v", why, err)
	}
	var sh shape
	return seq, sh
}

func (m *machine) checkOrder(t *rapid.T, why string, seq []obs) {
	for i := 1; i < len(seq); i++ {
		if seq[i-1].N > seq[i].N {
			t.Fatalf("after %s: items out of key order at position %d: %s", why, i, renderSeq(seq, 200))
		}
		if m.c.unique && seq[i-1].N == seq[i].N {
			t.Fatalf("after %s: unique tree holds key %d twice: %s", why, seq[i].N, renderSeq(seq, 200))
		}
	}
}

// verify takes a snapshot and compares it with the model plus the expected change.
func (m *machine) verify(t *rapid.T, why string, e expect) {
	seq, sh := m.snapshot(t, why)
	m.checkOrder(t, why, seq)
	nm := make(map[sop.UUID]mitem, len(seq))
	var added []obs
	var changed []obs
	for _, o := range seq {
		if o.ID.IsNil() {
			t.Fatalf("after %s: an item without id is in the tree: %s", why, renderSeq(seq, 200))
		}
		if _, dup := nm[o.ID]; dup {
			t.Fatalf("after %s: item id %v (key %d value %d) appears twice in a scan: %s", why, o.ID, o.N, o.Val, renderSeq(seq, 200))
		}
		it := mitem{o.N, o.Tag, o.Val}
		nm[o.ID] = it
		old, ok := m.model[o.ID]
		if !ok {
			added = append(added, o)
		} else if old != it {
			changed = append(changed, o)
		}
	}
	// additions
	wantAdd := map[int]mitem{}
	for _, a := range e.adds {
		wantAdd[a.val] = a
	}
	for _, o := range added {
		w, ok := wantAdd[o.Val]
		if !ok || w.n != o.N || w.tag != o.Tag {
			t.Fatalf("after %s: unexpected new item key=%d tag=%d value=%d (expected additions %v)\n tree: %s", why, o.N, o.Tag, o.Val, e.adds, renderSeq(seq, 200))
		}
		delete(wantAdd, o.Val)
	}
	if len(wantAdd) > 0 {
		miss := make([]mitem, 0, len(wantAdd))
		for _, a := range e.adds {
			if _, ok := wantAdd[a.val]; ok {
				miss = append(miss, a)
			}
		}
		t.Fatalf("after %s: added item(s) %v are not in the tree\n tree: %s", why, miss, renderSeq(seq, 200))
	}
	// removals
	rmSpecific := map[sop.UUID]bool{}
	for _, id := range e.rmIDs {
		rmSpecific[id] = true
	}
	rmByN := map[int]int{}
	for k, v := range e.rmByN {
		rmByN[k] = v
	}
	innerRm := 0
	var removedObs []obs
	for _, o := range m.seq { // deterministic order
		if _, still := nm[o.ID]; still {
			continue
		}
		removedObs = append(removedObs, o)
		if o.Inner {
			innerRm++
		}
		if rmSpecific[o.ID] {
			delete(rmSpecific, o.ID)
			continue
		}
		if rmByN[o.N] > 0 {
			rmByN[o.N]--
			continue
		}
		t.Fatalf("after %s: item key=%d value=%d vanished (expected removals: ids %d, per key %v)\n tree: %s", why, o.N, o.Val, len(e.rmIDs), e.rmByN, renderSeq(seq, 200))
	}
	if len(rmSpecific) > 0 {
		t.Fatalf("after %s: %d item(s) that had to be removed are still in the tree: %s", why, len(rmSpecific), renderSeq(seq, 200))
	}
	for _, o := range m.seq {
		if rmByN[o.N] > 0 {
			t.Fatalf("after %s: %d item(s) with key %d had to be removed but are still there: %s", why, rmByN[o.N], o.N, renderSeq(seq, 200))
		}
	}
	// single change
	switch {
	case e.chg == nil:
		if len(changed) > 0 {
			o := changed[0]
			t.Fatalf("after %s: item changed although nothing may change: now key=%d tag=%d value=%d, was %+v", why, o.N, o.Tag, o.Val, m.model[o.ID])
		}
	default:
		c := e.chg
		if len(changed) > 1 {
			t.Fatalf("after %s: %d items changed, at most one may: %s", why, len(changed), renderSeq(changed, 20))
		}
		if len(changed) == 1 {
			o := changed[0]
			old := m.model[o.ID]
			if !c.id.IsNil() && o.ID != c.id {
				t.Fatalf("after %s: the wrong item changed: key=%d value=%d (was %+v)", why, o.N, o.Val, old)
			}
			if o.N != c.n || old.n != c.n {
				t.Fatalf("after %s: changed item has key %d (was %d), call was for key %d", why, o.N, old.n, c.n)
			}
			wantVal := old.val
			if c.val != nil {
				wantVal = *c.val
			}
			if o.Val != wantVal {
				t.Fatalf("after %s: changed item has value %d, want %d", why, o.Val, wantVal)
			}
			tagOK := o.Tag == old.tag
			if c.tag != nil {
				tagOK = o.Tag == *c.tag || (c.tagFree && o.Tag == old.tag)
			}
			if !tagOK {
				t.Fatalf("after %s: changed item has key tag %d (was %d, call carried %v)", why, o.Tag, old.tag, c.tag)
			}
		} else {
			// nothing visibly changed: only acceptable when the call could be a no-op
			if c.val != nil {
				t.Fatalf("after %s: no item took the new value %d", why, *c.val)
			}
			if c.tag != nil && !c.tagFree {
				ok := false
				if !c.id.IsNil() {
					ok = m.model[c.id].tag == *c.tag
				} else {
					for _, o := range seq {
						if o.N == c.n && o.Tag == *c.tag {
							ok = true
						}
					}
				}
				if !ok {
					t.Fatalf("after %s: no item with key %d carries the new tag %d", why, c.n, *c.tag)
				}
			}
		}
	}
	m.checkNotifications(t, why, e, nm, added, removedObs, changed)
	// labels that need old and new sequence
	if innerRm > 0 && m.tr.repo != nil && !m.bulk {
		for _, o := range m.seq {
			if _, still := nm[o.ID]; still || !o.Inner {
				continue
			}
			// did the in-order successor move into the removed item's node (swap with leaf item)?
			swapped := false
			if i := m.idx[o.ID]; i+1 < len(m.seq) {
				succ := m.seq[i+1]
				for _, n := range seq {
					if n.ID == succ.ID {
						swapped = n.Node == o.Node && succ.Node != o.Node
						break
					}
				}
			}
			if swapped {
				m.st.innerSwapRm++
			} else {
				m.st.innerNilRm++
			}
		}
	}
	if m.tr.repo != nil && sh.depth < m.sh.depth && len(seq) > 0 {
		m.st.depthShrinks++
	}
	m.bulk = false
	// adopt
	if len(m.model) > 0 && len(nm) == 0 {
		m.st.emptied++
	}
	if m.st.emptied > 0 && len(nm) > 0 {
		m.st.regrew = true
	}
	m.model = nm
	m.seq = seq
	m.sh = sh
	clear(m.cntN)
	clear(m.idx)
	dup := 0
	for i, o := range seq {
		m.idx[o.ID] = i
		m.cntN[o.N]++
		if m.cntN[o.N] > dup {
			dup = m.cntN[o.N]
		}
	}
	if dup > m.st.maxDup {
		m.st.maxDup = dup
	}
	if len(seq) > m.st.maxItems {
		m.st.maxItems = len(seq)
	}
	if sh.depth > m.st.maxDepth {
		m.st.maxDepth = sh.depth
	}
	if sh.nilKids > m.st.maxNil {
		m.st.maxNil = sh.nilKids
	}
	if len(seq) > 8 {
		m.st.sawSplitSure = true
	}
	if got := m.tr.b.Count(); got != int64(len(seq)) || len(seq) != len(m.model) {
		t.Fatalf("after %s: Count()=%d, tree holds %d items", why, got, len(seq))
	}
	// a snapshot through the API moved the cursor: put it back where the docs allow
	if m.tr.repo == nil {
		m.staleRisk = false
		if m.cur == curKnown {
			if i, ok := m.idx[m.curID]; ok {
				o := m.seq[i]
				ok, err := m.tr.b.FindWithID(ctx, K{N: o.N, Tag: o.Tag}, o.ID)
				if err != nil || !ok {
					t.Fatalf("after %s: FindWithID(key %d, id of value %d) = %v, %v; the item is in the tree", why, o.N, o.Val, ok, err)
				}
			} else {
				m.cur = curUnknown
			}
		} else {
			m.cur = curUnknown
		}
	}
}

// ---- structural accounting ---------------------------------------------------------------

func (m *machine) pre() {
	m.itemsBefore = len(m.model)
	if m.tr.repo != nil {
		m.tr.repo.resetCounters()
		m.nilBefore = m.tr.repo.nilChildren()
	}
	if m.tr.trk != nil {
		m.tr.trk.reset()
	}
}

// account classifies what the last single API call did to the node map.
func (m *machine) account(isAdd bool, itemsBefore int) {
	r := m.tr.repo
	if r == nil {
		return
	}
	nilAfter := r.nilChildren()
	if isAdd {
		rep := m.nilBefore - nilAfter
		if rep < 0 {
			rep = 0
		}
		m.st.repairs += rep
		split := 0
		if itemsBefore > 0 && r.newNodes > rep {
			split = r.newNodes - rep
			m.st.splits += split
		}
		if m.c.balance && split == 0 && len(r.touched)-r.newNodes >= 2 {
			m.st.rotations++
		}
	} else {
		m.st.nodeRemovals += r.removes
		if nilAfter > m.nilBefore {
			m.st.nilCreated += nilAfter - m.nilBefore
		}
	}
	m.nilBefore = nilAfter
	r.resetCounters()
}

// ---- result checks -----------------------------------------------------------------------

func (m *machine) noErr(t *rapid.T, call string, err error) {
	if err != nil {
		t.Fatalf("%s returned an error: %v", call, err)
	}
}

func (m *machine) wantBool(t *rapid.T, call string, got, want bool) {
	if got != want {
		t.Fatalf("%s = %v, model says %v (tree has %d items, key order %s)", call, got, want, len(m.seq), renderSeq(m.seq, 120))
	}
}

// cursorMustBe checks GetCurrentKey / GetCurrentValue against the model's idea of the selected item.
func (m *machine) cursorMustBe(t *rapid.T, call string, want obs) {
	got, err := m.tr.current()
	if err != nil {
		t.Fatalf("after %s: %v", call, err)
	}
	if !sameItem(got, want) {
		t.Fatalf("after %s: cursor is on key=%d tag=%d value=%d id=%v, expected key=%d tag=%d value=%d id=%v\n tree: %s",
			call, got.N, got.Tag, got.Val, got.ID, want.N, want.Tag, want.Val, want.ID, renderSeq(m.seq, 120))
	}
}

// selected returns the model's selected item when the cursor is known.
func (m *machine) selected() (obs, int, bool) {
	if m.cur != curKnown {
		return obs{}, -1, false
	}
	i, ok := m.idx[m.curID]
	if !ok {
		return obs{}, -1, false
	}
	return m.seq[i], i, true
}

func (m *machine) setKnown(id sop.UUID) { m.cur, m.curID = curKnown, id }

func bounds(seq []obs, n int) (lb, ub int) {
	lb = sort.Search(len(seq), func(i int) bool { return seq[i].N >= n })
	ub = sort.Search(len(seq), func(i int) bool { return seq[i].N > n })
	return
}

// positioned records that a call which always searches from the root (or selects an end)
// ran on a non-empty tree: the cursor no longer refers to a slot vacated by an earlier add.
func (m *machine) positioned() {
	if len(m.model) > 0 {
		m.staleRisk = false
	}
}

// checkNotifications compares what the call told the ItemActionTracker with what it did:
// one Add per new item, one Remove per vanished item, one Update per successful update call
// (for the item that changed, carrying its key and value as they are after the call) and
// nothing else. Get notifications are checked where values are read (tree.current).
func (m *machine) checkNotifications(t *rapid.T, why string, e expect, nm map[sop.UUID]mitem, added, removed, changed []obs) {
	trk := m.tr.trk
	if trk == nil {
		return
	}
	defer trk.reset()
	fail := func(f string, a ...any) {
		t.Fatalf("after %s: ItemActionTracker notifications %s: %s", why, renderEvents(trk.ev), fmt.Sprintf(f, a...))
	}
	wantA := map[sop.UUID]obs{}
	for _, o := range added {
		wantA[o.ID] = o
	}
	wantR := map[sop.UUID]obs{}
	for _, o := range removed {
		wantR[o.ID] = o
	}
	updates := 0
	for _, ev := range trk.ev {
		switch ev.kind {
		case 'A':
			o, ok := wantA[ev.id]
			if !ok {
				fail("Add reported for key=%d id=%v, which is not an item this call added (or reported twice)", ev.n, ev.id)
			}
			if ev.n != o.N || (ev.hasVal && ev.val != o.Val) {
				fail("Add reported key=%d value=%d for the item stored as key=%d value=%d", ev.n, ev.val, o.N, o.Val)
			}
			delete(wantA, ev.id)
		case 'R':
			o, ok := wantR[ev.id]
			if !ok {
				if still, in := nm[ev.id]; in {
					fail("Remove reported for key=%d value=%d, an item that is still in the tree", still.n, still.val)
				}
				fail("Remove reported for key=%d id=%v, which is not an item this call removed (or reported twice)", ev.n, ev.id)
			}
			if ev.n != o.N {
				fail("Remove reported key=%d for the removed item with key=%d", ev.n, o.N)
			}
			delete(wantR, ev.id)
		case 'U':
			updates++
			now, ok := nm[ev.id]
			if !ok {
				fail("Update reported for key=%d id=%v, which is not an item of the tree", ev.n, ev.id)
			}
			if e.chg == nil {
				fail("Update reported for key=%d although the call changed nothing", ev.n)
			}
			if len(changed) == 1 && changed[0].ID != ev.id {
				fail("Update reported for key=%d value=%d, but the item that changed is key=%d value=%d", now.n, now.val, changed[0].N, changed[0].Val)
			}
			if !e.chg.id.IsNil() && ev.id != e.chg.id {
				fail("Update reported for key=%d value=%d, not for the item under the cursor", now.n, now.val)
			}
			if ev.n != e.chg.n || now.n != e.chg.n {
				fail("Update reported for an item with key=%d, the call was for key %d", ev.n, e.chg.n)
			}
			if ev.tag != now.tag || (ev.hasVal && ev.val != now.val) {
				fail("Update reported key tag=%d value=%d, the item now holds tag=%d value=%d", ev.tag, ev.val, now.tag, now.val)
			}
		case 'G':
			// reading a value inside a mutator is not part of any mutator of the B-tree
			fail("Get reported for key=%d by a call that reads no value", ev.n)
		}
	}
	for _, o := range added {
		if _, miss := wantA[o.ID]; miss {
			fail("no Add reported for the new item key=%d value=%d", o.N, o.Val)
		}
	}
	for _, o := range removed {
		if _, miss := wantR[o.ID]; miss {
			fail("no Remove reported for the removed item key=%d value=%d", o.N, o.Val)
		}
	}
	wantU := 0
	if e.chg != nil {
		wantU = 1
	}
	if updates != wantU {
		fail("%d Update notification(s), want %d", updates, wantU)
	}
}
