package bt

import (
	"fmt"
	"testing"

	"verif/harness/stats"
)

// reproduceStaleCursor replays the minimised failing program without rapid and returns what
// went wrong ("" when the defect no longer reproduces).
//
// slot length 2, duplicates allowed:
//
//	Add(0) Add(-1)            root = [-1 0]
//	AddIfNotExist(0) = false  leaves the cursor on (root, slot 1), the existing 0
//	AddIfNotExist(1) = true   splits the root: root = [0], children [-1] [1]; root slot 1 is cleared
//	UpdateKey(0)              Find(0,false) sees the cleared slot (zero key) under the stale cursor,
//	                          compares it equal to 0 and answers "found" without searching;
//	                          UpdateCurrentKey then returns false because slot 1 >= Count.
func reproduceStaleCursor() (string, error) {
	tr, err := newTree(cfg{slot: 2, dom: 8})
	if err != nil {
		return "", err
	}
	b := tr.b
	step := func(name string, ok bool, err error, want bool) error {
		if err != nil || ok != want {
			return fmt.Errorf("set-up step %s = %v, %v (want %v)", name, ok, err, want)
		}
		return nil
	}
	ok, err := b.Add(ctx, K{N: 0}, 1)
	if e := step("Add(0)", ok, err, true); e != nil {
		return "", e
	}
	ok, err = b.Add(ctx, K{N: -1}, 2)
	if e := step("Add(-1)", ok, err, true); e != nil {
		return "", e
	}
	ok, err = b.AddIfNotExist(ctx, K{N: 0}, 3)
	if e := step("AddIfNotExist(0)", ok, err, false); e != nil {
		return "", e
	}
	ok, err = b.AddIfNotExist(ctx, K{N: 1}, 4)
	if e := step("AddIfNotExist(1)", ok, err, true); e != nil {
		return "", e
	}
	ok, err = b.UpdateKey(ctx, K{N: 0, Tag: 1})
	if err != nil {
		return "", fmt.Errorf("UpdateKey(0): %v", err)
	}
	if !ok {
		return "UpdateKey(0) returns false although key 0 is stored: Find(0,false) trusts a cursor that an earlier add left on a vacated slot (zero key) and reports found without searching", nil
	}
	return "", nil
}

// verdict turns the outcome of a recorded reproduction into the test result: silent when the
// defect is gone (repaired in /repo), a KNOWN-FINDING line while it is listed in
// known_findings.json, a failure (VIOLATION) when it reproduces without being listed, i.e.
// when a repaired defect has come back.
func verdict(t *testing.T, slug, what string, err error) {
	if err != nil {
		// the program no longer behaves as recorded: not this finding (the search decides the rest)
		t.Logf("recorded reproduction does not apply: %v", err)
		return
	}
	if what == "" {
		return
	}
	if stats.Known("C17", slug) {
		stats.For("C17").KnownFinding(slug + ": " + what)
		return
	}
	t.Fatalf("%s: %s", slug, what)
}

func TestC17_Regress_StaleCursorZeroKeyLookup(t *testing.T) {
	what, err := reproduceStaleCursor()
	verdict(t, staleCursorSlug, what, err)
	// the shortest form found: three equal keys, cursor on slot 1 of the root, root split
	tr, terr := newTree(cfg{slot: 2, dom: 8})
	if terr != nil {
		t.Fatalf("HARNESS-ERROR %v", terr)
	}
	b := tr.b
	b.Add(ctx, K{N: 0}, 1)
	b.Add(ctx, K{N: 0}, 2)
	b.Last(ctx)
	b.Add(ctx, K{N: 0}, 3)
	if ok, err := b.Update(ctx, K{N: 0}, 4); err == nil && !ok {
		verdict(t, staleCursorSlug, "Add(0) Add(0) Last() Add(0) Update(0) returns false although three items with key 0 are stored", nil)
	}
}

type kop struct {
	add bool
	n   int
}

// replayOps runs adds/removes on a fresh tree and reports, through the public API only, the
// first way the result stops being an ordered collection of exactly the surviving items.
func replayOps(c cfg, ops []kop) (string, error) {
	tr, err := newTree(c)
	if err != nil {
		return "", err
	}
	want := map[int]int{}
	total := 0
	for i, o := range ops {
		if o.add {
			ok, err := tr.b.Add(ctx, K{N: o.n}, i+1)
			if err != nil || !ok {
				return "", fmt.Errorf("step %d Add(%d) = %v, %v", i, o.n, ok, err)
			}
			want[o.n]++
			total++
		} else {
			ok, err := tr.b.Remove(ctx, K{N: o.n})
			if err != nil || ok != (want[o.n] > 0) {
				return "", fmt.Errorf("step %d Remove(%d) = %v, %v", i, o.n, ok, err)
			}
			if ok {
				want[o.n]--
				total--
			}
		}
	}
	seq, err := tr.scanForward()
	if err != nil {
		return "", err
	}
	for i, o := range seq {
		if o.ID.IsNil() {
			return fmt.Sprintf("forward scan returns an item without id (key %d) at position %d: %s", o.N, i, renderSeq(seq, 60)), nil
		}
		if i > 0 && seq[i-1].N > o.N {
			return fmt.Sprintf("forward scan is out of key order at position %d: %s", i, renderSeq(seq, 60)), nil
		}
	}
	if len(seq) != total {
		return fmt.Sprintf("forward scan returns %d items, %d were stored: %s", len(seq), total, renderSeq(seq, 60)), nil
	}
	return "", nil
}

// Finding balanceNilChildSlug, minimised (slot length 2, duplicates, balancing on). After the
// removals the leaf [10 11] hangs directly under the root next to the inner node [4 5] whose
// middle child is nil; Add(11) overflows the leaf, the "vacant slot on the left" test accepts the
// inner node because it has a nil child, and the rotated separator 9 is hung under that nil
// child, between 4 and 5.
var balanceNilChildOps = []kop{{true, 3}, {true, 10}, {true, 2}, {true, 7}, {true, 10}, {true, 7}, {true, 7}, {true, 11}, {true, 9}, {true, 5},
	{false, 7}, {true, 4}, {false, 10}, {false, 3}, {true, 11}}

// Finding balanceSplitCountSlug, minimised (same configuration). The leaf [0 1] hangs under
// the root next to an inner node without nil child; Add(2) finds no vacancy, takes the
// "unbalanced branch" split and leaves the old leaf with Count=2 although it now holds one item.
var balanceSplitCountOps = []kop{{true, 1}, {true, 8}, {true, 4}, {true, 11}, {true, 8}, {true, 2}, {true, 7}, {true, 0}, {true, 2},
	{false, 2}, {false, 2}, {true, 1}, {false, 0}, {true, 0}, {false, 1}, {true, 2}}

func TestC17_Regress_BalancingNilChildDistribution(t *testing.T) {
	what, err := replayOps(cfg{slot: 2, balance: true, dom: 16}, balanceNilChildOps)
	verdict(t, balanceNilChildSlug, what, err)
}

func TestC17_Regress_BalancingUnbalancedSplitCount(t *testing.T) {
	what, err := replayOps(cfg{slot: 2, balance: true, dom: 16}, balanceSplitCountOps)
	verdict(t, balanceSplitCountSlug, what, err)
}

// TestC17_Regress_RemoveReportsRemovedItem: RemoveCurrentItem of an item that lives in an inner
// node copies its in-order successor up and vacates the successor's leaf slot; the
// ItemActionTracker must still be told Remove(the removed item), not Remove(the successor)
// (repaired in /repo by 1297f9b6). slot 2, unique: Add(1) Add(7) Add(11) puts 7 in the root.
func TestC17_Regress_RemoveReportsRemovedItem(t *testing.T) {
	tr, err := newTree(cfg{slot: 2, unique: true, dom: 16})
	if err != nil {
		t.Fatalf("HARNESS-ERROR %v", err)
	}
	ids := map[int]string{}
	for i, n := range []int{1, 7, 11} {
		if ok, err := tr.b.Add(ctx, K{N: n}, i+1); err != nil || !ok {
			t.Fatalf("Add(%d) = %v, %v", n, ok, err)
		}
	}
	for _, e := range tr.trk.ev {
		if e.kind == 'A' {
			ids[e.n] = e.id.String()
		}
	}
	tr.trk.reset()
	if ok, err := tr.b.Remove(ctx, K{N: 7}); err != nil || !ok {
		t.Fatalf("Remove(7) = %v, %v", ok, err)
	}
	var rm []trkEvent
	for _, e := range tr.trk.ev {
		if e.kind == 'R' {
			rm = append(rm, e)
		}
	}
	if len(rm) != 1 || rm[0].n != 7 || rm[0].id.String() != ids[7] {
		t.Fatalf("Add(1) Add(7) Add(11) Remove(7): ItemActionTracker was told %s, want exactly one Remove of the item with key 7", renderEvents(tr.trk.ev))
	}
	seq, err := tr.scanForward()
	if err != nil || len(seq) != 2 || seq[0].N != 1 || seq[1].N != 11 {
		t.Fatalf("after Remove(7) the tree holds %s, %v", renderSeq(seq, 10), err)
	}
}
