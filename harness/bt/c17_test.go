package bt

import (
	"fmt"
	"testing"

	"pgregory.net/rapid"

	"verif/harness/stats"
)

const c17Rule = "state machine over btree.New (slot 2..32, unique/duplicate, balancing on/off) and inmemory.NewBtree; " +
	"non-trivial = the run produced >=1 node split and >=1 node removal (or >=1 sibling rotation when balancing is on), seen in the harness NodeRepository; " +
	"for inmemory.NewBtree (no node access): the tree exceeded 8 items and a tree of more than 8 items was drained to empty; distinct by configuration + action log"

var c17Assumptions = []string{
	"single goroutine; the cursor is used only after a positioning call returned true (docs leave it unspecified after mutations, misses and the end of a scan)",
	"which of several equal keys a keyed call picks is not specified: the harness reads the item ids back and accepts any occurrence",
	"Update/Upsert may or may not store the key's non-ordering payload (interface doc says value only, implementation stores the key too): both accepted",
}

func (m *machine) finishC17(t *rapid.T, rec *stats.Rec) {
	m.fullScan(t, "final scan")
	s := m.st
	var nontrivial bool
	if m.tr.repo != nil {
		nontrivial = s.splits >= 1 && (s.nodeRemovals >= 1 || (m.c.balance && s.rotations >= 1))
	} else {
		nontrivial = s.sawSplitSure && s.drainedBig
	}
	labels := []string{
		fmt.Sprintf("slot=%d", m.c.slot),
		fmt.Sprintf("dom=%d", m.c.dom),
	}
	add := func(c bool, l string) {
		if c {
			labels = append(labels, l)
		}
	}
	add(m.c.unique, "unique")
	add(!m.c.unique, "duplicatesAllowed")
	add(m.c.balance, "balancing")
	add(m.c.inmem, "inmemory.NewBtree")
	add(m.c.useFunc, "comparerFunc")
	add(s.splits > 0, "hadSplit")
	add(s.splits >= 5, "hadSplit>=5")
	add(s.nodeRemovals > 0, "hadNodeRemoval")
	add(s.nodeRemovals >= 5, "hadNodeRemoval>=5")
	add(s.rotations > 0, "hadRotation")
	add(s.nilCreated > 0, "nilChildCreated")
	add(s.repairs > 0, "nilChildRepairedByAdd")
	add(s.innerNilRm > 0, "removedInnerItemNextToNilChild")
	add(s.innerSwapRm > 0, "removedInnerItemBySwapWithLeaf")
	add(s.depthShrinks > 0, "treeLostALevel")
	add(s.emptied > 0, "emptied")
	add(s.regrew, "emptiedAndRegrown")
	add(s.maxDepth >= 3, "depth>=3")
	add(s.maxDepth >= 4, "depth>=4")
	add(s.maxDepth >= 3 && m.c.slot >= 8, "depth>=3 with slot>=8")
	add(s.maxDepth >= 3 && m.c.slot >= 16, "depth>=3 with slot>=16")
	add(s.maxDup >= 2, "hadDuplicates")
	add(s.maxDup >= 5, "hadDuplicates>=5")
	add(s.maxItems >= 100, "items>=100")
	add(s.maxNil >= 3, "nilChildren>=3")
	add(s.rejected > 0, "orderChangingKeyRejected")
	add(s.keyChanged > 0, "orderPreservingKeyChange")
	rec.Case(m.c.String()+"|"+m.log.String(), nontrivial, labels...)
	if nontrivial {
		lg := m.log.String()
		if len(lg) > 400 {
			lg = lg[:400] + "..."
		}
		rec.Sample(fmt.Sprintf("slot%d", m.c.slot), map[string]any{"cfg": m.c.String(), "actions": lg,
			"splits": s.splits, "nodeRemovals": s.nodeRemovals, "rotations": s.rotations, "nilChildRepairs": s.repairs, "maxDepth": s.maxDepth, "maxItems": s.maxItems})
	}
}

func c17Prop(rec *stats.Rec, inmem bool) func(t *rapid.T) {
	return func(t *rapid.T) {
		m := newMachine(t, genCfg(t, inmem), rec, "C17")
		acts := m.mutatorActions()
		for k, v := range m.navigatorActions() {
			acts[k] = v
		}
		acts[""] = m.invariant
		t.Repeat(acts)
		m.finishC17(t, rec)
	}
}

// TestC17_Ops: every BtreeInterface mutator and navigator against the ordered multiset model,
// on btree.New wired to the harness NodeRepository.
func TestC17_Ops(t *testing.T) {
	rec := stats.For("C17").Meta("exploration", c17Rule, c17Assumptions...)
	rapid.Check(t, c17Prop(rec, false))
}

// TestC17_InMemory: the same machine on inmemory.NewBtree (its own repository and tracker).
func TestC17_InMemory(t *testing.T) {
	rec := stats.For("C17").Meta("exploration", c17Rule, c17Assumptions...)
	rapid.Check(t, c17Prop(rec, true))
}
