package bt

import (
	"fmt"
	"testing"

	"github.com/sharedcode/sop"
	"pgregory.net/rapid"

	"verif/harness/stats"
)

const c18Rule = "one case = one probe (Find first/any, FindWithID, FindInDescendingOrder, inmemory Range/RangeDesc) on a tree built by the C17 action sequences; " +
	"non-trivial = the probe key has >=2 equal keys in the tree, or the probe is a miss whose insertion point is at a node boundary / next to an inner-node item / at a nil child " +
	"(for inmemory.NewBtree, which gives no node access: >=2 equal keys, or a miss on a tree of more than 8 items); distinct by configuration + tree structure hash + key sequence hash + probe"

var c18Assumptions = []string{
	"miss contract asserted = what btree.Node.find documents (\"selects the nearest neighbor when not found, to support range scans\") and inmemory Range/RangeDesc rely on: the cursor is on the item just before or just after where the key would be, and skipping forward over smaller keys (backward over larger keys) yields exactly the items from the key on",
	"which of several equal keys Find(k,false) selects is not specified: any of them is accepted",
	"FindWithID is probed with (key, id) pairs of stored items and with ids no item has; a stored id paired with another key is not specified and not generated",
}

// probeKey draws a key below, above, between or among the stored keys, favouring duplicated keys.
func (m *machine) probeKey(t *rapid.T) int {
	// a key that would have to go under a nil child: two neighbouring items of one inner node
	// (or an inner-node item at either end of the tree) with room for a key in between
	if m.sh.nilKids > 0 && rapid.IntRange(0, 4).Draw(t, "nilBias") == 0 {
		var gaps []int
		for i := 0; i+1 < len(m.seq); i++ {
			a, b := m.seq[i], m.seq[i+1]
			if a.Inner && b.Inner && a.Node == b.Node && a.N+1 < b.N {
				gaps = append(gaps, a.N+1)
			}
		}
		if len(m.seq) > 0 && m.seq[0].Inner && m.seq[0].N > -1 {
			gaps = append(gaps, m.seq[0].N-1)
		}
		if l := len(m.seq); l > 0 && m.seq[l-1].Inner && m.seq[l-1].N < m.c.dom {
			gaps = append(gaps, m.seq[l-1].N+1)
		}
		if len(gaps) > 0 {
			return gaps[rapid.IntRange(0, len(gaps)-1).Draw(t, "gap")]
		}
	}
	if len(m.seq) > 0 && rapid.IntRange(0, 3).Draw(t, "dupBias") == 0 {
		// a key with the most duplicates near a random position
		p := rapid.IntRange(0, len(m.seq)-1).Draw(t, "at")
		best := m.seq[p].N
		for d := -3; d <= 3; d++ {
			if q := p + d; q >= 0 && q < len(m.seq) && m.cntN[m.seq[q].N] > m.cntN[best] {
				best = m.seq[q].N
			}
		}
		return best
	}
	return m.genN(t)
}

// missClass describes where a missing key would be inserted (lb = number of smaller items).
func (m *machine) missClass(lb int) (nontrivial bool, labels []string) {
	if m.tr.repo == nil {
		return len(m.seq) > 8, nil
	}
	n := len(m.seq)
	switch {
	case n == 0:
		return false, []string{"missOnEmptyTree"}
	case lb == 0:
		labels = append(labels, "missBelowAll")
		if m.seq[0].Inner {
			labels = append(labels, "missAtNilChild")
		}
		return true, labels
	case lb == n:
		labels = append(labels, "missAboveAll")
		if m.seq[n-1].Inner {
			labels = append(labels, "missAtNilChild")
		}
		return true, labels
	}
	p, s := m.seq[lb-1], m.seq[lb]
	switch {
	case p.Inner && s.Inner:
		return true, []string{"missAtNilChild"}
	case p.Inner || s.Inner:
		return true, []string{"missNextToInnerItem"}
	case p.Node != s.Node:
		return true, []string{"missAtLeafBoundary"}
	}
	return false, []string{"missInsideLeaf"}
}

func (m *machine) c18Case(probe string, n int, nontrivial bool, labels ...string) {
	h := uint64(14695981039346656037)
	for _, o := range m.seq {
		h = (h ^ uint64(uint32(o.N))) * 1099511628211
	}
	labels = append(labels, probe)
	if m.c.inmem {
		labels = append(labels, "inmemory.NewBtree")
	} else {
		labels = append(labels, fmt.Sprintf("slot=%d", m.c.slot))
	}
	if m.sh.nilKids > 0 {
		labels = append(labels, "treeHasNilChildren")
	}
	if m.sh.depth >= 3 {
		labels = append(labels, "depth>=3")
	}
	if m.st.maxDup >= 2 {
		labels = append(labels, "treeHasDuplicates")
	}
	m.rec.Case(fmt.Sprintf("%s|%x|%x|%d|%s|%d", m.c.String(), m.sh.sig, h, len(m.seq), probe, n), nontrivial, labels...)
	if nontrivial {
		m.rec.Sample(probe, map[string]any{"cfg": m.c.String(), "items": len(m.seq), "probeKey": n, "labels": labels, "depth": m.sh.depth, "nilChildren": m.sh.nilKids})
	}
}

// cursorIndex returns the position of the item under the cursor in the last snapshot.
func (m *machine) cursorIndex(t *rapid.T, call string) int {
	ck := m.tr.b.GetCurrentKey()
	if ck.ID.IsNil() {
		t.Fatalf("%s: no current item (nil item id) on a tree of %d items: %s", call, len(m.seq), renderSeq(m.seq, 120))
	}
	i, ok := m.idx[ck.ID]
	if !ok {
		t.Fatalf("%s: cursor is on key=%d id=%v, which is not an item of the tree: %s", call, ck.Key.N, ck.ID, renderSeq(m.seq, 120))
	}
	m.cursorMustBe(t, call, m.seq[i])
	return i
}

// runFrom moves the cursor steps times in one direction from position i and checks every stop.
func (m *machine) runFrom(t *rapid.T, call string, i int, fwd bool, steps int) {
	for s := 0; s < steps; s++ {
		var ok bool
		var err error
		j := i - 1
		name := "Previous"
		if fwd {
			j = i + 1
			name = "Next"
			ok, err = m.tr.b.Next(ctx)
		} else {
			ok, err = m.tr.b.Previous(ctx)
		}
		if err != nil {
			t.Fatalf("%s, then %s #%d: %v", call, name, s+1, err)
		}
		want := j >= 0 && j < len(m.seq)
		if ok != want {
			t.Fatalf("%s, then %s #%d from position %d of %d = %v, want %v\n tree: %s", call, name, s+1, i, len(m.seq), ok, want, renderSeq(m.seq, 120))
		}
		if !ok {
			return
		}
		m.cursorMustBe(t, fmt.Sprintf("%s, then %s #%d", call, name, s+1), m.seq[j])
		i = j
	}
}

// afterMiss checks the documented use of the cursor after a missed search for key n.
// ascending: skip items smaller than n with Next, then the scan must yield seq[lb:], in order.
// descending: skip items larger than n with Previous, then the scan must yield seq[:lb] backwards.
func (m *machine) afterMiss(t *rapid.T, call string, n, lb int, ascending bool, limit int) {
	if len(m.seq) == 0 {
		if ck := m.tr.b.GetCurrentKey(); !ck.ID.IsNil() {
			t.Fatalf("%s on an empty tree leaves a current item (id %v)", call, ck.ID)
		}
		return
	}
	i := m.cursorIndex(t, call+" (miss)")
	if i != lb-1 && i != lb {
		t.Fatalf("%s missed and left the cursor at position %d (key %d); key %d belongs at position %d, so the cursor must be on position %d or %d\n tree: %s",
			call, i, m.seq[i].N, n, lb, lb-1, lb, renderSeq(m.seq, 120))
	}
	if ascending {
		for m.seq[i].N < n {
			ok, err := m.tr.b.Next(ctx)
			if err != nil {
				t.Fatalf("%s, Next: %v", call, err)
			}
			if !ok {
				if lb != len(m.seq) {
					t.Fatalf("%s: skipping smaller keys ran off the end, but %d item(s) >= %d exist\n tree: %s", call, len(m.seq)-lb, n, renderSeq(m.seq, 120))
				}
				return
			}
			i = m.cursorIndex(t, call+" (skipping smaller keys)")
		}
		if i != lb {
			t.Fatalf("%s: after skipping smaller keys the cursor is at position %d, the first item >= %d is at %d\n tree: %s", call, i, n, lb, renderSeq(m.seq, 120))
		}
		m.runFrom(t, call+" (miss, ascending use)", i, true, limit)
		return
	}
	for m.seq[i].N > n {
		ok, err := m.tr.b.Previous(ctx)
		if err != nil {
			t.Fatalf("%s, Previous: %v", call, err)
		}
		if !ok {
			if lb != 0 {
				t.Fatalf("%s: skipping larger keys ran off the front, but %d item(s) <= %d exist\n tree: %s", call, lb, n, renderSeq(m.seq, 120))
			}
			return
		}
		i = m.cursorIndex(t, call+" (skipping larger keys)")
	}
	if i != lb-1 {
		t.Fatalf("%s: after skipping larger keys the cursor is at position %d, the last item <= %d is at %d\n tree: %s", call, i, n, lb-1, renderSeq(m.seq, 120))
	}
	m.runFrom(t, call+" (miss, descending use)", i, false, limit)
}

func (m *machine) probeFind(t *rapid.T, first bool) {
	n := m.probeKey(t)
	limit := rapid.IntRange(1, 24).Draw(t, "run")
	m.logf("pF%d/%v", n, first)
	if !first {
		m.guardZeroLookup(t, n)
	}
	ok, err := m.tr.b.Find(ctx, K{N: n}, first)
	m.positioned()
	call := fmt.Sprintf("Find(%d,%v)", n, first)
	m.noErr(t, call, err)
	lb, ub := bounds(m.seq, n)
	m.wantBool(t, call, ok, lb < ub)
	m.cur = curUnknown
	name := "FindAny"
	if first {
		name = "FindFirst"
	}
	if !ok {
		nt, labels := m.missClass(lb)
		m.afterMiss(t, call, n, lb, true, limit)
		m.c18Case(name, n, nt, append(labels, "miss")...)
		return
	}
	i := m.cursorIndex(t, call)
	if i < lb || i >= ub {
		t.Fatalf("%s = true but the cursor is at position %d (key %d); items with key %d are at %d..%d\n tree: %s", call, i, m.seq[i].N, n, lb, ub-1, renderSeq(m.seq, 120))
	}
	if first && i != lb {
		t.Fatalf("%s selected occurrence %d of %d equal keys (position %d), the first one is at position %d\n tree: %s", call, i-lb+1, ub-lb, i, lb, renderSeq(m.seq, 120))
	}
	back := first && rapid.IntRange(0, 2).Draw(t, "back") == 0
	if back {
		// Previous from the first of equal keys is a smaller key or nothing
		m.runFrom(t, call, i, false, 1+limit/4)
	} else {
		m.runFrom(t, call, i, true, limit)
	}
	labels := []string{"hit"}
	if ub-lb >= 2 {
		labels = append(labels, "hitAmongDuplicates")
	}
	if ub-lb >= 2 && m.tr.repo != nil && m.seq[lb].Node != m.seq[ub-1].Node {
		labels = append(labels, "duplicatesSpanNodes")
	}
	m.c18Case(name, n, ub-lb >= 2, labels...)
}

// fewEmptyProbes lets only two probes per case run against an empty tree.
func (m *machine) fewEmptyProbes(t *rapid.T) {
	if len(m.seq) == 0 {
		if m.emptyProbes >= 2 {
			t.Skip()
		}
		m.emptyProbes++
	}
	m.st.ops++
}

func (m *machine) actProbeFindFirst(t *rapid.T) { m.fewEmptyProbes(t); m.probeFind(t, true) }
func (m *machine) actProbeFindAny(t *rapid.T)   { m.fewEmptyProbes(t); m.probeFind(t, false) }

func (m *machine) actProbeFindDesc(t *rapid.T) {
	m.fewEmptyProbes(t)
	n := m.probeKey(t)
	limit := rapid.IntRange(1, 24).Draw(t, "run")
	m.logf("pFD%d", n)
	ok, err := m.tr.b.FindInDescendingOrder(ctx, K{N: n})
	m.positioned()
	call := fmt.Sprintf("FindInDescendingOrder(%d)", n)
	m.noErr(t, call, err)
	lb, ub := bounds(m.seq, n)
	m.wantBool(t, call, ok, lb < ub)
	m.cur = curUnknown
	if !ok {
		nt, labels := m.missClass(lb)
		m.afterMiss(t, call, n, lb, false, limit)
		m.c18Case("FindDesc", n, nt, append(labels, "miss")...)
		return
	}
	i := m.cursorIndex(t, call)
	if i != ub-1 {
		t.Fatalf("%s selected position %d (key %d); the last of the %d item(s) with key %d is at position %d\n tree: %s", call, i, m.seq[i].N, ub-lb, n, ub-1, renderSeq(m.seq, 120))
	}
	if rapid.IntRange(0, 2).Draw(t, "fwd") == 0 {
		// Next from the last of equal keys is a larger key or nothing
		m.runFrom(t, call, i, true, 1+limit/4)
	} else {
		m.runFrom(t, call, i, false, limit)
	}
	labels := []string{"hit"}
	if ub-lb >= 2 {
		labels = append(labels, "hitAmongDuplicates")
	}
	if ub-lb >= 2 && m.tr.repo != nil && m.seq[lb].Node != m.seq[ub-1].Node {
		labels = append(labels, "duplicatesSpanNodes")
	}
	m.c18Case("FindDesc", n, ub-lb >= 2, labels...)
}

func (m *machine) actProbeFindWithID(t *rapid.T) {
	m.fewEmptyProbes(t)
	if len(m.seq) == 0 || rapid.IntRange(0, 7).Draw(t, "absent") == 0 {
		n := m.probeKey(t)
		m.logf("pFI%d/absent", n)
		ok, err := m.tr.b.FindWithID(ctx, K{N: n}, sop.NewUUID())
		m.positioned()
		m.noErr(t, "FindWithID", err)
		m.wantBool(t, fmt.Sprintf("FindWithID(%d, an id no item has)", n), ok, false)
		m.cur = curUnknown
		lb, ub := bounds(m.seq, n)
		m.c18Case("FindWithID", n, ub-lb >= 2, "absentID")
		return
	}
	// favour an occurrence inside a group of equal keys
	p := rapid.IntRange(0, len(m.seq)-1).Draw(t, "at")
	n := m.seq[p].N
	if rapid.Bool().Draw(t, "dupBias") {
		n = m.probeKey(t)
		lb, ub := bounds(m.seq, n)
		if lb < ub {
			p = lb + rapid.IntRange(0, ub-lb-1).Draw(t, "occurrence")
		} else {
			n = m.seq[p].N
		}
	}
	o := m.seq[p]
	limit := rapid.IntRange(1, 16).Draw(t, "run")
	fwd := rapid.Bool().Draw(t, "fwd")
	m.logf("pFI%d@%d", o.N, p)
	ok, err := m.tr.b.FindWithID(ctx, K{N: o.N}, o.ID)
	m.positioned()
	lb, ub := bounds(m.seq, o.N)
	call := fmt.Sprintf("FindWithID(%d, id of occurrence %d of %d, value %d)", o.N, p-lb+1, ub-lb, o.Val)
	m.noErr(t, call, err)
	m.wantBool(t, call, ok, true)
	if i := m.cursorIndex(t, call); i != p {
		t.Fatalf("%s selected position %d, the requested item is at position %d\n tree: %s", call, i, p, renderSeq(m.seq, 120))
	}
	m.runFrom(t, call, p, fwd, limit)
	m.cur = curUnknown
	labels := []string{"hit"}
	if ub-lb >= 2 {
		labels = append(labels, "hitAmongDuplicates")
	}
	if p-lb >= 1 {
		labels = append(labels, "notTheFirstOccurrence")
	}
	m.c18Case("FindWithID", o.N, ub-lb >= 2, labels...)
}

// rangeBounds draws (from, to) over the key domain +-1, mostly from <= to.
func (m *machine) rangeBounds(t *rapid.T) (int, int) {
	a, b := m.probeKey(t), m.probeKey(t)
	if a > b && rapid.IntRange(0, 9).Draw(t, "keepInverted") != 0 {
		a, b = b, a
	}
	return a, b
}

func (m *machine) rangeClass(lo, hi int) (bool, []string) {
	var labels []string
	nt := false
	for _, n := range []int{lo, hi} {
		lb, ub := bounds(m.seq, n)
		if ub-lb >= 2 {
			nt = true
			labels = append(labels, "boundHasDuplicates")
		}
		if lb == ub {
			x, l := m.missClass(lb)
			nt = nt || x
			labels = append(labels, "boundIsMiss")
			labels = append(labels, l...)
		}
	}
	return nt, labels
}

func (m *machine) actProbeRange(t *rapid.T) {
	m.fewEmptyProbes(t)
	from, to := m.rangeBounds(t)
	stop := rapid.IntRange(-1, 6).Draw(t, "stopAfter") // -1..: consume everything mostly
	m.logf("pR%d..%d", from, to)
	lo, _ := bounds(m.seq, from)
	_, hi := bounds(m.seq, to)
	var want []obs
	if from <= to {
		want = m.seq[lo:hi]
	}
	i := 0
	for k, v := range m.tr.im.Range(K{N: from}, K{N: to}) {
		if i >= len(want) || k.N != want[i].N || k.Tag != want[i].Tag || v != want[i].Val {
			t.Fatalf("Range(%d,%d) yields key=%d value=%d at position %d; expected %s\n tree: %s", from, to, k.N, v, i, renderSeq(want, 60), renderSeq(m.seq, 120))
		}
		i++
		if stop > 0 && i == stop {
			break
		}
	}
	if (stop <= 0 || len(want) < stop) && i != len(want) {
		t.Fatalf("Range(%d,%d) yields %d item(s), expected %d: %s\n tree: %s", from, to, i, len(want), renderSeq(want, 60), renderSeq(m.seq, 120))
	}
	m.positioned()
	m.cur = curUnknown
	nt, labels := m.rangeClass(from, to)
	if from > to {
		labels = append(labels, "invertedBounds")
	}
	if len(want) == 0 {
		labels = append(labels, "emptyRange")
	}
	m.c18Case("Range", from*100003+to, nt, labels...)
}

func (m *machine) actProbeRangeDesc(t *rapid.T) {
	m.fewEmptyProbes(t)
	to, from := m.rangeBounds(t) // from is the high bound
	stop := rapid.IntRange(-1, 6).Draw(t, "stopAfter")
	m.logf("pRD%d..%d", from, to)
	lo, _ := bounds(m.seq, to)
	_, hi := bounds(m.seq, from)
	var want []obs
	if to <= from {
		for j := hi - 1; j >= lo; j-- {
			want = append(want, m.seq[j])
		}
	}
	i := 0
	for k, v := range m.tr.im.RangeDesc(K{N: from}, K{N: to}) {
		if i >= len(want) || k.N != want[i].N || k.Tag != want[i].Tag || v != want[i].Val {
			t.Fatalf("RangeDesc(%d,%d) yields key=%d value=%d at position %d; expected %s\n tree: %s", from, to, k.N, v, i, renderSeq(want, 60), renderSeq(m.seq, 120))
		}
		i++
		if stop > 0 && i == stop {
			break
		}
	}
	if (stop <= 0 || len(want) < stop) && i != len(want) {
		t.Fatalf("RangeDesc(%d,%d) yields %d item(s), expected %d: %s\n tree: %s", from, to, i, len(want), renderSeq(want, 60), renderSeq(m.seq, 120))
	}
	m.positioned()
	m.cur = curUnknown
	nt, labels := m.rangeClass(to, from)
	if to > from {
		labels = append(labels, "invertedBounds")
	}
	if len(want) == 0 {
		labels = append(labels, "emptyRange")
	}
	m.c18Case("RangeDesc", from*100003+to, nt, labels...)
}

func (m *machine) probeActions() map[string]func(*rapid.T) {
	return map[string]func(*rapid.T){
		"ProbeFindFirst":   m.actProbeFindFirst,
		"ProbeFindFirst2":  m.actProbeFindFirst,
		"ProbeFindAny":     m.actProbeFindAny,
		"ProbeFindDesc":    m.actProbeFindDesc,
		"ProbeFindDesc2":   m.actProbeFindDesc,
		"ProbeFindWithID":  m.actProbeFindWithID,
		"ProbeRange":       m.actProbeRange,
		"ProbeRange2":      m.actProbeRange,
		"ProbeRangeDesc":   m.actProbeRangeDesc,
		"ProbeRangeDesc2":  m.actProbeRangeDesc,
		"ProbeFindWithID2": m.actProbeFindWithID,
	}
}

func c18Prop(rec *stats.Rec, inmem bool) func(t *rapid.T) {
	return func(t *rapid.T) {
		m := newMachine(t, genCfg(t, inmem), rec, "C18")
		acts := m.mutatorActions()
		// cursor-relative mutators need a cursor the docs define; the probes leave none behind
		for _, k := range []string{"UpdateCurrentKey", "UpdateCurrentItem", "UpdateCurrentVal", "RemoveCurrentItem"} {
			delete(acts, k)
		}
		for k, v := range m.probeActions() {
			acts[k] = v
		}
		acts[""] = m.invariant
		t.Repeat(acts)
	}
}

// TestC18_Probes: search positioning and range scans on btree.New trees of every configuration.
func TestC18_Probes(t *testing.T) {
	rec := stats.For("C18").Meta("exploration", c18Rule, c18Assumptions...)
	rapid.Check(t, c18Prop(rec, false))
}

// TestC18_InMemory: the same probes on inmemory.NewBtree.
func TestC18_InMemory(t *testing.T) {
	rec := stats.For("C18").Meta("exploration", c18Rule, c18Assumptions...)
	rapid.Check(t, c18Prop(rec, true))
}
