package bt

import (
	"cmp"
	"context"
	"fmt"
	"hash/fnv"

	"github.com/sharedcode/sop"
	"github.com/sharedcode/sop/btree"
	"github.com/sharedcode/sop/inmemory"
)

// K is the key type of every tree in this package. Only N takes part in ordering; Tag is a
// payload field, so a key with the same N and another Tag is an "order preserving" key
// change (what UpdateCurrentKey / UpdateKey / UpdateCurrentItem allow) and a key with a
// different N is an order changing one (what they must reject).
type K struct {
	N   int
	Tag int
}

// Compare makes K a btree.Comparer, the path taken when no comparer function is supplied
// (inmemory.NewBtree, inmemory Range/RangeDesc).
func (k K) Compare(other any) int {
	o, _ := other.(K)
	return cmp.Compare(k.N, o.N)
}

func cmpK(a, b K) int { return cmp.Compare(a.N, b.N) }

type nodeT = btree.Node[K, int]
type itemT = btree.Item[K, int]

var ctx = context.Background()

// repo is the harness NodeRepository: a map with pointer semantics, exactly like
// /repo/inmemory/noderepository.go, plus counters that let a case see which structural
// events (new nodes, removed nodes, multi-node updates) one API call caused.
type repo struct {
	m        map[sop.UUID]*nodeT
	newNodes int // Add/Update of an id that was not in the map (SOP gives new nodes an id before saving, so they arrive through Update)
	removes  int
	touched  map[sop.UUID]struct{}
}

func newRepo() *repo {
	return &repo{m: map[sop.UUID]*nodeT{}, touched: map[sop.UUID]struct{}{}}
}

func (r *repo) put(n *nodeT) {
	if _, ok := r.m[n.ID]; !ok {
		r.newNodes++
	}
	r.touched[n.ID] = struct{}{}
	r.m[n.ID] = n
}
func (r *repo) Add(n *nodeT)    { r.put(n) }
func (r *repo) Update(n *nodeT) { r.put(n) }
func (r *repo) Get(_ context.Context, id sop.UUID) (*nodeT, error) {
	return r.m[id], nil
}
func (r *repo) Fetched(sop.UUID) {}
func (r *repo) Remove(id sop.UUID) {
	if _, ok := r.m[id]; ok {
		r.removes++
	}
	delete(r.m, id)
}
func (r *repo) resetCounters() {
	r.newNodes, r.removes = 0, 0
	clear(r.touched)
}

// nilChildren counts nil child pointers (positions 0..Count) of nodes that have children.
// Order independent (a sum), so map iteration is harmless here.
func (r *repo) nilChildren() int {
	c := 0
	for _, n := range r.m {
		if len(n.ChildrenIDs) == 0 {
			continue
		}
		for i := 0; i <= n.Count && i < len(n.ChildrenIDs); i++ {
			if n.ChildrenIDs[i].IsNil() {
				c++
			}
		}
	}
	return c
}

// tracker is the harness ItemActionTracker. It records every notification the B-tree sends
// (the transaction layer builds locks, conflict checks, merge replay and value-blob deletion
// on exactly these), so a case can compare them with what the call really did.
type trkEvent struct {
	kind   byte // 'A' add, 'U' update, 'R' remove, 'G' get
	id     sop.UUID
	n, tag int
	val    int
	hasVal bool
}

type tracker struct{ ev []trkEvent }

func (k *tracker) note(kind byte, it *itemT) error {
	e := trkEvent{kind: kind, id: it.ID, n: it.Key.N, tag: it.Key.Tag}
	if it.Value != nil {
		e.val, e.hasVal = *it.Value, true
	}
	k.ev = append(k.ev, e)
	return nil
}
func (k *tracker) Add(_ context.Context, it *itemT) error    { return k.note('A', it) }
func (k *tracker) Get(_ context.Context, it *itemT) error    { return k.note('G', it) }
func (k *tracker) Update(_ context.Context, it *itemT) error { return k.note('U', it) }
func (k *tracker) Remove(_ context.Context, it *itemT) error { return k.note('R', it) }
func (k *tracker) reset()                                    { k.ev = k.ev[:0] }

// cfg is the configuration of one tree.
type cfg struct {
	slot    int
	unique  bool
	balance bool
	useFunc bool // comparer function passed to btree.New (else the Comparer interface of K)
	inmem   bool // inmemory.NewBtree (slot length 8, no balancing, no node access)
	dom     int  // keys are drawn from [-1, dom]
}

func (c cfg) String() string {
	return fmt.Sprintf("slot=%d unique=%v bal=%v func=%v inmem=%v dom=%d", c.slot, c.unique, c.balance, c.useFunc, c.inmem, c.dom)
}

type tree struct {
	c    cfg
	b    *btree.Btree[K, int]
	im   inmemory.BtreeInterface[K, int] // wrapper (Range, RangeDesc, All, AllDesc) around b
	repo *repo                           // nil for inmemory.NewBtree
	trk  *tracker
}

func newTree(c cfg) (*tree, error) {
	if c.inmem {
		im := inmemory.NewBtree[K, int](c.unique)
		if im.Btree == nil {
			return nil, fmt.Errorf("inmemory.NewBtree returned a nil tree")
		}
		return &tree{c: c, b: im.Btree, im: im}, nil
	}
	so := sop.StoreOptions{
		Name:                     "bt",
		SlotLength:               c.slot,
		IsUnique:                 c.unique,
		IsValueDataInNodeSegment: true,
		LeafLoadBalancing:        c.balance,
	}
	si := sop.NewStoreInfo(so)
	// (an odd requested slot length is a valid option; whatever NewStoreInfo makes of it, the tree it builds has to
	// be a correct ordered collection - the splitting code assumes an even number)
	if si.SlotLength != c.slot && c.slot%2 == 0 {
		return nil, fmt.Errorf("NewStoreInfo changed slot length %d to %d", c.slot, si.SlotLength)
	}
	r := newRepo()
	trk := &tracker{}
	var f btree.ComparerFunc[K]
	if c.useFunc {
		f = cmpK
	}
	b, err := btree.New[K, int](si, &btree.StoreInterface[K, int]{NodeRepository: r, ItemActionTracker: trk}, f)
	if err != nil {
		return nil, err
	}
	return &tree{c: c, b: b, im: inmemory.BtreeInterface[K, int]{Btree: b}, repo: r, trk: trk}, nil
}

// obs is one item as observed in the tree, in key order.
type obs struct {
	N, Tag, Val int
	ID          sop.UUID
	Node        sop.UUID // zero when the tree gives no node access
	Inner       bool     // the item sits in a node that has children
}

// shape summarises the node structure of a walked tree.
type shape struct {
	nodes   int
	depth   int // 1 = root only
	nilKids int
	sig     uint64 // hash of the structure (counts and nil-child pattern in pre-order), for distinct counting
}

// walk reads the node map directly (no cursor involved) and returns the in-order item
// sequence. It fails on anything navigation depends on: dangling or cyclic child ids, a
// child whose ParentID is not its parent, Count outside [1,slot] (root may be 0), an item
// without id or value.
func (tr *tree) walk() ([]obs, shape, error) {
	var seq []obs
	var sh shape
	h := fnv.New64a()
	rootID := tr.b.StoreInfo.RootNodeID
	if rootID.IsNil() {
		return nil, sh, nil
	}
	root := tr.repo.m[rootID]
	if root == nil {
		if tr.b.StoreInfo.Count == 0 {
			return nil, sh, nil
		}
		return nil, sh, fmt.Errorf("root node %v is not in the repository but Count=%d", rootID, tr.b.StoreInfo.Count)
	}
	if !root.ParentID.IsNil() {
		return nil, sh, fmt.Errorf("root node has ParentID %v", root.ParentID)
	}
	visited := map[sop.UUID]bool{}
	slot := tr.b.StoreInfo.SlotLength
	var rec func(n *nodeT, depth int) error
	rec = func(n *nodeT, depth int) error {
		if visited[n.ID] {
			return fmt.Errorf("node %v reached twice", n.ID)
		}
		visited[n.ID] = true
		sh.nodes++
		if depth > sh.depth {
			sh.depth = depth
		}
		if n.Count < 0 || n.Count > slot {
			return fmt.Errorf("node %v at depth %d has Count %d (slot length %d)", n.ID, depth, n.Count, slot)
		}
		if n.Count == 0 && n != root {
			return fmt.Errorf("non-root node %v at depth %d is empty", n.ID, depth)
		}
		if len(n.Slots) < n.Count {
			return fmt.Errorf("node %v has %d slots but Count %d", n.ID, len(n.Slots), n.Count)
		}
		kids := len(n.ChildrenIDs) > 0
		if kids && len(n.ChildrenIDs) < n.Count+1 {
			return fmt.Errorf("node %v has %d child ids but Count %d", n.ID, len(n.ChildrenIDs), n.Count)
		}
		fmt.Fprintf(h, "(%d:%d", depth, n.Count)
		for i := 0; i <= n.Count; i++ {
			if kids {
				cid := n.ChildrenIDs[i]
				if cid.IsNil() {
					sh.nilKids++
					h.Write([]byte{'_'})
				} else {
					c := tr.repo.m[cid]
					if c == nil {
						return fmt.Errorf("node %v child %d (%v) is not in the repository", n.ID, i, cid)
					}
					if c.ParentID != n.ID {
						return fmt.Errorf("node %v child %d (%v) has ParentID %v", n.ID, i, cid, c.ParentID)
					}
					if err := rec(c, depth+1); err != nil {
						return err
					}
				}
			}
			if i < n.Count {
				it := n.Slots[i]
				if it.ID.IsNil() {
					return fmt.Errorf("node %v slot %d holds an item without id (key %+v)", n.ID, i, it.Key)
				}
				if it.Value == nil {
					return fmt.Errorf("node %v slot %d holds an item without value (key %+v)", n.ID, i, it.Key)
				}
				seq = append(seq, obs{N: it.Key.N, Tag: it.Key.Tag, Val: *it.Value, ID: it.ID, Node: n.ID, Inner: kids})
			}
		}
		h.Write([]byte{')'})
		return nil
	}
	if err := rec(root, 1); err != nil {
		return seq, sh, err
	}
	sh.sig = h.Sum64()
	return seq, sh, nil
}

// scanForward reads the whole tree through the public cursor API: First, then Next.
func (tr *tree) scanForward() ([]obs, error) {
	var out []obs
	ok, err := tr.b.First(ctx)
	if err != nil {
		return nil, fmt.Errorf("First: %w", err)
	}
	for ok {
		o, err := tr.current()
		if err != nil {
			return out, err
		}
		out = append(out, o)
		if len(out) > 1<<20 {
			return out, fmt.Errorf("forward scan does not end")
		}
		if ok, err = tr.b.Next(ctx); err != nil {
			return out, fmt.Errorf("Next: %w", err)
		}
	}
	return out, nil
}

// scanBackward reads the whole tree through Last, then Previous.
func (tr *tree) scanBackward() ([]obs, error) {
	var out []obs
	ok, err := tr.b.Last(ctx)
	if err != nil {
		return nil, fmt.Errorf("Last: %w", err)
	}
	for ok {
		o, err := tr.current()
		if err != nil {
			return out, err
		}
		out = append(out, o)
		if len(out) > 1<<20 {
			return out, fmt.Errorf("backward scan does not end")
		}
		if ok, err = tr.b.Previous(ctx); err != nil {
			return out, fmt.Errorf("Previous: %w", err)
		}
	}
	return out, nil
}

// current reads the item under the cursor through GetCurrentKey and GetCurrentValue. Reading
// the value must be reported to the ItemActionTracker as a Get of exactly that item.
func (tr *tree) current() (obs, error) {
	ck := tr.b.GetCurrentKey()
	before := 0
	if tr.trk != nil {
		before = len(tr.trk.ev)
	}
	v, err := tr.b.GetCurrentValue(ctx)
	if err != nil {
		return obs{}, fmt.Errorf("GetCurrentValue: %w", err)
	}
	if tr.trk != nil && !ck.ID.IsNil() {
		got := tr.trk.ev[before:]
		if len(got) != 1 || got[0].kind != 'G' || got[0].id != ck.ID || got[0].n != ck.Key.N {
			return obs{}, fmt.Errorf("GetCurrentValue on item key=%d id=%v sent these ItemActionTracker notifications: %s (want one Get of that item)", ck.Key.N, ck.ID, renderEvents(got))
		}
	}
	if tr.trk != nil {
		tr.trk.ev = tr.trk.ev[:before]
	}
	return obs{N: ck.Key.N, Tag: ck.Key.Tag, Val: v, ID: ck.ID}, nil
}

func renderEvents(ev []trkEvent) string {
	out := "["
	for i, e := range ev {
		if i > 0 {
			out += " "
		}
		if i >= 12 {
			out += fmt.Sprintf("...(%d)", len(ev))
			break
		}
		out += fmt.Sprintf("%c(key=%d", e.kind, e.n)
		if e.hasVal {
			out += fmt.Sprintf(" value=%d", e.val)
		}
		out += ")"
	}
	return out + "]"
}

func sameItem(a, b obs) bool {
	return a.N == b.N && a.Tag == b.Tag && a.Val == b.Val && a.ID == b.ID
}

func renderSeq(s []obs, max int) string {
	out := "["
	for i, o := range s {
		if i >= max {
			out += fmt.Sprintf(" ...(%d)", len(s))
			break
		}
		if i > 0 {
			out += " "
		}
		out += fmt.Sprintf("%d.%d=%d", o.N, o.Tag, o.Val)
	}
	return out + "]"
}

// ---- known finding: load balancing hands an overflow item to an inner sibling's nil child ----

// balanceNilChildSlug names the finding: with LeafLoadBalancing on, a full leaf whose sibling
// (same parent) is an inner node with a nil child counts as "has a vacant slot"
// (isThereVacantSlotInLeft/Right test nodeHasNilChild before the unbalanced-branch test), and
// distributeItemOnNodeWithNilChild then hangs the rotated item under the FIRST nil child of
// that sibling, wherever it is. Unless that position is the end facing the source leaf, the
// item lands between smaller and larger keys: the tree is no longer in key order.
const balanceNilChildSlug = "balancing-distributes-into-inner-sibling-nil-child"

// balanceSplitCountSlug names a second finding in the same area: when neither side has a vacant
// slot and the right-hand scan met an inner node without nil child ("unbalanced branch"),
// addOnLeaf turns the full leaf into a parent of two new leaves but never sets node.Count = 1
// (the root-split twin of this code does). The node keeps Count = slot length, so its cleared
// slots are served as items with the zero key and no id.
const balanceSplitCountSlug = "balancing-unbalanced-split-keeps-count"

// balanceHazard predicts, from the node map alone, whether Add(n) would run into that class:
// it mirrors add() (descent to the leaf), addOnLeaf (full, non-root leaf) and the sibling scans.
// refuseDup: the call refuses an existing key (unique tree or AddIfNotExist).
func (tr *tree) balanceHazard(n int, refuseDup bool) string {
	if tr.repo == nil || !tr.b.StoreInfo.LeafLoadBalancing || tr.b.StoreInfo.Count == 0 {
		return ""
	}
	slot := tr.b.StoreInfo.SlotLength
	cur := tr.repo.m[tr.b.StoreInfo.RootNodeID]
	if cur == nil {
		return ""
	}
	for {
		idx := 0
		for idx < cur.Count && cur.Slots[idx].Key.N < n {
			idx++
		}
		if refuseDup && cur.Count > 0 {
			i := idx
			if i >= cur.Count {
				i--
			}
			if cur.Slots[i].Key.N == n {
				return ""
			}
		}
		if len(cur.ChildrenIDs) == 0 {
			break
		}
		if cur.ChildrenIDs[idx].IsNil() {
			return "" // the item becomes a new child right there
		}
		cur = tr.repo.m[cur.ChildrenIDs[idx]]
		if cur == nil {
			return ""
		}
	}
	if cur.Count < slot || cur.ParentID.IsNil() {
		return ""
	}
	sibling := func(x *nodeT, left bool) *nodeT {
		p := tr.repo.m[x.ParentID]
		if p == nil || len(p.ChildrenIDs) == 0 {
			return nil
		}
		ix := -1
		for i := 0; i < len(p.ChildrenIDs); i++ {
			if p.ChildrenIDs[i] == x.ID {
				ix = i
				break
			}
		}
		if ix < 0 {
			return nil
		}
		if left {
			if ix > 0 && ix <= p.Count {
				return tr.repo.m[p.ChildrenIDs[ix-1]]
			}
			return nil
		}
		if ix < p.Count {
			return tr.repo.m[p.ChildrenIDs[ix+1]]
		}
		return nil
	}
	scan := func(left bool) (vacant, misplaced, unbalanced bool) {
		for x := cur; x != nil; x = sibling(x, left) {
			if len(x.ChildrenIDs) > 0 {
				first := -1
				for i := 0; i <= x.Count; i++ {
					if x.ChildrenIDs[i].IsNil() {
						first = i
						break
					}
				}
				if first < 0 {
					return false, false, true // "unbalanced branch"
				}
				if left {
					return true, first != x.Count, false
				}
				return true, first != 0, false
			}
			if x.Count < slot {
				return true, false, false
			}
		}
		return false, false, false
	}
	if v, bad, _ := scan(true); v {
		if bad {
			return balanceNilChildSlug
		}
		return ""
	}
	v, bad, unb := scan(false) // SOP resets the unbalanced flag before the right-hand scan, so only this one counts
	if v {
		if bad {
			return balanceNilChildSlug
		}
		return ""
	}
	if unb {
		return balanceSplitCountSlug
	}
	return ""
}
