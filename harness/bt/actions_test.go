package bt

import (
	"fmt"

	"github.com/sharedcode/sop"
	"pgregory.net/rapid"
)

// ---- mutators ----------------------------------------------------------------------------

func (m *machine) keyedOnUnknownCursor() {
	m.st.mutOps++
	m.st.ops++
}

func (m *machine) actAdd(t *rapid.T) {
	k, v := m.genKey(t), m.newVal()
	m.logf("A%d.%d", k.N, k.Tag)
	if m.skipHazardousAdd(k.N, m.c.unique) {
		return
	}
	m.keyedOnUnknownCursor()
	m.pre()
	ok, err := m.tr.b.Add(ctx, k, v)
	call := fmt.Sprintf("Add(%d)", k.N)
	m.noErr(t, call, err)
	want := !(m.c.unique && m.has(k.N))
	m.wantBool(t, call, ok, want)
	m.account(true, m.itemsBefore)
	var e expect
	if want {
		e.adds = []mitem{{k.N, k.Tag, v}}
	}
	m.staleRisk = want // a refused add leaves the cursor on the existing item
	m.cur = curUnknown
	m.verify(t, call, e)
}

func (m *machine) actAddIfNotExist(t *rapid.T) {
	k, v := m.genKey(t), m.newVal()
	m.logf("AI%d.%d", k.N, k.Tag)
	if m.skipHazardousAdd(k.N, true) {
		return
	}
	m.keyedOnUnknownCursor()
	m.pre()
	ok, err := m.tr.b.AddIfNotExist(ctx, k, v)
	call := fmt.Sprintf("AddIfNotExist(%d)", k.N)
	m.noErr(t, call, err)
	want := !m.has(k.N)
	m.wantBool(t, call, ok, want)
	m.account(true, m.itemsBefore)
	var e expect
	if want {
		e.adds = []mitem{{k.N, k.Tag, v}}
	}
	if m.tr.b.IsUnique() != m.c.unique {
		t.Fatalf("%s changed the tree's uniqueness setting to %v", call, m.tr.b.IsUnique())
	}
	m.staleRisk = want
	m.cur = curUnknown
	m.verify(t, call, e)
}

func (m *machine) actUpsert(t *rapid.T) {
	k, v := m.genKey(t), m.newVal()
	m.logf("US%d.%d", k.N, k.Tag)
	if m.skipHazardousAdd(k.N, true) {
		return
	}
	m.keyedOnUnknownCursor()
	m.pre()
	ok, err := m.tr.b.Upsert(ctx, k, v)
	call := fmt.Sprintf("Upsert(%d)", k.N)
	m.noErr(t, call, err)
	m.wantBool(t, call, ok, true)
	var e expect
	if m.has(k.N) {
		e.chg = &changeExpect{n: k.N, val: &v, tag: &k.Tag, tagFree: true}
	} else {
		e.adds = []mitem{{k.N, k.Tag, v}}
	}
	m.account(true, m.itemsBefore)
	m.staleRisk = len(e.adds) > 0
	m.cur = curUnknown
	m.verify(t, call, e)
}

func (m *machine) actUpdate(t *rapid.T) {
	k, v := m.genKey(t), m.newVal()
	m.logf("U%d.%d", k.N, k.Tag)
	m.keyedOnUnknownCursor()
	m.guardZeroLookup(t, k.N)
	m.pre()
	ok, err := m.tr.b.Update(ctx, k, v)
	m.positioned()
	call := fmt.Sprintf("Update(%d)", k.N)
	m.noErr(t, call, err)
	want := m.has(k.N)
	m.wantBool(t, call, ok, want)
	var e expect
	if want {
		e.chg = &changeExpect{n: k.N, val: &v, tag: &k.Tag, tagFree: true}
	}
	m.cur = curUnknown
	m.verify(t, call, e)
}

func (m *machine) actUpdateKey(t *rapid.T) {
	k := m.genKey(t)
	m.logf("UK%d.%d", k.N, k.Tag)
	m.keyedOnUnknownCursor()
	m.guardZeroLookup(t, k.N)
	m.pre()
	ok, err := m.tr.b.UpdateKey(ctx, k)
	m.positioned()
	call := fmt.Sprintf("UpdateKey(%d tag %d)", k.N, k.Tag)
	m.noErr(t, call, err)
	want := m.has(k.N)
	m.wantBool(t, call, ok, want)
	var e expect
	if want {
		e.chg = &changeExpect{n: k.N, tag: &k.Tag}
		m.st.keyChanged++
	}
	m.cur = curUnknown
	m.verify(t, call, e)
}

// otherN returns a key that orders differently from n.
func (m *machine) otherN(t *rapid.T, n int) int {
	if rapid.Bool().Draw(t, "near") {
		return n + rapid.SampledFrom([]int{-1, 1}).Draw(t, "d")
	}
	o := m.genN(t)
	if o == n {
		o = n + 1
	}
	return o
}

func (m *machine) actUpdateCurrentKey(t *rapid.T) {
	if m.cur == curUnknown {
		t.Skip()
	}
	sel, _, known := m.selected()
	tag := rapid.IntRange(0, 2).Draw(t, "tag")
	m.st.ops++
	m.st.mutOps++
	if !known { // fresh tree: nothing selected
		m.logf("UCK-")
		ok, _ := m.tr.b.UpdateCurrentKey(ctx, K{N: 0, Tag: tag})
		m.wantBool(t, "UpdateCurrentKey with nothing selected", ok, false)
		m.verify(t, "UpdateCurrentKey with nothing selected", expect{})
		return
	}
	k := K{N: sel.N, Tag: tag}
	reorder := rapid.Bool().Draw(t, "reorder")
	if reorder {
		k.N = m.otherN(t, sel.N)
	}
	m.logf("UCK%d.%d", k.N, k.Tag)
	m.pre()
	ok, err := m.tr.b.UpdateCurrentKey(ctx, k)
	call := fmt.Sprintf("UpdateCurrentKey(%d tag %d) on key %d", k.N, k.Tag, sel.N)
	if reorder {
		if ok || err == nil {
			t.Fatalf("%s = %v, %v: a key that changes the item's order must be rejected with an error", call, ok, err)
		}
		m.st.rejected++
		m.verify(t, call, expect{})
		return
	}
	m.noErr(t, call, err)
	m.wantBool(t, call, ok, true)
	m.st.keyChanged++
	m.verify(t, call, expect{chg: &changeExpect{id: sel.ID, n: sel.N, tag: &k.Tag}})
}

func (m *machine) actUpdateCurrentItem(t *rapid.T) {
	if m.cur == curUnknown {
		t.Skip()
	}
	sel, _, known := m.selected()
	tag := rapid.IntRange(0, 2).Draw(t, "tag")
	v := m.newVal()
	m.st.ops++
	m.st.mutOps++
	if !known {
		m.logf("UCI-")
		ok, _ := m.tr.b.UpdateCurrentItem(ctx, K{N: 0, Tag: tag}, v)
		m.wantBool(t, "UpdateCurrentItem with nothing selected", ok, false)
		m.verify(t, "UpdateCurrentItem with nothing selected", expect{})
		return
	}
	k := K{N: sel.N, Tag: tag}
	reorder := rapid.Bool().Draw(t, "reorder")
	if reorder {
		k.N = m.otherN(t, sel.N)
	}
	m.logf("UCI%d.%d", k.N, k.Tag)
	m.pre()
	ok, err := m.tr.b.UpdateCurrentItem(ctx, k, v)
	call := fmt.Sprintf("UpdateCurrentItem(%d tag %d) on key %d", k.N, k.Tag, sel.N)
	if reorder {
		if ok || err == nil {
			t.Fatalf("%s = %v, %v: a key that changes the item's order must be rejected with an error", call, ok, err)
		}
		m.st.rejected++
		m.verify(t, call, expect{})
		return
	}
	m.noErr(t, call, err)
	m.wantBool(t, call, ok, true)
	m.st.keyChanged++
	m.verify(t, call, expect{chg: &changeExpect{id: sel.ID, n: sel.N, val: &v, tag: &k.Tag}})
}

func (m *machine) actUpdateCurrentValue(t *rapid.T) {
	if m.cur == curUnknown {
		t.Skip()
	}
	sel, _, known := m.selected()
	v := m.newVal()
	m.st.ops++
	m.st.mutOps++
	if !known {
		m.logf("UCV-")
		ok, _ := m.tr.b.UpdateCurrentValue(ctx, v)
		m.wantBool(t, "UpdateCurrentValue with nothing selected", ok, false)
		m.verify(t, "UpdateCurrentValue with nothing selected", expect{})
		return
	}
	m.logf("UCV")
	m.pre()
	ok, err := m.tr.b.UpdateCurrentValue(ctx, v)
	call := fmt.Sprintf("UpdateCurrentValue on key %d", sel.N)
	m.noErr(t, call, err)
	m.wantBool(t, call, ok, true)
	m.verify(t, call, expect{chg: &changeExpect{id: sel.ID, n: sel.N, val: &v}})
}

func (m *machine) actRemove(t *rapid.T) {
	n := m.genN(t)
	m.logf("R%d", n)
	m.keyedOnUnknownCursor()
	m.guardZeroLookup(t, n)
	m.pre()
	ok, err := m.tr.b.Remove(ctx, K{N: n})
	m.positioned()
	call := fmt.Sprintf("Remove(%d)", n)
	m.noErr(t, call, err)
	want := m.has(n)
	m.wantBool(t, call, ok, want)
	m.account(false, m.itemsBefore)
	var e expect
	if want {
		e.rmByN = map[int]int{n: 1}
	}
	m.cur = curUnknown
	m.verify(t, call, e)
}

func (m *machine) actRemoveCurrentItem(t *rapid.T) {
	if m.cur == curUnknown {
		t.Skip()
	}
	sel, _, known := m.selected()
	m.st.ops++
	m.st.mutOps++
	if !known {
		m.logf("RC-")
		ok, _ := m.tr.b.RemoveCurrentItem(ctx)
		m.wantBool(t, "RemoveCurrentItem with nothing selected", ok, false)
		m.verify(t, "RemoveCurrentItem with nothing selected", expect{})
		return
	}
	m.logf("RC")
	m.pre()
	ok, err := m.tr.b.RemoveCurrentItem(ctx)
	call := fmt.Sprintf("RemoveCurrentItem on key %d value %d", sel.N, sel.Val)
	m.noErr(t, call, err)
	m.wantBool(t, call, ok, true)
	m.account(false, m.itemsBefore)
	m.cur = curUnknown
	m.verify(t, call, expect{rmIDs: []sop.UUID{sel.ID}})
}

// actGrowRun adds a run of keys (ascending, descending, scattered or one repeated key).
func (m *machine) actGrowRun(t *rapid.T) {
	cnt := rapid.IntRange(2, 24+6*m.c.slot).Draw(t, "count")
	pat := rapid.IntRange(0, 3).Draw(t, "pattern")
	ifNot := rapid.Bool().Draw(t, "ifNotExist")
	start := m.genN(t)
	stride := rapid.IntRange(1, 3).Draw(t, "stride")
	m.logf("G%d/%d/%v/%d/%d", cnt, pat, ifNot, start, stride)
	m.st.ops++
	m.st.mutOps++
	m.pre()
	var e expect
	for i := 0; i < cnt; i++ {
		n := start
		switch pat {
		case 0:
			n = start + i*stride
		case 1:
			n = start - i*stride
		case 2:
			n = rapid.IntRange(0, m.c.dom-1).Draw(t, "n")
		}
		if n < -1 || n > m.c.dom {
			n = ((n % (m.c.dom + 1)) + m.c.dom + 1) % (m.c.dom + 1)
		}
		k := K{N: n, Tag: i % 3}
		if m.skipHazardousAdd(n, ifNot || m.c.unique) {
			continue
		}
		v := m.newVal()
		items := m.itemsBefore + len(e.adds)
		var ok bool
		var err error
		var want bool
		if ifNot {
			ok, err = m.tr.b.AddIfNotExist(ctx, k, v)
			want = !m.has(n)
		} else {
			ok, err = m.tr.b.Add(ctx, k, v)
			want = !(m.c.unique && m.has(n))
		}
		call := fmt.Sprintf("add #%d of a run: key %d", i, n)
		m.noErr(t, call, err)
		m.wantBool(t, call, ok, want)
		m.account(true, items)
		m.staleRisk = want
		if want {
			e.adds = append(e.adds, mitem{n, k.Tag, v})
			m.cntN[n]++
		}
	}
	m.cur = curUnknown
	m.bulk = true
	m.verify(t, "a run of adds", e)
}

// actShrinkRun removes a run of keys, by key or by Find + RemoveCurrentItem.
func (m *machine) actShrinkRun(t *rapid.T) {
	if len(m.seq) == 0 {
		t.Skip()
	}
	cnt := rapid.IntRange(2, 24+4*m.c.slot).Draw(t, "count")
	viaCursor := rapid.Bool().Draw(t, "viaCursor")
	pat := rapid.IntRange(0, 2).Draw(t, "pattern")
	at := rapid.IntRange(0, len(m.seq)-1).Draw(t, "at")
	m.logf("S%d/%v/%d/%d", cnt, viaCursor, pat, at)
	m.st.ops++
	m.st.mutOps++
	m.pre()
	e := expect{rmByN: map[int]int{}}
	removed := 0
	for i := 0; i < cnt; i++ {
		p := at
		switch pat {
		case 0:
			p = at + i
		case 1:
			p = at - i
		case 2:
			p = rapid.IntRange(0, len(m.seq)-1).Draw(t, "p")
		}
		p = ((p % len(m.seq)) + len(m.seq)) % len(m.seq)
		n := m.seq[p].N
		want := m.has(n)
		var ok bool
		var err error
		call := fmt.Sprintf("remove #%d of a run: key %d", i, n)
		items := m.itemsBefore - removed
		m.guardZeroLookup(t, n)
		if items > 0 {
			m.staleRisk = false
		}
		if viaCursor {
			ok, err = m.tr.b.Find(ctx, K{N: n}, false)
			m.noErr(t, call, err)
			m.wantBool(t, "Find in "+call, ok, want)
			if ok {
				ok, err = m.tr.b.RemoveCurrentItem(ctx)
			}
		} else {
			ok, err = m.tr.b.Remove(ctx, K{N: n})
		}
		m.noErr(t, call, err)
		m.wantBool(t, call, ok, want)
		m.account(false, items)
		if want {
			m.cntN[n]--
			e.rmByN[n]++
			removed++
		}
	}
	m.cur = curUnknown
	m.bulk = true
	m.verify(t, "a run of removals", e)
}

// actDrain removes every item: from the front, from the back, or by key in a scattered order.
func (m *machine) actDrain(t *rapid.T) {
	// not more often than every 40 mutating calls, so trees get the time to grow tall
	if len(m.seq) == 0 || m.st.mutOps-m.lastDrain < 40 {
		t.Skip()
	}
	m.lastDrain = m.st.mutOps
	how := rapid.IntRange(0, 2).Draw(t, "how")
	strideIx := rapid.IntRange(0, 5).Draw(t, "stride")
	m.logf("D%d/%d", how, strideIx)
	m.st.ops++
	m.st.mutOps++
	m.pre()
	total := len(m.seq)
	e := expect{rmByN: map[int]int{}}
	for _, o := range m.seq {
		e.rmByN[o.N]++
	}
	stride := 1
	for _, p := range []int{7, 11, 13, 17, 19, 23}[strideIx:] {
		if total%p != 0 {
			stride = p
			break
		}
	}
	for i := 0; i < total; i++ {
		var ok bool
		var err error
		call := fmt.Sprintf("drain step %d of %d", i, total)
		switch how {
		case 0:
			ok, err = m.tr.b.First(ctx)
			m.noErr(t, call, err)
			m.wantBool(t, "First in "+call, ok, true)
			ok, err = m.tr.b.RemoveCurrentItem(ctx)
		case 1:
			ok, err = m.tr.b.Last(ctx)
			m.noErr(t, call, err)
			m.wantBool(t, "Last in "+call, ok, true)
			ok, err = m.tr.b.RemoveCurrentItem(ctx)
		default:
			n := m.seq[(i*stride)%total].N
			m.guardZeroLookup(t, n)
			ok, err = m.tr.b.Remove(ctx, K{N: n})
			call += fmt.Sprintf(" Remove(%d)", n)
		}
		m.noErr(t, call, err)
		m.wantBool(t, call, ok, true)
		m.account(false, total-i)
		m.staleRisk = false
		if got := m.tr.b.Count(); got != int64(total-i-1) {
			t.Fatalf("%s: Count()=%d, want %d", call, got, total-i-1)
		}
	}
	if total > 8 {
		m.st.drainedBig = true
	}
	m.cur = curUnknown
	m.bulk = true
	m.verify(t, "draining the tree", e)
}

// ---- navigators --------------------------------------------------------------------------

func (m *machine) nav() {
	m.st.ops++
	m.st.navOps++
}

// landed reads the cursor after a successful keyed search: it must be on an item with key n.
func (m *machine) landed(t *rapid.T, call string, n int) int {
	ck := m.tr.b.GetCurrentKey()
	i, ok := m.idx[ck.ID]
	if !ok || m.seq[i].N != n || ck.Key.N != n {
		t.Fatalf("%s = true but the cursor is on key=%d id=%v, which is not an item with key %d\n tree: %s", call, ck.Key.N, ck.ID, n, renderSeq(m.seq, 120))
	}
	m.cursorMustBe(t, call, m.seq[i])
	m.setKnown(ck.ID)
	return i
}

func (m *machine) actFind(t *rapid.T) {
	n := m.genN(t)
	first := rapid.Bool().Draw(t, "first")
	m.logf("F%d/%v", n, first)
	m.nav()
	if !first {
		m.guardZeroLookup(t, n)
	}
	ok, err := m.tr.b.Find(ctx, K{N: n}, first)
	m.positioned()
	call := fmt.Sprintf("Find(%d,%v)", n, first)
	m.noErr(t, call, err)
	m.wantBool(t, call, ok, m.has(n))
	if !ok {
		m.cur = curUnknown
		return
	}
	m.landed(t, call, n)
}

func (m *machine) actFindDesc(t *rapid.T) {
	n := m.genN(t)
	m.logf("FD%d", n)
	m.nav()
	ok, err := m.tr.b.FindInDescendingOrder(ctx, K{N: n})
	m.positioned()
	call := fmt.Sprintf("FindInDescendingOrder(%d)", n)
	m.noErr(t, call, err)
	m.wantBool(t, call, ok, m.has(n))
	if !ok {
		m.cur = curUnknown
		return
	}
	m.landed(t, call, n)
}

func (m *machine) actFindWithID(t *rapid.T) {
	m.nav()
	if len(m.seq) == 0 || rapid.IntRange(0, 5).Draw(t, "absent") == 0 {
		n := m.genN(t)
		m.logf("FI%d/absent", n)
		ok, err := m.tr.b.FindWithID(ctx, K{N: n}, sop.NewUUID())
		m.positioned()
		m.noErr(t, "FindWithID", err)
		m.wantBool(t, fmt.Sprintf("FindWithID(%d, an id no item has)", n), ok, false)
		m.cur = curUnknown
		return
	}
	p := rapid.IntRange(0, len(m.seq)-1).Draw(t, "at")
	o := m.seq[p]
	m.logf("FI%d@%d", o.N, p)
	ok, err := m.tr.b.FindWithID(ctx, K{N: o.N}, o.ID)
	m.positioned()
	call := fmt.Sprintf("FindWithID(%d, id of value %d)", o.N, o.Val)
	m.noErr(t, call, err)
	m.wantBool(t, call, ok, true)
	m.cursorMustBe(t, call, o)
	m.setKnown(o.ID)
}

func (m *machine) actFirst(t *rapid.T) {
	m.logf("FST")
	m.nav()
	ok, err := m.tr.b.First(ctx)
	m.positioned()
	m.noErr(t, "First", err)
	m.wantBool(t, "First", ok, len(m.seq) > 0)
	if ok {
		m.cursorMustBe(t, "First", m.seq[0])
		m.setKnown(m.seq[0].ID)
	}
}

func (m *machine) actLast(t *rapid.T) {
	m.logf("LST")
	m.nav()
	ok, err := m.tr.b.Last(ctx)
	m.positioned()
	m.noErr(t, "Last", err)
	m.wantBool(t, "Last", ok, len(m.seq) > 0)
	if ok {
		l := m.seq[len(m.seq)-1]
		m.cursorMustBe(t, "Last", l)
		m.setKnown(l.ID)
	}
}

// step moves the known cursor by one in either direction and checks where it lands.
func (m *machine) step(t *rapid.T, fwd bool) bool {
	sel, i, _ := m.selected()
	var ok bool
	var err error
	name := "Previous"
	j := i - 1
	if fwd {
		name = "Next"
		j = i + 1
		ok, err = m.tr.b.Next(ctx)
	} else {
		ok, err = m.tr.b.Previous(ctx)
	}
	call := fmt.Sprintf("%s from key %d value %d (position %d of %d)", name, sel.N, sel.Val, i, len(m.seq))
	m.noErr(t, call, err)
	m.wantBool(t, call, ok, j >= 0 && j < len(m.seq))
	if !ok {
		m.cur = curUnknown
		return false
	}
	m.cursorMustBe(t, call, m.seq[j])
	m.setKnown(m.seq[j].ID)
	return true
}

func (m *machine) actNext(t *rapid.T) {
	if m.cur == curUnknown {
		t.Skip()
	}
	m.nav()
	if m.cur == curFresh {
		m.logf("N-")
		ok, _ := m.tr.b.Next(ctx)
		m.wantBool(t, "Next with nothing selected", ok, false)
		return
	}
	cnt := rapid.IntRange(1, 12).Draw(t, "steps")
	m.logf("N%d", cnt)
	for i := 0; i < cnt && m.step(t, true); i++ {
	}
}

func (m *machine) actPrevious(t *rapid.T) {
	if m.cur == curUnknown {
		t.Skip()
	}
	m.nav()
	if m.cur == curFresh {
		m.logf("P-")
		ok, _ := m.tr.b.Previous(ctx)
		m.wantBool(t, "Previous with nothing selected", ok, false)
		return
	}
	cnt := rapid.IntRange(1, 12).Draw(t, "steps")
	m.logf("P%d", cnt)
	for i := 0; i < cnt && m.step(t, false); i++ {
	}
}

func (m *machine) actGetCurrent(t *rapid.T) {
	if m.cur == curUnknown {
		t.Skip()
	}
	m.logf("GC")
	m.nav()
	sel, _, known := m.selected()
	if !known {
		if ck := m.tr.b.GetCurrentKey(); !ck.ID.IsNil() {
			t.Fatalf("GetCurrentKey on a tree where nothing was ever selected returns id %v key %+v", ck.ID, ck.Key)
		}
		return
	}
	m.cursorMustBe(t, "GetCurrentKey/GetCurrentValue", sel)
	if m.tr.trk != nil {
		m.tr.trk.reset()
	}
	it, err := m.tr.b.GetCurrentItem(ctx)
	m.noErr(t, "GetCurrentItem", err)
	if k := m.tr.trk; k != nil {
		if len(k.ev) != 1 || k.ev[0].kind != 'G' || k.ev[0].id != sel.ID {
			t.Fatalf("GetCurrentItem on key=%d value=%d sent ItemActionTracker notifications %s, want one Get of that item", sel.N, sel.Val, renderEvents(k.ev))
		}
		k.reset()
	}
	if it.ID != sel.ID || it.Key.N != sel.N || it.Key.Tag != sel.Tag || it.Value == nil || *it.Value != sel.Val {
		t.Fatalf("GetCurrentItem = %+v, expected key=%d tag=%d value=%d", it, sel.N, sel.Tag, sel.Val)
	}
}

// fullScan compares First/Next and Last/Previous scans (and the range-over-func forms of the
// in-memory wrapper) with the last snapshot.
func (m *machine) fullScan(t *rapid.T, why string) {
	m.st.scans++
	m.positioned()
	fw, err := m.tr.scanForward()
	if err != nil {
		t.Fatalf("%s: %v", why, err)
	}
	if len(fw) != len(m.seq) {
		t.Fatalf("%s: forward scan returns %d items, the tree holds %d\n scan: %s\n tree: %s", why, len(fw), len(m.seq), renderSeq(fw, 120), renderSeq(m.seq, 120))
	}
	for i := range fw {
		if !sameItem(fw[i], obs{N: m.seq[i].N, Tag: m.seq[i].Tag, Val: m.seq[i].Val, ID: m.seq[i].ID}) {
			t.Fatalf("%s: forward scan differs at position %d\n scan: %s\n tree: %s", why, i, renderSeq(fw, 120), renderSeq(m.seq, 120))
		}
	}
	bw, err := m.tr.scanBackward()
	if err != nil {
		t.Fatalf("%s: %v", why, err)
	}
	if len(bw) != len(m.seq) {
		t.Fatalf("%s: backward scan returns %d items, the tree holds %d\n scan: %s\n tree: %s", why, len(bw), len(m.seq), renderSeq(bw, 120), renderSeq(m.seq, 120))
	}
	for i := range bw {
		s := m.seq[len(m.seq)-1-i]
		if !sameItem(bw[i], obs{N: s.N, Tag: s.Tag, Val: s.Val, ID: s.ID}) {
			t.Fatalf("%s: backward scan differs at position %d from the end\n scan: %s\n tree: %s", why, i, renderSeq(bw, 120), renderSeq(m.seq, 120))
		}
	}
	m.cur = curUnknown
}

func (m *machine) actScan(t *rapid.T) {
	m.logf("SCAN")
	m.st.ops++
	m.fullScan(t, "full scan")
	// range-over-func iterators of the in-memory wrapper drive the same cursor
	i := 0
	for k, v := range m.tr.im.All() {
		if i >= len(m.seq) || k.N != m.seq[i].N || k.Tag != m.seq[i].Tag || v != m.seq[i].Val {
			t.Fatalf("All() differs at position %d: key=%d value=%d\n tree: %s", i, k.N, v, renderSeq(m.seq, 120))
		}
		i++
	}
	if i != len(m.seq) {
		t.Fatalf("All() yields %d items, the tree holds %d", i, len(m.seq))
	}
	i = len(m.seq) - 1
	for k, v := range m.tr.im.AllDesc() {
		if i < 0 || k.N != m.seq[i].N || k.Tag != m.seq[i].Tag || v != m.seq[i].Val {
			t.Fatalf("AllDesc() differs at position %d: key=%d value=%d\n tree: %s", i, k.N, v, renderSeq(m.seq, 120))
		}
		i--
	}
	if i != -1 {
		t.Fatalf("AllDesc() yields %d items, the tree holds %d", len(m.seq)-1-i, len(m.seq))
	}
}

func (m *machine) invariant(t *rapid.T) {
	if got := m.tr.b.Count(); got != int64(len(m.model)) {
		t.Fatalf("Count()=%d, model holds %d items", got, len(m.model))
	}
}

func (m *machine) mutatorActions() map[string]func(*rapid.T) {
	return map[string]func(*rapid.T){
		"Add":               m.actAdd,
		"AddIfNotExist":     m.actAddIfNotExist,
		"Upsert":            m.actUpsert,
		"Update":            m.actUpdate,
		"UpdateKey":         m.actUpdateKey,
		"UpdateCurrentKey":  m.actUpdateCurrentKey,
		"UpdateCurrentItem": m.actUpdateCurrentItem,
		"UpdateCurrentVal":  m.actUpdateCurrentValue,
		"Remove":            m.actRemove,
		"RemoveCurrentItem": m.actRemoveCurrentItem,
		"GrowRun":           m.actGrowRun,
		"GrowRun2":          m.actGrowRun,
		"ShrinkRun":         m.actShrinkRun,
		"Drain":             m.actDrain,
	}
}

func (m *machine) navigatorActions() map[string]func(*rapid.T) {
	return map[string]func(*rapid.T){
		"Find":       m.actFind,
		"FindDesc":   m.actFindDesc,
		"FindWithID": m.actFindWithID,
		"First":      m.actFirst,
		"Last":       m.actLast,
		"Next":       m.actNext,
		"Previous":   m.actPrevious,
		"GetCurrent": m.actGetCurrent,
		"Scan":       m.actScan,
	}
}
