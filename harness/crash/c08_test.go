package crash

import (
	"fmt"
	"os"
	"strings"
	"testing"

	"github.com/sharedcode/sop"
	"pgregory.net/rapid"

	"verif/harness/stats"
	"verif/harness/txh"
)

var crashGen = txh.GenOpts{KeyDomain: 8, MaxOps: 7, MaxTxns: 3, Placements: []int{0, 0, 1, 3}, MaxStores: 2}

func genCrashHistory(t *rapid.T) txh.History {
	h := txh.GenHistory(t, crashGen)
	last := &h.Txns[len(h.Txns)-1]
	last.Mode = sop.ForWriting
	last.End = "commit"
	for i := range h.Txns {
		h.Txns[i].End = "commit"
		h.Txns[i].Mode = sop.ForWriting
	}
	return h
}

// genRivalHistory: the victim's commit meets a store that another transaction changed after the victim's operations:
// an empty store whose root the rival created meanwhile (half of the cases), or a small tree; the rival adds keys
// nobody else uses, so the states before and after the victim both contain them.
func genRivalHistory(t *rapid.T) txh.History {
	h := txh.History{HashMod: rapid.SampledFrom([]int{1, 2, 5}).Draw(t, "hashMod"), UUIDSeed: rapid.Uint64().Draw(t, "uuidSeed")}
	h.Stores = []txh.StoreOpts{txh.GenStoreOpts(t, 0, []int{0, 0, 1, 3})}
	h.Stores[0].Slot = rapid.SampledFrom([]int{2, 4, 4, 8}).Draw(t, "slotR")
	h.Stores[0].Unique = true
	tag := 0
	adds := func(n, base, span int, who string) []txh.Op {
		var ops []txh.Op
		used := map[int]bool{}
		for i := 0; i < n; i++ {
			k := base + rapid.IntRange(0, span-1).Draw(t, who+"key")
			if used[k] {
				continue
			}
			used[k] = true
			tag++
			ops = append(ops, txh.Op{Kind: "add", K: k, Tag: fmt.Sprintf("%s%d", who, tag), Size: rapid.SampledFrom([]int{0, 10}).Draw(t, who+"size")})
		}
		return ops
	}
	if rapid.Bool().Draw(t, "seeded") {
		h.Txns = append(h.Txns, txh.TxnProg{Mode: sop.ForWriting, End: "commit", Ops: adds(rapid.IntRange(1, 6).Draw(t, "nSeed"), 100, 20, "s")})
	}
	h.Txns = append(h.Txns, txh.TxnProg{Mode: sop.ForWriting, End: "commit", Ops: adds(rapid.IntRange(1, 5).Draw(t, "nVictim"), 0, 40, "v")})
	h.Rival = &txh.TxnProg{Mode: sop.ForWriting, End: "commit", Ops: adds(rapid.IntRange(1, 4).Draw(t, "nRival"), 1000, 40, "r")}
	return h
}

type crashOutcome struct {
	site       string
	state      string // pre | post
	retryErr   string
	logsLeft   []string
	orphans    []string
	problems   []string
	warmupErr  []string
	countOff   bool
	staleRetry bool // the retry failed with the known C04 finding's signature
	// newRootShape: some store the victim adds to was empty before (its commit creates the root)
	newRootShape bool
}

// knownStale: the recorded C04 finding (the item tracker keeps pointers into a node's slot array; an add or
// remove later in the same transaction shifts the slots; a commit that has to refetch and merge then replays
// the tracked read against the wrong key). A crash image with an un-aged node reservation makes the retry
// refetch and merge, so the same defect shows here for programs of that shape.
var knownStale = stats.Known("C04", "tracked-item-pointer-stale-after-slot-shift")

// stalePointerShape: some operation that tracks an existing item (read, scan, update, failed add) is followed,
// in the same store, by an add or remove.
func stalePointerShape(p txh.TxnProg) bool {
	touched := map[int]bool{}
	for _, o := range p.Ops {
		switch o.Kind {
		case "add", "addIfNotExist", "upsert", "remove", "curRemove":
			if touched[o.S] {
				return true
			}
		}
		switch o.Kind {
		case "count":
		default:
			touched[o.S] = true
		}
	}
	return false
}

// crashCase runs victim (dies at call k) and restart (clock advanced) in child processes and
// judges C08. It returns a violation text ("" = held) and the outcome for C09.
var knownCount = stats.Known("C08", "count-not-restored-after-crash")
var knownRoot = stats.Known("C08", "partial-new-root-after-crash")

func crashCase(h txh.History, k int, after bool, nowOffset int64, warmups int) (string, *crashOutcome, error) {
	return crashCaseM(h, k, after, nowOffset, warmups, false)
}

// crashCaseM: maintenance = the restart process runs SOP's maintenance pass through the verif hook.
func crashCaseM(h txh.History, k int, after bool, nowOffset int64, warmups int, maintenance bool) (string, *crashOutcome, error) {
	dir, err := os.MkdirTemp("", "crash")
	if err != nil {
		return "", nil, fmt.Errorf("HARNESS-ERROR %w", err)
	}
	defer os.RemoveAll(dir)
	victim := len(h.Txns) - 1
	vr, err := txh.RunJob(txh.Job{Kind: "victim", Dir: dir, HashMod: h.HashMod, History: &h, Victim: victim, CrashK: k, CrashAfter: after})
	if err != nil {
		return "", nil, err
	}
	if vr.Err != "" {
		return "", nil, fmt.Errorf("HARNESS-ERROR victim: %s", vr.Err)
	}
	if vr.CrashSite == "" {
		return "", nil, nil // the plan never fired (commit has fewer calls)
	}
	out := &crashOutcome{site: vr.CrashSite}
	for i := range h.Stores {
		if len(vr.Pre[i].Items) == 0 && len(vr.Post[i].Items) > 0 {
			out.newRootShape = true
		}
	}
	rr, err := txh.RunJob(txh.Job{Kind: "restart", Dir: dir, HashMod: h.HashMod, Stores: h.Stores, NowOffsetSec: nowOffset, Warmups: warmups, History: &h, Victim: victim, Maintenance: maintenance})
	if err != nil {
		return "", nil, err
	}
	where := fmt.Sprintf("crash %s (clock +%ds)", vr.CrashSite, nowOffset)
	if rr.FirstDumpErr != "" {
		return fmt.Sprintf("%s: the first reader after restart fails: %s", where, rr.FirstDumpErr), out, nil
	}
	if rr.Err != "" {
		return fmt.Sprintf("%s: %s", where, rr.Err), out, nil
	}
	itemsEqual := func(d []txh.StoreDump, m []*txh.Model) string {
		for i := range h.Stores {
			if !d[i].Exists {
				return fmt.Sprintf("store %s does not exist", h.Stores[i].Name)
			}
			if knownCount && d[i].Count == 0 && len(d[i].Items) == 0 && len(vr.Post[i].Items) == 0 && len(vr.Pre[i].Items) > 0 {
				// same root cause as the count finding: the victim emptied this store, its Count()==0 was
				// published before the commit point and the B-tree treats a store with count 0 as empty
				out.countOff = true
				continue
			}
			if knownCount && len(vr.Pre[i].Items) == 0 && d[i].Count == int64(len(vr.Post[i].Items)) && d[i].Count > 0 && len(d[i].Items) <= 1 && (len(d[i].Items) == 0 || d[i].Items[0].V == "") {
				// same root cause again: the store was empty (its emptied root node is still there), the victim's
				// count was published early, so the B-tree walks the empty root and serves its cleared slot
				out.countOff = true
				continue
			}
			if ok, why := txh.SameItems(d[i].Items, m[i]); !ok {
				return fmt.Sprintf("store %s: %s", h.Stores[i].Name, why)
			}
		}
		return ""
	}
	judge := func(d []txh.StoreDump, what string) string {
		pre := itemsEqual(d, vr.Pre)
		post := itemsEqual(d, vr.Post)
		switch {
		case pre == "":
			out.state = "pre"
		case post == "":
			out.state = "post"
		default:
			return fmt.Sprintf("%s: %s: the stores are neither all-before nor all-after the crashed transaction: vs before: %s; vs after: %s", where, what, pre, post)
		}
		for i := range h.Stores {
			if d[i].Count != int64(len(d[i].Items)) {
				if knownCount {
					out.countOff = true
					continue
				}
				return fmt.Sprintf("%s: %s: store %s reads as %s the crashed transaction but Count()=%d while the scan returns %d items", where, what, h.Stores[i].Name, out.state, d[i].Count, len(d[i].Items))
			}
		}
		return ""
	}
	if msg := judge(rr.FirstDumps, "first reader after restart"); msg != "" {
		return msg, out, nil
	}
	first := out.state
	if msg := judge(rr.Dumps, fmt.Sprintf("after %d later transactions", warmups)); msg != "" {
		return msg, out, nil
	}
	if first == "post" && out.state == "pre" {
		return fmt.Sprintf("%s: readers first saw the crashed transaction's changes and later did not", where), out, nil
	}
	out.retryErr = rr.RetryErr
	out.warmupErr = rr.WarmupErrs
	if knownStale && strings.Contains(rr.RetryErr, "refetchAndMergeModifications failed to find item with key") && stalePointerShape(h.Txns[victim]) {
		out.staleRetry = true
		out.retryErr = ""
		return "", out, nil
	}
	if rr.RetryErr != "" {
		return fmt.Sprintf("%s: the stores are not writable afterwards: making the crashed transaction's changes again fails: %s", where, rr.RetryErr), out, nil
	}
	if rr.ProbeErr != "" {
		return fmt.Sprintf("%s: %s", where, rr.ProbeErr), out, nil
	}
	r := txh.ReadDisk(dir)
	out.problems = r.AllProblems()
	if len(out.problems) > 0 {
		return fmt.Sprintf("%s: %s", where, strings.Join(out.problems, "; ")), out, nil
	}
	out.logsLeft = r.Logs
	out.orphans = r.Orphans()
	return "", out, nil
}

// TestC08_CrashDuringCommit
func TestC08_CrashDuringCommit(t *testing.T) {
	rec := stats.For("C08").Meta("fault_enumeration",
		"shape = generated committed prefix + victim writer (1-2 stores, in-node / separate / actively persisted values); the victim runs in a child process that exits (os.Exit, nothing flushed or cleaned) before or after backend call k of its Commit, for EVERY k and both positions of each drawn shape; a restart process on the same directory with sop.Now advanced by 2 h (past the 5 min / 1 h recovery ages; file mtimes untouched) uses the public API only: a reader dumps every store, 3 later write transactions run, a reader dumps again, then the crashed transaction's changes are made again; oracle: both dumps equal the pre-victim or the post-victim state, the same choice for ALL stores, never post-then-pre; the retry commits; an independent disk walk loads everything reachable; non-trivial = the crash point lies after the first durable write of the commit; distinct by (history, k, position)",
		"a process exit models a crash on a local file system without power loss (page cache survives); torn registry blocks are C22's subject",
		"standalone mode (in-memory L2): the restart process has empty caches and no locks")
	quick := stats.Tier() != "thorough"
	rapid.Check(t, func(t *rapid.T) {
		var h txh.History
		if rapid.IntRange(0, 4).Draw(t, "withRival") == 0 {
			h = genRivalHistory(t)
		} else {
			h = genCrashHistory(t)
		}
		// dry run in a child to learn the commit's call list
		dir, _ := os.MkdirTemp("", "crashdry")
		dr, err := txh.RunJob(txh.Job{Kind: "victim", Dir: dir, HashMod: h.HashMod, History: &h, Victim: len(h.Txns) - 1, CrashK: -1})
		os.RemoveAll(dir)
		if err != nil || dr.Err != "" || !dr.Committed {
			t.Fatalf("HARNESS-ERROR dry run: %v %v", err, dr)
		}
		n := dr.CommitCall
		firstDurable := n
		for i, s := range dr.Sites {
			if strings.HasPrefix(s, "TLog.Add") || strings.HasPrefix(s, "BlobStore.Add") || strings.HasPrefix(s, "Registry.") && !strings.HasPrefix(s, "Registry.Get") {
				firstDurable = i
				break
			}
		}
		step := 1
		if quick && n > 24 {
			step = 2
		}
		off := rapid.IntRange(0, step-1).Draw(t, "offset")
		rootWindow := [2]int{-1, -1} // [first Registry.Add (new root), second Registry.Add (its children)]
		for i, s := range dr.Sites {
			if strings.HasPrefix(s, "Registry.Add#") {
				if rootWindow[0] < 0 {
					rootWindow[0] = i
				} else if rootWindow[1] < 0 {
					rootWindow[1] = i
				}
			}
		}
		// the new root is live from its registration until the commit point (the phase-2 flip, or when the
		// commit has no flip, the store-info update)
		windowEnd := -1
		for i, s := range dr.Sites {
			if strings.HasPrefix(s, "Registry.UpdateNoLocksFlip") {
				windowEnd = i
			}
		}
		if windowEnd < 0 {
			for i, s := range dr.Sites {
				if strings.HasPrefix(s, "StoreRepository.Update") {
					windowEnd = i + 1
				}
			}
		}
		emptyBefore := false
		for i := range h.Stores {
			if len(dr.Pre[i].Items) == 0 && len(dr.Post[i].Items) > 0 {
				emptyBefore = true
			}
		}
		for k := off; k < n; k += step {
			for _, after := range []bool{false, true} {
				if knownRoot && emptyBefore && rootWindow[0] >= 0 && ((k == rootWindow[0] && after) || (k > rootWindow[0] && k < windowEnd) || (k == windowEnd && !after)) {
					rec.Exclude("crash between the registration of a brand-new root and the commit point (known finding)")
					continue
				}
				msg, out, err := crashCase(h, k, after, 7200, 3)
				if err != nil {
					t.Fatalf("%v", err)
				}
				if out == nil {
					continue
				}
				if out.staleRetry {
					rec.Exclude("the retry went through refetch-and-merge and failed with the recorded C04 finding's signature (stale tracked item pointer)")
					continue
				}
				if msg != "" && os.Getenv("VERIF_COLLECT") != "" {
					m := msg
					if len(m) > 600 {
						m = m[:600]
					}
					fmt.Printf("COLLECT k=%d/%d %s :: %s @@ %s\n", k, n, dr.Sites[k], m, h.Render())
					continue
				}
				if msg != "" {
					t.Fatalf("%s\n  victim commit calls: %v\n  %s", msg, dr.Sites, h.Render())
				}
				pos := "before"
				if after {
					pos = "after"
				}
				site := dr.Sites[k]
				if i := strings.IndexByte(site, '#'); i > 0 {
					site = site[:i]
				}
				lbl := []string{"site:" + site, "state:" + out.state, pos}
				if out.countOff {
					rec.Exclude("Count() keeps the crashed transaction's delta (known finding)")
					lbl = append(lbl, "countOffKnown")
				}
				if h.Rival != nil {
					lbl = append(lbl, "rivalCommittedBeforeTheVictimsCommit")
				}
				rec.Case(fmt.Sprintf("%s k=%d %s", h.Render(), k, pos), k >= firstDurable, lbl...)
			}
		}
		rec.Sample("shape", map[string]any{"history": h.Render(), "commit_calls": dr.Sites})
	})
}

func firstCommitShape() txh.History {
	return txh.History{HashMod: 1, UUIDSeed: 0, Stores: []txh.StoreOpts{{Name: "st0", Slot: 2, Unique: false, Placement: 0}},
		Txns: []txh.TxnProg{{Mode: sop.ForWriting, End: "commit", Ops: []txh.Op{{Kind: "add", K: 1, Tag: "a"}, {Kind: "add", K: 7, Tag: "b"}, {Kind: "add", K: 2, Tag: "c"}}}}}
}

func dryRun(h txh.History) (*txh.JobResult, error) {
	dir, _ := os.MkdirTemp("", "crashdry")
	defer os.RemoveAll(dir)
	dr, err := txh.RunJob(txh.Job{Kind: "victim", Dir: dir, HashMod: h.HashMod, History: &h, Victim: len(h.Txns) - 1, CrashK: -1})
	if err == nil && (dr.Err != "" || !dr.Committed) {
		err = fmt.Errorf("HARNESS-ERROR dry run: %+v", dr)
	}
	return dr, err
}

// TestC08_Known_PartialNewRoot: the first commit into an empty store builds a root with two children;
// the process dies right after the root's registry entry was added, before the children's.
func TestC08_Known_PartialNewRoot(t *testing.T) {
	h := firstCommitShape()
	dr, err := dryRun(h)
	if err != nil {
		t.Fatalf("%v", err)
	}
	k := -1
	for i, s := range dr.Sites {
		if s == "Registry.Add#0" {
			k = i
		}
	}
	if k < 0 {
		t.Skip("commit no longer registers the new root in a separate step")
	}
	save := knownRoot
	knownRoot = false
	msg, _, err := crashCase(h, k, true, 7200, 3)
	knownRoot = save
	if err != nil {
		t.Fatalf("%v", err)
	}
	if msg == "" {
		return
	}
	what := "the first commit into an empty store dies after the new root's registry entry is added and before its children are registered: no recovery removes the root; the store still reports Count 0, but the next commit into it merges onto the dangling root and the tree then references nodes that have no registry entry: " + msg
	if stats.Known("C08", "partial-new-root-after-crash") {
		stats.For("C08").KnownFinding(what)
		return
	}
	t.Fatalf("%s", what)
}

// TestC08_Known_CountNotRestored: a writer adds one item to a store holding two and dies after
// commitStores applied the count, before the phase-2 flip.
func TestC08_Known_CountNotRestored(t *testing.T) {
	h := txh.History{HashMod: 3, UUIDSeed: 1, Stores: []txh.StoreOpts{{Name: "st0", Slot: 4, Unique: true, Placement: 0}},
		Txns: []txh.TxnProg{
			{Mode: sop.ForWriting, End: "commit", Ops: []txh.Op{{Kind: "add", K: 1, Tag: "a"}, {Kind: "add", K: 2, Tag: "b"}}},
			{Mode: sop.ForWriting, End: "commit", Ops: []txh.Op{{Kind: "add", K: 3, Tag: "c"}}}}}
	dr, err := dryRun(h)
	if err != nil {
		t.Fatalf("%v", err)
	}
	k := -1
	for i, s := range dr.Sites {
		if strings.HasPrefix(s, "StoreRepository.Update") {
			k = i
		}
	}
	if k < 0 {
		t.Fatalf("HARNESS-ERROR no store repository update in the commit: %v", dr.Sites)
	}
	save := knownCount
	knownCount = false
	msg, _, err := crashCase(h, k, true, 7200, 3)
	knownCount = save
	if err != nil {
		t.Fatalf("%v", err)
	}
	if msg == "" {
		return
	}
	what := "a writer dies after phase 1 applied its count delta to the store info and before the phase-2 registry flip: after restart, with the clock advanced past every documented recovery age and several later transactions, the items read as before the crashed transaction but Count() keeps the uncommitted delta (nothing ever rolls the crashed transaction back: Transaction.Begin calls onIdle, which returns at once because no store is open yet): " + msg
	if stats.Known("C08", "count-not-restored-after-crash") {
		stats.For("C08").KnownFinding(what)
		return
	}
	t.Fatalf("%s", what)
}
