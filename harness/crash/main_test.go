package crash

import (
	"os"
	"testing"

	"verif/harness/stats"
	"verif/harness/txh"
)

func TestMain(m *testing.M) {
	code := m.Run()
	stats.Flush()
	os.Exit(code)
}

// TestWorker is the entry point of child processes (txh.RunJob); a no-op otherwise.
func TestWorker(t *testing.T) { txh.WorkerMain() }
