package crash

import (
	"fmt"
	"github.com/sharedcode/sop"
	"os"
	"strings"
	"testing"

	"pgregory.net/rapid"

	"verif/harness/stats"
	"verif/harness/txh"
)

// TestC09_LeftoversRecovered: same crash images as C08 (sampled crash points), later transactions run
// in a new process with the clock advanced to +6 min, +71 min and +2 h.
func TestC09_LeftoversRecovered(t *testing.T) {
	rec := stats.For("C09").Meta("fault_enumeration",
		"crash images of generated shapes (victim child process exits before/after a drawn backend call of its Commit; 6 crash points per shape spread over the commit), then a new process with sop.Now advanced by +6 min, +71 min or +2 h runs a reader, 5 later write transactions (each Begin is a chance for SOP's maintenance) and finally makes the crashed transaction's changes again; oracle: no transaction log or priority log file of the dead transaction remains under translogs/, the retry commits within its 8 s budget (nothing the victim staged blocks a writer), and no blob staged by the victim is left unreferenced; non-trivial = the victim died holding a transaction log, priority log or an inactive-id reservation; distinct by (history, k, position, clock)",
		"standalone mode only (in-memory L2); the clustered (Redis restart) variant is not built")
	knownNoMaint := stats.Known("C09", "maintenance-never-runs")
	rapid.Check(t, func(t *rapid.T) {
		h := genCrashHistory(t)
		dr, err := dryRun(h)
		if err != nil {
			t.Fatalf("%v", err)
		}
		n := dr.CommitCall
		offset := rapid.SampledFrom([]int64{360, 71 * 60, 7200}).Draw(t, "clock")
		for i := 0; i < 6; i++ {
			k := rapid.IntRange(0, n-1).Draw(t, fmt.Sprintf("k%d", i))
			after := rapid.Bool().Draw(t, fmt.Sprintf("after%d", i))
			if knownRoot && inNewRootWindow(dr, len(h.Stores), k, after) {
				rec.Exclude("crash between the registration of a brand-new root and the commit point (known C08 finding)")
				continue
			}
			msg, out, err := crashCase(h, k, after, offset, 5)
			if err != nil {
				t.Fatalf("%v", err)
			}
			if out == nil {
				continue
			}
			// C08's all-or-nothing judgement is not this property's subject, except that a retry that does not commit is
			if out.staleRetry {
				rec.Exclude("the retry went through refetch-and-merge and failed with the recorded C04 finding's signature (stale tracked item pointer)")
				continue
			}
			if out.retryErr != "" {
				t.Fatalf("crash %s, clock +%ds: the crashed transaction's leftovers still block a writer: %s\n%s", out.site, offset, out.retryErr, h.Render())
			}
			if msg != "" && !strings.Contains(msg, "neither all-before nor all-after") && !strings.Contains(msg, "Count()") && !strings.Contains(msg, "no registry entry") {
				t.Fatalf("%s\n%s", msg, h.Render())
			}
			held := k > 0
			if len(out.logsLeft) > 0 {
				if !knownNoMaint {
					t.Fatalf("crash %s, clock +%ds, after a reader, 5 later write transactions and a retry: log files of the dead transaction remain: %v\n%s", out.site, offset, out.logsLeft, h.Render())
				}
				rec.Exclude("log files of the dead transaction remain (known finding: maintenance never runs)")
			}
			rec.Case(fmt.Sprintf("%s k=%d after=%v clock=%d", h.Render(), k, after, offset), held, fmt.Sprintf("clock+%ds", offset))
		}
		rec.Sample("shape", map[string]any{"history": h.Render(), "clock": offset})
	})
}

// TestC09_Known_MaintenanceNeverRuns: minimal reproduction of the recorded finding.
func TestC09_Known_MaintenanceNeverRuns(t *testing.T) {
	h := firstCommitShape()
	h.Txns = append([]txh.TxnProg{h.Txns[0]}, txh.TxnProg{Mode: 1, End: "commit", Ops: []txh.Op{{Kind: "add", K: 9, Tag: "z"}}})
	dr, err := dryRun(h)
	if err != nil {
		t.Fatalf("%v", err)
	}
	_, out, err := crashCase(h, dr.CommitCall/2, false, 7200, 5)
	if err != nil || out == nil {
		t.Fatalf("HARNESS-ERROR %v", err)
	}
	if len(out.logsLeft) == 0 {
		return
	}
	what := fmt.Sprintf("a writer dies in the middle of its commit; a new process with the clock 2 h later runs a reader, 5 write transactions and a retry of the same changes: the dead transaction's log %v is still there. Transaction.Begin calls onIdle, whose first statement returns when no B-tree is open in the transaction - always the case at Begin - so priority-log rollback and expired-log processing never run through the public API", out.logsLeft)
	if stats.Known("C09", "maintenance-never-runs") {
		stats.For("C09").KnownFinding(what)
		return
	}
	t.Fatalf("%s", what)
}

// crashWindow reports whether crash point (k, after) of the victim's commit lies after call `from` returned
// and before the first call named by prefix `to` following it starts (positions in the crash run's numbering,
// i.e. without the pass-through PLog.Remove).
// The priority log's Remove runs on a side goroutine in phase 2: whether it takes a call number before or after the
// calls around it differs from run to run, so the window is looked up with and without it.
func crashWindow(sites []string, k int, after bool, from, to string, includeStart bool) bool {
	var cs []string
	for _, s := range sites {
		if !strings.HasPrefix(s, "PLog.Remove") {
			cs = append(cs, s)
		}
	}
	return crashWindowIn(cs, k, after, from, to, includeStart) || crashWindowIn(sites, k, after, from, to, includeStart)
}

func crashWindowIn(cs []string, k int, after bool, from, to string, includeStart bool) bool {
	for f, s := range cs {
		if !strings.HasPrefix(s, from) {
			continue
		}
		g := len(cs)
		for j := f + 1; j < len(cs); j++ {
			if strings.HasPrefix(cs[j], to) {
				g = j
				break
			}
		}
		if (includeStart && k == f && after) || (k > f && k < g) || (k == g && !after) {
			return true
		}
	}
	return false
}

// TestC09_WithMaintenance looks behind the recorded finding (maintenance never runs): the restart process
// runs the maintenance pass through the verif hook, once before the first reader and in each of the later
// write transactions, with the clock 2 h ahead. Same crash images as above.
func TestC09_WithMaintenance(t *testing.T) { withMaintenance(t, "C09") }

// TestC08_WithMaintenance: the same cases judged for C08 only (all-before or all-after for every reader, stores
// readable and writable); leftover log files and unreferenced blobs are C09's and C11's subject.
func TestC08_WithMaintenance(t *testing.T) { withMaintenance(t, "C08") }

func withMaintenance(t *testing.T, prop string) {
	rec := stats.For(prop)
	knownFlip := stats.Known("C09", "aged-log-rollback-after-flip-deletes-active-nodes")
	knownUnlogged := stats.Known("C09", "commit-step-in-progress-at-crash-is-not-rolled-back")
	rapid.Check(t, func(t *rapid.T) {
		var h txh.History
		switch rapid.IntRange(0, 3).Draw(t, "nodeRemovingVictim") {
		case 0:
			h = genNodeRemovingHistory(t)
		case 1:
			h = genRivalHistory(t)
		default:
			h = genCrashHistory(t)
		}
		dr, err := dryRun(h)
		if err != nil {
			t.Fatalf("%v", err)
		}
		n := dr.CommitCall
		f := siteIndex(dr.Sites, "Registry.UpdateNoLocksFlip")
		// rival histories: the victim's commit runs into the rival's changes step by step; each step starts with a log
		// entry and (mostly) a registry read - dying right there leaves a log whose last step did nothing yet
		var stepStarts []int
		if h.Rival != nil {
			for i := 1; i < n; i++ {
				if strings.HasPrefix(dr.Sites[i-1], "TLog.Add") && !strings.HasPrefix(dr.Sites[i], "TLog.") {
					stepStarts = append(stepStarts, i)
				}
			}
		}
		for i := 0; i < 6+len(stepStarts); i++ {
			lo := 0
			if i >= 3 && f >= 0 && f < n-1 {
				lo = f // half of the crash points lie in phase 2 and the cleanup after it
			}
			var k int
			var after bool
			if i >= 6 {
				k, after = stepStarts[i-6], false
			} else {
				k = rapid.IntRange(lo, n-1).Draw(t, fmt.Sprintf("k%d", i))
				after = rapid.Bool().Draw(t, fmt.Sprintf("after%d", i))
			}
			if knownFlip && crashWindow(dr.Sites, k, after, "Registry.UpdateNoLocksFlip", "TLog.Add", false) {
				rec.Exclude("crash between the phase-2 registry flip and the next transaction log entry, recovery through the maintenance hook (known finding)")
				continue
			}
			msg, out, err := crashCaseM(h, k, after, 7200, 5, true)
			if err != nil {
				t.Fatalf("%v", err)
			}
			if out == nil {
				continue
			}
			if out.staleRetry {
				continue
			}
			// the number of cache calls differs slightly from run to run, so the call the victim actually died at is
			// looked up by its name in the dry run's list
			ka := actualIndex(dr.Sites, out.site, k)
			if knownFlip && crashWindow(dr.Sites, ka, after, "Registry.UpdateNoLocksFlip", "TLog.Add", false) {
				rec.Exclude("crash between the phase-2 registry flip and the next transaction log entry, recovery through the maintenance hook (known finding)")
				continue
			}
			if out.newRootShape && knownRoot {
				rec.Exclude("the victim's commit creates the root of an empty store, recovery through the maintenance hook (known C08 finding: new root live before the commit point)")
				continue
			}
			if prop == "C08" {
				if msg != "" {
					t.Fatalf("with the maintenance pass run through the hook: %s\n  victim commit calls: %v\n%s", msg, dr.Sites, h.Render())
				}
				lb := []string{"withMaintenancePass"}
				if h.Rival != nil {
					lb = append(lb, "rivalCommittedBeforeTheVictimsCommit")
				}
				rec.Case(fmt.Sprintf("maint %s k=%d after=%v", h.Render(), k, after), k > 0, lb...)
				continue
			}
			if msg == "" && len(out.logsLeft) > 0 {
				msg = fmt.Sprintf("crash %s: log files of the dead transaction remain after the maintenance passes: %v", out.site, out.logsLeft)
			}
			if msg == "" && len(out.orphans) > 0 {
				if knownUnlogged && (crashWindow(dr.Sites, ka, after, "BlobStore.Add", "TLog.Add", true) || crashWindow(dr.Sites, ka, after, "Registry.Add", "TLog.Add", true)) {
					rec.Exclude("crash inside a commit step, after it wrote a blob or registry entry and before the next step was logged: the step in progress is not rolled back (known finding)")
					continue
				}
				msg = fmt.Sprintf("crash %s: left behind after the maintenance passes: %v", out.site, out.orphans)
			}
			if os.Getenv("VERIF_COLLECT") != "" {
				if len(msg) > 500 {
					msg = msg[:500]
				}
				fmt.Printf("COLLECT k=%d/%d %s warm=%v :: %s @@ %s\n", k, n, out.site, out.warmupErr, msg, h.Render())
				continue
			}
			if msg != "" {
				t.Fatalf("with the maintenance pass run through the hook: %s\n  victim commit calls: %v\n%s", msg, dr.Sites, h.Render())
			}
			rec.Case(fmt.Sprintf("maint %s k=%d after=%v", h.Render(), k, after), k > 0, "withMaintenancePass")
		}
	})
}

// actualIndex: position in the dry run's call list of the call named in a crash site ("t3:56:TLog.Add#17[/after]").
func actualIndex(sites []string, site string, k int) int {
	name := site
	if i := strings.LastIndexByte(name, ':'); i >= 0 {
		name = name[i+1:]
	}
	name = strings.TrimSuffix(name, "/after")
	for i, s := range sites {
		if s == name {
			return i
		}
	}
	return k
}

// inNewRootWindow: the victim creates the root of an empty store and dies between the registration of that root and
// the commit point (the recorded C08 finding: the new root is live before the commit point).
func inNewRootWindow(dr *txh.JobResult, nStores int, k int, after bool) bool {
	emptyBefore := false
	for i := 0; i < nStores; i++ {
		if len(dr.Pre[i].Items) == 0 && len(dr.Post[i].Items) > 0 {
			emptyBefore = true
		}
	}
	if !emptyBefore {
		return false
	}
	r0, end := -1, -1
	for i, s := range dr.Sites {
		if strings.HasPrefix(s, "Registry.Add#") && r0 < 0 {
			r0 = i
		}
		if strings.HasPrefix(s, "Registry.UpdateNoLocksFlip") {
			end = i
		}
	}
	if end < 0 {
		for i, s := range dr.Sites {
			if strings.HasPrefix(s, "StoreRepository.Update") {
				end = i + 1
			}
		}
	}
	return r0 >= 0 && ((k == r0 && after) || (k > r0 && k < end) || (k == end && !after))
}

func siteIndex(sites []string, prefix string) int {
	j := 0
	for _, s := range sites {
		if strings.HasPrefix(s, "PLog.Remove") {
			continue
		}
		if strings.HasPrefix(s, prefix) {
			return j
		}
		j++
	}
	return -1
}

// TestC09_Known_AgedLogRollbackAfterFlip: the writer dies after the phase-2 registry flip and the removal of its
// priority log, before the next transaction log entry; two hours later the maintenance pass (run through the
// verif hook) rolls the aged transaction log back and deletes the node blobs the flip had just made active.
func TestC09_Known_AgedLogRollbackAfterFlip(t *testing.T) {
	h := txh.History{HashMod: 1, UUIDSeed: 7, Stores: []txh.StoreOpts{{Name: "st0", Slot: 4, Unique: true, Placement: 0}},
		Txns: []txh.TxnProg{
			{Mode: 1, End: "commit", Ops: []txh.Op{{Kind: "add", K: 1, Tag: "a"}, {Kind: "add", K: 2, Tag: "b"}, {Kind: "add", K: 3, Tag: "c"}}},
			{Mode: 1, End: "commit", Ops: []txh.Op{{Kind: "update", K: 2, Tag: "B"}, {Kind: "add", K: 5, Tag: "e"}}},
		}}
	dr, err := dryRun(h)
	if err != nil {
		t.Fatalf("%v", err)
	}
	f := siteIndex(dr.Sites, "Registry.UpdateNoLocksFlip")
	if f < 0 {
		t.Skip("no phase-2 flip call in the commit")
	}
	msg, out, err := crashCaseM(h, f+1, false, 7200, 5, true)
	if err != nil || out == nil {
		t.Fatalf("HARNESS-ERROR %v", err)
	}
	if msg == "" {
		return
	}
	what := "behind 'maintenance never runs' (maintenance pass run through the verif hook): a writer that dies after the phase-2 registry flip and the removal of its priority log but before its next transaction log entry is taken for uncommitted by the aged-log rollback two hours later, which deletes the node blobs the flip had just made active - the store is unreadable: " + msg
	if stats.Known("C09", "aged-log-rollback-after-flip-deletes-active-nodes") {
		stats.For("C09").KnownFinding(what)
		return
	}
	t.Fatalf("%s", what)
}

// TestC09_Known_StepInProgressNotRolledBack: the writer dies inside commitAddedNodes, after the registry entries of
// its new nodes were added; the aged-log rollback (maintenance pass through the verif hook) only undoes steps that
// were followed by another log entry, so those registry entries stay for ever.
func TestC09_Known_StepInProgressNotRolledBack(t *testing.T) {
	h := txh.History{HashMod: 2, UUIDSeed: 0x370, Stores: []txh.StoreOpts{{Name: "st0", Slot: 2, Unique: false, Placement: 3}},
		Txns: []txh.TxnProg{
			{Mode: 1, End: "commit", Ops: []txh.Op{{Kind: "add", K: 3, Tag: "a", Size: 10}, {Kind: "add", K: 0, Tag: "b", Size: 10}}},
			{Mode: 1, End: "commit", Ops: []txh.Op{{Kind: "add", K: 6, Tag: "c", Size: 10}, {Kind: "add", K: 1, Tag: "d", Size: 1}}},
		}}
	dr, err := dryRun(h)
	if err != nil {
		t.Fatalf("%v", err)
	}
	f := siteIndex(dr.Sites, "Registry.Add")
	if f < 0 {
		t.Skip("the commit adds no node")
	}
	msg, out, err := crashCaseM(h, f, true, 7200, 5, true)
	if err != nil || out == nil {
		t.Fatalf("HARNESS-ERROR %v", err)
	}
	if msg == "" && len(out.orphans) == 0 {
		return
	}
	what := fmt.Sprintf("behind 'maintenance never runs' (maintenance pass run through the verif hook): the aged-log rollback undoes a commit step only when a later step was logged after it (lastCommittedFunctionLog > step), so what the step in progress at the crash had already written stays: a writer that dies right after commitAddedNodes added its nodes' registry entries leaves %v %s", out.orphans, msg)
	if stats.Known("C09", "commit-step-in-progress-at-crash-is-not-rolled-back") {
		stats.For("C09").KnownFinding(what)
		return
	}
	t.Fatalf("%s", what)
}

// genNodeRemovingHistory: a store with slot length 2 holding 5-9 keys; the victim removes a run of adjacent keys (nodes
// get emptied and unlinked, so its commit and cleanup remove registry entries and blobs) and may add or update others.
func genNodeRemovingHistory(t *rapid.T) txh.History {
	h := txh.History{HashMod: rapid.SampledFrom([]int{1, 3}).Draw(t, "hashMod"), UUIDSeed: rapid.Uint64().Draw(t, "uuidSeed"),
		Stores: []txh.StoreOpts{{Name: "st0", Slot: 2, Unique: true, Placement: rapid.SampledFrom([]int{0, 0, 1, 3}).Draw(t, "placement")}}}
	nk := rapid.IntRange(5, 9).Draw(t, "keys")
	var seed []txh.Op
	for k := 0; k < nk; k++ {
		seed = append(seed, txh.Op{Kind: "add", K: k, Tag: fmt.Sprintf("s%d", k), Size: 1})
	}
	h.Txns = append(h.Txns, txh.TxnProg{Mode: sop.ForWriting, End: "commit", Ops: seed})
	var ops []txh.Op
	from := rapid.IntRange(0, nk-2).Draw(t, "from")
	to := rapid.IntRange(from+1, nk-1).Draw(t, "to")
	for k := from; k <= to; k++ {
		ops = append(ops, txh.Op{Kind: "remove", K: k})
	}
	if rapid.Bool().Draw(t, "alsoAdd") {
		ops = append(ops, txh.Op{Kind: "add", K: nk + 1, Tag: "v.add", Size: 10})
	}
	if from > 0 && rapid.Bool().Draw(t, "alsoUpdate") {
		ops = append(ops, txh.Op{Kind: "update", K: 0, Tag: "v.upd", Size: 10})
	}
	h.Txns = append(h.Txns, txh.TxnProg{Mode: sop.ForWriting, End: "commit", Ops: ops})
	return h
}
