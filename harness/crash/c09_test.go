package crash

import (
	"fmt"
	"strings"
	"testing"

	"pgregory.net/rapid"

	"verif/harness/stats"
	"verif/harness/txh"
)

// TestC09_LeftoversRecovered: same crash images as C08 (sampled crash points), later transactions run
// in a new process with the clock advanced to +6 min, +71 min and +2 h.
func TestC09_LeftoversRecovered(t *testing.T) {
	rec := stats.For("C09").Meta("fault_enumeration",
		"crash images of generated shapes (victim child process exits before/after a drawn backend call of its Commit; 6 crash points per shape spread over the commit), then a new process with sop.Now advanced by +6 min, +71 min or +2 h runs a reader, 5 later write transactions (each Begin is a chance for SOP's maintenance) and finally makes the crashed transaction's changes again; oracle: no transaction log or priority log file of the dead transaction remains under translogs/, the retry commits within its 8 s budget (nothing the victim staged blocks a writer), and no blob staged by the victim is left unreferenced; non-trivial = the victim died holding a transaction log, priority log or an inactive-id reservation; distinct by (history, k, position, clock)",
		"standalone mode only (in-memory L2); the clustered (Redis restart) variant is not built")
	knownNoMaint := stats.Known("C09", "maintenance-never-runs")
	rapid.Check(t, func(t *rapid.T) {
		h := genCrashHistory(t)
		dr, err := dryRun(h)
		if err != nil {
			t.Fatalf("%v", err)
		}
		n := dr.CommitCall
		offset := rapid.SampledFrom([]int64{360, 71 * 60, 7200}).Draw(t, "clock")
		for i := 0; i < 6; i++ {
			k := rapid.IntRange(0, n-1).Draw(t, fmt.Sprintf("k%d", i))
			after := rapid.Bool().Draw(t, fmt.Sprintf("after%d", i))
			msg, out, err := crashCase(h, k, after, offset, 5)
			if err != nil {
				t.Fatalf("%v", err)
			}
			if out == nil {
				continue
			}
			// C08's all-or-nothing judgement is not this property's subject, except that a retry that does not commit is
			if out.staleRetry {
				rec.Exclude("the retry went through refetch-and-merge and failed with the recorded C04 finding's signature (stale tracked item pointer)")
				continue
			}
			if out.retryErr != "" {
				t.Fatalf("crash %s, clock +%ds: the crashed transaction's leftovers still block a writer: %s\n%s", out.site, offset, out.retryErr, h.Render())
			}
			if msg != "" && !strings.Contains(msg, "neither all-before nor all-after") && !strings.Contains(msg, "Count()") && !strings.Contains(msg, "no registry entry") {
				t.Fatalf("%s\n%s", msg, h.Render())
			}
			held := k > 0
			if len(out.logsLeft) > 0 {
				if !knownNoMaint {
					t.Fatalf("crash %s, clock +%ds, after a reader, 5 later write transactions and a retry: log files of the dead transaction remain: %v\n%s", out.site, offset, out.logsLeft, h.Render())
				}
				rec.Exclude("log files of the dead transaction remain (known finding: maintenance never runs)")
			}
			rec.Case(fmt.Sprintf("%s k=%d after=%v clock=%d", h.Render(), k, after, offset), held, fmt.Sprintf("clock+%ds", offset))
		}
		rec.Sample("shape", map[string]any{"history": h.Render(), "clock": offset})
	})
}

// TestC09_Known_MaintenanceNeverRuns: minimal reproduction of the recorded finding.
func TestC09_Known_MaintenanceNeverRuns(t *testing.T) {
	h := firstCommitShape()
	h.Txns = append([]txh.TxnProg{h.Txns[0]}, txh.TxnProg{Mode: 1, End: "commit", Ops: []txh.Op{{Kind: "add", K: 9, Tag: "z"}}})
	dr, err := dryRun(h)
	if err != nil {
		t.Fatalf("%v", err)
	}
	_, out, err := crashCase(h, dr.CommitCall/2, false, 7200, 5)
	if err != nil || out == nil {
		t.Fatalf("HARNESS-ERROR %v", err)
	}
	if len(out.logsLeft) == 0 {
		return
	}
	what := fmt.Sprintf("a writer dies in the middle of its commit; a new process with the clock 2 h later runs a reader, 5 write transactions and a retry of the same changes: the dead transaction's log %v is still there. Transaction.Begin calls onIdle, whose first statement returns when no B-tree is open in the transaction - always the case at Begin - so priority-log rollback and expired-log processing never run through the public API", out.logsLeft)
	if stats.Known("C09", "maintenance-never-runs") {
		stats.For("C09").KnownFinding(what)
		return
	}
	t.Fatalf("%s", what)
}
