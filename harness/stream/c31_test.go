package stream

import (
	"bytes"
	"context"
	"encoding/json"
	"fmt"
	"io"
	"os"
	"strings"
	"sync/atomic"
	"testing"

	"github.com/sharedcode/sop"
	_ "github.com/sharedcode/sop/cache" // registers the in-memory L2 cache factory
	"github.com/sharedcode/sop/fs"
	"github.com/sharedcode/sop/infs"
	sd "github.com/sharedcode/sop/streamingdata"
	"pgregory.net/rapid"

	"verif/harness/stats"
)

// C31 - streamed values read back exactly as written.
//
// Each case creates a streaming data store on its own temp directory (real file system,
// in-memory L2 cache, no Redis), runs a generated program of Add / AddIfNotExist / Update /
// Upsert / Remove / read steps spread over 1-4 committed transactions, and after every commit
// compares the store with a plain map model, twice and independently:
//   (a) through the public API (FindOne + GetCurrentValue/GetCurrentItem + json.Decoder):
//       every entry decodes to exactly the written sequence and then io.EOF, absent keys are
//       not found;
//   (b) by opening the underlying (Key, ChunkIndex) B-tree and scanning it: only keys of the
//       model own chunks, every key's chunk indices are 0..m-1 without gaps, and the
//       concatenated chunk bytes are a JSON stream of exactly the written values (so a
//       leftover chunk after Update, a surviving chunk after Remove, or damage to another
//       entry all show up).
// The encoders/decoders are used the way the package's doc comments and its own tests do:
// one encoder at a time, all values encoded back to back, Close() after Update/Upsert.

const (
	propID     = "C31"
	slugReader = "reader-chunk-index-not-advanced"
	// A writing transaction on an actively persisted store (sop.BigData, what the package's
	// tests use for streaming stores) that removes items but neither adds/updates an item nor
	// fetches a value is committed as "nothing to do": the removals are dropped silently.
	slugRemoveOnly = "remove-only-transaction-not-committed"
	// On an actively persisted store, a value that was fetched earlier in the same transaction is
	// returned EMPTY (no error) when it is fetched again after an insert/remove shifted the
	// node's slots: the item tracker keeps pointers into the slot array.
	slugRefetch = "refetch-after-slot-shift-returns-empty"
	// Largest chunk that the JSON decoder always takes in one Read call (it guarantees at
	// least 512 free bytes before every Read). Only used to carve out the listed finding.
	alwaysWholeChunk = 512
)

var caseSeq atomic.Int64

type opKind int

const (
	opAdd opKind = iota
	opUpdate
	opUpsert
	opRemove
	opRead
)

func (k opKind) String() string { return [...]string{"add", "update", "upsert", "remove", "read"}[k] }

type op struct {
	Kind       opKind
	Key        string
	Vals       []value
	IfNotExist bool // opAdd: go through AddIfNotExist
	CloseAdd   bool // call Close on an add-mode encoder too (documented no-op)
	ViaItem    bool // opRead: GetCurrentItem instead of GetCurrentValue
	// opUpdate through the cursor: FindOne, read Decode values of the entry through its decoder (-1 = none, no read),
	// then UpdateCurrentValue - the read-modify-write of the current item
	Cursor bool
	Decode int
}

type txn struct {
	Reopen bool // open with OpenStreamingDataStore instead of NewStreamingDataStore(same options)
	Ops    []op
}

type program struct {
	Slot   int
	Medium bool // sop.MediumData instead of sop.BigData (both keep values out of the node)
	Keys   []string
	Txns   []txn
}

func (p program) canon() string {
	var b strings.Builder
	fmt.Fprintf(&b, "slot=%d medium=%v keys=%v", p.Slot, p.Medium, p.Keys)
	for _, tx := range p.Txns {
		fmt.Fprintf(&b, " | reopen=%v", tx.Reopen)
		for _, o := range tx.Ops {
			fmt.Fprintf(&b, " %s(%q", o.Kind, o.Key)
			if o.IfNotExist {
				b.WriteString(",ifNotExist")
			}
			if o.CloseAdd {
				b.WriteString(",close")
			}
			if o.ViaItem {
				b.WriteString(",item")
			}
			if o.Cursor {
				fmt.Fprintf(&b, ",cursor,decoded=%d", o.Decode)
			}
			for _, v := range o.Vals {
				b.WriteString(" " + v.canon())
			}
			b.WriteString(")")
		}
	}
	return b.String()
}

var keyUniverse = []string{"a", "ab", "b", "b.", "k1", "k10", "k2", "zz"}

func genProgram(t *rapid.T, rec *stats.Rec) program {
	knownReader, knownRemoveOnly := stats.Known(propID, slugReader), stats.Known(propID, slugRemoveOnly)
	knownRefetch := stats.Known(propID, slugRefetch)
	p := program{
		Slot:   rapid.SampledFrom([]int{50, 50, 52, 64, 100}).Draw(t, "slot"),
		Medium: rapid.IntRange(0, 3).Draw(t, "dataSize") == 0,
		Keys:   rapid.SliceOfNDistinct(rapid.SampledFrom(keyUniverse), 1, 4, rapid.ID[string]).Draw(t, "keys"),
	}
	budget := stats.Pick(3<<19, 12<<20) // bytes of encoded values per case
	entries := map[string][]value{}     // mirror of the model the run will keep
	present := func(k string) bool { _, ok := entries[k]; return ok }
	nTx := rapid.SampledFrom([]int{1, 2, 2, 3, 3, 4}).Draw(t, "nTxns")
	for ti := 0; ti < nTx; ti++ {
		tx := txn{Reopen: ti > 0 && rapid.Bool().Draw(t, "reopen")}
		nOps := rapid.IntRange(1, 4).Draw(t, "nOps")
		removes, tracked := false, false // tracked: an item is added/updated or a value is fetched
		rt := newReadTrack()
		// sometimes read one entry before and after the other steps of the transaction
		sandwich := ""
		if ti > 0 && len(entries) > 0 && rapid.IntRange(0, 3).Draw(t, "sandwich") == 0 {
			var cand []string
			for _, k := range p.Keys {
				if present(k) {
					cand = append(cand, k)
				}
			}
			sandwich = cand[rapid.IntRange(0, len(cand)-1).Draw(t, "sandwichKey")]
		}
		for oi := 0; oi < nOps+2; oi++ {
			var o op
			switch {
			case oi == 0 || oi == nOps+1:
				if sandwich == "" {
					continue
				}
				o = op{Kind: opRead, Key: sandwich}
			case ti == 0 && oi == 1:
				o = op{Key: rapid.SampledFrom(p.Keys).Draw(t, "key"),
					Kind: rapid.SampledFrom([]opKind{opAdd, opAdd, opUpsert}).Draw(t, "firstOp")}
			default:
				o = op{Key: rapid.SampledFrom(p.Keys).Draw(t, "key"),
					Kind: rapid.SampledFrom([]opKind{opAdd, opAdd, opAdd, opUpdate, opUpdate, opUpdate, opUpdate,
						opUpsert, opUpsert, opRemove, opRemove, opRead, opRead, opRead}).Draw(t, "op")}
				// steer a little towards steps that do something: most updates/removes/reads
				// hit an existing key, most adds a missing one
				if rapid.IntRange(0, 3).Draw(t, "steer") != 0 {
					want := o.Kind != opAdd
					var cand []string
					for _, k := range p.Keys {
						if present(k) == want {
							cand = append(cand, k)
						}
					}
					if len(cand) > 0 {
						o.Key = cand[rapid.IntRange(0, len(cand)-1).Draw(t, "steerTo")]
					}
				}
			}
			switch o.Kind {
			case opAdd:
				o.IfNotExist = present(o.Key) || rapid.Bool().Draw(t, "ifNotExist")
				o.CloseAdd = rapid.Bool().Draw(t, "closeAdd")
				o.Vals = genEntry(t, &budget)
				if !present(o.Key) {
					entries[o.Key] = o.Vals
					tracked = true
					rt.changes++
				}
			case opUpdate:
				if present(o.Key) && rapid.IntRange(0, 2).Draw(t, "viaCursor") == 0 {
					o.Cursor = true
					o.Decode = rapid.IntRange(-1, len(entries[o.Key])).Draw(t, "decodeFirst")
				}
				o.Vals = genEntry(t, &budget)
				if present(o.Key) {
					entries[o.Key] = o.Vals
					tracked = true
					rt.changes++
				}
			case opUpsert:
				o.Vals = genEntry(t, &budget)
				entries[o.Key] = o.Vals
				tracked = true
				rt.changes++
			case opRemove:
				if present(o.Key) {
					removes = true
					rt.changes++
				}
				delete(entries, o.Key)
			case opRead:
				o.ViaItem = rapid.Bool().Draw(t, "viaItem")
				if present(o.Key) && skipRead(knownReader, knownRefetch, p.Medium, entries[o.Key], rt.reread(o.Key)) == "" {
					tracked = true
					rt.readAt[o.Key] = rt.changes
				}
			}
			tx.Ops = append(tx.Ops, o)
		}
		if knownRemoveOnly && !p.Medium && removes && !tracked {
			// listed finding: leave exactly that class by giving the transaction one write
			rec.Exclude("remove-only transaction on an actively persisted store: an upsert was appended (listed: " + slugRemoveOnly + ")")
			o := op{Kind: opUpsert, Key: rapid.SampledFrom(p.Keys).Draw(t, "extraKey"), Vals: genEntry(t, &budget)}
			entries[o.Key] = o.Vals // (no read follows it, so rt needs no update)
			tx.Ops = append(tx.Ops, o)
		}
		p.Txns = append(p.Txns, tx)
	}
	return p
}

// ---- environment

type env struct {
	ctx  context.Context
	dir  string
	name string
	so   sop.StoreOptions
	rec  *stats.Rec
	// listed findings whose classes are carved out by construction
	knownReader, knownRefetch bool
	medium                    bool
}

func newEnv(p program, rec *stats.Rec) (*env, error) {
	dir, err := os.MkdirTemp("", "c31-")
	if err != nil {
		return nil, fmt.Errorf("HARNESS-ERROR cannot create a temp dir: %v", err)
	}
	// a store name never used before in this process: SOP's caches are process-global
	name := fmt.Sprintf("stream%d_%d", os.Getpid(), caseSeq.Add(1))
	size := sop.BigData
	if p.Medium {
		size = sop.MediumData
	}
	return &env{ctx: context.Background(), dir: dir, name: name, rec: rec,
		so:          sop.ConfigureStore(name, true, p.Slot, "", size, ""),
		medium:      p.Medium,
		knownReader: stats.Known(propID, slugReader), knownRefetch: stats.Known(propID, slugRefetch)}, nil
}

func (e *env) close() { os.RemoveAll(e.dir) }

func (e *env) begin(mode sop.TransactionMode) (sop.Transaction, error) {
	to := sop.TransactionOptions{Mode: mode, MaxTime: -1, RegistryHashModValue: fs.MinimumModValue,
		StoresFolders: []string{e.dir}, CacheType: sop.InMemory}
	tr, err := infs.NewTransaction(e.ctx, to)
	if err != nil {
		return nil, fmt.Errorf("NewTransaction: %v", err)
	}
	if err := tr.Begin(e.ctx); err != nil {
		return nil, fmt.Errorf("Begin: %v", err)
	}
	return tr, nil
}

func (e *env) open(tr sop.Transaction, reopen bool) (*sd.StreamingDataStore[string], error) {
	if reopen {
		return infs.OpenStreamingDataStore[string](e.ctx, e.name, tr, nil)
	}
	return infs.NewStreamingDataStore[string](e.ctx, e.so, tr, nil)
}

// readTrack follows, inside one writing transaction, which entries were read through the
// decoder and whether the store changed since (used by the generator's mirror and by the run).
type readTrack struct {
	readAt  map[string]int
	changes int
}

func newReadTrack() *readTrack { return &readTrack{readAt: map[string]int{}} }

// reread: the entry was read earlier in this transaction and something was added, updated or
// removed since.
func (r *readTrack) reread(k string) bool {
	at, ok := r.readAt[k]
	return ok && r.changes > at
}

// Which decoder reads are carved out because a finding is listed. Returns the reason or "".
func skipRead(knownReader, knownRefetch, medium bool, vals []value, reread bool) string {
	if knownReader && hasBigChunk(vals) {
		return "decoder read-back of an entry with a chunk > 512 B (listed: " + slugReader + ")"
	}
	if knownRefetch && !medium && reread {
		return "second decoder read of an entry in one transaction on an actively persisted store after a change in between (listed: " + slugRefetch + ")"
	}
	return ""
}

func hasBigChunk(vals []value) bool {
	for _, v := range vals {
		if v.enc > alwaysWholeChunk {
			return true
		}
	}
	return false
}

// readEntry checks one key through the public API against the model.
// reread: see readTrack (always false outside a writing transaction). The first result reports
// whether values were actually fetched through the decoder.
func (e *env) readEntry(s *sd.StreamingDataStore[string], key string, want []value, present, viaItem, reread bool) (bool, error) {
	found, err := s.FindOne(e.ctx, key)
	if err != nil {
		return false, fmt.Errorf("FindOne(%q): %v", key, err)
	}
	if found != present {
		return false, fmt.Errorf("FindOne(%q) = %v, the model says present=%v", key, found, present)
	}
	if !present {
		return false, nil
	}
	if why := skipRead(e.knownReader, e.knownRefetch, e.medium, want, reread); why != "" {
		e.rec.Exclude(why)
		return false, nil
	}
	var dec *json.Decoder
	if viaItem {
		it, err := s.GetCurrentItem(e.ctx)
		if err != nil {
			return false, fmt.Errorf("GetCurrentItem(%q): %v", key, err)
		}
		if it.Key != key {
			return false, fmt.Errorf("GetCurrentItem after FindOne(%q) has key %q", key, it.Key)
		}
		dec = it.Value
	} else {
		if dec, err = s.GetCurrentValue(e.ctx); err != nil {
			return false, fmt.Errorf("GetCurrentValue(%q): %v", key, err)
		}
	}
	if dec == nil {
		return false, fmt.Errorf("no decoder for %q", key)
	}
	return true, decodeAll(dec, want, fmt.Sprintf("entry %q read through the store's decoder", key))
}

// decodeAll: the stream holds exactly the wanted values, in order, then io.EOF.
func decodeAll(dec *json.Decoder, want []value, what string) error {
	for i, w := range want {
		got, err := decodeNext(dec, w.Kind)
		if err != nil {
			return fmt.Errorf("%s: value #%d of %d (%s, %d B encoded): Decode error %v", what, i, len(want), w.Kind, w.enc, err)
		}
		if !sameValue(w.v, got) {
			return fmt.Errorf("%s: value #%d of %d differs (encoded sizes of the entry %v)\n wrote %s\n read  %s",
				what, i, len(want), encSizes(want), brief(w.v), brief(got))
		}
	}
	var extra json.RawMessage
	if err := dec.Decode(&extra); err != io.EOF {
		if err == nil {
			return fmt.Errorf("%s: after the %d written values (encoded sizes %v) the stream delivers one more value instead of EOF: %s",
				what, len(want), encSizes(want), brief(string(extra)))
		}
		return fmt.Errorf("%s: after the %d written values: error %v, want io.EOF", what, len(want), err)
	}
	return nil
}

func encSizes(vs []value) []int {
	out := make([]int, len(vs))
	for i, v := range vs {
		out[i] = v.enc
	}
	return out
}

type model struct {
	entries map[string][]value
}

// verify compares the committed store with the model in fresh read transactions.
func (e *env) verify(p program, m *model, labels map[string]bool) error {
	// (a) public API
	tr, err := e.begin(sop.ForReading)
	if err != nil {
		return err
	}
	s, err := e.open(tr, true)
	if err != nil {
		return fmt.Errorf("OpenStreamingDataStore for verification: %v", err)
	}
	for i, k := range keyUniverse {
		vals, present := m.entries[k]
		if _, err := e.readEntry(s, k, vals, present, i%2 == 1, false); err != nil {
			return fmt.Errorf("after commit: %v", err)
		}
	}
	if err := tr.Commit(e.ctx); err != nil {
		return fmt.Errorf("commit of the reading transaction: %v", err)
	}

	// (b) the underlying B-tree of (Key, ChunkIndex) -> chunk bytes
	tr, err = e.begin(sop.ForReading)
	if err != nil {
		return err
	}
	bt, err := infs.OpenBtree[sd.StreamingDataKey[string], []byte](e.ctx, e.name, tr, nil)
	if err != nil {
		return fmt.Errorf("OpenBtree on the streaming store: %v", err)
	}
	type group struct {
		key  string
		next int
		data bytes.Buffer
	}
	var groups []*group
	seen := map[string]bool{}
	n := 0
	ok, err := bt.First(e.ctx)
	for ; ok && err == nil; ok, err = bt.Next(e.ctx) {
		k := bt.GetCurrentKey().Key
		n++
		if len(groups) == 0 || groups[len(groups)-1].key != k.Key {
			if seen[k.Key] {
				return fmt.Errorf("scan: chunks of key %q are not adjacent", k.Key)
			}
			seen[k.Key] = true
			groups = append(groups, &group{key: k.Key})
		}
		g := groups[len(groups)-1]
		if _, inModel := m.entries[k.Key]; !inModel {
			return fmt.Errorf("scan: chunk (%q,%d) exists but the model has no entry %q (removed or never added); model keys %v",
				k.Key, k.ChunkIndex, k.Key, modelKeys(m))
		}
		if k.ChunkIndex != g.next {
			return fmt.Errorf("scan: key %q: chunk index %d follows %d chunk(s); indices must run 0,1,2,... (entry has %d values)",
				k.Key, k.ChunkIndex, g.next, len(m.entries[k.Key]))
		}
		g.next++
		v, err := bt.GetCurrentValue(e.ctx)
		if err != nil {
			return fmt.Errorf("scan: value of chunk (%q,%d): %v", k.Key, k.ChunkIndex, err)
		}
		g.data.Write(v)
	}
	if err != nil {
		return fmt.Errorf("scan: %v", err)
	}
	for _, g := range groups {
		want := m.entries[g.key]
		if err := decodeAll(json.NewDecoder(bytes.NewReader(g.data.Bytes())), want,
			fmt.Sprintf("entry %q, its %d chunk(s) concatenated (scan of the underlying B-tree)", g.key, g.next)); err != nil {
			return err
		}
		if g.next == len(want) {
			labels["chunkPerValue"] = true
		} else {
			labels["chunksDifferFromValues"] = true
		}
	}
	for k := range m.entries {
		if !seen[k] {
			return fmt.Errorf("scan: the model has entry %q (%d values) but the B-tree holds no chunk of it", k, len(m.entries[k]))
		}
	}
	if int(bt.Count()) != n {
		labels["countDiffersFromScan"] = true // not part of the property; recorded only
	}
	if n > p.Slot {
		labels["multiNode"] = true
	}
	if n == 0 {
		labels["emptyStoreVerified"] = true
	}
	if err := tr.Commit(e.ctx); err != nil {
		return fmt.Errorf("commit of the scanning transaction: %v", err)
	}
	return nil
}

func modelKeys(m *model) []string {
	var ks []string
	for _, k := range keyUniverse {
		if _, ok := m.entries[k]; ok {
			ks = append(ks, k)
		}
	}
	return ks
}

func encodeAll(enc *sd.Encoder[string], vals []value) error {
	for i, v := range vals {
		if err := enc.Encode(v.v); err != nil {
			return fmt.Errorf("Encode of value #%d (%s, %d B): %v", i, v.Kind, v.enc, err)
		}
	}
	return nil
}

// run executes the program; returns the labels of the case and whether it is non-trivial.
func (e *env) run(p program) (map[string]bool, bool, error) {
	labels := map[string]bool{}
	nontrivial := false
	m := &model{entries: map[string][]value{}}
	noteVals := func(vals []value) {
		for i, v := range vals {
			labels["kind:"+v.Kind.String()] = true
			switch {
			case v.enc >= 1<<20:
				labels["value>=1MiB"] = true
			case v.enc >= 64<<10:
				labels["value>=64KiB"] = true
			case v.enc > 4096:
				labels["value>4096B"] = true
			case v.enc > 512:
				labels["value>512B"] = true
			}
			if v.enc > 512 {
				nontrivial = true
				if i == 0 {
					labels["firstValue>512B"] = true
				} else {
					labels["laterValue>512B"] = true
				}
			}
			if v.enc >= 510 && v.enc <= 514 {
				labels["boundary512"] = true
			}
			if v.enc >= 4094 && v.enc <= 4098 {
				labels["boundary4096"] = true
			}
			for _, b := range boundaries {
				if b != 512 && b != 4096 && v.enc >= b-2 && v.enc <= b+2 {
					labels["boundaryDecoderCap"] = true
				}
			}
		}
		if len(vals) > 6 {
			labels["longEntry"] = true
		}
	}
	noteReplace := func(old, new []value) {
		switch {
		case len(new) < len(old):
			labels["updateShorter"] = true
			nontrivial = true
		case len(new) > len(old):
			labels["updateLonger"] = true
			nontrivial = true
		default:
			labels["updateSameCount"] = true
		}
		if len(m.entries) > 1 {
			labels["updateBesideOtherEntries"] = true
		}
	}
	if p.Medium {
		labels["mediumData"] = true
	} else {
		labels["bigData"] = true
	}
	if len(p.Txns) > 1 {
		labels["multiTxn"] = true
	}

	for ti, tx := range p.Txns {
		tr, err := e.begin(sop.ForWriting)
		if err != nil {
			return nil, false, err
		}
		s, err := e.open(tr, tx.Reopen)
		if err != nil {
			return nil, false, fmt.Errorf("txn %d: opening the store (reopen=%v): %v", ti, tx.Reopen, err)
		}
		rt := newReadTrack()
		removed, tracked := false, false
		for oi, o := range tx.Ops {
			at := fmt.Sprintf("txn %d op %d %s(%q)", ti, oi, o.Kind, o.Key)
			old, present := m.entries[o.Key]
			switch o.Kind {
			case opAdd:
				var enc *sd.Encoder[string]
				if o.IfNotExist {
					enc, err = s.AddIfNotExist(e.ctx, o.Key)
				} else {
					enc, err = s.Add(e.ctx, o.Key)
				}
				if err != nil {
					return nil, false, fmt.Errorf("%s: %v", at, err)
				}
				if present {
					// AddIfNotExist on an existing key: documented to insert nothing
					labels["addIfNotExistOnExisting"] = true
					if enc != nil {
						return nil, false, fmt.Errorf("%s: AddIfNotExist returned an encoder although the key exists", at)
					}
					break
				}
				if enc == nil {
					return nil, false, fmt.Errorf("%s: no encoder although the key does not exist", at)
				}
				if err := encodeAll(enc, o.Vals); err != nil {
					return nil, false, fmt.Errorf("%s: %v", at, err)
				}
				if o.CloseAdd {
					if err := enc.Close(); err != nil {
						return nil, false, fmt.Errorf("%s: Close: %v", at, err)
					}
				}
				labels["add"] = true
				noteVals(o.Vals)
				m.entries[o.Key] = o.Vals
				rt.changes++
				tracked = true
			case opUpdate:
				var enc *sd.Encoder[string]
				var err error
				if o.Cursor && present {
					labels["updateThroughCursor"] = true
					ok, ferr := s.FindOne(e.ctx, o.Key)
					if ferr != nil || !ok {
						return nil, false, fmt.Errorf("%s: FindOne = %v, %v", at, ok, ferr)
					}
					if o.Decode >= 0 {
						dec, derr := s.GetCurrentValue(e.ctx)
						if derr != nil || dec == nil {
							return nil, false, fmt.Errorf("%s: GetCurrentValue: %v", at, derr)
						}
						for i := 0; i < o.Decode && i < len(old); i++ {
							if _, derr := decodeNext(dec, old[i].Kind); derr != nil {
								return nil, false, fmt.Errorf("%s: reading value #%d before the update: %v", at, i, derr)
							}
						}
						if o.Decode > 0 {
							labels["updateThroughCursorAfterReading"] = true
						}
					}
					enc, err = s.UpdateCurrentValue(e.ctx)
				} else {
					enc, err = s.Update(e.ctx, o.Key)
				}
				if err != nil {
					return nil, false, fmt.Errorf("%s: %v", at, err)
				}
				if !present {
					// the package's tests treat a nil encoder as "key not found"; an encoder
					// handed out anyway is simply not used (nothing is stated about it)
					labels["updateMissingKey"] = true
					if enc != nil {
						labels["encoderForMissingKey"] = true
					}
					break
				}
				if enc == nil {
					return nil, false, fmt.Errorf("%s: Update returned no encoder although the key exists", at)
				}
				if err := encodeAll(enc, o.Vals); err != nil {
					return nil, false, fmt.Errorf("%s: %v", at, err)
				}
				if err := enc.Close(); err != nil {
					return nil, false, fmt.Errorf("%s: Close: %v", at, err)
				}
				labels["update"] = true
				noteVals(o.Vals)
				noteReplace(old, o.Vals)
				m.entries[o.Key] = o.Vals
				rt.changes++
				tracked = true
			case opUpsert:
				enc, err := s.Upsert(e.ctx, o.Key)
				if err != nil {
					return nil, false, fmt.Errorf("%s: %v", at, err)
				}
				if enc == nil {
					return nil, false, fmt.Errorf("%s: Upsert returned no encoder", at)
				}
				if err := encodeAll(enc, o.Vals); err != nil {
					return nil, false, fmt.Errorf("%s: %v", at, err)
				}
				if err := enc.Close(); err != nil {
					return nil, false, fmt.Errorf("%s: Close: %v", at, err)
				}
				noteVals(o.Vals)
				if present {
					labels["upsertExisting"] = true
					noteReplace(old, o.Vals)
				} else {
					labels["upsertNew"] = true
				}
				m.entries[o.Key] = o.Vals
				rt.changes++
				tracked = true
			case opRemove:
				ok, err := s.Remove(e.ctx, o.Key)
				if err != nil {
					return nil, false, fmt.Errorf("%s: %v", at, err)
				}
				if present && !ok {
					// documented: true only if all chunks were deleted
					return nil, false, fmt.Errorf("%s = false although the entry exists (%d values)", at, len(old))
				}
				if !present && ok {
					labels["removeMissingKeyReportedTrue"] = true
				}
				if present {
					labels["remove"] = true
					if len(old) > 1 {
						labels["removeMultiChunk"] = true
					}
					if len(m.entries) > 1 {
						labels["removeBesideOtherEntries"] = true
					}
					delete(m.entries, o.Key)
					rt.changes++
					removed = true
				} else {
					labels["removeMissingKey"] = true
				}
			case opRead:
				reread := rt.reread(o.Key)
				performed, err := e.readEntry(s, o.Key, old, present, o.ViaItem, reread)
				if err != nil {
					return nil, false, fmt.Errorf("%s (inside the writing transaction): %v", at, err)
				}
				if performed {
					labels["readInWritingTxn"] = true
					if reread {
						labels["rereadAfterChange"] = true
					}
					rt.readAt[o.Key] = rt.changes
					tracked = true
				} else if present {
					labels["readSkippedForListedFinding"] = true
				} else {
					labels["readMissingKey"] = true
				}
			}
		}
		if removed && !tracked {
			labels["removeOnlyTxn"] = true
		}
		if err := tr.Commit(e.ctx); err != nil {
			return nil, false, fmt.Errorf("txn %d: Commit: %v", ti, err)
		}
		if err := e.verify(p, m, labels); err != nil {
			return nil, false, fmt.Errorf("txn %d: %v", ti, err)
		}
	}
	return labels, nontrivial, nil
}

func TestC31_Programs(t *testing.T) {
	rec := stats.For(propID).Meta("exploration",
		"programs of add/update/upsert/remove/read over 1-4 keys in 1-4 committed transactions, entries of 1-6 (rarely up to 70) values; non-trivial = some written value's encoding exceeds 512 B or an update changes the number of values; distinct by rendered program",
		"one writer at a time, every transaction committed; encoders used sequentially with Close() after Update/Upsert, as the package's doc comments and stress tests do",
		"value contents are a deterministic function of four drawn numbers (kind, size, seed, escape class); strings are valid UTF-8, floats finite",
		"real temp directory, in-memory L2 cache, registry hash mod 250, store name unique per case")
	rapid.Check(t, func(t *rapid.T) {
		p := genProgram(t, rec)
		e, err := newEnv(p, rec)
		if err != nil {
			t.Fatalf("%v", err)
		}
		defer e.close()
		labels, nontrivial, err := e.run(p)
		if err != nil {
			if strings.Contains(err.Error(), "HARNESS-ERROR") {
				t.Fatalf("%v", err)
			}
			t.Fatalf("C31 violated: %v\nprogram: %s", err, p.canon())
		}
		ls := make([]string, 0, len(labels))
		for _, l := range labelOrder {
			if labels[l] {
				ls = append(ls, l)
			}
		}
		rec.Case(p.canon(), nontrivial, ls...)
		if labels["value>=64KiB"] || labels["value>=1MiB"] {
			rec.Sample("big", p.canon())
		} else if labels["updateShorter"] {
			rec.Sample("shorten", p.canon())
		} else if labels["remove"] {
			rec.Sample("remove", p.canon())
		} else {
			rec.Sample("other", p.canon())
		}
	})
}

// fixed order so that nothing depends on map iteration
var labelOrder = []string{
	"bigData", "mediumData", "multiTxn", "multiNode", "longEntry", "emptyStoreVerified",
	"add", "addIfNotExistOnExisting", "update", "updateMissingKey", "upsertNew", "upsertExisting",
	"updateShorter", "updateLonger", "updateSameCount", "updateBesideOtherEntries", "updateThroughCursor", "updateThroughCursorAfterReading",
	"remove", "removeMultiChunk", "removeBesideOtherEntries", "removeMissingKey", "removeMissingKeyReportedTrue",
	"encoderForMissingKey",
	"readInWritingTxn", "rereadAfterChange", "readMissingKey", "readSkippedForListedFinding", "removeOnlyTxn",
	"kind:str", "kind:bytes", "kind:doc", "kind:int",
	"value>512B", "value>4096B", "value>=64KiB", "value>=1MiB", "firstValue>512B", "laterValue>512B",
	"boundary512", "boundary4096", "boundaryDecoderCap",
	"chunkPerValue", "chunksDifferFromValues", "countDiffersFromScan",
}
