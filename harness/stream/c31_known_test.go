package stream

import (
	"fmt"
	"strings"
	"testing"

	"github.com/sharedcode/sop"

	"verif/harness/stats"
)

// Minimal reproduction, without rapid, of the finding "reader-chunk-index-not-advanced":
// one entry with ONE value whose encoding (603 B) is larger than the 512 bytes the JSON
// decoder offers on its first Read. reader.Read hands the chunk over in two pieces through
// its partial-read buffer and forgets to advance its chunk index, so the next Read finds the
// same chunk again and the value is delivered a second time instead of io.EOF.
//
// Repaired in /repo by a fix: commit, so this is an always-on regression: it fails if the
// defect returns. (Should the slug ever be listed as known instead, it prints KNOWN-FINDING
// while it reproduces.)
func TestC31_Known_reader_chunk_index_not_advanced(t *testing.T) {
	rec := stats.For(propID)
	vals := []value{{Kind: kStr, Target: 603}}
	vals[0].materialise()
	p := program{Slot: 100, Keys: []string{"k"}}
	e, err := newEnv(p, rec)
	if err != nil {
		t.Fatalf("%v", err)
	}
	defer e.close()
	e.knownReader = false // this test exercises exactly the carved-out class
	err = reproReader(e, vals)
	if err == nil {
		return // no longer reproduces
	}
	if strings.Contains(err.Error(), "HARNESS-ERROR") || !strings.Contains(err.Error(), "one more value instead of EOF") {
		t.Fatalf("unexpected outcome of the reproduction: %v", err)
	}
	if !stats.Known(propID, slugReader) {
		t.Fatalf("C31 violated (regression of %s): %v", slugReader, err)
	}
	what := stats.KnownWhat(propID, slugReader)
	rec.KnownFinding(fmt.Sprintf("%s: one 603-byte value is decoded twice (%v)", what, err))
}

// reproReader: Add "k" = vals, commit; new reading transaction: FindOne, GetCurrentValue,
// decode -> must be exactly vals then io.EOF.
func reproReader(e *env, vals []value) error {
	tr, err := e.begin(sop.ForWriting)
	if err != nil {
		return fmt.Errorf("HARNESS-ERROR %v", err)
	}
	s, err := e.open(tr, false)
	if err != nil {
		return fmt.Errorf("HARNESS-ERROR %v", err)
	}
	enc, err := s.Add(e.ctx, "k")
	if err != nil {
		return err
	}
	if err := encodeAll(enc, vals); err != nil {
		return err
	}
	if err := tr.Commit(e.ctx); err != nil {
		return err
	}
	tr, err = e.begin(sop.ForReading)
	if err != nil {
		return fmt.Errorf("HARNESS-ERROR %v", err)
	}
	defer tr.Commit(e.ctx)
	if s, err = e.open(tr, true); err != nil {
		return err
	}
	_, err = e.readEntry(s, "k", vals, true, false, false)
	return err
}

// Minimal reproduction, without rapid, of the finding "remove-only-transaction-not-committed":
// a sop.BigData streaming store with two one-chunk entries; a second transaction does nothing
// but Remove("k0") (which returns true) and commits without error; a third transaction still
// finds "k0".
//
// Repaired in /repo by a fix: commit: always-on regression, fails if the defect returns.
func TestC31_Known_remove_only_transaction_not_committed(t *testing.T) {
	rec := stats.For(propID)
	e, err := newEnv(program{Slot: 100, Keys: []string{"k0", "k1"}}, rec)
	if err != nil {
		t.Fatalf("%v", err)
	}
	defer e.close()
	still, err := reproRemoveOnly(e)
	if err != nil {
		t.Fatalf("unexpected outcome of the reproduction: %v", err)
	}
	if !still {
		return // no longer reproduces
	}
	if !stats.Known(propID, slugRemoveOnly) {
		t.Fatalf("C31 violated (regression of %s): Remove(\"k0\")=true and Commit()=nil in a transaction with no other change, yet the next transaction finds \"k0\"", slugRemoveOnly)
	}
	what := stats.KnownWhat(propID, slugRemoveOnly)
	rec.KnownFinding(what + ": Remove(\"k0\")=true and Commit()=nil in a transaction with no other change, yet the next transaction finds \"k0\"")
}

func reproRemoveOnly(e *env) (stillThere bool, err error) {
	tr, err := e.begin(sop.ForWriting)
	if err != nil {
		return false, fmt.Errorf("HARNESS-ERROR %v", err)
	}
	s, err := e.open(tr, false)
	if err != nil {
		return false, fmt.Errorf("HARNESS-ERROR %v", err)
	}
	for _, k := range []string{"k0", "k1"} {
		enc, err := s.Add(e.ctx, k)
		if err != nil {
			return false, err
		}
		if err := enc.Encode("hello " + k); err != nil {
			return false, err
		}
	}
	if err := tr.Commit(e.ctx); err != nil {
		return false, err
	}
	if tr, err = e.begin(sop.ForWriting); err != nil {
		return false, fmt.Errorf("HARNESS-ERROR %v", err)
	}
	if s, err = e.open(tr, true); err != nil {
		return false, err
	}
	if ok, err := s.Remove(e.ctx, "k0"); err != nil || !ok {
		return false, fmt.Errorf("Remove(k0) = %v, %v", ok, err)
	}
	if err := tr.Commit(e.ctx); err != nil {
		return false, err
	}
	if tr, err = e.begin(sop.ForReading); err != nil {
		return false, fmt.Errorf("HARNESS-ERROR %v", err)
	}
	defer tr.Commit(e.ctx)
	if s, err = e.open(tr, true); err != nil {
		return false, err
	}
	return s.FindOne(e.ctx, "k0")
}

// Minimal reproduction, without rapid, of the finding "refetch-after-slot-shift-returns-empty"
// (sop.BigData store): txn 1 adds "a" and "k1"; txn 2 updates "k1" (its chunks now live in the
// blob store only); txn 3 reads "k1" (fine), adds "b" - which sorts before "k1" and shifts the
// node's slots - and reads "k1" again: the underlying GetCurrentValue returns empty chunks
// without an error, so the entry decodes to nothing (EOF at value #0).
//
// Repaired in /repo by a fix: commit: always-on regression, fails if the defect returns.
func TestC31_Known_refetch_after_slot_shift_returns_empty(t *testing.T) {
	rec := stats.For(propID)
	two := func(n int) []value {
		vs := []value{{Kind: kStr, Target: 20 + n, Seed: n}, {Kind: kStr, Target: 30 + n, Seed: n}}
		vs[0].materialise()
		vs[1].materialise()
		return vs
	}
	p := program{Slot: 52, Keys: []string{"a", "b", "k1"}, Txns: []txn{
		{Ops: []op{{Kind: opAdd, Key: "k1", Vals: two(1)}, {Kind: opAdd, Key: "a", Vals: two(5)}}},
		{Ops: []op{{Kind: opUpdate, Key: "k1", Vals: two(2)}}},
		{Reopen: true, Ops: []op{{Kind: opRead, Key: "k1"}, {Kind: opAdd, Key: "b", Vals: two(3)}, {Kind: opRead, Key: "k1"}}},
	}}
	e, err := newEnv(p, rec)
	if err != nil {
		t.Fatalf("%v", err)
	}
	defer e.close()
	e.knownRefetch = false // this test exercises exactly the carved-out class
	_, _, err = e.run(p)
	if err == nil {
		return // no longer reproduces
	}
	if strings.Contains(err.Error(), "HARNESS-ERROR") || !strings.Contains(err.Error(), "txn 2 op 2 read(\"k1\")") {
		t.Fatalf("unexpected outcome of the reproduction: %v", err)
	}
	if !stats.Known(propID, slugRefetch) {
		t.Fatalf("C31 violated (regression of %s): %v", slugRefetch, err)
	}
	what := stats.KnownWhat(propID, slugRefetch)
	rec.KnownFinding(fmt.Sprintf("%s: read k1, add b, read k1 in one transaction: %v", what, err))
}
