package stream

import (
	"bytes"
	"encoding/json"
	"fmt"
	"slices"

	"pgregory.net/rapid"

	"verif/harness/stats"
)

// Values written into streaming entries. The content of a value is a pure function of
// (Kind, Target, Seed, Spice), all of them rapid draws, so a 4 MiB value costs four
// draws and shrinks/replays like any other case.

type kind int

const (
	kStr kind = iota
	kBytes
	kDoc
	kInt
)

func (k kind) String() string { return [...]string{"str", "bytes", "doc", "int"}[k] }

type sub struct {
	A int
	B string
}

// doc is the struct kind. Slices are always generated non-nil and are compared with
// nil == empty, because JSON does not keep that distinction.
type doc struct {
	ID      int64
	Name    string
	Tags    []string
	Payload []byte
	Score   float64
	Sub     sub
}

type value struct {
	Kind   kind
	Target int // requested size of the encoding including the trailing newline (= one chunk)
	Seed   int
	Spice  int
	v      any // materialised: string | []byte | doc | int64
	enc    int // actual size of the encoding including the trailing newline
}

func (v value) canon() string {
	return fmt.Sprintf("%s/%d/%d/%d", v.Kind, v.Target, v.Seed, v.Spice)
}

// characters whose JSON encoding differs in length from their UTF-8 length, or that are
// multi-byte, so that chunk boundaries fall inside escapes and inside runes too.
var spices = []string{"", `"`, `\`, "<&>", "\u00e9", "\u4e16\u754c", "\n\t", "\u2028", "\U0001F600"}

func filler(n, seed int) string {
	if n <= 0 {
		return ""
	}
	b := make([]byte, n)
	s := uint32(seed)
	for i := range b {
		b[i] = 'a' + byte(((uint32(i)*2654435761)>>27+s+uint32(i>>9))%26)
	}
	return string(b)
}

func pattern(n, seed int) []byte {
	b := make([]byte, max(n, 0))
	s := uint32(seed)*40503 + 17
	for i := range b {
		b[i] = byte((uint32(i)*2654435761 + s) >> 13)
	}
	return b
}

func mustJSON(v any) []byte {
	b, err := json.Marshal(v)
	if err != nil {
		panic("HARNESS-ERROR json.Marshal of a generated value: " + err.Error())
	}
	return b
}

// materialise builds the Go value so that its encoding (json + "\n") is Target bytes long
// whenever the kind can reach that size exactly (strings and docs can, by ASCII padding).
func (v *value) materialise() {
	sp := spices[v.Spice%len(spices)]
	switch v.Kind {
	case kStr:
		base := len(mustJSON(sp)) + 1
		n := v.Target - base
		if n < 0 {
			sp = ""
			n = max(v.Target-3, 0)
		}
		v.v = filler(n/2, v.Seed) + sp + filler(n-n/2, v.Seed+1)
	case kBytes:
		n := max(v.Target-3, 0)/4*3 + v.Seed%3
		v.v = pattern(n, v.Seed)
	case kDoc:
		tags := [][]string{{}, {"x"}, {"alpha", "beta", sp}}[v.Seed%3]
		d := doc{ID: int64(v.Seed) * 7919, Tags: tags, Payload: pattern(v.Seed%40, v.Seed),
			Score: float64(v.Seed) / 8, Sub: sub{A: -v.Seed, B: sp}}
		if pad := v.Target - (len(mustJSON(d)) + 1); pad > 0 {
			d.Name = filler(pad, v.Seed)
		}
		v.v = d
	case kInt:
		digits := min(max(v.Target-1, 1), 18)
		lo := int64(1)
		for i := 1; i < digits; i++ {
			lo *= 10
		}
		if digits == 1 {
			v.v = int64(v.Seed % 10)
		} else {
			v.v = lo + int64(v.Seed)%(9*lo)
		}
	}
	v.enc = len(mustJSON(v.v)) + 1
}

// decodeNext decodes the next value of the stream into a fresh target of the kind the
// writer used (what a caller that knows its schema does).
func decodeNext(dec *json.Decoder, k kind) (any, error) {
	switch k {
	case kStr:
		var s string
		err := dec.Decode(&s)
		return s, err
	case kBytes:
		var b []byte
		err := dec.Decode(&b)
		return b, err
	case kDoc:
		var d doc
		err := dec.Decode(&d)
		return d, err
	default:
		var n int64
		err := dec.Decode(&n)
		return n, err
	}
}

func sameValue(want, got any) bool {
	switch w := want.(type) {
	case string:
		g, ok := got.(string)
		return ok && g == w
	case []byte:
		g, ok := got.([]byte)
		return ok && bytes.Equal(g, w)
	case int64:
		g, ok := got.(int64)
		return ok && g == w
	case doc:
		g, ok := got.(doc)
		return ok && g.ID == w.ID && g.Name == w.Name && slices.Equal(g.Tags, w.Tags) &&
			bytes.Equal(g.Payload, w.Payload) && g.Score == w.Score && g.Sub == w.Sub
	}
	return false
}

func brief(v any) string {
	s := fmt.Sprintf("%T %v", v, v)
	if len(s) > 90 {
		return fmt.Sprintf("%s...(%d chars)", s[:90], len(s))
	}
	return s
}

// ---- size generator

// Capacities the JSON decoder's read buffer goes through (512, then 2c+512), plus the
// page-like sizes named in the design. A chunk is handed to the decoder in one piece only
// if it fits the free part of that buffer, so these are the interesting lengths.
var boundaries = []int{512, 512, 512, 1536, 3584, 4096, 4096, 7680, 15872, 32256, 65536}

func genTarget(t *rapid.T, budget *int) int {
	var n int
	switch c := rapid.IntRange(0, 99).Draw(t, "sizeClass"); {
	case c < 40:
		b := rapid.SampledFrom(boundaries).Draw(t, "boundary")
		if stats.Tier() == "thorough" && rapid.IntRange(0, 19).Draw(t, "hugeBoundary") == 0 {
			b = rapid.SampledFrom([]int{1 << 20, 4<<20 - 2}).Draw(t, "hugeB")
		}
		n = b + rapid.IntRange(-2, 2).Draw(t, "delta")
	case c < 58:
		n = rapid.IntRange(2, 64).Draw(t, "tiny")
	case c < 76:
		n = rapid.IntRange(65, 511).Draw(t, "small")
	case c < 92:
		n = rapid.IntRange(514, 20000).Draw(t, "medium")
	default:
		hi := stats.Pick(256<<10, 4<<20)
		if rapid.IntRange(0, 7).Draw(t, "reallyBig") == 0 {
			hi = stats.Pick(1<<20, 4<<20)
		}
		n = rapid.IntRange(20001, hi).Draw(t, "big")
	}
	if n > *budget { // keep one case affordable: fall back to a size the budget allows
		n = max(2, min(n, 600, *budget))
	}
	*budget -= n
	if *budget < 64 {
		*budget = 64
	}
	return n
}

func genValue(t *rapid.T, budget *int, tinyOnly bool) value {
	v := value{
		Kind:  kind(rapid.SampledFrom([]int{0, 0, 0, 1, 1, 2, 2, 3}).Draw(t, "kind")),
		Seed:  rapid.IntRange(0, 9999).Draw(t, "seed"),
		Spice: rapid.IntRange(0, len(spices)-1).Draw(t, "spice"),
	}
	if tinyOnly {
		v.Target = rapid.IntRange(2, 40).Draw(t, "tinySize")
	} else {
		v.Target = genTarget(t, budget)
	}
	if v.Kind == kInt && v.Target > 19 { // an int cannot be long; make it a string instead
		v.Kind = kStr
	}
	v.materialise()
	return v
}

// genEntry: 1-6 values; occasionally a long run of tiny values so that one entry's chunks
// cross a B-tree node boundary (slot length >= 50).
func genEntry(t *rapid.T, budget *int) []value {
	if rapid.IntRange(0, 7).Draw(t, "longEntry") == 0 {
		n := rapid.IntRange(7, 70).Draw(t, "nLong")
		vs := make([]value, n)
		for i := range vs {
			vs[i] = genValue(t, budget, i > 0) // the first one may be large
		}
		return vs
	}
	n := rapid.IntRange(1, 6).Draw(t, "nValues")
	vs := make([]value, n)
	for i := range vs {
		vs[i] = genValue(t, budget, false)
	}
	return vs
}
