package conc

import (
	"fmt"
	"testing"
	"time"

	"github.com/sharedcode/sop"

	"verif/harness/txh"
)

// TestC02_WriteSkewAcrossStores (always on, deterministic): two writers read a shared configuration item, then
// T1 reads a (store A) and writes b (store B) while T2 reads b and writes a; both finish their operations, both run
// phase 1 of their commit, then the finalising writes happen. At most one of them may commit (or the outcome must
// equal a serial order): the tracked items of EVERY store of a transaction take part in the conflict check.
func TestC02_WriteSkewAcrossStores(t *testing.T) {
	for _, placement := range []int{0, 1, 3} {
		for _, order := range [][]int{{0, 1}, {1, 0}} {
			e, err := txh.NewEnv(3)
			if err != nil {
				t.Fatalf("%v", err)
			}
			txh.SeedUUIDs(uint64(42 + placement))
			stores := []txh.StoreOpts{
				{Name: "cfg", Slot: 4, Unique: true, Placement: placement},
				{Name: "sta", Slot: 4, Unique: true, Placement: placement},
				{Name: "stb", Slot: 4, Unique: true, Placement: placement},
			}
			pre, err := seedStore(e, stores, [][]int{{0}, {0, 1}, {0, 1}})
			if err != nil {
				t.Fatalf("HARNESS-ERROR %v", err)
			}
			op := func(s int, kind string, k int, tag string) txh.Op { return txh.Op{S: s, Kind: kind, K: k, Tag: tag, Size: 10} }
			progs := []txh.TxnProg{
				{Mode: sop.ForWriting, End: "commit", Ops: []txh.Op{op(0, "get", 0, ""), op(1, "get", 0, ""), op(2, "update", 0, "t1.b")}},
				{Mode: sop.ForWriting, End: "commit", Ops: []txh.Op{op(0, "get", 0, ""), op(2, "get", 0, ""), op(1, "update", 0, "t2.a")}},
			}
			var segs []txh.Seg
			for _, p := range order {
				segs = append(segs, txh.Seg{P: p, Until: "Commit.begin"})
			}
			for _, p := range order {
				segs = append(segs, txh.Seg{P: p, Until: "Registry.UpdateNoLocksFlip"})
			}
			for _, p := range order {
				segs = append(segs, txh.Seg{P: p})
			}
			res, s := e.RunConcurrent(stores, progs, nil, txh.ConcOpts{Directed: segs, MaxTime: 5 * time.Second, Budget: 60 * time.Second})
			if s.TimedOut {
				e.Cleanup()
				t.Fatalf("HARNESS-ERROR timed out")
			}
			final, err := e.Dump(stores, sop.ForReading)
			if err != nil {
				t.Fatalf("reader: %v", err)
			}
			var committed []int
			for i, r := range res {
				if r.Committed {
					committed = append(committed, i)
				}
			}
			ok := false
			why := ""
			for _, o := range permutations(committed) {
				if good, w := replaySerial(pre, res, o, final, stores); good {
					ok = true
				} else if why == "" {
					why = fmt.Sprintf("order %v: %s", o, w)
				}
			}
			e.Cleanup()
			if !ok {
				t.Fatalf("%s, order %v: T1 (read a, write b) and T2 (read b, write a): committed %v (errors %v / %v), no serial order explains it (%s)",
					txh.PlacementNames[placement], order, committed, res[0].CommitErr, res[1].CommitErr, why)
			}
		}
	}
}
