package conc

import (
	"fmt"
	"strings"
	"testing"
	"time"

	"github.com/sharedcode/sop"

	"verif/harness/txh"
)

// TestC02_WriteSkewAcrossStores (always on, deterministic): two writers read a shared configuration item, then
// T1 reads a (store A) and writes b (store B) while T2 reads b and writes a; both finish their operations, both run
// phase 1 of their commit, then the finalising writes happen. At most one of them may commit (or the outcome must
// equal a serial order): the tracked items of EVERY store of a transaction take part in the conflict check.
func TestC02_WriteSkewAcrossStores(t *testing.T) {
	for _, placement := range []int{0, 1, 3} {
		for _, order := range [][]int{{0, 1}, {1, 0}} {
			e, err := txh.NewEnv(3)
			if err != nil {
				t.Fatalf("%v", err)
			}
			txh.SeedUUIDs(uint64(42 + placement))
			stores := []txh.StoreOpts{
				{Name: "cfg", Slot: 4, Unique: true, Placement: placement},
				{Name: "sta", Slot: 4, Unique: true, Placement: placement},
				{Name: "stb", Slot: 4, Unique: true, Placement: placement},
			}
			pre, err := seedStore(e, stores, [][]int{{0}, {0, 1}, {0, 1}})
			if err != nil {
				t.Fatalf("HARNESS-ERROR %v", err)
			}
			op := func(s int, kind string, k int, tag string) txh.Op { return txh.Op{S: s, Kind: kind, K: k, Tag: tag, Size: 10} }
			progs := []txh.TxnProg{
				{Mode: sop.ForWriting, End: "commit", Ops: []txh.Op{op(0, "get", 0, ""), op(1, "get", 0, ""), op(2, "update", 0, "t1.b")}},
				{Mode: sop.ForWriting, End: "commit", Ops: []txh.Op{op(0, "get", 0, ""), op(2, "get", 0, ""), op(1, "update", 0, "t2.a")}},
			}
			var segs []txh.Seg
			for _, p := range order {
				segs = append(segs, txh.Seg{P: p, Until: "Commit.begin"})
			}
			for _, p := range order {
				segs = append(segs, txh.Seg{P: p, Until: "Registry.UpdateNoLocksFlip"})
			}
			for _, p := range order {
				segs = append(segs, txh.Seg{P: p})
			}
			res, s := e.RunConcurrent(stores, progs, nil, txh.ConcOpts{Directed: segs, MaxTime: 5 * time.Second, Budget: 60 * time.Second})
			if s.TimedOut {
				e.Cleanup()
				t.Fatalf("HARNESS-ERROR timed out")
			}
			final, err := e.Dump(stores, sop.ForReading)
			if err != nil {
				t.Fatalf("reader: %v", err)
			}
			var committed []int
			for i, r := range res {
				if r.Committed {
					committed = append(committed, i)
				}
			}
			ok := false
			why := ""
			for _, o := range permutations(committed) {
				if good, w := replaySerial(pre, res, o, final, stores); good {
					ok = true
				} else if why == "" {
					why = fmt.Sprintf("order %v: %s", o, w)
				}
			}
			e.Cleanup()
			if !ok {
				t.Fatalf("%s, order %v: T1 (read a, write b) and T2 (read b, write a): committed %v (errors %v / %v), no serial order explains it (%s)",
					txh.PlacementNames[placement], order, committed, res[0].CommitErr, res[1].CommitErr, why)
			}
		}
	}
}

// TestC02_WriteSkewInRefetchWindow (always on, deterministic): T1 reads a and b and writes a; T2 reads a and b and
// writes b (b lives in another store, so T1 only ever READS b's node); T0 updates an unrelated item of a's node, which
// sends T1's commit through a refetch-and-merge pass. Between that pass and the re-taking of T1's item locks T1 holds
// no lock at all: T2 runs from start to end exactly there. The check of the nodes T1 only read, which follows the
// re-lock, is then the only thing that can notice that b changed. Outcome must equal a serial order.
func TestC02_WriteSkewInRefetchWindow(t *testing.T) {
	reached := 0
	for _, placement := range []int{0, 1, 3} {
		for _, marker := range []string{"TLog.Add#4", "TLog.Add#5", "TLog.Add#6", "TLog.Add#7", "L2.GetStructs#4", "L2.GetStructs#5", "L2.Lock#1", "L2.DualLock#1"} {
			e, err := txh.NewEnv(3)
			if err != nil {
				t.Fatalf("%v", err)
			}
			txh.SeedUUIDs(uint64(77 + placement))
			stores := []txh.StoreOpts{
				{Name: "sta", Slot: 4, Unique: true, Placement: placement},
				{Name: "stb", Slot: 4, Unique: true, Placement: placement},
			}
			pre, err := seedStore(e, stores, [][]int{{0, 1}, {0, 1}})
			if err != nil {
				t.Fatalf("HARNESS-ERROR %v", err)
			}
			op := func(s int, kind string, k int, tag string) txh.Op { return txh.Op{S: s, Kind: kind, K: k, Tag: tag, Size: 10} }
			progs := []txh.TxnProg{
				{Mode: sop.ForWriting, End: "commit", Ops: []txh.Op{op(0, "update", 1, "t0.c")}},
				{Mode: sop.ForWriting, End: "commit", Ops: []txh.Op{op(0, "get", 0, ""), op(1, "get", 0, ""), op(0, "update", 0, "t1.a")}},
				{Mode: sop.ForWriting, End: "commit", Ops: []txh.Op{op(0, "get", 0, ""), op(1, "get", 0, ""), op(1, "update", 0, "t2.b")}},
			}
			segs := []txh.Seg{{P: 1, Until: "Commit.begin"}, {P: 2, Until: "Commit.begin"}, {P: 0}, {P: 1, Until: marker}, {P: 2}, {P: 1}}
			res, s := e.RunConcurrent(stores, progs, nil, txh.ConcOpts{Directed: segs, MaxTime: 5 * time.Second, Budget: 60 * time.Second})
			if s.TimedOut {
				e.Cleanup()
				continue
			}
			final, err := e.Dump(stores, sop.ForReading)
			if err != nil {
				t.Fatalf("reader: %v", err)
			}
			var committed []int
			for i, r := range res {
				if r.Committed {
					committed = append(committed, i)
				}
			}
			// did T2 run exactly between T1's refetch reads and the log entry that opens T1's next commit try?
			first, last := -1, -1
			for i, st := range s.Timeline {
				if st.P == 2 && strings.HasPrefix(st.Site, "TLog.Add#0") {
					first = i
				}
				if st.P == 2 {
					last = i
				}
			}
			before, after := "", ""
			for i, st := range s.Timeline {
				if st.P == 1 && i < first {
					before = st.Site
				}
				if st.P == 1 && i > last && after == "" {
					after = st.Site
				}
			}
			if mergePasses(res[1]) >= 1 && res[2].Committed && strings.HasPrefix(before, "Registry.Get") && strings.HasPrefix(after, "TLog.Add") {
				reached++
			}
			ok := false
			why := ""
			for _, o := range permutations(committed) {
				if good, w := replaySerial(pre, res, o, final, stores); good {
					ok = true
				} else if why == "" {
					why = fmt.Sprintf("order %v: %s", o, w)
				}
			}
			e.Cleanup()
			if !ok {
				t.Fatalf("%s, T2 run when T1 is about to call %s after its merge pass: T1 (reads a, b; writes a) and T2 (reads a, b; writes b): committed %v (errors %v / %v / %v), no serial order explains it (%s)",
					txh.PlacementNames[placement], marker, committed, res[0].CommitErr, res[1].CommitErr, res[2].CommitErr, why)
			}
		}
	}
	if reached == 0 {
		t.Fatalf("HARNESS-ERROR T2 never committed inside T1's refetch window")
	}
	t.Logf("cases where T1 merged and T2 committed in between: %d", reached)
}
