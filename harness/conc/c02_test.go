package conc

import (
	"fmt"
	"os"
	"strings"
	"testing"
	"time"

	"github.com/sharedcode/sop"
	"pgregory.net/rapid"

	"verif/harness/stats"
	"verif/harness/txh"
)

// replaySerial replays the committed participants in the given order on a copy of the pre-state and
// reports whether every constrained observation and the final state are reproduced.
func replaySerial(pre []*txh.Model, res []txh.CResult, order []int, final []txh.StoreDump, stores []txh.StoreOpts) (bool, string) {
	m := make([]*txh.Model, len(pre))
	for i := range pre {
		m[i] = pre[i].Clone()
	}
	for _, pi := range order {
		r := res[pi]
		for _, o := range r.Obs {
			if !o.OK {
				continue // a miss / refused write told its caller that nothing happened: unconstrained, no effect
			}
			mm := m[o.Op.S]
			switch o.Op.Kind {
			case "get":
				vs := mm.Values(o.Op.K)
				if len(vs) != 1 || vs[0] != o.Read {
					return false, fmt.Sprintf("p%d %s read %s but in this order the value is %v", pi, o.Op, txh.Short(o.Read), shortAll(vs))
				}
			case "rmw":
				vs := mm.Values(o.Op.K)
				if len(vs) != 1 || vs[0] != o.Read {
					return false, fmt.Sprintf("p%d %s read %s but in this order the value is %v", pi, o.Op, txh.Short(o.Read), shortAll(vs))
				}
				mm.SetUnique(o.Op.K, o.Wrote)
			case "update":
				if !mm.SetUnique(o.Op.K, o.Wrote) {
					return false, fmt.Sprintf("p%d %s succeeded but in this order the key does not exist", pi, o.Op)
				}
			case "add", "addIfNotExist":
				if !mm.Add(o.Op.K, o.Wrote) {
					return false, fmt.Sprintf("p%d %s succeeded but in this order the key already exists", pi, o.Op)
				}
			case "upsert":
				if !mm.SetUnique(o.Op.K, o.Wrote) {
					mm.Add(o.Op.K, o.Wrote)
				}
			case "remove":
				if !mm.RemoveUnique(o.Op.K) {
					return false, fmt.Sprintf("p%d %s succeeded but in this order the key does not exist", pi, o.Op)
				}
			case "rmv":
				vs := mm.Values(o.Op.K)
				if len(vs) != 1 || vs[0] != o.Read {
					return false, fmt.Sprintf("p%d %s read %s before removing the item but in this order the value is %v", pi, o.Op, txh.Short(o.Read), shortAll(vs))
				}
				mm.RemoveUnique(o.Op.K)
			}
		}
	}
	for i := range stores {
		if ok, why := txh.SameItems(final[i].Items, m[i]); !ok {
			return false, "final state: " + why
		}
	}
	return true, ""
}

func shortAll(vs []string) []string {
	r := make([]string, len(vs))
	for i, v := range vs {
		r[i] = txh.Short(v)
	}
	return r
}

func permutations(xs []int) [][]int {
	if len(xs) <= 1 {
		return [][]int{append([]int{}, xs...)}
	}
	var out [][]int
	for i := range xs {
		rest := append(append([]int{}, xs[:i]...), xs[i+1:]...)
		for _, p := range permutations(rest) {
			out = append(out, append([]int{xs[i]}, p...))
		}
	}
	return out
}

// TestC02_Serializable
func TestC02_Serializable(t *testing.T) {
	rec := stats.For("C02").Meta("exploration",
		"2-4 transactions (ForWriting and ForReading) over 1-2 pre-seeded unique stores, 1-5 operations each from {read k, read-modify-write k, blind update k, add, addIfNotExist, upsert, remove} on a key domain of 3-6 so that they overlap (slot length 2-6 gives multi-node trees), any mix of Commit / Rollback, run one at a time under a generated schedule that can switch at every backend call; every written value is a globally unique tag; oracle (history based): among the transactions whose Commit returned nil there must be a serial order in which replaying their programs on the pre-state reproduces every value read by a successful read, the success of every successful write, and the final fresh-reader dump of the stores (all permutations are tried); calls that reported 'not found' / 'not added' are unconstrained and have no effect in the replay; non-trivial = >= 2 committed transactions share a key and the schedule switched between them; distinct by programs + schedule",
		"README: stores are pre-seeded (concurrent first commits into an empty store are unsupported)", "in-process transactions sharing the in-memory L2 cache; the multi-process variant is not built", "NoCheck transactions are excluded (they are documented to skip read checks)")
	knownStale := stats.Known("C04", "tracked-item-pointer-stale-after-slot-shift")
	rapid.Check(t, func(t *rapid.T) {
		ns := rapid.IntRange(1, 3).Draw(t, "stores")
		var stores []txh.StoreOpts
		var seed [][]int
		domain := rapid.IntRange(3, 6).Draw(t, "domain")
		for i := 0; i < ns; i++ {
			stores = append(stores, txh.StoreOpts{Name: fmt.Sprintf("st%d", i), Slot: rapid.SampledFrom([]int{2, 2, 4, 6}).Draw(t, "slot"), Unique: true,
				Placement: rapid.SampledFrom([]int{0, 0, 1, 2, 3, 4}).Draw(t, "placement")})
			var sk []int
			for k := 0; k < domain; k++ {
				if rapid.IntRange(0, 3).Draw(t, fmt.Sprintf("seed%d.%d", i, k)) > 0 {
					sk = append(sk, k)
				}
			}
			if len(sk) == 0 {
				sk = []int{0}
			}
			seed = append(seed, sk)
		}
		nt := rapid.IntRange(2, 4).Draw(t, "txns")
		crossing := rapid.IntRange(0, 3).Draw(t, "crossingReadWriteSets") == 0
		progs := make([]txh.TxnProg, nt)
		tag := 0
		for w := range progs {
			progs[w] = txh.TxnProg{Mode: sop.ForWriting, End: "commit"}
			if rapid.IntRange(0, 4).Draw(t, fmt.Sprintf("reader%d", w)) == 0 {
				progs[w].Mode = sop.ForReading
			}
			if rapid.IntRange(0, 6).Draw(t, fmt.Sprintf("rb%d", w)) == 0 {
				progs[w].End = "rollback"
			}
			n := rapid.IntRange(1, 5).Draw(t, fmt.Sprintf("nops%d", w))
			if crossing && progs[w].Mode == sop.ForWriting {
				// read-then-write across stores: read one or two keys (each in a drawn store), then write another key
				n = 0
				for j, nr := 0, rapid.IntRange(1, 2).Draw(t, fmt.Sprintf("reads%d", w)); j < nr; j++ {
					tag++
					progs[w].Ops = append(progs[w].Ops, txh.Op{S: rapid.IntRange(0, ns-1).Draw(t, "rstore"), Kind: "get", K: rapid.IntRange(0, 1).Draw(t, "rkey"), Tag: fmt.Sprintf("t%d.w%d", w, tag)})
				}
				tag++
				progs[w].Ops = append(progs[w].Ops, txh.Op{S: rapid.IntRange(0, ns-1).Draw(t, "wstore"), Kind: rapid.SampledFrom([]string{"update", "update", "upsert", "remove"}).Draw(t, "wkind"),
					K: rapid.IntRange(0, 1).Draw(t, "wkey"), Tag: fmt.Sprintf("t%d.w%d", w, tag), Size: 10})
			}
			for j := 0; j < n; j++ {
				tag++
				kinds := []string{"get", "get", "rmw", "rmw", "update", "add", "addIfNotExist", "upsert", "remove", "rmv"}
				if progs[w].Mode == sop.ForReading {
					kinds = []string{"get"}
				}
				progs[w].Ops = append(progs[w].Ops, txh.Op{S: rapid.IntRange(0, ns-1).Draw(t, "store"),
					Kind: rapid.SampledFrom(kinds).Draw(t, "kind"), K: rapid.IntRange(0, domain-1).Draw(t, "key"),
					Tag: fmt.Sprintf("t%d.w%d", w, tag), Size: rapid.SampledFrom([]int{0, 10, 200}).Draw(t, "size")})
			}
			if knownStale && progs[w].Mode == sop.ForWriting {
				if reorderForKnownStalePointerMulti(&progs[w]) {
					rec.Exclude("program reordered so that no add/remove follows a read/update of an existing item (known C04 finding: stale tracked item pointer)")
				}
			}
		}
		mode := rapid.IntRange(0, 5).Draw(t, "scheduleMode") // 0 starve; 1,2 directed; else free-form
		var schedule []int
		var directed []txh.Seg
		switch {
		case mode == 0:
			schedule = genStarve(t, nt)
		case mode <= 2:
			directed = genDirected(t, nt)
		default:
			schedule = genSchedule(t, nt)
		}
		cold := rapid.IntRange(0, 3).Draw(t, "coldNodeCaches") == 0
		coldFinal := rapid.Bool().Draw(t, "coldFinalReader")
		uuidSeed := rapid.Uint64().Draw(t, "uuidSeed")
		e, err := txh.NewEnv(rapid.SampledFrom([]int{1, 3, 16}).Draw(t, "hashMod"))
		if err != nil {
			t.Fatalf("%v", err)
		}
		defer e.Cleanup()
		txh.SeedUUIDs(uuidSeed)
		pre, err := seedStore(e, stores, seed)
		if err != nil {
			t.Fatalf("HARNESS-ERROR %v", err)
		}
		if cold {
			e.EvictNodeCaches()
		}
		res, s := e.RunConcurrent(stores, progs, schedule, txh.ConcOpts{GateCommits: knownSnapshot, Strict: mode == 0, Directed: directed, MaxTime: 10 * time.Second, Budget: 90 * time.Second})
		var sdesc []string
		for i, st := range stores {
			sdesc = append(sdesc, fmt.Sprintf("%s{slot=%d %s seed=%v}", st.Name, st.Slot, txh.PlacementNames[st.Placement], seed[i]))
		}
		desc := fmt.Sprintf("%s %s schedule=%s strict=%v directed=[%s] coldCaches=%v", strings.Join(sdesc, " "), renderProgs(progs), renderSchedRLE(schedule), mode == 0, renderSegs(directed), cold)
		if s.TimedOut {
			rec.Discard()
			return
		}
		if s.Gated > 0 {
			rec.Exclude("a commit was held back until no other transaction was in the middle of its operations (known finding: inconsistent snapshot while others commit)")
		}
		if coldFinal {
			// the final reader is another process / a later time: nothing of the node caches is left
			e.EvictNodeCaches()
		}
		final, err := e.Dump(stores, sop.ForReading)
		if err != nil {
			var outc []string
			for i, r := range res {
				outc = append(outc, fmt.Sprintf("p%d committed=%v commitErr=%v opErr=%v", i, r.Committed, r.CommitErr, r.OpErr))
				if os.Getenv("VERIF_DEBUG") != "" {
					for _, c := range r.Trace {
						if c.Comp == "BlobStore" || c.Comp == "StoreRepository" || (c.Comp == "L2" && c.Method == "Lock") {
							outc = append(outc, fmt.Sprintf("     %s %s", c, c.Info))
						}
					}
				}
			}
			t.Fatalf("fresh reader afterwards: %v\n %s\n%s", err, strings.Join(outc, "\n "), desc)
		}
		var committed []int
		for i, r := range res {
			if r.Committed && r.Prog.End == "commit" {
				committed = append(committed, i)
			}
		}
		var firstWhy string
		found := false
		for _, order := range permutations(committed) {
			ok, why := replaySerial(pre, res, order, final, stores)
			if ok {
				found = true
				break
			}
			if firstWhy == "" {
				firstWhy = fmt.Sprintf("order %v: %s", order, why)
			}
		}
		if !found {
			var obs []string
			for i, r := range res {
				var os []string
				for _, o := range r.Obs {
					os = append(os, fmt.Sprintf("%s=%v/r:%s", o.Op, o.OK, txh.Short(o.Read)))
				}
				obs = append(obs, fmt.Sprintf("p%d committed=%v err=%v [%s]", i, r.Committed, r.CommitErr, strings.Join(os, " ")))
			}
			var fin []string
			for i := range stores {
				fin = append(fin, txh.Canon(final[i].Items))
			}
			t.Fatalf("no serial order of the committed transactions %v explains what they read, wrote and left behind (e.g. %s)\n observations:\n  %s\n final: %v\n%s", committed, firstWhy, strings.Join(obs, "\n  "), fin, desc)
		}
		// non-trivial: two committed transactions share a (store,key)
		share := false
		keys := map[[2]int]int{}
		for _, pi := range committed {
			seen := map[[2]int]bool{}
			for _, o := range res[pi].Obs {
				k := [2]int{o.Op.S, o.Op.K}
				if !seen[k] {
					seen[k] = true
					keys[k]++
				}
			}
		}
		for _, n := range keys {
			if n >= 2 {
				share = true
			}
		}
		labels := []string{fmt.Sprintf("txns%d", nt), fmt.Sprintf("committed%d", len(committed))}
		if s.Switches > 0 {
			labels = append(labels, "contextSwitches")
		}
		if mode == 0 {
			labels = append(labels, "starvationSchedule")
		}
		if len(directed) > 0 {
			labels = append(labels, "directedSchedule")
		}
		if cold {
			labels = append(labels, "coldNodeCaches")
		}
		for _, r := range res {
			if mergePasses(r) >= 2 {
				labels = append(labels, "mergedTwiceOrMore")
				break
			}
		}
		for _, r := range res {
			if r.Prog.End == "commit" && !r.Committed {
				labels = append(labels, "commitRefused")
				break
			}
		}
		rec.Case(desc, share && s.Switches > 0 && len(committed) >= 2, labels...)
		rec.Sample("case", map[string]any{"case": desc, "committed": committed})
	})
}

// reorderForKnownStalePointerMulti is reorderForKnownStalePointer for programs over several stores and
// possibly repeated keys: it only moves when the program's keys per store are distinct (otherwise the
// order matters and the program is left alone but marked by truncation to its first shifting op).
func reorderForKnownStalePointerMulti(p *txh.TxnProg) bool {
	seen := map[[2]int]bool{}
	for _, o := range p.Ops {
		k := [2]int{o.S, o.K}
		if seen[k] {
			// repeated key: cut the program before the first add/remove that follows a read/update in its store
			touched := map[int]bool{}
			for i, o := range p.Ops {
				switch o.Kind {
				case "add", "addIfNotExist", "upsert", "remove", "rmv":
					if touched[o.S] {
						p.Ops = p.Ops[:i]
						return true
					}
				}
				switch o.Kind {
				case "get", "rmw", "update", "upsert", "remove", "rmv":
					touched[o.S] = true
				}
			}
			return false
		}
		seen[k] = true
	}
	// distinct keys: adds first, then removes, then the rest; upsert may hit an existing key, keep it with the rest
	// but then nothing may follow it that shifts: put upserts last of all
	rank := func(k string) int {
		switch k {
		case "add", "addIfNotExist":
			return 0
		case "remove", "rmv":
			return 1
		case "upsert":
			return 3
		}
		return 2
	}
	ops := append([]txh.Op{}, p.Ops...)
	for i := 1; i < len(ops); i++ {
		for j := i; j > 0 && rank(ops[j].Kind) < rank(ops[j-1].Kind); j-- {
			ops[j], ops[j-1] = ops[j-1], ops[j]
		}
	}
	moved := false
	nUp := 0
	for i := range ops {
		if ops[i] != p.Ops[i] {
			moved = true
		}
		if ops[i].Kind == "upsert" {
			nUp++
		}
	}
	if nUp > 1 { // a second upsert (may add) after an upsert that updated: keep only the first
		var kept []txh.Op
		first := true
		for _, o := range ops {
			if o.Kind == "upsert" {
				if !first {
					moved = true
					continue
				}
				first = false
			}
			kept = append(kept, o)
		}
		ops = kept
	}
	p.Ops = ops
	return moved
}
