package conc

import (
	"encoding/json"
	"fmt"
	"os"
	"path/filepath"
	"strings"
	"sync"
	"testing"
	"time"

	"github.com/sharedcode/sop"
	"pgregory.net/rapid"

	"verif/harness/stats"
	"verif/harness/txh"
)

// protoModel is the executable reference of the handle protocol: for every logical id the last image
// written to the registry and who wrote it.
type protoModel struct {
	mu     sync.Mutex
	cur    map[sop.UUID]sop.Handle
	writer map[sop.UUID]int
	known  map[sop.UUID]bool
	viol   []string
	trace  []string
	dir    string
	// stats
	reservesBy    map[sop.UUID]map[int]bool // txns that reserved (attempted a successor of) this id
	flips         int
	pendingAdds   map[int][]sop.Handle
	pendingTables map[int][]string
}

func active(h sop.Handle) sop.UUID {
	if h.IsActiveIDB {
		return h.PhysicalIDB
	}
	return h.PhysicalIDA
}
func inactive(h sop.Handle) sop.UUID {
	if h.IsActiveIDB {
		return h.PhysicalIDA
	}
	return h.PhysicalIDB
}

func (m *protoModel) fail(f string, a ...any) {
	if len(m.viol) < 5 {
		m.viol = append(m.viol, fmt.Sprintf(f, a...))
	}
}

func short(id sop.UUID) string { return id.String()[4:13] }

func (m *protoModel) onEvent(ev txh.RegEvent) {
	m.mu.Lock()
	defer m.mu.Unlock()
	if ev.After {
		if ev.Err != nil {
			return
		}
		if ev.Method == "Add" {
			// added nodes are registered before their blobs are written; they only become reachable when the
			// parent is finalised, so their blobs are checked then
			for i, h := range ev.Handles {
				m.pendingAdds[ev.Txn] = append(m.pendingAdds[ev.Txn], h)
				m.pendingTables[ev.Txn] = append(m.pendingTables[ev.Txn], ev.Tables[i])
			}
			return
		}
		if ev.Method == "UpdateNoLocksFlip" {
			nFlipped := len(ev.Handles)
			hs := append(append([]sop.Handle{}, ev.Handles...), m.pendingAdds[ev.Txn]...)
			tbs := append(append([]string{}, ev.Tables...), m.pendingTables[ev.Txn]...)
			ev.Handles, ev.Tables = hs, tbs
			// every active id must point at fully written data right after it became active
			for i, h := range ev.Handles {
				if h.IsDeleted {
					continue
				}
				id := active(h)
				s := id.String()
				p := filepath.Join(m.dir, ev.Tables[i], string(s[0]), string(s[1]), string(s[2]), string(s[3]), s)
				b, err := os.ReadFile(p)
				var probe struct {
					ID      sop.UUID
					Version int32
				}
				if err != nil || json.Unmarshal(b, &probe) != nil {
					m.fail("t%d %s: node %s now points at blob %s which does not load (%v)", ev.Txn, ev.Method, short(h.LogicalID), short(id), err)
				} else if i < nFlipped && probe.Version != h.Version-1 {
					// the node a commit installs as version v+1 is the one it built from version v
					m.fail("t%d %s: node %s becomes version %d with a blob that was built from version %d: a successor of an older version was installed over a newer one", ev.Txn, ev.Method, short(h.LogicalID), h.Version, probe.Version)
				}
			}
		}
		return
	}
	for _, id := range ev.IDs { // Remove
		m.trace = append(m.trace, fmt.Sprintf("t%d Remove %s", ev.Txn, short(id)))
		if h, ok := m.cur[id]; ok && !h.IsDeleted && m.writer[id] != ev.Txn {
			m.fail("t%d removes registry entry %s that is live and was last written by t%d", ev.Txn, short(id), m.writer[id])
		}
		delete(m.cur, id)
	}
	for _, h := range ev.Handles {
		lid := h.LogicalID
		prev, had := m.cur[lid]
		m.trace = append(m.trace, fmt.Sprintf("t%d %s %s v%d act=%s inact=%s del=%v wip=%d", ev.Txn, ev.Method, short(lid), h.Version, short(active(h)), short(inactive(h)), h.IsDeleted, h.WorkInProgressTimestamp))
		switch {
		case ev.Method == "Add":
			if had {
				m.fail("t%d adds a registry entry for %s which already has one (v%d by t%d)", ev.Txn, short(lid), prev.Version, m.writer[lid])
			}
		case !had && !m.known[lid]:
			// first sight of a handle created before the model started (seed transaction)
		case ev.Method == "UpdateNoLocksFlip":
			m.flips++
			if !had {
				m.fail("t%d finalises node %s that has no registry entry", ev.Txn, short(lid))
				break
			}
			if m.writer[lid] != ev.Txn {
				m.fail("t%d installs its successor of node %s (v%d -> v%d) but the image it replaces was written by t%d: two commits started from the same version both installed a successor, or the reservation was overwritten", ev.Txn, short(lid), prev.Version, h.Version, m.writer[lid])
			}
			if h.Version != prev.Version+1 {
				m.fail("t%d finalises node %s with version %d, registry had %d", ev.Txn, short(lid), h.Version, prev.Version)
			}
			if !h.IsDeleted && active(h) != inactive(prev) {
				m.fail("t%d flips node %s to blob %s but the reserved inactive id was %s", ev.Txn, short(lid), short(active(h)), short(inactive(prev)))
			}
		default: // Update / UpdateNoLocks(false): reserve, mark deleted, or undo
			if had && h.Version != prev.Version {
				m.fail("t%d %s changes the version of node %s (%d -> %d) outside the finalising batch", ev.Txn, ev.Method, short(lid), prev.Version, h.Version)
			}
			if had && active(h) != active(prev) {
				m.fail("t%d %s changes the ACTIVE blob of node %s outside the finalising batch", ev.Txn, ev.Method, short(lid))
			}
			reserving := !inactive(h).IsNil() && inactive(h) != inactive(prev)
			if had && reserving {
				if m.reservesBy[lid] == nil {
					m.reservesBy[lid] = map[int]bool{}
				}
				m.reservesBy[lid][ev.Txn] = true
				// a reservation may only replace an empty or expired inactive id
				if !inactive(prev).IsNil() && m.writer[lid] != ev.Txn && prev.WorkInProgressTimestamp != 1 && !expired(prev) {
					m.fail("t%d reserves a new inactive id on node %s although t%d's reservation (%s, wip=%d) is still in place", ev.Txn, short(lid), m.writer[lid], short(inactive(prev)), prev.WorkInProgressTimestamp)
				}
			}
			// (a handle whose timestamp is 0 carries no reservation: its inactive id is the leftover of an earlier flip)
			if had && h.IsDeleted && !prev.IsDeleted && !inactive(prev).IsNil() && m.writer[lid] != ev.Txn && prev.WorkInProgressTimestamp > 1 && !expired(prev) {
				m.fail("t%d marks node %s deleted while t%d's update of it is staged", ev.Txn, short(lid), m.writer[lid])
			}
		}
		m.cur[lid] = h
		m.known[lid] = true
		m.writer[lid] = ev.Txn
	}
}

func expired(h sop.Handle) bool {
	return h.WorkInProgressTimestamp > 0 && h.WorkInProgressTimestamp < time.Now().Add(-time.Hour).UnixMilli()
}

// TestC37_NoTwoSuccessors
func TestC37_NoTwoSuccessors(t *testing.T) {
	rec := stats.For("C37").Meta("exploration",
		"2-3 writers updating / removing / adding items that live in the same 1-3 nodes of a pre-seeded store (single-leaf and two-leaf trees, mostly in-place updates so that node versions are the only defence), run under generated schedules that switch at every backend call, biased to interleave Registry.Get / UpdateNoLocks(reserve) / BlobStore.Add / UpdateNoLocks(flip) of different transactions; every registry write of every transaction is recorded (handle images) and validated as a transition of an executable model of the handle protocol: reserve only over an empty or expired inactive id, version and active id change only in the finalising batch, a finalising write must replace the image the SAME transaction reserved (two flips from one base version is the violation), every id that becomes active must name a blob that loads; non-trivial = two transactions reserved (attempted a successor of) the same node; distinct by programs + schedule",
		"the property text asks for model checking; within property-based testing this is implementation-trace validation against a reference model over generated schedules (no exhaustive state space)",
		"crash points / recovery of the protocol are covered by the C08/C09 checks, not here")
	rapid.Check(t, func(t *rapid.T) {
		slot := rapid.SampledFrom([]int{2, 4, 4, 8}).Draw(t, "slot")
		stores := []txh.StoreOpts{{Name: "st0", Slot: slot, Unique: true, Placement: rapid.SampledFrom([]int{0, 0, 1, 3}).Draw(t, "placement")}}
		nSeed := rapid.IntRange(2, 6).Draw(t, "nSeed")
		seed := intsTo(nSeed)
		nw := rapid.IntRange(2, 3).Draw(t, "writers")
		progs := make([]txh.TxnProg, nw)
		tag := 0
		for w := range progs {
			progs[w] = txh.TxnProg{Mode: sop.ForWriting, End: rapid.SampledFrom([]string{"commit", "commit", "commit", "rollback"}).Draw(t, "end")}
			n := rapid.IntRange(1, 3).Draw(t, "nops")
			for j := 0; j < n; j++ {
				tag++
				progs[w].Ops = append(progs[w].Ops, txh.Op{Kind: rapid.SampledFrom([]string{"update", "update", "rmw", "remove", "add", "upsert"}).Draw(t, "kind"),
					K: rapid.IntRange(0, nSeed+1).Draw(t, "key"), Tag: fmt.Sprintf("w%d.%d", w, tag)})
			}
		}
		mode := rapid.IntRange(0, 5).Draw(t, "scheduleMode") // 0 starve; 1,2 directed; else free-form
		var schedule []int
		var directed []txh.Seg
		switch {
		case mode == 0:
			schedule = genStarve(t, nw)
		case mode <= 2:
			directed = genDirected(t, nw)
		default:
			schedule = genSchedule(t, nw)
		}
		// half of the cases: an earlier committed transaction has already UPDATED the nodes (their handles then carry
		// the marks an update leaves behind), the concurrent writers start from those
		preUpdate := rapid.Bool().Draw(t, "preUpdate")
		// a third of the cases: one writer's commit fails at a drawn call of its phase 1 end / phase 2 (the finalising
		// registry write, the priority log, the store info update): its rollback must put back exactly what it replaced
		faultTxn, faultSite := -1, ""
		if rapid.IntRange(0, 2).Draw(t, "withFault") == 0 {
			faultTxn = rapid.IntRange(0, nw-1).Draw(t, "faultTxn")
			faultSite = rapid.SampledFrom([]string{"Registry.UpdateNoLocksFlip", "Registry.UpdateNoLocksFlip", "PLog.Add", "StoreRepository.Update", "BlobStore.Add", "Registry.UpdateNoLocks"}).Draw(t, "faultSite")
		}
		faulted := false
		e, err := txh.NewEnv(rapid.SampledFrom([]int{1, 3}).Draw(t, "hashMod"))
		if err != nil {
			t.Fatalf("%v", err)
		}
		defer e.Cleanup()
		txh.SeedUUIDs(rapid.Uint64().Draw(t, "uuidSeed"))
		if _, err := seedStore(e, stores, [][]int{seed}); err != nil {
			t.Fatalf("HARNESS-ERROR %v", err)
		}
		if preUpdate {
			var ops []txh.Op
			for _, k := range seed {
				ops = append(ops, txh.Op{Kind: "update", K: k, Tag: fmt.Sprintf("pre%d", k)})
			}
			pm := []*txh.Model{{Unique: true}}
			for _, k := range seed {
				pm[0].Add(k, txh.MakeValue(fmt.Sprintf("seed%d", k), 0))
			}
			if _, pr := e.RunTxn(txh.TxnProg{Mode: sop.ForWriting, End: "commit", Ops: ops}, stores, pm, txh.RunOpts{}); pr.OpErr != nil || pr.CommitErr != nil {
				t.Fatalf("HARNESS-ERROR pre-update: %v %v %s", pr.OpErr, pr.CommitErr, pr.Mismatch)
			}
		}
		m := &protoModel{cur: map[sop.UUID]sop.Handle{}, writer: map[sop.UUID]int{}, known: map[sop.UUID]bool{}, dir: e.Dir, reservesBy: map[sop.UUID]map[int]bool{}, pendingAdds: map[int][]sop.Handle{}, pendingTables: map[int][]string{}}
		// start from the registry's current content
		if slots, _, err := txh.ReadRegistryRaw(e.Dir, "st0"); err == nil {
			for _, s := range slots {
				m.cur[s.H.LogicalID] = s.H
				m.known[s.H.LogicalID] = true
				m.writer[s.H.LogicalID] = -1
			}
		}
		e.OnRegistry = m.onEvent
		res, s := e.RunConcurrent(stores, progs, schedule, txh.ConcOpts{GateCommits: knownSnapshot, Strict: mode == 0, Directed: directed, MaxTime: 6 * time.Second, Budget: 60 * time.Second,
			Fault: func(i int, st txh.Site) txh.Action {
				if i == faultTxn && !faulted && st.K == 0 && st.Comp+"."+st.Method == faultSite {
					faulted = true
					return txh.Action{Err: txh.ErrInjected}
				}
				return txh.Action{}
			}})
		e.OnRegistry = nil
		desc := fmt.Sprintf("slot=%d %s seed=%v %s schedule=%s strict=%v directed=[%s] preUpdate=%v fault=p%d@%s(fired=%v)", slot, txh.PlacementNames[stores[0].Placement], seed, renderProgs(progs), renderSchedRLE(schedule), mode == 0, renderSegs(directed), preUpdate, faultTxn, faultSite, faulted)
		if s.TimedOut {
			rec.Discard()
			return
		}
		for i, r := range res {
			if r.Panicked && stats.Known("C04", "merge-pass-mixture-commits-misplaced-key") && s.OthersMutatedRegistryDuringLastMerge(i) && strings.Contains(r.OpErr.Error(), "refetchAndMergeModifications") {
				rec.Exclude("panic inside a refetch-and-merge pass that another writer's commit overlapped (known C04 finding)")
				return
			}
			if r.Panicked {
				t.Fatalf("p%d: %v\n%s", i, r.OpErr, desc)
			}
		}
		if len(m.viol) > 0 {
			tr := m.trace
			if len(tr) > 60 {
				tr = tr[len(tr)-60:]
			}
			t.Fatalf("%s\n registry trace (tail):\n  %s\n%s", strings.Join(m.viol, "\n"), strings.Join(tr, "\n  "), desc)
		}
		// the registry on disk must equal the model's last images
		if slots, bad, err := txh.ReadRegistryRaw(e.Dir, "st0"); err == nil {
			if len(bad) > 0 {
				t.Fatalf("registry blocks with a bad checksum: %v\n%s", bad, desc)
			}
			for _, sl := range slots {
				if want, ok := m.cur[sl.H.LogicalID]; ok && want != sl.H {
					t.Fatalf("registry holds %+v for node %s, the last image written was %+v\n%s", sl.H, short(sl.H.LogicalID), want, desc)
				}
			}
		}
		contended := false
		for _, by := range m.reservesBy {
			if len(by) >= 2 {
				contended = true
			}
		}
		labels := []string{fmt.Sprintf("writers%d", nw)}
		if contended {
			labels = append(labels, "twoTxnsReservedSameNode")
		}
		if m.flips > 0 {
			labels = append(labels, "flips")
		}
		if faulted {
			labels = append(labels, "commitFailedAt:"+faultSite)
		}
		rec.Case(desc, contended || faulted, labels...)
		tr := m.trace
		if len(tr) > 25 {
			tr = tr[:25]
		}
		rec.Sample("trace", map[string]any{"case": desc, "registry_writes": tr})
	})
}
