package conc

import (
	"fmt"
	"testing"
	"time"

	"github.com/sharedcode/sop"

	"verif/harness/stats"
	"verif/harness/txh"
)

// TestC02_Known_InconsistentSnapshot is the shrunk interleaving of the recorded finding: writer p0 has
// started reading the tree, writer p1 (disjoint keys) commits a change that restructures the slot-2
// tree, and p0 goes on with its operations on a mixture of nodes fetched before and after that commit.
func TestC02_Known_InconsistentSnapshot(t *testing.T) {
	e, err := txh.NewEnv(1)
	if err != nil {
		t.Fatalf("%v", err)
	}
	defer e.Cleanup()
	txh.SeedUUIDs(0x1c)
	stores := []txh.StoreOpts{{Name: "st0", Slot: 2, Unique: true, Placement: 3}}
	if _, err := seedStore(e, stores, [][]int{{2, 10, 13, 14, 16, 17}}); err != nil {
		t.Fatalf("HARNESS-ERROR %v", err)
	}
	op := func(kind string, k int, tag string, size int) txh.Op { return txh.Op{Kind: kind, K: k, Tag: tag, Size: size} }
	progs := []txh.TxnProg{
		{Mode: sop.ForWriting, End: "commit", Ops: []txh.Op{op("addIfNotExist", 7, "w0.4", 0), op("addIfNotExist", 12, "w0.7", 10), op("upsert", 3, "w0.9", 10), op("add", 0, "w0.11", 300), op("add", 9, "w0.12", 10), op("rmw", 16, "w0.1", 10)}},
		{Mode: sop.ForWriting, End: "commit", Ops: []txh.Op{op("addIfNotExist", 1, "w1.5", 300), op("upsert", 15, "w1.6", 300), op("addIfNotExist", 11, "w1.8", 0), op("add", 5, "w1.10", 10), op("remove", 14, "", 0), op("rmw", 13, "w1.3", 300)}},
	}
	res, _ := e.RunConcurrent(stores, progs, []int{1, 1, 0, 0, 1}, txh.ConcOpts{MaxTime: 15 * time.Second})
	bad := ""
	for i, r := range res {
		if r.Panicked {
			bad = fmt.Sprintf("p%d panicked inside SOP: %v", i, r.OpErr)
		} else if r.OpErr != nil {
			bad = fmt.Sprintf("p%d: %v", i, r.OpErr)
		} else if !r.Committed {
			bad = fmt.Sprintf("p%d did not commit: %v", i, r.CommitErr)
		}
		for _, o := range r.Obs {
			if !o.OK && bad == "" {
				bad = fmt.Sprintf("p%d: %s reported false for a key nobody else touches", i, o.Op)
			}
		}
	}
	if bad == "" {
		return
	}
	what := "a transaction's operations are not isolated from structural changes other transactions commit meanwhile: nodes it fetched before such a commit are combined with nodes fetched after it, and Add/Update/Remove/Find then report 'not found' for existing keys or panic (index out of range in btree promote) instead of being refused at commit: " + bad
	if stats.Known("C02", "inconsistent-snapshot-while-others-commit") {
		stats.For("C02").KnownFinding(what)
		return
	}
	t.Fatalf("%s", what)
}
