package conc

import (
	"fmt"
	"testing"
	"time"

	"github.com/sharedcode/sop"

	"verif/harness/stats"
	"verif/harness/txh"
)

// TestC02_Known_InconsistentSnapshot is the shrunk interleaving of the recorded finding: writer p0 has
// started reading the tree, writer p1 (disjoint keys) commits a change that restructures the slot-2
// tree, and p0 goes on with its operations on a mixture of nodes fetched before and after that commit.
func TestC02_Known_InconsistentSnapshot(t *testing.T) {
	e, err := txh.NewEnv(1)
	if err != nil {
		t.Fatalf("%v", err)
	}
	defer e.Cleanup()
	txh.SeedUUIDs(0x1c)
	stores := []txh.StoreOpts{{Name: "st0", Slot: 2, Unique: true, Placement: 3}}
	if _, err := seedStore(e, stores, [][]int{{2, 10, 13, 14, 16, 17}}); err != nil {
		t.Fatalf("HARNESS-ERROR %v", err)
	}
	op := func(kind string, k int, tag string, size int) txh.Op {
		return txh.Op{Kind: kind, K: k, Tag: tag, Size: size}
	}
	progs := []txh.TxnProg{
		{Mode: sop.ForWriting, End: "commit", Ops: []txh.Op{op("addIfNotExist", 7, "w0.4", 0), op("addIfNotExist", 12, "w0.7", 10), op("upsert", 3, "w0.9", 10), op("add", 0, "w0.11", 300), op("add", 9, "w0.12", 10), op("rmw", 16, "w0.1", 10)}},
		{Mode: sop.ForWriting, End: "commit", Ops: []txh.Op{op("addIfNotExist", 1, "w1.5", 300), op("upsert", 15, "w1.6", 300), op("addIfNotExist", 11, "w1.8", 0), op("add", 5, "w1.10", 10), op("remove", 14, "", 0), op("rmw", 13, "w1.3", 300)}},
	}
	res, _ := e.RunConcurrent(stores, progs, []int{1, 1, 0, 0, 1}, txh.ConcOpts{MaxTime: 15 * time.Second})
	bad := ""
	for i, r := range res {
		if r.Panicked {
			bad = fmt.Sprintf("p%d panicked inside SOP: %v", i, r.OpErr)
		} else if r.OpErr != nil {
			bad = fmt.Sprintf("p%d: %v", i, r.OpErr)
		} else if !r.Committed {
			bad = fmt.Sprintf("p%d did not commit: %v", i, r.CommitErr)
		}
		for _, o := range r.Obs {
			if !o.OK && bad == "" {
				bad = fmt.Sprintf("p%d: %s reported false for a key nobody else touches", i, o.Op)
			}
		}
	}
	if bad == "" {
		return
	}
	what := "a transaction's operations are not isolated from structural changes other transactions commit meanwhile: nodes it fetched before such a commit are combined with nodes fetched after it, and Add/Update/Remove/Find then report 'not found' for existing keys or panic (index out of range in btree promote) instead of being refused at commit: " + bad
	if stats.Known("C02", "inconsistent-snapshot-while-others-commit") {
		stats.For("C02").KnownFinding(what)
		return
	}
	t.Fatalf("%s", what)
}

// TestC04_Known_MergePassMixture: the same finding inside a commit's refetch-and-merge pass. Writer 2's
// commit is refused (writer 0 committed first), its merge pass re-reads the tree node by node, writer 1
// commits a structural change in the middle of that pass, and writer 2 places its key in a leaf it
// reached through the old root: all three commits succeed and the store scans out of key order.
func TestC04_Known_MergePassMixture(t *testing.T) {
	op := func(kind string, k int, tag string, size int) txh.Op {
		return txh.Op{Kind: kind, K: k, Tag: tag, Size: size}
	}
	for gap := 10; gap <= 30; gap++ {
		e, err := txh.NewEnv(16)
		if err != nil {
			t.Fatalf("%v", err)
		}
		txh.SeedUUIDs(1)
		stores := []txh.StoreOpts{{Name: "st0", Slot: 2, Unique: true, Placement: 3, Balancing: true}}
		models, err := seedStore(e, stores, [][]int{{0}})
		if err != nil {
			t.Fatalf("HARNESS-ERROR %v", err)
		}
		progs := []txh.TxnProg{
			{Mode: sop.ForWriting, End: "commit", Ops: []txh.Op{op("add", 12, "w0.2", 10), op("add", 16, "w0.4", 10), op("add", 19, "w0.5", 10), op("upsert", 6, "w0.7", 0), op("add", 7, "w0.9", 10), op("add", 4, "w0.10", 300)}},
			{Mode: sop.ForWriting, End: "commit", Ops: []txh.Op{op("add", 1, "w1.1", 0), op("add", 9, "w1.3", 10), op("upsert", 18, "w1.6", 10)}},
			{Mode: sop.ForWriting, End: "commit", Ops: []txh.Op{op("add", 8, "w2.8", 10), op("add", 17, "w2.11", 0)}},
		}
		var sched []int
		rep := func(who, k int) {
			for j := 0; j < k; j++ {
				sched = append(sched, who)
			}
		}
		rep(2, 6)
		rep(0, 400)
		rep(2, gap)
		rep(1, 400)
		res, s := e.RunConcurrent(stores, progs, sched, txh.ConcOpts{Strict: true, MaxTime: 15 * time.Second})
		want := models[0].Clone()
		all := !s.TimedOut
		for _, r := range res {
			if !r.Committed {
				all = false
			}
			for _, o := range r.Obs {
				want.Add(o.Op.K, o.Wrote)
			}
		}
		bad := ""
		if all && s.OthersMutatedRegistryDuringLastMerge(2) {
			d, err := e.Dump(stores, sop.ForReading)
			if err != nil {
				bad = "reader: " + err.Error()
			} else if why := txh.CheckDump(d, stores, []*txh.Model{want}); why != "" {
				bad = why
			}
		}
		e.Cleanup()
		if bad == "" {
			continue
		}
		what := "the same inside a commit: a refused commit re-reads the tree node by node in its refetch-and-merge pass; when another writer commits a structural change in the middle of that pass, the replayed Add lands in a leaf reached through the old root, only that leaf is version-checked, all commits succeed and the store is corrupt: three writers adding disjoint keys (slot length 2), afterwards " + bad
		if stats.Known("C04", "merge-pass-mixture-commits-misplaced-key") {
			stats.For("C04").KnownFinding(what)
			return
		}
		t.Fatalf("%s", what)
	}
}
