package conc

import (
	"fmt"
	"os"
	"sort"
	"strings"
	"testing"
	"time"

	"github.com/sharedcode/sop"
	"pgregory.net/rapid"

	"verif/harness/stats"
	"verif/harness/txh"
)

// seedStore commits the seed items in one transaction and returns the model.
func seedStore(e *txh.Env, stores []txh.StoreOpts, seedKeys [][]int) ([]*txh.Model, error) {
	if err := e.Setup(stores); err != nil {
		return nil, err
	}
	models := make([]*txh.Model, len(stores))
	var ops []txh.Op
	for i, s := range stores {
		models[i] = &txh.Model{Unique: s.Unique}
		for _, k := range seedKeys[i] {
			ops = append(ops, txh.Op{S: i, Kind: "add", K: k, Tag: fmt.Sprintf("seed%d", k)})
		}
	}
	var res txh.TxnResult
	models, res = e.RunTxn(txh.TxnProg{Mode: sop.ForWriting, End: "commit", Ops: ops}, stores, models, txh.RunOpts{})
	if res.OpErr != nil || res.Mismatch != "" || res.CommitErr != nil {
		return nil, fmt.Errorf("seed transaction: %v %s %v", res.OpErr, res.Mismatch, res.CommitErr)
	}
	return models, nil
}

func genSchedule(t *rapid.T, n int) []int {
	// PCT-style: half the cases have only a few forced preemptions and otherwise run to completion
	if rapid.Bool().Draw(t, "fewPreemptions") {
		d := rapid.IntRange(1, 3).Draw(t, "preemptions")
		var s []int
		for i := 0; i < d; i++ {
			run := rapid.IntRange(0, 40).Draw(t, fmt.Sprintf("runLen%d", i))
			who := rapid.IntRange(0, n-1).Draw(t, fmt.Sprintf("who%d", i))
			for j := 0; j < run; j++ {
				s = append(s, who)
			}
		}
		return s
	}
	return rapid.SliceOfN(rapid.IntRange(0, n-1), 0, 120).Draw(t, "schedule")
}

// genStarve: a directed (strict) schedule. A victim runs `lead` steps, then every other participant in
// turn runs to completion, the victim getting a drawn number of steps after each: the victim's commit is
// beaten again and again, so it goes through several refetch-and-merge passes.
func genStarve(t *rapid.T, n int) []int {
	v := rapid.IntRange(0, n-1).Draw(t, "victim")
	var others []int
	for i := 0; i < n; i++ {
		if i != v {
			others = append(others, i)
		}
	}
	var s []int
	rep := func(who, k int) {
		for j := 0; j < k; j++ {
			s = append(s, who)
		}
	}
	rep(v, rapid.IntRange(0, 60).Draw(t, "lead"))
	for i, o := range rapid.Permutation(others).Draw(t, "order") {
		// let the other one do its operations first (it stops being scheduled once it is finished)
		rep(o, 400)
		rep(v, rapid.IntRange(0, 80).Draw(t, fmt.Sprintf("gap%d", i)))
	}
	return s
}

var segMarkers = []string{"", "Commit.begin", "StoreRepository.GetWithTTL", "L2.Lock", "L2.DualLock", "Registry.Get", "Registry.UpdateNoLocks#", "Registry.UpdateNoLocksFlip", "StoreRepository.Update", "PLog.Add", "BlobStore.Add"}

// genDirected draws a directed schedule (see txh.Seg): either the "beaten twice" template - a victim does its
// operations, another writer commits, the victim runs up to (or a few calls past) the end of its first
// refetch-and-merge pass, a third writer commits, the victim goes on - or a random list of segments.
func genDirected(t *rapid.T, n int) []txh.Seg {
	var segs []txh.Seg
	if n >= 3 && rapid.Bool().Draw(t, "beatenTwice") {
		order := rapid.Permutation(intsTo(n)).Draw(t, "order")
		v, b, c := order[0], order[1], order[2]
		segs = append(segs, txh.Seg{P: v, Until: "Commit.begin"})
		if rapid.Bool().Draw(t, "othersOpsFirst") || knownSnapshot {
			// (while the snapshot finding is listed nobody starts operations during a Commit: the second beater has to
			// have done its operations before the victim's first try)
			segs = append(segs, txh.Seg{P: c, Until: "Commit.begin"})
		}
		segs = append(segs, txh.Seg{P: b})
		segs = append(segs, txh.Seg{P: v, Until: "StoreRepository.GetWithTTL"})
		segs = append(segs, txh.Seg{P: v, Until: rapid.SampledFrom([]string{"L2.Lock", "L2.Lock", "L2.DualLock", "Registry.Get", "TLog.Add", "TLog.Add"}).Draw(t, "stopAt")})
		if k := rapid.IntRange(0, 6).Draw(t, "extra"); k > 0 {
			segs = append(segs, txh.Seg{P: v, N: k})
		}
		segs = append(segs, txh.Seg{P: c})
		return segs
	}
	if rapid.IntRange(0, 3).Draw(t, "lockstepPhases") == 0 {
		// everybody does its operations, then everybody runs its phase 1 (up to the finalising registry write, or to
		// the end for those that have none), then the finalising writes happen in a drawn order
		order := rapid.Permutation(intsTo(n)).Draw(t, "order")
		for _, p := range order {
			segs = append(segs, txh.Seg{P: p, Until: "Commit.begin"})
		}
		for _, p := range rapid.Permutation(intsTo(n)).Draw(t, "phase1Order") {
			segs = append(segs, txh.Seg{P: p, Until: "Registry.UpdateNoLocksFlip"})
		}
		for _, p := range rapid.Permutation(intsTo(n)).Draw(t, "phase2Order") {
			segs = append(segs, txh.Seg{P: p})
		}
		return segs
	}
	k := rapid.IntRange(2, 8).Draw(t, "segments")
	for i := 0; i < k; i++ {
		g := txh.Seg{P: rapid.IntRange(0, n-1).Draw(t, fmt.Sprintf("seg%d.p", i)), Until: rapid.SampledFrom(segMarkers).Draw(t, fmt.Sprintf("seg%d.until", i))}
		if rapid.IntRange(0, 2).Draw(t, fmt.Sprintf("seg%d.bounded", i)) == 0 {
			g.N = rapid.IntRange(1, 30).Draw(t, fmt.Sprintf("seg%d.n", i))
		}
		segs = append(segs, g)
	}
	return segs
}

func renderSegs(g []txh.Seg) string {
	var out []string
	for _, x := range g {
		out = append(out, x.String())
	}
	return strings.Join(out, " ")
}

func renderSched(s []int) string {
	var sb strings.Builder
	for _, x := range s {
		fmt.Fprintf(&sb, "%d", x)
	}
	return sb.String()
}

// renderSchedRLE renders a schedule run-length encoded ("0x12 1x400 0x7").
func renderSchedRLE(s []int) string {
	var sb strings.Builder
	for i := 0; i < len(s); {
		j := i
		for j < len(s) && s[j] == s[i] {
			j++
		}
		if j-i > 3 {
			fmt.Fprintf(&sb, " %dx%d ", s[i], j-i)
		} else {
			for k := i; k < j; k++ {
				fmt.Fprintf(&sb, "%d", s[i])
			}
		}
		i = j
	}
	return strings.TrimSpace(sb.String())
}

func renderProgs(p []txh.TxnProg) string {
	var out []string
	for i, x := range p {
		out = append(out, fmt.Sprintf("p%d:%s", i, x))
	}
	return strings.Join(out, " || ")
}

// TestC04_DisjointWritersBothCommit
func TestC04_DisjointWritersBothCommit(t *testing.T) { disjointWriters(t, "C04") }

// TestC06_ConcurrentWriters: the same generated cases judged for C06: whatever the writers' commits returned,
// Count() equals the number of items a scan returns.
func TestC06_ConcurrentWriters(t *testing.T) { disjointWriters(t, "C06") }

// TestC10_ConcurrentWriters: the same generated cases judged for C10: whatever the writers' commits returned,
// everything the committed state references afterwards loads (fresh reader and independent disk walk).
func TestC10_ConcurrentWriters(t *testing.T) { disjointWriters(t, "C10") }

func disjointWriters(t *testing.T, prop string) {
	if prop == "C10" {
		stats.For("C10").Meta("exploration",
			"(concurrent part) 2-3 writer transactions with disjoint keys on one pre-seeded store (some seeded items rewritten by an earlier commit), adds/updates/removes/key-only updates, all value placements, generated free-form, starvation and directed schedules (commits beaten once or twice, refetch-and-merge passes); oracle: after all of them ended - committed or not - a fresh reader loads every item's value and an independent walk of the disk finds every registry entry, node blob and required value blob reachable from the root; non-trivial = some writer went through refetch-and-merge",
			"standalone mode, in-process transactions")
	}
	if prop == "C06" {
		stats.For("C06").Meta("exploration",
			"(concurrent part) 2-3 writer transactions with disjoint keys on one pre-seeded store, adds/updates/removes, all value placements, generated free-form, starvation and directed schedules (commits beaten once or twice: refetch-and-merge passes re-apply the count delta); oracle: after all of them ended - committed or not - a fresh reader's Count() equals the number of items its scan returns; non-trivial = some writer went through refetch-and-merge",
			"standalone mode, in-process transactions")
	}
	rec := stats.For(prop)
	if prop == "C04" {
		rec.Meta("exploration",
			"2-3 writer transactions on one pre-seeded unique store with pairwise DISJOINT key sets (adds of new keys, updates and removes of distinct seeded keys), drawn so that they land in different leaves, the same leaf, overflow the same leaf (both split it) or empty it; slot length 2-8; the transactions run one at a time under a generated schedule that can switch at every backend call of the transaction manager (PCT-style few-preemption schedules and dense ones); maxTime 15 s; oracle: every Commit returns nil and the final fresh-reader dump equals the seed plus the union of the changes, Count included; non-trivial = some writer went through refetch-and-merge or was refused a node lock; distinct by programs + schedule",
			"README: concurrent first commits into an empty store are unsupported, so the store is pre-seeded in a separate transaction", "in-process transactions sharing the in-memory L2 cache (standalone mode)")
	}
	knownStale := stats.Known("C04", "tracked-item-pointer-stale-after-slot-shift")
	knownMixture := stats.Known("C04", "merge-pass-mixture-commits-misplaced-key")
	rapid.Check(t, func(t *rapid.T) {
		slot := rapid.SampledFrom([]int{2, 2, 4, 4, 6, 8}).Draw(t, "slot")
		placement := rapid.SampledFrom([]int{0, 0, 1, 2, 3, 4}).Draw(t, "placement")
		stores := []txh.StoreOpts{{Name: "st0", Slot: slot, Unique: true, Placement: placement, Balancing: rapid.IntRange(0, 4).Draw(t, "bal") == 0}}
		nw := rapid.IntRange(2, 3).Draw(t, "writers")
		domain := rapid.IntRange(6, 24).Draw(t, "domain")
		// partition the key domain: seeded keys, and per-writer private keys
		nSeed := rapid.IntRange(1, domain-2).Draw(t, "nSeed")
		perm := rapid.Permutation(intsTo(domain)).Draw(t, "perm")
		seed := append([]int{}, perm[:nSeed]...)
		sort.Ints(seed)
		owner := map[int]int{}
		for i, k := range perm {
			owner[k] = rapid.IntRange(0, nw-1).Draw(t, fmt.Sprintf("owner%d", i))
		}
		seeded := map[int]bool{}
		for _, k := range seed {
			seeded[k] = true
		}
		progs := make([]txh.TxnProg, nw)
		tag := 0
		for w := 0; w < nw; w++ {
			progs[w] = txh.TxnProg{Mode: sop.ForWriting, End: "commit"}
		}
		for _, k := range perm {
			w := owner[k]
			if len(progs[w].Ops) >= 6 || rapid.IntRange(0, 2).Draw(t, fmt.Sprintf("use%d", k)) == 0 {
				continue
			}
			tag++
			op := txh.Op{K: k, Tag: fmt.Sprintf("w%d.%d", w, tag), Size: rapid.SampledFrom([]int{0, 10, 300}).Draw(t, "size")}
			if seeded[k] {
				op.Kind = rapid.SampledFrom([]string{"update", "rmw", "remove", "get", "updateKey"}).Draw(t, "kindSeeded")
			} else {
				op.Kind = rapid.SampledFrom([]string{"add", "add", "upsert", "addIfNotExist"}).Draw(t, "kindNew")
			}
			progs[w].Ops = append(progs[w].Ops, op)
		}
		for w := 0; w < nw; w++ {
			if len(progs[w].Ops) == 0 {
				t.Skip("a writer without operations")
			}
			if knownStale {
				if reorderForKnownStalePointer(&progs[w]) {
					rec.Exclude("program reordered so that no add/remove follows a read/update of an existing item (known finding: stale tracked item pointer)")
				}
			}
		}
		mode := rapid.IntRange(0, 5).Draw(t, "scheduleMode") // 0,1 starve; 2,3 directed; else free-form
		strict := mode <= 1
		var schedule []int
		var directed []txh.Seg
		switch {
		case strict:
			schedule = genStarve(t, nw)
		case mode <= 3:
			directed = genDirected(t, nw)
		default:
			schedule = genSchedule(t, nw)
		}
		coldFinal := rapid.Bool().Draw(t, "coldFinalReader")
		uuidSeed := rapid.Uint64().Draw(t, "uuidSeed")
		hashMod := rapid.SampledFrom([]int{1, 3, 16}).Draw(t, "hashMod")

		e, err := txh.NewEnv(hashMod)
		if err != nil {
			t.Fatalf("%v", err)
		}
		defer e.Cleanup()
		txh.SeedUUIDs(uuidSeed)
		models, err := seedStore(e, stores, [][]int{seed})
		if err != nil {
			t.Fatalf("HARNESS-ERROR %v", err)
		}
		// optionally a second committed transaction rewrites some seeded items first (their values then live in
		// blobs of their own on out-of-node stores, the node slot only carries the value id)
		preUpdated := false
		if rapid.Bool().Draw(t, "preUpdate") {
			var ops []txh.Op
			for _, k := range seed {
				if rapid.Bool().Draw(t, fmt.Sprintf("pre%d", k)) {
					ops = append(ops, txh.Op{Kind: "update", K: k, Tag: fmt.Sprintf("pre%d", k), Size: 10})
				}
			}
			if len(ops) > 0 {
				var pr txh.TxnResult
				models, pr = e.RunTxn(txh.TxnProg{Mode: sop.ForWriting, End: "commit", Ops: ops}, stores, models, txh.RunOpts{})
				if pr.OpErr != nil || pr.Mismatch != "" || pr.CommitErr != nil {
					t.Fatalf("HARNESS-ERROR pre-update transaction: %v %s %v", pr.OpErr, pr.Mismatch, pr.CommitErr)
				}
				preUpdated = true
			}
		}
		res, s := e.RunConcurrent(stores, progs, schedule, txh.ConcOpts{GateCommits: knownSnapshot, Strict: strict, Directed: directed, MaxTime: 15 * time.Second, Budget: 90 * time.Second})
		if coldFinal {
			e.EvictNodeCaches()
		}
		desc := fmt.Sprintf("slot=%d %s seed=%v %s strict=%v schedule=%s directed=[%s]", slot, txh.PlacementNames[placement], seed, renderProgs(progs), strict, renderSchedRLE(schedule), renderSegs(directed))
		if s.TimedOut {
			rec.Discard()
			return
		}
		if s.Gated > 0 {
			rec.Exclude("a commit was held back until no other transaction was in the middle of its operations (known finding: inconsistent snapshot while others commit)")
		}
		if prop == "C06" {
			anyMerge, overlapped := false, false
			for i, r := range res {
				if mergePasses(r) > 0 {
					anyMerge = true
				}
				if s.OthersMutatedRegistryDuringLastMerge(i) {
					overlapped = true
				}
			}
			d, err := e.Dump(stores, sop.ForReading)
			bad := ""
			if err != nil {
				bad = "a fresh reader cannot load the store: " + err.Error()
			} else if d[0].Count != int64(len(d[0].Items)) {
				bad = fmt.Sprintf("Count()=%d but the scan returns %d items", d[0].Count, len(d[0].Items))
			}
			if bad != "" && overlapped && knownMixture {
				rec.Exclude("another writer's commit wrote the registry in the middle of a writer's last refetch-and-merge pass (known C04 finding: merge pass navigates a mixture of old and new nodes)")
				return
			}
			if bad != "" {
				t.Fatalf("after the writers ended: %s\n%s", bad, desc)
			}
			rec.Case("conc "+desc, anyMerge, "concurrentWriters", txh.PlacementNames[placement])
			return
		}
		if prop == "C10" {
			anyMerge, overlapped := false, false
			for i, r := range res {
				if mergePasses(r) > 0 {
					anyMerge = true
				}
				if s.OthersMutatedRegistryDuringLastMerge(i) {
					overlapped = true
				}
			}
			bad := ""
			if _, err := e.Dump(stores, sop.ForReading); err != nil {
				bad = "a fresh reader cannot load the store: " + err.Error()
			} else if p := txh.ReadDisk(e.Dir).AllProblems(); len(p) > 0 {
				bad = strings.Join(p, "; ")
			}
			if bad != "" && overlapped && knownMixture {
				rec.Exclude("another writer's commit wrote the registry in the middle of a writer's last refetch-and-merge pass (known C04 finding: merge pass navigates a mixture of old and new nodes)")
				return
			}
			if bad != "" {
				t.Fatalf("after the writers ended: %s\n%s", bad, desc)
			}
			labels := []string{"concurrentWriters", txh.PlacementNames[placement]}
			if preUpdated {
				labels = append(labels, "someSeededItemsRewrittenBefore")
			}
			rec.Case("conc "+desc, anyMerge, labels...)
			return
		}
		want := models[0].Clone()
		merged, refused, missed, mergedTwice := false, false, false, false
		for i, r := range res {
			if r.Panicked && knownMixture && s.OthersMutatedRegistryDuringLastMerge(i) && strings.Contains(r.OpErr.Error(), "refetchAndMergeModifications") {
				// the same finding's other symptom: the B-tree code panics (index out of range in promote) while the
				// merge pass replays an add on a mixture of old and new nodes
				rec.Exclude("panic inside a refetch-and-merge pass that another writer's commit overlapped (known finding: merge pass navigates a mixture of old and new nodes)")
				return
			}
			if r.OpErr != nil {
				t.Fatalf("writer p%d: operation failed: %v\n%s", i, r.OpErr, desc)
			}
			if !r.Committed && knownStale && r.CommitErr != nil && strings.Contains(r.CommitErr.Error(), "refetchAndMergeModifications failed to find item with key") && mergePasses(r) >= 2 && mixesShiftsAndPointers(progs[i]) {
				// second refetch-and-merge pass: the first pass re-tracked the reads/updates with pointers into the refetched
				// node and then replayed the adds/removes (map order), shifting those slots - the recorded finding again
				rec.Exclude("a writer mixing adds/removes with reads/updates failed in its second refetch-and-merge pass (known finding: stale tracked item pointer)")
				return
			}
			if !r.Committed && knownMixture && r.CommitErr != nil && strings.Contains(r.CommitErr.Error(), "refetchAndMergeModifications failed to") && s.OthersMutatedRegistryDuringLastMerge(i) {
				// the refetch-and-merge pass re-reads the tree node by node; another writer's commit changed the registry
				// in the middle of it, so the pass navigated a mixture of old and new nodes and missed an existing item
				rec.Exclude("another writer's commit wrote the registry in the middle of this writer's refetch-and-merge pass (known finding: merge pass navigates a mixture of old and new nodes)")
				return
			}
			if !r.Committed {
				t.Fatalf("writer p%d with keys disjoint from the others did not commit (merge passes %d): %v\n%s", i, mergePasses(r), r.CommitErr, desc)
			}
			for _, o := range r.Obs {
				switch o.Op.Kind {
				case "add", "upsert", "addIfNotExist":
					if !o.OK {
						t.Fatalf("writer p%d: %s of a key nobody else touches returned false\n%s", i, o.Op, desc)
					}
					want.Add(o.Op.K, o.Wrote)
				case "update", "rmw":
					if !o.OK {
						// "not found" for an existing key while other writers restructure the tree: the call told its
						// caller that nothing was changed, so nothing is expected of it here (see DESIGN, C02/C04:
						// misses are outside the asserted claim); counted.
						missed = true
						continue
					}
					want.SetUnique(o.Op.K, o.Wrote)
				case "remove":
					if !o.OK {
						missed = true
						continue
					}
					want.RemoveUnique(o.Op.K)
				case "get":
					if !o.OK {
						missed = true
						continue
					}
					if vs := models[0].Values(o.Op.K); len(vs) != 1 || o.Read != vs[0] {
						t.Fatalf("writer p%d: %s read %q, want the committed value %v\n%s", i, o.Op, txh.Short(o.Read), vs, desc)
					}
				case "updateKey":
					if !o.OK {
						missed = true
					}
				}
			}
			passes := 0
			for _, c := range r.Trace {
				if c.Comp == "StoreRepository" && c.Method == "GetWithTTL" {
					merged = true
					passes++
				}
			}
			if passes >= 2 {
				mergedTwice = true
			}
		}
		for i := range res {
			n := 0
			for _, c := range res[i].Trace {
				if c.Comp == "L2" && c.Method == "Lock" {
					n++
				}
			}
			if n > 1 {
				refused = true
			}
		}
		d, err := e.Dump(stores, sop.ForReading)
		if err != nil {
			t.Fatalf("fresh reader after all writers committed: %v\n%s", err, desc)
		}
		if why := txh.CheckDump(d, stores, []*txh.Model{want}); why != "" && knownMixture {
			for i := range res {
				if s.OthersMutatedRegistryDuringLastMerge(i) {
					rec.Exclude("another writer's commit wrote the registry in the middle of a writer's last refetch-and-merge pass and the committed store is wrong (known finding: merge pass navigates a mixture of old and new nodes)")
					return
				}
			}
		}
		if why := txh.CheckDump(d, stores, []*txh.Model{want}); why != "" {
			info := ""
			for i := range res {
				info += fmt.Sprintf(" p%d: merge passes %d, registry written by others during its last pass: %v;", i, mergePasses(res[i]), s.OthersMutatedRegistryDuringLastMerge(i))
			}
			if os.Getenv("VERIF_DEBUG") != "" {
				for _, st := range s.Timeline {
					fmt.Printf("TL p%d %s\n", st.P, st.Site)
				}
			}
			t.Fatalf("all writers committed but %s\n%s\n%s", why, desc, info)
		}
		labels := []string{fmt.Sprintf("writers%d", nw), fmt.Sprintf("slot%d", slot), txh.PlacementNames[placement]}
		if merged {
			labels = append(labels, "refetchAndMerge")
		}
		if mergedTwice {
			labels = append(labels, "mergedTwiceOrMore")
		}
		if strict {
			labels = append(labels, "starvationSchedule")
		}
		if len(directed) > 0 {
			labels = append(labels, "directedSchedule")
		}
		if preUpdated {
			labels = append(labels, "someSeededItemsRewrittenBefore")
		}
		if refused {
			labels = append(labels, "nodeLockRetried")
		}
		if s.Switches > 0 {
			labels = append(labels, "contextSwitches")
		}
		if missed {
			labels = append(labels, "existingKeyReportedNotFoundUnderConcurrency")
		}
		rec.Case(desc, merged || refused, labels...)
		rec.Sample("case", map[string]any{"case": desc, "switches": s.Switches, "yields": s.Yields})
	})
}

func mergePasses(r txh.CResult) int {
	n := 0
	for _, c := range r.Trace {
		if c.Comp == "StoreRepository" && c.Method == "GetWithTTL" {
			n++
		}
	}
	return n
}

func mixesShiftsAndPointers(p txh.TxnProg) bool {
	shifts, pointers := false, false
	for _, o := range p.Ops {
		switch o.Kind {
		case "add", "addIfNotExist", "upsert", "remove":
			shifts = true
		default:
			pointers = true
		}
	}
	return shifts && pointers
}

func intsTo(n int) []int {
	r := make([]int, n)
	for i := range r {
		r[i] = i
	}
	return r
}

// reorderForKnownStalePointer puts adds first, then removes, then reads/updates of existing items, so
// that the slot a tracked item pointer refers to is never shifted afterwards. Keys inside one program
// are distinct, so the order does not change what the program does. Reports whether anything moved.
func reorderForKnownStalePointer(p *txh.TxnProg) bool {
	rank := func(k string) int {
		switch k {
		case "add", "addIfNotExist", "upsert": // in this generator upsert is only drawn for new keys
			return 0
		case "remove":
			return 1
		}
		return 2
	}
	moved := false
	ops := append([]txh.Op{}, p.Ops...)
	sort.SliceStable(ops, func(i, j int) bool { return rank(ops[i].Kind) < rank(ops[j].Kind) })
	for i := range ops {
		if ops[i] != p.Ops[i] {
			moved = true
		}
	}
	p.Ops = ops
	return moved
}

// TestC04_Known_StaleTrackedPointer: minimal, schedule-free reproduction of the recorded finding: a
// writer reads an existing item, then adds smaller keys that shift the item's slot, and its first
// node-lock attempt is refused (as under contention), so the commit refetches and merges.
func TestC04_Known_StaleTrackedPointer(t *testing.T) {
	e, err := txh.NewEnv(3)
	if err != nil {
		t.Fatalf("%v", err)
	}
	defer e.Cleanup()
	txh.SeedUUIDs(7)
	stores := []txh.StoreOpts{{Name: "st0", Slot: 6, Unique: true, Placement: 0}}
	models, err := seedStore(e, stores, [][]int{{17}})
	if err != nil {
		t.Fatalf("HARNESS-ERROR %v", err)
	}
	prog := txh.TxnProg{Mode: sop.ForWriting, End: "commit", Ops: []txh.Op{{Kind: "findGet", K: 17}, {Kind: "add", K: 10, Tag: "a"}, {Kind: "add", K: 11, Tag: "b"}}}
	_, res := e.RunTxn(prog, stores, models, txh.RunOpts{BeforeCommit: func(tx *txh.Txn) {
		first := true
		tx.SetHook(func(s txh.Site) txh.Action {
			if !s.After && s.Comp == "L2" && s.Method == "Lock" && first {
				first = false
				return txh.Action{False: true}
			}
			return txh.Action{}
		})
	}})
	if res.CommitErr == nil && res.Mismatch == "" && res.OpErr == nil {
		return
	}
	what := fmt.Sprintf("the item tracker keeps pointers into a node's slot array: a writer that reads key 17 and then adds keys 10 and 11 to the same node shifts that slot; when its commit has to refetch and merge (node lock refused once) the replay looks the read item up under the wrong key and the commit fails: %v", res.CommitErr)
	if stats.Known("C04", "tracked-item-pointer-stale-after-slot-shift") {
		stats.For("C04").KnownFinding(what)
		return
	}
	t.Fatalf("%s", what)
}

// TestC04_Regress_SecondMergePass: three writers update different items of one leaf; writer 0 is beaten
// by writer 1 and then by writer 2, so its commit goes through refetch-and-merge twice. On the pinned
// tree the second pass looked the item up under the new value ID the first pass had given it and the
// commit failed with "failed to find item" (separate-segment and actively persisted stores); and a
// writer that only ADDS lost its items when it needed a second pass (see known_findings.json, fixed).
func TestC04_Regress_SecondMergePass(t *testing.T) {
	twice := 0
	for _, placement := range []int{0, 1, 3} {
		for _, kind := range []string{"update", "add"} {
			for gap := 0; gap <= 160; gap += 4 {
				lead := 3 + 5*(gap/84)
				gap := gap % 84
				e, err := txh.NewEnv(1)
				if err != nil {
					t.Fatalf("HARNESS-ERROR %v", err)
				}
				txh.SeedUUIDs(uint64(1000 + gap))
				stores := []txh.StoreOpts{{Name: "st0", Slot: 8, Unique: true, Placement: placement}}
				models, err := seedStore(e, stores, [][]int{{10, 20, 30, 40}})
				if err != nil {
					t.Fatalf("HARNESS-ERROR %v", err)
				}
				var progs []txh.TxnProg
				for w := 0; w < 3; w++ {
					op := txh.Op{Kind: "update", K: 10 * (w + 1), Tag: fmt.Sprintf("w%d", w), Size: 10}
					if kind == "add" {
						op = txh.Op{Kind: "add", K: 100 + w, Tag: fmt.Sprintf("w%d", w), Size: 10}
					}
					progs = append(progs, txh.TxnProg{Mode: sop.ForWriting, End: "commit", Ops: []txh.Op{op}})
				}
				var sched []int
				rep := func(who, k int) {
					for j := 0; j < k; j++ {
						sched = append(sched, who)
					}
				}
				rep(0, lead)
				rep(1, 400)
				rep(0, gap)
				rep(2, 400)
				res, s := e.RunConcurrent(stores, progs, sched, txh.ConcOpts{Strict: true, MaxTime: 15 * time.Second, Budget: 60 * time.Second})
				if s.TimedOut {
					e.Cleanup()
					continue
				}
				want := models[0].Clone()
				for i, r := range res {
					if !r.Committed {
						t.Fatalf("placement %s, %s, gap %d: writer %d (merge passes %d) did not commit: %v", txh.PlacementNames[placement], kind, gap, i, mergePasses(r), r.CommitErr)
					}
					for _, o := range r.Obs {
						if kind == "add" {
							want.Add(o.Op.K, o.Wrote)
						} else {
							want.SetUnique(o.Op.K, o.Wrote)
						}
					}
					if mergePasses(r) >= 2 {
						twice++
					}
				}
				d, err := e.Dump(stores, sop.ForReading)
				if err != nil {
					t.Fatalf("placement %s, %s, gap %d: reader: %v", txh.PlacementNames[placement], kind, gap, err)
				}
				if why := txh.CheckDump(d, stores, []*txh.Model{want}); why != "" {
					t.Fatalf("placement %s, %s, gap %d: all writers committed but %s", txh.PlacementNames[placement], kind, gap, why)
				}
				e.Cleanup()
			}
		}
	}
	if twice == 0 {
		t.Fatalf("HARNESS-ERROR no writer went through two merge passes")
	}
	t.Logf("writers with >= 2 merge passes: %d", twice)
}

// TestC04_Regress_BeatenTwiceDirected: the same three writers under a directed schedule that beats writer 0 twice for
// certain: everybody does its operations; writer 1 commits; writer 0 tries, is refused, refetches and merges and stops
// right before its second try; writer 2 commits; writer 0 goes on (second refusal, second merge pass). All three
// must commit and the store must hold all their changes (in-node, separate and actively persisted values).
func TestC04_Regress_BeatenTwiceDirected(t *testing.T) {
	twice := 0
	for _, placement := range []int{0, 1, 3} {
		for _, kind := range []string{"update", "add"} {
			for _, stop := range []string{"TLog.Add", "L2.DualLock", "Registry.Get"} {
				e, err := txh.NewEnv(1)
				if err != nil {
					t.Fatalf("HARNESS-ERROR %v", err)
				}
				txh.SeedUUIDs(uint64(2000 + placement))
				stores := []txh.StoreOpts{{Name: "st0", Slot: 8, Unique: true, Placement: placement}}
				models, err := seedStore(e, stores, [][]int{{10, 20, 30, 40}})
				if err != nil {
					t.Fatalf("HARNESS-ERROR %v", err)
				}
				var progs []txh.TxnProg
				for w := 0; w < 3; w++ {
					op := txh.Op{Kind: "update", K: 10 * (w + 1), Tag: fmt.Sprintf("w%d", w), Size: 10}
					if kind == "add" {
						op = txh.Op{Kind: "add", K: 100 + w, Tag: fmt.Sprintf("w%d", w), Size: 10}
					}
					progs = append(progs, txh.TxnProg{Mode: sop.ForWriting, End: "commit", Ops: []txh.Op{op}})
				}
				segs := []txh.Seg{{P: 0, Until: "Commit.begin"}, {P: 1, Until: "Commit.begin"}, {P: 2, Until: "Commit.begin"}, {P: 1},
					{P: 0, Until: "StoreRepository.GetWithTTL"}, {P: 0, Until: stop}, {P: 2}, {P: 0}}
				res, s := e.RunConcurrent(stores, progs, nil, txh.ConcOpts{Directed: segs, MaxTime: 15 * time.Second, Budget: 60 * time.Second})
				if s.TimedOut {
					e.Cleanup()
					continue
				}
				want := models[0].Clone()
				for i, r := range res {
					if !r.Committed {
						t.Fatalf("placement %s, %s, stop %s: writer %d (merge passes %d) did not commit: %v", txh.PlacementNames[placement], kind, stop, i, mergePasses(r), r.CommitErr)
					}
					for _, o := range r.Obs {
						if kind == "add" {
							want.Add(o.Op.K, o.Wrote)
						} else {
							want.SetUnique(o.Op.K, o.Wrote)
						}
					}
					if mergePasses(r) >= 2 {
						twice++
					}
				}
				d, err := e.Dump(stores, sop.ForReading)
				if err != nil {
					t.Fatalf("placement %s, %s, stop %s: reader: %v", txh.PlacementNames[placement], kind, stop, err)
				}
				if why := txh.CheckDump(d, stores, []*txh.Model{want}); why != "" {
					t.Fatalf("placement %s, %s, stop %s: all writers committed but %s", txh.PlacementNames[placement], kind, stop, why)
				}
				e.Cleanup()
			}
		}
	}
	if twice < 6 {
		t.Fatalf("HARNESS-ERROR only %d writers went through two merge passes", twice)
	}
	t.Logf("writers with >= 2 merge passes: %d", twice)
}
