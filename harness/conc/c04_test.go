package conc

import (
	"fmt"
	"sort"
	"strings"
	"testing"
	"time"

	"github.com/sharedcode/sop"
	"pgregory.net/rapid"

	"verif/harness/stats"
	"verif/harness/txh"
)

// seedStore commits the seed items in one transaction and returns the model.
func seedStore(e *txh.Env, stores []txh.StoreOpts, seedKeys [][]int) ([]*txh.Model, error) {
	if err := e.Setup(stores); err != nil {
		return nil, err
	}
	models := make([]*txh.Model, len(stores))
	var ops []txh.Op
	for i, s := range stores {
		models[i] = &txh.Model{Unique: s.Unique}
		for _, k := range seedKeys[i] {
			ops = append(ops, txh.Op{S: i, Kind: "add", K: k, Tag: fmt.Sprintf("seed%d", k)})
		}
	}
	var res txh.TxnResult
	models, res = e.RunTxn(txh.TxnProg{Mode: sop.ForWriting, End: "commit", Ops: ops}, stores, models, txh.RunOpts{})
	if res.OpErr != nil || res.Mismatch != "" || res.CommitErr != nil {
		return nil, fmt.Errorf("seed transaction: %v %s %v", res.OpErr, res.Mismatch, res.CommitErr)
	}
	return models, nil
}

func genSchedule(t *rapid.T, n int) []int {
	// PCT-style: half the cases have only a few forced preemptions and otherwise run to completion
	if rapid.Bool().Draw(t, "fewPreemptions") {
		d := rapid.IntRange(1, 3).Draw(t, "preemptions")
		var s []int
		for i := 0; i < d; i++ {
			run := rapid.IntRange(0, 40).Draw(t, fmt.Sprintf("runLen%d", i))
			who := rapid.IntRange(0, n-1).Draw(t, fmt.Sprintf("who%d", i))
			for j := 0; j < run; j++ {
				s = append(s, who)
			}
		}
		return s
	}
	return rapid.SliceOfN(rapid.IntRange(0, n-1), 0, 120).Draw(t, "schedule")
}

func renderSched(s []int) string {
	var sb strings.Builder
	for _, x := range s {
		fmt.Fprintf(&sb, "%d", x)
	}
	return sb.String()
}

func renderProgs(p []txh.TxnProg) string {
	var out []string
	for i, x := range p {
		out = append(out, fmt.Sprintf("p%d:%s", i, x))
	}
	return strings.Join(out, " || ")
}

// TestC04_DisjointWritersBothCommit
func TestC04_DisjointWritersBothCommit(t *testing.T) {
	rec := stats.For("C04").Meta("exploration",
		"2-3 writer transactions on one pre-seeded unique store with pairwise DISJOINT key sets (adds of new keys, updates and removes of distinct seeded keys), drawn so that they land in different leaves, the same leaf, overflow the same leaf (both split it) or empty it; slot length 2-8; the transactions run one at a time under a generated schedule that can switch at every backend call of the transaction manager (PCT-style few-preemption schedules and dense ones); maxTime 15 s; oracle: every Commit returns nil and the final fresh-reader dump equals the seed plus the union of the changes, Count included; non-trivial = some writer went through refetch-and-merge or was refused a node lock; distinct by programs + schedule",
		"README: concurrent first commits into an empty store are unsupported, so the store is pre-seeded in a separate transaction", "in-process transactions sharing the in-memory L2 cache (standalone mode)")
	knownStale := stats.Known("C04", "tracked-item-pointer-stale-after-slot-shift")
	rapid.Check(t, func(t *rapid.T) {
		slot := rapid.SampledFrom([]int{2, 2, 4, 4, 6, 8}).Draw(t, "slot")
		placement := rapid.SampledFrom([]int{0, 0, 1, 2, 3, 4}).Draw(t, "placement")
		stores := []txh.StoreOpts{{Name: "st0", Slot: slot, Unique: true, Placement: placement, Balancing: rapid.IntRange(0, 4).Draw(t, "bal") == 0}}
		nw := rapid.IntRange(2, 3).Draw(t, "writers")
		domain := rapid.IntRange(6, 24).Draw(t, "domain")
		// partition the key domain: seeded keys, and per-writer private keys
		nSeed := rapid.IntRange(1, domain-2).Draw(t, "nSeed")
		perm := rapid.Permutation(intsTo(domain)).Draw(t, "perm")
		seed := append([]int{}, perm[:nSeed]...)
		sort.Ints(seed)
		owner := map[int]int{}
		for i, k := range perm {
			owner[k] = rapid.IntRange(0, nw-1).Draw(t, fmt.Sprintf("owner%d", i))
		}
		seeded := map[int]bool{}
		for _, k := range seed {
			seeded[k] = true
		}
		progs := make([]txh.TxnProg, nw)
		tag := 0
		for w := 0; w < nw; w++ {
			progs[w] = txh.TxnProg{Mode: sop.ForWriting, End: "commit"}
		}
		for _, k := range perm {
			w := owner[k]
			if len(progs[w].Ops) >= 6 || rapid.IntRange(0, 2).Draw(t, fmt.Sprintf("use%d", k)) == 0 {
				continue
			}
			tag++
			op := txh.Op{K: k, Tag: fmt.Sprintf("w%d.%d", w, tag), Size: rapid.SampledFrom([]int{0, 10, 300}).Draw(t, "size")}
			if seeded[k] {
				op.Kind = rapid.SampledFrom([]string{"update", "rmw", "remove", "get"}).Draw(t, "kindSeeded")
			} else {
				op.Kind = rapid.SampledFrom([]string{"add", "add", "upsert", "addIfNotExist"}).Draw(t, "kindNew")
			}
			progs[w].Ops = append(progs[w].Ops, op)
		}
		for w := 0; w < nw; w++ {
			if len(progs[w].Ops) == 0 {
				t.Skip("a writer without operations")
			}
			if knownStale {
				if reorderForKnownStalePointer(&progs[w]) {
					rec.Exclude("program reordered so that no add/remove follows a read/update of an existing item (known finding: stale tracked item pointer)")
				}
			}
		}
		schedule := genSchedule(t, nw)
		uuidSeed := rapid.Uint64().Draw(t, "uuidSeed")
		hashMod := rapid.SampledFrom([]int{1, 3, 16}).Draw(t, "hashMod")

		e, err := txh.NewEnv(hashMod)
		if err != nil {
			t.Fatalf("%v", err)
		}
		defer e.Cleanup()
		txh.SeedUUIDs(uuidSeed)
		models, err := seedStore(e, stores, [][]int{seed})
		if err != nil {
			t.Fatalf("HARNESS-ERROR %v", err)
		}
		res, s := e.RunConcurrent(stores, progs, schedule, txh.ConcOpts{GateCommits: knownSnapshot, MaxTime: 15 * time.Second, Budget: 90 * time.Second})
		desc := fmt.Sprintf("slot=%d %s seed=%v %s schedule=%s", slot, txh.PlacementNames[placement], seed, renderProgs(progs), renderSched(schedule))
		if s.TimedOut {
			rec.Discard()
			return
		}
		if s.Gated > 0 {
			rec.Exclude("a commit was held back until no other transaction was in the middle of its operations (known finding: inconsistent snapshot while others commit)")
		}
		want := models[0].Clone()
		merged, refused, missed := false, false, false
		for i, r := range res {
			if r.OpErr != nil {
				t.Fatalf("writer p%d: operation failed: %v\n%s", i, r.OpErr, desc)
			}
			if !r.Committed {
				t.Fatalf("writer p%d with keys disjoint from the others did not commit: %v\n%s", i, r.CommitErr, desc)
			}
			for _, o := range r.Obs {
				switch o.Op.Kind {
				case "add", "upsert", "addIfNotExist":
					if !o.OK {
						t.Fatalf("writer p%d: %s of a key nobody else touches returned false\n%s", i, o.Op, desc)
					}
					want.Add(o.Op.K, o.Wrote)
				case "update", "rmw":
					if !o.OK {
						// "not found" for an existing key while other writers restructure the tree: the call told its
						// caller that nothing was changed, so nothing is expected of it here (see DESIGN, C02/C04:
						// misses are outside the asserted claim); counted.
						missed = true
						continue
					}
					want.SetUnique(o.Op.K, o.Wrote)
				case "remove":
					if !o.OK {
						missed = true
						continue
					}
					want.RemoveUnique(o.Op.K)
				case "get":
					if !o.OK {
						missed = true
						continue
					}
					if o.Read != txh.MakeValue(fmt.Sprintf("seed%d", o.Op.K), 0) {
						t.Fatalf("writer p%d: %s read %q, want the seeded value\n%s", i, o.Op, o.Read, desc)
					}
				}
			}
			for _, c := range r.Trace {
				if c.Comp == "StoreRepository" && c.Method == "GetWithTTL" {
					merged = true
				}
			}
		}
		for i := range res {
			n := 0
			for _, c := range res[i].Trace {
				if c.Comp == "L2" && c.Method == "Lock" {
					n++
				}
			}
			if n > 1 {
				refused = true
			}
		}
		d, err := e.Dump(stores, sop.ForReading)
		if err != nil {
			t.Fatalf("fresh reader after all writers committed: %v\n%s", err, desc)
		}
		if why := txh.CheckDump(d, stores, []*txh.Model{want}); why != "" {
			t.Fatalf("all writers committed but %s\n%s", why, desc)
		}
		labels := []string{fmt.Sprintf("writers%d", nw), fmt.Sprintf("slot%d", slot), txh.PlacementNames[placement]}
		if merged {
			labels = append(labels, "refetchAndMerge")
		}
		if refused {
			labels = append(labels, "nodeLockRetried")
		}
		if s.Switches > 0 {
			labels = append(labels, "contextSwitches")
		}
		if missed {
			labels = append(labels, "existingKeyReportedNotFoundUnderConcurrency")
		}
		rec.Case(desc, merged || refused, labels...)
		rec.Sample("case", map[string]any{"case": desc, "switches": s.Switches, "yields": s.Yields})
	})
}

func intsTo(n int) []int {
	r := make([]int, n)
	for i := range r {
		r[i] = i
	}
	return r
}

// reorderForKnownStalePointer puts adds first, then removes, then reads/updates of existing items, so
// that the slot a tracked item pointer refers to is never shifted afterwards. Keys inside one program
// are distinct, so the order does not change what the program does. Reports whether anything moved.
func reorderForKnownStalePointer(p *txh.TxnProg) bool {
	rank := func(k string) int {
		switch k {
		case "add", "addIfNotExist", "upsert": // in this generator upsert is only drawn for new keys
			return 0
		case "remove":
			return 1
		}
		return 2
	}
	moved := false
	ops := append([]txh.Op{}, p.Ops...)
	sort.SliceStable(ops, func(i, j int) bool { return rank(ops[i].Kind) < rank(ops[j].Kind) })
	for i := range ops {
		if ops[i] != p.Ops[i] {
			moved = true
		}
	}
	p.Ops = ops
	return moved
}

// TestC04_Known_StaleTrackedPointer: minimal, schedule-free reproduction of the recorded finding: a
// writer reads an existing item, then adds smaller keys that shift the item's slot, and its first
// node-lock attempt is refused (as under contention), so the commit refetches and merges.
func TestC04_Known_StaleTrackedPointer(t *testing.T) {
	e, err := txh.NewEnv(3)
	if err != nil {
		t.Fatalf("%v", err)
	}
	defer e.Cleanup()
	txh.SeedUUIDs(7)
	stores := []txh.StoreOpts{{Name: "st0", Slot: 6, Unique: true, Placement: 0}}
	models, err := seedStore(e, stores, [][]int{{17}})
	if err != nil {
		t.Fatalf("HARNESS-ERROR %v", err)
	}
	prog := txh.TxnProg{Mode: sop.ForWriting, End: "commit", Ops: []txh.Op{{Kind: "findGet", K: 17}, {Kind: "add", K: 10, Tag: "a"}, {Kind: "add", K: 11, Tag: "b"}}}
	_, res := e.RunTxn(prog, stores, models, txh.RunOpts{BeforeCommit: func(tx *txh.Txn) {
		first := true
		tx.SetHook(func(s txh.Site) txh.Action {
			if !s.After && s.Comp == "L2" && s.Method == "Lock" && first {
				first = false
				return txh.Action{False: true}
			}
			return txh.Action{}
		})
	}})
	if res.CommitErr == nil && res.Mismatch == "" && res.OpErr == nil {
		return
	}
	what := fmt.Sprintf("the item tracker keeps pointers into a node's slot array: a writer that reads key 17 and then adds keys 10 and 11 to the same node shifts that slot; when its commit has to refetch and merge (node lock refused once) the replay looks the read item up under the wrong key and the commit fails: %v", res.CommitErr)
	if stats.Known("C04", "tracked-item-pointer-stale-after-slot-shift") {
		stats.For("C04").KnownFinding(what)
		return
	}
	t.Fatalf("%s", what)
}
