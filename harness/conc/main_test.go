package conc

import (
	"os"
	"testing"

	"verif/harness/stats"
	"verif/harness/txh"
)

func TestMain(m *testing.M) {
	code := m.Run()
	stats.Flush()
	os.Exit(code)
}

func init() { txh.PinJitter() }

// TestWorker is the entry point of child processes (txh.RunJob); a no-op otherwise.
func TestWorker(t *testing.T) { txh.WorkerMain() }

// knownSnapshot: the recorded finding C02/inconsistent-snapshot-while-others-commit (see c02_known_test.go).
var knownSnapshot = stats.Known("C02", "inconsistent-snapshot-while-others-commit")
