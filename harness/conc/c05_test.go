package conc

import (
	"fmt"
	"testing"
	"time"

	"github.com/sharedcode/sop"
	"pgregory.net/rapid"

	"verif/harness/stats"
	"verif/harness/txh"
)

// TestC05_UniqueStoreNeverHoldsDuplicates
func TestC05_UniqueStoreNeverHoldsDuplicates(t *testing.T) {
	rec := stats.For("C05").Meta("exploration",
		"2-3 writers calling Add / AddIfNotExist / Upsert (and Update / Remove) on OVERLAPPING keys of one unique store that is either pre-seeded or EMPTY (both writers create the root), any commit/rollback mix, under a generated schedule that can switch at every backend call; oracle: the final ordered scan has strictly increasing keys, every key at most once, and Count() equals the scan length; nothing is required about which writer wins; non-trivial = two transactions that both committed (or one committed and one failed at commit) inserted the same key; distinct by programs + schedule",
		"the empty-store race is included because the quantifier names it; README's 'random drop' for that case is tolerated by this oracle, a duplicate is not")
	rapid.Check(t, func(t *rapid.T) {
		slot := rapid.SampledFrom([]int{2, 2, 4, 6, 8}).Draw(t, "slot")
		placement := rapid.SampledFrom([]int{0, 0, 1, 3}).Draw(t, "placement")
		stores := []txh.StoreOpts{{Name: "st0", Slot: slot, Unique: true, Placement: placement}}
		nw := rapid.IntRange(2, 3).Draw(t, "writers")
		domain := rapid.SampledFrom([]int{2, 3, 4, 5, 6, 7, 10, 14}).Draw(t, "domain")
		empty := rapid.Bool().Draw(t, "emptyStore")
		var seed []int
		if !empty {
			for k := 0; k < domain; k++ {
				if rapid.Bool().Draw(t, fmt.Sprintf("seed%d", k)) {
					seed = append(seed, k)
				}
			}
			if len(seed) == 0 {
				seed = []int{0}
			}
		}
		progs := make([]txh.TxnProg, nw)
		tag := 0
		for w := range progs {
			progs[w] = txh.TxnProg{Mode: sop.ForWriting, End: "commit"}
			if rapid.IntRange(0, 5).Draw(t, fmt.Sprintf("rb%d", w)) == 0 {
				progs[w].End = "rollback"
			}
			n := rapid.IntRange(1, 5).Draw(t, fmt.Sprintf("nops%d", w))
			for j := 0; j < n; j++ {
				tag++
				progs[w].Ops = append(progs[w].Ops, txh.Op{
					Kind: rapid.SampledFrom([]string{"add", "add", "addIfNotExist", "upsert", "upsert", "update", "remove"}).Draw(t, "kind"),
					K:    rapid.IntRange(0, domain-1).Draw(t, "key"),
					Tag:  fmt.Sprintf("w%d.%d", w, tag), Size: rapid.SampledFrom([]int{0, 10}).Draw(t, "size"),
				})
			}
		}
		mode := rapid.IntRange(0, 5).Draw(t, "scheduleMode") // 0 starve; 1,2 directed; else free-form
		var schedule []int
		var directed []txh.Seg
		switch {
		case mode == 0:
			schedule = genStarve(t, nw)
		case mode <= 2:
			directed = genDirected(t, nw)
		default:
			schedule = genSchedule(t, nw)
		}
		coldFinal := rapid.Bool().Draw(t, "coldFinalReader")
		uuidSeed := rapid.Uint64().Draw(t, "uuidSeed")
		e, err := txh.NewEnv(rapid.SampledFrom([]int{1, 3, 16}).Draw(t, "hashMod"))
		if err != nil {
			t.Fatalf("%v", err)
		}
		defer e.Cleanup()
		txh.SeedUUIDs(uuidSeed)
		if empty {
			if err := e.Setup(stores); err != nil {
				t.Fatalf("HARNESS-ERROR %v", err)
			}
		} else if _, err := seedStore(e, stores, [][]int{seed}); err != nil {
			t.Fatalf("HARNESS-ERROR %v", err)
		}
		res, s := e.RunConcurrent(stores, progs, schedule, txh.ConcOpts{GateCommits: knownSnapshot, Strict: mode == 0, Directed: directed, MaxTime: 3 * time.Second, Budget: 60 * time.Second})
		desc := fmt.Sprintf("slot=%d %s seed=%v %s schedule=%s strict=%v directed=[%s]", slot, txh.PlacementNames[placement], seed, renderProgs(progs), renderSchedRLE(schedule), mode == 0, renderSegs(directed))
		overlapped := false
		for i := range res {
			if s.OthersMutatedRegistryDuringLastMerge(i) {
				overlapped = true
			}
		}
		knownMixture := stats.Known("C04", "merge-pass-mixture-commits-misplaced-key")
		if s.TimedOut {
			rec.Discard()
			return
		}
		if s.Gated > 0 {
			rec.Exclude("a commit was held back until no other transaction was in the middle of its operations (known finding: inconsistent snapshot while others commit)")
		}
		if coldFinal {
			// the final reader is another process / a later time: nothing of the node caches is left
			e.EvictNodeCaches()
		}
		d, err := e.Dump(stores, sop.ForReading)
		if err != nil {
			t.Fatalf("fresh reader afterwards: %v\n%s", err, desc)
		}
		items := d[0].Items
		for i := 1; i < len(items); i++ {
			if items[i-1].K >= items[i].K && overlapped && knownMixture {
				rec.Exclude("another writer's commit wrote the registry in the middle of a writer's last refetch-and-merge pass and the committed store is wrong (known C04 finding: merge pass navigates a mixture of old and new nodes)")
				return
			}
			if items[i-1].K >= items[i].K {
				t.Fatalf("unique store scan is not strictly increasing: key %d follows key %d (items %v)\n%s", items[i].K, items[i-1].K, txh.Canon(items), desc)
			}
		}
		if empty && d[0].Count != int64(len(items)) {
			// README, "Important Requirement for First Commit": concurrent first commits into an empty tree are outside
			// the supported use (one initialisation may overwrite the other, "random drop"); uniqueness is still judged
			rec.Label("emptyStoreRace:countOffAfterDroppedInitialisation")
		} else if d[0].Count != int64(len(items)) {
			t.Fatalf("Count()=%d but the scan returns %d items\n%s", d[0].Count, len(items), desc)
		}
		// non-trivial: same key inserted by two transactions that reached commit
		ins := map[int]int{}
		committed := 0
		for _, r := range res {
			if r.Prog.End != "commit" {
				continue
			}
			if r.Committed {
				committed++
			}
			seen := map[int]bool{}
			for _, o := range r.Obs {
				switch o.Op.Kind {
				case "add", "addIfNotExist", "upsert":
					if o.OK && !seen[o.Op.K] {
						seen[o.Op.K] = true
						ins[o.Op.K]++
					}
				}
			}
		}
		nt := false
		for _, n := range ins {
			if n >= 2 {
				nt = true
			}
		}
		labels := []string{fmt.Sprintf("writers%d", nw), fmt.Sprintf("committed%d", committed)}
		if empty {
			labels = append(labels, "emptyStoreRace")
		}
		if s.Switches > 0 {
			labels = append(labels, "contextSwitches")
		}
		if mode == 0 {
			labels = append(labels, "starvationSchedule")
		}
		if len(directed) > 0 {
			labels = append(labels, "directedSchedule")
		}
		for _, r := range res {
			if mergePasses(r) >= 1 {
				labels = append(labels, "refetchAndMerge")
				break
			}
		}
		rec.Case(desc, nt, labels...)
		rec.Sample("case", map[string]any{"case": desc, "final": txh.Canon(items), "committed": committed})
	})
}
