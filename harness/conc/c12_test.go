package conc

import (
	"fmt"
	"os"
	"path/filepath"
	"testing"
	"time"

	"github.com/sharedcode/sop"
	"pgregory.net/rapid"

	"verif/harness/stats"
	"verif/harness/txh"
)

// TestC12_CreatedStoreGoesWithItsTransaction: a writer creates a NEW store and also changes an existing one,
// while another writer changes the existing store too (same item = the creator's commit must fail; another item
// of the same node = it commits after a refetch-and-merge pass). Afterwards the new store exists exactly when
// the creator's Commit returned nil.
func TestC12_CreatedStoreGoesWithItsTransaction(t *testing.T) {
	rec := stats.For("C12").Meta("fault_enumeration",
		"(concurrent part) writer A creates a new store (NewBtree + 0-3 adds) and updates/adds/removes items of an existing store in the same transaction; writer B (and optionally C) changes the existing store, on the same item as A (A's commit has to fail in its conflict retry) or on other items of the same node (A commits after refetch-and-merge); free-form, starvation and directed schedules; A ends by commit or rollback; oracle: once everybody ended, a fresh transaction lists / opens the new store exactly when A's Commit returned nil - with A's items - and otherwise neither the store list, the store's folder nor OpenBtree know it, and creating it again works; non-trivial = A's commit went through a conflict (lock refused or refetch-and-merge) or failed",
		"standalone mode, in-process transactions")
	knownMixture := stats.Known("C04", "merge-pass-mixture-commits-misplaced-key")
	rapid.Check(t, func(t *rapid.T) {
		slot := rapid.SampledFrom([]int{2, 4, 8}).Draw(t, "slot")
		placement := rapid.SampledFrom([]int{0, 0, 1, 3}).Draw(t, "placement")
		stores := []txh.StoreOpts{
			{Name: "st0", Slot: slot, Unique: true, Placement: placement},
			{Name: "stNew", Slot: rapid.SampledFrom([]int{2, 4, 8}).Draw(t, "slotNew"), Unique: true, Placement: rapid.SampledFrom([]int{0, 1, 3}).Draw(t, "placementNew")},
		}
		nw := rapid.IntRange(2, 3).Draw(t, "writers")
		domain := rapid.IntRange(3, 8).Draw(t, "domain")
		seed := intsTo(domain)
		progs := make([]txh.TxnProg, nw)
		// A = participant 0
		a := txh.TxnProg{Mode: sop.ForWriting, End: rapid.SampledFrom([]string{"commit", "commit", "commit", "rollback"}).Draw(t, "endA")}
		tag := 0
		for i, n := 0, rapid.IntRange(0, 3).Draw(t, "newAdds"); i < n; i++ {
			tag++
			a.Ops = append(a.Ops, txh.Op{S: 1, Kind: "add", K: i, Tag: fmt.Sprintf("a.%d", tag), Size: 10})
		}
		kindsOld := []string{"update", "update", "rmw", "remove", "get"}
		for i, n := 0, rapid.IntRange(1, 3).Draw(t, "oldOpsA"); i < n; i++ {
			tag++
			a.Ops = append(a.Ops, txh.Op{S: 0, Kind: rapid.SampledFrom(kindsOld).Draw(t, "kindA"), K: rapid.IntRange(0, domain-1).Draw(t, "keyA"), Tag: fmt.Sprintf("a.%d", tag), Size: 10})
		}
		if rapid.Bool().Draw(t, "createFirst") {
			// NewBtree happens at a store's first use: put a use of the new store first or last
		} else {
			var olds, news []txh.Op
			for _, o := range a.Ops {
				if o.S == 0 {
					olds = append(olds, o)
				} else {
					news = append(news, o)
				}
			}
			a.Ops = append(olds, news...)
		}
		progs[0] = a
		for w := 1; w < nw; w++ {
			p := txh.TxnProg{Mode: sop.ForWriting, End: "commit"}
			for i, n := 0, rapid.IntRange(1, 3).Draw(t, fmt.Sprintf("ops%d", w)); i < n; i++ {
				tag++
				p.Ops = append(p.Ops, txh.Op{S: 0, Kind: rapid.SampledFrom([]string{"update", "update", "rmw", "add", "remove"}).Draw(t, "kindB"),
					K: rapid.IntRange(0, domain+1).Draw(t, "keyB"), Tag: fmt.Sprintf("w%d.%d", w, tag), Size: 10})
			}
			progs[w] = p
		}
		if stats.Known("C04", "tracked-item-pointer-stale-after-slot-shift") {
			for w := range progs {
				if reorderForKnownStalePointerMulti(&progs[w]) {
					rec.Exclude("program reordered so that no add/remove follows a read/update of an existing item (known C04 finding: stale tracked item pointer)")
				}
			}
		}
		touchesNew := false
		for _, o := range progs[0].Ops {
			if o.S == 1 {
				touchesNew = true
			}
		}
		if !touchesNew {
			// NewBtree happens at a store's first use
			progs[0].Ops = append(progs[0].Ops, txh.Op{S: 1, Kind: "count"})
		}
		a = progs[0]
		mode := rapid.IntRange(0, 5).Draw(t, "scheduleMode")
		var schedule []int
		var directed []txh.Seg
		switch {
		case mode == 0:
			schedule = genStarve(t, nw)
		case mode <= 3:
			// the creator does its operations, the others commit, the creator commits
			directed = []txh.Seg{{P: 0, Until: "Commit.begin"}}
			for w := 1; w < nw; w++ {
				directed = append(directed, txh.Seg{P: w})
			}
			if rapid.Bool().Draw(t, "randomTail") {
				directed = append(directed, genDirected(t, nw)...)
			}
		default:
			schedule = genSchedule(t, nw)
		}
		e, err := txh.NewEnv(rapid.SampledFrom([]int{1, 3, 16}).Draw(t, "hashMod"))
		if err != nil {
			t.Fatalf("%v", err)
		}
		defer e.Cleanup()
		txh.SeedUUIDs(rapid.Uint64().Draw(t, "uuidSeed"))
		if _, err := seedStore(e, stores[:1], [][]int{seed}); err != nil {
			t.Fatalf("HARNESS-ERROR %v", err)
		}
		res, s := e.RunConcurrent(stores, progs, schedule, txh.ConcOpts{Create: true, GateCommits: knownSnapshot, Strict: mode == 0, Directed: directed, MaxTime: 5 * time.Second, Budget: 60 * time.Second})
		desc := fmt.Sprintf("st0{slot=%d %s seed=%v} %s schedule=%s strict=%v directed=[%s]", slot, txh.PlacementNames[placement], seed, renderProgs(progs), renderSchedRLE(schedule), mode == 0, renderSegs(directed))
		if s.TimedOut {
			rec.Discard()
			return
		}
		ra := res[0]
		if ra.OpErr != nil {
			// e.g. the known 'inconsistent snapshot' finding inside A's operations: nothing to judge
			rec.Discard()
			return
		}
		for i := range res {
			if knownMixture && s.OthersMutatedRegistryDuringLastMerge(i) {
				rec.Exclude("another writer's commit wrote the registry in the middle of a writer's last refetch-and-merge pass (known C04 finding)")
				return
			}
		}
		created := ra.Committed && a.End == "commit"
		// oracle through the public API
		d, err := e.Dump(stores, sop.ForReading)
		if err != nil {
			t.Fatalf("fresh reader afterwards: %v\n%s", err, desc)
		}
		listed, err := listStores(e)
		if err != nil {
			t.Fatalf("GetStores: %v\n%s", err, desc)
		}
		_, statErr := os.Stat(filepath.Join(e.Dir, "stNew"))
		folder := statErr == nil
		isListed := false
		for _, n := range listed {
			if n == "stNew" {
				isListed = true
			}
		}
		outcome := fmt.Sprintf("creator: end=%s committed=%v err=%v merge passes=%d", a.End, ra.Committed, ra.CommitErr, mergePasses(ra))
		if created {
			if !d[1].Exists || !isListed {
				t.Fatalf("the creating transaction committed but the new store is not there (open: %v, listed: %v)\n%s\n%s", d[1].Exists, isListed, outcome, desc)
			}
			want := &txh.Model{Unique: true}
			for _, o := range ra.Obs {
				if o.Op.S == 1 && o.Op.Kind == "add" && o.OK {
					want.Add(o.Op.K, o.Wrote)
				}
			}
			if ok, why := txh.SameItems(d[1].Items, want); !ok {
				t.Fatalf("the new store does not hold what its creator added: %s\n%s\n%s", why, outcome, desc)
			}
		} else {
			if d[1].Exists || isListed || folder {
				t.Fatalf("the creating transaction did not commit but its store stays behind (OpenBtree succeeds: %v, listed by GetStores: %v, folder on disk: %v)\n%s\n%s", d[1].Exists, isListed, folder, outcome, desc)
			}
			// and the name is free again
			if err := e.Setup(stores[1:]); err != nil {
				t.Fatalf("creating the store again after the failed creation: %v\n%s\n%s", err, outcome, desc)
			}
		}
		contended := mergePasses(ra) > 0 || (a.End == "commit" && !ra.Committed)
		labels := []string{"concurrentCreate", fmt.Sprintf("writers%d", nw), "end:" + a.End}
		if created {
			labels = append(labels, "creatorCommitted")
		} else if a.End == "commit" {
			labels = append(labels, "creatorCommitFailed")
		}
		if mergePasses(ra) > 0 {
			labels = append(labels, "creatorRefetchedAndMerged")
		}
		rec.Case("conc "+desc, contended, labels...)
	})
}

func listStores(e *txh.Env) ([]string, error) {
	t, err := e.NewTxn(txh.TxnOptions{Mode: sop.ForReading})
	if err != nil {
		return nil, err
	}
	if err := t.Tx.Begin(txh.Ctx); err != nil {
		return nil, err
	}
	defer t.Tx.Rollback(txh.Ctx)
	return t.Tx.GetStores(txh.Ctx)
}
