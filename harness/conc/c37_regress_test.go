package conc

import (
	"fmt"
	"testing"
	"time"

	"github.com/sharedcode/sop"

	"verif/harness/txh"
)

// TestC37_Regress_FailedFinalizeKeepsLocksUntilUndone: a writer whose finalising registry write fails used to release
// its node locks BEFORE its rollback cleared its reservations (an unlocked read-modify-write of the handles). A second
// writer of the same node run in that window reserved, finalised and reported success; the first writer's cleanup
// then wrote the handle back to the old version: a committed update lost, two successors of one node version.
// (found by TestC37_NoTwoSuccessors, thorough tier; repaired in /repo, see known_findings.json "fixed")
func TestC37_Regress_FailedFinalizeKeepsLocksUntilUndone(t *testing.T) {
	reached := 0
	for _, placement := range []int{0, 1, 3} {
		for _, second := range []string{"update", "remove"} {
			e, err := txh.NewEnv(1)
			if err != nil {
				t.Fatalf("HARNESS-ERROR %v", err)
			}
			txh.SeedUUIDs(uint64(7700 + placement))
			stores := []txh.StoreOpts{{Name: "st0", Slot: 4, Unique: true, Placement: placement}}
			models, err := seedStore(e, stores, [][]int{{0, 1}})
			if err != nil {
				t.Fatalf("HARNESS-ERROR %v", err)
			}
			progs := []txh.TxnProg{
				{Mode: sop.ForWriting, End: "commit", Ops: []txh.Op{{Kind: "update", K: 0, Tag: "failing"}}},
				{Mode: sop.ForWriting, End: "commit", Ops: []txh.Op{{Kind: second, K: 1, Tag: "other"}}},
			}
			m := &protoModel{cur: map[sop.UUID]sop.Handle{}, writer: map[sop.UUID]int{}, known: map[sop.UUID]bool{}, dir: e.Dir, reservesBy: map[sop.UUID]map[int]bool{}, pendingAdds: map[int][]sop.Handle{}, pendingTables: map[int][]string{}}
			if slots, _, err := txh.ReadRegistryRaw(e.Dir, "st0"); err == nil {
				for _, s := range slots {
					m.cur[s.H.LogicalID] = s.H
					m.known[s.H.LogicalID] = true
					m.writer[s.H.LogicalID] = -1
				}
			}
			e.OnRegistry = m.onEvent
			faulted := false
			// p0 up to the first registry write of its rollback (the one that clears its reservation), then p1
			// from start to end, then p0's rest
			directed := []txh.Seg{{P: 0, Until: "Registry.Update#"}, {P: 1}, {P: 0}}
			res, s := e.RunConcurrent(stores, progs, nil, txh.ConcOpts{Directed: directed, MaxTime: 4 * time.Second, Budget: 60 * time.Second,
				Fault: func(i int, st txh.Site) txh.Action {
					if i == 0 && !faulted && st.Comp+"."+st.Method == "Registry.UpdateNoLocksFlip" {
						faulted = true
						return txh.Action{Err: txh.ErrInjected}
					}
					return txh.Action{}
				}})
			e.OnRegistry = nil
			desc := fmt.Sprintf("placement %s, second writer %s", txh.PlacementNames[placement], second)
			if s.TimedOut {
				e.Cleanup()
				continue
			}
			if !faulted || res[0].Committed {
				t.Fatalf("HARNESS-ERROR %s: the first writer's finalising write was not failed (fired=%v committed=%v)", desc, faulted, res[0].Committed)
			}
			if len(m.viol) > 0 {
				t.Fatalf("%s: %v\n registry trace:\n  %s", desc, m.viol, fmt.Sprint(m.trace))
			}
			want := models[0].Clone()
			if res[1].Committed {
				reached++
				for _, o := range res[1].Obs {
					if second == "remove" {
						want.RemoveUnique(o.Op.K)
					} else {
						want.SetUnique(o.Op.K, o.Wrote)
					}
				}
			}
			d, err := e.Dump(stores, sop.ForReading)
			if err != nil {
				t.Fatalf("%s: reader: %v", desc, err)
			}
			if why := txh.CheckDump(d, stores, []*txh.Model{want}); why != "" {
				t.Fatalf("%s: second writer committed=%v (err %v), first failed, but %s", desc, res[1].Committed, res[1].CommitErr, why)
			}
			e.Cleanup()
		}
	}
	if reached == 0 {
		t.Fatalf("HARNESS-ERROR the second writer never committed")
	}
}
