package conc

import (
	"fmt"
	"strings"
	"testing"
	"time"

	"github.com/sharedcode/sop"
	"pgregory.net/rapid"

	"verif/harness/stats"
	"verif/harness/txh"
)

type readerObs struct {
	site    string
	phase   string // before (the phase-2 flip), window (flip executed, Commit not returned), after
	mode    string
	items   []txh.KV
	count   int64
	err     error
	values  map[int]string // key -> value for the keys the writer touches (absent = not found)
	touched []int
}

// observeAll runs one fresh reader transaction to completion.
func observeAll(e *txh.Env, stores []txh.StoreOpts, mode sop.TransactionMode, touched []int) (o readerObs) {
	o.values = map[int]string{}
	o.touched = touched
	t, err := e.NewTxn(txh.TxnOptions{Mode: mode, MaxTime: 3 * time.Second})
	if err != nil {
		o.err = fmt.Errorf("HARNESS-ERROR %w", err)
		return
	}
	t.Record = false
	if err := t.Tx.Begin(txh.Ctx); err != nil {
		o.err = err
		return
	}
	b, err := txh.OpenBtree[int, string](t, stores[0].Name)
	if err != nil {
		o.err = err
		return
	}
	for _, k := range touched {
		ok, err := b.Find(txh.Ctx, k, false)
		if err != nil {
			o.err = fmt.Errorf("Find(%d): %w", k, err)
			t.Tx.Rollback(txh.Ctx)
			return
		}
		if ok {
			v, err := b.GetCurrentValue(txh.Ctx)
			if err != nil {
				o.err = fmt.Errorf("GetCurrentValue(%d): %w", k, err)
				t.Tx.Rollback(txh.Ctx)
				return
			}
			o.values[k] = v
		}
	}
	o.items, o.err = txh.Scan(b)
	o.count = b.Count()
	if o.err != nil {
		t.Tx.Rollback(txh.Ctx)
		return
	}
	// a reader's Commit only validates what it read; its outcome is not part of this property
	t.Tx.Commit(txh.Ctx)
	return
}

// TestC03_ReadersNeverSeeUncommitted
func TestC03_ReadersNeverSeeUncommitted(t *testing.T) {
	rec := stats.For("C03").Meta("fault_enumeration",
		"one writer W (adds, updates, removes on a pre-seeded store: enough to split nodes and change the count; every value placement, slot 2-6) ending in Commit, Rollback or a Commit that fails at a drawn backend call; at EVERY backend call W makes - during its operations, phase 1, phase 2, rollback and cleanup - a fresh reader transaction (ForReading and NoCheck alternately) runs to completion: Find+GetCurrentValue on each key W touches, a full scan, Count(); oracle: every observation made before W's phase-2 registry flip equals the pre-state (values, presence, scan, count); if W fails or rolls back every observation at any time equals the pre-state; after W's Commit returned nil it equals the post-state; between the flip and Commit's return each observed item is its pre or post version; non-trivial = a reader ran at a call inside W's phase 1, phase 2 or rollback; distinct by (writer shape, site)",
		"readers run on the writer's goroutine while it is paused before the call (pause points = the backend calls of the transaction manager)")
	knownCount := stats.Known("C03", "count-published-before-commit-point")
	rapid.Check(t, func(t *rapid.T) {
		slot := rapid.SampledFrom([]int{2, 4, 6}).Draw(t, "slot")
		placement := rapid.SampledFrom([]int{0, 0, 1, 2, 3, 4}).Draw(t, "placement")
		stores := []txh.StoreOpts{{Name: "st0", Slot: slot, Unique: true, Placement: placement}}
		domain := rapid.IntRange(4, 9).Draw(t, "domain")
		var seed []int
		for k := 0; k < domain; k++ {
			if rapid.Bool().Draw(t, fmt.Sprintf("seed%d", k)) {
				seed = append(seed, k)
			}
		}
		if len(seed) == 0 {
			seed = []int{1}
		}
		prog := txh.TxnProg{Mode: sop.ForWriting, End: rapid.SampledFrom([]string{"commit", "commit", "commit", "rollback"}).Draw(t, "end")}
		nops := rapid.IntRange(1, 6).Draw(t, "nops")
		used := map[int]bool{}
		var touched []int
		for j := 0; j < nops; j++ {
			k := rapid.IntRange(0, domain-1).Draw(t, "key")
			if used[k] {
				continue
			}
			used[k] = true
			touched = append(touched, k)
			prog.Ops = append(prog.Ops, txh.Op{Kind: rapid.SampledFrom([]string{"add", "upsert", "update", "remove", "curUpdate", "curRemove"}).Draw(t, "kind"), K: k,
				Tag: fmt.Sprintf("W.%d", j), Size: rapid.SampledFrom([]int{0, 10, 300}).Draw(t, "size")})
		}
		faultAt := -1
		if prog.End == "commit" && rapid.IntRange(0, 3).Draw(t, "withFault") == 0 {
			faultAt = rapid.IntRange(0, 60).Draw(t, "faultAt")
		}
		uuidSeed := rapid.Uint64().Draw(t, "uuidSeed")
		e, err := txh.NewEnv(rapid.SampledFrom([]int{1, 3, 16}).Draw(t, "hashMod"))
		if err != nil {
			t.Fatalf("%v", err)
		}
		defer e.Cleanup()
		txh.SeedUUIDs(uuidSeed)
		pre, err := seedStore(e, stores, [][]int{seed})
		if err != nil {
			t.Fatalf("HARNESS-ERROR %v", err)
		}
		// half of the cases: the node caches are cold (evicted / fresh process), the writer loads its nodes on a miss
		cold := rapid.Bool().Draw(t, "coldNodeCaches")
		firstReader := 0
		if cold {
			e.EvictNodeCaches()
			// readers warm the caches themselves: let the first one run only at W's k-th backend call (1000 = not
			// before W's Commit), so that it is W that loads its nodes on a miss
			firstReader = rapid.SampledFrom([]int{0, 2, 4, 8, 1000, 1000}).Draw(t, "firstReaderAtCall")
		}
		desc := fmt.Sprintf("slot=%d %s seed=%v W:%s faultAt=%d coldCaches=%v firstReaderAtCall=%d", slot, txh.PlacementNames[placement], seed, prog, faultAt, cold, firstReader)

		var obs []readerObs
		flipped := false
		inCommit := false
		commitCalls := 0
		n := 0
		post, res := e.RunTxn(prog, stores, pre, txh.RunOpts{MaxTime: 8 * time.Second,
			AtBegin: func(w *txh.Txn) {
				w.PassThroughPLogRemove.Store(true)
				w.SetHook(func(s txh.Site) txh.Action {
					if s.After {
						if s.Comp == "Registry" && s.Method == "UpdateNoLocksFlip" {
							flipped = true
						}
						return txh.Action{}
					}
					n++
					if n <= firstReader && !inCommit {
						return txh.Action{}
					}
					mode := sop.ForReading
					mname := "ForReading"
					if n%2 == 0 {
						mode, mname = sop.NoCheck, "NoCheck"
					}
					o := observeAll(e, stores, mode, touched)
					o.site = s.String()
					o.mode = mname
					o.phase = "before"
					if flipped {
						o.phase = "window"
					}
					if inCommit {
						o.site = "commit:" + o.site
					}
					obs = append(obs, o)
					if inCommit {
						if commitCalls == faultAt {
							commitCalls++
							return txh.Action{Err: txh.ErrInjected}
						}
						commitCalls++
					}
					return txh.Action{}
				})
			},
			BeforeCommit: func(w *txh.Txn) { inCommit = true },
		})
		if res.OpErr != nil || res.Mismatch != "" {
			t.Fatalf("writer's own operations: %v %s\n%s", res.OpErr, res.Mismatch, desc)
		}
		res.Txn.SetHook(nil)
		final := observeAll(e, stores, sop.ForReading, touched)
		final.site, final.phase, final.mode = "after W returned", "after", "ForReading"
		committed := res.Committed
		wantAfter := pre[0]
		if committed {
			wantAfter = post[0]
		}
		valuesOf := func(m *txh.Model, k int) (string, bool) {
			vs := m.Values(k)
			if len(vs) == 0 {
				return "", false
			}
			return vs[0], true
		}
		check := func(o readerObs) {
			if o.err != nil {
				t.Fatalf("reader (%s) at %s failed: %v\n%s", o.mode, o.site, o.err, desc)
			}
			var must *txh.Model
			switch {
			case o.phase == "after":
				must = wantAfter
			case !committed:
				must = pre[0]
			case o.phase == "before":
				must = pre[0]
			}
			if must != nil {
				if knownCount && o.phase != "after" && strings.HasPrefix(o.site, "commit:") && o.count == 0 && len(o.items) == 0 {
					// same root cause: with the count already published as 0 the B-tree treats the store as empty
					rec.Exclude("store reads as empty inside the writer's commit because Count()==0 was published early (known finding)")
					return
				}
				if ok, why := txh.SameItems(o.items, must); !ok {
					t.Fatalf("reader (%s) at %s [%s the commit point; writer committed=%v]: scan: %s\n%s", o.mode, o.site, o.phase, committed, why, desc)
				}
				for _, k := range o.touched {
					wv, wok := valuesOf(must, k)
					gv, gok := o.values[k]
					if wok != gok || wv != gv {
						t.Fatalf("reader (%s) at %s [%s the commit point; writer committed=%v]: key %d read as %q found=%v, want %q found=%v\n%s", o.mode, o.site, o.phase, committed, k, txh.Short(gv), gok, txh.Short(wv), wok, desc)
					}
				}
				if o.count != int64(len(must.Items)) {
					if knownCount && o.phase != "after" && strings.HasPrefix(o.site, "commit:") {
						rec.Exclude("Count() differs from the committed state inside the writer's commit (known finding)")
						return
					}
					t.Fatalf("reader (%s) at %s [%s the commit point; writer committed=%v]: Count()=%d, the committed state has %d items\n%s", o.mode, o.site, o.phase, committed, o.count, len(must.Items), desc)
				}
				return
			}
			// window: every touched item is its pre or post version
			for _, k := range o.touched {
				gv, gok := o.values[k]
				pv, pok := valuesOf(pre[0], k)
				qv, qok := valuesOf(post[0], k)
				if !((gok == pok && gv == pv) || (gok == qok && gv == qv)) {
					t.Fatalf("reader (%s) at %s [between the flip and Commit's return]: key %d read as %q found=%v, neither the old (%q,%v) nor the new (%q,%v) version\n%s", o.mode, o.site, k, txh.Short(gv), gok, txh.Short(pv), pok, txh.Short(qv), qok, desc)
				}
			}
		}
		inner := 0
		for _, o := range obs {
			check(o)
			if strings.HasPrefix(o.site, "commit:") {
				inner++
			}
		}
		check(final)
		labels := []string{txh.PlacementNames[placement], "end:" + prog.End}
		if committed {
			labels = append(labels, "committed")
		} else if prog.End == "commit" {
			labels = append(labels, "commitFailed")
		}
		if cold {
			labels = append(labels, "coldNodeCaches")
		}
		for _, o := range obs {
			rec.Case(desc+"@"+o.site, strings.HasPrefix(o.site, "commit:"), labels...)
		}
		rec.Sample("writer", map[string]any{"case": desc, "pause_points": len(obs), "inside_commit": inner, "committed": committed})
	})
}

// TestC03_Known_CountBeforeCommitPoint: minimal reproduction of the recorded finding. Two committed
// items; a writer adds a third and is paused after its phase 1; a fresh reader reports Count()==3
// although only 2 items are committed (and the writer may still roll back).
func TestC03_Known_CountBeforeCommitPoint(t *testing.T) {
	e, err := txh.NewEnv(3)
	if err != nil {
		t.Fatalf("%v", err)
	}
	defer e.Cleanup()
	txh.SeedUUIDs(9)
	stores := []txh.StoreOpts{{Name: "st0", Slot: 4, Unique: true, Placement: 0}}
	pre, err := seedStore(e, stores, [][]int{{1, 2}})
	if err != nil {
		t.Fatalf("HARNESS-ERROR %v", err)
	}
	var seen []int64
	prog := txh.TxnProg{Mode: sop.ForWriting, End: "commit", Ops: []txh.Op{{Kind: "add", K: 3, Tag: "x"}}}
	_, res := e.RunTxn(prog, stores, pre, txh.RunOpts{BeforeCommit: func(w *txh.Txn) {
		w.PassThroughPLogRemove.Store(true)
		flipped := false
		w.SetHook(func(s txh.Site) txh.Action {
			if s.After {
				if s.Method == "UpdateNoLocksFlip" {
					flipped = true
				}
				return txh.Action{}
			}
			if !flipped {
				o := observeAll(e, stores, sop.ForReading, nil)
				if o.err == nil {
					seen = append(seen, o.count)
				}
			}
			return txh.Action{}
		})
	}})
	if res.CommitErr != nil {
		t.Fatalf("HARNESS-ERROR writer did not commit: %v", res.CommitErr)
	}
	for _, c := range seen {
		if c != 2 {
			what := fmt.Sprintf("a reader that starts while a writer is inside phase 1 of its commit (after the store's count delta was written by commitStores, before the phase-2 registry flip) reports Count()=%d although 2 items are committed; the count is un-applied again if the writer fails", c)
			if stats.Known("C03", "count-published-before-commit-point") {
				stats.For("C03").KnownFinding(what)
				return
			}
			t.Fatalf("%s", what)
		}
	}
}
