package stats

import (
	"encoding/json"
	"os"
	"sync"
)

// Finding is one entry of /verif/known_findings.json.
type Finding struct {
	Property string `json:"property"`
	Slug     string `json:"slug"`
	What     string `json:"what"`
	Commit   string `json:"commit,omitempty"`
}

type knownFile struct {
	Known []Finding `json:"known"`
	Fixed []Finding `json:"fixed"`
}

var (
	knownOnce sync.Once
	knownData knownFile
)

func loadKnown() {
	knownOnce.Do(func() {
		p := os.Getenv("VERIF_KNOWN")
		if p == "" {
			p = "/verif/known_findings.json"
		}
		b, err := os.ReadFile(p)
		if err != nil {
			return
		}
		_ = json.Unmarshal(b, &knownData)
	})
}

// Known reports whether (property, slug) is listed as a known (recorded, unrepaired) finding.
// The file is only ever read, never written, at run time.
func Known(property, slug string) bool {
	loadKnown()
	for _, f := range knownData.Known {
		if f.Property == property && f.Slug == slug {
			return true
		}
	}
	return false
}

// KnownWhat returns the description of a listed finding.
func KnownWhat(property, slug string) string {
	loadKnown()
	for _, f := range knownData.Known {
		if f.Property == property && f.Slug == slug {
			return f.What
		}
	}
	return ""
}
