package rbac

import (
	"context"
	"fmt"
	"strings"
	"testing"

	"github.com/sharedcode/sop"
	"pgregory.net/rapid"

	"verif/harness/stats"
)

const c34Rule = "non-trivial = a specified verdict where the core-read-only clause or the system-visibility clause applies together with at least one other clause (admin/owner/role grant/user grant/public read-list, or each other); distinct by rendered (caller, resource, grants, action)"

var c34Assumptions = []string{
	"role, visibility and action spellings are the package's documented constants; the core resources are the two names documented at IsSystemReadOnly (SOP, LongTermMemory)",
	"a grant list entry \"*\" is a grant for every action",
	"not asserted (agreement between entry points only): read/list on visibility \"\" without another basis; visibilities outside public/private/system; grants addressed to the empty role/user name; case variants of the Admin role and of the core names",
	"UI map: blueprint without Evaluator (or an Evaluator that delegates to CanPerformAction); action names never spell a capability key (can_read, can_edit, can_delete, can_ai_select)",
}

// ---------------------------------------------------------------------------------
// system under test

func toAuth(c refCaller) sop.AuthContext {
	return sop.AuthContext{UserID: c.UserID, Roles: c.Roles, IsSystem: c.IsSystem}
}

func toAccess(r refResource) sop.ResourceAccess {
	return sop.ResourceAccess{Visibility: sop.Visibility(r.Visibility), OwnerID: r.Owner, Roles: r.RoleGrants, Users: r.UserGrants}
}

// the capability keys a UI reads, by the action they stand for.
var capOf = map[string]sop.UICapability{
	actRead:     sop.UICapabilityRead,
	actWrite:    sop.UICapabilityEdit,
	actDelete:   sop.UICapabilityDelete,
	actAISelect: sop.UICapabilityAISelect,
}

func capKey(action string) sop.UICapability {
	if k, ok := capOf[action]; ok {
		return k
	}
	return sop.ActionToUICapability(sop.Action(action))
}

// checkDecision runs the three enforcement entry points for one tuple and compares
// them with each other and with the reference. It returns the enforcement decision.
func checkDecision(ctx context.Context, c refCaller, r refResource, access sop.ResourceAccess, action string) (bool, refResult, error) {
	want := refDecide(c, r, action)
	a := sop.Action(action)

	err := sop.CheckPolicy(ctx, r.Name, access, a)
	got := err == nil
	if can := sop.CanPerformAction(ctx, r.Name, access, a); can != got {
		return got, want, fmt.Errorf("CanPerformAction=%v but CheckPolicy error=%v", can, err)
	}
	if e2 := sop.EnforcePolicy(ctx, r.Name, access, a); (e2 == nil) != got {
		return got, want, fmt.Errorf("EnforcePolicy error=%v but CheckPolicy error=%v", e2, err)
	}
	if want.Verdict != vUnspecified && got != (want.Verdict == vAllow) {
		return got, want, fmt.Errorf("CheckPolicy/CanPerformAction decided allow=%v, the statement requires %v (%s; clauses that apply: %s)",
			got, want.Verdict, want.Why, ruleLabel(want.Rules))
	}

	// Authorize sees no resource name: it is the decision for the same resource under a
	// name that is not a core resource.
	plain := r
	plain.Name = "other"
	wantLocal := refDecide(c, plain, action)
	local := sop.Authorize(ctx, access, a)
	if wantLocal.Verdict != vUnspecified && local != (wantLocal.Verdict == vAllow) {
		return got, want, fmt.Errorf("Authorize decided allow=%v, the statement requires %v (%s)", local, wantLocal.Verdict, wantLocal.Why)
	}
	// ... and enforcement may differ from it only by the core clause.
	coreClause := isCoreName(r.Name) && isWriteOrDelete(action)
	lookalikeClause := isCoreLookalike(r.Name) && isWriteOrDelete(action)
	if !coreClause && !lookalikeClause && local != got {
		return got, want, fmt.Errorf("Authorize=%v but CanPerformAction=%v on a resource/action the core clause does not cover", local, got)
	}
	if got && !local {
		return got, want, fmt.Errorf("CanPerformAction allows what Authorize denies")
	}
	return got, want, nil
}

const c34AssetType = "c34-asset"

// checkUIMap registers a blueprint with the given actions and compares the capability
// map with the enforcement decision for every action of the blueprint.
func checkUIMap(ctx context.Context, c refCaller, r refResource, access sop.ResourceAccess, actions []string, viaEvaluator bool) error {
	bp := sop.AssetBlueprint{AssetType: c34AssetType, Description: "C34", Endpoints: []string{"/api/c34"}}
	for _, a := range actions {
		bp.Actions = append(bp.Actions, sop.Action(a))
	}
	if viaEvaluator {
		bp.Evaluator = func(ctx context.Context, ec sop.EntitlementContext, action sop.Action) bool {
			return sop.CanPerformAction(ctx, ec.AssetID, access, action)
		}
	}
	sop.RegisterAssetRBAC(bp)
	ec := sop.EntitlementContext{AssetID: r.Name, UserID: c.UserID}
	m := sop.ResolveRBACMap(ctx, c34AssetType, ec, func() sop.ResourceAccess { return access })
	keys := map[sop.UICapability]bool{}
	for _, a := range actions {
		k := capKey(a)
		keys[k] = true
		ui, present := m[k]
		if !present {
			return fmt.Errorf("capability map %v has no key %q for action %q", m, k, a)
		}
		enforced := sop.CanPerformAction(ctx, r.Name, access, sop.Action(a))
		if ui != enforced {
			return fmt.Errorf("capability map says %s=%v but CanPerformAction(%q)=%v", k, ui, a, enforced)
		}
		if want := refDecide(c, r, a); want.Verdict != vUnspecified && ui != (want.Verdict == vAllow) {
			return fmt.Errorf("capability map says %s=%v, the statement requires %v for %q (%s)", k, ui, want.Verdict, a, want.Why)
		}
	}
	if len(m) != len(keys) {
		return fmt.Errorf("capability map %v has %d keys, blueprint actions %v give %d", m, len(m), actions, len(keys))
	}
	return nil
}

// ---------------------------------------------------------------------------------
// (a) complete enumeration of the finite abstract domain

var (
	exRoles      = []string{"Admin", "User", "Guest", "custom"}
	exUsers      = []string{"", "u1", "u2"}
	exNames      = []string{"SOP", "LongTermMemory", "other"}
	exVis        = []string{visPublic, visPrivate, visSystem, ""}
	exActions    = []string{actRead, actWrite, actDelete, actList, actAISelect}
	exGrantLists = [][]string{nil, {}, {actRead}, {actWrite}, {actDelete}, {actList}, {actAISelect}, {wildcard}, {actList, actDelete}}
	exMinorLists = [][]string{nil, {wildcard}}
)

// exGrantMaps: key1 -> every list of exGrantLists, key2 -> absent or ["*"]; a nil list
// means "key absent", an empty list "key present, nothing granted".
func exGrantMaps(key1, key2 string) []map[string][]string {
	var out []map[string][]string
	for _, l1 := range exGrantLists {
		for _, l2 := range exMinorLists {
			var m map[string][]string
			if l1 != nil || l2 != nil {
				m = map[string][]string{}
				if l1 != nil {
					m[key1] = l1
				}
				if l2 != nil {
					m[key2] = l2
				}
			}
			out = append(out, m)
		}
	}
	return out
}

// TestC34_Exhaustive enumerates every tuple of
//
//	roles in P({Admin,User,Guest,custom}) x user in {"",u1,u2} x IsSystem
//	x name in {SOP,LongTermMemory,other} x visibility in {public,private,system,""} x owner in {"",u1,u2}
//	x role grants {User: L, custom: M} x user grants {u1: L, u2: M}
//	    (L in absent,[],[read],[write],[delete],[list],[ai_select],[*],[list,delete]; M in absent,[*])
//	x action in {read,write,delete,list,ai_select}
//
// and checks CheckPolicy / CanPerformAction / EnforcePolicy / Authorize against the
// reference and the capability map of a registered blueprint against enforcement.
func TestC34_Exhaustive(t *testing.T) {
	rec := stats.For("C34").Meta("exploration", c34Rule, c34Assumptions...)

	type callerT struct {
		c     refCaller
		ctx   context.Context
		canon string
	}
	var callers []callerT
	for mask := 0; mask < 1<<len(exRoles); mask++ {
		var roles []string
		for i, r := range exRoles {
			if mask&(1<<i) != 0 {
				roles = append(roles, r)
			}
		}
		for _, u := range exUsers {
			for _, sys := range []bool{false, true} {
				c := refCaller{Roles: roles, UserID: u, IsSystem: sys}
				callers = append(callers, callerT{c, sop.ContextWithAuth(context.Background(), toAuth(c)), renderCaller(c)})
			}
		}
	}
	roleMaps := exGrantMaps("User", "custom")
	userMaps := exGrantMaps("u1", "u2")

	// label strings per (verdict, rule bits), built once
	var lab [3][1 << ruleCount]string
	for v := 0; v < 3; v++ {
		for b := 0; b < 1<<ruleCount; b++ {
			lab[v][b] = "ex:" + verdict(v).String() + ":" + ruleLabel(b)
		}
	}

	var total, unspecified int64
	for _, name := range exNames {
		for _, vis := range exVis {
			for _, owner := range exUsers {
				for _, rm := range roleMaps {
					for _, um := range userMaps {
						r := refResource{Name: name, Visibility: vis, Owner: owner, RoleGrants: rm, UserGrants: um}
						access := toAccess(r)
						rcanon := renderResource(r)
						for i := range callers {
							cl := &callers[i]
							if err := checkUIMap(cl.ctx, cl.c, r, access, exActions, false); err != nil {
								t.Fatalf("C34 UI map: %v\n caller   %s\n resource %s", err, cl.canon, rcanon)
							}
							for _, action := range exActions {
								_, want, err := checkDecision(cl.ctx, cl.c, r, access, action)
								if err != nil {
									t.Fatalf("C34: %v\n caller   %s\n resource %s\n action   %s", err, cl.canon, rcanon, action)
								}
								total++
								if want.Verdict == vUnspecified {
									unspecified++
								}
								nt := want.nonTrivial()
								canon := cl.canon + " " + rcanon + " a=" + action
								rec.Case(canon, nt, "exhaustive", lab[want.Verdict][want.Rules])
								if nt && total%200003 == 0 {
									rec.Sample("ex:"+ruleLabel(want.Rules), canon+" => "+want.Verdict.String())
								}
							}
						}
					}
				}
			}
		}
	}
	wantTotal := int64(len(callers) * len(exNames) * len(exVis) * len(exUsers) * len(roleMaps) * len(userMaps) * len(exActions))
	if total != wantTotal {
		t.Fatalf("HARNESS-ERROR: enumerated %d tuples, domain has %d", total, wantTotal)
	}
	rec.SetExhaustive()
	rec.SetExtra("exhaustive_enumeration", fmt.Sprintf("TestC34_Exhaustive enumerated all %d tuples of the abstract domain (%d of them with a verdict the statement leaves open)", total, unspecified))
	t.Logf("enumerated %d tuples, %d unspecified", total, unspecified)
}

// ---------------------------------------------------------------------------------
// (b) rapid: larger and odd inputs against the same oracle, plus the UI capability map

var (
	poolRoles = []string{"Admin", "User", "Guest", "custom", "editor", "viewer", "", "admin", "ADMIN", "Admin ", "System", "role with space"}
	poolUsers = []string{"", "u1", "u2", "u3", "alice", "Admin", "root", "U1", " "}
	poolNames = []string{"SOP", "LongTermMemory", "other", "", "sop", "Sop", "longtermmemory", "long_term_memory", "SOP2", "memory_u1", "system", "my space"}
	poolVis   = []string{visPublic, visPrivate, visSystem, "", "System", "PUBLIC", "internal"}
	// actions: the five documented ones plus unknown ones. None spells a capability key
	// and none is a case variant of a documented action (the statement says nothing on either).
	poolActions = []string{actRead, actWrite, actDelete, actList, actAISelect, "execute", "share", "", "admin", "export"}
	poolGrants  = []string{actRead, actWrite, actDelete, actList, actAISelect, wildcard, "execute", "share", "", "READ", "**", "read,write", "export"}
)

func genWeighted(pool []string, common int) *rapid.Generator[string] {
	// the first `common` entries are drawn half of the time
	return rapid.Custom(func(t *rapid.T) string {
		if rapid.Bool().Draw(t, "common") {
			return pool[rapid.IntRange(0, common-1).Draw(t, "i")]
		}
		return pool[rapid.IntRange(0, len(pool)-1).Draw(t, "j")]
	})
}

func genGrantMap(keys *rapid.Generator[string], label string) *rapid.Generator[map[string][]string] {
	return rapid.Custom(func(t *rapid.T) map[string][]string {
		n := rapid.IntRange(-1, 6).Draw(t, label+"N")
		if n < 0 {
			return nil
		}
		m := map[string][]string{}
		for i := 0; i < n; i++ {
			k := keys.Draw(t, label+"Key")
			var l []string
			switch rapid.IntRange(0, 5).Draw(t, label+"Kind") {
			case 0:
				l = nil
			case 1:
				l = []string{}
			default:
				l = rapid.SliceOfN(genWeighted(poolGrants, 6), 1, 7).Draw(t, label+"List")
			}
			m[k] = l
		}
		return m
	})
}

type c34Case struct {
	C            refCaller
	R            refResource
	Actions      []string
	ViaEvaluator bool
	NoAuthInCtx  bool
}

func genCase() *rapid.Generator[c34Case] {
	return rapid.Custom(func(t *rapid.T) c34Case {
		var k c34Case
		nRoles := rapid.IntRange(-1, 8).Draw(t, "nRoles")
		if nRoles >= 0 {
			k.C.Roles = rapid.SliceOfN(genWeighted(poolRoles, 4), nRoles, nRoles).Draw(t, "roles")
		}
		k.C.UserID = genWeighted(poolUsers, 3).Draw(t, "user")
		k.C.IsSystem = rapid.IntRange(0, 3).Draw(t, "sys") == 0
		k.R.Name = genWeighted(poolNames, 3).Draw(t, "name")
		k.R.Visibility = genWeighted(poolVis, 4).Draw(t, "vis")
		switch rapid.IntRange(0, 3).Draw(t, "ownerKind") {
		case 0:
			k.R.Owner = k.C.UserID // owner == caller, including the anonymous pair ""/""
		default:
			k.R.Owner = genWeighted(poolUsers, 3).Draw(t, "owner")
		}
		// grant keys: half of them addressed to the caller's own roles / user id, so that
		// grant hits (and role+user double hits) are common
		roleKey := genWeighted(poolRoles, 4)
		if len(k.C.Roles) > 0 {
			own := rapid.SampledFrom(k.C.Roles)
			roleKey = rapid.OneOf(own, roleKey)
		}
		userKey := rapid.OneOf(rapid.Just(k.C.UserID), genWeighted(poolUsers, 3))
		k.R.RoleGrants = genGrantMap(roleKey, "rg").Draw(t, "roleGrants")
		k.R.UserGrants = genGrantMap(userKey, "ug").Draw(t, "userGrants")
		k.Actions = rapid.SliceOfN(genWeighted(poolActions, 5), 1, 8).Draw(t, "actions")
		k.ViaEvaluator = rapid.IntRange(0, 3).Draw(t, "viaEvaluator") == 0
		if len(k.C.Roles) == 0 && k.C.UserID == "" && !k.C.IsSystem {
			k.NoAuthInCtx = rapid.Bool().Draw(t, "noAuthInCtx")
		}
		return k
	})
}

func (k c34Case) canon() string {
	e := "0"
	if k.ViaEvaluator {
		e = "1"
	}
	if k.NoAuthInCtx {
		e += "n"
	}
	return renderCaller(k.C) + " " + renderResource(k.R) + " actions=" + renderList(k.Actions) + " ev=" + e
}

// TestC34_Oracle draws callers with more roles, larger grant maps, the "*" wildcard,
// unknown actions, empty strings and look-alike spellings; every action of the case is
// decided by CheckPolicy / CanPerformAction / EnforcePolicy / Authorize and compared
// with the reference, and the capability map of a blueprint registered with exactly
// these actions is compared with the enforcement decision.
func TestC34_Oracle(t *testing.T) {
	rec := stats.For("C34").Meta("exploration", c34Rule, c34Assumptions...)
	rapid.Check(t, func(t *rapid.T) {
		k := genCase().Draw(t, "case")
		ctx := context.Background()
		if !k.NoAuthInCtx {
			ctx = sop.ContextWithAuth(ctx, toAuth(k.C))
		}
		access := toAccess(k.R)

		nontrivial := false
		labels := map[string]bool{}
		for _, a := range k.Actions {
			got, want, err := checkDecision(ctx, k.C, k.R, access, a)
			if err != nil {
				t.Fatalf("C34: %v\n caller   %s\n resource %s\n action   %q", err, renderCaller(k.C), renderResource(k.R), a)
			}
			if want.nonTrivial() {
				nontrivial = true
				labels["nt:"+ruleLabel(want.Rules)] = true
			}
			labels["verdict:"+want.Verdict.String()] = true
			if want.Verdict == vUnspecified {
				labels["unspec:"+strings.SplitN(want.Why, ":", 2)[0]] = true
				if got {
					labels["unspec-code-allows"] = true
				} else {
					labels["unspec-code-denies"] = true
				}
			}
			if want.Weak {
				labels["weakBasisOnly"] = true
			}
			if _, known := capOf[a]; !known && a != actList {
				labels["unknownAction"] = true
				if got {
					labels["unknownAction-allowed"] = true
				}
			}
			if want.Rules&(ruleRoleGrant|ruleUserGrant) != 0 {
				labels["grantHit"] = true
				if wildcardOnly(k.C, k.R, a) {
					labels["grantHit-viaWildcardOnly"] = true
				}
			}
		}
		if err := checkUIMap(ctx, k.C, k.R, access, k.Actions, k.ViaEvaluator); err != nil {
			t.Fatalf("C34 UI map: %v\n caller   %s\n resource %s\n actions  %v viaEvaluator=%v", err, renderCaller(k.C), renderResource(k.R), k.Actions, k.ViaEvaluator)
		}

		if len(k.C.Roles) > 4 {
			labels["roles>4"] = true
		}
		if len(k.R.RoleGrants)+len(k.R.UserGrants) > 4 {
			labels["grantKeys>4"] = true
		}
		if isCoreName(k.R.Name) {
			labels["coreName"] = true
		}
		if isCoreLookalike(k.R.Name) {
			labels["coreLookalike"] = true
		}
		switch k.R.Visibility {
		case visPublic, visPrivate, visSystem:
			labels["vis:"+k.R.Visibility] = true
		case "":
			labels["vis:empty"] = true
		default:
			labels["vis:unknown"] = true
		}
		if k.R.Owner == "" && k.C.UserID == "" {
			labels["anonymousCaller-unownedResource"] = true
		}
		if k.ViaEvaluator {
			labels["ui:viaEvaluator"] = true
		} else {
			labels["ui:defaultEvaluator"] = true
		}
		if k.NoAuthInCtx {
			labels["noAuthInContext"] = true
		}
		ls := make([]string, 0, len(labels)+1)
		ls = append(ls, "rapid")
		for _, l := range sortedKeys(labels) {
			ls = append(ls, l)
		}
		rec.Case(k.canon(), nontrivial, ls...)
		if nontrivial {
			rec.Sample("rapid", k.canon())
		}
	})
}

// wildcardOnly: every grant that covers the action for this caller does so through "*".
func wildcardOnly(c refCaller, r refResource, action string) bool {
	exact := func(l []string) bool {
		for _, g := range l {
			if g == action {
				return true
			}
		}
		return false
	}
	for _, role := range c.Roles {
		if exact(r.RoleGrants[role]) {
			return false
		}
	}
	return !exact(r.UserGrants[c.UserID])
}

func sortedKeys(m map[string]bool) []string {
	out := make([]string, 0, len(m))
	for k := range m {
		out = append(out, k)
	}
	// insertion sort, tiny
	for i := 1; i < len(out); i++ {
		for j := i; j > 0 && out[j] < out[j-1]; j-- {
			out[j], out[j-1] = out[j-1], out[j]
		}
	}
	return out
}
