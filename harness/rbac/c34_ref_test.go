package rbac

// Reference decision for C34, written from the property statement only:
//
//	"Core system resources can never be written or deleted, by anyone.
//	 System-visibility resources are accessible only to system callers.
//	 Otherwise an action is allowed only to admins, the owner, holders of a role or
//	 user grant for it, or (read and list only) anyone on a public resource;
//	 the UI capability map always agrees with the enforcement decision."
//
// The reference works on plain strings and never calls into package sop. Where the
// statement is silent it answers "unspecified" and the tests then assert only the
// agreement between the entry points, never a direction.

import (
	"sort"
	"strings"
)

type verdict int

const (
	vDeny verdict = iota
	vAllow
	vUnspecified
)

func (v verdict) String() string {
	switch v {
	case vDeny:
		return "deny"
	case vAllow:
		return "allow"
	}
	return "unspecified"
}

// refCaller / refResource are the abstract inputs of a decision.
type refCaller struct {
	Roles    []string
	UserID   string
	IsSystem bool
}

type refResource struct {
	Name       string
	Visibility string
	Owner      string
	RoleGrants map[string][]string
	UserGrants map[string][]string
}

// Vocabulary the statement uses; the literal spellings are the documented constants of
// the RBAC model (Visibility*, Role*, Action*, and the two core resource names).
const (
	visPublic  = "public"
	visPrivate = "private"
	visSystem  = "system"

	roleAdmin = "Admin"

	actRead     = "read"
	actWrite    = "write"
	actDelete   = "delete"
	actList     = "list"
	actAISelect = "ai_select"

	wildcard = "*"
)

var coreNames = []string{"SOP", "LongTermMemory"}

// rule bits: which clauses of the statement have their condition met by a tuple.
const (
	ruleCore      = 1 << iota // core resource and the action is write or delete
	ruleSystemVis             // the resource has system visibility
	ruleAdmin                 // caller is an admin
	ruleOwner                 // caller is the owner
	ruleRoleGrant             // caller holds a role with a grant for the action
	ruleUserGrant             // caller has a user grant for the action
	rulePublic                // public resource and the action is read or list
	ruleCount     = iota
)

var ruleNames = [ruleCount]string{"core", "sysvis", "admin", "owner", "roleGrant", "userGrant", "publicRL"}

func ruleLabel(bits int) string {
	var p []string
	for i := 0; i < ruleCount; i++ {
		if bits&(1<<i) != 0 {
			p = append(p, ruleNames[i])
		}
	}
	if len(p) == 0 {
		return "none"
	}
	return strings.Join(p, "&")
}

type refResult struct {
	Verdict verdict
	Rules   int    // rule bits whose condition holds (firm matches only)
	Weak    bool   // a basis exists only through an input the statement does not cover
	Why     string // short explanation for failure messages
}

// nonTrivial is the DESIGN rule: the decision depends on more than one rule, i.e. one
// of the two overriding clauses (core read-only, system visibility) applies together
// with at least one other clause (admin on a core resource, owner on a
// system-visibility resource, core write on a system-visibility resource ...).
func (r refResult) nonTrivial() bool {
	if r.Verdict == vUnspecified {
		return false
	}
	n := 0
	for i := 0; i < ruleCount; i++ {
		if r.Rules&(1<<i) != 0 {
			n++
		}
	}
	return n >= 2 && r.Rules&(ruleCore|ruleSystemVis) != 0
}

func isWriteOrDelete(a string) bool { return a == actWrite || a == actDelete }
func isReadOrList(a string) bool    { return a == actRead || a == actList }

func isCoreName(n string) bool {
	for _, c := range coreNames {
		if n == c {
			return true
		}
	}
	return false
}

// isCoreLookalike: a name that differs from a core name only by case / separators.
// The statement does not say whether such a resource is "core".
var lookalikeFold = strings.NewReplacer("_", "", "-", "", " ", "")

func isCoreLookalike(n string) bool {
	if isCoreName(n) {
		return false
	}
	f := strings.ToLower(lookalikeFold.Replace(n))
	return f == "sop" || f == "longtermmemory"
}

func grantCovers(list []string, action string) bool {
	for _, g := range list {
		if g == action || g == wildcard {
			return true
		}
	}
	return false
}

// refDecide is the oracle.
func refDecide(c refCaller, r refResource, action string) refResult {
	var res refResult

	// ---- which clauses apply
	core := isCoreName(r.Name) && isWriteOrDelete(action)
	if core {
		res.Rules |= ruleCore
	}
	if r.Visibility == visSystem {
		res.Rules |= ruleSystemVis
	}
	weakBasis := false
	for _, role := range c.Roles {
		if role == roleAdmin {
			res.Rules |= ruleAdmin
		} else if strings.EqualFold(strings.TrimSpace(role), roleAdmin) {
			weakBasis = true // "admin", "ADMIN", "Admin ": not the documented role; silent
		}
	}
	if r.Owner != "" && c.UserID == r.Owner {
		res.Rules |= ruleOwner
	}
	// a resource without an owner has no owner; an anonymous caller owns nothing.
	for _, role := range c.Roles {
		if g, ok := r.RoleGrants[role]; ok && grantCovers(g, action) {
			if role == "" {
				weakBasis = true // a grant addressed to the empty role name: silent
			} else {
				res.Rules |= ruleRoleGrant
			}
		}
	}
	if g, ok := r.UserGrants[c.UserID]; ok && grantCovers(g, action) {
		if c.UserID == "" {
			weakBasis = true // a grant addressed to the anonymous user: silent
		} else {
			res.Rules |= ruleUserGrant
		}
	}
	if r.Visibility == visPublic && isReadOrList(action) {
		res.Rules |= rulePublic
	}
	firmBasis := res.Rules&(ruleAdmin|ruleOwner|ruleRoleGrant|ruleUserGrant|rulePublic) != 0
	res.Weak = weakBasis && !firmBasis

	// ---- clause 1: core resources are never written or deleted, by anyone
	if core {
		res.Verdict, res.Why = vDeny, "core system resource: write/delete denied to everyone"
		return res
	}

	// ---- clause 2 and 3
	switch r.Visibility {
	case visSystem:
		if c.IsSystem {
			res.Verdict, res.Why = vAllow, "system-visibility resource, system caller"
		} else {
			res.Verdict, res.Why = vDeny, "system-visibility resource, caller is not a system caller"
		}
	case visPublic, visPrivate, "":
		switch {
		case firmBasis:
			res.Verdict, res.Why = vAllow, "basis: "+ruleLabel(res.Rules&^(ruleCore|ruleSystemVis))
		case weakBasis:
			res.Verdict, res.Why = vUnspecified, "only basis is through an empty/misspelt identifier"
		case r.Visibility == "" && isReadOrList(action):
			// is an unset visibility public? the statement does not say.
			res.Verdict, res.Why = vUnspecified, "visibility unset: read/list without another basis is not fixed by the statement"
		default:
			res.Verdict, res.Why = vDeny, "not admin, not owner, no grant for the action, not public read/list"
		}
	default:
		// a visibility outside the documented three (e.g. "System", "internal"): it might
		// be meant as any of them. Only the direction common to all readings is fixed.
		if !c.IsSystem && !firmBasis && !weakBasis && !isReadOrList(action) {
			res.Verdict, res.Why = vDeny, "unknown visibility, but no reading gives this caller a basis"
		} else {
			res.Verdict, res.Why = vUnspecified, "unknown visibility"
		}
	}

	// a look-alike of a core name ("sop"): allowing write/delete is not fixed either way.
	if res.Verdict == vAllow && isCoreLookalike(r.Name) && isWriteOrDelete(action) {
		res.Verdict, res.Why = vUnspecified, "core look-alike name"
	}
	return res
}

// ---- canonical renderings (deterministic: map keys sorted)

func renderGrants(m map[string][]string) string {
	if m == nil {
		return "-"
	}
	keys := make([]string, 0, len(m))
	for k := range m {
		keys = append(keys, k)
	}
	sort.Strings(keys)
	var b strings.Builder
	b.WriteByte('{')
	for i, k := range keys {
		if i > 0 {
			b.WriteByte(';')
		}
		b.WriteString(quoteIfOdd(k))
		b.WriteString(":[")
		for j, g := range m[k] {
			if j > 0 {
				b.WriteByte(',')
			}
			b.WriteString(quoteIfOdd(g))
		}
		b.WriteByte(']')
	}
	b.WriteByte('}')
	return b.String()
}

func quoteIfOdd(s string) string {
	if s == "" || strings.ContainsAny(s, " ,;:[]{}|\"") {
		return "\"" + s + "\""
	}
	return s
}

func renderList(l []string) string {
	p := make([]string, len(l))
	for i, s := range l {
		p[i] = quoteIfOdd(s)
	}
	return "[" + strings.Join(p, ",") + "]"
}

func renderCaller(c refCaller) string {
	s := "0"
	if c.IsSystem {
		s = "1"
	}
	return "roles=" + renderList(c.Roles) + " user=" + quoteIfOdd(c.UserID) + " sys=" + s
}

func renderResource(r refResource) string {
	return "name=" + quoteIfOdd(r.Name) + " vis=" + quoteIfOdd(r.Visibility) + " owner=" + quoteIfOdd(r.Owner) +
		" R=" + renderGrants(r.RoleGrants) + " U=" + renderGrants(r.UserGrants)
}
